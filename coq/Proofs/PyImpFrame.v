(** Frame theorem for the small imperative Python of Model/PyImp.v: a statement changes only the variables it syntactically
    assigns ([x = ..], [x += ..], [x[k] = ..], [x.append(..)], [x.pop(..)], loop variables).  Used to compose the link theorems
    of the fragments regenerated from postprocess.py. *)
From SKN Require Import Base.Util Model.PyImp.
From Coq Require Import String.
Local Open Scope nat_scope.

Fixpoint popped (ex : expr) : list string :=
  match ex with
  | EVar _ | EInt _ | ENone | EBool _ | EInf => []
  | EBin _ a b | ECmp _ a b | EAnd a b | EOr a b | EIndex a b | EIn a b | EMax a b | EHstack a b | EFull a b => popped a ++ popped b
  | ENot a | EIsNone a | ELen a | EIntOf a | ESortedCol a _ | EDictValues a | ENeg a | EOracle _ a | EZeros a
  | EIsInst _ a | EDictKeys a | EMin a | EOnes a | EAsFloat a => popped a
  | EPop x k => x :: popped k
  | EList l => (fix go (l : list expr) : list string := match l with [] => [] | a :: t => popped a ++ go t end) l
  | EDictRange _ _ _ n => popped n
  | EListComp _ _ it => popped it
  | EDictEnum _ _ _ _ it => popped it
  end.

Fixpoint assigned (s : stmt) : list string :=
  match s with
  | SSkip | SRaise _ => []
  | SSeq a b => assigned a ++ assigned b
  | SAssign x e | SAugAdd x e | SAppend x e => x :: popped e
  | SSetItem x k v => x :: popped k ++ popped v
  | SIf c a b => popped c ++ assigned a ++ assigned b
  | SForRange x n body => x :: popped n ++ assigned body
  | SForRows xs a body => xs ++ popped a ++ assigned body
  | SForEnum i x a body => i :: x :: popped a ++ assigned body
  | SUnpack xs e => xs ++ popped e
  end.

Lemma upd_other x y v (e : env) : x <> y -> upd x v e y = e y.
Proof. intros H. unfold upd. destruct (String.eqb_spec x y); [congruence | reflexivity]. Qed.

(** induction principle that sees through [EList] *)
Section ExprInd.
  Context (P : expr -> Prop).
  Context (Hvar : forall x, P (EVar x)).
  Context (Hint : forall z, P (EInt z)).
  Context (Hnone : P ENone).
  Context (Hbool : forall b, P (EBool b)).
  Context (Hinf : P EInf).
  Context (Hbin : forall o a b, P a -> P b -> P (EBin o a b)).
  Context (Hcmp : forall o a b, P a -> P b -> P (ECmp o a b)).
  Context (Hand : forall a b, P a -> P b -> P (EAnd a b)).
  Context (Hor : forall a b, P a -> P b -> P (EOr a b)).
  Context (Hnot : forall a, P a -> P (ENot a)).
  Context (Hisnone : forall a, P a -> P (EIsNone a)).
  Context (Hindex : forall a b, P a -> P b -> P (EIndex a b)).
  Context (Hin : forall a b, P a -> P b -> P (EIn a b)).
  Context (Hlen : forall a, P a -> P (ELen a)).
  Context (Hintof : forall a, P a -> P (EIntOf a)).
  Context (Hmax : forall a b, P a -> P b -> P (EMax a b)).
  Context (Hpop : forall x k, P k -> P (EPop x k)).
  Context (Hlist : forall l, Forall P l -> P (EList l)).
  Context (Hdr : forall x k v n, P k -> P v -> P n -> P (EDictRange x k v n)).
  Context (Hsc : forall a c, P a -> P (ESortedCol a c)).
  Context (Hdv : forall a, P a -> P (EDictValues a)).
  Context (Hlc : forall x b it, P b -> P it -> P (EListComp x b it)).
  Context (Hneg : forall a, P a -> P (ENeg a)).
  Context (Horacle : forall n a, P a -> P (EOracle n a)).
  Context (Hzeros : forall a, P a -> P (EZeros a)).
  Context (Hde : forall i x k v it, P k -> P v -> P it -> P (EDictEnum i x k v it)).
  Context (Hinst : forall k a, P a -> P (EIsInst k a)).
  Context (Hkeys : forall a, P a -> P (EDictKeys a)).
  Context (Hmin : forall a, P a -> P (EMin a)).
  Context (Hones : forall a, P a -> P (EOnes a)).
  Context (Hasf : forall a, P a -> P (EAsFloat a)).
  Context (Hhst : forall a b, P a -> P b -> P (EHstack a b)).
  Context (Hfull : forall a b, P a -> P b -> P (EFull a b)).

  Fixpoint expr_ind' (ex : expr) : P ex :=
    match ex with
    | EVar x => Hvar x | EInt z => Hint z | ENone => Hnone | EBool b => Hbool b | EInf => Hinf
    | EBin o a b => Hbin o a b (expr_ind' a) (expr_ind' b)
    | ECmp o a b => Hcmp o a b (expr_ind' a) (expr_ind' b)
    | EAnd a b => Hand a b (expr_ind' a) (expr_ind' b)
    | EOr a b => Hor a b (expr_ind' a) (expr_ind' b)
    | ENot a => Hnot a (expr_ind' a)
    | EIsNone a => Hisnone a (expr_ind' a)
    | EIndex a b => Hindex a b (expr_ind' a) (expr_ind' b)
    | EIn a b => Hin a b (expr_ind' a) (expr_ind' b)
    | ELen a => Hlen a (expr_ind' a)
    | EIntOf a => Hintof a (expr_ind' a)
    | EMax a b => Hmax a b (expr_ind' a) (expr_ind' b)
    | EPop x k => Hpop x k (expr_ind' k)
    | EList l => Hlist l ((fix go (l : list expr) : Forall P l :=
                             match l with [] => Forall_nil P | a :: t => Forall_cons a (expr_ind' a) (go t) end) l)
    | EDictRange x k v n => Hdr x k v n (expr_ind' k) (expr_ind' v) (expr_ind' n)
    | ESortedCol a c => Hsc a c (expr_ind' a)
    | EDictValues a => Hdv a (expr_ind' a)
    | EListComp x b it => Hlc x b it (expr_ind' b) (expr_ind' it)
    | ENeg a => Hneg a (expr_ind' a)
    | EOracle n a => Horacle n a (expr_ind' a)
    | EZeros a => Hzeros a (expr_ind' a)
    | EDictEnum i x k v it => Hde i x k v it (expr_ind' k) (expr_ind' v) (expr_ind' it)
    | EIsInst k a => Hinst k a (expr_ind' a)
    | EDictKeys a => Hkeys a (expr_ind' a)
    | EMin a => Hmin a (expr_ind' a)
    | EOnes a => Hones a (expr_ind' a)
    | EAsFloat a => Hasf a (expr_ind' a)
    | EHstack a b => Hhst a b (expr_ind' a) (expr_ind' b)
    | EFull a b => Hfull a b (expr_ind' a) (expr_ind' b)
    end.
End ExprInd.

Lemma eval_frame : forall ex (e e1 : env) v, eval ex e = POk (e1, v) -> forall x, ~ In x (popped ex) -> e1 x = e x.
Proof.
  induction ex using expr_ind'; intros e e1 v0 Hev y Hy; cbn [eval popped] in *.
  - destruct (e x); inversion Hev; subst; reflexivity.
  - inversion Hev; subst; reflexivity.
  - inversion Hev; subst; reflexivity.
  - inversion Hev; subst; reflexivity.
  - inversion Hev; subst; reflexivity.
  - (* EBin *) destruct (eval ex1 e) as [[e2 va]|] eqn:E1; [|discriminate].
    destruct (eval ex2 e2) as [[e3 vb]|] eqn:E2; [|discriminate].
    destruct (bin_vals o va vb); inversion Hev; subst.
    rewrite (IHex2 _ _ _ E2), (IHex1 _ _ _ E1); [reflexivity | |]; intros Hin; apply Hy; apply in_or_app; tauto.
  - (* ECmp *) destruct (eval ex1 e) as [[e2 va]|] eqn:E1; [|discriminate].
    destruct (eval ex2 e2) as [[e3 vb]|] eqn:E2; [|discriminate].
    destruct (cmp_vals o va vb); inversion Hev; subst.
    rewrite (IHex2 _ _ _ E2), (IHex1 _ _ _ E1); [reflexivity | |]; intros Hin; apply Hy; apply in_or_app; tauto.
  - (* EAnd *) destruct (eval ex1 e) as [[e2 va]|] eqn:E1; [|discriminate].
    assert (H1 : e2 y = e y) by (apply (IHex1 _ _ _ E1); intros Hin; apply Hy; apply in_or_app; tauto).
    destruct va; try discriminate. destruct b.
    + destruct (eval ex2 e2) as [[e3 vb]|] eqn:E2; [|discriminate].
      destruct vb; inversion Hev; subst. rewrite (IHex2 _ _ _ E2); [exact H1|]. intros Hin; apply Hy; apply in_or_app; tauto.
    + inversion Hev; subst. exact H1.
  - (* EOr *) destruct (eval ex1 e) as [[e2 va]|] eqn:E1; [|discriminate].
    assert (H1 : e2 y = e y) by (apply (IHex1 _ _ _ E1); intros Hin; apply Hy; apply in_or_app; tauto).
    destruct va; try discriminate. destruct b.
    + inversion Hev; subst. exact H1.
    + destruct (eval ex2 e2) as [[e3 vb]|] eqn:E2; [|discriminate].
      destruct vb; inversion Hev; subst. rewrite (IHex2 _ _ _ E2); [exact H1|]. intros Hin; apply Hy; apply in_or_app; tauto.
  - (* ENot *) destruct (eval ex e) as [[e2 va]|] eqn:E1; [|discriminate].
    destruct va; inversion Hev; subst. apply (IHex _ _ _ E1). exact Hy.
  - (* EIsNone *) destruct (eval ex e) as [[e2 va]|] eqn:E1; [|discriminate].
    destruct va; inversion Hev; subst; apply (IHex _ _ _ E1); exact Hy.
  - (* EIndex *) destruct (eval ex1 e) as [[e2 va]|] eqn:E1; [|discriminate].
    destruct (eval ex2 e2) as [[e3 vb]|] eqn:E2; [|discriminate].
    destruct (index_vals va vb); inversion Hev; subst.
    rewrite (IHex2 _ _ _ E2), (IHex1 _ _ _ E1); [reflexivity | |]; intros Hin; apply Hy; apply in_or_app; tauto.
  - (* EIn *) destruct (eval ex1 e) as [[e2 va]|] eqn:E1; [|discriminate].
    destruct (eval ex2 e2) as [[e3 vb]|] eqn:E2; [|discriminate].
    destruct vb; try discriminate. destruct (as_key va) as [[z|]|]; inversion Hev; subst;
      (rewrite (IHex2 _ _ _ E2), (IHex1 _ _ _ E1); [reflexivity | |]; intros Hin; apply Hy; apply in_or_app; tauto).
  - (* ELen *) destruct (eval ex e) as [[e2 va]|] eqn:E1; [|discriminate].
    destruct va; inversion Hev; subst; apply (IHex _ _ _ E1); exact Hy.
  - (* EIntOf *) destruct (eval ex e) as [[e2 va]|] eqn:E1; [|discriminate].
    destruct va; inversion Hev; subst; apply (IHex _ _ _ E1); exact Hy.
  - (* EMax *) destruct (eval ex1 e) as [[e2 va]|] eqn:E1; [|discriminate].
    destruct (eval ex2 e2) as [[e3 vb]|] eqn:E2; [|discriminate].
    destruct (max_vals va vb); inversion Hev; subst.
    rewrite (IHex2 _ _ _ E2), (IHex1 _ _ _ E1); [reflexivity | |]; intros Hin; apply Hy; apply in_or_app; tauto.
  - (* EPop *) destruct (eval ex e) as [[e2 va]|] eqn:E1; [|discriminate].
    destruct (as_key va) as [[z|]|]; try discriminate.
    + destruct (e2 x) as [vx|] eqn:Ex; [|discriminate].
      destruct vx; try discriminate. destruct (dget z d); inversion Hev; subst.
      rewrite upd_other by (intros E; apply Hy; left; exact E).
      apply (IHex _ _ _ E1). intros Hin. apply Hy. right. exact Hin.
    + destruct (e2 x) as [vx|]; [|discriminate]. destruct vx; discriminate.
  - (* EList *) revert e e1 v0 Hev Hy. induction H as [|a l Ha Hl IHl]; intros e e1 v0 H0 Hy.
    + inversion H0; subst; reflexivity.
    + destruct (eval a e) as [[e2 va]|] eqn:E1; [|discriminate].
      match type of H0 with match ?t with _ => _ end = _ => destruct t as [[e3 vs]|] eqn:E2; [|discriminate] end.
      destruct vs; inversion H0; subst.
      rewrite (IHl _ _ _ E2), (Ha _ _ _ E1); [reflexivity | |]; intros Hin; apply Hy; apply in_or_app; tauto.
  - (* EDictRange *) destruct (eval ex3 e) as [[e2 va]|] eqn:E1; [|discriminate].
    destruct va; try discriminate.
    match type of Hev with match ?t with _ => _ end = _ => destruct t; inversion Hev; subst end.
    apply (IHex3 _ _ _ E1). exact Hy.
  - (* ESortedCol *) destruct (eval ex e) as [[e2 va]|] eqn:E1; [|discriminate].
    destruct va; try discriminate. destruct (column c l); inversion Hev; subst. apply (IHex _ _ _ E1). exact Hy.
  - (* EDictValues *) destruct (eval ex e) as [[e2 va]|] eqn:E1; [|discriminate].
    destruct va; inversion Hev; subst. apply (IHex _ _ _ E1). exact Hy.
  - (* EListComp *) destruct (eval ex2 e) as [[e2 va]|] eqn:E1; [|discriminate].
    destruct va; try discriminate.
    match type of Hev with match ?t with _ => _ end = _ => destruct t; inversion Hev; subst end.
    apply (IHex2 _ _ _ E1). exact Hy.
  - (* ENeg *) destruct (eval ex e) as [[e2 va]|] eqn:E1; [|discriminate].
    destruct (neg_val va); inversion Hev; subst. apply (IHex _ _ _ E1). exact Hy.
  - (* EOracle *) destruct (eval ex e) as [[e2 va]|] eqn:E1; [|discriminate].
    destruct va; try discriminate. destruct (e2 _); inversion Hev; subst. apply (IHex _ _ _ E1). exact Hy.
  - (* EZeros *) destruct (eval ex e) as [[e2 va]|] eqn:E1; [|discriminate].
    destruct va; inversion Hev; subst. apply (IHex _ _ _ E1). exact Hy.
  - (* EDictEnum *) destruct (eval ex3 e) as [[e2 va]|] eqn:E1; [|discriminate].
    destruct va; try discriminate.
    match type of Hev with match ?t with _ => _ end = _ => destruct t; inversion Hev; subst end.
    apply (IHex3 _ _ _ E1). exact Hy.
  - (* EIsInst *) destruct (eval ex e) as [[e2 va]|] eqn:E1; [|discriminate].
    inversion Hev; subst. apply (IHex _ _ _ E1). exact Hy.
  - (* EDictKeys *) destruct (eval ex e) as [[e2 va]|] eqn:E1; [|discriminate].
    destruct va; inversion Hev; subst. apply (IHex _ _ _ E1). exact Hy.
  - (* EMin *) destruct (eval ex e) as [[e2 va]|] eqn:E1; [|discriminate].
    destruct va; try discriminate. destruct l as [|h t]; [discriminate|].
    destruct h; try discriminate.
    + destruct (min_q _ t); inversion Hev; subst. apply (IHex _ _ _ E1). exact Hy.
    + destruct (min_q _ t); inversion Hev; subst. apply (IHex _ _ _ E1). exact Hy.
  - (* EOnes *) destruct (eval ex e) as [[e2 va]|] eqn:E1; [|discriminate].
    destruct va; inversion Hev; subst. apply (IHex _ _ _ E1). exact Hy.
  - (* EAsFloat *) destruct (eval ex e) as [[e2 va]|] eqn:E1; [|discriminate].
    destruct va; try discriminate. destruct (as_float l); inversion Hev; subst. apply (IHex _ _ _ E1). exact Hy.
  - (* EHstack *) destruct (eval ex1 e) as [[e2 va]|] eqn:E1; [|discriminate].
    destruct (eval ex2 e2) as [[e3 vb]|] eqn:E2; [|discriminate].
    destruct va; try discriminate. destruct vb; inversion Hev; subst.
    rewrite (IHex2 _ _ _ E2), (IHex1 _ _ _ E1); [reflexivity | |]; intros Hin; apply Hy; apply in_or_app; tauto.
  - (* EFull *) destruct (eval ex1 e) as [[e2 va]|] eqn:E1; [|discriminate].
    destruct va; try discriminate.
    destruct (eval ex2 e2) as [[e3 vb]|] eqn:E2; [|discriminate].
    destruct vb; inversion Hev; subst;
      (rewrite (IHex2 _ _ _ E2), (IHex1 _ _ _ E1); [reflexivity | |]; intros Hin; apply Hy; apply in_or_app; tauto).
Qed.

Lemma for_range_frame (f : Z -> env -> pres env) x :
  (forall i (e e' : env), f i e = POk e' -> e' x = e x) ->
  forall cnt i (e e' : env), for_range f cnt i e = POk e' -> e' x = e x.
Proof.
  intros Hf. induction cnt as [|c IH]; intros i e e' H; cbn [for_range] in H.
  - inversion H; subst; reflexivity.
  - destruct (f i e) as [e1|] eqn:E; [|discriminate]. rewrite (IH _ _ _ H). apply (Hf _ _ _ E).
Qed.

Lemma for_rows_frame (f : val -> env -> pres env) x :
  (forall r (e e' : env), f r e = POk e' -> e' x = e x) ->
  forall rows (e e' : env), for_rows f rows e = POk e' -> e' x = e x.
Proof.
  intros Hf. induction rows as [|r t IH]; intros e e' H; cbn [for_rows] in H.
  - inversion H; subst; reflexivity.
  - destruct (f r e) as [e1|] eqn:E; [|discriminate]. rewrite (IH _ _ H). apply (Hf _ _ _ E).
Qed.

Lemma for_enum_frame (f : Z -> val -> env -> pres env) x :
  (forall p r (e e' : env), f p r e = POk e' -> e' x = e x) ->
  forall items p (e e' : env), for_enum f items p e = POk e' -> e' x = e x.
Proof.
  intros Hf. induction items as [|r t IH]; intros p e e' H; cbn [for_enum] in H.
  - inversion H; subst; reflexivity.
  - destruct (f p r e) as [e1|] eqn:E; [|discriminate]. rewrite (IH _ _ _ H). apply (Hf _ _ _ _ E).
Qed.

Lemma bind_all_frame : forall xs vs (e e' : env) x, bind_all xs vs e = Some e' -> ~ In x xs -> e' x = e x.
Proof.
  induction xs as [|a xs IH]; intros [|v vs] e e' x H Hx; cbn [bind_all] in H; try discriminate.
  - inversion H; subst; reflexivity.
  - rewrite (IH _ _ _ _ H) by (intros Hin; apply Hx; right; exact Hin).
    apply upd_other. intros E. apply Hx. left. exact E.
Qed.

Theorem exec_frame : forall s (en en' : env), exec s en = POk en' -> forall y, ~ In y (assigned s) -> en' y = en y.
Proof.
  induction s as [| s1 IHs1 s2 IHs2 | x ex | x ex | x k v | x ex | c s1 IHs1 s2 IHs2 | x n s IHs | xs a s IHs | i x a s IHs | xs ex | er];
    intros en en' H y Hy; cbn [exec assigned] in *.
  - inversion H; subst; reflexivity.
  - destruct (exec s1 en) as [e1|] eqn:E1; [|discriminate].
    rewrite (IHs2 _ _ H), (IHs1 _ _ E1); [reflexivity | |]; intros Hin; apply Hy; apply in_or_app; tauto.
  - destruct (eval ex en) as [[e1 v]|] eqn:E1; [|discriminate]. inversion H; subst.
    rewrite upd_other by (intros E; apply Hy; left; exact E).
    apply (eval_frame _ _ _ _ E1). intros Hin. apply Hy. right. exact Hin.
  - destruct (en x) as [v0|]; [|discriminate].
    destruct (eval ex en) as [[e1 v]|] eqn:E1; [|discriminate].
    destruct (bin_vals BAdd v0 v); inversion H; subst.
    rewrite upd_other by (intros E; apply Hy; left; exact E).
    apply (eval_frame _ _ _ _ E1). intros Hin. apply Hy. right. exact Hin.
  - destruct (eval v en) as [[e1 vv]|] eqn:E1; [|discriminate].
    destruct (eval k e1) as [[e2 vk]|] eqn:E2; [|discriminate].
    assert (F : e2 y = en y).
    { rewrite (eval_frame _ _ _ _ E2), (eval_frame _ _ _ _ E1); [reflexivity | |];
        intros Hin; apply Hy; right; apply in_or_app; tauto. }
    destruct vk; try discriminate.
    + destruct (e2 x) as [vx|]; [|discriminate]. destruct vx; try discriminate.
      * destruct (list_set l z vv); inversion H; subst.
        rewrite upd_other by (intros E; apply Hy; left; exact E). exact F.
      * inversion H; subst. rewrite upd_other by (intros E; apply Hy; left; exact E). exact F.
    + destruct (e2 x) as [vx|]; [|discriminate]. destruct vx; try discriminate.
      match type of H with match ?t with _ => _ end = _ => destruct t; inversion H; subst end.
      rewrite upd_other by (intros E; apply Hy; left; exact E). exact F.
  - destruct (eval ex en) as [[e1 v]|] eqn:E1; [|discriminate].
    destruct (e1 x) as [vx|]; [|discriminate]. destruct vx; inversion H; subst.
    rewrite upd_other by (intros E; apply Hy; left; exact E).
    apply (eval_frame _ _ _ _ E1). intros Hin. apply Hy. right. exact Hin.
  - destruct (eval c en) as [[e1 v]|] eqn:E1; [|discriminate].
    assert (F : e1 y = en y) by (apply (eval_frame _ _ _ _ E1); intros Hin; apply Hy; apply in_or_app; tauto).
    destruct v; try discriminate. destruct b.
    + rewrite (IHs1 _ _ H); [exact F|]. intros Hin; apply Hy; apply in_or_app; right; apply in_or_app; tauto.
    + rewrite (IHs2 _ _ H); [exact F|]. intros Hin; apply Hy; apply in_or_app; right; apply in_or_app; tauto.
  - destruct (eval n en) as [[e1 v]|] eqn:E1; [|discriminate].
    assert (F : e1 y = en y) by (apply (eval_frame _ _ _ _ E1); intros Hin; apply Hy; right; apply in_or_app; tauto).
    destruct v; try discriminate.
    transitivity (e1 y); [|exact F]. eapply (for_range_frame _ y); [|exact H].
    intros i ea eb Hb. rewrite (IHs _ _ Hb) by (intros Hin; apply Hy; right; apply in_or_app; tauto).
    apply upd_other. intros E. apply Hy. left. exact E.
  - destruct (eval a en) as [[e1 v]|] eqn:E1; [|discriminate].
    assert (F : e1 y = en y)
      by (apply (eval_frame _ _ _ _ E1); intros Hin; apply Hy; apply in_or_app; right; apply in_or_app; tauto).
    destruct v; try discriminate.
    transitivity (e1 y); [|exact F]. eapply (for_rows_frame _ y); [|exact H].
    intros r ea eb Hb. destruct r; try discriminate.
    destruct (bind_all xs l0 ea) as [ec|] eqn:Eb; [|discriminate].
    rewrite (IHs _ _ Hb) by (intros Hin; apply Hy; apply in_or_app; right; apply in_or_app; tauto).
    apply (bind_all_frame _ _ _ _ _ Eb). intros Hin. apply Hy. apply in_or_app. tauto.
  - destruct (eval a en) as [[e1 v]|] eqn:E1; [|discriminate].
    assert (F : e1 y = en y)
      by (apply (eval_frame _ _ _ _ E1); intros Hin; apply Hy; right; right; apply in_or_app; tauto).
    destruct v; try discriminate.
    transitivity (e1 y); [|exact F]. eapply (for_enum_frame _ y); [|exact H].
    intros p r ea eb Hb. rewrite (IHs _ _ Hb) by (intros Hin; apply Hy; right; right; apply in_or_app; tauto).
    rewrite upd_other by (intros E; apply Hy; right; left; exact E).
    apply upd_other. intros E. apply Hy. left. exact E.
  - destruct (eval ex en) as [[e1 v]|] eqn:E1; [|discriminate].
    destruct v; try discriminate. destruct (bind_all xs l e1) as [e2|] eqn:Eb; inversion H; subst.
    rewrite (bind_all_frame _ _ _ _ _ Eb) by (intros Hin; apply Hy; apply in_or_app; tauto).
    apply (eval_frame _ _ _ _ E1). intros Hin. apply Hy. apply in_or_app. tauto.
  - discriminate.
Qed.

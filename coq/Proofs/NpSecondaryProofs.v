(** C05, secondary outputs, about the terms regenerated from sknetwork/clustering/base.py (Gen/NpSecondary.v, language
    and semantics of Model/NpVec.v), over R: for every non-negative (bi)adjacency matrix (as an index function) and every
    non-negative label vectors, the denotation of the soft membership has non-negative rows that sum to 1 (to 0 when the
    node has no outgoing weight), the aggregate matrix is the sum of the edge weights between clusters, and its total is
    the total edge weight.  Square case ([probs_], [aggregate_]) and bipartite case ([probs_row_], [probs_col_],
    [aggregate_]). *)
From SKN Require Import Base.Util Model.Gnn Model.NpExpr Model.NpVec Gen.NpSecondary Proofs.NpVecProofs Proofs.NpModularityProofs.
Set Warnings "-notation-overridden,-ambiguous-paths".
From Coq Require Import Reals Lra String.
Local Open Scope R_scope.
Local Open Scope string_scope.
Notation ind := NpModularityProofs.ind.

Definition env_sec (n : nat) (A : nat -> nat -> R) (l : list Z) : venv :=
  ("input_matrix", WM n n A) :: ("self.labels_", WLab l) :: nil.
Definition env_sec_bip (n1 n2 : nat) (B : nat -> nat -> R) (lr lc : list Z) : venv :=
  ("input_matrix", WM n1 n2 B) :: ("self.labels_row_", WLab lr) :: ("self.labels_col_", WLab lc) :: nil.

(** labels of [n] nodes, all in [0, K) *)
Definition labels_in (n K : nat) (l : list Z) : Prop :=
  List.length l = n /\ forall i, (i < n)%nat -> (0 <= lab l i)%Z /\ (Z.to_nat (lab l i) < K)%nat.
Definition nonneg_rect (n1 n2 : nat) (B : nat -> nat -> R) : Prop :=
  forall i j, (i < n1)%nat -> (j < n2)%nat -> 0 <= B i j.
Definition nlab2 (lr lc : list Z) : nat :=
  Z.to_nat (Z.max (fold_right Z.max (-1)%Z lr) (fold_right Z.max (-1)%Z lc) + 1).

Lemma labels_ok_in n l : labels_ok n l -> labels_in n (nlab l) l.
Proof. intros H. split; [exact (proj1 H)|]. intros i Hi. split; [apply (proj2 H); exact Hi | apply (lab_below n); assumption]. Qed.

Lemma labels_in2_l n lr lc : labels_ok n lr -> labels_in n (nlab2 lr lc) lr.
Proof.
  intros H. split; [exact (proj1 H)|]. intros i Hi. pose proof (proj2 H i Hi) as Hp. split; [exact Hp|].
  assert (lab lr i <= fold_right Z.max (-1) lr)%Z by (apply max_ge; unfold lab; apply nth_In; rewrite (proj1 H); exact Hi).
  unfold nlab2. lia.
Qed.
Lemma labels_in2_r n lr lc : labels_ok n lc -> labels_in n (nlab2 lr lc) lc.
Proof.
  intros H. split; [exact (proj1 H)|]. intros i Hi. pose proof (proj2 H i Hi) as Hp. split; [exact Hp|].
  assert (lab lc i <= fold_right Z.max (-1) lc)%Z by (apply max_ge; unfold lab; apply nth_In; rewrite (proj1 H); exact Hi).
  unfold nlab2. lia.
Qed.

(* ------------------------------------------------------------------------------------------- *)
(** * Indicators *)
Lemma ind_nonneg l i c : 0 <= ind l i c. Proof. unfold ind. destruct (Z.eqb _ _); lra. Qed.

Lemma ind_collapse_K n K l i (g : nat -> R) : labels_in n K l -> (i < n)%nat ->
  lsum (seq 0 K) (fun c => ind l i c * g c) = g (Z.to_nat (lab l i)).
Proof.
  intros [Hlen Hl] Hi. destruct (Hl i Hi) as [Hp Hb].
  rewrite (lsum_ext _ _ (fun c => (if Nat.eqb (Z.to_nat (lab l i)) c then 1 else 0) * g c)).
  - apply lsum_pick; [apply seq_NoDup | apply in_seq0; exact Hb].
  - intros c _. unfold ind.
    destruct (Z.eqb_spec (lab l i) (Z.of_nat c)) as [E|E]; destruct (Nat.eqb_spec (Z.to_nat (lab l i)) c) as [E'|E'];
      try reflexivity; exfalso; lia.
Qed.

Lemma ind_sum_1 n K l i : labels_in n K l -> (i < n)%nat -> lsum (seq 0 K) (ind l i) = 1.
Proof.
  intros H Hi. rewrite (lsum_ext _ _ (fun c => ind l i c * 1)) by (intros; lra).
  exact (ind_collapse_K n K l i (fun _ => 1) H Hi).
Qed.

(* ------------------------------------------------------------------------------------------- *)
(** * Rows of normalize(B . M) *)
Definition mass (n2 : nat) (B : nat -> nat -> R) (l : list Z) (i c : nat) : R := lsum (seq 0 n2) (fun j => B i j * ind l j c).
Definition soft (n2 K : nat) (B : nat -> nat -> R) (l : list Z) (i c : nat) : R :=
  pinvT Rdiv 0 1 Reqb (lsum (seq 0 K) (fun c' => Rabs (mass n2 B l i c'))) * mass n2 B l i c.

Lemma mass_nonneg n1 n2 B l i c : nonneg_rect n1 n2 B -> (i < n1)%nat -> 0 <= mass n2 B l i c.
Proof.
  intros HB Hi. unfold mass. apply lsum_nonneg. intros j Hj. apply in_seq0 in Hj.
  apply Rmult_le_pos; [apply HB; assumption | apply ind_nonneg].
Qed.

Lemma mass_total (n1 : nat) n2 K B l i : labels_in n2 K l -> lsum (seq 0 K) (mass n2 B l i) = lsum (seq 0 n2) (B i).
Proof.
  intros Hl. unfold mass.
  rewrite lsum_swap. apply lsum_ext. intros j Hj. apply in_seq0 in Hj.
  rewrite lsum_scale. rewrite (ind_sum_1 n2 K l j Hl Hj). rewrite Rmult_1_r. reflexivity.
Qed.

Lemma soft_rows n1 n2 K B l i :
  nonneg_rect n1 n2 B -> labels_in n2 K l -> (i < n1)%nat ->
  (forall c, (c < K)%nat -> 0 <= soft n2 K B l i c) /\
  (0 < lsum (seq 0 n2) (B i) -> lsum (seq 0 K) (soft n2 K B l i) = 1) /\
  (lsum (seq 0 n2) (B i) = 0 -> forall c, (c < K)%nat -> soft n2 K B l i c = 0).
Proof.
  intros HB Hl Hi.
  assert (Habs : lsum (seq 0 K) (fun c' => Rabs (mass n2 B l i c')) = lsum (seq 0 n2) (B i)).
  { rewrite <- (mass_total n1 n2 K B l i Hl). apply lsum_ext. intros c _.
    apply Rabs_pos_eq. apply (mass_nonneg n1); assumption. }
  assert (Hs : 0 <= lsum (seq 0 n2) (B i)).
  { apply lsum_nonneg. intros j Hj. apply in_seq0 in Hj. apply HB; assumption. }
  unfold soft. rewrite Habs. unfold pinvT. split; [|split].
  - intros c Hc. pose proof (mass_nonneg n1 n2 B l i c HB Hi) as Hm.
    destruct (Reqb (lsum (seq 0 n2) (B i)) 0) eqn:E; [lra|].
    assert (lsum (seq 0 n2) (B i) <> 0) by (intros F; apply Reqb_true in F; congruence).
    apply Rmult_le_pos; [|exact Hm]. unfold Rdiv. rewrite Rmult_1_l. apply Rlt_le, Rinv_0_lt_compat. lra.
  - intros Hpos. destruct (Reqb (lsum (seq 0 n2) (B i)) 0) eqn:E; [apply Reqb_true in E; lra|].
    rewrite lsum_scale, (mass_total n1 n2 K B l i Hl). field. lra.
  - intros H0 c Hc. rewrite H0. replace (Reqb 0 0) with true by (symmetry; apply Reqb_true; reflexivity). lra.
Qed.

(* ------------------------------------------------------------------------------------------- *)
(** * Aggregate M_r^T B M_c *)
Definition agg (n1 n2 : nat) (B : nat -> nat -> R) (lr lc : list Z) (c d : nat) : R :=
  lsum (seq 0 n1) (fun i => ind lr i c * lsum (seq 0 n2) (fun j => B i j * ind lc j d)).

Lemma agg_total n1 n2 K B lr lc : labels_in n1 K lr -> labels_in n2 K lc ->
  lsum (seq 0 K) (fun c => lsum (seq 0 K) (agg n1 n2 B lr lc c)) = lsum (seq 0 n1) (fun i => lsum (seq 0 n2) (B i)).
Proof.
  intros Hr Hc. unfold agg.
  (* sum over d first *)
  rewrite (lsum_ext (seq 0 K) _ (fun c => lsum (seq 0 n1) (fun i => ind lr i c * lsum (seq 0 n2) (B i)))).
  - rewrite lsum_swap. apply lsum_ext. intros i Hi. apply in_seq0 in Hi.
    rewrite lsum_scale_r. rewrite (ind_sum_1 n1 K lr i Hr Hi). rewrite Rmult_1_l. reflexivity.
  - intros c _. rewrite lsum_swap. apply lsum_ext. intros i _.
    rewrite lsum_scale. f_equal.
    rewrite lsum_swap. apply lsum_ext. intros j Hj. apply in_seq0 in Hj.
    rewrite lsum_scale. rewrite (ind_sum_1 n2 K lc j Hc Hj). rewrite Rmult_1_r. reflexivity.
Qed.

(** the bipartite branch computes (M_r^T B) M_c: the same entries *)
Lemma agg_other_order n1 n2 B lr lc c d :
  lsum (seq 0 n2) (fun j => lsum (seq 0 n1) (fun i => ind lr i c * B i j) * ind lc j d) = agg n1 n2 B lr lc c d.
Proof.
  unfold agg.
  rewrite (lsum_ext (seq 0 n2) _ (fun j => lsum (seq 0 n1) (fun i => ind lr i c * B i j * ind lc j d)))
    by (intros j _; rewrite <- lsum_scale_r; reflexivity).
  rewrite lsum_swap. apply lsum_ext. intros i _. rewrite <- lsum_scale. apply lsum_ext. intros j _. ring.
Qed.

(* ------------------------------------------------------------------------------------------- *)
(** * The source terms *)
Theorem source_secondary_probs n A l :
  labels_ok n l -> nonneg_mat n A ->
  exists f, rvdenote (env_sec n A l) src_secondary_probs = Some (WM n (nlab l) f) /\
    forall i, (i < n)%nat ->
      (forall c, (c < nlab l)%nat -> 0 <= f i c) /\
      (0 < rsum n (A i) -> rsum (nlab l) (f i) = 1) /\
      (rsum n (A i) = 0 -> forall c, (c < nlab l)%nat -> f i c = 0).
Proof.
  intros Hok HA. pose proof (proj1 Hok) as Hl. exists (soft n (nlab l) A l). split.
  - unfold rvdenote, env_sec, src_secondary_probs. repeat (cbn; rewrite ?Nat.eqb_refl, ?Hl). reflexivity.
  - intros i Hi. apply (soft_rows n n (nlab l) A l i); [exact HA | apply labels_ok_in; exact Hok | exact Hi].
Qed.

Theorem source_secondary_aggregate n A l :
  labels_ok n l ->
  exists f, rvdenote (env_sec n A l) src_secondary_aggregate = Some (WM (nlab l) (nlab l) f) /\
    (forall c d, f c d = rsum n (fun i => rsum n (fun j => ind l i c * A i j * ind l j d))) /\
    rsum (nlab l) (fun c => rsum (nlab l) (f c)) = rsum n (fun i => rsum n (A i)).
Proof.
  intros Hok. pose proof (proj1 Hok) as Hl. exists (agg n n A l l). split; [|split].
  - unfold rvdenote, env_sec, src_secondary_aggregate. repeat (cbn; rewrite ?Nat.eqb_refl, ?Hl). reflexivity.
  - intros c d. unfold agg. apply lsum_ext. intros i _.
    rewrite <- lsum_scale. apply lsum_ext. intros j _. ring.
  - exact (agg_total n n (nlab l) A l l (labels_ok_in n l Hok) (labels_ok_in n l Hok)).
Qed.

Theorem source_secondary_probs_row n1 n2 B lr lc :
  labels_ok n1 lr -> labels_ok n2 lc -> nonneg_rect n1 n2 B ->
  exists f, rvdenote (env_sec_bip n1 n2 B lr lc) src_secondary_probs_row = Some (WM n1 (nlab2 lr lc) f) /\
    forall i, (i < n1)%nat ->
      (forall c, (c < nlab2 lr lc)%nat -> 0 <= f i c) /\
      (0 < rsum n2 (B i) -> rsum (nlab2 lr lc) (f i) = 1) /\
      (rsum n2 (B i) = 0 -> forall c, (c < nlab2 lr lc)%nat -> f i c = 0).
Proof.
  intros Hr Hc HB. pose proof (proj1 Hr) as H1. pose proof (proj1 Hc) as H2.
  exists (soft n2 (nlab2 lr lc) B lc). split.
  - unfold rvdenote, env_sec_bip, src_secondary_probs_row. repeat (cbn; rewrite ?Nat.eqb_refl, ?H1, ?H2). reflexivity.
  - intros i Hi. apply (soft_rows n1 n2 (nlab2 lr lc) B lc i); [exact HB | apply labels_in2_r; exact Hc | exact Hi].
Qed.

Theorem source_secondary_probs_col n1 n2 B lr lc :
  labels_ok n1 lr -> labels_ok n2 lc -> nonneg_rect n1 n2 B ->
  exists f, rvdenote (env_sec_bip n1 n2 B lr lc) src_secondary_probs_col = Some (WM n2 (nlab2 lr lc) f) /\
    forall j, (j < n2)%nat ->
      (forall c, (c < nlab2 lr lc)%nat -> 0 <= f j c) /\
      (0 < rsum n1 (fun i => B i j) -> rsum (nlab2 lr lc) (f j) = 1) /\
      (rsum n1 (fun i => B i j) = 0 -> forall c, (c < nlab2 lr lc)%nat -> f j c = 0).
Proof.
  intros Hr Hc HB. pose proof (proj1 Hr) as H1. pose proof (proj1 Hc) as H2.
  exists (soft n1 (nlab2 lr lc) (fun j i => B i j) lr). split.
  - unfold rvdenote, env_sec_bip, src_secondary_probs_col. repeat (cbn; rewrite ?Nat.eqb_refl, ?H1, ?H2). reflexivity.
  - intros j Hj. apply (soft_rows n2 n1 (nlab2 lr lc) (fun j i => B i j) lr j);
      [intros a b Ha Hb; apply HB; assumption | apply labels_in2_l; exact Hr | exact Hj].
Qed.

Theorem source_secondary_aggregate_bip n1 n2 B lr lc :
  labels_ok n1 lr -> labels_ok n2 lc ->
  exists f, rvdenote (env_sec_bip n1 n2 B lr lc) src_secondary_aggregate_bip = Some (WM (nlab2 lr lc) (nlab2 lr lc) f) /\
    (forall c d, f c d = rsum n1 (fun i => rsum n2 (fun j => ind lr i c * B i j * ind lc j d))) /\
    rsum (nlab2 lr lc) (fun c => rsum (nlab2 lr lc) (f c)) = rsum n1 (fun i => rsum n2 (B i)).
Proof.
  intros Hr Hc. pose proof (proj1 Hr) as H1. pose proof (proj1 Hc) as H2.
  exists (fun c d => lsum (seq 0 n2) (fun j => lsum (seq 0 n1) (fun i => ind lr i c * B i j) * ind lc j d)). split; [|split].
  - unfold rvdenote, env_sec_bip, src_secondary_aggregate_bip. repeat (cbn; rewrite ?Nat.eqb_refl, ?H1, ?H2). reflexivity.
  - intros c d. change (lsum (seq 0 n2) (fun j => lsum (seq 0 n1) (fun i => ind lr i c * B i j) * ind lc j d) =
                         lsum (seq 0 n1) (fun i => lsum (seq 0 n2) (fun j => ind lr i c * B i j * ind lc j d))).
    rewrite agg_other_order. unfold agg. apply lsum_ext. intros i _.
    rewrite <- lsum_scale. apply lsum_ext. intros j _. ring.
  - etransitivity; [|exact (agg_total n1 n2 (nlab2 lr lc) B lr lc (labels_in2_l n1 lr lc Hr) (labels_in2_r n2 lr lc Hc))].
    change (lsum (seq 0 (nlab2 lr lc)) (fun c => lsum (seq 0 (nlab2 lr lc)) (fun d =>
              lsum (seq 0 n2) (fun j => lsum (seq 0 n1) (fun i => ind lr i c * B i j) * ind lc j d))) =
            lsum (seq 0 (nlab2 lr lc)) (fun c => lsum (seq 0 (nlab2 lr lc)) (agg n1 n2 B lr lc c))).
    apply lsum_ext. intros c _. apply lsum_ext. intros d _. apply agg_other_order.
Qed.

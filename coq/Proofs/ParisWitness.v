(** Defect D25 replayed inside Coq: the model of paris.pyx with IEEE rounding ([ieee]: C float = 24 bits, double =
    53 bits, round to nearest even) against the same model in exact arithmetic, on a 6-node weighted graph.
    Property C07. *)
From Coq Require Import Qabs.
From SKN Require Import Base.Util Model.Dendrogram Model.Cuts Model.Hierarchy Model.Paris.

(** Undirected edges 0-1 (3), 0-2 (3), 2-3 (2), 3-4 (2), 3-5 (2), 4-5 (1); both directions stored. *)
Definition d25_graph : entries :=
  [(0, 1, 3%Q); (1, 0, 3%Q); (0, 2, 3%Q); (2, 0, 3%Q); (2, 3, 2%Q); (3, 2, 2%Q);
   (3, 4, 2%Q); (4, 3, 2%Q); (3, 5, 2%Q); (5, 3, 2%Q); (4, 5, 1%Q); (5, 4, 1%Q)].
Definition d25_hinf : Q := 1000%Q.

Definition rows_of (o : option (result (dendrogram * option Q * nat))) : dendrogram :=
  match o with Some (Ok (D, _, _)) => D | _ => [] end.
Definition ran (o : option (result (dendrogram * option Q * nat))) : bool :=
  match o with Some (Ok _) => true | _ => false end.

(** exact arithmetic, creation order and reordered *)
Definition d25_exact := rows_of (paris_fit exact d25_hinf true false 6 d25_graph).
Definition d25_exact_reordered := rows_of (paris_fit exact d25_hinf true true 6 d25_graph).
(** IEEE arithmetic (= the compiled code, bit for bit), creation order and reordered *)
Definition d25_float := rows_of (paris_fit ieee d25_hinf true false 6 d25_graph).
Definition d25_float_reordered := rows_of (paris_fit ieee d25_hinf true true 6 d25_graph).

Definition close (a b : Q) : bool := Qle_bool (Qabs (a - b)) (b * (1 # 1000000)).

(** In exact arithmetic the merge (4,3) [row 1, creating cluster 7] and the merge (7,5) [row 3] have the same height
    9/26; with C floats the child comes out as 0.34615385... and the parent as 0.34615382...: a strict inversion.
    Everything else agrees to 1e-6, the rows of both runs are valid in creation order, but after
    [reorder_dendrogram] the float run merges cluster 8 in row 1 before row 2 creates it: not a dendrogram. *)
Theorem paris_float_inversion_witness :
  ran (paris_fit exact d25_hinf true false 6 d25_graph) = true /\
  ran (paris_fit ieee d25_hinf true false 6 d25_graph) = true /\
  ran (paris_fit ieee d25_hinf true true 6 d25_graph) = true /\
  (* same merges, same sizes *)
  map (fun r => (r_left r, r_right r, r_size r)) d25_float = map (fun r => (r_left r, r_right r, r_size r)) d25_exact /\
  d25_exact = [(1, 0, (3 # 13)%Q, 2); (4, 3, (9 # 26)%Q, 2); (6, 2, (15 # 26)%Q, 3); (7, 5, (9 # 26)%Q, 3);
               (9, 8, (42 # 13)%Q, 6)] /\
  (* heights equal up to rounding *)
  forallb (fun p => close (r_height (fst p)) (r_height (snd p))) (combine d25_float d25_exact) = true /\
  (* exact: valid, parent never below child, reordering fine *)
  valid 6 d25_exact = true /\ hmono 6 d25_exact = true /\
  valid 6 d25_exact_reordered = true /\ sortedq (heights d25_exact_reordered) = true /\
  (* float: valid in creation order, but the parent (row 3) is strictly below its child (row 1) ... *)
  valid 6 d25_float = true /\ hmono 6 d25_float = false /\
  Qle_bool (r_height (nth 1 d25_float drow0)) (r_height (nth 3 d25_float drow0)) = false /\
  (* ... and the reordered output is invalid *)
  map (fun r => (r_left r, r_right r, r_size r)) d25_float_reordered =
    [(1, 0, 2); (8, 5, 3); (4, 3, 2); (6, 2, 3); (7, 9, 6)] /\
  valid 6 d25_float_reordered = false.
Proof. vm_compute. repeat split; reflexivity. Qed.

(** The proposed repair (heights clamped to the children's heights, [clamp = true]) on the same input with the
    same IEEE rounding: valid and sorted after reordering. *)
Definition d25_clamped_reordered := rows_of (paris_fit_gen ieee true d25_hinf true true 6 d25_graph).
Theorem paris_clamp_repairs_witness :
  ran (paris_fit_gen ieee true d25_hinf true true 6 d25_graph) = true /\
  valid 6 d25_clamped_reordered = true /\ sortedq (heights d25_clamped_reordered) = true /\
  forallb (fun p => close (r_height (fst p)) (r_height (snd p))) (combine d25_clamped_reordered d25_exact_reordered) = true.
Proof. vm_compute. repeat split; reflexivity. Qed.

Print Assumptions paris_float_inversion_witness.

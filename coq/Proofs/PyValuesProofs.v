(** The seed glue of sknetwork/utils/values.py (get_values, stack_values) and the statement of utils/format.py:get_adjacency_values
    that computes [values], regenerated from the source on every run (Gen/PyValues.v, language Model/PyImp.v; callees INLINED with their
    locals renamed), proved equal to the functional model of Model/Format.v for every seed argument (None / array / dict, rows
    and columns), every shape and default value.  A Python list and a 1-D array are the same value in this semantics. *)
From SKN Require Import Base.Util Model.PyImp Gen.PyValues Proofs.PyCutsProofs Model.Bfs Model.Format.
From SKN Require Proofs.FormatProofs.
From Coq Require Import String Qround.
Local Open Scope nat_scope.
Local Open Scope string_scope.

(** * Embedding of seed arguments *)
Definition embVals (v : Format.vals) : val :=
  match v with
  | Format.VNone => PyImp.VNone
  | Format.VArr l => VList (map VNum l)
  | Format.VDict d => PyImp.VDict (map (fun kq => (Z.of_nat (fst kq), VNum (snd kq))) d)
  end.
Definition convF (e : Bfs.err) : perr :=
  match e with Bfs.ValueError => PValueError | Bfs.IndexError => PIndexError | Bfs.OutOfFuel => PTypeError end.

Lemma min_q_nums l : forall x, exists m, min_q x (map VNum l) = POk m.
Proof. induction l as [|y t IH]; intros x; [exists x; reflexivity|]. cbn [map min_q]. apply IH. Qed.

Lemma as_float_nums l : as_float (map VNum l) = POk (map VNum l).
Proof. induction l as [|y t IH]; [reflexivity|]. cbn [map as_float]. rewrite IH. reflexivity. Qed.

Lemma repeat_map_VNum q n : repeat (VNum q) n = map VNum (repeat q n).
Proof. induction n as [|n IH]; [reflexivity|]. cbn [repeat map]. rewrite IH. reflexivity. Qed.

(** ** values[keys] = values_ *)
Fixpoint set1q (L : list Q) (a : nat) (q : Q) : list Q :=
  match L, a with
  | [], _ => []
  | _ :: t, O => q :: t
  | h :: t, S a' => h :: set1q t a' q
  end.
Lemma set1q_length L : forall a q, Datatypes.length (set1q L a q) = Datatypes.length L.
Proof. induction L as [|h t IH]; intros [|a] q; simpl; auto. Qed.
Lemma nth_set1q L : forall a q v, a < Datatypes.length L -> nth v (set1q L a q) 0%Q = if Nat.eqb v a then q else nth v L 0%Q.
Proof.
  induction L as [|h t IH]; intros [|a] q [|v] Ha; simpl in *; try lia; auto. rewrite IH by lia. reflexivity.
Qed.
Lemma list_set_q L : forall a q, a < Datatypes.length L ->
  list_set (map VNum L) (Z.of_nat a) (VNum q) = POk (map VNum (set1q L a q)).
Proof.
  intros a q Ha. unfold list_set.
  assert (Hlt : (Z.of_nat a <? 0)%Z = false) by (apply Z.ltb_ge; lia).
  rewrite Hlt, Hlt, Nat2Z.id.
  assert (G : forall L a, a < Datatypes.length L -> list_set_nat (map VNum L) a (VNum q) = Some (map VNum (set1q L a q))).
  { clear. induction L as [|h t IH]; intros [|a] Ha; simpl in *; try lia; auto. rewrite IH by lia. reflexivity. }
  rewrite G by exact Ha. reflexivity.
Qed.
Lemma list_set_q_oob L a q : Datatypes.length L <= a -> list_set (map VNum L) (Z.of_nat a) (VNum q) = PErr PIndexError.
Proof.
  intros Ha. unfold list_set.
  assert (Hlt : (Z.of_nat a <? 0)%Z = false) by (apply Z.ltb_ge; lia).
  rewrite Hlt, Hlt, Nat2Z.id.
  assert (G : forall L a, Datatypes.length L <= a -> list_set_nat (map VNum L) a (VNum q) = None).
  { clear. induction L as [|h t IH]; intros [|a] Ha; simpl in *; try lia; auto. rewrite IH by lia. reflexivity. }
  rewrite G by exact Ha. reflexivity.
Qed.

(** the value of key i after the assignments of d in order, starting from dflt *)
Lemma find_app' {A} (f : A -> bool) (l1 l2 : list A) :
  find f (l1 ++ l2) = match find f l1 with Some x => Some x | None => find f l2 end.
Proof. induction l1 as [|a l1 IH]; [reflexivity|]. cbn [app find]. destruct (f a); [reflexivity | exact IH]. Qed.

Lemma dict_get_cons e d i dflt :
  dict_get (e :: d) i dflt = dict_get d i (if Nat.eqb (fst e) i then snd e else dflt).
Proof.
  unfold dict_get. cbn [rev]. rewrite find_app'.
  destruct (find (fun e0 => Nat.eqb (fst e0) i) (rev d)); [reflexivity|].
  cbn [find]. destruct (Nat.eqb (fst e) i); reflexivity.
Qed.

Lemma fancy_set_vec_dict : forall (d : list (nat * Q)) (L : list Q),
  fancy_set_vec (map VNum L) (map (fun kq => VInt (Z.of_nat (fst kq))) d) (map (fun kq => VNum (snd kq)) d) =
  if forallb (fun e : nat * Q => Nat.ltb (fst e) (Datatypes.length L)) d
  then POk (map VNum (map (fun i => dict_get d i (nth i L 0%Q)) (seq 0 (Datatypes.length L))))
  else PErr PIndexError.
Proof.
  induction d as [|[k q] d IH]; intros L.
  - cbn [map fancy_set_vec forallb]. f_equal. f_equal. symmetry.
    assert (G : forall (L : list Q), map (fun v => nth v L 0%Q) (seq 0 (Datatypes.length L)) = L).
    { clear. induction L as [|h t IH]; [reflexivity|]. cbn [Datatypes.length seq map nth]. f_equal.
      rewrite <- seq_shift, map_map. exact IH. }
    apply G.
  - cbn [map fancy_set_vec forallb fst snd].
    destruct (Nat.ltb_spec k (Datatypes.length L)) as [Hk|Hk].
    + rewrite list_set_q by exact Hk. rewrite IH. rewrite set1q_length. cbn [andb].
      destruct (forallb _ d); [|reflexivity].
      f_equal. f_equal. apply map_ext_in. intros i Hi. apply in_seq in Hi.
      rewrite dict_get_cons. cbn [fst snd]. rewrite nth_set1q by exact Hk.
      rewrite Nat.eqb_sym. reflexivity.
    + rewrite list_set_q_oob by exact Hk. reflexivity.
Qed.

Lemma index_shape0 v rest : index_vals (VList (v :: rest)) (VInt 0) = POk v.
Proof. reflexivity. Qed.

Ltac evv := repeat (progress (cbn [exec eval upd String.eqb Ascii.eqb Bool.eqb vnat embVals negb]) || look
                    || rewrite index_shape0 || (progress (unfold vnat))).

Theorem src_get_values_is_model n rest v default (e0 : env) :
  e0 "shape" = Some (VList (vnat n :: rest)) -> e0 "values" = Some (embVals v) ->
  e0 "default_value" = Some (VNum default) ->
  match Format.get_values n v default with
  | Bfs.Ok l => exists e', exec src_get_values e0 = POk e' /\ e' "return" = Some (VList (map VNum l))
  | Bfs.Err er => exec src_get_values e0 = PErr (convF er)
  end.
Proof.
  intros Hs Hv Hd. unfold src_get_values, Format.get_values.
  destruct v as [|l|d]; cbn [embVals] in Hv.
  - (* None *) eexists. split.
    + evv. rewrite Nat2Z.id. reflexivity.
    + cbn [upd String.eqb Ascii.eqb Bool.eqb]. rewrite repeat_map_VNum. reflexivity.
  - (* array / list *)
    destruct (Nat.eqb (Datatypes.length l) n) eqn:E.
    + eexists. split.
      * evv. rewrite map_length. rewrite cmp_ne_nat', E. evv. rewrite as_float_nums. reflexivity.
      * reflexivity.
    + evv. rewrite map_length. rewrite cmp_ne_nat', E. evv. reflexivity.
  - (* dict *)
    destruct d as [|[k q] d].
    + evv. reflexivity.
    + destruct (min_q_nums (map snd d) q) as [m Hm]. rewrite map_map in Hm.
      pose proof (fancy_set_vec_dict ((k, q) :: d) (repeat default n)) as F. rewrite repeat_length in F.
      cbn [map fst snd] in F.
      destruct (forallb (fun e : nat * Q => Nat.ltb (fst e) n) ((k, q) :: d)) eqn:Eall.
      * eexists. split.
        -- evv. rewrite !map_map. cbn [map fst snd]. evv. rewrite Hm. cbn [cmp_vals as_num].
           destruct (num_lt (NQ m) (NQ (inject_Z 0))); evv;
             rewrite Nat2Z.id, repeat_map_VNum; rewrite F; reflexivity.
        -- cbn [upd String.eqb Ascii.eqb Bool.eqb]. do 3 f_equal. apply map_ext_in. intros i Hi. apply in_seq in Hi.
           rewrite (nth_indep (repeat default n) 0%Q default) by (rewrite repeat_length; lia).
           rewrite nth_repeat. reflexivity.
      * evv. rewrite !map_map. cbn [map fst snd]. evv. rewrite Hm. cbn [cmp_vals as_num].
        destruct (num_lt (NQ m) (NQ (inject_Z 0))); evv;
          rewrite Nat2Z.id, repeat_map_VNum; rewrite F; reflexivity.
Qed.

(** the body of get_values as it is inlined (locals renamed with the prefix get_values.): items 5..7 of stack_values *)
Definition gv_inlined : list stmt := firstn 3 (skipn 5 (flat src_stack_values)).

Lemma upd_other' x y v (e : env) : x <> y -> upd x v e y = e y.
Proof. intros H. unfold upd. destruct (String.eqb_spec x y); [congruence | reflexivity]. Qed.

Ltac frx Hx :=
  unfold upd;
  repeat match goal with |- context [String.eqb ?a ?x] =>
           destruct (String.eqb_spec a x) as [<-|_]; [discriminate Hx|] end;
  reflexivity.

Lemma gv_inlined_is_model n rest v default (e0 : env) :
  e0 "get_values.shape" = Some (VList (vnat n :: rest)) -> e0 "get_values.values" = Some (embVals v) ->
  e0 "get_values.default_value" = Some (VNum default) ->
  match Format.get_values n v default with
  | Bfs.Ok l => exists e', exec_list gv_inlined e0 = POk e' /\ e' "get_values.values" = Some (VList (map VNum l)) /\
                           (forall x, String.prefix "get_values." x = false -> e' x = e0 x)
  | Bfs.Err er => exec_list gv_inlined e0 = PErr (convF er)
  end.
Proof.
  intros Hs Hv Hd.
  let b := eval vm_compute in gv_inlined in change gv_inlined with b.
  unfold Format.get_values. cbn [exec_list].
  destruct v as [|l|d]; cbn [embVals] in Hv.
  - eexists. split; [|split].
    + evv. rewrite Nat2Z.id. reflexivity.
    + cbn [upd String.eqb Ascii.eqb Bool.eqb]. rewrite repeat_map_VNum. reflexivity.
    + intros x Hx. frx Hx.
  - destruct (Nat.eqb (Datatypes.length l) n) eqn:E.
    + eexists. split; [|split].
      * evv. rewrite map_length. rewrite cmp_ne_nat', E. evv. rewrite as_float_nums. reflexivity.
      * reflexivity.
      * intros x Hx. frx Hx.
    + evv. rewrite map_length. rewrite cmp_ne_nat', E. evv. reflexivity.
  - destruct d as [|[k q] d].
    + evv. reflexivity.
    + destruct (min_q_nums (map snd d) q) as [m Hm]. rewrite map_map in Hm.
      pose proof (fancy_set_vec_dict ((k, q) :: d) (repeat default n)) as F. rewrite repeat_length in F.
      cbn [map fst snd] in F.
      destruct (forallb (fun e : nat * Q => Nat.ltb (fst e) n) ((k, q) :: d)) eqn:Eall.
      * eexists. split; [|split].
        -- evv. rewrite !map_map. cbn [map fst snd]. evv. rewrite Hm. cbn [cmp_vals as_num].
           destruct (num_lt (NQ m) (NQ (inject_Z 0))); evv;
             rewrite Nat2Z.id, repeat_map_VNum; rewrite F; reflexivity.
        -- cbn [upd String.eqb Ascii.eqb Bool.eqb]. do 3 f_equal. apply map_ext_in. intros i Hi. apply in_seq in Hi.
           rewrite (nth_indep (repeat default n) 0%Q default) by (rewrite repeat_length; lia).
           rewrite nth_repeat. reflexivity.
        -- intros x Hx. frx Hx.
      * evv. rewrite !map_map. cbn [map fst snd]. evv. rewrite Hm. cbn [cmp_vals as_num].
        destruct (num_lt (NQ m) (NQ (inject_Z 0))); evv;
          rewrite Nat2Z.id, repeat_map_VNum; rewrite F; reflexivity.
Qed.

(** * stack_values *)
Definition sv_flat := flat src_stack_values.

Lemma sv_shape : sv_flat = (firstn 5 sv_flat ++ gv_inlined ++ firstn 4 (skipn 8 sv_flat) ++ gv_inlined ++ skipn 15 sv_flat)%list.
Proof. vm_compute. reflexivity. Qed.

Lemma embVals_isnone v : (match embVals v with PyImp.VNone => true | _ => false end) =
                         (match v with Format.VNone => true | _ => false end).
Proof. destruct v; reflexivity. Qed.

Lemma sv_prefix n_row n_col vrow vcol default (e0 : env) :
  e0 "shape" = Some (VList [vnat n_row; vnat n_col]) -> e0 "values_row" = Some (embVals vrow) ->
  e0 "values_col" = Some (embVals vcol) -> e0 "default_value" = Some (VNum default) ->
  exists e1, exec_list (firstn 5 sv_flat) e0 = POk e1 /\
    e1 "get_values.shape" = Some (VList [vnat n_row; vnat n_col]) /\
    e1 "get_values.values" = Some (embVals (fst (stack_defaults n_row n_col vrow vcol default))) /\
    e1 "get_values.default_value" = Some (VNum default) /\
    e1 "values_col" = Some (embVals (snd (stack_defaults n_row n_col vrow vcol default))) /\
    e1 "default_value" = Some (VNum default) /\ e1 "n_col" = Some (vnat n_col).
Proof.
  intros Hs Hr Hc Hd.
  let b := eval vm_compute in (firstn 5 sv_flat) in change (firstn 5 sv_flat) with b.
  cbn [exec_list].
  destruct vrow as [|lr|dr]; destruct vcol as [|lc|dc]; cbn [embVals] in Hr, Hc; cbn [stack_defaults fst snd];
    eexists; (split; [evv; cbn [bind_all]; evv; rewrite ?Nat2Z.id; reflexivity|]);
    cbn [upd String.eqb Ascii.eqb Bool.eqb embVals]; rewrite ?repeat_map_VNum; repeat split; try assumption; reflexivity.
Qed.

Theorem src_stack_values_is_model n_row n_col vrow vcol default (e0 : env) :
  e0 "shape" = Some (VList [vnat n_row; vnat n_col]) -> e0 "values_row" = Some (embVals vrow) ->
  e0 "values_col" = Some (embVals vcol) -> e0 "default_value" = Some (VNum default) ->
  match Format.stack_values n_row n_col vrow vcol default with
  | Bfs.Ok l => exists e', exec src_stack_values e0 = POk e' /\ e' "return" = Some (VList (map VNum l))
  | Bfs.Err er => exec src_stack_values e0 = PErr (convF er)
  end.
Proof.
  intros Hs Hr Hc Hd. rewrite exec_flat. fold sv_flat. rewrite sv_shape. rewrite exec_list_app.
  destruct (sv_prefix n_row n_col vrow vcol default e0 Hs Hr Hc Hd) as (e1 & F1 & H1s & H1v & H1d & H1c & H1dd & H1n).
  rewrite F1. cbv beta iota. rewrite exec_list_app. unfold Format.stack_values.
  destruct (stack_defaults n_row n_col vrow vcol default) as [vr vc]. cbn [fst snd] in *.
  pose proof (gv_inlined_is_model n_row [vnat n_col] vr default e1 H1s H1v H1d) as G1.
  destruct (Format.get_values n_row vr default) as [r|er].
  2:{ rewrite G1. reflexivity. }
  destruct G1 as (e2 & F2 & H2v & Fr2). rewrite F2. cbv beta iota. rewrite exec_list_app.
  (* the four statements between the two copies *)
  assert (M : exists e3, exec_list (firstn 4 (skipn 8 sv_flat)) e2 = POk e3 /\
              e3 "get_values.shape" = Some (VList [vnat n_col]) /\ e3 "get_values.values" = Some (embVals vc) /\
              e3 "get_values.default_value" = Some (VNum default) /\ e3 "values_row" = Some (VList (map VNum r))).
  { let b := eval vm_compute in (firstn 4 (skipn 8 sv_flat)) in change (firstn 4 (skipn 8 sv_flat)) with b.
    cbn [exec_list].
    assert (A1 : e2 "n_col" = Some (vnat n_col)) by (rewrite Fr2 by reflexivity; exact H1n).
    assert (A2 : e2 "values_col" = Some (embVals vc)) by (rewrite Fr2 by reflexivity; exact H1c).
    assert (A3 : e2 "default_value" = Some (VNum default)) by (rewrite Fr2 by reflexivity; exact H1dd).
    eexists. split; [evv; reflexivity|].
    cbn [upd String.eqb Ascii.eqb Bool.eqb]. repeat split; reflexivity. }
  destruct M as (e3 & F3 & H3s & H3v & H3d & H3r). rewrite F3. cbv beta iota. rewrite exec_list_app.
  pose proof (gv_inlined_is_model n_col [] vc default e3 H3s H3v H3d) as G2.
  destruct (Format.get_values n_col vc default) as [c|er].
  2:{ rewrite G2. reflexivity. }
  destruct G2 as (e4 & F4 & H4v & Fr4). rewrite F4. cbv beta iota.
  let b := eval vm_compute in (skipn 15 sv_flat) in change (skipn 15 sv_flat) with b.
  assert (A4 : e4 "values_row" = Some (VList (map VNum r))) by (rewrite Fr4 by reflexivity; exact H3r).
  eexists. split.
  - cbn [exec_list]. evv. reflexivity.
  - cbn [upd String.eqb Ascii.eqb Bool.eqb]. rewrite map_app. reflexivity.
Qed.

(** * get_adjacency_values: the statement that computes [values] *)
Definition av_br1 : stmt := match src_adjacency_values_core with SIf _ (SIf _ a _) _ => a | _ => SSkip end.
Definition av_br2 : stmt := match src_adjacency_values_core with SIf _ (SIf _ _ b) _ => b | _ => SSkip end.
Definition av_br3 : stmt := match src_adjacency_values_core with SIf _ _ c => c | _ => SSkip end.
Definition sv_inlined : list stmt := firstn 16 (skipn 4 (flat av_br1)).

Lemma sv_inlined_shape :
  sv_inlined = (firstn 5 sv_inlined ++ gv_inlined ++ firstn 4 (skipn 8 sv_inlined) ++ gv_inlined ++ skipn 15 sv_inlined)%list.
Proof. vm_compute. reflexivity. Qed.
Lemma av_br1_shape : flat av_br1 = (firstn 4 (flat av_br1) ++ sv_inlined ++ skipn 20 (flat av_br1))%list.
Proof. vm_compute. reflexivity. Qed.
Lemma av_br2_shape : flat av_br2 = (firstn 4 (flat av_br2) ++ sv_inlined ++ skipn 20 (flat av_br2))%list.
Proof. vm_compute. reflexivity. Qed.
Lemma av_br3_shape : flat av_br3 = (firstn 3 (flat av_br3) ++ gv_inlined ++ skipn 6 (flat av_br3))%list.
Proof. vm_compute. reflexivity. Qed.

Definition keeps (e' e0 : env) : Prop :=
  forall x, String.prefix "get_values." x = false -> String.prefix "stack_values." x = false -> e' x = e0 x.

Ltac frx2 H1 H2 :=
  unfold upd;
  repeat match goal with |- context [String.eqb ?a ?x] =>
           destruct (String.eqb_spec a x) as [<-|_]; [first [discriminate H1 | discriminate H2]|] end;
  reflexivity.

Lemma sv_inl_prefix n_row n_col vrow vcol default (e0 : env) :
  e0 "stack_values.shape" = Some (VList [vnat n_row; vnat n_col]) -> e0 "stack_values.values_row" = Some (embVals vrow) ->
  e0 "stack_values.values_col" = Some (embVals vcol) -> e0 "stack_values.default_value" = Some (VNum default) ->
  exists e1, exec_list (firstn 5 sv_inlined) e0 = POk e1 /\
    e1 "get_values.shape" = Some (VList [vnat n_row; vnat n_col]) /\
    e1 "get_values.values" = Some (embVals (fst (stack_defaults n_row n_col vrow vcol default))) /\
    e1 "get_values.default_value" = Some (VNum default) /\
    e1 "stack_values.values_col" = Some (embVals (snd (stack_defaults n_row n_col vrow vcol default))) /\
    e1 "stack_values.default_value" = Some (VNum default) /\ e1 "stack_values.n_col" = Some (vnat n_col) /\
    keeps e1 e0.
Proof.
  intros Hs Hr Hc Hd.
  let b := eval vm_compute in (firstn 5 sv_inlined) in change (firstn 5 sv_inlined) with b.
  cbn [exec_list].
  destruct vrow as [|lr|dr]; destruct vcol as [|lc|dc]; cbn [embVals] in Hr, Hc; cbn [stack_defaults fst snd];
    eexists; (split; [evv; cbn [bind_all]; evv; rewrite ?Nat2Z.id; reflexivity|]);
    cbn [upd String.eqb Ascii.eqb Bool.eqb embVals]; rewrite ?repeat_map_VNum;
    (repeat split; try assumption; try reflexivity); intros x X1 X2; frx2 X1 X2.
Qed.

Lemma sv_inlined_is_model n_row n_col vrow vcol default (e0 : env) :
  e0 "stack_values.shape" = Some (VList [vnat n_row; vnat n_col]) -> e0 "stack_values.values_row" = Some (embVals vrow) ->
  e0 "stack_values.values_col" = Some (embVals vcol) -> e0 "stack_values.default_value" = Some (VNum default) ->
  match Format.stack_values n_row n_col vrow vcol default with
  | Bfs.Ok l => exists e' r c, exec_list sv_inlined e0 = POk e' /\ l = (r ++ c)%list /\
                               e' "stack_values.values_row" = Some (VList (map VNum r)) /\
                               e' "stack_values.values_col" = Some (VList (map VNum c)) /\ keeps e' e0
  | Bfs.Err er => exec_list sv_inlined e0 = PErr (convF er)
  end.
Proof.
  intros Hs Hr Hc Hd. rewrite sv_inlined_shape. rewrite exec_list_app.
  destruct (sv_inl_prefix n_row n_col vrow vcol default e0 Hs Hr Hc Hd)
    as (e1 & F1 & H1s & H1v & H1d & H1c & H1dd & H1n & K1).
  rewrite F1. cbv beta iota. rewrite exec_list_app. unfold Format.stack_values.
  destruct (stack_defaults n_row n_col vrow vcol default) as [vr vc]. cbn [fst snd] in *.
  pose proof (gv_inlined_is_model n_row [vnat n_col] vr default e1 H1s H1v H1d) as G1.
  destruct (Format.get_values n_row vr default) as [r|er].
  2:{ rewrite G1. reflexivity. }
  destruct G1 as (e2 & F2 & H2v & Fr2). rewrite F2. cbv beta iota. rewrite exec_list_app.
  assert (M : exists e3, exec_list (firstn 4 (skipn 8 sv_inlined)) e2 = POk e3 /\
              e3 "get_values.shape" = Some (VList [vnat n_col]) /\ e3 "get_values.values" = Some (embVals vc) /\
              e3 "get_values.default_value" = Some (VNum default) /\
              e3 "stack_values.values_row" = Some (VList (map VNum r)) /\ keeps e3 e2).
  { let b := eval vm_compute in (firstn 4 (skipn 8 sv_inlined)) in change (firstn 4 (skipn 8 sv_inlined)) with b.
    cbn [exec_list].
    assert (A1 : e2 "stack_values.n_col" = Some (vnat n_col)) by (rewrite Fr2 by reflexivity; exact H1n).
    assert (A2 : e2 "stack_values.values_col" = Some (embVals vc)) by (rewrite Fr2 by reflexivity; exact H1c).
    assert (A3 : e2 "stack_values.default_value" = Some (VNum default)) by (rewrite Fr2 by reflexivity; exact H1dd).
    eexists. split; [evv; reflexivity|].
    cbn [upd String.eqb Ascii.eqb Bool.eqb]. (repeat split; try reflexivity). intros x X1 X2. frx2 X1 X2. }
  destruct M as (e3 & F3 & H3s & H3v & H3d & H3r & K3). rewrite F3. cbv beta iota. rewrite exec_list_app.
  pose proof (gv_inlined_is_model n_col [] vc default e3 H3s H3v H3d) as G2.
  destruct (Format.get_values n_col vc default) as [c|er].
  2:{ rewrite G2. reflexivity. }
  destruct G2 as (e4 & F4 & H4v & Fr4). rewrite F4. cbv beta iota.
  let b := eval vm_compute in (skipn 15 sv_inlined) in change (skipn 15 sv_inlined) with b.
  assert (A4 : e4 "stack_values.values_row" = Some (VList (map VNum r))) by (rewrite Fr4 by reflexivity; exact H3r).
  eexists. exists r, c. split; [cbn [exec_list]; evv; reflexivity|]. split; [reflexivity|].
  cbn [upd String.eqb Ascii.eqb Bool.eqb]. split; [exact A4|]. split; [reflexivity|].
  intros x X1 X2. rewrite upd_other' by (intros <-; discriminate X2).
  rewrite Fr4 by exact X1. rewrite K3 by assumption. rewrite Fr2 by exact X1. apply K1; assumption.
Qed.

(** the model's [values] of get_adjacency_values, given the decision [bipartite] taken by get_adjacency *)
Definition values_model (bipartite : bool) (n_row n_col : nat) (values values_row values_col : Format.vals) (default : Q)
  : Bfs.result (list Q) :=
  if bipartite then
    match values with
    | Format.VNone => Format.stack_values n_row n_col values_row values_col default
    | _ => Format.stack_values n_row n_col values Format.VNone default
    end
  else Format.get_values n_row values default.

Lemma exec_list_run (l : list stmt) s : flat s = l -> forall e, exec s e = exec_list l e.
Proof. intros <- e. apply exec_flat. Qed.

Theorem src_adjacency_values_core_is_model bipartite n_row n_col values values_row values_col default (e0 : env) :
  e0 "bipartite" = Some (VBool bipartite) -> e0 "input_matrix.shape" = Some (VList [vnat n_row; vnat n_col]) ->
  e0 "values" = Some (embVals values) -> e0 "values_row" = Some (embVals values_row) ->
  e0 "values_col" = Some (embVals values_col) -> e0 "default_value" = Some (VNum default) ->
  match values_model bipartite n_row n_col values values_row values_col default with
  | Bfs.Ok l => exists e', exec src_adjacency_values_core e0 = POk e' /\ e' "values" = Some (VList (map VNum l))
  | Bfs.Err er => exec src_adjacency_values_core e0 = PErr (convF er)
  end.
Proof.
  intros Hb Hs Hv Hr Hc Hd.
  assert (E : exec src_adjacency_values_core e0 =
              exec (if bipartite then (if match values with Format.VNone => true | _ => false end then av_br1 else av_br2)
                    else av_br3) e0).
  { unfold src_adjacency_values_core, av_br1, av_br2, av_br3. cbn [exec eval]. rewrite Hb.
    destruct bipartite; [|reflexivity]. cbn [exec eval]. rewrite Hv. destruct values; reflexivity. }
  rewrite E. clear E. unfold values_model. destruct bipartite.
  - (* stack_values *)
    assert (G : forall br vr vc, (br = av_br1 \/ br = av_br2) ->
              (forall e1, exec_list (firstn 4 (flat br)) e0 = POk e1 ->
                 e1 "stack_values.shape" = Some (VList [vnat n_row; vnat n_col]) /\
                 e1 "stack_values.values_row" = Some (embVals vr) /\ e1 "stack_values.values_col" = Some (embVals vc) /\
                 e1 "stack_values.default_value" = Some (VNum default)) ->
              (exists e1, exec_list (firstn 4 (flat br)) e0 = POk e1) ->
              match Format.stack_values n_row n_col vr vc default with
              | Bfs.Ok l => exists e', exec br e0 = POk e' /\ e' "values" = Some (VList (map VNum l))
              | Bfs.Err er => exec br e0 = PErr (convF er)
              end).
    { intros br vr vc Hbr Hpre [e1 F1]. destruct (Hpre e1 F1) as (A1 & A2 & A3 & A4).
      rewrite exec_flat.
      assert (Sh : flat br = (firstn 4 (flat br) ++ sv_inlined ++ skipn 20 (flat br))%list)
        by (destruct Hbr as [-> | ->]; [apply av_br1_shape | apply av_br2_shape]).
      rewrite Sh, exec_list_app, F1. rewrite exec_list_app.
      pose proof (sv_inlined_is_model n_row n_col vr vc default e1 A1 A2 A3 A4) as M.
      destruct (Format.stack_values n_row n_col vr vc default) as [l|er].
      - destruct M as (e2 & r & c & F2 & -> & B1 & B2 & _). rewrite F2.
        assert (T : skipn 20 (flat br) = [SAssign "values" (EHstack (EVar "stack_values.values_row") (EVar "stack_values.values_col"))])
          by (destruct Hbr as [-> | ->]; vm_compute; reflexivity).
        rewrite T. eexists. split; [cbn [exec_list]; evv; reflexivity|].
        cbn [upd String.eqb Ascii.eqb Bool.eqb]. rewrite map_app. reflexivity.
      - rewrite M. reflexivity. }
    destruct values as [|lv|dv].
    + apply (G av_br1 values_row values_col (or_introl eq_refl)).
      * intros e1. let b := eval vm_compute in (firstn 4 (flat av_br1)) in change (firstn 4 (flat av_br1)) with b.
        cbn [exec_list]. evv. intros H. inversion H; subst. cbn [upd String.eqb Ascii.eqb Bool.eqb]. repeat split; assumption.
      * let b := eval vm_compute in (firstn 4 (flat av_br1)) in change (firstn 4 (flat av_br1)) with b.
        cbn [exec_list]. evv. eexists. reflexivity.
    + apply (G av_br2 (Format.VArr lv) Format.VNone (or_intror eq_refl)).
      * intros e1. let b := eval vm_compute in (firstn 4 (flat av_br2)) in change (firstn 4 (flat av_br2)) with b.
        cbn [exec_list]. evv. intros H. inversion H; subst. cbn [upd String.eqb Ascii.eqb Bool.eqb embVals]. repeat split; assumption.
      * let b := eval vm_compute in (firstn 4 (flat av_br2)) in change (firstn 4 (flat av_br2)) with b.
        cbn [exec_list]. evv. eexists. reflexivity.
    + apply (G av_br2 (Format.VDict dv) Format.VNone (or_intror eq_refl)).
      * intros e1. let b := eval vm_compute in (firstn 4 (flat av_br2)) in change (firstn 4 (flat av_br2)) with b.
        cbn [exec_list]. evv. intros H. inversion H; subst. cbn [upd String.eqb Ascii.eqb Bool.eqb embVals]. repeat split; assumption.
      * let b := eval vm_compute in (firstn 4 (flat av_br2)) in change (firstn 4 (flat av_br2)) with b.
        cbn [exec_list]. evv. eexists. reflexivity.
  - (* get_values *)
    rewrite exec_flat, av_br3_shape, exec_list_app.
    let b := eval vm_compute in (firstn 3 (flat av_br3)) in change (firstn 3 (flat av_br3)) with b.
    cbn [exec_list]. evv. rewrite exec_list_app.
    match goal with |- context [exec_list gv_inlined ?e1] =>
      pose proof (gv_inlined_is_model n_row [vnat n_col] values default e1) as M end.
    cbn [upd String.eqb Ascii.eqb Bool.eqb] in M. specialize (M eq_refl eq_refl eq_refl).
    destruct (Format.get_values n_row values default) as [l|er].
    + destruct M as (e2 & F2 & B & _). rewrite F2.
      let b := eval vm_compute in (skipn 6 (flat av_br3)) in change (skipn 6 (flat av_br3)) with b.
      eexists. split; [cbn [exec_list]; evv; reflexivity|]. reflexivity.
    + rewrite M. reflexivity.
Qed.

(** get_adjacency_values of the model = get_adjacency, then [values_model] with the decision it took *)
Lemma get_adjacency_values_unfold m ad fb fd values values_row values_col default :
  Format.get_adjacency_values m ad fb fd values values_row values_col default =
  let fb' := match values_row, values_col with Format.VNone, Format.VNone => fb | _, _ => true end in
  let ab := Format.get_adjacency m ad fb' fd in
  match values_model (snd ab) (Datatypes.length (snd m)) (fst m) values values_row values_col default with
  | Bfs.Err e => Bfs.Err e
  | Bfs.Ok v => Bfs.Ok (fst ab, v, snd ab)
  end.
Proof.
  unfold Format.get_adjacency_values, values_model. cbv zeta.
  destruct (Format.get_adjacency m ad _ fd) as [adjacency bipartite]. reflexivity.
Qed.

(** the addressing of C03 as a statement about the source text of stack_values *)
Theorem src_stack_values_addresses n_row n_col vrow vcol default s (e0 : env) :
  e0 "shape" = Some (VList [vnat n_row; vnat n_col]) -> e0 "values_row" = Some (embVals vrow) ->
  e0 "values_col" = Some (embVals vcol) -> e0 "default_value" = Some (VNum default) ->
  Format.stack_values n_row n_col vrow vcol default = Bfs.Ok s ->
  exists e', exec src_stack_values e0 = POk e' /\ e' "return" = Some (VList (map VNum s)) /\
    let both_none := match vrow, vcol with Format.VNone, Format.VNone => true | _, _ => false end in
    Datatypes.length s = n_row + n_col /\
    (forall i, i < n_row -> nthq s i = Format.seed_at vrow (if both_none then 1%Q else default) default i) /\
    (forall j, j < n_col -> nthq s (n_row + j) = Format.seed_at vcol default default j).
Proof.
  intros Hs Hr Hc Hd Hm.
  pose proof (src_stack_values_is_model n_row n_col vrow vcol default e0 Hs Hr Hc Hd) as L. rewrite Hm in L.
  destruct L as (e' & F & R). exists e'. split; [exact F|]. split; [exact R|].
  exact (FormatProofs.stack_values_addresses n_row n_col vrow vcol default s Hm).
Qed.

Lemma values_untranslated_reviewed :
  src_get_values_params = ["shape"; "values"; "default_value"] /\
  src_stack_values_params = ["shape"; "values_row"; "values_col"; "default_value"] /\
  src_adjacency_values_params = ["input_matrix"; "allow_directed"; "force_bipartite"; "force_directed"; "values";
                                 "values_row"; "values_col"; "default_value"; "which"] /\
  src_adjacency_values_before =
    ["input_matrix = check_format(input_matrix)";
     "if values_row is not None or values_col is not None:
    force_bipartite = True";
     "adjacency, bipartite = get_adjacency(input_matrix, allow_directed=allow_directed, force_bipartite=force_bipartite, force_directed=force_directed)"] /\
  src_adjacency_values_after =
    ["if which == 'probs':
    if values.sum() > 0:
        values /= values.sum()
elif which == 'labels':
    if len(set(values[values >= 0])) == 1:
        values = np.arange(len(values))";
     "return (adjacency, values, bipartite)"].
Proof. repeat split; reflexivity. Qed.

(** Proofs about Model/Clustering.v (property C05). *)
From Coq Require Import Permutation Sorted Lia QArith Qabs Lqa Psatz.
From SKN Require Import Base.Util Model.Clustering.

(* ------------------------------------------------------------------------------------------ *)
(** * np.unique *)

Lemma zinsert_In x y l : In y (zinsert x l) <-> y = x \/ In y l.
Proof.
  induction l as [|z t IH]; simpl.
  - intuition congruence.
  - destruct (x <? z)%Z eqn:E1; [simpl; intuition congruence|].
    destruct (x =? z)%Z eqn:E2.
    + apply Z.eqb_eq in E2. subst. simpl. intuition congruence.
    + simpl. rewrite IH. intuition congruence.
Qed.

Lemma zinsert_sorted x l : StronglySorted Z.lt l -> StronglySorted Z.lt (zinsert x l).
Proof.
  induction l as [|z t IH]; simpl; intros HS.
  - constructor; constructor.
  - inversion HS as [|? ? HSt HF]; subst.
    destruct (x <? z)%Z eqn:E1.
    + apply Z.ltb_lt in E1. constructor; [exact HS|].
      constructor; [exact E1|]. rewrite Forall_forall in *. intros y Hy. specialize (HF y Hy). lia.
    + destruct (x =? z)%Z eqn:E2; [exact HS|].
      apply Z.ltb_ge in E1. apply Z.eqb_neq in E2.
      constructor; [apply IH; exact HSt|].
      rewrite Forall_forall in *. intros y Hy. apply zinsert_In in Hy. destruct Hy as [->|Hy]; [lia|auto].
Qed.

Lemma zuniq_sorted l : StronglySorted Z.lt (zuniq l).
Proof. induction l; simpl; [constructor | apply zinsert_sorted; assumption]. Qed.

Lemma zuniq_In l x : In x (zuniq l) <-> In x l.
Proof.
  induction l as [|a t IH]; simpl; [tauto|].
  rewrite zinsert_In, IH. split; intros [H|H]; auto.
Qed.

Lemma ssorted_NoDup l : StronglySorted Z.lt l -> NoDup l.
Proof.
  induction l as [|a t IH]; intros HS; [constructor|].
  inversion HS as [|? ? HSt HF]; subst. constructor; [|auto].
  intros Hin. rewrite Forall_forall in HF. specialize (HF a Hin). lia.
Qed.

Lemma ssorted_unique a b :
  StronglySorted Z.lt a -> StronglySorted Z.lt b -> (forall x, In x a <-> In x b) -> a = b.
Proof.
  revert b. induction a as [|x a' IH]; intros b Ha Hb Hab.
  - destruct b as [|y b']; [reflexivity|]. exfalso. apply (Hab y). left; reflexivity.
  - destruct b as [|y b'].
    + exfalso. apply (Hab x). left; reflexivity.
    + inversion Ha as [|? ? Ha' HFa]; subst. inversion Hb as [|? ? Hb' HFb]; subst.
      rewrite Forall_forall in HFa, HFb.
      assert (Exy : x = y).
      { assert (H1 : In x (y :: b')) by (apply Hab; left; reflexivity).
        assert (H2 : In y (x :: a')) by (apply Hab; left; reflexivity).
        destruct H1 as [H1|H1]; [auto|]. destruct H2 as [H2|H2]; [auto|].
        specialize (HFa y H2). specialize (HFb x H1). lia. }
      subst y. f_equal. apply IH; auto.
      intros z. split; intros Hz.
      * assert (H1 : In z (x :: b')) by (apply Hab; right; exact Hz).
        destruct H1 as [H1|H1]; [|exact H1]. subst z. specialize (HFa x Hz). lia.
      * assert (H1 : In z (x :: a')) by (apply Hab; right; exact Hz).
        destruct H1 as [H1|H1]; [|exact H1]. subst z. specialize (HFb x Hz). lia.
Qed.

Lemma zuniq_length_nodup l : length (zuniq l) = length (nodup Z.eq_dec l).
Proof.
  apply Permutation_length. apply NoDup_Permutation.
  - apply ssorted_NoDup, zuniq_sorted.
  - apply NoDup_nodup.
  - intros x. rewrite zuniq_In, nodup_In. tauto.
Qed.

Lemma zindex_lt x l : In x l -> zindex x l < length l.
Proof.
  induction l as [|y t IH]; simpl; [tauto|]. intros H.
  destruct (x =? y)%Z eqn:E; [lia|]. apply Z.eqb_neq in E.
  destruct H as [H|H]; [congruence|]. specialize (IH H). lia.
Qed.

Lemma zindex_le x l : zindex x l <= length l.
Proof. induction l as [|y t IH]; simpl; [lia|]. destruct (x =? y)%Z; lia. Qed.

Lemma nth_zindex x l : In x l -> nthz l (zindex x l) = x.
Proof.
  unfold nthz. induction l as [|y t IH]; simpl; [tauto|]. intros H.
  destruct (x =? y)%Z eqn:E; [apply Z.eqb_eq in E; auto|]. apply Z.eqb_neq in E.
  destruct H as [H|H]; [congruence|]. auto.
Qed.

Lemma zindex_nth l i : NoDup l -> i < length l -> zindex (nthz l i) l = i.
Proof.
  unfold nthz. revert i. induction l as [|y t IH]; simpl; intros i HN Hi; [lia|].
  inversion HN as [|? ? Hy HNt]; subst.
  destruct i as [|i].
  - rewrite Z.eqb_refl. reflexivity.
  - destruct (nth i t 0%Z =? y)%Z eqn:E.
    + apply Z.eqb_eq in E. exfalso. apply Hy. rewrite <- E. apply nth_In. lia.
    + f_equal. apply IH; auto. lia.
Qed.

Lemma nthz_In l i : i < length l -> In (nthz l i) l.
Proof. intros H. unfold nthz. apply nth_In. exact H. Qed.

Lemma nth_map_gen {A B} (f : A -> B) (l : list A) i da db :
  i < length l -> nth i (map f l) db = f (nth i l da).
Proof.
  revert i. induction l as [|a t IH]; simpl; intros i H; [lia|].
  destruct i as [|i]; [reflexivity|]. apply IH. lia.
Qed.

Lemma nthn_map_lt {A} (f : A -> nat) (l : list A) (d : A) i :
  i < length l -> nthn (map f l) i = f (nth i l d).
Proof.
  intros H. unfold nthn. rewrite (nth_indep _ 0 (f d)) by (rewrite map_length; exact H).
  apply map_nth.
Qed.

(** The compaction [np.unique(l, return_inverse=True)[1]]. *)
Lemma unique_inverse_facts (l : list Z) :
  let u := fst (unique_inverse l) in
  let inv := snd (unique_inverse l) in
  length u = length (nodup Z.eq_dec l) /\
  length inv = length l /\
  (forall i, i < length l -> nthn inv i < length u /\ nthz u (nthn inv i) = nthz l i) /\
  (forall c, c < length u -> In c inv).
Proof.
  unfold unique_inverse. cbn [fst snd].
  split; [apply zuniq_length_nodup|].
  split; [apply map_length|].
  split.
  - intros i Hi. rewrite (nthn_map_lt _ _ 0%Z) by exact Hi. fold (nthz l i).
    assert (Hin : In (nthz l i) (zuniq l)) by (apply zuniq_In, nthz_In; exact Hi).
    split; [apply zindex_lt; exact Hin | apply nth_zindex; exact Hin].
  - intros c Hc.
    assert (Hin : In (nthz (zuniq l) c) l) by (apply zuniq_In, nthz_In; exact Hc).
    apply in_map_iff. exists (nthz (zuniq l) c). split; [|exact Hin].
    apply zindex_nth; [apply ssorted_NoDup, zuniq_sorted | exact Hc].
Qed.

Lemma In_nthn (l : list nat) c : In c l -> exists i, i < length l /\ nthn l i = c.
Proof. intros H. destruct (In_nth l c 0 H) as [i [Hi E]]. exists i. split; auto. Qed.

Lemma nthn_In (l : list nat) i : i < length l -> In (nthn l i) l.
Proof. intros H. apply nth_In. exact H. Qed.

Theorem unique_inverse_contiguous_pf (l : list Z) :
  let out := snd (unique_inverse l) in
  let k := length (nodup Z.eq_dec l) in
  length out = length l /\
  (forall i j, i < length l -> j < length l -> (nthn out i = nthn out j <-> nthz l i = nthz l j)) /\
  (forall c, In c out <-> c < k).
Proof.
  intros out k. destruct (unique_inverse_facts l) as [Hk [Hlen [Hinv Hall]]].
  fold out in Hlen, Hinv, Hall. fold k in Hk.
  split; [exact Hlen|]. split.
  - intros i j Hi Hj. destruct (Hinv i Hi) as [Hi1 Hi2]. destruct (Hinv j Hj) as [Hj1 Hj2]. split; intros E.
    + rewrite <- Hi2, <- Hj2, E. reflexivity.
    + subst out. unfold unique_inverse. cbn [snd].
      rewrite (nthn_map_lt _ _ 0%Z) by exact Hi. rewrite (nthn_map_lt _ _ 0%Z) by exact Hj.
      fold (nthz l i) (nthz l j). rewrite E. reflexivity.
  - intros c. split; intros H.
    + apply In_nthn in H. destruct H as [i [Hi E]]. rewrite Hlen in Hi. destruct (Hinv i Hi) as [H1 _]. lia.
    + apply Hall. lia.
Qed.

(* ------------------------------------------------------------------------------------------ *)
(** * reindex_labels *)

Lemma ssorted_nth l a b : StronglySorted Z.le l -> a <= b -> b < length l -> (nthz l a <= nthz l b)%Z.
Proof.
  unfold nthz. revert a b. induction l as [|x t IH]; simpl; intros a b HS Hab Hb; [lia|].
  inversion HS as [|? ? HSt HF]; subst.
  destruct a as [|a]; destruct b as [|b]; try lia.
  - rewrite Forall_forall in HF. apply HF. apply nth_In. lia.
  - apply IH; auto; lia.
Qed.

Lemma count_map_char (g : Z -> nat) (l : list Z) (b : nat) (y : Z) :
  (forall x, In x l -> (g x = b <-> x = y)) ->
  count_occ Nat.eq_dec (map g l) b = zcount y l.
Proof.
  unfold zcount. induction l as [|a t IH]; intros H; [reflexivity|].
  cbn [map count_occ filter].
  assert (Ha := H a (or_introl eq_refl)).
  assert (IH' : count_occ Nat.eq_dec (map g t) b = length (filter (Z.eqb y) t)).
  { apply IH. intros x Hx. apply H. right; exact Hx. }
  destruct (Nat.eq_dec (g a) b) as [E|E].
  - apply Ha in E. subst a. rewrite Z.eqb_refl. cbn [length]. rewrite IH'. reflexivity.
  - destruct (y =? a)%Z eqn:E2.
    + apply Z.eqb_eq in E2. exfalso. apply E. apply Ha. auto.
    + exact IH'.
Qed.

Lemma map_of_nat_seq_sorted s k : StronglySorted Z.lt (map Z.of_nat (seq s k)).
Proof.
  revert s. induction k as [|k IH]; intros s; simpl; constructor; [apply IH|].
  rewrite Forall_forall. intros x Hx. apply in_map_iff in Hx. destruct Hx as [c [<- Hc]].
  apply in_seq in Hc. lia.
Qed.

Lemma nthz_map_of_nat (l : list nat) p : p < length l -> nthz (map Z.of_nat l) p = Z.of_nat (nthn l p).
Proof.
  intros H. unfold nthz, nthn. rewrite (nth_indep _ 0%Z (Z.of_nat 0)) by (rewrite map_length; exact H).
  apply map_nth.
Qed.

Section Reindex.
  Context (argsort : list Z -> list nat) (labels : list Z).
  Context (Hargsort : let keys := map (fun c => (- Z.of_nat c)%Z) (unique_counts labels) in
                      argsort_ok keys (argsort keys)).

  Let u := zuniq labels.
  Let k := length u.
  Let counts := unique_counts labels.
  Let keys := map (fun c => (- Z.of_nat c)%Z) counts.
  Let order := argsort keys.
  Let zorder := map Z.of_nat order.
  Let rank (c : nat) := zindex (Z.of_nat c) zorder.
  Let new_index := unique_index zorder.

  Local Lemma keys_len : length keys = k.
  Proof. unfold keys, counts, unique_counts, k, u. rewrite !map_length. reflexivity. Qed.

  Local Lemma order_perm : Permutation order (seq 0 k).
  Proof. rewrite <- keys_len. apply Hargsort. Qed.

  Local Lemma order_len : length order = k.
  Proof. rewrite (Permutation_length order_perm). apply seq_length. Qed.

  Local Lemma order_In c : In c order <-> c < k.
  Proof.
    split; intros H.
    - apply (Permutation_in _ order_perm) in H. apply in_seq in H. lia.
    - apply (Permutation_in _ (Permutation_sym order_perm)). apply in_seq. lia.
  Qed.

  Local Lemma zorder_NoDup : NoDup zorder.
  Proof.
    unfold zorder. apply FinFun.Injective_map_NoDup.
    - intros a b E. lia.
    - apply (Permutation_NoDup (Permutation_sym order_perm)). apply seq_NoDup.
  Qed.

  Local Lemma zuniq_zorder : zuniq zorder = map Z.of_nat (seq 0 k).
  Proof.
    apply ssorted_unique; [apply zuniq_sorted | apply map_of_nat_seq_sorted |].
    intros x. rewrite zuniq_In. unfold zorder. rewrite !in_map_iff.
    split; intros [c [E H]]; exists c; (split; [exact E|]).
    - apply in_seq. apply order_In in H. lia.
    - apply order_In. apply in_seq in H. lia.
  Qed.

  Local Lemma new_index_nth c : c < k -> nthn new_index c = rank c.
  Proof.
    intros Hc. unfold new_index, unique_index. rewrite zuniq_zorder, map_map.
    rewrite (nthn_map_lt _ _ 0) by (rewrite seq_length; exact Hc).
    rewrite seq_nth by exact Hc. reflexivity.
  Qed.

  Local Lemma rank_lt c : c < k -> rank c < k.
  Proof.
    intros Hc. unfold rank.
    assert (L : length zorder = k) by (unfold zorder; rewrite map_length; apply order_len).
    rewrite <- L. apply zindex_lt. unfold zorder. apply in_map. apply order_In. exact Hc.
  Qed.

  Local Lemma order_rank c : c < k -> nthn order (rank c) = c.
  Proof.
    intros Hc. assert (H := rank_lt c Hc).
    assert (E : nthz zorder (rank c) = Z.of_nat c).
    { apply nth_zindex. unfold zorder. apply in_map. apply order_In. exact Hc. }
    unfold zorder in E at 1. rewrite nthz_map_of_nat in E by (rewrite order_len; exact H). lia.
  Qed.

  Local Lemma rank_order p : p < k -> rank (nthn order p) = p.
  Proof.
    intros Hp. unfold rank. rewrite <- nthz_map_of_nat by (rewrite order_len; exact Hp).
    apply zindex_nth; [apply zorder_NoDup|]. unfold zorder. rewrite map_length, order_len. exact Hp.
  Qed.

  Local Lemma order_nth_lt p : p < k -> nthn order p < k.
  Proof. intros Hp. apply order_In. apply nthn_In. rewrite order_len. exact Hp. Qed.

  Let g (x : Z) : nat := nthn new_index (zindex x u).

  Local Lemma out_is_map : reindex_labels argsort labels = map g labels.
  Proof. unfold reindex_labels, unique_inverse. cbn [snd]. rewrite map_map. reflexivity. Qed.

  Local Lemma g_val x : In x labels -> g x = rank (zindex x u) /\ zindex x u < k.
  Proof.
    intros Hx. assert (H : zindex x u < k) by (apply zindex_lt, zuniq_In; exact Hx).
    split; [apply new_index_nth; exact H | exact H].
  Qed.

  Local Lemma g_char x b : In x labels -> b < k -> (g x = b <-> x = nthz u (nthn order b)).
  Proof.
    intros Hx Hb. destruct (g_val x Hx) as [E Hlt]. rewrite E. split; intros H.
    - rewrite <- H. rewrite order_rank by exact Hlt. symmetry. apply nth_zindex. apply zuniq_In. exact Hx.
    - subst x. rewrite zindex_nth; [apply rank_order; exact Hb | apply ssorted_NoDup, zuniq_sorted | apply order_nth_lt; exact Hb].
  Qed.

  Local Lemma out_count b : b < k ->
    count_occ Nat.eq_dec (reindex_labels argsort labels) b = nthn counts (nthn order b).
  Proof.
    intros Hb. rewrite out_is_map.
    rewrite (count_map_char g labels b (nthz u (nthn order b))) by (intros x Hx; apply g_char; auto).
    unfold counts, unique_counts. rewrite (nthn_map_lt _ _ 0%Z) by (apply order_nth_lt; exact Hb).
    reflexivity.
  Qed.

  Lemma reindex_labels_spec_pf :
    let out := reindex_labels argsort labels in
    let kk := length (nodup Z.eq_dec labels) in
    length out = length labels /\
    (forall i j, i < length labels -> j < length labels ->
                 (nthn out i = nthn out j <-> nthz labels i = nthz labels j)) /\
    (forall c, In c out <-> c < kk) /\
    (forall a b, a <= b -> b < kk -> count_occ Nat.eq_dec out b <= count_occ Nat.eq_dec out a).
  Proof.
    intros out kk.
    assert (Hkk : kk = k) by (unfold kk, k, u; symmetry; apply zuniq_length_nodup).
    rewrite Hkk. unfold out. split; [rewrite out_is_map; apply map_length|]. split; [|split].
    - intros i j Hi Hj. rewrite out_is_map.
      rewrite (nthn_map_lt _ _ 0%Z) by exact Hi. rewrite (nthn_map_lt _ _ 0%Z) by exact Hj.
      fold (nthz labels i) (nthz labels j).
      assert (Hxi := nthz_In labels i Hi). assert (Hxj := nthz_In labels j Hj).
      split; intros E; [|rewrite E; reflexivity].
      destruct (g_val _ Hxj) as [_ Hlt].
      assert (Hb : g (nthz labels j) < k) by (destruct (g_val _ Hxj) as [-> _]; apply rank_lt; exact Hlt).
      apply (g_char _ _ Hxi Hb) in E. rewrite E. symmetry. apply (g_char _ _ Hxj Hb). reflexivity.
    - intros c. rewrite out_is_map. split; intros H.
      + apply in_map_iff in H. destruct H as [x [E Hx]]. destruct (g_val x Hx) as [E2 Hlt].
        rewrite <- E, E2. apply rank_lt. exact Hlt.
      + apply in_map_iff. exists (nthz u (nthn order c)). split.
        * apply g_char; auto. apply zuniq_In. apply nthz_In. apply order_nth_lt. exact H.
        * apply zuniq_In. apply nthz_In. apply order_nth_lt. exact H.
    - intros a b Hab Hb. rewrite !out_count by lia.
      destruct Hargsort as [_ HS]. fold counts keys order in HS.
      apply Sorted_StronglySorted in HS; [|intros x y z; lia].
      assert (H := ssorted_nth _ a b HS Hab).
      rewrite map_length, order_len in H. specialize (H Hb).
      assert (Hk : forall p, p < k -> nthz (map (nthz keys) order) p = (- Z.of_nat (nthn counts (nthn order p)))%Z).
      { intros p Hp. unfold nthz at 1. rewrite (nth_map_gen _ _ _ 0) by (rewrite order_len; exact Hp).
        fold (nthn order p). unfold keys, nthz.
        rewrite (nth_map_gen _ _ _ 0); [reflexivity|].
        unfold counts, unique_counts. rewrite map_length. apply order_nth_lt. exact Hp. }
      rewrite !Hk in H by lia. lia.
  Qed.
End Reindex.

(* ------------------------------------------------------------------------------------------ *)
(** * Un-shuffling *)

Lemma upd_length {A} (l : list A) i x : length (upd l i x) = length l.
Proof.
  unfold upd. destruct (Nat.ltb i (length l)) eqn:E; [|reflexivity].
  apply Nat.ltb_lt in E. rewrite app_length. cbn [length]. rewrite firstn_length, skipn_length. lia.
Qed.

Lemma nth_upd_same {A} (l : list A) i x d : i < length l -> nth i (upd l i x) d = x.
Proof.
  intros H. unfold upd. apply Nat.ltb_lt in H. rewrite H. apply Nat.ltb_lt in H.
  rewrite app_nth2; rewrite firstn_length; [|lia].
  replace (i - Nat.min i (length l)) with 0 by lia. reflexivity.
Qed.

Lemma nth_skipn_add {A} (l : list A) k m d : nth m (skipn k l) d = nth (k + m) l d.
Proof.
  revert l. induction k as [|k IH]; intros l; [reflexivity|].
  destruct l as [|a t]; [destruct m; reflexivity|]. cbn [skipn Nat.add nth]. apply IH.
Qed.

Lemma nth_upd_other {A} (l : list A) i j x d : i <> j -> nth j (upd l i x) d = nth j l d.
Proof.
  intros H. unfold upd. destruct (Nat.ltb i (length l)) eqn:E; [|reflexivity].
  apply Nat.ltb_lt in E.
  destruct (Nat.lt_ge_cases j i) as [Hj|Hj].
  - rewrite app_nth1 by (rewrite firstn_length; lia).
    rewrite <- (firstn_skipn i l) at 2. rewrite app_nth1 by (rewrite firstn_length; lia). reflexivity.
  - rewrite app_nth2 by (rewrite firstn_length; lia). rewrite firstn_length.
    replace (Nat.min i (length l)) with i by lia.
    destruct (j - i) as [|m] eqn:Em; [lia|]. cbn [nth].
    rewrite nth_skipn_add. f_equal. lia.
Qed.

Definition scatter_step {A} (acc : list A) (p : nat * A) : list A := upd acc (fst p) (snd p).

Lemma scatter_fold_length {A} (pairs : list (nat * A)) init :
  length (fold_left scatter_step pairs init) = length init.
Proof.
  revert init. induction pairs as [|q r IH]; intros init; [reflexivity|].
  cbn [fold_left]. rewrite IH. apply upd_length.
Qed.

Lemma scatter_untouched {A} (pairs : list (nat * A)) init v d :
  ~ In v (map fst pairs) -> nth v (fold_left scatter_step pairs init) d = nth v init d.
Proof.
  revert init. induction pairs as [|q r IH]; intros init H; [reflexivity|].
  cbn [fold_left]. rewrite IH by (intros Hin; apply H; right; exact Hin).
  apply nth_upd_other. intros E. apply H. left. exact E.
Qed.

Lemma scatter_written {A} (pairs : list (nat * A)) init d :
  NoDup (map fst pairs) -> (forall p, In p pairs -> fst p < length init) ->
  forall p, In p pairs -> nth (fst p) (fold_left scatter_step pairs init) d = snd p.
Proof.
  revert init. induction pairs as [|q r IH]; intros init HN Hlt p Hp; [destruct Hp|].
  cbn [map] in HN. inversion HN as [|? ? Hq HNr]; subst.
  cbn [fold_left]. destruct Hp as [->|Hp].
  - rewrite scatter_untouched by exact Hq. apply nth_upd_same. apply Hlt. left; reflexivity.
  - apply IH; auto. intros p' Hp'. unfold scatter_step. rewrite upd_length. apply Hlt. right; exact Hp'.
Qed.

Lemma scatter_eq {A} (init : list A) keys vals :
  scatter init keys vals = fold_left scatter_step (combine keys vals) init.
Proof. reflexivity. Qed.

Lemma map_fst_combine {A B} (a : list A) (b : list B) : length a = length b -> map fst (combine a b) = a.
Proof.
  revert b. induction a as [|x a IH]; intros [|y b] H; simpl in *; try lia; [reflexivity|].
  f_equal. apply IH. lia.
Qed.

Lemma In_combine_nth {A B} (a : list A) (b : list B) i da db :
  i < length a -> length a = length b -> In (nth i a da, nth i b db) (combine a b).
Proof.
  revert b i. induction a as [|x a IH]; intros [|y b] i Hi H; simpl in *; try lia.
  destruct i as [|i]; [left; reflexivity|]. right. apply IH; lia.
Qed.

Lemma reverse_index_spec index n :
  Permutation index (seq 0 n) ->
  length (reverse_index index) = n /\
  forall i, i < n -> nthn (reverse_index index) (nthn index i) = i.
Proof.
  intros HP. assert (Hlen : length index = n) by (rewrite (Permutation_length HP); apply seq_length).
  unfold reverse_index. rewrite scatter_eq, Hlen. split.
  - rewrite scatter_fold_length. apply repeat_length.
  - intros i Hi. unfold nthn.
    assert (Hin : In (nth i index 0, nth i (seq 0 n) 0) (combine index (seq 0 n))).
    { apply In_combine_nth; [lia | rewrite seq_length; exact Hlen]. }
    rewrite seq_nth in Hin by exact Hi. cbn [Nat.add] in Hin.
    apply (scatter_written (combine index (seq 0 n)) (repeat 0 n) 0) in Hin; [exact Hin | |].
    + rewrite map_fst_combine by (rewrite seq_length; exact Hlen).
      apply (Permutation_NoDup (Permutation_sym HP)). apply seq_NoDup.
    + intros [pa pb] Hp. rewrite repeat_length. apply in_combine_l in Hp.
      apply (Permutation_in _ HP) in Hp. apply in_seq in Hp. cbn [fst]. lia.
Qed.

Lemma unshuffle_correct_pf (index labels : list nat) :
  let n := length labels in
  Permutation index (seq 0 n) ->
  let out := unshuffle index labels in
  length out = n /\
  (forall i, i < n -> nthn out (nthn index i) = nthn labels i) /\
  Permutation out labels.
Proof.
  intros n HP out. destruct (reverse_index_spec index n HP) as [Hlen Hrev].
  assert (Hilen : length index = n) by (rewrite (Permutation_length HP); apply seq_length).
  assert (Hout : length out = n) by (unfold out, unshuffle; rewrite map_length; exact Hlen).
  assert (Hidx : forall i, i < n -> nthn index i < n).
  { intros i Hi. assert (H : In (nthn index i) index) by (apply nthn_In; lia).
    apply (Permutation_in _ HP) in H. apply in_seq in H. lia. }
  assert (Hval : forall i, i < n -> nthn out (nthn index i) = nthn labels i).
  { intros i Hi. unfold out, unshuffle.
    rewrite (nthn_map_lt _ _ 0) by (rewrite Hlen; apply Hidx; exact Hi).
    fold (nthn (reverse_index index) (nthn index i)). rewrite Hrev by exact Hi. reflexivity. }
  split; [exact Hout|]. split; [exact Hval|].
  (* labels = map (nthn out) index and out = map (nthn out) (seq 0 n) *)
  assert (E1 : labels = map (nthn out) index).
  { apply (nth_ext _ _ 0 0); [rewrite map_length; lia|].
    intros i Hi. fold n in Hi. change (nth i (map (nthn out) index) 0) with (nthn (map (nthn out) index) i).
    rewrite (nthn_map_lt _ _ 0) by lia. fold (nthn index i). rewrite Hval by exact Hi. reflexivity. }
  assert (E2 : out = map (nthn out) (seq 0 n)).
  { apply (nth_ext _ _ 0 0); [rewrite map_length, seq_length; exact Hout|].
    intros i Hi. rewrite Hout in Hi.
    change (nth i (map (nthn out) (seq 0 n)) 0) with (nthn (map (nthn out) (seq 0 n)) i).
    rewrite (nthn_map_lt _ _ 0) by (rewrite seq_length; exact Hi). rewrite seq_nth by exact Hi. reflexivity. }
  assert (HPm := Permutation_map (nthn out) (Permutation_sym HP)).
  rewrite <- E1 in HPm. rewrite <- E2 in HPm. exact HPm.
Qed.

(* ------------------------------------------------------------------------------------------ *)
(** * Finite sums over Q and dense matrices *)

Lemma sumq_cons x l : sumq (x :: l) = (x + sumq l)%Q.
Proof. reflexivity. Qed.

Lemma sumq_ext {A} (f g : A -> Q) l :
  (forall x, In x l -> (f x == g x)%Q) -> (sumq (map f l) == sumq (map g l))%Q.
Proof.
  induction l as [|a t IH]; intros H; [reflexivity|].
  cbn [map]. rewrite !sumq_cons. rewrite (H a (or_introl eq_refl)).
  rewrite IH; [reflexivity|]. intros x Hx. apply H. right; exact Hx.
Qed.

Lemma sumq_zero {A} (f : A -> Q) l : (forall x, In x l -> (f x == 0)%Q) -> (sumq (map f l) == 0)%Q.
Proof.
  induction l as [|a t IH]; intros H; [reflexivity|].
  cbn [map]. rewrite sumq_cons. rewrite (H a (or_introl eq_refl)).
  rewrite IH; [ring|]. intros x Hx. apply H. right; exact Hx.
Qed.

Lemma sumq_add {A} (f g : A -> Q) l :
  (sumq (map (fun x => f x + g x) l) == sumq (map f l) + sumq (map g l))%Q.
Proof.
  induction l as [|a t IH]; [cbn; ring|].
  cbn [map]. rewrite !sumq_cons. rewrite IH. ring.
Qed.

Lemma sumq_scale_l {A} (c : Q) (f : A -> Q) l :
  (c * sumq (map f l) == sumq (map (fun x => c * f x) l))%Q.
Proof.
  induction l as [|a t IH]; [cbn; ring|].
  cbn [map]. rewrite !sumq_cons. rewrite <- IH. ring.
Qed.

Lemma sumq_scale_r {A} (c : Q) (f : A -> Q) l :
  (sumq (map f l) * c == sumq (map (fun x => f x * c) l))%Q.
Proof.
  induction l as [|a t IH]; [cbn; ring|].
  cbn [map]. rewrite !sumq_cons. rewrite <- IH. ring.
Qed.

Lemma sumq_swap {A B} (f : A -> B -> Q) la lb :
  (sumq (map (fun a => sumq (map (f a) lb)) la) == sumq (map (fun b => sumq (map (fun a => f a b) la)) lb))%Q.
Proof.
  induction la as [|a t IH].
  - cbn [map sumq fold_right]. symmetry. apply sumq_zero. intros; reflexivity.
  - cbn [map]. rewrite sumq_cons. rewrite IH.
    rewrite <- sumq_add. apply sumq_ext. intros b _. rewrite sumq_cons. reflexivity.
Qed.

Lemma sumq_nonneg {A} (f : A -> Q) l : (forall x, In x l -> (0 <= f x)%Q) -> (0 <= sumq (map f l))%Q.
Proof.
  induction l as [|a t IH]; intros H; [cbn; lra|].
  cbn [map]. rewrite sumq_cons.
  assert (H1 := H a (or_introl eq_refl)).
  assert (H2 : (0 <= sumq (map f t))%Q) by (apply IH; intros x Hx; apply H; right; exact Hx).
  lra.
Qed.

Lemma sumq_onehot (z : Z) (f : nat -> Q) s k :
  (Z.of_nat s <= z < Z.of_nat (s + k))%Z ->
  (sumq (map (fun c => if (z =? Z.of_nat c)%Z then f c else 0%Q) (seq s k)) == f (Z.to_nat z))%Q.
Proof.
  revert s. induction k as [|k IH]; intros s H; [lia|].
  cbn [seq map]. rewrite sumq_cons.
  destruct (z =? Z.of_nat s)%Z eqn:E.
  - apply Z.eqb_eq in E. rewrite E, Nat2Z.id.
    rewrite sumq_zero; [ring|]. intros c Hc. apply in_seq in Hc.
    destruct (Z.of_nat s =? Z.of_nat c)%Z eqn:E2; [apply Z.eqb_eq in E2; lia | reflexivity].
  - apply Z.eqb_neq in E. rewrite IH by lia. ring.
Qed.

Lemma sumq_onehot_out (z : Z) (f : nat -> Q) k :
  ~ (0 <= z < Z.of_nat k)%Z ->
  (sumq (map (fun c => if (z =? Z.of_nat c)%Z then f c else 0%Q) (seq 0 k)) == 0)%Q.
Proof.
  intros H. apply sumq_zero. intros c Hc. apply in_seq in Hc.
  destruct (z =? Z.of_nat c)%Z eqn:E; [apply Z.eqb_eq in E; lia | reflexivity].
Qed.

Lemma mk_length n m f : length (mk n m f) = n.
Proof. unfold mk. rewrite map_length, seq_length. reflexivity. Qed.

Lemma mk_row n m f i : i < n -> nth i (mk n m f) [] = map (fun j => f i j) (seq 0 m).
Proof.
  intros H. unfold mk. rewrite (nth_map_gen _ _ _ 0) by (rewrite seq_length; exact H).
  rewrite seq_nth by exact H. reflexivity.
Qed.

Lemma ent_mk n m f i j : i < n -> j < m -> ent (mk n m f) i j = f i j.
Proof.
  intros Hi Hj. unfold ent. rewrite mk_row by exact Hi. unfold nthq.
  rewrite (nth_map_gen _ _ _ 0) by (rewrite seq_length; exact Hj).
  rewrite seq_nth by exact Hj. reflexivity.
Qed.

Lemma ent_onehot n k lab i c :
  i < n -> c < k -> ent (onehot n k lab) i c = if (lab i =? Z.of_nat c)%Z then 1%Q else 0%Q.
Proof. intros Hi Hc. unfold onehot. apply ent_mk; assumption. Qed.

Lemma ent_mmul n k m A B i c :
  i < n -> c < m ->
  ent (mmul n k m A B) i c = sumq (map (fun j => (ent A i j * ent B j c)%Q) (seq 0 k)).
Proof. intros Hi Hc. unfold mmul. apply ent_mk; assumption. Qed.

Lemma ent_mtrans n m A i j : i < m -> j < n -> ent (mtrans n m A) i j = ent A j i.
Proof. intros Hi Hj. unfold mtrans. rewrite ent_mk by assumption. reflexivity. Qed.

Definition in_range (k : nat) (lab : nat -> Z) (n : nat) : Prop :=
  forall j, j < n -> (0 <= lab j < Z.of_nat k)%Z.

(** Row sums of X . M for a one-hot M whose labels all lie in 0..k-1: those of X. *)
Lemma row_sum_mmul_onehot r n k X lab i :
  in_range k lab n -> i < r ->
  (row_sum k (mmul r n k X (onehot n k lab)) i == row_sum n X i)%Q.
Proof.
  intros Hr Hi. unfold row_sum.
  rewrite (sumq_ext _ (fun c => sumq (map (fun j => if (lab j =? Z.of_nat c)%Z then ent X i j else 0%Q) (seq 0 n)))).
  - rewrite (sumq_swap (fun c j => if (lab j =? Z.of_nat c)%Z then ent X i j else 0%Q)).
    apply sumq_ext. intros j Hj. apply in_seq in Hj.
    rewrite (sumq_onehot (lab j) (fun _ => ent X i j) 0 k); [reflexivity|].
    specialize (Hr j). cbn [Nat.add]. lia.
  - intros c Hc. apply in_seq in Hc. rewrite ent_mmul by lia.
    apply sumq_ext. intros j Hj. apply in_seq in Hj. rewrite ent_onehot by lia.
    destruct (lab j =? Z.of_nat c)%Z; ring.
Qed.

Lemma ent_mmul_nonneg r n k X lab i c :
  (forall j, j < n -> (0 <= ent X i j)%Q) -> i < r -> c < k ->
  (0 <= ent (mmul r n k X (onehot n k lab)) i c)%Q.
Proof.
  intros HX Hi Hc. rewrite ent_mmul by assumption. apply sumq_nonneg.
  intros j Hj. apply in_seq in Hj. rewrite ent_onehot by lia.
  specialize (HX j). destruct (lab j =? Z.of_nat c)%Z; [|lra].
  assert (H : (0 <= ent X i j)%Q) by (apply HX; lia). lra.
Qed.

(** total(M^T . X) = total(X) for a one-hot M (n x k) whose labels all lie in 0..k-1. *)
Lemma total_mtrans_onehot n k m X lab :
  in_range k lab n ->
  (total k m (mmul k n m (mtrans n k (onehot n k lab)) X) == total n m X)%Q.
Proof.
  intros Hr. unfold total, row_sum.
  rewrite (sumq_ext _ (fun a => sumq (map (fun i => if (lab i =? Z.of_nat a)%Z then row_sum m X i else 0%Q) (seq 0 n)))).
  - rewrite (sumq_swap (fun a i => if (lab i =? Z.of_nat a)%Z then row_sum m X i else 0%Q)).
    apply sumq_ext. intros i Hi. apply in_seq in Hi.
    rewrite (sumq_onehot (lab i) (fun _ => row_sum m X i) 0 k); [reflexivity|].
    specialize (Hr i). cbn [Nat.add]. lia.
  - intros a Ha. apply in_seq in Ha.
    rewrite (sumq_ext _ (fun c => sumq (map (fun i => if (lab i =? Z.of_nat a)%Z then ent X i c else 0%Q) (seq 0 n)))).
    + rewrite (sumq_swap (fun c i => if (lab i =? Z.of_nat a)%Z then ent X i c else 0%Q)).
      apply sumq_ext. intros i Hi. destruct (lab i =? Z.of_nat a)%Z; [reflexivity|].
      apply sumq_zero. intros; reflexivity.
    + intros c Hc. apply in_seq in Hc. rewrite ent_mmul by lia.
      apply sumq_ext. intros i Hi. apply in_seq in Hi.
      rewrite ent_mtrans by lia. rewrite ent_onehot by lia.
      destruct (lab i =? Z.of_nat a)%Z; ring.
Qed.

Lemma total_ext n m m' X Y :
  (forall i, i < n -> (row_sum m X i == row_sum m' Y i)%Q) -> (total n m X == total n m' Y)%Q.
Proof. intros H. unfold total. apply sumq_ext. intros i Hi. apply in_seq in Hi. apply H. lia. Qed.

(** Entries of the two association orders of M_r^T A M_c are the block sums. *)
Lemma block_sum_right n m k k' A lr lc a b :
  a < k -> b < k' ->
  (ent (mmul k n k' (mtrans n k (onehot n k lr)) (mmul n m k' A (onehot m k' lc))) a b
   == block_sum n m A lr lc a b)%Q.
Proof.
  intros Ha Hb. rewrite ent_mmul by assumption. unfold block_sum.
  apply sumq_ext. intros i Hi. apply in_seq in Hi.
  rewrite ent_mtrans by lia. rewrite ent_onehot by lia. rewrite ent_mmul by lia.
  rewrite sumq_scale_l. apply sumq_ext. intros j Hj. apply in_seq in Hj.
  rewrite ent_onehot by lia.
  destruct (lr i =? Z.of_nat a)%Z; destruct (lc j =? Z.of_nat b)%Z; cbn [andb]; ring.
Qed.

Lemma block_sum_left n m k k' A lr lc a b :
  a < k -> b < k' ->
  (ent (mmul k m k' (mmul k n m (mtrans n k (onehot n k lr)) A) (onehot m k' lc)) a b
   == block_sum n m A lr lc a b)%Q.
Proof.
  intros Ha Hb. rewrite ent_mmul by assumption. unfold block_sum.
  rewrite (sumq_ext _ (fun j => sumq (map (fun i =>
     if (lr i =? Z.of_nat a)%Z && (lc j =? Z.of_nat b)%Z then ent A i j else 0%Q) (seq 0 n)))).
  - rewrite (sumq_swap (fun j i => if (lr i =? Z.of_nat a)%Z && (lc j =? Z.of_nat b)%Z then ent A i j else 0%Q)).
    reflexivity.
  - intros j Hj. apply in_seq in Hj. rewrite ent_mmul by lia. rewrite ent_onehot by lia.
    rewrite sumq_scale_r. apply sumq_ext. intros i Hi. apply in_seq in Hi.
    rewrite ent_mtrans by lia. rewrite ent_onehot by lia.
    destruct (lr i =? Z.of_nat a)%Z; destruct (lc j =? Z.of_nat b)%Z; cbn [andb]; ring.
Qed.

(** Rows of normalize(Y) for a non-negative Y. *)
Lemma normalize_rows r k Y i :
  (forall c, c < k -> (0 <= ent Y i c)%Q) -> i < r ->
  (forall c, c < k -> (0 <= ent (normalize r k Y) i c)%Q) /\
  ((0 < row_sum k Y i)%Q -> (row_sum k (normalize r k Y) i == 1)%Q) /\
  ((row_sum k Y i == 0)%Q -> (row_sum k (normalize r k Y) i == 0)%Q /\
                             forall c, c < k -> (ent (normalize r k Y) i c == 0)%Q).
Proof.
  intros HY Hi.
  assert (Hnorm : (row_norm k Y i == row_sum k Y i)%Q).
  { unfold row_norm, row_sum. apply sumq_ext. intros c Hc. apply in_seq in Hc.
    apply Qabs_pos. apply HY. lia. }
  assert (Hent : forall c, c < k ->
            ent (normalize r k Y) i c = if Qeq_bool (row_norm k Y i) 0 then 0%Q else (ent Y i c / row_norm k Y i)%Q).
  { intros c Hc. unfold normalize. rewrite ent_mk by assumption. reflexivity. }
  assert (Hpos : (0 <= row_sum k Y i)%Q).
  { unfold row_sum. apply sumq_nonneg. intros c Hc. apply in_seq in Hc. apply HY. lia. }
  destruct (Qeq_bool (row_norm k Y i) 0) eqn:E.
  - apply Qeq_bool_iff in E. rewrite Hnorm in E.
    assert (Hz : forall c, c < k -> (ent (normalize r k Y) i c == 0)%Q) by (intros c Hc; rewrite Hent by exact Hc; reflexivity).
    assert (Hs : (row_sum k (normalize r k Y) i == 0)%Q).
    { unfold row_sum. apply sumq_zero. intros c Hc. apply in_seq in Hc. apply Hz. lia. }
    split; [intros c Hc; rewrite Hz by exact Hc; lra|].
    split; [intros H; rewrite E in H; lra | intros _; split; assumption].
  - assert (Hne : ~ (row_norm k Y i == 0)%Q).
    { intros H. apply Qeq_bool_iff in H. rewrite H in E. discriminate. }
    assert (Hgt : (0 < row_norm k Y i)%Q) by (rewrite Hnorm in *; lra).
    split; [|split].
    + intros c Hc. rewrite Hent by exact Hc. unfold Qdiv.
      apply Qmult_le_0_compat; [apply HY; exact Hc | apply Qlt_le_weak, Qinv_lt_0_compat; exact Hgt].
    + intros _. unfold row_sum.
      rewrite (sumq_ext _ (fun c => (ent Y i c * / row_norm k Y i)%Q)).
      * rewrite <- sumq_scale_r. fold (row_sum k Y i). rewrite <- Hnorm. apply Qmult_inv_r. exact Hne.
      * intros c Hc. apply in_seq in Hc. rewrite Hent by lia. reflexivity.
    + intros H. rewrite Hnorm in Hne. contradiction.
Qed.

(* ------------------------------------------------------------------------------------------ *)
(** * get_membership, _secondary_outputs *)

Lemma get_membership_ok labels o k M :
  get_membership labels o = Ok (k, M) ->
  M = membership labels k /\ (forall l, In l labels -> (l < Z.of_nat k)%Z) /\
  match o with Some k0 => k = k0 | None => True end.
Proof.
  unfold get_membership. intros H.
  assert (Hgen : forall k0, (if forallb (fun l => (l <? Z.of_nat k0)%Z) labels then Ok (k0, membership labels k0)
                             else Err ValueError) = Ok (k, M) ->
                            k = k0 /\ M = membership labels k /\ (forall l, In l labels -> (l < Z.of_nat k)%Z)).
  { intros k0 H0. destruct (forallb (fun l => (l <? Z.of_nat k0)%Z) labels) eqn:E; [|discriminate].
    inversion H0; subst. split; [reflexivity|]. split; [reflexivity|].
    rewrite forallb_forall in E. intros l Hl. apply Z.ltb_lt. apply E. exact Hl. }
  destruct o as [k0|].
  - apply Hgen in H. destruct H as [-> [H1 H2]]. auto.
  - destruct (zmax labels) as [m|]; [|discriminate].
    destruct (m + 1 <? 0)%Z; [discriminate|].
    apply Hgen in H. destruct H as [_ [H1 H2]]. auto.
Qed.

Lemma labels_in_range labels k :
  (forall l, In l labels -> (0 <= l)%Z) -> (forall l, In l labels -> (l < Z.of_nat k)%Z) ->
  in_range k (nthz labels) (length labels).
Proof. intros H0 H1 j Hj. assert (H := nthz_In labels j Hj). split; [apply H0 | apply H1]; exact H. Qed.

Lemma nonneg_row_sum n X i : (forall j, j < n -> (0 <= ent X i j)%Q) -> (0 <= row_sum n X i)%Q.
Proof. intros H. unfold row_sum. apply sumq_nonneg. intros j Hj. apply in_seq in Hj. apply H. lia. Qed.

(** Rows of normalize(X . M): the common core of probs_, probs_row_, probs_col_. *)
Lemma probs_core r n k X lab i :
  in_range k lab n -> (forall j, j < n -> (0 <= ent X i j)%Q) -> i < r ->
  let P := normalize r k (mmul r n k X (onehot n k lab)) in
  (forall c, c < k -> (0 <= ent P i c)%Q) /\
  ((0 < row_sum n X i)%Q -> (row_sum k P i == 1)%Q) /\
  ((row_sum k P i == 0)%Q <-> (row_sum n X i == 0)%Q).
Proof.
  intros Hr HX Hi P.
  assert (Hrs := row_sum_mmul_onehot r n k X lab i Hr Hi).
  destruct (normalize_rows r k (mmul r n k X (onehot n k lab)) i) as [H1 [H2 H3]]; [|exact Hi|].
  { intros c Hc. apply ent_mmul_nonneg; assumption. }
  fold P in H1, H2, H3. rewrite Hrs in H2, H3.
  split; [exact H1|]. split; [exact H2|]. split.
  - intros E. assert (Hp := nonneg_row_sum n X i HX).
    destruct (Qlt_le_dec 0 (row_sum n X i)) as [Hlt|Hle]; [|lra].
    apply H2 in Hlt. rewrite E in Hlt. discriminate.
  - intros E. apply H3. exact E.
Qed.

Lemma secondary_ok A labels k P G :
  secondary A labels = Ok (k, P, G) ->
  let n := length labels in
  let M := onehot n k (nthz labels) in
  (forall l, In l labels -> (l < Z.of_nat k)%Z) /\
  P = normalize n k (mmul n n k A M) /\ G = mmul k n k (mtrans n k M) (mmul n n k A M).
Proof.
  unfold secondary. destruct (get_membership labels None) as [[k0 M0]|e] eqn:E; [|discriminate].
  intros H. inversion H; subst. apply get_membership_ok in E. destruct E as [-> [H1 _]].
  split; [exact H1|]. split; reflexivity.
Qed.

Lemma probs_rows_sum_pf A labels k P G :
  secondary A labels = Ok (k, P, G) ->
  let n := length labels in
  (forall i j, i < n -> j < n -> (0 <= ent A i j)%Q) ->
  (forall l, In l labels -> (0 <= l)%Z) ->
  forall i, i < n ->
    (forall c, c < k -> (0 <= ent P i c)%Q) /\
    ((0 < row_sum n A i)%Q -> (row_sum k P i == 1)%Q) /\
    ((row_sum k P i == 0)%Q <-> (row_sum n A i == 0)%Q).
Proof.
  intros H n HA Hl i Hi. apply secondary_ok in H. destruct H as [Hlt [-> _]].
  apply probs_core; [apply labels_in_range; assumption | intros j Hj; apply HA; assumption | exact Hi].
Qed.

Lemma aggregate_is_block_sum_pf A labels k P G :
  secondary A labels = Ok (k, P, G) ->
  let n := length labels in
  forall a b, a < k -> b < k -> (ent G a b == block_sum n n A (nthz labels) (nthz labels) a b)%Q.
Proof.
  intros H n a b Ha Hb. apply secondary_ok in H. destruct H as [_ [_ ->]].
  apply block_sum_right; assumption.
Qed.

Lemma aggregate_total_preserved_pf A labels k P G :
  secondary A labels = Ok (k, P, G) ->
  let n := length labels in
  (forall l, In l labels -> (0 <= l)%Z) ->
  (total k k G == total n n A)%Q.
Proof.
  intros H n Hl. apply secondary_ok in H. destruct H as [Hlt [_ ->]].
  assert (Hr := labels_in_range labels k Hl Hlt).
  rewrite total_mtrans_onehot by exact Hr.
  apply total_ext. intros i Hi. apply row_sum_mmul_onehot; assumption.
Qed.

Lemma secondary_bip_ok B lrow lcol k Pr Pc G :
  secondary_bip B lrow lcol = Ok (k, Pr, Pc, G) ->
  let nr := length lrow in
  let nc := length lcol in
  let Mr := onehot nr k (nthz lrow) in
  let Mc := onehot nc k (nthz lcol) in
  (forall l, In l lrow -> (l < Z.of_nat k)%Z) /\ (forall l, In l lcol -> (l < Z.of_nat k)%Z) /\
  Pr = normalize nr k (mmul nr nc k B Mc) /\
  Pc = normalize nc k (mmul nc nr k (mtrans nr nc B) Mr) /\
  G = mmul k nc k (mmul k nr nc (mtrans nr k Mr) B) Mc.
Proof.
  unfold secondary_bip. destruct (zmax lrow) as [a|]; [|discriminate].
  destruct (zmax lcol) as [b|]; [|discriminate].
  destruct (Z.max a b + 1 <? 0)%Z; [discriminate|].
  destruct (get_membership lrow (Some (Z.to_nat (Z.max a b + 1)))) as [[k1 M1]|e1] eqn:E1; [|discriminate].
  destruct (get_membership lcol (Some (Z.to_nat (Z.max a b + 1)))) as [[k2 M2]|e2] eqn:E2; [|discriminate].
  intros H. inversion H; subst.
  apply get_membership_ok in E1. destruct E1 as [-> [H1 ->]].
  apply get_membership_ok in E2. destruct E2 as [-> [H2 ->]].
  repeat split; auto.
Qed.

Lemma probs_rows_sum_bip_pf B lrow lcol k Pr Pc G :
  secondary_bip B lrow lcol = Ok (k, Pr, Pc, G) ->
  let nr := length lrow in
  let nc := length lcol in
  (forall i j, i < nr -> j < nc -> (0 <= ent B i j)%Q) ->
  (forall l, In l lrow -> (0 <= l)%Z) -> (forall l, In l lcol -> (0 <= l)%Z) ->
  (forall i, i < nr ->
     (forall c, c < k -> (0 <= ent Pr i c)%Q) /\
     ((0 < row_sum nc B i)%Q -> (row_sum k Pr i == 1)%Q) /\
     ((row_sum k Pr i == 0)%Q <-> (row_sum nc B i == 0)%Q)) /\
  (forall j, j < nc ->
     (forall c, c < k -> (0 <= ent Pc j c)%Q) /\
     ((0 < row_sum nr (mtrans nr nc B) j)%Q -> (row_sum k Pc j == 1)%Q) /\
     ((row_sum k Pc j == 0)%Q <-> (row_sum nr (mtrans nr nc B) j == 0)%Q)).
Proof.
  intros H nr nc HB Hr Hc. apply secondary_bip_ok in H.
  destruct H as [Hr1 [Hc1 [-> [-> _]]]]. split.
  - intros i Hi. apply probs_core; [apply labels_in_range; assumption | intros j Hj; apply HB; assumption | exact Hi].
  - intros j Hj. apply probs_core; [apply labels_in_range; assumption | | exact Hj].
    intros i Hi. rewrite ent_mtrans by assumption. apply HB; assumption.
Qed.

Lemma aggregate_bip_pf B lrow lcol k Pr Pc G :
  secondary_bip B lrow lcol = Ok (k, Pr, Pc, G) ->
  let nr := length lrow in
  let nc := length lcol in
  (forall a b, a < k -> b < k -> (ent G a b == block_sum nr nc B (nthz lrow) (nthz lcol) a b)%Q) /\
  ((forall l, In l lrow -> (0 <= l)%Z) -> (forall l, In l lcol -> (0 <= l)%Z) ->
   (total k k G == total nr nc B)%Q).
Proof.
  intros H nr nc. apply secondary_bip_ok in H. destruct H as [Hr1 [Hc1 [_ [_ ->]]]]. split.
  - intros a b Ha Hb. apply block_sum_left; assumption.
  - intros Hr Hc.
    rewrite <- (total_mtrans_onehot nr k nc B (nthz lrow)) by (apply labels_in_range; assumption).
    apply total_ext. intros a Ha. apply row_sum_mmul_onehot; [apply labels_in_range; assumption | exact Ha].
Qed.

(* ------------------------------------------------------------------------------------------ *)
(** * Composition of memberships across aggregation levels *)

(** M (n x k) is, up to ==, the one-hot matrix of the labelling f. *)
Definition oh (n k : nat) (M : mat) (f : nat -> nat) : Prop :=
  length M = n /\ (forall v, v < n -> f v < k) /\
  forall v c, v < n -> c < k -> (ent M v c == if Nat.eqb (f v) c then 1 else 0)%Q.

Lemma oh_identity n : oh n n (identity n) (fun v => v).
Proof.
  unfold identity. split; [apply mk_length|]. split; [auto|].
  intros v c Hv Hc. rewrite ent_mk by assumption. reflexivity.
Qed.

Lemma oh_step n k M f lab k' M' :
  oh n k M f -> length lab = k -> (forall l, In l lab -> (0 <= l)%Z) ->
  get_membership lab None = Ok (k', M') ->
  oh n k' (mmul n k k' M M') (fun v => Z.to_nat (nthz lab (f v))).
Proof.
  intros [HL [Hf HM]] Hlen Hpos Hg. apply get_membership_ok in Hg. destruct Hg as [-> [Hlt _]].
  split; [unfold mmul; apply mk_length|]. split.
  - intros v Hv. assert (Hin : In (nthz lab (f v)) lab) by (apply nthz_In; rewrite Hlen; apply Hf; exact Hv).
    specialize (Hlt _ Hin). specialize (Hpos _ Hin). lia.
  - intros v c Hv Hc. rewrite ent_mmul by assumption.
    rewrite (sumq_ext _ (fun j => if (Z.of_nat (f v) =? Z.of_nat j)%Z then ent (membership lab k') j c else 0%Q)).
    + rewrite (sumq_onehot (Z.of_nat (f v)) (fun j => ent (membership lab k') j c) 0 k)
        by (specialize (Hf v Hv); cbn [Nat.add]; lia).
      rewrite Nat2Z.id. unfold membership. rewrite ent_onehot by (try rewrite Hlen; auto).
      assert (Hin : In (nthz lab (f v)) lab) by (apply nthz_In; rewrite Hlen; apply Hf; exact Hv).
      specialize (Hpos _ Hin).
      destruct (nthz lab (f v) =? Z.of_nat c)%Z eqn:E1; destruct (Nat.eqb (Z.to_nat (nthz lab (f v))) c) eqn:E2;
        try reflexivity.
      * apply Z.eqb_eq in E1. apply Nat.eqb_neq in E2. lia.
      * apply Z.eqb_neq in E1. apply Nat.eqb_eq in E2. lia.
    + intros j Hj. apply in_seq in Hj. rewrite (HM v j Hv) by lia.
      destruct (Nat.eqb (f v) j) eqn:E1; destruct (Z.of_nat (f v) =? Z.of_nat j)%Z eqn:E2; try ring.
      * apply Nat.eqb_eq in E1. apply Z.eqb_neq in E2. lia.
      * apply Nat.eqb_neq in E1. apply Z.eqb_eq in E2. lia.
Qed.

Lemma compose_levels_oh n levels : forall kcur M f k Mf,
  oh n kcur M f ->
  (forall lab, In lab levels -> forall l, In l lab -> (0 <= l)%Z) ->
  compose_levels n kcur M levels = Ok (k, Mf) ->
  oh n k Mf (fun v => fold_left (fun x lab => Z.to_nat (nthz lab x)) levels (f v)).
Proof.
  induction levels as [|lab rest IH]; intros kcur M f k Mf Hoh Hpos H.
  - cbn in H. inversion H; subst. exact Hoh.
  - cbn [compose_levels] in H.
    destruct (get_membership lab None) as [[k' M']|e] eqn:Eg; [|discriminate].
    destruct (Nat.eqb kcur (length lab)) eqn:Ek; [|discriminate].
    apply Nat.eqb_eq in Ek.
    cbn [fold_left].
    apply (IH k' (mmul n kcur k' M M') (fun v => Z.to_nat (nthz lab (f v)))); [| |exact H].
    + apply oh_step; auto. intros l Hl. apply (Hpos lab); [left; reflexivity | exact Hl].
    + intros lab' Hin. apply Hpos. right; exact Hin.
Qed.

Lemma filter_eqb_seq a s k : s <= a < s + k -> filter (Nat.eqb a) (seq s k) = [a].
Proof.
  revert s. induction k as [|k IH]; intros s H; [lia|].
  cbn [seq filter]. destruct (Nat.eqb a s) eqn:E.
  - apply Nat.eqb_eq in E. subst s. f_equal.
    assert (Hnone : forall t m, a < t -> filter (Nat.eqb a) (seq t m) = []).
    { intros t m. revert t. induction m as [|m IHm]; intros t Ht; [reflexivity|].
      cbn [seq filter]. destruct (Nat.eqb a t) eqn:E2; [apply Nat.eqb_eq in E2; lia|]. apply IHm. lia. }
    apply Hnone. lia.
  - apply Nat.eqb_neq in E. apply IH. lia.
Qed.

Lemma flat_map_singletons {A} (g : A -> list nat) (l : list A) (d : A) : forall (h : nat -> nat),
  (forall v, v < length l -> g (nth v l d) = [h v]) -> flat_map g l = map h (seq 0 (length l)).
Proof.
  induction l as [|a t IH]; intros h H; [reflexivity|].
  cbn [flat_map length seq map]. assert (H0 := H 0 ltac:(cbn; lia)). cbn [nth] in H0. rewrite H0. cbn [app]. f_equal.
  rewrite <- seq_shift, map_map. apply IH. intros v Hv. apply (H (S v)). cbn. lia.
Qed.

Lemma indices_of_oh n k M f : oh n k M f -> indices_of k M = map f (seq 0 n).
Proof.
  intros [HL [Hf HM]]. unfold indices_of. rewrite <- HL.
  apply (flat_map_singletons _ M []). intros v Hv. rewrite HL in Hv.
  rewrite <- (filter_eqb_seq (f v) 0 k) by (specialize (Hf v Hv); lia).
  apply filter_ext_in. intros c Hc. apply in_seq in Hc.
  change (nthq (nth v M []) c) with (ent M v c).
  assert (E := HM v c Hv). specialize (E ltac:(lia)).
  destruct (Nat.eqb (f v) c); destruct (Qeq_bool (ent M v c) 0) eqn:Eq; try reflexivity.
  - apply Qeq_bool_iff in Eq. rewrite Eq in E. discriminate.
  - assert (Hq : Qeq_bool (ent M v c) 0 = true) by (apply Qeq_bool_iff; exact E). congruence.
Qed.

Lemma membership_composition_pf n levels k M :
  (forall lab, In lab levels -> forall l, In l lab -> (0 <= l)%Z) ->
  louvain_membership n levels = Ok (k, M) ->
  let labels := indices_of k M in
  labels = map (compose_fn levels) (seq 0 n) /\
  length labels = n /\
  forall v, v < n -> nthn labels v = compose_fn levels v /\ nthn labels v < k.
Proof.
  intros Hpos H labels. unfold louvain_membership in H.
  assert (Hoh := compose_levels_oh n levels n (identity n) (fun v => v) k M (oh_identity n) Hpos H).
  assert (E : labels = map (compose_fn levels) (seq 0 n)) by (apply (indices_of_oh n k M _ Hoh)).
  split; [exact E|]. split; [rewrite E, map_length, seq_length; reflexivity|].
  intros v Hv. rewrite E. rewrite (nthn_map_lt _ _ 0) by (rewrite seq_length; exact Hv).
  rewrite seq_nth by exact Hv. cbn [Nat.add]. split; [reflexivity|].
  destruct Hoh as [_ [Hf _]]. apply (Hf v Hv).
Qed.

(* ------------------------------------------------------------------------------------------ *)
(** * KCenters *)

Lemma nth_repeat_gen {A} (x d : A) m v : nth v (repeat x m) d = if Nat.ltb v m then x else d.
Proof.
  revert v. induction m as [|m IH]; intros v; [destruct v; reflexivity|].
  destruct v as [|v]; [reflexivity|]. cbn [repeat nth]. rewrite IH.
  destruct (Nat.ltb v m) eqn:E; destruct (Nat.ltb (S v) (S m)) eqn:E2; try reflexivity.
  - apply Nat.ltb_lt in E. apply Nat.ltb_ge in E2. lia.
  - apply Nat.ltb_ge in E. apply Nat.ltb_lt in E2. lia.
Qed.

Lemma compute_mask_spec b pos nr nc mask :
  compute_mask b pos nr nc = Ok mask ->
  length mask = (if b then nr + nc else nr) /\
  forall v, nthb mask v = true <-> admissible b pos nr nc v.
Proof.
  unfold compute_mask, admissible, nthb. intros H.
  destruct b.
  - destruct pos; inversion H; subst; clear H.
    + split; [rewrite app_length, !repeat_length; reflexivity|]. intros v.
      destruct (Nat.lt_ge_cases v nr) as [Hv|Hv].
      * rewrite app_nth1 by (rewrite repeat_length; exact Hv). rewrite nth_repeat_gen.
        apply Nat.ltb_lt in Hv. rewrite Hv. apply Nat.ltb_lt in Hv. tauto.
      * rewrite app_nth2 by (rewrite repeat_length; exact Hv). rewrite nth_repeat_gen.
        destruct (Nat.ltb (v - length (repeat true nr)) nc); split; intros; try discriminate; lia.
    + split; [rewrite app_length, !repeat_length; reflexivity|]. intros v.
      destruct (Nat.lt_ge_cases v nr) as [Hv|Hv].
      * rewrite app_nth1 by (rewrite repeat_length; exact Hv). rewrite nth_repeat_gen.
        destruct (Nat.ltb v nr); split; intros; try discriminate; lia.
      * rewrite app_nth2 by (rewrite repeat_length; exact Hv). rewrite nth_repeat_gen, repeat_length.
        destruct (Nat.ltb (v - nr) nc) eqn:E; [apply Nat.ltb_lt in E | apply Nat.ltb_ge in E];
          split; intros; try discriminate; try lia; auto.
    + split; [apply repeat_length|]. intros v. rewrite nth_repeat_gen.
      destruct (Nat.ltb v (nr + nc)) eqn:E; [apply Nat.ltb_lt in E | apply Nat.ltb_ge in E];
        split; intros; try discriminate; try lia; auto.
  - inversion H; subst; clear H. split; [apply repeat_length|]. intros v. rewrite nth_repeat_gen.
    destruct (Nat.ltb v nr) eqn:E; [apply Nat.ltb_lt in E | apply Nat.ltb_ge in E];
      split; intros; try discriminate; try lia; auto.
Qed.

Lemma nthb_true_lt mask v : nthb mask v = true -> v < length mask.
Proof.
  intros H. destruct (Nat.lt_ge_cases v (length mask)) as [Hv|Hv]; [exact Hv|].
  unfold nthb in H. rewrite nth_overflow in H by exact Hv. discriminate.
Qed.

Lemma masked_In mask v : In v (masked mask) <-> nthb mask v = true.
Proof.
  unfold masked. rewrite filter_In, in_seq. split; [tauto|].
  intros H. split; [|exact H]. apply nthb_true_lt in H. lia.
Qed.

Lemma masked_NoDup mask : NoDup (masked mask).
Proof. unfold masked. apply NoDup_filter. apply seq_NoDup. Qed.

Lemma clear_mask_spec mask c v :
  nthb (clear_mask mask c) v = true <-> nthb mask v = true /\ v <> c.
Proof.
  unfold clear_mask, nthb. destruct (Nat.eq_dec c v) as [->|Hne].
  - split; [|tauto]. intros H. exfalso.
    assert (Hlt : v < length (upd mask v false)) by (apply nthb_true_lt; exact H).
    rewrite upd_length in Hlt. rewrite nth_upd_same in H by exact Hlt. discriminate.
  - rewrite nth_upd_other by exact Hne. split; [intros H; split; [exact H | auto] | tauto].
Qed.

Lemma qmin_In l m : qmin l = Some m -> In m l.
Proof.
  destruct l as [|x t]; [discriminate|]. cbn [qmin]. intros H. inversion H; subst; clear H.
  revert x. induction t as [|y t IH]; intros x; [left; reflexivity|].
  cbn [fold_left]. destruct (Qle_bool x y).
  - destruct (IH x) as [E|Hin]; [left; exact E | right; right; exact Hin].
  - right. apply IH.
Qed.

Lemma NoDup_snoc {A} (l : list A) x : NoDup l -> ~ In x l -> NoDup (l ++ [x]).
Proof.
  induction l as [|a t IH]; intros HN Hx; cbn [app]; [constructor; [intros []|constructor]|].
  inversion HN as [|? ? Ha HNt]; subst. constructor.
  - intros H. apply in_app_iff in H. destruct H as [H|[H|[]]]; [auto|]. apply Hx. left. symmetry. exact H.
  - apply IH; [exact HNt|]. intros H. apply Hx. right; exact H.
Qed.

Section InitCenters.
  Context (orig : list bool) (ppr : list nat -> list Q) (pick : nat -> list nat -> nat).
  Context (Hpick : pick_ok pick).

  Lemma init_loop_inv : forall steps step mask centers trace,
    (forall v, nthb mask v = true <-> nthb orig v = true /\ ~ In v centers) ->
    NoDup centers -> (forall c, In c centers -> nthb orig c = true) ->
    length centers + steps <= length (masked orig) ->
    exists cs tr, init_loop steps step ppr pick mask centers trace = Ok (cs, tr) /\
                  length cs = length centers + steps /\ NoDup cs /\
                  forall c, In c cs -> nthb orig c = true.
  Proof.
    induction steps as [|s IH]; intros step mask centers trace Hmask HN Hin Hlen.
    - exists centers, trace. cbn. repeat split; auto.
    - cbn [init_loop].
      assert (Hne : masked mask <> []).
      { intros E.
        assert (Hincl : incl (masked orig) centers).
        { intros v Hv. apply masked_In in Hv.
          destruct (in_dec Nat.eq_dec v centers) as [Hc|Hc]; [exact Hc|]. exfalso.
          assert (Hm : nthb mask v = true) by (apply Hmask; split; assumption).
          apply masked_In in Hm. rewrite E in Hm. destruct Hm. }
        assert (Hle := NoDup_incl_length (masked_NoDup orig) Hincl). lia. }
      destruct (qmin (map (nthq (ppr centers)) (masked mask))) as [m|] eqn:Eq.
      2:{ exfalso. destruct (masked mask); [apply Hne; reflexivity | discriminate]. }
      set (cands := if Qeq_bool m 0 then filter (fun v => Qeq_bool (nthq (ppr centers) v) 0) (masked mask)
                    else masked mask).
      assert (Hcne : cands <> []).
      { unfold cands. destruct (Qeq_bool m 0) eqn:Em; [|exact Hne].
        apply qmin_In in Eq. apply in_map_iff in Eq. destruct Eq as [v [Ev Hv]].
        intros E. assert (Hf : In v (filter (fun v => Qeq_bool (nthq (ppr centers) v) 0) (masked mask))).
        { apply filter_In. split; [exact Hv|]. rewrite Ev. exact Em. }
        rewrite E in Hf. destruct Hf. }
      assert (Hsub : forall v, In v cands -> In v (masked mask)).
      { unfold cands. destruct (Qeq_bool m 0); [|auto]. intros v Hv. apply filter_In in Hv. tauto. }
      assert (Hc := Hpick step cands Hcne). apply Hsub in Hc. apply masked_In in Hc.
      apply Hmask in Hc. destruct Hc as [Hco Hcn].
      destruct (IH (S step) (clear_mask mask (pick step cands)) (centers ++ [pick step cands]) (trace ++ [cands]))
        as [cs [tr [E [Hl [Hnd Hall]]]]].
      + intros v. rewrite clear_mask_spec, Hmask, in_app_iff. cbn [In]. split.
        * intros [[H1 H2] H3]. split; [exact H1|]. intros [H|[H|[]]]; [auto | congruence].
        * intros [H1 H2]. split; [split; [exact H1 | tauto] | intros E; apply H2; right; left; auto].
      + apply NoDup_snoc; assumption.
      + intros c Hc. apply in_app_iff in Hc. destruct Hc as [Hc|[<-|[]]]; auto.
      + rewrite app_length. cbn [length]. lia.
      + exists cs, tr. split; [exact E|]. split; [|split; assumption].
        rewrite Hl, app_length. cbn [length]. lia.
  Qed.
End InitCenters.

Lemma init_centers_spec mask k ppr pick :
  pick_ok pick -> 1 <= k -> k <= length (masked mask) ->
  exists cs tr, init_centers mask k ppr pick = Ok (cs, tr) /\
                length cs = k /\ NoDup cs /\ forall c, In c cs -> nthb mask c = true.
Proof.
  intros Hpick Hk1 Hk. unfold init_centers.
  destruct (masked mask) as [|v0 rest] eqn:Em; [cbn in Hk; lia|].
  assert (Hc0 : nthb mask (pick 0 (v0 :: rest)) = true).
  { apply masked_In. rewrite Em. apply Hpick. discriminate. }
  destruct (init_loop_inv mask ppr pick Hpick (k - 1) 1 (clear_mask mask (pick 0 (v0 :: rest)))
                          [pick 0 (v0 :: rest)] [v0 :: rest]) as [cs [tr [E [Hl [Hnd Hall]]]]].
  - intros v. rewrite clear_mask_spec. cbn [In]. split.
    + intros [H1 H2]. split; [exact H1|]. intros [H|[]]. congruence.
    + intros [H1 H2]. split; [exact H1|]. intros E. apply H2. left. auto.
  - constructor; [intros []|constructor].
  - intros c [<-|[]]. exact Hc0.
  - cbn [length]. rewrite Em. lia.
  - exists cs, tr. split; [exact E|]. split; [cbn [length] in Hl; lia|]. split; assumption.
Qed.

Lemma In_firstn {A} (l : list A) i y : In y (firstn i l) -> In y l.
Proof. intros H. rewrite <- (firstn_skipn i l). apply in_app_iff. left. exact H. Qed.

Lemma In_upd {A} (l : list A) i x y : In y (upd l i x) -> y = x \/ In y l.
Proof.
  unfold upd. destruct (Nat.ltb i (length l)); [|auto]. intros H.
  apply in_app_iff in H. destruct H as [H|[H|H]].
  - right. apply (In_firstn l i). exact H.
  - left. auto.
  - right. rewrite <- (firstn_skipn (S i) l). apply in_app_iff. right. exact H.
Qed.

Lemma scatter_values {A} (init : list A) keys vals y :
  In y (scatter init keys vals) -> In y init \/ In y vals.
Proof.
  unfold scatter. revert init vals. induction keys as [|kx keys IH]; intros init vals H; [left; exact H|].
  destruct vals as [|vx vals]; [left; exact H|]. cbn [combine fold_left fst snd] in H.
  apply IH in H. destruct H as [H|H]; [|right; right; exact H].
  apply In_upd in H. destruct H as [->|H]; [right; left; reflexivity | left; exact H].
Qed.

Lemma fold_choice_In {A} (p : A -> A -> bool) (l : list A) (b : A) :
  In (fold_left (fun best c => if p best c then best else c) l b) (b :: l).
Proof.
  revert b. induction l as [|a t IH]; intros b; [left; reflexivity|].
  cbn [fold_left]. destruct (p b a).
  - destruct (IH b) as [H|H]; [left; exact H | right; right; exact H].
  - right. apply IH.
Qed.

Lemma argmax_row_lt k r : 1 <= k -> argmax_row k r < k.
Proof.
  intros Hk. unfold argmax_row.
  assert (H := fold_choice_In (fun best c => Qle_bool (r c) (r best)) (seq 1 (k - 1)) 0).
  destruct H as [H|H]; [rewrite <- H; lia|]. apply in_seq in H. lia.
Qed.

(** Labels produced by the classifier step lie in 0..(number of centers)-1, one per node. *)
Definition labels_good (n k : nat) (lab : list Z) : Prop :=
  length lab = n /\ forall l, In l lab -> (0 <= l < Z.of_nat k)%Z.

Lemma assign_labels_good n centers scores lab :
  assign_labels n centers scores = Ok lab -> labels_good n (length centers) lab.
Proof.
  unfold assign_labels. set (classes := zuniq (filter (fun l => (0 <=? l)%Z) (seed_vector n centers))).
  assert (Hcl : forall x, In x classes -> (0 <= x < Z.of_nat (length centers))%Z).
  { intros x Hin. unfold classes in Hin. apply (proj1 (zuniq_In _ _)) in Hin. apply filter_In in Hin. destruct Hin as [Hin Hpos].
    apply Z.leb_le in Hpos. unfold seed_vector in Hin. apply scatter_values in Hin.
    destruct Hin as [Hin|Hin].
    - apply repeat_spec in Hin. lia.
    - apply in_map_iff in Hin. destruct Hin as [c [Ec Hc]]. apply in_seq in Hc. lia. }
  destruct (Nat.ltb (length classes) 2) eqn:E; [discriminate|]. apply Nat.ltb_ge in E.
  intros H. inversion H; subst; clear H. split; [rewrite map_length, seq_length; reflexivity|].
  intros l Hl. apply in_map_iff in Hl. destruct Hl as [v [<- _]].
  apply Hcl. apply nthz_In. apply argmax_row_lt. lia.
Qed.

Lemma kc_loop_good max_iter n scores centers : forall fuel n_iter prev labels out,
  (forall lab, labels = Some lab -> labels_good n (length centers) lab) ->
  kc_loop fuel max_iter n_iter n scores prev centers labels = Ok (Some out) ->
  labels_good n (length centers) out.
Proof.
  induction fuel as [|f IH]; intros n_iter prev labels out Hlab H.
  - cbn in H. inversion H; subst. apply Hlab. reflexivity.
  - cbn [kc_loop] in H.
    destruct (negb (match prev with Some p => list_eqb p centers | None => false end) && Nat.ltb n_iter max_iter).
    + destruct (assign_labels n centers (scores n_iter)) as [lab|e] eqn:Ea; [|discriminate].
      apply (IH (S n_iter) (Some centers) (Some lab) out); [|exact H].
      intros lab' E. inversion E; subst. apply (assign_labels_good _ _ _ _ Ea).
    + inversion H; subst. apply Hlab. reflexivity.
Qed.

Definition run_good (mask : list bool) (k : nat) (t : list Z * list nat * Q) : Prop :=
  let lab := fst (fst t) in
  let centers := snd (fst t) in
  length centers = k /\ NoDup centers /\ (forall c, In c centers -> nthb mask c = true) /\
  labels_good (length mask) k lab.

Lemma kc_restarts_good mask k max_iter ppr pick scores modularity :
  (forall r, pick_ok (pick r)) -> 1 <= k -> k <= length (masked mask) ->
  forall rs runs, kc_restarts mask k max_iter ppr pick scores modularity rs = Ok runs ->
                  forall t, In t runs -> run_good mask k t.
Proof.
  intros Hpick Hk1 Hk. induction rs as [|r rest IH]; intros runs H t Ht.
  - cbn in H. inversion H; subst. destruct Ht.
  - cbn [kc_restarts] in H.
    destruct (init_centers_spec mask k (ppr r) (pick r) (Hpick r) Hk1 Hk) as [cs [tr [E [Hl [Hnd Hall]]]]].
    rewrite E in H.
    destruct (kc_loop (S max_iter) max_iter 0 (length mask) (scores r) None cs None) as [[lab|]|e] eqn:El;
      try discriminate.
    destruct (kc_restarts mask k max_iter ppr pick scores modularity rest) as [more|e] eqn:Er; [|discriminate].
    inversion H as [Hruns]. clear H. rewrite <- Hruns in Ht. destruct Ht as [<-|Ht]; [|apply (IH more eq_refl t Ht)].
    unfold run_good. cbn [fst snd]. split; [exact Hl|]. split; [exact Hnd|]. split; [exact Hall|].
    rewrite <- Hl. apply (kc_loop_good max_iter (length mask) (scores r) cs (S max_iter) 0 None None lab); [|exact El].
    intros lab' E'. discriminate.
Qed.

(** What KCenters.fit reports. *)
Lemma kcenters_fit_spec bipartite pos n_row n_col k n_init max_iter ppr pick scores modularity out :
  (forall r, pick_ok (pick r)) ->
  kcenters_fit bipartite pos n_row n_col k n_init max_iter ppr pick scores modularity = Ok out ->
  let n := if bipartite then n_row + n_col else n_row in
  (* n_clusters distinct admissible centers *)
  length (kc_centers out) = k /\ NoDup (kc_centers out) /\
  (forall c, In c (kc_centers out) -> admissible bipartite pos n_row n_col c) /\
  (* one label below n_clusters per node; per row and per column for a bipartite graph *)
  (exists lab, labels_good n k lab /\
     if bipartite then kc_labels out = firstn n_row lab /\ kc_labels_row out = Some (firstn n_row lab) /\
                       kc_labels_col out = Some (skipn n_row lab)
     else kc_labels out = lab /\ kc_labels_row out = None /\ kc_labels_col out = None) /\
  (kc_centers_row out, kc_centers_col out) = report_centers bipartite pos n_row (kc_centers out).
Proof.
  intros Hpick H n. unfold kcenters_fit in H.
  destruct (Nat.ltb k 2) eqn:Ek; [discriminate|]. apply Nat.ltb_ge in Ek.
  destruct (Nat.ltb n_init 1); [discriminate|].
  destruct (compute_mask bipartite pos n_row n_col) as [mask|e] eqn:Em; [|discriminate].
  destruct (Nat.ltb (length (masked mask)) k) eqn:Ekm; [discriminate|]. apply Nat.ltb_ge in Ekm.
  destruct (kc_restarts mask k max_iter ppr pick scores modularity (seq 0 n_init)) as [[|first more]|e] eqn:Er;
    try discriminate.
  apply compute_mask_spec in Em. destruct Em as [Hmlen Hadm].
  set (best := nth (argmax_q 0 (snd first) 1 (map snd more)) (first :: more) first) in H.
  assert (Hbest : In best (first :: more)).
  { unfold best. destruct (Nat.lt_ge_cases (argmax_q 0 (snd first) 1 (map snd more)) (length (first :: more))) as [Hi|Hi].
    - apply nth_In. exact Hi.
    - rewrite nth_overflow by exact Hi. left. reflexivity. }
  assert (Hg := kc_restarts_good mask k max_iter ppr pick scores modularity Hpick ltac:(lia) Ekm _ _ Er best Hbest).
  destruct Hg as [Hl [Hnd [Hall Hlab]]]. rewrite Hmlen in Hlab. fold n in Hlab.
  assert (Hadm' : forall c, In c (snd (fst best)) -> admissible bipartite pos n_row n_col c).
  { intros c Hc. apply Hadm. apply Hall. exact Hc. }
  destruct bipartite; inversion H as [Hout]; subst out; clear H; cbn [kc_centers kc_labels kc_labels_row kc_labels_col kc_centers_row kc_centers_col];
    (split; [exact Hl|]; split; [exact Hnd|]; split; [exact Hadm'|]; split;
     [exists (fst (fst best)); split; [exact Hlab|]; unfold split_vars; cbn [fst snd]; auto
     | symmetry; apply surjective_pairing]).
Qed.

Lemma firstn_skipn_good n_row n_col k (lab : list Z) :
  labels_good (n_row + n_col) k lab ->
  labels_good n_row k (firstn n_row lab) /\ labels_good n_col k (skipn n_row lab).
Proof.
  intros [HL Hall]. split; split.
  - rewrite firstn_length. lia.
  - intros l Hl. apply Hall. apply (In_firstn lab n_row). exact Hl.
  - rewrite skipn_length. lia.
  - intros l Hl. apply Hall. rewrite <- (firstn_skipn n_row lab). apply in_app_iff. right. exact Hl.
Qed.

(** Reported row / column centers for a bipartite graph. *)
Lemma report_centers_spec pos n_row n_col centers :
  NoDup centers -> (forall c, In c centers -> admissible true pos n_row n_col c) ->
  match report_centers true pos n_row centers with
  | (cr, cc) =>
      let r := match cr with Some r => r | None => [] end in
      let c := match cc with Some c => c | None => [] end in
      NoDup r /\ NoDup c /\ (forall v, In v r -> v < n_row) /\ (forall v, In v c -> v < n_col) /\
      length r + length c = length centers /\
      (forall v, In v centers <-> (In v r /\ v < n_row) \/ (In (v - n_row) c /\ n_row <= v))
  end.
Proof.
  intros HN Hadm. unfold report_centers, admissible in *.
  assert (Hinj : forall l, NoDup l -> (forall v, In v l -> n_row <= v) -> NoDup (map (fun c => c - n_row) l)).
  { intros l Hl Hge. induction Hl as [|a t Ha Ht IH]; [constructor|]. cbn [map]. constructor.
    - intros H. apply in_map_iff in H. destruct H as [b [E Hb]].
      assert (Ha' := Hge a (or_introl eq_refl)). assert (Hb' := Hge b (or_intror Hb)).
      assert (a = b) by lia.
      subst b. contradiction.
    - apply IH. intros v Hv. apply Hge. right; exact Hv. }
  destruct pos.
  - cbn [length]. split; [exact HN|]. split; [constructor|]. split; [exact Hadm|].
    split; [intros v []|]. split; [lia|]. intros v. split.
    + intros H. left. split; [exact H | apply Hadm; exact H].
    + intros [[H _]|[[] _]]. exact H.
  - cbn [length]. rewrite map_length. split; [constructor|]. split; [apply Hinj; [exact HN | intros v Hv; apply Hadm in Hv; lia]|].
    split; [intros v []|]. split.
    { intros v Hv. apply in_map_iff in Hv. destruct Hv as [c [<- Hc]]. apply Hadm in Hc. lia. }
    split; [reflexivity|]. intros v. split.
    + intros H. right. split; [apply (in_map (fun c => c - n_row)); exact H | apply Hadm in H; lia].
    + intros [[[] _]|[H Hge]]. apply in_map_iff in H. destruct H as [c [E Hc]].
      assert (c = v) by (apply Hadm in Hc; lia). subst c. exact Hc.
  - set (r := filter (fun c => Nat.ltb c n_row) centers).
    set (c := filter (fun c => negb (memn c r)) centers).
    assert (Hr : forall v, In v r <-> In v centers /\ v < n_row).
    { intros v. unfold r. rewrite filter_In. rewrite Nat.ltb_lt. tauto. }
    assert (Hc : forall v, In v c <-> In v centers /\ n_row <= v).
    { intros v. unfold c. rewrite filter_In. split; intros [H1 H2]; (split; [exact H1|]).
      - destruct (Nat.lt_ge_cases v n_row) as [Hlt|Hge]; [|exact Hge]. exfalso.
        assert (Hm : memn v r = true) by (apply memn_In; apply Hr; auto). rewrite Hm in H2. discriminate.
      - destruct (memn v r) eqn:Em; [|reflexivity]. apply memn_In in Em. apply Hr in Em. lia. }
    split; [apply NoDup_filter; exact HN|].
    split; [apply Hinj; [apply NoDup_filter; exact HN | intros v Hv; apply Hc in Hv; tauto]|].
    split; [intros v Hv; apply Hr in Hv; tauto|].
    split.
    { intros v Hv. apply in_map_iff in Hv. destruct Hv as [x [<- Hx]]. apply Hc in Hx.
      destruct Hx as [Hx Hge]. apply Hadm in Hx. lia. }
    split.
    { rewrite map_length. unfold c.
      assert (E : forall l, length (filter (fun c0 => Nat.ltb c0 n_row) l) +
                            length (filter (fun c0 => negb (Nat.ltb c0 n_row)) l) = length l).
      { induction l as [|a t IH]; [reflexivity|]. cbn [filter]. destruct (Nat.ltb a n_row); cbn [negb length]; lia. }
      rewrite <- (E centers). f_equal. f_equal. apply filter_ext_in. intros v Hv.
      destruct (Nat.ltb v n_row) eqn:El; destruct (memn v r) eqn:Em; try reflexivity.
      - apply Nat.ltb_lt in El. assert (Hm : memn v r = true) by (apply memn_In; apply Hr; auto). congruence.
      - apply memn_In in Em. apply Hr in Em. apply Nat.ltb_ge in El. lia. }
    intros v. split.
    + intros H. destruct (Nat.lt_ge_cases v n_row) as [Hlt|Hge].
      * left. split; [apply Hr; auto | exact Hlt].
      * right. split; [apply (in_map (fun c => c - n_row)); apply Hc; auto | exact Hge].
    + intros [[H _]|[H Hge]]; [apply Hr in H; tauto|].
      apply in_map_iff in H. destruct H as [x [E Hx]]. apply Hc in Hx. destruct Hx as [Hx Hxge].
      assert (x = v) by lia. subst x. exact Hx.
  - destruct centers as [|a t]; [|exfalso; apply (Hadm a); left; reflexivity].
    cbn. split; [constructor|]. split; [constructor|]. split; [intros v []|]. split; [intros v []|].
    split; [reflexivity|]. intros v. tauto.
Qed.

(* ------------------------------------------------------------------------------------------ *)
(** * The run-time check of the argsort contract is sound *)

Lemma is_perm_of_range_sound n perm : is_perm_of_range n perm = true -> Permutation perm (seq 0 n).
Proof.
  unfold is_perm_of_range. intros H. apply andb_true_iff in H. destruct H as [HL Hall].
  apply Nat.eqb_eq in HL. rewrite forallb_forall in Hall.
  apply Permutation_sym. apply NoDup_Permutation_bis.
  - apply seq_NoDup.
  - rewrite seq_length. lia.
  - intros v Hv. apply memn_In. apply Hall. exact Hv.
Qed.

Lemma sorted_by_sound keys perm : sorted_by keys perm = true -> Sorted Z.le (map (nthz keys) perm).
Proof.
  unfold sorted_by. induction perm as [|a t IH]; intros H; [constructor|].
  destruct t as [|b t']; [cbn; constructor; constructor|].
  cbn [tl combine forallb fst snd] in H. apply andb_true_iff in H. destruct H as [Hab Hrest].
  cbn [map]. constructor.
  - apply IH. exact Hrest.
  - constructor. apply Z.leb_le. exact Hab.
Qed.

Lemma argsort_ok_b_sound keys perm : argsort_ok_b keys perm = true -> argsort_ok keys perm.
Proof.
  unfold argsort_ok_b. intros H. apply andb_true_iff in H. destruct H as [H1 H2].
  split; [apply is_perm_of_range_sound; exact H1 | apply sorted_by_sound; exact H2].
Qed.

(* ------------------------------------------------------------------------------------------ *)
(** * _post_processing as a whole, _split_vars, PropagationClustering *)

Lemma nthz_map_of_nat_any (l : list nat) i : nthz (map Z.of_nat l) i = Z.of_nat (nthn l i).
Proof.
  destruct (Nat.lt_ge_cases i (length l)) as [H|H]; [apply nthz_map_of_nat; exact H|].
  unfold nthz, nthn. rewrite !nth_overflow; [reflexivity | exact H | rewrite map_length; exact H].
Qed.

Lemma post_processing_pf argsort (sort_clusters shuffle_nodes : bool) index raw :
  (sort_clusters = true ->
   let keys := map (fun c => (- Z.of_nat c)%Z) (unique_counts (map Z.of_nat raw)) in
   argsort_ok keys (argsort keys)) ->
  (shuffle_nodes = true -> Permutation index (seq 0 (length raw))) ->
  (sort_clusters = false -> exists k0, forall c, In c raw <-> c < k0) ->
  let n := length raw in
  let out := post_processing argsort sort_clusters shuffle_nodes index raw in
  let img i := if shuffle_nodes then nthn index i else i in
  length out = n /\
  (forall i j, i < n -> j < n -> (nthn out (img i) = nthn out (img j) <-> nthn raw i = nthn raw j)) /\
  exists k, (forall c, In c out <-> c < k) /\
            (sort_clusters = true ->
             forall a b, a <= b -> b < k -> count_occ Nat.eq_dec out b <= count_occ Nat.eq_dec out a).
Proof.
  intros Hsort Hshuf Hcontig n out img.
  set (lab1 := if sort_clusters then reindex_labels argsort (map Z.of_nat raw) else raw).
  assert (H1 : length lab1 = n /\
               (forall i j, i < n -> j < n -> (nthn lab1 i = nthn lab1 j <-> nthn raw i = nthn raw j)) /\
               exists k, (forall c, In c lab1 <-> c < k) /\
                         (sort_clusters = true -> forall a b, a <= b -> b < k ->
                            count_occ Nat.eq_dec lab1 b <= count_occ Nat.eq_dec lab1 a)).
  { unfold lab1. destruct sort_clusters.
    - destruct (reindex_labels_spec_pf argsort (map Z.of_nat raw) (Hsort eq_refl)) as [HL [HP [HC HS]]].
      rewrite map_length in HL, HP. split; [exact HL|]. split.
      + intros i j Hi Hj. rewrite (HP i j Hi Hj). rewrite !nthz_map_of_nat_any. lia.
      + eexists. split; [exact HC | intros _; exact HS].
    - split; [reflexivity|]. split; [tauto|]. destruct (Hcontig eq_refl) as [k0 Hk0].
      exists k0. split; [exact Hk0 | discriminate]. }
  destruct H1 as [HL [HP [k [HC HS]]]].
  unfold out, post_processing. fold lab1. unfold img. destruct shuffle_nodes.
  - assert (HPm : Permutation index (seq 0 (length lab1))) by (rewrite HL; apply Hshuf; reflexivity).
    destruct (unshuffle_correct_pf index lab1 HPm) as [HL2 [Hval Hperm]].
    split; [rewrite HL2; exact HL|]. split.
    + intros i j Hi Hj. rewrite !Hval by (rewrite HL; assumption). apply HP; assumption.
    + exists k. split.
      * intros c. rewrite <- HC. split; apply Permutation_in; [exact Hperm | apply Permutation_sym; exact Hperm].
      * intros Es a b Hab Hb.
        rewrite !(proj1 (Permutation_count_occ Nat.eq_dec _ _) Hperm). apply HS; assumption.
  - split; [exact HL|]. split; [exact HP|]. exists k. split; assumption.
Qed.

Lemma split_vars_pf {A} (n_row n_col : nat) (labels : list A) :
  length labels = n_row + n_col ->
  let r := fst (split_vars n_row labels) in
  let c := snd (split_vars n_row labels) in
  length r = n_row /\ length c = n_col /\ r ++ c = labels /\
  (forall x, In x labels <-> In x r \/ In x c).
Proof.
  intros H r c. unfold r, c, split_vars. cbn [fst snd].
  split; [rewrite firstn_length; lia|]. split; [rewrite skipn_length; lia|].
  split; [apply firstn_skipn|]. intros x. rewrite <- (firstn_skipn n_row labels) at 1. apply in_app_iff.
Qed.

Lemma nodup_len_contig (l : list nat) k :
  (forall c, In c l <-> c < k) -> length (nodup Z.eq_dec (map Z.of_nat l)) = k.
Proof.
  intros H. rewrite <- (seq_length k 0). rewrite <- (map_length Z.of_nat (seq 0 k)).
  apply Permutation_length. apply NoDup_Permutation.
  - apply NoDup_nodup.
  - apply FinFun.Injective_map_NoDup; [intros a b E; lia | apply seq_NoDup].
  - intros x. rewrite nodup_In, !in_map_iff. split; intros [c [E Hc]]; exists c; (split; [exact E|]).
    + apply in_seq. apply H in Hc. lia.
    + apply H. apply in_seq in Hc. lia.
Qed.

Lemma propagation_labels_pf argsort (sort_clusters bipartite : bool) (n_row : nat) (raw : list Z) :
  (sort_clusters = true ->
   let keys := map (fun c => (- Z.of_nat c)%Z) (unique_counts (map Z.of_nat (snd (unique_inverse raw)))) in
   argsort_ok keys (argsort keys)) ->
  let all := propagation_all argsort sort_clusters raw in
  let k := length (nodup Z.eq_dec raw) in
  length all = length raw /\
  (forall i j, i < length raw -> j < length raw -> (nthn all i = nthn all j <-> nthz raw i = nthz raw j)) /\
  (forall c, In c all <-> c < k) /\
  (sort_clusters = true ->
   forall a b, a <= b -> b < k -> count_occ Nat.eq_dec all b <= count_occ Nat.eq_dec all a) /\
  propagation_labels argsort sort_clusters bipartite n_row raw =
    if bipartite then (firstn n_row all, Some (firstn n_row all, skipn n_row all)) else (all, None).
Proof.
  intros Hsort all k. destruct (unique_inverse_contiguous_pf raw) as [H1 [H2 H3]]. fold k in H3.
  set (compact := snd (unique_inverse raw)) in *.
  assert (Hlast : propagation_labels argsort sort_clusters bipartite n_row raw =
                  if bipartite then (firstn n_row all, Some (firstn n_row all, skipn n_row all)) else (all, None)).
  { unfold propagation_labels, split_vars. fold all. destruct bipartite; reflexivity. }
  unfold all, propagation_all. fold compact. destruct sort_clusters.
  - destruct (reindex_labels_spec_pf argsort (map Z.of_nat compact) (Hsort eq_refl)) as [HL [HP [HC HS]]].
    rewrite map_length in HL, HP. rewrite (nodup_len_contig compact k H3) in HC, HS.
    split; [rewrite HL; exact H1|]. split.
    + intros i j Hi Hj. rewrite <- H1 in Hi, Hj. rewrite (HP i j Hi Hj). rewrite !nthz_map_of_nat_any.
      rewrite H1 in Hi, Hj. rewrite <- (H2 i j Hi Hj). lia.
    + split; [exact HC|]. split; [intros _; exact HS | exact Hlast].
  - split; [exact H1|]. split; [exact H2|]. split; [exact H3|]. split; [discriminate | exact Hlast].
Qed.

(** LEGACY model (before /repo 350bc655): sort_clusters=True (the default) was accepted and never sorted. *)
Lemma legacy_propagation_sort_clusters_refuted_pf :
  exists raw : list Z,
    let out := fst (legacy_propagation_labels true false 0 raw) in
    ~ (forall a b, a <= b -> b < 2 -> count_occ Nat.eq_dec out b <= count_occ Nat.eq_dec out a).
Proof.
  exists [0; 0; 2; 2; 2]%Z. intros out H. specialize (H 0 1 ltac:(lia) ltac:(lia)).
  vm_compute in H. lia.
Qed.

Lemma kcenters_centers_pf bipartite pos n_row n_col k n_init max_iter ppr pick scores modularity out :
  (forall r, pick_ok (pick r)) ->
  kcenters_fit bipartite pos n_row n_col k n_init max_iter ppr pick scores modularity = Ok out ->
  length (kc_centers out) = k /\ NoDup (kc_centers out) /\
  (forall c, In c (kc_centers out) -> admissible bipartite pos n_row n_col c) /\
  (kc_centers_row out, kc_centers_col out) = report_centers bipartite pos n_row (kc_centers out).
Proof.
  intros Hp H. destruct (kcenters_fit_spec _ _ _ _ _ _ _ _ _ _ _ _ Hp H) as [a [b [c [_ e]]]].
  repeat split; assumption.
Qed.

Lemma kcenters_labels_pf bipartite pos n_row n_col k n_init max_iter ppr pick scores modularity out :
  (forall r, pick_ok (pick r)) ->
  kcenters_fit bipartite pos n_row n_col k n_init max_iter ppr pick scores modularity = Ok out ->
  let n := if bipartite then n_row + n_col else n_row in
  exists lab, (length lab = n /\ forall l, In l lab -> (0 <= l < Z.of_nat k)%Z) /\
    if bipartite then kc_labels out = firstn n_row lab /\ kc_labels_row out = Some (firstn n_row lab) /\
                      kc_labels_col out = Some (skipn n_row lab)
    else kc_labels out = lab /\ kc_labels_row out = None /\ kc_labels_col out = None.
Proof.
  intros Hp H. destruct (kcenters_fit_spec _ _ _ _ _ _ _ _ _ _ _ _ Hp H) as [_ [_ [_ [d _]]]]. exact d.
Qed.

(** Proofs about Model/Clustering.v (property C05). *)
From SKN Require Import Base.Util Model.Clustering.
From Coq Require Import Permutation Sorted Lia QArith Qabs Lqa Psatz.
Close Scope Q_scope.
Open Scope nat_scope.

(* ------------------------------------------------------------------------------------------ *)
(** * np.unique *)

Lemma zinsert_In x y l : In y (zinsert x l) <-> y = x \/ In y l.
Proof.
  induction l as [|z t IH]; simpl.
  - intuition congruence.
  - destruct (x <? z)%Z eqn:E1; [simpl; intuition congruence|].
    destruct (x =? z)%Z eqn:E2.
    + apply Z.eqb_eq in E2. subst. simpl. intuition congruence.
    + simpl. rewrite IH. intuition congruence.
Qed.

Lemma zinsert_sorted x l : StronglySorted Z.lt l -> StronglySorted Z.lt (zinsert x l).
Proof.
  induction l as [|z t IH]; simpl; intros HS.
  - constructor; constructor.
  - inversion HS as [|? ? HSt HF]; subst.
    destruct (x <? z)%Z eqn:E1.
    + apply Z.ltb_lt in E1. constructor; [exact HS|].
      constructor; [exact E1|]. rewrite Forall_forall in *. intros y Hy. specialize (HF y Hy). lia.
    + destruct (x =? z)%Z eqn:E2; [exact HS|].
      apply Z.ltb_ge in E1. apply Z.eqb_neq in E2.
      constructor; [apply IH; exact HSt|].
      rewrite Forall_forall in *. intros y Hy. apply zinsert_In in Hy. destruct Hy as [->|Hy]; [lia|auto].
Qed.

Lemma zuniq_sorted l : StronglySorted Z.lt (zuniq l).
Proof. induction l; simpl; [constructor | apply zinsert_sorted; assumption]. Qed.

Lemma zuniq_In l x : In x (zuniq l) <-> In x l.
Proof.
  induction l as [|a t IH]; simpl; [tauto|].
  rewrite zinsert_In, IH. split; intros [H|H]; auto.
Qed.

Lemma ssorted_NoDup l : StronglySorted Z.lt l -> NoDup l.
Proof.
  induction l as [|a t IH]; intros HS; [constructor|].
  inversion HS as [|? ? HSt HF]; subst. constructor; [|auto].
  intros Hin. rewrite Forall_forall in HF. specialize (HF a Hin). lia.
Qed.

Lemma ssorted_unique a b :
  StronglySorted Z.lt a -> StronglySorted Z.lt b -> (forall x, In x a <-> In x b) -> a = b.
Proof.
  revert b. induction a as [|x a' IH]; intros b Ha Hb Hab.
  - destruct b as [|y b']; [reflexivity|]. exfalso. apply (Hab y). left; reflexivity.
  - destruct b as [|y b'].
    + exfalso. apply (Hab x). left; reflexivity.
    + inversion Ha as [|? ? Ha' HFa]; subst. inversion Hb as [|? ? Hb' HFb]; subst.
      rewrite Forall_forall in HFa, HFb.
      assert (Exy : x = y).
      { assert (H1 : In x (y :: b')) by (apply Hab; left; reflexivity).
        assert (H2 : In y (x :: a')) by (apply Hab; left; reflexivity).
        destruct H1 as [H1|H1]; [auto|]. destruct H2 as [H2|H2]; [auto|].
        specialize (HFa y H2). specialize (HFb x H1). lia. }
      subst y. f_equal. apply IH; auto.
      intros z. split; intros Hz.
      * assert (H1 : In z (x :: b')) by (apply Hab; right; exact Hz).
        destruct H1 as [H1|H1]; [|exact H1]. subst z. specialize (HFa x Hz). lia.
      * assert (H1 : In z (x :: a')) by (apply Hab; right; exact Hz).
        destruct H1 as [H1|H1]; [|exact H1]. subst z. specialize (HFb x Hz). lia.
Qed.

Lemma zuniq_length_nodup l : length (zuniq l) = length (nodup Z.eq_dec l).
Proof.
  apply Permutation_length. apply NoDup_Permutation.
  - apply ssorted_NoDup, zuniq_sorted.
  - apply NoDup_nodup.
  - intros x. rewrite zuniq_In, nodup_In. tauto.
Qed.

Lemma zindex_lt x l : In x l -> zindex x l < length l.
Proof.
  induction l as [|y t IH]; simpl; [tauto|]. intros H.
  destruct (x =? y)%Z eqn:E; [lia|]. apply Z.eqb_neq in E.
  destruct H as [H|H]; [congruence|]. specialize (IH H). lia.
Qed.

Lemma zindex_le x l : zindex x l <= length l.
Proof. induction l as [|y t IH]; simpl; [lia|]. destruct (x =? y)%Z; lia. Qed.

Lemma nth_zindex x l : In x l -> nthz l (zindex x l) = x.
Proof.
  unfold nthz. induction l as [|y t IH]; simpl; [tauto|]. intros H.
  destruct (x =? y)%Z eqn:E; [apply Z.eqb_eq in E; auto|]. apply Z.eqb_neq in E.
  destruct H as [H|H]; [congruence|]. auto.
Qed.

Lemma zindex_nth l i : NoDup l -> i < length l -> zindex (nthz l i) l = i.
Proof.
  unfold nthz. revert i. induction l as [|y t IH]; simpl; intros i HN Hi; [lia|].
  inversion HN as [|? ? Hy HNt]; subst.
  destruct i as [|i].
  - rewrite Z.eqb_refl. reflexivity.
  - destruct (nth i t 0%Z =? y)%Z eqn:E.
    + apply Z.eqb_eq in E. exfalso. apply Hy. rewrite <- E. apply nth_In. lia.
    + f_equal. apply IH; auto. lia.
Qed.

Lemma nthz_In l i : i < length l -> In (nthz l i) l.
Proof. intros H. unfold nthz. apply nth_In. exact H. Qed.

Lemma nthn_map_lt {A} (f : A -> nat) (l : list A) (d : A) i :
  i < length l -> nthn (map f l) i = f (nth i l d).
Proof.
  intros H. unfold nthn. rewrite (nth_indep _ 0 (f d)) by (rewrite map_length; exact H).
  apply map_nth.
Qed.

(** The compaction [np.unique(l, return_inverse=True)[1]]. *)
Lemma unique_inverse_facts (l : list Z) :
  let u := fst (unique_inverse l) in
  let inv := snd (unique_inverse l) in
  length u = length (nodup Z.eq_dec l) /\
  length inv = length l /\
  (forall i, i < length l -> nthn inv i < length u /\ nthz u (nthn inv i) = nthz l i) /\
  (forall c, c < length u -> In c inv).
Proof.
  unfold unique_inverse. cbn [fst snd].
  split; [apply zuniq_length_nodup|].
  split; [apply map_length|].
  split.
  - intros i Hi. rewrite (nthn_map_lt _ _ 0%Z) by exact Hi. fold (nthz l i).
    assert (Hin : In (nthz l i) (zuniq l)) by (apply zuniq_In, nthz_In; exact Hi).
    split; [apply zindex_lt; exact Hin | apply nth_zindex; exact Hin].
  - intros c Hc.
    assert (Hin : In (nthz (zuniq l) c) l) by (apply zuniq_In, nthz_In; exact Hc).
    apply in_map_iff. exists (nthz (zuniq l) c). split; [|exact Hin].
    apply zindex_nth; [apply ssorted_NoDup, zuniq_sorted | exact Hc].
Qed.

Lemma In_nthn (l : list nat) c : In c l -> exists i, i < length l /\ nthn l i = c.
Proof. intros H. destruct (In_nth l c 0 H) as [i [Hi E]]. exists i. split; auto. Qed.

Lemma nthn_In (l : list nat) i : i < length l -> In (nthn l i) l.
Proof. intros H. apply nth_In. exact H. Qed.

Theorem unique_inverse_contiguous_pf (l : list Z) :
  let out := snd (unique_inverse l) in
  let k := length (nodup Z.eq_dec l) in
  length out = length l /\
  (forall i j, i < length l -> j < length l -> (nthn out i = nthn out j <-> nthz l i = nthz l j)) /\
  (forall c, In c out <-> c < k).
Proof.
  intros out k. destruct (unique_inverse_facts l) as [Hk [Hlen [Hinv Hall]]].
  fold out in Hlen, Hinv, Hall. fold k in Hk.
  split; [exact Hlen|]. split.
  - intros i j Hi Hj. destruct (Hinv i Hi) as [Hi1 Hi2]. destruct (Hinv j Hj) as [Hj1 Hj2]. split; intros E.
    + rewrite <- Hi2, <- Hj2, E. reflexivity.
    + subst out. unfold unique_inverse. cbn [snd].
      rewrite (nthn_map_lt _ _ 0%Z) by exact Hi. rewrite (nthn_map_lt _ _ 0%Z) by exact Hj.
      fold (nthz l i) (nthz l j). rewrite E. reflexivity.
  - intros c. split; intros H.
    + apply In_nthn in H. destruct H as [i [Hi E]]. rewrite Hlen in Hi. destruct (Hinv i Hi) as [H1 _]. lia.
    + apply Hall. lia.
Qed.

(* ------------------------------------------------------------------------------------------ *)
(** * reindex_labels *)

Lemma ssorted_nth l a b : StronglySorted Z.le l -> a <= b -> b < length l -> (nthz l a <= nthz l b)%Z.
Proof.
  unfold nthz. revert a b. induction l as [|x t IH]; simpl; intros a b HS Hab Hb; [lia|].
  inversion HS as [|? ? HSt HF]; subst.
  destruct a as [|a]; destruct b as [|b]; try lia.
  - rewrite Forall_forall in HF. apply HF. apply nth_In. lia.
  - apply IH; auto; lia.
Qed.

Lemma count_map_char (g : Z -> nat) (l : list Z) (b : nat) (y : Z) :
  (forall x, In x l -> (g x = b <-> x = y)) ->
  count_occ Nat.eq_dec (map g l) b = zcount y l.
Proof.
  unfold zcount. induction l as [|a t IH]; intros H; [reflexivity|].
  cbn [map count_occ filter].
  assert (Ha := H a (or_introl eq_refl)).
  assert (IH' : count_occ Nat.eq_dec (map g t) b = length (filter (Z.eqb y) t)).
  { apply IH. intros x Hx. apply H. right; exact Hx. }
  destruct (Nat.eq_dec (g a) b) as [E|E].
  - apply Ha in E. subst a. rewrite Z.eqb_refl. cbn [length]. rewrite IH'. reflexivity.
  - destruct (y =? a)%Z eqn:E2.
    + apply Z.eqb_eq in E2. exfalso. apply E. apply Ha. auto.
    + exact IH'.
Qed.

Lemma map_of_nat_seq_sorted s k : StronglySorted Z.lt (map Z.of_nat (seq s k)).
Proof.
  revert s. induction k as [|k IH]; intros s; simpl; constructor; [apply IH|].
  rewrite Forall_forall. intros x Hx. apply in_map_iff in Hx. destruct Hx as [c [<- Hc]].
  apply in_seq in Hc. lia.
Qed.

Lemma nthz_map_of_nat (l : list nat) p : p < length l -> nthz (map Z.of_nat l) p = Z.of_nat (nthn l p).
Proof.
  intros H. unfold nthz, nthn. rewrite (nth_indep _ 0%Z (Z.of_nat 0)) by (rewrite map_length; exact H).
  apply map_nth.
Qed.

Section Reindex.
  Context (argsort : list Z -> list nat) (labels : list Z).
  Context (Hargsort : forall keys, argsort_ok keys (argsort keys)).

  Let u := zuniq labels.
  Let k := length u.
  Let counts := unique_counts labels.
  Let keys := map (fun c => (- Z.of_nat c)%Z) counts.
  Let order := argsort keys.
  Let zorder := map Z.of_nat order.
  Let rank (c : nat) := zindex (Z.of_nat c) zorder.
  Let new_index := unique_index zorder.

  Local Lemma keys_len : length keys = k.
  Proof. unfold keys, counts, unique_counts, k, u. rewrite !map_length. reflexivity. Qed.

  Local Lemma order_perm : Permutation order (seq 0 k).
  Proof. rewrite <- keys_len. apply Hargsort. Qed.

  Local Lemma order_len : length order = k.
  Proof. rewrite (Permutation_length order_perm). apply seq_length. Qed.

  Local Lemma order_In c : In c order <-> c < k.
  Proof.
    split; intros H.
    - apply (Permutation_in _ order_perm) in H. apply in_seq in H. lia.
    - apply (Permutation_in _ (Permutation_sym order_perm)). apply in_seq. lia.
  Qed.

  Local Lemma zorder_NoDup : NoDup zorder.
  Proof.
    unfold zorder. apply FinFun.Injective_map_NoDup.
    - intros a b E. lia.
    - apply (Permutation_NoDup (Permutation_sym order_perm)). apply seq_NoDup.
  Qed.

  Local Lemma zuniq_zorder : zuniq zorder = map Z.of_nat (seq 0 k).
  Proof.
    apply ssorted_unique; [apply zuniq_sorted | apply map_of_nat_seq_sorted |].
    intros x. rewrite zuniq_In. unfold zorder. rewrite !in_map_iff.
    split; intros [c [E H]]; exists c; (split; [exact E|]).
    - apply in_seq. apply order_In in H. lia.
    - apply order_In. apply in_seq in H. lia.
  Qed.

  Local Lemma new_index_nth c : c < k -> nthn new_index c = rank c.
  Proof.
    intros Hc. unfold new_index, unique_index. rewrite zuniq_zorder, map_map.
    rewrite (nthn_map_lt _ _ 0) by (rewrite seq_length; exact Hc).
    rewrite seq_nth by exact Hc. reflexivity.
  Qed.

  Local Lemma rank_lt c : c < k -> rank c < k.
  Proof.
    intros Hc. unfold rank.
    assert (L : length zorder = k) by (unfold zorder; rewrite map_length; apply order_len).
    rewrite <- L. apply zindex_lt. unfold zorder. apply in_map. apply order_In. exact Hc.
  Qed.

  Local Lemma order_rank c : c < k -> nthn order (rank c) = c.
  Proof.
    intros Hc. assert (H := rank_lt c Hc).
    assert (E : nthz zorder (rank c) = Z.of_nat c).
    { apply nth_zindex. unfold zorder. apply in_map. apply order_In. exact Hc. }
    unfold zorder in E at 1. rewrite nthz_map_of_nat in E by (rewrite order_len; exact H). lia.
  Qed.

  Local Lemma rank_order p : p < k -> rank (nthn order p) = p.
  Proof.
    intros Hp. unfold rank. rewrite <- nthz_map_of_nat by (rewrite order_len; exact Hp).
    apply zindex_nth; [apply zorder_NoDup|]. unfold zorder. rewrite map_length, order_len. exact Hp.
  Qed.

  Local Lemma order_nth_lt p : p < k -> nthn order p < k.
  Proof. intros Hp. apply order_In. apply nthn_In. rewrite order_len. exact Hp. Qed.

  Let g (x : Z) : nat := nthn new_index (zindex x u).

  Local Lemma out_is_map : reindex_labels argsort labels = map g labels.
  Proof. unfold reindex_labels, unique_inverse. cbn [snd]. rewrite map_map. reflexivity. Qed.

  Local Lemma g_val x : In x labels -> g x = rank (zindex x u) /\ zindex x u < k.
  Proof.
    intros Hx. assert (H : zindex x u < k) by (apply zindex_lt, zuniq_In; exact Hx).
    split; [apply new_index_nth; exact H | exact H].
  Qed.

  Local Lemma g_char x b : In x labels -> b < k -> (g x = b <-> x = nthz u (nthn order b)).
  Proof.
    intros Hx Hb. destruct (g_val x Hx) as [E Hlt]. rewrite E. split; intros H.
    - rewrite <- H. rewrite order_rank by exact Hlt. symmetry. apply nth_zindex. apply zuniq_In. exact Hx.
    - subst x. rewrite zindex_nth; [apply rank_order; exact Hb | apply ssorted_NoDup, zuniq_sorted | apply order_nth_lt; exact Hb].
  Qed.

  Local Lemma out_count b : b < k ->
    count_occ Nat.eq_dec (reindex_labels argsort labels) b = nthn counts (nthn order b).
  Proof.
    intros Hb. rewrite out_is_map.
    rewrite (count_map_char g labels b (nthz u (nthn order b))) by (intros x Hx; apply g_char; auto).
    unfold counts, unique_counts. rewrite (nthn_map_lt _ _ 0%Z) by (apply order_nth_lt; exact Hb).
    reflexivity.
  Qed.

  Lemma reindex_labels_spec_pf :
    let out := reindex_labels argsort labels in
    let kk := length (nodup Z.eq_dec labels) in
    length out = length labels /\
    (forall i j, i < length labels -> j < length labels ->
                 (nthn out i = nthn out j <-> nthz labels i = nthz labels j)) /\
    (forall c, In c out <-> c < kk) /\
    (forall a b, a <= b -> b < kk -> count_occ Nat.eq_dec out b <= count_occ Nat.eq_dec out a).
  Proof.
    intros out kk.
    assert (Hkk : kk = k) by (unfold kk, k, u; symmetry; apply zuniq_length_nodup).
    rewrite Hkk. unfold out. split; [rewrite out_is_map; apply map_length|]. split; [|split].
    - intros i j Hi Hj. rewrite out_is_map.
      rewrite (nthn_map_lt _ _ 0%Z) by exact Hi. rewrite (nthn_map_lt _ _ 0%Z) by exact Hj.
      fold (nthz labels i) (nthz labels j).
      assert (Hxi := nthz_In labels i Hi). assert (Hxj := nthz_In labels j Hj).
      split; intros E; [|rewrite E; reflexivity].
      destruct (g_val _ Hxj) as [_ Hlt].
      assert (Hb : g (nthz labels j) < k) by (destruct (g_val _ Hxj) as [-> _]; apply rank_lt; exact Hlt).
      apply (g_char _ _ Hxi Hb) in E. rewrite E. symmetry. apply (g_char _ _ Hxj Hb). reflexivity.
    - intros c. rewrite out_is_map. split; intros H.
      + apply in_map_iff in H. destruct H as [x [E Hx]]. destruct (g_val x Hx) as [E2 Hlt].
        rewrite <- E, E2. apply rank_lt. exact Hlt.
      + apply in_map_iff. exists (nthz u (nthn order c)). split.
        * apply g_char; auto. apply zuniq_In. apply nthz_In. apply order_nth_lt. exact H.
        * apply zuniq_In. apply nthz_In. apply order_nth_lt. exact H.
    - intros a b Hab Hb. rewrite !out_count by lia.
      destruct (Hargsort keys) as [_ HS]. fold order in HS.
      apply Sorted_StronglySorted in HS; [|intros x y z; lia].
      assert (H := ssorted_nth _ a b HS Hab).
      rewrite map_length, order_len in H. specialize (H Hb).
      assert (Hk : forall p, p < k -> nthz (map (nthz keys) order) p = (- Z.of_nat (nthn counts (nthn order p)))%Z).
      { intros p Hp. unfold nthz at 1. rewrite (nth_indep _ 0%Z (nthz keys 0)) by (rewrite map_length, order_len; exact Hp).
        rewrite map_nth. fold (nthn order p). unfold keys, nthz.
        rewrite (nth_indep _ 0%Z ((fun c => (- Z.of_nat c)%Z) 0)).
        - rewrite map_nth. reflexivity.
        - rewrite map_length. unfold counts, unique_counts. rewrite map_length. apply order_nth_lt. exact Hp. }
      rewrite !Hk in H by lia. lia.
  Qed.
End Reindex.

(** C01, second sentence - the aliasing side: proofs about the may-alias / may-mutate analysis of
    Model/ArgFrame.v.

    1. FRAME: if the analysis reports no parameter bound (at entry) to a location of the entry heap, that
       location holds the same array after any terminating run ([frame_loc], [frame_all], [frame_param]).
    2. MONOTONICITY: the analysis is monotone in the abstract environment and the accumulator, and replacing
       aliases / views by copies can only shrink the report ([more_copies_shrinks]).
    3. The historical shapes are reported AND really mutate their argument; the repaired variants are clean. *)
From Coq Require Import Lia.
From SKN Require Import Base.Util Model.ArgFrame.
Set Warnings "-notation-overridden".

(* ------------------------------------------------------------------------------------------------------ *)
(** * Generic list facts *)

Lemma lookup_cons_eq {A : Type} (x : var) (v : A) (e : list (var * A)) :
  lookup x ((x, v) :: e) = Some v.
Proof. simpl. rewrite Nat.eqb_refl. reflexivity. Qed.

Lemma lookup_cons_neq {A : Type} (x y : var) (v : A) (e : list (var * A)) :
  x <> y -> lookup x ((y, v) :: e) = lookup x e.
Proof. intros Hne. simpl. apply Nat.eqb_neq in Hne. rewrite Hne. reflexivity. Qed.

Lemma set_nth_length {A : Type} (l : list A) (i : nat) (v : A) (l' : list A) :
  set_nth l i v = Some l' -> length l' = length l.
Proof.
  revert i l'. induction l as [|a t IH]; intros i l' Hs; simpl in Hs.
  - discriminate Hs.
  - destruct i as [|j].
    + injection Hs as Hs. subst l'. reflexivity.
    + destruct (set_nth t j v) as [t'|] eqn:Et; [|discriminate Hs].
      injection Hs as Hs. subst l'. simpl. f_equal. apply (IH j t' Et).
Qed.

Lemma set_nth_other {A : Type} (l : list A) (i : nat) (v : A) (l' : list A) (k : nat) :
  set_nth l i v = Some l' -> k <> i -> nth_error l' k = nth_error l k.
Proof.
  revert i l' k. induction l as [|a t IH]; intros i l' k Hs Hne; simpl in Hs.
  - discriminate Hs.
  - destruct i as [|j].
    + injection Hs as Hs. subst l'. destruct k as [|k]; [congruence | reflexivity].
    + destruct (set_nth t j v) as [t'|] eqn:Et; [|discriminate Hs].
      injection Hs as Hs. subst l'. destruct k as [|k]; [reflexivity|].
      simpl. apply (IH j t' k Et). congruence.
Qed.

Lemma nth_error_app_left {A : Type} (l r : list A) (k : nat) :
  k < length l -> nth_error (l ++ r) k = nth_error l k.
Proof. intros Hk. apply nth_error_app1. exact Hk. Qed.

(* ------------------------------------------------------------------------------------------------------ *)
(** * Facts about [aget], [ajoin], [entry_aenv] *)

Lemma aget_cons_eq (x : var) (s : list var) (a : aenv) : aget x ((x, s) :: a) = s.
Proof. unfold aget. rewrite lookup_cons_eq. reflexivity. Qed.

Lemma aget_cons_neq (x y : var) (s : list var) (a : aenv) : x <> y -> aget x ((y, s) :: a) = aget x a.
Proof. intros Hne. unfold aget. rewrite (lookup_cons_neq x y s a Hne). reflexivity. Qed.

Lemma lookup_map_keys {B : Type} (f : var -> B) (x : var) (ks : list var) :
  lookup x (map (fun k => (k, f k)) ks) = if memn x ks then Some (f x) else None.
Proof.
  induction ks as [|k t IH]; simpl.
  - reflexivity.
  - unfold memn in *. simpl. destruct (Nat.eqb x k) eqn:Exk.
    + apply Nat.eqb_eq in Exk. subst k. reflexivity.
    + simpl. exact IH.
Qed.

Lemma lookup_none_not_key {A : Type} (x : var) (a : list (var * A)) :
  ~ In x (map fst a) -> lookup x a = None.
Proof.
  induction a as [|[y v] t IH]; intros Hn; simpl.
  - reflexivity.
  - simpl in Hn. destruct (Nat.eqb x y) eqn:Exy.
    + apply Nat.eqb_eq in Exy. subst y. exfalso. apply Hn. left. reflexivity.
    + apply IH. intros Hin. apply Hn. right. exact Hin.
Qed.

(** The identity that makes the join easy to reason about: it holds for EVERY name, bound or not. *)
Lemma aget_ajoin (x : var) (a1 a2 : aenv) : aget x (ajoin a1 a2) = aget x a1 ++ aget x a2.
Proof.
  unfold ajoin.
  unfold aget at 1.
  rewrite (lookup_map_keys (fun k => aget k a1 ++ aget k a2) x (map fst a1 ++ map fst a2)).
  destruct (memn x (map fst a1 ++ map fst a2)) eqn:Em.
  - reflexivity.
  - assert (Hn : ~ In x (map fst a1 ++ map fst a2)).
    { intros Hin. apply memn_In in Hin. congruence. }
    assert (H1 : lookup x a1 = None).
    { apply lookup_none_not_key. intros Hin. apply Hn. apply in_or_app. left. exact Hin. }
    assert (H2 : lookup x a2 = None).
    { apply lookup_none_not_key. intros Hin. apply Hn. apply in_or_app. right. exact Hin. }
    unfold aget. rewrite H1, H2. reflexivity.
Qed.

Lemma aget_entry (e0 : env) (x : var) (v : view) :
  lookup x e0 = Some v -> aget x (entry_aenv e0) = [x].
Proof.
  unfold aget, entry_aenv.
  induction e0 as [|[y w] t IH]; intros Hl; simpl in Hl.
  - discriminate Hl.
  - simpl. destruct (Nat.eqb x y) eqn:Exy.
    + apply Nat.eqb_eq in Exy. subst y. reflexivity.
    + apply IH. exact Hl.
Qed.

(** Callee frame: concrete and abstract bindings of a formal sit at the same position. *)
Lemma lookup_combine_frames (e : env) (g : var -> list var) (x : var) (v : view) :
  forall (formals actuals : list var) (vs : list view),
    lookup_list e actuals = Some vs ->
    lookup x (combine formals vs) = Some v ->
    exists y, lookup y e = Some v /\ lookup x (combine formals (map g actuals)) = Some (g y).
Proof.
  induction formals as [|f ft IH]; intros actuals vs Hll Hl.
  - simpl in Hl. discriminate Hl.
  - destruct actuals as [|y yt].
    + simpl in Hll. injection Hll as Hll. subst vs. simpl in Hl. discriminate Hl.
    + simpl in Hll.
      destruct (lookup y e) as [w|] eqn:Ey; [|discriminate Hll].
      destruct (lookup_list e yt) as [ws|] eqn:Eyt; [|discriminate Hll].
      injection Hll as Hll. subst vs. simpl in Hl. simpl.
      destruct (Nat.eqb x f) eqn:Exf.
      * injection Hl as Hl. subst w. exists y. split; [exact Ey | reflexivity].
      * apply (IH yt ws Eyt Hl).
Qed.

Lemma lookup_list_in (e : env) (x : var) (v : view) :
  forall (formals actuals : list var) (vs : list view),
    lookup_list e actuals = Some vs ->
    lookup x (combine formals vs) = Some v ->
    exists y, lookup y e = Some v.
Proof.
  intros formals actuals vs Hll Hl.
  destruct (lookup_combine_frames e (fun _ => []) x v formals actuals vs Hll Hl) as [y [Hy _]].
  exists y. exact Hy.
Qed.

(* ------------------------------------------------------------------------------------------------------ *)
(** * The accumulator only grows *)

Scheme cmd_prog_ind := Induction for cmd Sort Prop
  with prog_cmd_ind := Induction for prog Sort Prop.
Combined Scheme cmd_prog_mutind from cmd_prog_ind, prog_cmd_ind.

Lemma an_acc_grows :
  (forall (c : cmd) (a : aenv) (m : list var), incl m (snd (an_cmd c a m))) /\
  (forall (p : prog) (a : aenv) (m : list var), incl m (snd (an_prog p a m))).
Proof.
  apply cmd_prog_mutind.
  - intros x y a m. simpl. apply incl_refl.
  - intros x y off a m. simpl. apply incl_refl.
  - intros x y a m. simpl. apply incl_refl.
  - intros x es a m. simpl. apply incl_refl.
  - intros x i e a m. simpl. apply incl_appr. apply incl_refl.
  - intros e p1 IH1 p2 IH2 a m. simpl.
    destruct (an_prog p1 a m) as [a1 m1] eqn:E1.
    destruct (an_prog p2 a m1) as [a2 m2] eqn:E2. simpl.
    apply (incl_tran (m := m1)).
    + specialize (IH1 a m). rewrite E1 in IH1. exact IH1.
    + specialize (IH2 a m1). rewrite E2 in IH2. exact IH2.
  - intros x formals actuals body IHb ret a m. simpl.
    destruct (an_prog body (combine formals (map (fun y => aget y a) actuals)) m) as [a' m'] eqn:Eb.
    simpl. specialize (IHb (combine formals (map (fun y => aget y a) actuals)) m).
    rewrite Eb in IHb. exact IHb.
  - intros a m. simpl. apply incl_refl.
  - intros c IHc p IHp a m. simpl.
    destruct (an_cmd c a m) as [a' m'] eqn:Ec.
    apply (incl_tran (m := m')).
    + specialize (IHc a m). rewrite Ec in IHc. exact IHc.
    + apply IHp.
Qed.

Lemma an_cmd_acc_grows (c : cmd) (a : aenv) (m : list var) (a' : aenv) (m' : list var) :
  an_cmd c a m = (a', m') -> incl m m'.
Proof. intros H. pose proof (proj1 an_acc_grows c a m) as Hi. rewrite H in Hi. exact Hi. Qed.

Lemma an_prog_acc_grows (p : prog) (a : aenv) (m : list var) (a' : aenv) (m' : list var) :
  an_prog p a m = (a', m') -> incl m m'.
Proof. intros H. pose proof (proj2 an_acc_grows p a m) as Hi. rewrite H in Hi. exact Hi. Qed.

(* ------------------------------------------------------------------------------------------------------ *)
(** * 1. The frame theorem *)

Section Frame.
  Context (e0 : env) (n0 : nat).

  (** every name that points into the entry heap has, in its alias set, a parameter bound to that
      location at entry *)
  Definition sound (a : aenv) (e : env) : Prop :=
    forall x l o, lookup x e = Some (l, o) -> l < n0 ->
                  exists q o', In q (aget x a) /\ lookup q e0 = Some (l, o').

  Definition inv (a : aenv) (e : env) (h : heap) : Prop :=
    sound a e /\ (forall x l o, lookup x e = Some (l, o) -> l < length h) /\ n0 <= length h.

  (** no parameter bound to [l] at entry is in the reported set [m] *)
  Definition unreported (m : list var) (l : loc) : Prop :=
    forall q o, lookup q e0 = Some (l, o) -> ~ In q m.

  Lemma unreported_incl (m m' : list var) (l : loc) : incl m m' -> unreported m' l -> unreported m l.
  Proof. intros Hi Hu q o Hq Hin. apply (Hu q o Hq). apply Hi. exact Hin. Qed.

  Lemma sound_bind (a : aenv) (e : env) (x : var) (s : list var) (l o : nat) :
    sound a e ->
    (l < n0 -> exists q o', In q s /\ lookup q e0 = Some (l, o')) ->
    sound ((x, s) :: a) ((x, (l, o)) :: e).
  Proof.
    intros Hs Hx z l1 o1 Hl Hlt.
    destruct (Nat.eq_dec z x) as [Ezx|Nzx].
    - subst z. rewrite lookup_cons_eq in Hl. injection Hl as Hl1 Hl2. subst l1 o1.
      rewrite aget_cons_eq. apply Hx. exact Hlt.
    - rewrite lookup_cons_neq in Hl by exact Nzx.
      rewrite (aget_cons_neq z x s a Nzx). apply (Hs z l1 o1 Hl Hlt).
  Qed.

  Lemma locs_bind (e : env) (h : heap) (x : var) (l o : nat) :
    (forall z l1 o1, lookup z e = Some (l1, o1) -> l1 < length h) ->
    l < length h ->
    forall z l1 o1, lookup z ((x, (l, o)) :: e) = Some (l1, o1) -> l1 < length h.
  Proof.
    intros He Hl z l1 o1 Hz.
    destruct (Nat.eq_dec z x) as [Ezx|Nzx].
    - subst z. rewrite lookup_cons_eq in Hz. injection Hz as Hz1 Hz2. subst l1 o1. exact Hl.
    - rewrite lookup_cons_neq in Hz by exact Nzx. apply (He z l1 o1 Hz).
  Qed.

  Lemma locs_grow (e : env) (h h' : heap) :
    (forall z l1 o1, lookup z e = Some (l1, o1) -> l1 < length h) ->
    length h <= length h' ->
    forall z l1 o1, lookup z e = Some (l1, o1) -> l1 < length h'.
  Proof. intros He Hle z l1 o1 Hz. specialize (He z l1 o1 Hz). lia. Qed.

  Lemma sound_ajoin_l (a1 a2 : aenv) (e : env) : sound a1 e -> sound (ajoin a1 a2) e.
  Proof.
    intros Hs x l o Hl Hlt. destruct (Hs x l o Hl Hlt) as [q [o' [Hin Hq]]].
    exists q, o'. split; [|exact Hq]. rewrite aget_ajoin. apply in_or_app. left. exact Hin.
  Qed.

  Lemma sound_ajoin_r (a1 a2 : aenv) (e : env) : sound a2 e -> sound (ajoin a1 a2) e.
  Proof.
    intros Hs x l o Hl Hlt. destruct (Hs x l o Hl Hlt) as [q [o' [Hin Hq]]].
    exists q, o'. split; [|exact Hq]. rewrite aget_ajoin. apply in_or_app. right. exact Hin.
  Qed.

  Definition frame_post (a' : aenv) (m' : list var) (h : heap) (e' : env) (h' : heap) : Prop :=
    inv a' e' h' /\ length h <= length h' /\
    (forall l, l < n0 -> unreported m' l -> nth_error h' l = nth_error h l).

  Lemma frame_mutual :
    (forall (c : cmd) (a : aenv) (m : list var) (e : env) (h : heap) (e' : env) (h' : heap)
            (a' : aenv) (m' : list var),
        inv a e h -> exec_cmd c (e, h) = Some (e', h') -> an_cmd c a m = (a', m') ->
        frame_post a' m' h e' h') /\
    (forall (p : prog) (a : aenv) (m : list var) (e : env) (h : heap) (e' : env) (h' : heap)
            (a' : aenv) (m' : list var),
        inv a e h -> exec_prog p (e, h) = Some (e', h') -> an_prog p a m = (a', m') ->
        frame_post a' m' h e' h').
  Proof.
    apply cmd_prog_mutind.
    - (* CAlias *)
      intros x y a m e h e' h' a' m' [Hs [Hl Hn]] Hex Han.
      simpl in Hex. simpl in Han.
      destruct (lookup y e) as [[l o]|] eqn:Ey; [|discriminate Hex].
      injection Hex as He' Hh'. subst e' h'. injection Han as Ha' Hm'. subst a' m'.
      split; [|split; [lia | reflexivity]].
      split; [|split; [|exact Hn]].
      + apply sound_bind; [exact Hs|]. intros Hlt. apply (Hs y l o Ey Hlt).
      + apply locs_bind; [exact Hl|]. apply (Hl y l o Ey).
    - (* CView *)
      intros x y off a m e h e' h' a' m' [Hs [Hl Hn]] Hex Han.
      simpl in Hex. simpl in Han.
      destruct (lookup y e) as [[l o]|] eqn:Ey; [|discriminate Hex].
      injection Hex as He' Hh'. subst e' h'. injection Han as Ha' Hm'. subst a' m'.
      split; [|split; [lia | reflexivity]].
      split; [|split; [|exact Hn]].
      + apply sound_bind; [exact Hs|]. intros Hlt. apply (Hs y l o Ey Hlt).
      + apply locs_bind; [exact Hl|]. apply (Hl y l o Ey).
    - (* CCopy *)
      intros x y a m e h e' h' a' m' [Hs [Hl Hn]] Hex Han.
      simpl in Hex. simpl in Han.
      destruct (lookup y e) as [[l o]|] eqn:Ey; [|discriminate Hex].
      destruct (nth_error h l) as [arr|] eqn:Earr; [|discriminate Hex].
      injection Hex as He' Hh'. subst e' h'. injection Han as Ha' Hm'. subst a' m'.
      assert (Hlen : length (h ++ [skipn o arr]) = S (length h)).
      { rewrite app_length. simpl. lia. }
      split; [|split; [lia|]].
      + split; [|split; [|lia]].
        * apply sound_bind; [exact Hs|]. intros Hlt. exfalso. lia.
        * apply locs_bind; [|lia]. apply (locs_grow e h); [exact Hl | lia].
      + intros l1 Hl1 _. apply nth_error_app_left. lia.
    - (* CPure *)
      intros x es a m e h e' h' a' m' [Hs [Hl Hn]] Hex Han.
      simpl in Hex. simpl in Han.
      destruct (eval_list e h es) as [vs|] eqn:Evs; [|discriminate Hex].
      injection Hex as He' Hh'. subst e' h'. injection Han as Ha' Hm'. subst a' m'.
      assert (Hlen : length (h ++ [vs]) = S (length h)).
      { rewrite app_length. simpl. lia. }
      split; [|split; [lia|]].
      + split; [|split; [|lia]].
        * apply sound_bind; [exact Hs|]. intros Hlt. exfalso. lia.
        * apply locs_bind; [|lia]. apply (locs_grow e h); [exact Hl | lia].
      + intros l1 Hl1 _. apply nth_error_app_left. lia.
    - (* CWrite *)
      intros x i ex a m e h e' h' a' m' [Hs [Hl Hn]] Hex Han.
      simpl in Hex. simpl in Han.
      destruct (lookup x e) as [[l o]|] eqn:Ex; [|discriminate Hex].
      destruct (eval e h ex) as [v|] eqn:Ev; [|discriminate Hex].
      destruct (nth_error h l) as [arr|] eqn:Earr; [|discriminate Hex].
      destruct (set_nth arr (o + i) v) as [arr'|] eqn:Earr'; [|discriminate Hex].
      destruct (set_nth h l arr') as [h2|] eqn:Eh2; [|discriminate Hex].
      injection Hex as He' Hh'. subst e' h'. injection Han as Ha' Hm'. subst a' m'.
      pose proof (set_nth_length h l arr' h2 Eh2) as Hlen.
      split; [|split; [lia|]].
      + split; [exact Hs|]. split; [|lia].
        apply (locs_grow e h); [exact Hl | lia].
      + intros l1 Hl1 Hun.
        apply (set_nth_other h l arr' h2 l1 Eh2).
        intros El. subst l1.
        destruct (Hs x l o Ex Hl1) as [q [o' [Hin Hq]]].
        apply (Hun q o' Hq). apply in_or_app. left. exact Hin.
    - (* CIf *)
      intros ex p1 IH1 p2 IH2 a m e h e' h' a' m' Hinv Hex Han.
      simpl in Hex. simpl in Han.
      destruct (an_prog p1 a m) as [a1 m1] eqn:E1.
      destruct (an_prog p2 a m1) as [a2 m2] eqn:E2.
      injection Han as Ha' Hm'. subst a' m'.
      destruct (eval e h ex) as [v|] eqn:Ev; [|discriminate Hex].
      destruct (Z.eqb v 0) eqn:Ez.
      + destruct (IH2 a m1 e h e' h' a2 m2 Hinv Hex E2) as [[Hs' [Hl' Hn']] [Hle Hfr]].
        split; [|split; [exact Hle | exact Hfr]].
        split; [|split; [exact Hl' | exact Hn']].
        apply sound_ajoin_r. exact Hs'.
      + destruct (IH1 a m e h e' h' a1 m1 Hinv Hex E1) as [[Hs' [Hl' Hn']] [Hle Hfr]].
        split; [|split; [exact Hle|]].
        * split; [|split; [exact Hl' | exact Hn']].
          apply sound_ajoin_l. exact Hs'.
        * intros l Hl Hun. apply (Hfr l Hl).
          apply (unreported_incl m1 m2 l); [|exact Hun].
          apply (an_prog_acc_grows p2 a m1 a2 m2 E2).
    - (* CCall *)
      intros x formals actuals body IHb ret a m e h e' h' a' m' [Hs [Hl Hn]] Hex Han.
      simpl in Hex. simpl in Han.
      destruct (an_prog body (combine formals (map (fun y => aget y a) actuals)) m) as [ab mb] eqn:Eb.
      injection Han as Ha' Hm'. subst a' m'.
      destruct (lookup_list e actuals) as [vs|] eqn:Evs; [|discriminate Hex].
      destruct (exec_prog body (combine formals vs, h)) as [[eb hb]|] eqn:Exb; [|discriminate Hex].
      destruct (lookup ret eb) as [[lr or]|] eqn:Er; [|discriminate Hex].
      injection Hex as He' Hh'. subst e' h'.
      assert (Hinvc : inv (combine formals (map (fun y => aget y a) actuals)) (combine formals vs) h).
      { split; [|split; [|exact Hn]].
        - intros z l o Hz Hlt.
          destruct (lookup_combine_frames e (fun y => aget y a) z (l, o) formals actuals vs Evs Hz)
            as [y [Hy Hza]].
          destruct (Hs y l o Hy Hlt) as [q [o' [Hin Hq]]].
          exists q, o'. split; [|exact Hq]. unfold aget at 1. rewrite Hza. exact Hin.
        - intros z l o Hz.
          destruct (lookup_list_in e z (l, o) formals actuals vs Evs Hz) as [y Hy].
          apply (Hl y l o Hy). }
      destruct (IHb _ m _ h eb hb ab mb Hinvc Exb Eb) as [[Hsb [Hlb Hnb]] [Hle Hfr]].
      split; [|split; [exact Hle | exact Hfr]].
      split; [|split; [|exact Hnb]].
      + apply sound_bind.
        * intros z l o Hz Hlt. apply (Hs z l o Hz Hlt).
        * intros Hlt. apply (Hsb ret lr or Er Hlt).
      + apply locs_bind.
        * apply (locs_grow e h); [exact Hl | exact Hle].
        * apply (Hlb ret lr or Er).
    - (* PNil *)
      intros a m e h e' h' a' m' Hinv Hex Han.
      simpl in Hex. simpl in Han.
      injection Hex as He' Hh'. subst e' h'. injection Han as Ha' Hm'. subst a' m'.
      split; [exact Hinv|]. split; [lia | reflexivity].
    - (* PSeq *)
      intros c IHc p IHp a m e h e' h' a' m' Hinv Hex Han.
      simpl in Hex. simpl in Han.
      destruct (an_cmd c a m) as [a1 m1] eqn:Ec.
      destruct (exec_cmd c (e, h)) as [[e1 h1]|] eqn:Exc; [|discriminate Hex].
      destruct (IHc a m e h e1 h1 a1 m1 Hinv Exc Ec) as [Hinv1 [Hle1 Hfr1]].
      destruct (IHp a1 m1 e1 h1 e' h' a' m' Hinv1 Hex Han) as [Hinv2 [Hle2 Hfr2]].
      split; [exact Hinv2|]. split; [lia|].
      intros l Hl Hun. rewrite (Hfr2 l Hl Hun). apply (Hfr1 l Hl).
      apply (unreported_incl m1 m' l); [|exact Hun].
      apply (an_prog_acc_grows p a1 m1 a' m' Han).
  Qed.
End Frame.

Lemma inv_entry (e0 : env) (h0 : heap) :
  wf_entry e0 h0 -> inv e0 (length h0) (entry_aenv e0) e0 h0.
Proof.
  intros Hwf. split; [|split; [|lia]].
  - intros x l o Hx _. exists x, o. split; [|exact Hx].
    rewrite (aget_entry e0 x (l, o) Hx). left. reflexivity.
  - intros x l o Hx. apply (Hwf x l o Hx).
Qed.

Theorem frame_loc (p : prog) (e0 : env) (h0 : heap) (e' : env) (h' : heap) (l : loc) :
  wf_entry e0 h0 ->
  exec_prog p (e0, h0) = Some (e', h') ->
  l < length h0 ->
  (forall q o, lookup q e0 = Some (l, o) -> ~ In q (may_mutate e0 p)) ->
  nth_error h' l = nth_error h0 l.
Proof.
  intros Hwf Hex Hl Hun.
  unfold may_mutate in Hun.
  destruct (an_prog p (entry_aenv e0) []) as [a' m'] eqn:Ean. simpl in Hun.
  destruct (proj2 (frame_mutual e0 (length h0)) p (entry_aenv e0) [] e0 h0 e' h' a' m'
              (inv_entry e0 h0 Hwf) Hex Ean) as [_ [_ Hfr]].
  apply (Hfr l Hl). exact Hun.
Qed.

Theorem frame_all (p : prog) (e0 : env) (h0 : heap) (e' : env) (h' : heap) :
  wf_entry e0 h0 ->
  exec_prog p (e0, h0) = Some (e', h') ->
  may_mutate e0 p = [] ->
  forall l, l < length h0 -> nth_error h' l = nth_error h0 l.
Proof.
  intros Hwf Hex Hm l Hl.
  apply (frame_loc p e0 h0 e' h' l Hwf Hex Hl).
  intros q o _ Hin. rewrite Hm in Hin. exact Hin.
Qed.

Theorem frame_param (p : prog) (e0 : env) (h0 : heap) (e' : env) (h' : heap) (x : var) (l : loc) (o : nat) :
  wf_entry e0 h0 -> exec_prog p (e0, h0) = Some (e', h') ->
  lookup x e0 = Some (l, o) ->
  (forall q o', lookup q e0 = Some (l, o') -> ~ In q (may_mutate e0 p)) ->
  nth_error h' l = nth_error h0 l.
Proof.
  intros Hwf Hex Hx Hun.
  apply (frame_loc p e0 h0 e' h' l Hwf Hex (Hwf x l o Hx) Hun).
Qed.

(* ------------------------------------------------------------------------------------------------------ *)
(** * 2. Monotonicity of the analysis; adding a copy can only shrink the report *)

Definition ale (a a' : aenv) : Prop := forall x, incl (aget x a) (aget x a').

Lemma ale_refl (a : aenv) : ale a a.
Proof. intros x. apply incl_refl. Qed.

Lemma ale_cons (a a' : aenv) (x : var) (s s' : list var) :
  ale a a' -> incl s s' -> ale ((x, s) :: a) ((x, s') :: a').
Proof.
  intros Ha Hs z. destruct (Nat.eq_dec z x) as [Ezx|Nzx].
  - subst z. rewrite !aget_cons_eq. exact Hs.
  - rewrite (aget_cons_neq z x s a Nzx), (aget_cons_neq z x s' a' Nzx). apply Ha.
Qed.

Lemma ale_ajoin (a1 a1' a2 a2' : aenv) : ale a1 a1' -> ale a2 a2' -> ale (ajoin a1 a2) (ajoin a1' a2').
Proof.
  intros H1 H2 x. rewrite !aget_ajoin. apply incl_app.
  - apply incl_appl. apply H1.
  - apply incl_appr. apply H2.
Qed.

Lemma ale_combine (g g' : var -> list var) :
  (forall y, incl (g y) (g' y)) ->
  forall (formals actuals : list var),
    ale (combine formals (map g actuals)) (combine formals (map g' actuals)).
Proof.
  intros Hg. induction formals as [|f ft IH]; intros actuals.
  - simpl. apply ale_refl.
  - destruct actuals as [|y yt].
    + simpl. apply ale_refl.
    + simpl. apply ale_cons; [apply IH | apply Hg].
Qed.

Definition an_le (r r' : aenv * list var) : Prop := ale (fst r) (fst r') /\ incl (snd r) (snd r').

Lemma an_mono :
  (forall (c : cmd) (a a' : aenv) (m m' : list var),
      ale a a' -> incl m m' -> an_le (an_cmd c a m) (an_cmd c a' m')) /\
  (forall (p : prog) (a a' : aenv) (m m' : list var),
      ale a a' -> incl m m' -> an_le (an_prog p a m) (an_prog p a' m')).
Proof.
  apply cmd_prog_mutind.
  - intros x y a a' m m' Ha Hm. simpl. split; simpl; [|exact Hm].
    apply ale_cons; [exact Ha | apply Ha].
  - intros x y off a a' m m' Ha Hm. simpl. split; simpl; [|exact Hm].
    apply ale_cons; [exact Ha | apply Ha].
  - intros x y a a' m m' Ha Hm. simpl. split; simpl; [|exact Hm].
    apply ale_cons; [exact Ha | apply incl_refl].
  - intros x es a a' m m' Ha Hm. simpl. split; simpl; [|exact Hm].
    apply ale_cons; [exact Ha | apply incl_refl].
  - intros x i e a a' m m' Ha Hm. simpl. split; simpl; [exact Ha|].
    apply incl_app; [apply incl_appl; apply Ha | apply incl_appr; exact Hm].
  - intros e p1 IH1 p2 IH2 a a' m m' Ha Hm. simpl.
    destruct (IH1 a a' m m' Ha Hm) as [Ha1 Hm1].
    destruct (an_prog p1 a m) as [a1 m1] eqn:E1.
    destruct (an_prog p1 a' m') as [a1' m1'] eqn:E1'.
    simpl in Ha1, Hm1.
    destruct (IH2 a a' m1 m1' Ha Hm1) as [Ha2 Hm2].
    destruct (an_prog p2 a m1) as [a2 m2] eqn:E2.
    destruct (an_prog p2 a' m1') as [a2' m2'] eqn:E2'.
    simpl in Ha2, Hm2.
    split; simpl; [|exact Hm2].
    apply ale_ajoin; [exact Ha1 | exact Ha2].
  - intros x formals actuals body IHb ret a a' m m' Ha Hm. simpl.
    assert (Hc : ale (combine formals (map (fun y => aget y a) actuals))
                     (combine formals (map (fun y => aget y a') actuals))).
    { apply ale_combine. intros y. apply Ha. }
    destruct (IHb _ _ m m' Hc Hm) as [Hab Hmb].
    destruct (an_prog body (combine formals (map (fun y => aget y a) actuals)) m) as [ab mb] eqn:Eb.
    destruct (an_prog body (combine formals (map (fun y => aget y a') actuals)) m') as [ab' mb'] eqn:Eb'.
    simpl in Hab, Hmb.
    split; simpl; [|exact Hmb].
    apply ale_cons; [exact Ha | apply Hab].
  - intros a a' m m' Ha Hm. simpl. split; simpl; [exact Ha | exact Hm].
  - intros c IHc p IHp a a' m m' Ha Hm. simpl.
    destruct (IHc a a' m m' Ha Hm) as [Ha1 Hm1].
    destruct (an_cmd c a m) as [a1 m1] eqn:Ec.
    destruct (an_cmd c a' m') as [a1' m1'] eqn:Ec'.
    simpl in Ha1, Hm1.
    apply (IHp a1 a1' m1 m1' Ha1 Hm1).
Qed.

Scheme mc_cmd_min := Minimality for more_copies_cmd Sort Prop
  with mc_prog_min := Minimality for more_copies Sort Prop.
Combined Scheme mc_mutmin from mc_cmd_min, mc_prog_min.

(** [c'] has more copies than [c], and runs in a smaller abstract state: its result is smaller. *)
Lemma more_copies_mono :
  (forall c c' : cmd, more_copies_cmd c c' ->
      forall (a a' : aenv) (m m' : list var),
        ale a' a -> incl m' m -> an_le (an_cmd c' a' m') (an_cmd c a m)) /\
  (forall p p' : prog, more_copies p p' ->
      forall (a a' : aenv) (m m' : list var),
        ale a' a -> incl m' m -> an_le (an_prog p' a' m') (an_prog p a m)).
Proof.
  apply mc_mutmin.
  - intros c a a' m m' Ha Hm. apply (proj1 an_mono c a' a m' m Ha Hm).
  - intros x y a a' m m' Ha Hm. simpl. split; simpl; [|exact Hm].
    apply ale_cons; [exact Ha | apply incl_nil_l].
  - intros x y off a a' m m' Ha Hm. simpl. split; simpl; [|exact Hm].
    apply ale_cons; [exact Ha | apply incl_nil_l].
  - intros e p1 p2 q1 q2 _ IH1 _ IH2 a a' m m' Ha Hm. simpl.
    destruct (IH1 a a' m m' Ha Hm) as [Ha1 Hm1].
    destruct (an_prog p1 a m) as [a1 m1] eqn:E1.
    destruct (an_prog q1 a' m') as [a1' m1'] eqn:E1'.
    simpl in Ha1, Hm1.
    destruct (IH2 a a' m1 m1' Ha Hm1) as [Ha2 Hm2].
    destruct (an_prog p2 a m1) as [a2 m2] eqn:E2.
    destruct (an_prog q2 a' m1') as [a2' m2'] eqn:E2'.
    simpl in Ha2, Hm2.
    split; simpl; [|exact Hm2].
    apply ale_ajoin; [exact Ha1 | exact Ha2].
  - intros x fs acts b b' r _ IHb a a' m m' Ha Hm. simpl.
    assert (Hc : ale (combine fs (map (fun y => aget y a') acts))
                     (combine fs (map (fun y => aget y a) acts))).
    { apply ale_combine. intros y. apply Ha. }
    destruct (IHb _ _ m m' Hc Hm) as [Hab Hmb].
    destruct (an_prog b (combine fs (map (fun y => aget y a) acts)) m) as [ab mb] eqn:Eb.
    destruct (an_prog b' (combine fs (map (fun y => aget y a') acts)) m') as [ab' mb'] eqn:Eb'.
    simpl in Hab, Hmb.
    split; simpl; [|exact Hmb].
    apply ale_cons; [exact Ha | apply Hab].
  - intros a a' m m' Ha Hm. simpl. split; simpl; [exact Ha | exact Hm].
  - intros c c' p p' _ IHc _ IHp a a' m m' Ha Hm. simpl.
    destruct (IHc a a' m m' Ha Hm) as [Ha1 Hm1].
    destruct (an_cmd c a m) as [a1 m1] eqn:Ec.
    destruct (an_cmd c' a' m') as [a1' m1'] eqn:Ec'.
    simpl in Ha1, Hm1.
    apply (IHp a1 a1' m1 m1' Ha1 Hm1).
Qed.

Theorem more_copies_shrinks (e0 : env) (p p' : prog) :
  more_copies p p' -> incl (may_mutate e0 p') (may_mutate e0 p).
Proof.
  intros Hmc. unfold may_mutate.
  apply (proj2 more_copies_mono p p' Hmc (entry_aenv e0) (entry_aenv e0) [] []).
  - apply ale_refl.
  - apply incl_refl.
Qed.

(** The analysis is monotone in the abstract environment and in the accumulator (same program). *)
Theorem analysis_monotone (p : prog) (a a' : aenv) (m m' : list var) :
  ale a a' -> incl m m' ->
  ale (fst (an_prog p a m)) (fst (an_prog p a' m')) /\ incl (snd (an_prog p a m)) (snd (an_prog p a' m')).
Proof. intros Ha Hm. apply (proj2 an_mono p a a' m m' Ha Hm). Qed.

(* ------------------------------------------------------------------------------------------------------ *)
(** * 3. Refutation witnesses and repaired variants *)

Lemma wf_entry0 : wf_entry entry0 heap0.
Proof.
  intros x l o Hx. unfold entry0 in Hx. simpl in Hx.
  destruct (Nat.eqb x 0); [|discriminate Hx].
  injection Hx as Hl Ho. subst l o. simpl. lia.
Qed.

Theorem asarray_alias_refuted :
  may_mutate entry0 prog_asarray = [0] /\
  exists e' h', exec_prog prog_asarray (entry0, heap0) = Some (e', h') /\
                nth_error h' 0 <> nth_error heap0 0.
Proof.
  split; [vm_compute; reflexivity|].
  eexists. eexists. split; [vm_compute; reflexivity|].
  vm_compute. discriminate.
Qed.

Theorem slice_view_refuted :
  may_mutate entry0 prog_slice = [0] /\
  exists e' h', exec_prog prog_slice (entry0, heap0) = Some (e', h') /\
                nth_error h' 0 <> nth_error heap0 0.
Proof.
  split; [vm_compute; reflexivity|].
  eexists. eexists. split; [vm_compute; reflexivity|].
  vm_compute. discriminate.
Qed.

Theorem passthrough_helper_refuted :
  may_mutate entry0 prog_helper = [0] /\
  exists e' h', exec_prog prog_helper (entry0, heap0) = Some (e', h') /\
                nth_error h' 0 <> nth_error heap0 0.
Proof.
  split; [vm_compute; reflexivity|].
  eexists. eexists. split; [vm_compute; reflexivity|].
  vm_compute. discriminate.
Qed.

Theorem kernel_write_refuted :
  may_mutate entry0 prog_kernel = [0] /\
  exists e' h', exec_prog prog_kernel (entry0, heap0) = Some (e', h') /\
                nth_error h' 0 <> nth_error heap0 0.
Proof.
  split; [vm_compute; reflexivity|].
  eexists. eexists. split; [vm_compute; reflexivity|].
  vm_compute. discriminate.
Qed.

Theorem repaired_variants_clean :
  may_mutate entry0 prog_asarray_fixed = [] /\
  may_mutate entry0 prog_slice_fixed = [] /\
  may_mutate entry0 prog_helper_fixed = [] /\
  (exists e' h', exec_prog prog_asarray_fixed (entry0, heap0) = Some (e', h') /\
                 nth_error h' 0 = nth_error heap0 0) /\
  (exists e' h', exec_prog prog_slice_fixed (entry0, heap0) = Some (e', h') /\
                 nth_error h' 0 = nth_error heap0 0) /\
  (exists e' h', exec_prog prog_helper_fixed (entry0, heap0) = Some (e', h') /\
                 nth_error h' 0 = nth_error heap0 0).
Proof.
  split; [vm_compute; reflexivity|].
  split; [vm_compute; reflexivity|].
  split; [vm_compute; reflexivity|].
  split; [|split].
  - eexists. eexists. split; vm_compute; reflexivity.
  - eexists. eexists. split; vm_compute; reflexivity.
  - eexists. eexists. split; vm_compute; reflexivity.
Qed.

(** The repaired variants are "more copies" instances of the defective ones where the repair is a plain
    alias -> copy replacement, so [more_copies_shrinks] applies to them (non-vacuity of item 2). *)
Lemma asarray_fixed_more_copies : more_copies prog_asarray prog_asarray_fixed.
Proof.
  unfold prog_asarray, prog_asarray_fixed.
  apply mc_seq; [apply mc_alias|].
  apply mc_seq; [apply mc_refl | apply mc_nil].
Qed.

Lemma more_copies_refl :
  (forall c : cmd, more_copies_cmd c c) /\ (forall p : prog, more_copies p p).
Proof.
  split; [intros c; apply mc_refl|].
  induction p as [|c p IH]; [apply mc_nil | apply mc_seq; [apply mc_refl | exact IH]].
Qed.

(** The report is neither always empty nor always everything: the alias version reports the parameter,
    its copy version does not, and the inclusion of [more_copies_shrinks] is strict here. *)
Lemma asarray_report_strict :
  incl (may_mutate entry0 prog_asarray_fixed) (may_mutate entry0 prog_asarray) /\
  ~ incl (may_mutate entry0 prog_asarray) (may_mutate entry0 prog_asarray_fixed).
Proof.
  split.
  - apply more_copies_shrinks. apply asarray_fixed_more_copies.
  - intros Hi. specialize (Hi 0). vm_compute in Hi. apply Hi. left. reflexivity.
Qed.

(** [prog_helper_fixed] is NOT a [more_copies] instance of [prog_helper] (the callee returns a different
    name), so its cleanliness is shown by computation above; the kernel example with the outer alias
    replaced by a copy IS an instance. *)
Definition prog_kernel_fixed : prog :=
  PSeq (CCopy 1 0) (PSeq (CCall 2 [7] [1] kernel_writes 8) PNil).

Lemma kernel_fixed_more_copies : more_copies prog_kernel prog_kernel_fixed.
Proof.
  unfold prog_kernel, prog_kernel_fixed.
  apply mc_seq; [apply mc_alias|].
  apply mc_seq; [apply mc_refl | apply mc_nil].
Qed.

Lemma kernel_fixed_clean :
  may_mutate entry0 prog_kernel_fixed = [] /\
  exists e' h', exec_prog prog_kernel_fixed (entry0, heap0) = Some (e', h') /\
                nth_error h' 0 = nth_error heap0 0.
Proof.
  split; [vm_compute; reflexivity|].
  eexists. eexists. split; vm_compute; reflexivity.
Qed.

(** The frame theorem instantiated on a repaired variant (uses the general theorem, not computation). *)
Lemma asarray_fixed_frame (e' : env) (h' : heap) :
  exec_prog prog_asarray_fixed (entry0, heap0) = Some (e', h') ->
  nth_error h' 0 = nth_error heap0 0.
Proof.
  intros Hex.
  apply (frame_all prog_asarray_fixed entry0 heap0 e' h' wf_entry0 Hex).
  - vm_compute. reflexivity.
  - simpl. lia.
Qed.

(* ------------------------------------------------------------------------------------------------------ *)
(** * 4. Sanity *)

Lemma may_mutate_nil (e0 : env) : may_mutate e0 PNil = [].
Proof. reflexivity. Qed.

(** A program without writes (and without calls / branches containing writes) reports nothing: the report
    only ever comes from a [CWrite]. *)
Fixpoint no_write_cmd (c : cmd) : Prop :=
  match c with
  | CWrite _ _ _ => False
  | CIf _ p1 p2 => no_write_prog p1 /\ no_write_prog p2
  | CCall _ _ _ body _ => no_write_prog body
  | _ => True
  end
with no_write_prog (p : prog) : Prop :=
  match p with
  | PNil => True
  | PSeq c q => no_write_cmd c /\ no_write_prog q
  end.

Lemma no_write_acc :
  (forall (c : cmd) (a : aenv) (m : list var), no_write_cmd c -> snd (an_cmd c a m) = m) /\
  (forall (p : prog) (a : aenv) (m : list var), no_write_prog p -> snd (an_prog p a m) = m).
Proof.
  apply cmd_prog_mutind.
  - intros x y a m _. reflexivity.
  - intros x y off a m _. reflexivity.
  - intros x y a m _. reflexivity.
  - intros x es a m _. reflexivity.
  - intros x i e a m Hf. simpl in Hf. contradiction.
  - intros e p1 IH1 p2 IH2 a m [H1 H2]. simpl.
    specialize (IH1 a m H1).
    destruct (an_prog p1 a m) as [a1 m1] eqn:E1. simpl in IH1. subst m1.
    specialize (IH2 a m H2).
    destruct (an_prog p2 a m) as [a2 m2] eqn:E2. simpl in IH2. subst m2. reflexivity.
  - intros x formals actuals body IHb ret a m Hb. simpl. simpl in Hb.
    specialize (IHb (combine formals (map (fun y => aget y a) actuals)) m Hb).
    destruct (an_prog body (combine formals (map (fun y => aget y a) actuals)) m) as [ab mb] eqn:Eb.
    simpl in IHb. subst mb. reflexivity.
  - intros a m _. reflexivity.
  - intros c IHc p IHp a m [Hc Hp]. simpl.
    specialize (IHc a m Hc).
    destruct (an_cmd c a m) as [a1 m1] eqn:Ec. simpl in IHc. subst m1.
    apply (IHp a1 m Hp).
Qed.

Theorem no_write_clean (e0 : env) (p : prog) : no_write_prog p -> may_mutate e0 p = [].
Proof. intros Hp. unfold may_mutate. apply (proj2 no_write_acc p (entry_aenv e0) [] Hp). Qed.

Print Assumptions frame_loc.
Print Assumptions frame_all.
Print Assumptions frame_param.
Print Assumptions analysis_monotone.
Print Assumptions more_copies_shrinks.
Print Assumptions wf_entry0.
Print Assumptions asarray_alias_refuted.
Print Assumptions slice_view_refuted.
Print Assumptions passthrough_helper_refuted.
Print Assumptions kernel_write_refuted.
Print Assumptions repaired_variants_clean.
Print Assumptions asarray_fixed_more_copies.
Print Assumptions asarray_report_strict.
Print Assumptions kernel_fixed_more_copies.
Print Assumptions kernel_fixed_clean.
Print Assumptions asarray_fixed_frame.
Print Assumptions may_mutate_nil.
Print Assumptions no_write_clean.

(** reorder_dendrogram (model in Model/Cuts.v, shared with C08) keeps a dendrogram valid when no merge is lower than
    the merges that created its children — and only then.  Property C07. *)
From SKN Require Import Base.Util Model.Dendrogram Model.Cuts Model.Hierarchy Proofs.DendroBase Proofs.HierarchyBase.
From Coq Require Import Permutation Sorted Lia QArith Lqa.
Close Scope Q_scope.

(** * The sort key *)
Definition rkey (x : nat * drow) : Q * nat := (r_height (snd x), Nat.max (r_left (snd x)) (r_right (snd x))).
Definition RK (a b : nat * drow) : Prop := rkey_le a b = true.

Lemma qltb_iff a b : qltb a b = true <-> (a < b)%Q.
Proof.
  unfold qltb. rewrite negb_true_iff. split.
  - intros H. apply Qnot_le_lt. intros Hc. apply Qle_bool_iff in Hc. congruence.
  - intros H. destruct (Qle_bool b a) eqn:E; [|reflexivity]. apply Qle_bool_iff in E. lra.
Qed.

Lemma rkey_le_iff a b :
  rkey_le a b = true <->
  (fst (rkey a) < fst (rkey b))%Q \/ ((fst (rkey a) == fst (rkey b))%Q /\ snd (rkey a) <= snd (rkey b)).
Proof.
  unfold rkey_le, rkey. cbn [fst snd]. rewrite orb_true_iff, andb_true_iff, qltb_iff, Qeq_bool_iff, Nat.leb_le. tauto.
Qed.

Lemma RK_total a b : rkey_le a b = false -> RK b a.
Proof.
  intros H. unfold RK. apply rkey_le_iff.
  assert (Hn : ~ ((fst (rkey a) < fst (rkey b))%Q \/ ((fst (rkey a) == fst (rkey b))%Q /\ snd (rkey a) <= snd (rkey b)))).
  { intros Hc. apply rkey_le_iff in Hc. congruence. }
  destruct (Qlt_le_dec (fst (rkey b)) (fst (rkey a))) as [Hlt|Hle]; [now left|].
  assert (Hge : (fst (rkey b) <= fst (rkey a))%Q).
  { apply Qnot_lt_le. intros Hc. apply Hn. now left. }
  assert (Heq : (fst (rkey a) == fst (rkey b))%Q) by (apply Qle_antisym; assumption).
  right. split; [now symmetry|].
  destruct (Nat.le_gt_cases (snd (rkey b)) (snd (rkey a))) as [H1|H1]; [exact H1|].
  exfalso. apply Hn. right. split; [exact Heq | lia].
Qed.

Lemma RK_trans a b c : RK a b -> RK b c -> RK a c.
Proof.
  unfold RK. rewrite !rkey_le_iff. intros [H1|[H1 H1']] [H2|[H2 H2']].
  - left. lra.
  - left. lra.
  - left. lra.
  - right. split; [lra|lia].
Qed.

(** * Insertion sort *)
Lemma ins_row_perm x l : Permutation (ins_row x l) (x :: l).
Proof.
  induction l as [|y t IH]; simpl; [reflexivity|].
  destruct (rkey_le x y); [reflexivity|]. rewrite IH. apply perm_swap.
Qed.

Lemma lexsort_perm D : Permutation (lexsort_rows D) (combine (seq 0 (length D)) D).
Proof.
  unfold lexsort_rows. induction (combine (seq 0 (length D)) D) as [|x l IH]; simpl; [reflexivity|].
  rewrite ins_row_perm. now constructor.
Qed.

Lemma ins_row_sorted x l : StronglySorted RK l -> StronglySorted RK (ins_row x l).
Proof.
  induction 1 as [|y t Hs IH Hall]; simpl.
  - constructor; constructor.
  - destruct (rkey_le x y) eqn:E.
    + constructor; [now constructor|]. constructor; [exact E|].
      rewrite Forall_forall in *. intros z Hz. apply (RK_trans x y z); [exact E | now apply Hall].
    + constructor; [exact IH|]. apply RK_total in E.
      rewrite Forall_forall in *. intros z Hz.
      apply (Permutation_in _ (ins_row_perm x t)) in Hz. destruct Hz as [<-|Hz]; [exact E | now apply Hall].
Qed.

Lemma lexsort_sorted D : StronglySorted RK (lexsort_rows D).
Proof.
  unfold lexsort_rows. induction (combine (seq 0 (length D)) D) as [|x l IH]; simpl; [constructor|].
  now apply ins_row_sorted.
Qed.

Lemma StronglySorted_nth {A} (R : A -> A -> Prop) l : StronglySorted R l ->
  forall p q d, p < q -> q < length l -> R (nth p l d) (nth q l d).
Proof.
  induction 1 as [|y t Hs IH Hall]; intros p q d Hpq Hq; simpl in Hq; [lia|].
  destruct q as [|q]; [lia|]. destruct p as [|p]; simpl.
  - rewrite Forall_forall in Hall. apply Hall. apply nth_In. lia.
  - apply IH; lia.
Qed.

(** * Positions *)
Lemma pos_lt x l : In x l -> pos x l < length l.
Proof.
  induction l as [|y t IH]; simpl; [tauto|]. intros H.
  destruct (Nat.eqb x y) eqn:E; [lia|]. apply Nat.eqb_neq in E. destruct H as [H|H]; [congruence|].
  specialize (IH H). lia.
Qed.

Lemma nth_pos x l d : In x l -> nth (pos x l) l d = x.
Proof.
  induction l as [|y t IH]; simpl; [tauto|]. intros H.
  destruct (Nat.eqb x y) eqn:E; [now apply Nat.eqb_eq in E|]. apply Nat.eqb_neq in E.
  destruct H as [H|H]; [congruence | now apply IH].
Qed.

Lemma pos_inj x y l : In x l -> In y l -> pos x l = pos y l -> x = y.
Proof.
  intros Hx Hy E. rewrite <- (nth_pos x l 0 Hx), <- (nth_pos y l 0 Hy). now rewrite E.
Qed.

Lemma in_combine_seq {A} (l : list A) a t r : In (t, r) (combine (seq a (length l)) l) ->
  a <= t /\ nth_error l (t - a) = Some r.
Proof.
  revert a. induction l as [|x l IH]; intros a H; simpl in H; [tauto|].
  destruct H as [H|H].
  - inversion H; subst. split; [lia|]. now rewrite Nat.sub_diag.
  - apply IH in H. destruct H as [H1 H2]. split; [lia|].
    replace (t - a) with (S (t - S a)) by lia. exact H2.
Qed.

Lemma combine_seq_in {A} (l : list A) a t r : nth_error l t = Some r -> In (a + t, r) (combine (seq a (length l)) l).
Proof.
  revert a t. induction l as [|x l IH]; intros a t H; destruct t as [|t]; simpl in *; try discriminate.
  - inversion H; subst. left. f_equal. lia.
  - right. replace (a + S t) with (S a + t) by lia. now apply IH.
Qed.

Lemma map_snd_combine_seq {A} (l : list A) a : map snd (combine (seq a (length l)) l) = l.
Proof. revert a. induction l as [|x l IH]; intros a; simpl; [reflexivity|]. now rewrite IH. Qed.

Lemma map_fst_combine_seq {A} (l : list A) a : map fst (combine (seq a (length l)) l) = seq a (length l).
Proof. revert a. induction l as [|x l IH]; intros a; simpl; [reflexivity|]. now rewrite IH. Qed.

(** * What [hmono] says *)
Lemma hmono_row n D : hmono n D = true ->
  forall t r, nth_error D t = Some r ->
  forall c, In c (children r) -> n <= c ->
  exists r', nth_error D (c - n) = Some r' /\ (r_height r' <= r_height r)%Q.
Proof.
  unfold hmono. rewrite forallb_forall. intros H t r Hr c Hc Hge.
  specialize (H r (nth_error_In _ _ Hr)). apply andb_true_iff in H. destruct H as [H1 H2].
  assert (Hcc : child_height_ok n D (r_height r) c = true).
  { destruct Hc as [<-|[<-|[]]]; assumption. }
  unfold child_height_ok in Hcc.
  replace (Nat.ltb c n) with false in Hcc by (symmetry; apply Nat.ltb_ge; lia).
  destruct (nth_error D (c - n)) as [r'|]; [|discriminate].
  exists r'. split; [reflexivity|]. now apply Qle_bool_iff.
Qed.

(** * The theorem *)
Definition merge_view (n : nat) (D : dendrogram) : list (list nat * list nat * Q * nat) :=
  map (fun r => (leaves n D (r_left r), leaves n D (r_right r), r_height r, r_size r)) D.

Lemma flat_map_children_map (f : nat -> nat) (l : list (nat * drow)) :
  flat_map children (map (fun x => let r := snd x in ((f (r_left r), f (r_right r), r_height r, r_size r) : drow)) l) =
  map f (flat_map children (map snd l)).
Proof. induction l as [|x l IH]; [reflexivity|]. simpl in *. now rewrite IH. Qed.

Section Reorder.
(* a valid dendrogram in which no merge is lower than the merges that created its children *)
Context (n : nat) (D : dendrogram) (Hwf : wf_dend n D) (Hmono : hmono n D = true).

Let srt := lexsort_rows D.
Let index := map fst srt.
Let rename (c : nat) := if Nat.ltb c n then c else n + pos (c - n) index.
Let D' : dendrogram :=
  map (fun x => let r := snd x in ((rename (r_left r), rename (r_right r), r_height r, r_size r) : drow)) srt.

Lemma srt_in t r : In (t, r) srt <-> nth_error D t = Some r.
Proof.
  unfold srt. split.
  - intros H. apply (Permutation_in _ (lexsort_perm D)) in H. apply in_combine_seq in H.
    now rewrite Nat.sub_0_r in H.
  - intros H. apply (Permutation_in _ (Permutation_sym (lexsort_perm D))).
    exact (combine_seq_in D 0 t r H).
Qed.

Lemma index_perm : Permutation index (seq 0 (length D)).
Proof.
  unfold index, srt. rewrite (Permutation_map fst (lexsort_perm D)). now rewrite map_fst_combine_seq.
Qed.

Lemma index_in t : In t index <-> t < length D.
Proof.
  split; intros H.
  - apply (Permutation_in _ index_perm) in H. apply in_seq in H. lia.
  - apply (Permutation_in _ (Permutation_sym index_perm)). apply in_seq. lia.
Qed.

Lemma srt_length : length srt = length D.
Proof.
  unfold srt. rewrite (Permutation_length (lexsort_perm D)), combine_length, seq_length. lia.
Qed.

Lemma index_length : length index = length D.
Proof. unfold index. now rewrite map_length, srt_length. Qed.

(* the row at position [pos t index] of the sorted list is row t *)
Lemma srt_at_pos t r : nth_error D t = Some r -> nth (pos t index) srt (0, drow0) = (t, r).
Proof.
  intros Hr. assert (Ht : t < length D) by (apply nth_error_Some; congruence).
  assert (Hin : In t index) by now apply index_in.
  assert (Hp := pos_lt _ _ Hin). rewrite index_length, <- srt_length in Hp.
  assert (Hf : fst (nth (pos t index) srt (0, drow0)) = t).
  { change t with (fst (t, r)) at 2. unfold index in *.
    rewrite <- (nth_pos t (map fst srt) 0 Hin) at 2.
    change 0 with (fst (0, drow0)) at 2. now rewrite map_nth. }
  destruct (nth (pos t index) srt (0, drow0)) as [t2 r2] eqn:E. simpl in Hf. subst t2.
  assert (Hin2 : In (t, r2) srt) by (rewrite <- E; apply nth_In; exact Hp).
  apply srt_in in Hin2. congruence.
Qed.

Lemma children_lt2 t r c : nth_error D t = Some r -> In c (children r) -> c < n + t.
Proof.
  intros Hr Hc. destruct (wf_lt _ _ Hwf _ _ Hr) as [H1 H2]. destruct Hc as [<-|[<-|[]]]; assumption.
Qed.

(* the row that created a child is sorted strictly before the parent's row *)
Lemma child_before_parent t r c : nth_error D t = Some r -> In c (children r) -> n <= c ->
  pos (c - n) index < pos t index.
Proof.
  intros Hr Hc Hge.
  destruct (hmono_row n D Hmono t r Hr c Hc Hge) as [r' [Hr' Hh]].
  assert (Hct := children_lt2 _ _ _ Hr Hc).
  assert (Ht : t < length D) by (apply nth_error_Some; congruence).
  assert (Hin : In t index) by now apply index_in.
  assert (Hin' : In (c - n) index) by (apply index_in; lia).
  (* strict key order *)
  assert (Hmax' : Nat.max (r_left r') (r_right r') < c).
  { destruct (wf_lt _ _ Hwf _ _ Hr') as [H1 H2]. lia. }
  assert (Hmax : c <= Nat.max (r_left r) (r_right r)).
  { destruct Hc as [<-|[<-|[]]]; lia. }
  assert (Hnot : rkey_le (t, r) (c - n, r') = false).
  { destruct (rkey_le (t, r) (c - n, r')) eqn:E; [|reflexivity]. exfalso.
    apply rkey_le_iff in E. unfold rkey in E. cbn [fst snd] in E. destruct E as [E|[E1 E2]]; [lra|lia]. }
  destruct (Nat.lt_trichotomy (pos (c - n) index) (pos t index)) as [H|[H|H]]; [exact H| |].
  - apply pos_inj in H; [lia | assumption | assumption].
  - exfalso.
    assert (Hs := StronglySorted_nth RK srt (lexsort_sorted D) (pos t index) (pos (c - n) index) (0, drow0) H).
    rewrite srt_length, <- index_length in Hs. specialize (Hs (pos_lt _ _ Hin')).
    rewrite (srt_at_pos _ _ Hr), (srt_at_pos _ _ Hr') in Hs. unfold RK in Hs. congruence.
Qed.

Lemma D'_length : length D' = length D.
Proof. unfold D'. now rewrite map_length, srt_length. Qed.

(* row [pos t index] of the output is row t renamed *)
Lemma D'_at_pos t r : nth_error D t = Some r ->
  nth_error D' (pos t index) = Some (rename (r_left r), rename (r_right r), r_height r, r_size r).
Proof.
  intros Hr. assert (Ht : t < length D) by (apply nth_error_Some; congruence).
  assert (Hp := pos_lt _ _ (proj2 (index_in t) Ht)). rewrite index_length, <- srt_length in Hp.
  unfold D'. rewrite nth_error_map.
  rewrite (@List.nth_error_nth' _ srt (pos t index) (0, drow0) Hp), (srt_at_pos _ _ Hr). reflexivity.
Qed.

(* every row of the output is some row of the input, renamed *)
Lemma D'_row p r' : nth_error D' p = Some r' ->
  exists t r, nth_error D t = Some r /\ p = pos t index /\
              r' = (rename (r_left r), rename (r_right r), r_height r, r_size r).
Proof.
  intros H. unfold D' in H. rewrite nth_error_map in H.
  destruct (nth_error srt p) as [[t r]|] eqn:E; [|discriminate]. simpl in H. inversion H; subst r'. clear H.
  assert (Hin : In (t, r) srt) by (eapply nth_error_In; exact E).
  apply srt_in in Hin. exists t, r. split; [exact Hin|]. split; [|reflexivity].
  assert (Hp : p < length srt) by (apply nth_error_Some; congruence).
  (* index has no duplicates, so p is the position of t *)
  assert (Hnd : NoDup index) by (apply (Permutation_NoDup (Permutation_sym index_perm)), seq_NoDup).
  assert (Hi : nth_error index p = Some t).
  { unfold index. rewrite nth_error_map, E. reflexivity. }
  assert (Ht : t < length D) by (apply nth_error_Some; congruence).
  assert (Hpt := pos_lt _ _ (proj2 (index_in t) Ht)).
  assert (Hi2 : nth_error index (pos t index) = Some t).
  { rewrite (@List.nth_error_nth' _ index (pos t index) 0 Hpt). f_equal. apply nth_pos. now apply index_in. }
  apply (proj1 (NoDup_nth_error index) Hnd p (pos t index)); [| congruence].
  unfold index. rewrite map_length. exact Hp.
Qed.

Lemma rename_lt c : c < n + length D -> rename c < n + length D.
Proof.
  intros H. unfold rename. destruct (Nat.ltb c n) eqn:E; [apply Nat.ltb_lt in E; lia|].
  apply Nat.ltb_ge in E. assert (Hc' : c - n < length D) by lia.
  assert (Hp := pos_lt (c - n) index (proj2 (index_in (c - n)) Hc')).
  rewrite index_length in Hp. lia.
Qed.

Lemma rename_inj c1 c2 : c1 < n + length D -> c2 < n + length D -> rename c1 = rename c2 -> c1 = c2.
Proof.
  intros H1 H2. unfold rename.
  destruct (Nat.ltb c1 n) eqn:E1; destruct (Nat.ltb c2 n) eqn:E2; intros E.
  - exact E.
  - apply Nat.ltb_lt in E1. apply Nat.ltb_ge in E2. lia.
  - apply Nat.ltb_ge in E1. apply Nat.ltb_lt in E2. lia.
  - apply Nat.ltb_ge in E1. apply Nat.ltb_ge in E2.
    assert (Hp : pos (c1 - n) index = pos (c2 - n) index) by lia.
    apply pos_inj in Hp; [lia | apply index_in; lia | apply index_in; lia].
Qed.

Lemma csize_rename c : c < n + length D -> csize n D' (rename c) = csize n D c.
Proof.
  intros Hc. unfold rename. destruct (Nat.ltb c n) eqn:E.
  - apply Nat.ltb_lt in E. now rewrite !csize_leaf.
  - apply Nat.ltb_ge in E.
    destruct (nth_error D (c - n)) as [r|] eqn:Hr; [|apply nth_error_None in Hr; lia].
    rewrite (csize_node n D' _ _ (D'_at_pos _ _ Hr)).
    pose proof (csize_node n D (c - n) r Hr) as E2. replace (n + (c - n)) with c in E2 by lia.
    rewrite E2. reflexivity.
Qed.

Lemma children_all_lt c : In c (flat_map children D) -> c < n + length D.
Proof.
  intros H. apply in_flat_map in H. destruct H as [r [Hr Hc]].
  apply In_nth_error in Hr. destruct Hr as [t Hr].
  assert (Ht : t < length D) by (apply nth_error_Some; congruence).
  assert (X := children_lt2 _ _ _ Hr Hc). lia.
Qed.

Lemma NoDup_map_inj_in {A B} (f : A -> B) l :
  (forall x y, In x l -> In y l -> f x = f y -> x = y) -> NoDup l -> NoDup (map f l).
Proof.
  intros Hinj Hnd. induction Hnd as [|a l Hn Hnd IH]; simpl; [constructor|].
  constructor.
  - intros Hc. apply in_map_iff in Hc. destruct Hc as [y [Hy Hin]].
    apply Hinj in Hy; [subst; tauto | now right | now left].
  - apply IH. intros x y Hx Hy. apply Hinj; now right.
Qed.

Lemma D'_wf : wf_dend n D'.
Proof.
  split.
  - rewrite D'_length. exact (wf_len _ _ Hwf).
  - (* children of the output = renamed children of a permutation of the rows *)
    assert (E : flat_map children D' = map rename (flat_map children (map snd srt))).
    { exact (flat_map_children_map rename srt). }
    rewrite E. apply NoDup_map_inj_in.
    + assert (Hp : Permutation (flat_map children (map snd srt)) (flat_map children D)).
      { apply Permutation_flat_map. unfold srt. rewrite (Permutation_map snd (lexsort_perm D)).
        now rewrite map_snd_combine_seq. }
      intros x y Hx Hy. apply rename_inj; apply children_all_lt; eapply Permutation_in; eauto.
    + apply (Permutation_NoDup (l := flat_map children D)); [|exact (wf_nodup _ _ Hwf)].
      apply Permutation_sym, Permutation_flat_map. unfold srt. rewrite (Permutation_map snd (lexsort_perm D)).
      now rewrite map_snd_combine_seq.
  - intros p r' Hr'. destruct (D'_row _ _ Hr') as (t & r & Hr & -> & ->).
    unfold r_left, r_right. cbn [fst snd].
    assert (Hone : forall c, In c (children r) -> rename c < n + pos t index).
    { intros c Hc. unfold rename. destruct (Nat.ltb c n) eqn:E.
      - apply Nat.ltb_lt in E. lia.
      - apply Nat.ltb_ge in E. assert (X := child_before_parent _ _ _ Hr Hc E). lia. }
    split; apply Hone; simpl; tauto.
  - intros p r' Hr'. destruct (D'_row _ _ Hr') as (t & r & Hr & -> & ->).
    assert (Ht : t < length D) by (apply nth_error_Some; congruence).
    destruct (wf_lt _ _ Hwf _ _ Hr) as [H1 H2]. assert (Hsz := wf_size _ _ Hwf _ _ Hr).
    destruct r as [[[i j] h] s]. unfold r_left, r_right, r_size in *. cbn [fst snd] in *.
    rewrite !csize_rename by lia. exact Hsz.
Qed.

Lemma D'_sorted : sortedq (heights D') = true.
Proof.
  assert (Hh : heights D' = map (fun x => r_height (snd x)) srt).
  { unfold heights, D'. rewrite map_map. reflexivity. }
  rewrite Hh. assert (Hs := lexsort_sorted D). fold srt in Hs. clear Hh.
  induction Hs as [|x l Hs IH Hall]; [reflexivity|].
  destruct l as [|y l']; [reflexivity|]. simpl. simpl in IH. rewrite IH, andb_true_r.
  inversion Hall as [|? ? Hxy _]; subst. apply Qle_bool_iff.
  apply rkey_le_iff in Hxy. unfold rkey in Hxy. cbn [fst snd] in Hxy. destruct Hxy as [H|[H _]]; lra.
Qed.

Lemma leaves_rename c : c < n + length D -> leaves n D' (rename c) = leaves n D c.
Proof.
  induction c as [c IH] using lt_wf_ind. intros Hc.
  destruct (Nat.lt_ge_cases c n) as [Hlt|Hge].
  - unfold rename. replace (Nat.ltb c n) with true by (symmetry; now apply Nat.ltb_lt).
    now rewrite !leaves_leaf.
  - destruct (nth_error D (c - n)) as [r|] eqn:Hr; [|apply nth_error_None in Hr; lia].
    unfold rename at 1. replace (Nat.ltb c n) with false by (symmetry; now apply Nat.ltb_ge).
    rewrite (leaves_node n D' _ _ (wf_lt _ _ D'_wf) (D'_at_pos _ _ Hr)).
    destruct (wf_lt _ _ Hwf _ _ Hr) as [H1 H2].
    pose proof (leaves_node n D (c - n) r (wf_lt _ _ Hwf) Hr) as E2. replace (n + (c - n)) with c in E2 by lia.
    rewrite E2. destruct r as [[[i j] h] s]. unfold r_left, r_right in *. cbn [fst snd] in *.
    rewrite !IH by lia. reflexivity.
Qed.

Lemma D'_same_merges : Permutation (merge_view n D) (merge_view n D').
Proof.
  assert (E : merge_view n D' = map (fun r => (leaves n D (r_left r), leaves n D (r_right r), r_height r, r_size r)) (map snd srt)).
  { unfold merge_view, D'. rewrite !map_map. apply map_ext_in. intros [t r] Hin. apply srt_in in Hin.
    assert (Ht : t < length D) by (apply nth_error_Some; congruence).
    destruct (wf_lt _ _ Hwf _ _ Hin) as [H1 H2].
    destruct r as [[[i j] h] s]. unfold r_left, r_right, r_height, r_size in *. cbn [fst snd] in *.
    rewrite !leaves_rename by lia. reflexivity. }
  rewrite E. unfold merge_view. apply Permutation_map, Permutation_sym.
  unfold srt. rewrite (Permutation_map snd (lexsort_perm D)). now rewrite map_snd_combine_seq.
Qed.

Lemma reorder_runs : reorder_dendrogram D = Ok D'.
Proof.
  unfold reorder_dendrogram.
  assert (Hn : S (length D) = n) by exact (wf_len _ _ Hwf).
  replace (forallb _ D) with true.
  - rewrite Hn. reflexivity.
  - symmetry. apply forallb_forall. intros r Hr. apply In_nth_error in Hr. destruct Hr as [t Hr].
    assert (Ht : t < length D) by (apply nth_error_Some; congruence).
    destruct (wf_lt _ _ Hwf _ _ Hr) as [H1 H2]. apply andb_true_iff. split; apply Nat.ltb_lt; lia.
Qed.
End Reorder.

Theorem reorder_valid n D :
  valid n D = true -> hmono n D = true ->
  exists D', reorder_dendrogram D = Ok D' /\ valid n D' = true /\ sortedq (heights D') = true /\
             Permutation (merge_view n D) (merge_view n D').
Proof.
  intros Hv Hm. apply valid_wf in Hv. eexists. split; [apply (reorder_runs n D Hv)|].
  split; [apply wf_valid, (D'_wf n D Hv Hm)|]. split; [apply D'_sorted | apply (D'_same_merges n D Hv Hm)].
Qed.

(** Without the height hypothesis the output can be invalid: the parent is sorted before the row that creates its
    child.  This is the shape defect D25 produces (parent 9/26 - 1 ulp, child 9/26). *)
Definition inverted_example : dendrogram :=
  [(0, 1, (2 # 1)%Q, 2); (2, 3, (1 # 1)%Q, 3)].

Theorem reorder_parent_below_child_refuted :
  exists n D D', valid n D = true /\ hmono n D = false /\ reorder_dendrogram D = Ok D' /\ valid n D' = false.
Proof.
  exists 3, inverted_example. eexists. split; [vm_compute; reflexivity|]. split; [vm_compute; reflexivity|].
  split; vm_compute; reflexivity.
Qed.

Print Assumptions reorder_valid.

(** Static characterisation of dendrogram validity, shared by the C07 proofs.

    [valid n D] (Model/Dendrogram.v) replays the merges over a dict of live clusters.  [wf_dend n D] says the same
    thing without a replay, in a form that is stable under permutations of the rows:
      - n - 1 rows;
      - no cluster id occurs twice among the children of all the rows (each cluster is merged at most once,
        and the two children of a row differ);
      - the children of row t are leaves or clusters created by earlier rows (ids < n + t);
      - the size column of a row is the sum of the sizes of its two children (1 for a leaf, the size column of
        the row that created it for an internal id). *)
From SKN Require Import Base.Util Model.Dendrogram Model.Cuts Proofs.DendroBase.
From Coq Require Import Permutation Lia.

Definition csize (n : nat) (D : dendrogram) (c : nat) : nat :=
  if Nat.ltb c n then 1 else r_size (nth (c - n) D drow0).

Definition sizes_add (n : nat) (D : dendrogram) : Prop :=
  forall t r, nth_error D t = Some r -> r_size r = csize n D (r_left r) + csize n D (r_right r).

Record wf_dend (n : nat) (D : dendrogram) : Prop := {
  wf_len : S (length D) = n;
  wf_nodup : NoDup (flat_map children D);
  wf_lt : ids_lt n D;
  wf_size : sizes_add n D }.

(** * Small list facts *)
Lemma firstn_S_nth {A} (l : list A) t x : nth_error l t = Some x -> firstn (S t) l = firstn t l ++ [x].
Proof.
  revert t; induction l as [|a l IH]; intros [|t] H; simpl in *; try discriminate.
  - now inversion H.
  - f_equal. now apply IH.
Qed.

Lemma nth_error_nth_d {A} (l : list A) t x d : nth_error l t = Some x -> nth t l d = x.
Proof. revert t; induction l; intros [|t] H; simpl in *; try discriminate; [now inversion H | now apply IHl]. Qed.

Lemma csize_app n D1 D2 c : c < n + length D1 -> csize n (D1 ++ D2) c = csize n D1 c.
Proof.
  intros H. unfold csize. destruct (Nat.ltb c n) eqn:E; [reflexivity|]. apply Nat.ltb_ge in E.
  rewrite app_nth1 by lia. reflexivity.
Qed.

Lemma csize_leaf n D c : c < n -> csize n D c = 1.
Proof. intros H. unfold csize. apply Nat.ltb_lt in H. now rewrite H. Qed.

Lemma csize_node n D t r : nth_error D t = Some r -> csize n D (n + t) = r_size r.
Proof.
  intros H. unfold csize. replace (Nat.ltb (n + t) n) with false by (symmetry; apply Nat.ltb_ge; lia).
  replace (n + t - n) with t by lia. now rewrite (nth_error_nth_d _ _ _ drow0 H).
Qed.

Lemma sumn_app l1 l2 : sumn (l1 ++ l2) = sumn l1 + sumn l2.
Proof. unfold sumn. induction l1; simpl; lia. Qed.

Lemma sumn_perm l1 l2 : Permutation l1 l2 -> sumn l1 = sumn l2.
Proof. unfold sumn. induction 1; simpl; lia. Qed.

Lemma sumn_repeat1 n : sumn (repeat 1 n) = n.
Proof. unfold sumn. induction n; simpl; lia. Qed.

Lemma aremove_sum k (l : list (nat * nat)) v :
  alookup k l = Some v -> sumn (map snd (aremove k l)) + v = sumn (map snd l).
Proof.
  intros H. apply aremove_perm in H. apply (Permutation_map snd) in H. apply sumn_perm in H.
  rewrite H. unfold sumn. simpl. lia.
Qed.

(** * valid -> wf_dend *)
Definition sizes_ok (n : nat) (D : dendrogram) (live : list (nat * nat)) : Prop :=
  forall x s, In (x, s) live -> s = csize n D x.

Lemma valid_run_sizes n D :
  forall rows done live live',
    D = done ++ rows -> linv n done live -> sizes_ok n D live ->
    valid_run (n + length done) rows live = Some live' ->
    (forall t r, length done <= t -> nth_error D t = Some r ->
                 r_size r = csize n D (r_left r) + csize n D (r_right r)) /\ sizes_ok n D live'.
Proof.
  induction rows as [|r rows IH]; intros done live live' HD Hinv Hs Hrun.
  - simpl in Hrun. inversion Hrun; subst. split; [|assumption]. rewrite app_nil_r.
    intros t r Ht Hr. assert (t < length done) by (apply nth_error_Some; congruence). lia.
  - simpl in Hrun. destruct r as [[[i j] h] s] eqn:Er.
    destruct (alookup i live) as [si|] eqn:Hi; [|discriminate].
    destruct (alookup j live) as [sj|] eqn:Hj; [|discriminate].
    destruct (negb (Nat.eqb i j) && Nat.eqb s (si + sj)) eqn:Hc; [|discriminate].
    apply andb_true_iff in Hc. destruct Hc as [Hne Hsz]. apply negb_true_iff, Nat.eqb_neq in Hne.
    apply Nat.eqb_eq in Hsz.
    assert (Hstep := valid_run_step n done live r Hinv si sj).
    subst r. unfold r_left, r_right in Hstep. simpl in Hstep. specialize (Hstep Hi Hj Hne s).
    assert (Hrow : nth_error D (length done) = Some (i, j, h, s)) by (rewrite HD; apply nth_error_app_length).
    assert (Hs' : sizes_ok n D (aremove j (aremove i live) ++ [(n + length done, s)])).
    { intros x sx Hin. apply in_app_iff in Hin. destruct Hin as [Hin|[Hin|[]]].
      - apply Hs. apply aremove_In in Hin. now apply aremove_In in Hin.
      - injection Hin as E1 E2. subst x sx. symmetry. now apply (csize_node n D (length done) (i, j, h, s)). }
    specialize (IH (done ++ [(i, j, h, s)]) (aremove j (aremove i live) ++ [(n + length done, s)]) live').
    rewrite app_length in IH. simpl in IH. replace (n + (length done + 1)) with (S (n + length done)) in IH by lia.
    rewrite <- app_assoc in IH. simpl in IH. specialize (IH HD Hstep Hs' Hrun).
    destruct IH as [IH1 IH2]. split; [|assumption].
    intros t r Ht Hr. destruct (Nat.eq_dec t (length done)) as [->|Hneq]; [|apply (IH1 t r); [lia|assumption]].
    rewrite Hrow in Hr. inversion Hr; subst r. unfold r_size, r_left, r_right. simpl.
    apply alookup_In in Hi. apply alookup_In in Hj. rewrite <- (Hs _ _ Hi), <- (Hs _ _ Hj). exact Hsz.
Qed.

Lemma init_live_sizes n D : sizes_ok n D (init_live (repeat 1 n)).
Proof.
  intros x s Hin. unfold init_live in Hin. rewrite repeat_length in Hin.
  assert (Hx : x < n /\ s = 1).
  { assert (H1 := in_combine_l _ _ _ _ Hin). assert (H2 := in_combine_r _ _ _ _ Hin).
    apply in_seq in H1. apply repeat_spec in H2. lia. }
  destruct Hx as [Hx ->]. now rewrite csize_leaf.
Qed.

Lemma rows_nodup n D :
  (forall t r, nth_error D t = Some r -> row_ok n D t r) ->
  forall t, t <= length D -> NoDup (flat_map children (firstn t D)).
Proof.
  intros Hrows. induction t as [|t IH]; intros Ht; [constructor|].
  destruct (nth_error D t) as [r|] eqn:Hr; [|apply nth_error_None in Hr; lia].
  rewrite (firstn_S_nth _ _ _ Hr), flat_map_app. simpl.
  replace (flat_map children (firstn t D) ++ [r_left r; r_right r])
    with ((flat_map children (firstn t D) ++ [r_left r]) ++ [r_right r]) by (rewrite <- app_assoc; reflexivity).
  destruct (Hrows _ _ Hr) as (Hne & _ & _ & Hl & Hrr).
  specialize (IH ltac:(lia)).
  apply NoDup_snoc.
  - apply NoDup_snoc; assumption.
  - rewrite in_app_iff. simpl. intros [H|[H|[]]]; [tauto | congruence].
Qed.

Theorem valid_wf n D : valid n D = true -> wf_dend n D.
Proof.
  intros H. destruct (valid_rows n D H) as [Hlen Hrows].
  split.
  - exact Hlen.
  - assert (E := rows_nodup n D Hrows (length D) (le_n _)). now rewrite firstn_all in E.
  - now apply valid_ids_lt.
  - unfold valid, validw in H. apply andb_true_iff in H. destruct H as [H _].
    apply andb_true_iff in H. destruct H as [_ Hrun]. rewrite repeat_length in Hrun.
    destruct (valid_run n D (init_live (repeat 1 n))) as [live'|] eqn:E; [|discriminate].
    assert (Hl : linv n [] (init_live (repeat 1 n))).
    { assert (X := linv_init (repeat 1 n)). now rewrite repeat_length in X. }
    destruct (valid_run_sizes n D D [] _ live' eq_refl Hl (init_live_sizes n D)) as [H1 _].
    { simpl. now rewrite Nat.add_0_r. }
    intros t r Hr. apply (H1 t r); [simpl; lia | exact Hr].
Qed.

(** * wf_dend -> valid *)
Lemma valid_run_shape :
  forall rows next live live',
    valid_run next rows live = Some live' ->
    sumn (map snd live') = sumn (map snd live) /\ length live' + length rows = length live /\
    (rows <> [] -> exists l, live' = l ++ [(next + length rows - 1, r_size (last rows drow0))]).
Proof.
  induction rows as [|r rows IH]; intros next live live' Hrun.
  - simpl in Hrun. inversion Hrun; subst. simpl. repeat split; try lia. congruence.
  - simpl in Hrun. destruct r as [[[i j] h] s].
    destruct (alookup i live) as [si|] eqn:Hi; [|discriminate].
    destruct (alookup j live) as [sj|] eqn:Hj; [|discriminate].
    destruct (negb (Nat.eqb i j) && Nat.eqb s (si + sj)) eqn:Hc; [|discriminate].
    apply andb_true_iff in Hc. destruct Hc as [Hne Hsz]. apply negb_true_iff, Nat.eqb_neq in Hne.
    apply Nat.eqb_eq in Hsz.
    destruct (IH _ _ _ Hrun) as (Hsum & Hlen & Hlast).
    assert (Hj' : alookup j (aremove i live) = Some sj) by (rewrite alookup_aremove_neq; [exact Hj | congruence]).
    split; [|split].
    + rewrite Hsum, map_app, sumn_app. simpl.
      assert (E1 := aremove_sum _ _ _ Hi). assert (E2 := aremove_sum _ _ _ Hj'). unfold sumn in *. simpl. lia.
    + rewrite app_length in Hlen. simpl in Hlen.
      assert (E1 := aremove_length _ _ _ Hi). assert (E2 := aremove_length _ _ _ Hj'). simpl. lia.
    + intros _. destruct rows as [|r2 rows'].
      * simpl in Hrun. inversion Hrun; subst. eexists. simpl. replace (next + 1 - 1) with next by lia.
        unfold r_size. simpl. reflexivity.
      * destruct (Hlast ltac:(discriminate)) as [l Hl]. exists l. rewrite Hl. simpl length.
        replace (S next + S (length rows') - 1) with (next + S (S (length rows')) - 1) by lia.
        reflexivity.
Qed.

Lemma wf_run n D : wf_dend n D ->
  forall rows done live,
    D = done ++ rows -> linv n done live -> sizes_ok n D live ->
    exists live', valid_run (n + length done) rows live = Some live'.
Proof.
  intros [Hlen Hnd Hlt Hsz]. induction rows as [|r rows IH]; intros done live HD Hinv Hs.
  - simpl. eauto.
  - assert (Hrow : nth_error D (length done) = Some r) by (rewrite HD; apply nth_error_app_length).
    destruct (Hlt _ _ Hrow) as [Hl Hr].
    rewrite HD, flat_map_app in Hnd. simpl in Hnd.
    apply NoDup_app_remove_aux in Hnd. destruct Hnd as (_ & Hnd2 & Hdisj).
    assert (Hnl : ~ In (r_left r) (flat_map children done)).
    { intros Hc. apply (Hdisj _ Hc). simpl. now left. }
    assert (Hnr : ~ In (r_right r) (flat_map children done)).
    { intros Hc. apply (Hdisj _ Hc). simpl. right. now left. }
    assert (Hne : r_left r <> r_right r).
    { simpl in Hnd2. inversion Hnd2 as [|? ? Hn _]; subst. intros E. apply Hn. rewrite E. now left. }
    destruct Hinv as (Hndk & Hkeys & Hch).
    assert (Hkl : In (r_left r) (akeys live)) by (apply Hkeys; split; assumption).
    assert (Hkr : In (r_right r) (akeys live)) by (apply Hkeys; split; assumption).
    destruct (In_key_alookup _ _ Hkl) as [si Hi]. destruct (In_key_alookup _ _ Hkr) as [sj Hj].
    assert (Esi := Hs _ _ (alookup_In _ _ _ Hi)). assert (Esj := Hs _ _ (alookup_In _ _ _ Hj)).
    assert (Esz := Hsz _ _ Hrow).
    destruct r as [[[i j] h] s]. unfold r_left, r_right, r_size in *. simpl in *.
    rewrite Hi, Hj.
    replace (negb (Nat.eqb i j)) with true by (symmetry; apply negb_true_iff, Nat.eqb_neq; exact Hne).
    replace (Nat.eqb s (si + sj)) with true by (symmetry; apply Nat.eqb_eq; lia). simpl.
    assert (Hstep := valid_run_step n done live (i, j, h, s) (conj Hndk (conj Hkeys Hch)) si sj Hi Hj Hne s).
    unfold r_left, r_right in Hstep. simpl in Hstep.
    specialize (IH (done ++ [(i, j, h, s)]) (aremove j (aremove i live) ++ [(n + length done, s)])).
    rewrite app_length in IH. simpl in IH. replace (n + (length done + 1)) with (S (n + length done)) in IH by lia.
    rewrite <- app_assoc in IH. simpl in IH. apply IH; [exact HD | exact Hstep |].
    intros x sx Hin. apply in_app_iff in Hin. destruct Hin as [Hin|[Hin|[]]].
    + apply Hs. apply aremove_In in Hin. now apply aremove_In in Hin.
    + injection Hin as E1 E2. subst x sx. symmetry. now apply (csize_node n D (length done) (i, j, h, s)).
Qed.

Theorem wf_valid n D : wf_dend n D -> valid n D = true.
Proof.
  intros Hwf. assert (Hlen := wf_len _ _ Hwf).
  assert (Hl : linv n [] (init_live (repeat 1 n))).
  { assert (X := linv_init (repeat 1 n)). now rewrite repeat_length in X. }
  destruct (wf_run n D Hwf D [] _ eq_refl Hl (init_live_sizes n D)) as [live' Hrun].
  simpl in Hrun. rewrite Nat.add_0_r in Hrun.
  unfold valid, validw. rewrite repeat_length, Hrun, sumn_repeat1.
  replace (Nat.eqb (S (length D)) n) with true by (symmetry; apply Nat.eqb_eq; exact Hlen). simpl.
  destruct D as [|r0 D0] eqn:ED; [reflexivity|]. rewrite <- ED in *.
  apply Nat.eqb_eq.
  destruct (valid_run_shape _ _ _ _ Hrun) as (Hsum & Hlen2 & Hlast).
  destruct (Hlast ltac:(subst D; discriminate)) as [l El].
  unfold init_live in Hsum, Hlen2. rewrite repeat_length in Hsum, Hlen2.
  rewrite combine_length, seq_length, repeat_length, Nat.min_id in Hlen2.
  assert (Hl0 : l = []).
  { rewrite El, app_length in Hlen2. simpl in Hlen2. destruct l; [reflexivity|simpl in Hlen2; lia]. }
  subst l. rewrite El in Hsum. simpl in Hsum.
  assert (Hm : forall k, map snd (combine (seq k n) (repeat 1 n)) = repeat 1 n).
  { clear. induction n; intros k; simpl; [reflexivity|]. now rewrite IHn. }
  rewrite Hm, sumn_repeat1 in Hsum. unfold sumn in Hsum. simpl in Hsum. lia.
Qed.

Theorem valid_iff_wf n D : valid n D = true <-> wf_dend n D.
Proof. split; [apply valid_wf | apply wf_valid]. Qed.

(** The size column of a valid dendrogram counts the leaves below each merge. *)
Lemma csize_leaves n D : wf_dend n D -> forall c, c < n + length D -> csize n D c = length (leaves n D c).
Proof.
  intros Hwf c. induction c as [c IH] using lt_wf_ind. intros Hc.
  destruct (Nat.lt_ge_cases c n) as [Hlt|Hge].
  - rewrite csize_leaf, leaves_leaf by assumption. reflexivity.
  - destruct (nth_error D (c - n)) as [r|] eqn:Hr; [|apply nth_error_None in Hr; lia].
    replace c with (n + (c - n)) by lia.
    rewrite (csize_node _ _ _ _ Hr), (leaves_node _ _ _ _ (wf_lt _ _ Hwf) Hr), app_length.
    destruct (wf_lt _ _ Hwf _ _ Hr) as [Hl Hrr].
    rewrite (wf_size _ _ Hwf _ _ Hr), IH, IH by lia. reflexivity.
Qed.

Theorem valid_size_leaves n D : valid n D = true ->
  forall t r, nth_error D t = Some r -> r_size r = length (leaves n D (n + t)).
Proof.
  intros H t r Hr. apply valid_wf in H.
  assert (t < length D) by (apply nth_error_Some; congruence).
  rewrite <- (csize_leaves n D H) by lia. symmetry. now apply csize_node.
Qed.

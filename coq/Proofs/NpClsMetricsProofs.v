(** C13, classification metrics, about the terms regenerated from sknetwork/classification/metrics.py (Gen/NpClsMetrics.v,
    language and semantics of Model/NpVec.v), over R: for all label vectors of equal length with at least one counted
    sample (both labels non-negative),
      - the denotation of get_confusion_matrix is the K x K matrix of the numbers of counted samples with true label i and
        predicted label j (K = largest label + 1), and its entries sum to the number of counted samples;
      - the denotation of get_accuracy_score is (number of counted samples with equal labels) / (number of counted samples),
        which is trace / total of that matrix;
      - the denotations of the three vectors of get_f1_scores are TP / (row sum), TP / (column sum) and
        2 TP / (row sum + column sum) of that matrix (0 where the denominator is null);
      - micro = accuracy, macro = the mean of the F1 vector over all K labels;
    without a counted sample every one of them is undefined (the ValueError of the source). *)
From SKN Require Import Base.Util Model.Gnn Model.NpExpr Model.NpVec Gen.NpClsMetrics Proofs.NpVecProofs Proofs.NpModularityProofs
  Proofs.NpSecondaryProofs.
Set Warnings "-notation-overridden,-ambiguous-paths".
From Coq Require Import Reals Lra Lia String.
Local Open Scope R_scope.
Local Open Scope string_scope.

Definition env_cls (lt lp : list Z) : @venv R := ("labels_true", WLab lt) :: ("labels_pred", WLab lp) :: nil.

Definition zl (l : list Z) (p : nat) : Z := nth p l (-1)%Z.
(** a sample is counted when both its labels are non-negative *)
Definition cmask (lt lp : list Z) (p : nat) : bool := (0 <=? zl lt p)%Z && (0 <=? zl lp p)%Z.
Definition ncounted (lt lp : list Z) : nat := count_true (List.length lt) (cmask lt lp).
Definition b2r (b : bool) : R := if b then 1 else 0.
(** number of counted samples with true label i and predicted label j *)
Definition cnt (lt lp : list Z) (i j : nat) : R :=
  lsum (seq 0 (List.length lt)) (fun p => b2r (cmask lt lp p && ((zl lt p =? Z.of_nat i)%Z && (zl lp p =? Z.of_nat j)%Z))).
Definition agree (lt lp : list Z) : R :=
  lsum (seq 0 (List.length lt)) (fun p => b2r (cmask lt lp p && (zl lt p =? zl lp p)%Z)).
Definition klab (lt lp : list Z) : nat := nlab2 lt lp.

(* ------------------------------------------------------------------------------------------- *)
(** * Sums over filtered index lists *)
Lemma lsum_map (l : list nat) (h : nat -> nat) (g : nat -> R) : lsum (map h l) g = lsum l (fun p => g (h p)).
Proof. unfold lsum. rewrite map_map. reflexivity. Qed.

Lemma lsum_cons a (l : list nat) (g : nat -> R) : lsum (a :: l) g = g a + lsum l g.
Proof. reflexivity. Qed.

Lemma lsum_index (L : list nat) (d : nat) (g : nat -> R) :
  lsum (seq 0 (List.length L)) (fun q => g (nth q L d)) = lsum L g.
Proof.
  induction L as [|a t IH]; [reflexivity|].
  cbn [List.length]. rewrite <- cons_seq, <- seq_shift, lsum_cons, lsum_map, lsum_cons. cbn [nth]. rewrite IH. reflexivity.
Qed.

Lemma lsum_filter (b : nat -> bool) (l : list nat) (g : nat -> R) :
  lsum (filter b l) g = lsum l (fun p => if b p then g p else 0).
Proof.
  induction l as [|a t IH]; [reflexivity|]. cbn [filter]. rewrite lsum_cons. destruct (b a).
  - rewrite lsum_cons, IH. reflexivity.
  - rewrite IH. lra.
Qed.

Lemma length_mask_filter l n b : List.length (mask_filter l n b) = count_true n b.
Proof. unfold mask_filter, count_true. apply map_length. Qed.

Lemma nth_mask_filter l n b q :
  nth q (mask_filter l n b) (-1)%Z = zl l (nth q (filter b (seq 0 n)) (List.length l)).
Proof.
  unfold mask_filter, zl.
  set (f := fun p => nth p l (-1)%Z). set (F := filter b (seq 0 n)).
  assert (Hd : f (List.length l) = (-1)%Z) by (unfold f; apply nth_overflow; apply le_n).
  change (nth q (map f F) (-1)%Z = f (nth q F (List.length l))).
  rewrite <- Hd at 1. apply map_nth.
Qed.

Lemma INR_count_true n b : INR (count_true n b) = lsum (seq 0 n) (fun p => b2r (b p)).
Proof.
  unfold count_true. induction (seq 0 n) as [|a t IH]; [reflexivity|].
  cbn [filter]. rewrite lsum_cons. destruct (b a); cbn [b2r].
  - cbn [List.length]. rewrite S_INR, IH. lra.
  - rewrite IH. lra.
Qed.

(** a sum over the counted samples, indexed by their rank among the counted samples = the masked sum over all samples *)
Lemma counted_sum (lt lp : list Z) (G : nat -> R) :
  lsum (seq 0 (ncounted lt lp)) (fun q => G (nth q (filter (cmask lt lp) (seq 0 (List.length lt))) (List.length lt)))
  = lsum (seq 0 (List.length lt)) (fun p => if cmask lt lp p then G p else 0).
Proof. unfold ncounted, count_true. rewrite lsum_index. apply lsum_filter. Qed.

Lemma b2r_and a b : b2r (a && b) = if a then b2r b else 0.
Proof. destruct a; reflexivity. Qed.
Lemma b2r_nonneg b : 0 <= b2r b. Proof. destruct b; cbn; lra. Qed.

(* ------------------------------------------------------------------------------------------- *)
(** * Labels of counted samples are below K *)
Lemma counted_below (lt lp : list Z) (p : nat) :
  List.length lp = List.length lt -> (p < List.length lt)%nat -> cmask lt lp p = true ->
  (0 <= zl lt p)%Z /\ (0 <= zl lp p)%Z /\ (Z.to_nat (zl lt p) < klab lt lp)%nat /\ (Z.to_nat (zl lp p) < klab lt lp)%nat.
Proof.
  intros Hlen Hp Hm. unfold cmask in Hm. apply andb_prop in Hm. destruct Hm as [H1 H2].
  apply Z.leb_le in H1. apply Z.leb_le in H2.
  assert (zl lt p <= fold_right Z.max (-1) lt)%Z by (apply max_ge; unfold zl; apply nth_In; exact Hp).
  assert (zl lp p <= fold_right Z.max (-1) lp)%Z by (apply max_ge; unfold zl; apply nth_In; rewrite Hlen; exact Hp).
  unfold klab, nlab2. repeat split; lia.
Qed.

Lemma cnt_nonneg lt lp i j : 0 <= cnt lt lp i j.
Proof. unfold cnt. apply lsum_nonneg. intros p _. apply b2r_nonneg. Qed.

(** sum over the predicted label of the counted indicator *)
Lemma pick_label (K : nat) (z : Z) (g : nat -> R) : (0 <= z)%Z -> (Z.to_nat z < K)%nat ->
  lsum (seq 0 K) (fun c => b2r (z =? Z.of_nat c)%Z * g c) = g (Z.to_nat z).
Proof.
  intros Hz Hb.
  rewrite (lsum_ext _ _ (fun c => (if Nat.eqb (Z.to_nat z) c then 1 else 0) * g c)).
  - apply lsum_pick; [apply seq_NoDup | apply in_seq0; exact Hb].
  - intros c _. destruct (Z.eqb_spec z (Z.of_nat c)) as [E|E]; destruct (Nat.eqb_spec (Z.to_nat z) c) as [E'|E'];
      cbn [b2r]; try reflexivity; exfalso; lia.
Qed.

(** row sums, column sums, trace and total of the count matrix *)
Definition row_total (lt lp : list Z) (i : nat) : R := lsum (seq 0 (klab lt lp)) (fun j => cnt lt lp i j).
Definition col_total (lt lp : list Z) (j : nat) : R := lsum (seq 0 (klab lt lp)) (fun i => cnt lt lp i j).

Lemma row_total_eq lt lp i : List.length lp = List.length lt ->
  row_total lt lp i = lsum (seq 0 (List.length lt)) (fun p => b2r (cmask lt lp p && (zl lt p =? Z.of_nat i)%Z)).
Proof.
  intros Hlen. unfold row_total, cnt. rewrite lsum_swap. apply lsum_ext. intros p Hp. apply in_seq0 in Hp.
  rewrite b2r_and. destruct (cmask lt lp p) eqn:Hm.
  - destruct (counted_below lt lp p Hlen Hp Hm) as (_ & H2 & _ & H4).
    rewrite (lsum_ext _ _ (fun c => b2r (zl lp p =? Z.of_nat c)%Z * b2r (zl lt p =? Z.of_nat i)%Z)).
    + rewrite (pick_label (klab lt lp) (zl lp p) (fun _ => b2r (zl lt p =? Z.of_nat i)%Z) H2 H4). reflexivity.
    + intros c _. cbn [andb]. rewrite b2r_and. destruct (zl lt p =? Z.of_nat i)%Z, (zl lp p =? Z.of_nat c)%Z; cbn [b2r]; lra.
  - apply lsum_zero. intros c _. reflexivity.
Qed.

Lemma col_total_eq lt lp j : List.length lp = List.length lt ->
  col_total lt lp j = lsum (seq 0 (List.length lt)) (fun p => b2r (cmask lt lp p && (zl lp p =? Z.of_nat j)%Z)).
Proof.
  intros Hlen. unfold col_total, cnt. rewrite lsum_swap. apply lsum_ext. intros p Hp. apply in_seq0 in Hp.
  rewrite b2r_and. destruct (cmask lt lp p) eqn:Hm.
  - destruct (counted_below lt lp p Hlen Hp Hm) as (H1 & _ & H3 & _).
    rewrite (lsum_ext _ _ (fun c => b2r (zl lt p =? Z.of_nat c)%Z * b2r (zl lp p =? Z.of_nat j)%Z)).
    + rewrite (pick_label (klab lt lp) (zl lt p) (fun _ => b2r (zl lp p =? Z.of_nat j)%Z) H1 H3). reflexivity.
    + intros c _. cbn [andb]. rewrite b2r_and. destruct (zl lt p =? Z.of_nat c)%Z, (zl lp p =? Z.of_nat j)%Z; cbn [b2r]; lra.
  - apply lsum_zero. intros c _. reflexivity.
Qed.

Lemma total_eq lt lp : List.length lp = List.length lt ->
  lsum (seq 0 (klab lt lp)) (row_total lt lp) = INR (ncounted lt lp).
Proof.
  intros Hlen. unfold ncounted. rewrite INR_count_true.
  rewrite (lsum_ext _ _ (fun i => lsum (seq 0 (List.length lt)) (fun p => b2r (cmask lt lp p && (zl lt p =? Z.of_nat i)%Z))))
    by (intros i _; apply row_total_eq; exact Hlen).
  rewrite lsum_swap. apply lsum_ext. intros p Hp. apply in_seq0 in Hp.
  destruct (cmask lt lp p) eqn:Hm.
  - destruct (counted_below lt lp p Hlen Hp Hm) as (H1 & _ & H3 & _).
    rewrite (lsum_ext _ _ (fun c => b2r (zl lt p =? Z.of_nat c)%Z * 1)) by (intros c _; cbn [andb]; lra).
    rewrite (pick_label (klab lt lp) (zl lt p) (fun _ => 1) H1 H3). reflexivity.
  - apply lsum_zero. intros c _. reflexivity.
Qed.

Lemma trace_eq lt lp : List.length lp = List.length lt ->
  lsum (seq 0 (klab lt lp)) (fun k => cnt lt lp k k) = agree lt lp.
Proof.
  intros Hlen. unfold cnt, agree. rewrite lsum_swap. apply lsum_ext. intros p Hp. apply in_seq0 in Hp.
  rewrite b2r_and. destruct (cmask lt lp p) eqn:Hm.
  - destruct (counted_below lt lp p Hlen Hp Hm) as (H1 & _ & H3 & _).
    rewrite (lsum_ext _ _ (fun c => b2r (zl lt p =? Z.of_nat c)%Z * b2r (zl lp p =? Z.of_nat c)%Z))
      by (intros c _; cbn [andb]; rewrite b2r_and; destruct (zl lt p =? Z.of_nat c)%Z; cbn [b2r]; lra).
    rewrite (pick_label (klab lt lp) (zl lt p) (fun c => b2r (zl lp p =? Z.of_nat c)%Z) H1 H3).
    rewrite Z2Nat.id by exact H1. rewrite Z.eqb_sym. reflexivity.
  - apply lsum_zero. intros c _. reflexivity.
Qed.

(* ------------------------------------------------------------------------------------------- *)
(** * get_confusion_matrix *)
Lemma coo_entry lt lp i j : List.length lp = List.length lt ->
  vsum Rplus 0 (count_true (List.length lt) (cmask lt lp))
    (fun p => if ((nth p (mask_filter lt (List.length lt) (cmask lt lp)) (-1) =? Z.of_nat i)%Z &&
                  (nth p (mask_filter lp (List.length lt) (cmask lt lp)) (-1) =? Z.of_nat j)%Z)%bool then 1 else 0)
  = cnt lt lp i j.
Proof.
  intros Hlen.
  change (lsum (seq 0 (ncounted lt lp))
            (fun p => if ((nth p (mask_filter lt (List.length lt) (cmask lt lp)) (-1) =? Z.of_nat i)%Z &&
                          (nth p (mask_filter lp (List.length lt) (cmask lt lp)) (-1) =? Z.of_nat j)%Z)%bool then 1 else 0)
          = cnt lt lp i j).
  set (G := fun p => b2r ((zl lt p =? Z.of_nat i)%Z && (zl lp p =? Z.of_nat j)%Z)).
  rewrite (lsum_ext _ _ (fun q => G (nth q (filter (cmask lt lp) (seq 0 (List.length lt))) (List.length lt)))).
  - rewrite (counted_sum lt lp G). unfold cnt, G. apply lsum_ext. intros p _. destruct (cmask lt lp p); reflexivity.
  - intros q _. rewrite !nth_mask_filter. rewrite Hlen. reflexivity.
Qed.

Definition has_counted (lt lp : list Z) : Prop := ncounted lt lp <> O.

Theorem source_cls_confusion lt lp :
  List.length lp = List.length lt -> has_counted lt lp ->
  exists f, rvdenote (env_cls lt lp) src_cls_confusion = Some (WM (klab lt lp) (klab lt lp) f) /\
    (forall i j, f i j = cnt lt lp i j) /\
    lsum (seq 0 (klab lt lp)) (fun i => lsum (seq 0 (klab lt lp)) (f i)) = INR (ncounted lt lp).
Proof.
  intros Hlen Hc. eexists. split; [|split].
  - unfold rvdenote, env_cls, src_cls_confusion. repeat (cbn; rewrite ?Nat.eqb_refl, ?Hlen).
    rewrite !length_mask_filter, !Nat.eqb_refl. cbn [andb].
    match goal with |- (if (?c =? 0)%nat then _ else _) = _ => destruct (Nat.eqb_spec c 0) as [E|_]; [exfalso; exact (Hc E)|] end.
    reflexivity.
  - intros i j. cbv beta. apply coo_entry. exact Hlen.
  - cbv beta. rewrite <- (total_eq lt lp Hlen). apply lsum_ext. intros i _. unfold row_total. apply lsum_ext. intros j _.
    apply coo_entry. exact Hlen.
Qed.

Theorem source_cls_confusion_none lt lp :
  List.length lp = List.length lt -> ncounted lt lp = O -> rvdenote (env_cls lt lp) src_cls_confusion = None.
Proof.
  intros Hlen Hc. unfold rvdenote, env_cls, src_cls_confusion. repeat (cbn; rewrite ?Nat.eqb_refl, ?Hlen).
  match goal with |- (if (?c =? 0)%nat then _ else _) = _ => change c with (ncounted lt lp) end.
  rewrite Hc. reflexivity.
Qed.

(* ------------------------------------------------------------------------------------------- *)
(** * get_accuracy_score *)
Theorem source_cls_accuracy lt lp :
  List.length lp = List.length lt -> has_counted lt lp ->
  exists x, rvdenote (env_cls lt lp) src_cls_accuracy = Some (WS x) /\
    x = agree lt lp / INR (ncounted lt lp) /\
    x = lsum (seq 0 (klab lt lp)) (fun k => cnt lt lp k k) / lsum (seq 0 (klab lt lp)) (row_total lt lp) /\
    rvdenote (env_cls lt lp) src_cls_micro = Some (WS x).
Proof.
  intros Hlen Hc. eexists. split; [|split; [|split]].
  - unfold rvdenote, env_cls, src_cls_accuracy. repeat (cbn; rewrite ?Nat.eqb_refl, ?Hlen).
    rewrite !length_mask_filter, !Nat.eqb_refl.
    match goal with |- (if (?c =? 0)%nat then _ else _) = _ => destruct (Nat.eqb_spec c 0) as [E|_]; [exfalso; exact (Hc E)|] end.
    reflexivity.
  - rewrite INR_count_true. f_equal.
    set (G := fun p => b2r (zl lt p =? zl lp p)%Z).
    change (count_true (List.length lt) (fun i => ((0 <=? nth i lt (-1))%Z && (0 <=? nth i lp (-1))%Z)%bool)) with (ncounted lt lp).
    rewrite (lsum_ext _ _ (fun q => G (nth q (filter (cmask lt lp) (seq 0 (List.length lt))) (List.length lt)))).
    + rewrite (counted_sum lt lp G). unfold agree, G. apply lsum_ext. intros p _. destruct (cmask lt lp p); reflexivity.
    + intros q _.
      change (fun i => ((0 <=? nth i lt (-1))%Z && (0 <=? nth i lp (-1))%Z)%bool) with (cmask lt lp).
      rewrite !nth_mask_filter. rewrite Hlen. reflexivity.
  - rewrite trace_eq, total_eq by exact Hlen. rewrite INR_count_true. f_equal.
    set (G := fun p => b2r (zl lt p =? zl lp p)%Z).
    change (count_true (List.length lt) (fun i => ((0 <=? nth i lt (-1))%Z && (0 <=? nth i lp (-1))%Z)%bool)) with (ncounted lt lp).
    rewrite (lsum_ext _ _ (fun q => G (nth q (filter (cmask lt lp) (seq 0 (List.length lt))) (List.length lt)))).
    + rewrite (counted_sum lt lp G). unfold agree, G. apply lsum_ext. intros p _. destruct (cmask lt lp p); reflexivity.
    + intros q _.
      change (fun i => ((0 <=? nth i lt (-1))%Z && (0 <=? nth i lp (-1))%Z)%bool) with (cmask lt lp).
      rewrite !nth_mask_filter. rewrite Hlen. reflexivity.
  - unfold rvdenote, env_cls, src_cls_micro. repeat (cbn; rewrite ?Nat.eqb_refl, ?Hlen).
    rewrite !length_mask_filter, !Nat.eqb_refl.
    match goal with |- (if (?c =? 0)%nat then _ else _) = _ => destruct (Nat.eqb_spec c 0) as [E|_]; [exfalso; exact (Hc E)|] end.
    reflexivity.
Qed.

Theorem source_cls_accuracy_none lt lp :
  List.length lp = List.length lt -> ncounted lt lp = O -> rvdenote (env_cls lt lp) src_cls_accuracy = None.
Proof.
  intros Hlen Hc. unfold rvdenote, env_cls, src_cls_accuracy. repeat (cbn; rewrite ?Nat.eqb_refl, ?Hlen).
  match goal with |- (if (?c =? 0)%nat then _ else _) = _ => change c with (ncounted lt lp) end.
  rewrite Hc. reflexivity.
Qed.

(* ------------------------------------------------------------------------------------------- *)
(** * get_f1_scores *)
Definition pos_div (tp d : R) : R := if Rlt_dec 0 d then tp / d else 0.
Definition f1_def (tp row col : R) : R := if Rlt_dec 0 tp then 2 * tp / (row + col) else 0.

Lemma lsum_ge_term (l : list nat) (g : nat -> R) (k : nat) :
  In k l -> (forall j, In j l -> 0 <= g j) -> g k <= lsum l g.
Proof.
  induction l as [|a t IH]; intros Hin Hnn; [destruct Hin|]. rewrite lsum_cons.
  assert (0 <= lsum t g) by (apply lsum_nonneg; intros j Hj; apply Hnn; right; exact Hj).
  destruct Hin as [->|Hin].
  - lra.
  - assert (0 <= g a) by (apply Hnn; left; reflexivity).
    assert (g k <= lsum t g) by (apply IH; [exact Hin | intros j Hj; apply Hnn; right; exact Hj]). lra.
Qed.

Lemma rlit2_2 : rlit2 2 0 = 2. Proof. unfold rlit2. cbn. lra. Qed.

Lemma recall_code tp row : (if negb (Rleb row 0) then tp / row else 0) = pos_div tp row.
Proof. unfold pos_div, Rleb. destruct (Rle_dec row 0), (Rlt_dec 0 row); cbn [negb]; try reflexivity; exfalso; lra. Qed.

Lemma pos_div_pos tp d : 0 < tp -> tp <= d -> 0 < pos_div tp d.
Proof.
  intros Ht Hd. unfold pos_div. destruct (Rlt_dec 0 d); [|exfalso; lra]. apply Rdiv_lt_0_compat; lra.
Qed.
Lemma pos_div_zero d : pos_div 0 d = 0.
Proof. unfold pos_div. destruct (Rlt_dec 0 d); [unfold Rdiv; lra | reflexivity]. Qed.

Lemma f1_code tp row col : 0 <= tp -> tp <= row -> tp <= col ->
  (if negb (Rleb (pos_div tp col) 0) && negb (Rleb (pos_div tp row) 0)
   then rlit2 2 0 / (rlit2 1 0 / pos_div tp col + rlit2 1 0 / pos_div tp row) else 0) = f1_def tp row col.
Proof.
  intros H0 Hr Hc. unfold f1_def. destruct (Rlt_dec 0 tp) as [Hp|Hz].
  - pose proof (pos_div_pos tp col Hp Hc) as Pc. pose proof (pos_div_pos tp row Hp Hr) as Pr.
    unfold Rleb. destruct (Rle_dec (pos_div tp col) 0); [exfalso; lra|]. destruct (Rle_dec (pos_div tp row) 0); [exfalso; lra|].
    cbn [negb andb]. rewrite rlit2_2, rlit2_1. unfold pos_div in *.
    destruct (Rlt_dec 0 col); [|exfalso; lra]. destruct (Rlt_dec 0 row); [|exfalso; lra]. field. lra.
  - assert (tp = 0) by lra. subst tp. rewrite !pos_div_zero. unfold Rleb. destruct (Rle_dec 0 0); [reflexivity | exfalso; lra].
Qed.

Lemma rv_let r x a b :
  rvdenote r (XLet x a b) = match rvdenote r a with Some va => rvdenote ((x, va) :: r) b | None => None end.
Proof. reflexivity. Qed.

Lemma row_sum_code lt lp f k : (forall i j, f i j = cnt lt lp i j) ->
  vsum Rplus 0 (klab lt lp) (fun j => f k j * 1) = row_total lt lp k.
Proof. intros Hpt. unfold row_total. apply lsum_ext. intros j _. rewrite Hpt. lra. Qed.
Lemma col_sum_code lt lp f k : (forall i j, f i j = cnt lt lp i j) ->
  vsum Rplus 0 (klab lt lp) (fun j => f j k * 1) = col_total lt lp k.
Proof. intros Hpt. unfold col_total. apply lsum_ext. intros j _. rewrite Hpt. lra. Qed.

Lemma tp_le_row lt lp k : (k < klab lt lp)%nat -> cnt lt lp k k <= row_total lt lp k.
Proof. intros Hk. unfold row_total. apply (lsum_ge_term _ (fun j => cnt lt lp k j)); [apply in_seq0; exact Hk | intros; apply cnt_nonneg]. Qed.
Lemma tp_le_col lt lp k : (k < klab lt lp)%nat -> cnt lt lp k k <= col_total lt lp k.
Proof. intros Hk. unfold col_total. apply (lsum_ge_term _ (fun i => cnt lt lp i k)); [apply in_seq0; exact Hk | intros; apply cnt_nonneg]. Qed.

Theorem source_cls_f1_scores lt lp :
  List.length lp = List.length lt -> has_counted lt lp ->
  exists F P Rc,
    rvdenote (env_cls lt lp) src_cls_f1 = Some (WV (klab lt lp) F) /\
    rvdenote (env_cls lt lp) src_cls_precisions = Some (WV (klab lt lp) P) /\
    rvdenote (env_cls lt lp) src_cls_recalls = Some (WV (klab lt lp) Rc) /\
    rvdenote (env_cls lt lp) src_cls_f1_only = Some (WV (klab lt lp) F) /\
    forall k, (k < klab lt lp)%nat ->
      Rc k = pos_div (cnt lt lp k k) (row_total lt lp k) /\
      P k = pos_div (cnt lt lp k k) (col_total lt lp k) /\
      F k = f1_def (cnt lt lp k k) (row_total lt lp k) (col_total lt lp k).
Proof.
  intros Hlen Hc. destruct (source_cls_confusion lt lp Hlen Hc) as (f & Hf & Hpt & _).
  do 3 eexists. split; [|split; [|split; [|split]]].
  - unfold src_cls_f1. rewrite rv_let. fold src_cls_confusion. rewrite Hf.
    unfold rvdenote, env_cls. repeat (cbn; rewrite ?Nat.eqb_refl, ?Nat.min_id). reflexivity.
  - unfold src_cls_precisions. rewrite rv_let. fold src_cls_confusion. rewrite Hf.
    unfold rvdenote, env_cls. repeat (cbn; rewrite ?Nat.eqb_refl, ?Nat.min_id). reflexivity.
  - unfold src_cls_recalls. rewrite rv_let. fold src_cls_confusion. rewrite Hf.
    unfold rvdenote, env_cls. repeat (cbn; rewrite ?Nat.eqb_refl, ?Nat.min_id). reflexivity.
  - unfold src_cls_f1_only. rewrite rv_let. fold src_cls_confusion. rewrite Hf.
    unfold rvdenote, env_cls. repeat (cbn; rewrite ?Nat.eqb_refl, ?Nat.min_id). reflexivity.
  - intros k Hk. cbv beta.
    rewrite !(row_sum_code lt lp f k Hpt), !(col_sum_code lt lp f k Hpt), !Hpt, !recall_code.
    split; [reflexivity | split; [reflexivity|]].
    apply f1_code; [apply cnt_nonneg | apply tp_le_row; exact Hk | apply tp_le_col; exact Hk].
Qed.

Theorem source_cls_f1_scores_none lt lp :
  List.length lp = List.length lt -> ncounted lt lp = O ->
  rvdenote (env_cls lt lp) src_cls_f1 = None /\ rvdenote (env_cls lt lp) src_cls_precisions = None /\
  rvdenote (env_cls lt lp) src_cls_recalls = None /\ rvdenote (env_cls lt lp) src_cls_f1_only = None /\
  rvdenote (env_cls lt lp) src_cls_macro = None /\ rvdenote (env_cls lt lp) src_cls_weighted = None.
Proof.
  intros Hlen Hc. pose proof (source_cls_confusion_none lt lp Hlen Hc) as Hn.
  repeat split.
  - unfold src_cls_f1. rewrite rv_let. fold src_cls_confusion. rewrite Hn. reflexivity.
  - unfold src_cls_precisions. rewrite rv_let. fold src_cls_confusion. rewrite Hn. reflexivity.
  - unfold src_cls_recalls. rewrite rv_let. fold src_cls_confusion. rewrite Hn. reflexivity.
  - unfold src_cls_f1_only. rewrite rv_let. fold src_cls_confusion. rewrite Hn. reflexivity.
  - unfold src_cls_macro. rewrite rv_let, rv_let. fold src_cls_confusion. rewrite Hn. reflexivity.
  - unfold src_cls_weighted. rewrite rv_let, rv_let. fold src_cls_confusion. rewrite Hn. reflexivity.
Qed.

(** macro average: the mean of the F1 vector over ALL K = max label + 1 labels *)
Theorem source_cls_macro lt lp :
  List.length lp = List.length lt -> has_counted lt lp ->
  exists x, rvdenote (env_cls lt lp) src_cls_macro = Some (WS x) /\
    x = lsum (seq 0 (klab lt lp)) (fun k => f1_def (cnt lt lp k k) (row_total lt lp k) (col_total lt lp k)) / INR (klab lt lp).
Proof.
  intros Hlen Hc. destruct (source_cls_f1_scores lt lp Hlen Hc) as (F & P & Rc & _ & _ & _ & HF & Hpt).
  eexists. split.
  - unfold src_cls_macro. rewrite rv_let. fold src_cls_f1_only. rewrite HF.
    unfold rvdenote. cbn. reflexivity.
  - f_equal. apply lsum_ext. intros k Hk. apply in_seq0 in Hk. exact (proj2 (proj2 (Hpt k Hk))).
Qed.

(* ------------------------------------------------------------------------------------------- *)
(** * get_average_f1_score(average='weighted'): the F1 of the true class averaged over the samples that have a true label *)
Definition tmask (lt : list Z) (p : nat) : bool := (0 <=? zl lt p)%Z.
Definition tlabels (lt : list Z) : list Z := mask_filter lt (List.length lt) (tmask lt).
Definition kt (lt : list Z) : nat := Z.to_nat (labmax (tlabels lt) + 1).

Lemma filter_map_comm {A B} (q : B -> bool) (h : A -> B) (l : list A) :
  filter q (map h l) = map h (filter (fun a => q (h a)) l).
Proof. induction l as [|a t IH]; [reflexivity|]. cbn. destruct (q (h a)); cbn; rewrite IH; reflexivity. Qed.

Lemma INR_length_filter (q : nat -> bool) (l : list nat) : INR (List.length (filter q l)) = lsum l (fun p => b2r (q p)).
Proof.
  induction l as [|a t IH]; [reflexivity|]. cbn [filter]. rewrite lsum_cons. destruct (q a); cbn [b2r].
  - cbn [List.length]. rewrite S_INR, IH. lra.
  - rewrite IH. lra.
Qed.

Lemma support_eq lt z :
  INR (lab_count (tlabels lt) z) = lsum (seq 0 (List.length lt)) (fun p => b2r (tmask lt p && (z =? zl lt p)%Z)).
Proof.
  unfold lab_count, tlabels, mask_filter. fold (zl lt).
  rewrite (filter_map_comm (Z.eqb z) (zl lt)), map_length, INR_length_filter, lsum_filter.
  apply lsum_ext. intros p _. destruct (tmask lt p); reflexivity.
Qed.

Lemma tlabel_below lt p : (p < List.length lt)%nat -> tmask lt p = true -> (0 <= zl lt p)%Z /\ (Z.to_nat (zl lt p) < kt lt)%nat.
Proof.
  intros Hp Hm. pose proof Hm as H0. unfold tmask in H0. apply Z.leb_le in H0. split; [exact H0|].
  assert (In (zl lt p) (tlabels lt)).
  { unfold tlabels, mask_filter. fold (zl lt). apply in_map. apply filter_In. split; [apply in_seq0; exact Hp | exact Hm]. }
  pose proof (max_ge (tlabels lt) (zl lt p) H) as Hle. unfold kt, labmax. lia.
Qed.

Lemma max_le_of_all (l : list Z) (M : Z) : (-1 <= M)%Z -> (forall x, In x l -> x <= M)%Z -> (fold_right Z.max (-1) l <= M)%Z.
Proof.
  intros HM. induction l as [|a t IH]; intros H; [exact HM|]. cbn [fold_right].
  apply Z.max_lub; [apply H; left; reflexivity | apply IH; intros x Hx; apply H; right; exact Hx].
Qed.

Lemma kt_le_klab lt lp : (kt lt <= klab lt lp)%nat.
Proof.
  unfold kt, klab, nlab2, labmax.
  assert (fold_right Z.max (-1) (tlabels lt) <= fold_right Z.max (-1) lt)%Z.
  { apply max_le_of_all.
    - clear. induction lt as [|a t IH]; [reflexivity|]. cbn [fold_right]. lia.
    - intros x Hx. unfold tlabels, mask_filter in Hx. apply in_map_iff in Hx. destruct Hx as (p & <- & Hp).
      apply filter_In in Hp. destruct Hp as [Hp _]. apply in_seq0 in Hp. apply max_ge. apply nth_In. exact Hp. }
  lia.
Qed.

(** the index list behind [lab_unique]: the labels c < kt with a non-null support, in increasing order *)
Definition uniq_nat (lt : list Z) : list nat :=
  filter (fun c => negb (lab_count (tlabels lt) (Z.of_nat c) =? 0)%nat) (seq 0 (kt lt)).
Lemma lab_unique_eq lt : lab_unique (tlabels lt) = map Z.of_nat (uniq_nat lt).
Proof.
  unfold lab_unique, uniq_nat, kt.
  exact (filter_map_comm (fun c => negb (lab_count (tlabels lt) c =? 0)%nat) Z.of_nat (seq 0 (Z.to_nat (labmax (tlabels lt) + 1)))).
Qed.

Lemma unique_sum lt (d : Z) (G : Z -> R) :
  lsum (seq 0 (List.length (lab_unique (tlabels lt)))) (fun i => G (nth i (lab_unique (tlabels lt)) d))
  = lsum (seq 0 (kt lt)) (fun c => if negb (lab_count (tlabels lt) (Z.of_nat c) =? 0)%nat then G (Z.of_nat c) else 0).
Proof.
  rewrite lab_unique_eq, map_length.
  rewrite (lsum_ext _ _ (fun i => (fun c => G (Z.of_nat c)) (nth i (uniq_nat lt) O))).
  - rewrite (lsum_index (uniq_nat lt) O (fun c => G (Z.of_nat c))). unfold uniq_nat. apply lsum_filter.
  - intros i Hi. apply in_seq0 in Hi. cbv beta. f_equal.
    rewrite (nth_indep _ d (Z.of_nat O)) by (rewrite map_length; exact Hi). apply map_nth.
Qed.

Lemma unique_in_range lt lp :
  forallb (fun z => (0 <=? z)%Z && (z <? Z.of_nat (klab lt lp))%Z) (lab_unique (tlabels lt)) = true.
Proof.
  apply forallb_forall. intros z Hz. rewrite lab_unique_eq in Hz. apply in_map_iff in Hz. destruct Hz as (c & <- & Hc).
  unfold uniq_nat in Hc. apply filter_In in Hc. destruct Hc as [Hc _]. apply in_seq0 in Hc.
  pose proof (kt_le_klab lt lp). apply andb_true_intro. split; [apply Z.leb_le | apply Z.ltb_lt]; lia.
Qed.

(** per-sample form of the two sums *)
Lemma weighted_num lt (F : nat -> R) :
  lsum (seq 0 (kt lt)) (fun c => if negb (lab_count (tlabels lt) (Z.of_nat c) =? 0)%nat
                                 then F (Z.to_nat (Z.of_nat c)) * INR (lab_count (tlabels lt) (Z.of_nat c)) else 0)
  = lsum (seq 0 (List.length lt)) (fun p => if tmask lt p then F (Z.to_nat (zl lt p)) else 0).
Proof.
  rewrite (lsum_ext _ _ (fun c => lsum (seq 0 (List.length lt)) (fun p => F c * b2r (tmask lt p && (Z.of_nat c =? zl lt p)%Z)))).
  - rewrite lsum_swap. apply lsum_ext. intros p Hp. apply in_seq0 in Hp. destruct (tmask lt p) eqn:Hm.
    + destruct (tlabel_below lt p Hp Hm) as [H0 Hb].
      rewrite (lsum_ext _ _ (fun c => b2r (zl lt p =? Z.of_nat c)%Z * F c))
        by (intros c _; cbn [andb]; rewrite Z.eqb_sym; lra).
      apply (pick_label (kt lt) (zl lt p) F H0 Hb).
    + apply lsum_zero. intros c _. cbn [andb b2r]. lra.
  - intros c _. rewrite Nat2Z.id, lsum_scale, <- support_eq.
    destruct (Nat.eqb_spec (lab_count (tlabels lt) (Z.of_nat c)) 0) as [E|_]; cbn [negb]; [rewrite E; cbn; lra | reflexivity].
Qed.

Lemma weighted_den lt :
  lsum (seq 0 (kt lt)) (fun c => if negb (lab_count (tlabels lt) (Z.of_nat c) =? 0)%nat
                                 then INR (lab_count (tlabels lt) (Z.of_nat c)) else 0)
  = lsum (seq 0 (List.length lt)) (fun p => b2r (tmask lt p)).
Proof.
  pose proof (weighted_num lt (fun _ => 1)) as H.
  rewrite (lsum_ext _ _ (fun c => if negb (lab_count (tlabels lt) (Z.of_nat c) =? 0)%nat
                                  then 1 * INR (lab_count (tlabels lt) (Z.of_nat c)) else 0))
    by (intros c _; destruct (negb _); lra).
  rewrite H. apply lsum_ext. intros p _. destruct (tmask lt p); reflexivity.
Qed.

Theorem source_cls_weighted lt lp :
  List.length lp = List.length lt -> has_counted lt lp ->
  exists x, rvdenote (env_cls lt lp) src_cls_weighted = Some (WS x) /\
    x = lsum (seq 0 (List.length lt))
          (fun p => if tmask lt p
                    then f1_def (cnt lt lp (Z.to_nat (zl lt p)) (Z.to_nat (zl lt p))) (row_total lt lp (Z.to_nat (zl lt p)))
                                (col_total lt lp (Z.to_nat (zl lt p)))
                    else 0)
        / lsum (seq 0 (List.length lt)) (fun p => b2r (tmask lt p)).
Proof.
  intros Hlen Hc. destruct (source_cls_f1_scores lt lp Hlen Hc) as (F & P & Rc & _ & _ & _ & HF & Hpt).
  eexists. split.
  - unfold src_cls_weighted. rewrite rv_let. fold src_cls_f1_only. rewrite HF.
    unfold rvdenote, env_cls. repeat (cbn; rewrite ?Nat.eqb_refl, ?Nat.min_id).
    change (mask_filter lt (List.length lt) (fun i => (0 <=? nth i lt (-1))%Z)) with (tlabels lt).
    rewrite (unique_in_range lt lp). repeat (cbn; rewrite ?Nat.eqb_refl). reflexivity.
  - change (mask_filter lt (List.length lt) (fun i => (0 <=? nth i lt (-1))%Z)) with (tlabels lt).
    f_equal.
    + change (vsum Rplus 0 ?n ?f) with (lsum (seq 0 n) f).
      rewrite (lsum_ext _ _ (fun i => (fun z => F (Z.to_nat z) * INR (lab_count (tlabels lt) z)) (nth i (lab_unique (tlabels lt)) 0%Z))).
      * rewrite (unique_sum lt 0%Z (fun z => F (Z.to_nat z) * INR (lab_count (tlabels lt) z))).
        rewrite (weighted_num lt F). apply lsum_ext. intros p Hp. apply in_seq0 in Hp. destruct (tmask lt p) eqn:Hm; [|reflexivity].
        destruct (tlabel_below lt p Hp Hm) as [_ Hb]. pose proof (kt_le_klab lt lp).
        apply (proj2 (proj2 (Hpt (Z.to_nat (zl lt p)) ltac:(lia)))).
      * intros i Hi. apply in_seq0 in Hi. cbv beta. f_equal. f_equal. f_equal. apply nth_indep. exact Hi.
    + change (vsum Rplus 0 ?n ?f) with (lsum (seq 0 n) f).
      rewrite (unique_sum lt (-1)%Z (fun z => INR (lab_count (tlabels lt) z))). apply weighted_den.
Qed.

(** Property C07: [get_dendrogram] (sknetwork/hierarchy/postprocess.py) turns a well-formed tree into a valid
    dendrogram whose heights never decrease from a child merge to its parent merge; the code before fix fb47193f
    does not; the height shift of LouvainHierarchy.fit / LouvainIteration.fit keeps validity.

    Route: the rows are produced in creation order, so the proof carries the dendrogram built so far ([D]) and
    shows that every row appended is "good" with respect to the rows before it ([row_good]: children are older
    ids, the size column adds up, the child merges are not higher).  These facts only look backwards, hence are
    stable when further rows are appended.  Each call also reports which ids it consumed as children: a
    permutation of the leaves of the sub-tree and of the ids it created, except the root label.  At top level
    this gives the static characterisation [wf_dend] of Proofs/HierarchyBase.v, hence [valid]. *)
From Coq Require Import Permutation Lia QArith Lqa.
From SKN Require Import Base.Util Model.Dendrogram Model.Cuts Model.Hierarchy Proofs.CutsProofs Proofs.HierarchyBase.
Set Warnings "-deprecated".

(** a well-formed tree over the leaves 0..n-1: every list has >= 2 elements, each leaf exactly once, not a bare leaf *)
Definition tree_ok (n : nat) (t : ptree) : Prop :=
  tree_shape t = true /\ Permutation (tleaves t) (seq 0 n) /\ (exists ts, t = PNode ts).

(** * Induction principle for the nested type *)
Lemma ptree_ind2 (P : ptree -> Prop) :
  (forall i, P (PLeaf i)) -> (forall ts, Forall P ts -> P (PNode ts)) -> forall t, P t.
Proof.
  intros Hleaf Hnode. fix IH 1. intros [i|ts].
  - apply Hleaf.
  - apply Hnode. induction ts as [|c cs IHcs]; constructor; [apply IH | exact IHcs].
Qed.

(** * Permutations by counting *)
Definition cnt (l : list nat) (x : nat) : nat := count_occ Nat.eq_dec l x.

Lemma perm_cnt l1 l2 : Permutation l1 l2 <-> (forall x, cnt l1 x = cnt l2 x).
Proof. apply Permutation_count_occ. Qed.

Lemma cnt_app l1 l2 x : cnt (l1 ++ l2) x = cnt l1 x + cnt l2 x.
Proof. apply count_occ_app. Qed.

Lemma cnt_cons a l x : cnt (a :: l) x = cnt [a] x + cnt l x.
Proof. unfold cnt. simpl. destruct (Nat.eq_dec a x); lia. Qed.

Lemma cnt_nil x : cnt [] x = 0.
Proof. reflexivity. Qed.

Lemma cnt_seq_S s len x : cnt (seq s (S len)) x = cnt [s] x + cnt (seq (S s) len) x.
Proof. cbn [seq]. apply cnt_cons. Qed.

(** * gd on a node is gd_list on the children followed by "merge all" *)
Lemma gd_node legacy ts depth st :
  gd legacy (PNode ts) depth st =
  match gd_list legacy ts (S depth) st with
  | Err e => Err e
  | Ok (rows, labels, (index, sz)) =>
      match merge_all legacy (inject_Z (- Z.of_nat depth)) labels sz index with
      | Some (rows', index', sz') => Ok (rows ++ rows', index', (index', sz'))
      | None => Err ValueError
      end
  end.
Proof.
  cbn [gd].
  match goal with |- match ?g ts st with _ => _ end = _ =>
    assert (E : forall l s, g l s = gd_list legacy l (S depth) s) end.
  { induction l as [|c cs IHl]; intros s; [reflexivity|].
    cbn [gd_list]. destruct (gd legacy c (S depth) s) as [[[r1 l1] st1]|e]; [|reflexivity].
    rewrite IHl. reflexivity. }
  rewrite E. reflexivity.
Qed.

(** * Rows that are good with respect to the rows before them *)
Definition row_good (n : nat) (D : dendrogram) (t : nat) (r : drow) : Prop :=
  r_left r < n + t /\ r_right r < n + t /\
  r_size r = csize n D (r_left r) + csize n D (r_right r) /\
  child_height_ok n D (r_height r) (r_left r) = true /\
  child_height_ok n D (r_height r) (r_right r) = true.

Definition all_good (n : nat) (D : dendrogram) : Prop :=
  forall t r, nth_error D t = Some r -> row_good n D t r.

Lemma cho_app n D1 D2 h c : c < n + length D1 ->
  child_height_ok n (D1 ++ D2) h c = child_height_ok n D1 h c.
Proof.
  intros H. unfold child_height_ok. destruct (Nat.ltb c n) eqn:E; [reflexivity|]. apply Nat.ltb_ge in E.
  rewrite nth_error_app1 by lia. reflexivity.
Qed.

Lemma cho_mono n D h h' c : (h <= h')%Q -> child_height_ok n D h c = true -> child_height_ok n D h' c = true.
Proof.
  intros Hh. unfold child_height_ok. destruct (Nat.ltb c n); [trivial|].
  destruct (nth_error D (c - n)) as [r|]; [|trivial].
  rewrite !Qle_bool_iff. intros H. lra.
Qed.

Lemma row_good_app n D1 D2 t r : t <= length D1 -> row_good n D1 t r -> row_good n (D1 ++ D2) t r.
Proof.
  intros Ht (Hl & Hr & Hs & Hhl & Hhr). unfold row_good.
  rewrite !csize_app, !cho_app by lia. repeat split; assumption.
Qed.

(** A child candidate [c] for a new row at height [h]: an existing id, of size [s], whose merge is not higher. *)
Definition cl_ok (n : nat) (D : dendrogram) (h : Q) (c s : nat) : Prop :=
  c < n + length D /\ csize n D c = s /\ child_height_ok n D h c = true.

Lemma cl_ok_app n D1 D2 h c s : cl_ok n D1 h c s -> cl_ok n (D1 ++ D2) h c s.
Proof.
  intros (H1 & H2 & H3). unfold cl_ok. rewrite app_length, csize_app, cho_app by lia.
  repeat split; [lia | assumption | assumption].
Qed.

Lemma cl_ok_mono n D h h' c s : (h <= h')%Q -> cl_ok n D h c s -> cl_ok n D h' c s.
Proof. intros Hh (H1 & H2 & H3). repeat split; try assumption. now apply (cho_mono n D h h'). Qed.

Lemma all_good_snoc n D r : all_good n D -> row_good n D (length D) r -> all_good n (D ++ [r]).
Proof.
  intros Hg Hr t r' Ht.
  destruct (Nat.lt_ge_cases t (length D)) as [Hlt|Hge].
  - rewrite nth_error_app1 in Ht by assumption. apply row_good_app; [lia | now apply Hg].
  - assert (Hlen : t < length (D ++ [r])) by (apply nth_error_Some; congruence).
    rewrite app_length in Hlen. simpl in Hlen. assert (t = length D) by lia. subst t.
    rewrite nth_error_app2, Nat.sub_diag in Ht by lia. simpl in Ht. inversion Ht; subst r'.
    apply row_good_app; [lia | assumption].
Qed.

(** The id created by the last row of [D ++ [r]]. *)
Lemma cl_ok_last n D r : cl_ok n (D ++ [r]) (r_height r) (n + length D) (r_size r).
Proof.
  assert (Hn : nth_error (D ++ [r]) (length D) = Some r) by apply nth_error_app_length.
  unfold cl_ok. rewrite app_length. simpl. split; [lia|]. split.
  - now apply csize_node.
  - unfold child_height_ok. replace (Nat.ltb (n + length D) n) with false by (symmetry; apply Nat.ltb_ge; lia).
    replace (n + length D - n) with (length D) by lia. rewrite Hn. apply Qle_bool_iff. lra.
Qed.

(** * Counting, continued: normal form for permutation goals *)
Definition cnt1 (a x : nat) : nat := if Nat.eq_dec a x then 1 else 0.

Lemma cnt_cons1 a l x : cnt (a :: l) x = cnt1 a x + cnt l x.
Proof. unfold cnt, cnt1. simpl. destruct (Nat.eq_dec a x); lia. Qed.

Lemma cnt_rev l x : cnt (rev l) x = cnt l x.
Proof. apply perm_cnt. apply Permutation_sym, Permutation_rev. Qed.

Ltac splits := repeat match goal with |- _ /\ _ => split end.
Ltac cnt_norm := repeat (progress (rewrite ?cnt_app, ?cnt_cons1, ?cnt_nil in * )).

(** * The "merge all" branch *)
Definition lab_ok (n : nat) (D : dendrogram) (sz : sizes) (h : Q) (l : nat) : Prop :=
  cl_ok n D h l (size_get sz l).

Lemma lab_ok_app n D1 D2 sz h l : lab_ok n D1 sz h l -> lab_ok n (D1 ++ D2) sz h l.
Proof. apply cl_ok_app. Qed.

Lemma merge_rest_spec n h sz : forall ks D index s,
  index + 1 = n + length D -> all_good n D -> cl_ok n D h index s ->
  Forall (lab_ok n D sz h) ks ->
  exists R idx sf, merge_rest false h ks sz index s = (R, idx, sf) /\
    idx + 1 = n + length (D ++ R) /\ all_good n (D ++ R) /\ cl_ok n (D ++ R) h idx sf /\
    Permutation (flat_map children R ++ [idx]) (index :: ks ++ seq (S index) (length R)).
Proof.
  induction ks as [|k ks IH]; intros D index s Hidx Hg Hcl Hks.
  - exists [], index, s. rewrite app_nil_r. splits; try assumption; [reflexivity|]. simpl. apply Permutation_refl.
  - inversion Hks as [|? ? Hk Hks']; subst.
    set (r := (index, k, h, s + size_get sz k) : drow).
    assert (Hr : row_good n D (length D) r).
    { destruct Hcl as (Hc1 & Hc2 & Hc3). destruct Hk as (Hk1 & Hk2 & Hk3).
      unfold row_good, r, r_left, r_right, r_size, r_height. cbn [fst snd].
      splits; try assumption; lia. }
    assert (Hg1 := all_good_snoc n D r Hg Hr).
    assert (Hcl1 := cl_ok_last n D r).
    replace (n + length D) with (S index) in Hcl1 by lia.
    assert (Hks1 : Forall (lab_ok n (D ++ [r]) sz h) ks).
    { eapply Forall_impl; [|exact Hks']. intros a Ha. now apply lab_ok_app. }
    destruct (IH (D ++ [r]) (S index) (s + size_get sz k)) as (R & idx & sf & E & Hi & Hg' & Hcl' & Hp);
      try assumption.
    { rewrite app_length. simpl. lia. }
    exists (r :: R), idx, sf. cbn [merge_rest]. rewrite E.
    replace (D ++ r :: R) with ((D ++ [r]) ++ R) by (rewrite <- app_assoc; reflexivity).
    splits; try assumption.
    apply perm_cnt. intros x. rewrite perm_cnt in Hp. specialize (Hp x).
    cbn [flat_map children length]. rewrite cnt_seq_S. unfold r, r_left, r_right. cbn [fst snd].
    cnt_norm. lia.
Qed.

Lemma size_get_cons k v sz x : size_get ((k, v) :: sz) x = if Nat.eqb x k then v else size_get sz x.
Proof. unfold size_get. simpl. destruct (Nat.eqb x k); reflexivity. Qed.

Lemma merge_all_spec n h sz labels D index :
  index + 1 = n + length D -> all_good n D -> 2 <= length labels -> Forall (lab_ok n D sz h) labels ->
  exists R idx sf, merge_all false h labels sz index = Some (R, idx, (idx, sf) :: sz) /\
    idx + 1 = n + length (D ++ R) /\ length D < length (D ++ R) /\ all_good n (D ++ R) /\
    cl_ok n (D ++ R) h idx sf /\
    Permutation (flat_map children R ++ [idx]) (labels ++ seq (n + length D) (length R)).
Proof.
  intros Hidx Hg Hlen Hl. unfold merge_all.
  assert (Hrl := rev_length labels).
  assert (Hrf := Forall_rev Hl).
  assert (Hrc := fun x => cnt_rev labels x).
  destruct (rev labels) as [|i [|j rest]]; simpl in Hrl; try lia.
  inversion Hrf as [|? ? Hi Hrf1]; subst. inversion Hrf1 as [|? ? Hj Hrest]; subst.
  set (r := (i, j, h, size_get sz i + size_get sz j) : drow).
  assert (Hr : row_good n D (length D) r).
  { destruct Hi as (Hi1 & Hi2 & Hi3). destruct Hj as (Hj1 & Hj2 & Hj3).
    unfold row_good, r, r_left, r_right, r_size, r_height. cbn [fst snd].
    splits; try assumption; lia. }
  assert (Hg1 := all_good_snoc n D r Hg Hr).
  assert (Hcl1 := cl_ok_last n D r).
  replace (n + length D) with (S index) in Hcl1 by lia.
  assert (Hks1 : Forall (lab_ok n (D ++ [r]) sz h) rest).
  { eapply Forall_impl; [|exact Hrest]. intros a Ha. now apply lab_ok_app. }
  destruct (merge_rest_spec n h sz rest (D ++ [r]) (S index) (size_get sz i + size_get sz j))
    as (R & idx & sf & E & Hi' & Hg' & Hcl' & Hp); try assumption.
  { rewrite app_length. simpl. lia. }
  exists (r :: R), idx, sf. fold r. rewrite E.
  replace (D ++ r :: R) with ((D ++ [r]) ++ R) by (rewrite <- app_assoc; reflexivity).
  splits; try assumption.
  - rewrite !app_length. simpl. lia.
  - apply perm_cnt. intros x. rewrite perm_cnt in Hp. specialize (Hp x). specialize (Hrc x).
    cbn [flat_map children length]. rewrite cnt_seq_S. unfold r, r_left, r_right. cbn [fst snd].
    replace (S (n + length D)) with (S (S index)) by lia. replace (n + length D) with (S index) by lia.
    cnt_norm. lia.
Qed.

(** Property C07: [get_dendrogram] (sknetwork/hierarchy/postprocess.py) turns a well-formed tree into a valid
    dendrogram whose heights never decrease from a child merge to its parent merge; the code before fix fb47193f
    does not; the height shift of LouvainHierarchy.fit / LouvainIteration.fit keeps validity.

    Route: the rows are produced in creation order, so the proof carries the dendrogram built so far ([D]) and
    shows that every row appended is "good" with respect to the rows before it ([row_good]: children are older
    ids, the size column adds up, the child merges are not higher).  These facts only look backwards, hence are
    stable when further rows are appended.  Each call also reports which ids it consumed as children: a
    permutation of the leaves of the sub-tree and of the ids it created, except the root label.  At top level
    this gives the static characterisation [wf_dend] of Proofs/HierarchyBase.v, hence [valid]. *)
From Coq Require Import Permutation Lia QArith Lqa.
From SKN Require Import Base.Util Model.Dendrogram Model.Cuts Model.Hierarchy Proofs.DendroBase Proofs.HierarchyBase.
Set Warnings "-deprecated".

(** a well-formed tree over the leaves 0..n-1: every list has >= 2 elements, each leaf exactly once, not a bare leaf *)
Definition tree_ok (n : nat) (t : ptree) : Prop :=
  tree_shape t = true /\ Permutation (tleaves t) (seq 0 n) /\ (exists ts, t = PNode ts).

(** * Induction principle for the nested type *)
Lemma ptree_ind2 (P : ptree -> Prop) :
  (forall i, P (PLeaf i)) -> (forall ts, Forall P ts -> P (PNode ts)) -> forall t, P t.
Proof.
  intros Hleaf Hnode. fix IH 1. intros [i|ts].
  - apply Hleaf.
  - apply Hnode. induction ts as [|c cs IHcs]; constructor; [apply IH | exact IHcs].
Qed.

(** * Permutations by counting *)
Definition cnt (l : list nat) (x : nat) : nat := count_occ Nat.eq_dec l x.

Lemma perm_cnt l1 l2 : Permutation l1 l2 <-> (forall x, cnt l1 x = cnt l2 x).
Proof. apply Permutation_count_occ. Qed.

Lemma cnt_app l1 l2 x : cnt (l1 ++ l2) x = cnt l1 x + cnt l2 x.
Proof. apply count_occ_app. Qed.

Lemma cnt_cons a l x : cnt (a :: l) x = cnt [a] x + cnt l x.
Proof. unfold cnt. simpl. destruct (Nat.eq_dec a x); lia. Qed.

Lemma cnt_nil x : cnt [] x = 0.
Proof. reflexivity. Qed.


(** * gd on a node is gd_list on the children followed by "merge all" *)
Lemma gd_node legacy ts depth st :
  gd legacy (PNode ts) depth st =
  match gd_list legacy ts (S depth) st with
  | Err e => Err e
  | Ok (rows, labels, (index, sz)) =>
      match merge_all legacy (inject_Z (- Z.of_nat depth)) labels sz index with
      | Some (rows', index', sz') => Ok (rows ++ rows', index', (index', sz'))
      | None => Err ValueError
      end
  end.
Proof.
  cbn [gd].
  match goal with |- match ?g ts st with _ => _ end = _ =>
    assert (E : forall l s, g l s = gd_list legacy l (S depth) s) end.
  { induction l as [|c cs IHl]; intros s; [reflexivity|].
    cbn [gd_list]. destruct (gd legacy c (S depth) s) as [[[r1 l1] st1]|e]; [|reflexivity].
    rewrite IHl. reflexivity. }
  rewrite E. reflexivity.
Qed.

(** * Rows that are good with respect to the rows before them *)
Definition row_good (n : nat) (D : dendrogram) (t : nat) (r : drow) : Prop :=
  r_left r < n + t /\ r_right r < n + t /\
  r_size r = csize n D (r_left r) + csize n D (r_right r) /\
  child_height_ok n D (r_height r) (r_left r) = true /\
  child_height_ok n D (r_height r) (r_right r) = true.

Definition all_good (n : nat) (D : dendrogram) : Prop :=
  forall t r, nth_error D t = Some r -> row_good n D t r.

Lemma cho_app n D1 D2 h c : c < n + length D1 ->
  child_height_ok n (D1 ++ D2) h c = child_height_ok n D1 h c.
Proof.
  intros H. unfold child_height_ok. destruct (Nat.ltb c n) eqn:E; [reflexivity|]. apply Nat.ltb_ge in E.
  rewrite nth_error_app1 by lia. reflexivity.
Qed.

Lemma cho_mono n D h h' c : (h <= h')%Q -> child_height_ok n D h c = true -> child_height_ok n D h' c = true.
Proof.
  intros Hh. unfold child_height_ok. destruct (Nat.ltb c n); [trivial|].
  destruct (nth_error D (c - n)) as [r|]; [|trivial].
  rewrite !Qle_bool_iff. intros H. lra.
Qed.

Lemma row_good_app n D1 D2 t r : t <= length D1 -> row_good n D1 t r -> row_good n (D1 ++ D2) t r.
Proof.
  intros Ht (Hl & Hr & Hs & Hhl & Hhr). unfold row_good.
  rewrite !csize_app, !cho_app by lia. repeat split; assumption.
Qed.

(** A child candidate [c] for a new row at height [h]: an existing id, of size [s], whose merge is not higher. *)
Definition cl_ok (n : nat) (D : dendrogram) (h : Q) (c s : nat) : Prop :=
  c < n + length D /\ csize n D c = s /\ child_height_ok n D h c = true.

Lemma cl_ok_app n D1 D2 h c s : cl_ok n D1 h c s -> cl_ok n (D1 ++ D2) h c s.
Proof.
  intros (H1 & H2 & H3). unfold cl_ok. rewrite app_length, csize_app, cho_app by lia.
  repeat split; [lia | assumption | assumption].
Qed.

Lemma cl_ok_mono n D h h' c s : (h <= h')%Q -> cl_ok n D h c s -> cl_ok n D h' c s.
Proof. intros Hh (H1 & H2 & H3). repeat split; try assumption. now apply (cho_mono n D h h'). Qed.

Lemma all_good_snoc n D r : all_good n D -> row_good n D (length D) r -> all_good n (D ++ [r]).
Proof.
  intros Hg Hr t r' Ht.
  destruct (Nat.lt_ge_cases t (length D)) as [Hlt|Hge].
  - rewrite nth_error_app1 in Ht by assumption. apply row_good_app; [lia | now apply Hg].
  - assert (Hlen : t < length (D ++ [r])) by (apply nth_error_Some; congruence).
    rewrite app_length in Hlen. simpl in Hlen. assert (t = length D) by lia. subst t.
    rewrite nth_error_app2, Nat.sub_diag in Ht by lia. simpl in Ht. inversion Ht; subst r'.
    apply row_good_app; [lia | assumption].
Qed.

(** The id created by the last row of [D ++ [r]]. *)
Lemma cl_ok_last n D r : cl_ok n (D ++ [r]) (r_height r) (n + length D) (r_size r).
Proof.
  assert (Hn : nth_error (D ++ [r]) (length D) = Some r) by apply nth_error_app_length.
  unfold cl_ok. rewrite app_length. simpl. split; [lia|]. split.
  - now apply csize_node.
  - unfold child_height_ok. replace (Nat.ltb (n + length D) n) with false by (symmetry; apply Nat.ltb_ge; lia).
    replace (n + length D - n) with (length D) by lia. rewrite Hn. apply Qle_bool_iff. lra.
Qed.

(** * Counting, continued: normal form for permutation goals *)
Definition cnt1 (a x : nat) : nat := if Nat.eq_dec a x then 1 else 0.

Lemma cnt_cons1 a l x : cnt (a :: l) x = cnt1 a x + cnt l x.
Proof. unfold cnt, cnt1. simpl. destruct (Nat.eq_dec a x); lia. Qed.

Lemma cnt_rev l x : cnt (rev l) x = cnt l x.
Proof. apply perm_cnt. apply Permutation_sym, Permutation_rev. Qed.

Lemma cnt_seq_S s len x : cnt (seq s (S len)) x = cnt1 s x + cnt (seq (S s) len) x.
Proof. cbn [seq]. apply cnt_cons1. Qed.

Ltac splits := repeat match goal with |- _ /\ _ => split end.
Ltac cnt_norm := repeat (progress (rewrite ?cnt_app, ?cnt_cons1, ?cnt_nil in * )).

(** * The "merge all" branch *)
Definition lab_ok (n : nat) (D : dendrogram) (sz : sizes) (h : Q) (l : nat) : Prop :=
  cl_ok n D h l (size_get sz l).

Lemma lab_ok_app n D1 D2 sz h l : lab_ok n D1 sz h l -> lab_ok n (D1 ++ D2) sz h l.
Proof. apply cl_ok_app. Qed.

Lemma merge_rest_spec n h sz : forall ks D index s,
  index + 1 = n + length D -> all_good n D -> cl_ok n D h index s ->
  Forall (lab_ok n D sz h) ks ->
  exists R idx sf, merge_rest false h ks sz index s = (R, idx, sf) /\
    idx + 1 = n + length (D ++ R) /\ all_good n (D ++ R) /\ cl_ok n (D ++ R) h idx sf /\
    Permutation (flat_map children R ++ [idx]) (index :: ks ++ seq (S index) (length R)).
Proof.
  induction ks as [|k ks IH]; intros D index s Hidx Hg Hcl Hks.
  - exists [], index, s. rewrite app_nil_r. splits; try assumption; [reflexivity|]. simpl. apply Permutation_refl.
  - inversion Hks as [|? ? Hk Hks']; subst.
    set (r := (index, k, h, s + size_get sz k) : drow).
    assert (Hr : row_good n D (length D) r).
    { destruct Hcl as (Hc1 & Hc2 & Hc3). destruct Hk as (Hk1 & Hk2 & Hk3).
      unfold row_good, r, r_left, r_right, r_size, r_height. cbn [fst snd].
      splits; try assumption; lia. }
    assert (Hg1 := all_good_snoc n D r Hg Hr).
    assert (Hcl1 := cl_ok_last n D r).
    replace (n + length D) with (S index) in Hcl1 by lia.
    assert (Hks1 : Forall (lab_ok n (D ++ [r]) sz h) ks).
    { eapply Forall_impl; [|exact Hks']. intros a Ha. now apply lab_ok_app. }
    destruct (IH (D ++ [r]) (S index) (s + size_get sz k)) as (R & idx & sf & E & Hi & Hg' & Hcl' & Hp);
      try assumption.
    { rewrite app_length. simpl. lia. }
    exists (r :: R), idx, sf. cbn [merge_rest]. rewrite E.
    replace (D ++ r :: R) with ((D ++ [r]) ++ R) by (rewrite <- app_assoc; reflexivity).
    splits; try assumption; [reflexivity|].
    apply perm_cnt. intros x. rewrite perm_cnt in Hp. specialize (Hp x).
    cbn [flat_map length]. change (children r) with [index; k].
    cnt_norm. rewrite cnt_seq_S. lia.
Qed.

Lemma size_get_cons k v sz x : size_get ((k, v) :: sz) x = if Nat.eqb x k then v else size_get sz x.
Proof. unfold size_get. simpl. destruct (Nat.eqb x k); reflexivity. Qed.

Lemma merge_all_spec n h sz labels D index :
  index + 1 = n + length D -> all_good n D -> 2 <= length labels -> Forall (lab_ok n D sz h) labels ->
  exists R idx sf, merge_all false h labels sz index = Some (R, idx, (idx, sf) :: sz) /\
    idx + 1 = n + length (D ++ R) /\ length D < length (D ++ R) /\ all_good n (D ++ R) /\
    cl_ok n (D ++ R) h idx sf /\
    Permutation (flat_map children R ++ [idx]) (labels ++ seq (n + length D) (length R)).
Proof.
  intros Hidx Hg Hlen Hl. unfold merge_all.
  assert (Hrl := rev_length labels).
  assert (Hrf := Forall_rev Hl).
  assert (Hrc := fun x => cnt_rev labels x).
  destruct (rev labels) as [|i [|j rest]]; simpl in Hrl; try lia.
  inversion Hrf as [|? ? Hi Hrf1]; subst. inversion Hrf1 as [|? ? Hj Hrest]; subst.
  set (r := (i, j, h, size_get sz i + size_get sz j) : drow).
  assert (Hr : row_good n D (length D) r).
  { destruct Hi as (Hi1 & Hi2 & Hi3). destruct Hj as (Hj1 & Hj2 & Hj3).
    unfold row_good, r, r_left, r_right, r_size, r_height. cbn [fst snd].
    splits; try assumption; lia. }
  assert (Hg1 := all_good_snoc n D r Hg Hr).
  assert (Hcl1 := cl_ok_last n D r).
  replace (n + length D) with (S index) in Hcl1 by lia.
  assert (Hks1 : Forall (lab_ok n (D ++ [r]) sz h) rest).
  { eapply Forall_impl; [|exact Hrest]. intros a Ha. now apply lab_ok_app. }
  destruct (merge_rest_spec n h sz rest (D ++ [r]) (S index) (size_get sz i + size_get sz j))
    as (R & idx & sf & E & Hi' & Hg' & Hcl' & Hp); try assumption.
  { rewrite app_length. simpl. lia. }
  exists (r :: R), idx, sf. fold r. rewrite E.
  replace (D ++ r :: R) with ((D ++ [r]) ++ R) by (rewrite <- app_assoc; reflexivity).
  splits; try assumption.
  - reflexivity.
  - rewrite !app_length. simpl. lia.
  - apply perm_cnt. intros x. rewrite perm_cnt in Hp. specialize (Hp x). specialize (Hrc x).
    cbn [flat_map length]. change (children r) with [i; j].
    replace (n + length D) with (S index) by lia.
    cnt_norm. rewrite cnt_seq_S. lia.
Qed.

(** * The recursion *)
Definition st_ok (n : nat) (D : dendrogram) (index : nat) (sz : sizes) : Prop :=
  index + 1 = n + length D /\ all_good n D /\ (forall k, k < n -> size_get sz k = 1).

Definition hd (depth : nat) : Q := inject_Z (- Z.of_nat depth).

Lemma hd_S depth : (hd (S depth) <= hd depth)%Q.
Proof. unfold hd. rewrite <- Zle_Qle. lia. Qed.

(** What one call [gd false t depth (index, sz)] does to the dendrogram built so far. *)
Definition gd_post (n : nat) (t : ptree) : Prop :=
  forall depth D index sz, st_ok n D index sz ->
  exists R l index' sz',
    gd false t depth (index, sz) = Ok (R, l, (index', sz')) /\
    st_ok n (D ++ R) index' sz' /\
    (forall k, k < n + length D -> size_get sz' k = size_get sz k) /\
    lab_ok n (D ++ R) sz' (hd depth) l /\
    Permutation (flat_map children R ++ [l]) (tleaves t ++ seq (n + length D) (length R)).

Lemma gd_list_spec n ts : Forall (gd_post n) ts ->
  forall depth D index sz, st_ok n D index sz ->
  exists R ls index' sz',
    gd_list false ts depth (index, sz) = Ok (R, ls, (index', sz')) /\
    st_ok n (D ++ R) index' sz' /\
    (forall k, k < n + length D -> size_get sz' k = size_get sz k) /\
    Forall (lab_ok n (D ++ R) sz' (hd depth)) ls /\
    length ls = length ts /\
    Permutation (flat_map children R ++ ls) (flat_map tleaves ts ++ seq (n + length D) (length R)).
Proof.
  induction 1 as [|c cs Hc Hcs IH]; intros depth D index sz Hst.
  - exists [], [], index, sz. rewrite app_nil_r. splits; try assumption; try reflexivity.
    constructor.
  - destruct (Hc depth D index sz Hst) as (R1 & l1 & i1 & sz1 & E1 & Hst1 & Hx1 & Hl1 & Hp1).
    destruct (IH depth (D ++ R1) i1 sz1 Hst1) as (R2 & ls & i2 & sz2 & E2 & Hst2 & Hx2 & Hl2 & Hlen & Hp2).
    exists (R1 ++ R2), (l1 :: ls), i2, sz2. cbn [gd_list]. rewrite E1, E2. rewrite app_assoc.
    splits; try assumption.
    + reflexivity.
    + intros k Hk. rewrite Hx2 by (rewrite app_length; lia). now apply Hx1.
    + constructor; [|assumption]. unfold lab_ok. rewrite Hx2 by (destruct Hl1; lia).
      now apply cl_ok_app.
    + simpl. now rewrite Hlen.
    + apply perm_cnt. intros x. rewrite perm_cnt in Hp1, Hp2. specialize (Hp1 x). specialize (Hp2 x).
      rewrite flat_map_app, app_length, seq_app, <- Nat.add_assoc. cbn [flat_map]. rewrite app_length in Hp2.
      cnt_norm. lia.
Qed.

Lemma gd_spec n t : Forall (fun i => i < n) (tleaves t) -> tree_shape t = true -> gd_post n t.
Proof.
  induction t as [i|ts IH] using ptree_ind2; intros Hlv Hsh depth D index sz Hst.
  - (* leaf: no row, the label is the leaf *)
    cbn [tleaves] in Hlv. inversion Hlv as [|? ? Hi _]; subst.
    exists [], i, index, sz. rewrite app_nil_r. assert (Hst' := Hst). destruct Hst' as (Hs1 & Hs2 & Hs3).
    splits; try assumption; try reflexivity.
    unfold lab_ok, cl_ok. rewrite Hs3, csize_leaf by assumption. splits; [lia | reflexivity |].
    unfold child_height_ok. apply Nat.ltb_lt in Hi. now rewrite Hi.
  - cbn [tleaves] in Hlv. cbn [tree_shape] in Hsh. apply andb_true_iff in Hsh. destruct Hsh as [Hn2 Hsh].
    apply Nat.leb_le in Hn2. rewrite forallb_forall in Hsh. rewrite Forall_flat_map in Hlv.
    assert (Hposts : Forall (gd_post n) ts).
    { rewrite Forall_forall in *. intros c Hc. apply IH; auto. }
    destruct (gd_list_spec n ts Hposts (S depth) D index sz Hst)
      as (R1 & ls & i1 & sz1 & E1 & Hst1 & Hx1 & Hl1 & Hlen & Hp1).
    destruct Hst1 as (Hs1 & Hs2 & Hs3).
    assert (Hl1' : Forall (lab_ok n (D ++ R1) sz1 (hd depth)) ls).
    { eapply Forall_impl; [|exact Hl1]. intros a Ha. apply (cl_ok_mono _ _ (hd (S depth))); [apply hd_S | exact Ha]. }
    destruct (merge_all_spec n (hd depth) sz1 ls (D ++ R1) i1 Hs1 Hs2 ltac:(lia) Hl1')
      as (R2 & idx & sf & E2 & Hi2 & Hgt & Hg2 & Hcl2 & Hp2).
    exists (R1 ++ R2), idx, idx, ((idx, sf) :: sz1).
    rewrite gd_node, E1. fold (hd depth). rewrite E2. rewrite app_assoc.
    assert (Hidx : n + length D <= idx) by (rewrite !app_length in *; lia).
    unfold st_ok. splits; try assumption.
    + reflexivity.
    + intros k Hk. rewrite size_get_cons. replace (Nat.eqb k idx) with false by (symmetry; apply Nat.eqb_neq; lia).
      now apply Hs3.
    + intros k Hk. rewrite size_get_cons. replace (Nat.eqb k idx) with false by (symmetry; apply Nat.eqb_neq; lia).
      now apply Hx1.
    + unfold lab_ok. rewrite size_get_cons, Nat.eqb_refl. assumption.
    + apply perm_cnt. intros x. rewrite perm_cnt in Hp1, Hp2. specialize (Hp1 x). specialize (Hp2 x).
      rewrite flat_map_app, app_length, seq_app, <- Nat.add_assoc. cbn [tleaves]. rewrite app_length in Hp2.
      cnt_norm. lia.
Qed.

(** * Top level *)
Lemma tleaves_nonempty t : tree_shape t = true -> tleaves t <> [].
Proof.
  induction t as [i|ts IH] using ptree_ind2; intros Hsh; [discriminate|].
  cbn [tree_shape] in Hsh. apply andb_true_iff in Hsh. destruct Hsh as [Hn2 Hsh]. apply Nat.leb_le in Hn2.
  destruct ts as [|c cs]; [simpl in Hn2; lia|].
  cbn [forallb] in Hsh. apply andb_true_iff in Hsh. destruct Hsh as [Hc _].
  inversion IH as [|? ? IHc _]; subst. cbn [tleaves flat_map]. intros E. apply app_eq_nil in E.
  destruct E as [E _]. now apply IHc.
Qed.

Lemma get_index_perm n t : 1 <= n -> Permutation (tleaves t) (seq 0 n) -> get_index t = n - 1.
Proof.
  intros Hn Hp. unfold get_index. change (fold_right Nat.max 0 (tleaves t)) with (list_max (tleaves t)).
  apply Nat.le_antisymm.
  - apply list_max_le. apply Forall_forall. intros x Hx. apply (Permutation_in _ Hp) in Hx.
    apply in_seq in Hx. lia.
  - apply In_le_list_max. apply (Permutation_in _ (Permutation_sym Hp)). apply in_seq. lia.
Qed.

Lemma children_length R : length (flat_map children R) = 2 * length R.
Proof. induction R as [|r R IH]; simpl; lia. Qed.

Lemma all_good_hmono n D : all_good n D -> hmono n D = true.
Proof.
  intros Hg. unfold hmono. apply forallb_forall. intros r Hr. destruct (In_nth_error _ _ Hr) as [t Ht].
  destruct (Hg t r Ht) as (_ & _ & _ & H1 & H2). now rewrite H1, H2.
Qed.

Theorem get_dendrogram_valid : forall n t, tree_ok n t ->
  exists D, get_dendrogram t = Ok (D, 2 * n - 2) /\ valid n D = true /\ hmono n D = true /\
            (forall k r, nth_error D k = Some r -> r_size r = length (leaves n D (n + k))).
Proof.
  intros n t (Hsh & Hperm & ts & Et).
  assert (Hn : 1 <= n).
  { destruct n; [|lia]. simpl in Hperm. apply Permutation_sym, Permutation_nil in Hperm.
    now apply tleaves_nonempty in Hsh. }
  assert (Hlt : Forall (fun i => i < n) (tleaves t)).
  { apply Forall_forall. intros x Hx. apply (Permutation_in _ Hperm) in Hx. apply in_seq in Hx. lia. }
  assert (Hst : st_ok n [] (get_index t) []).
  { rewrite (get_index_perm n t Hn Hperm). split; [simpl; lia|]. split; [|reflexivity].
    intros k r Hk. destruct k; discriminate. }
  destruct (gd_spec n t Hlt Hsh 0 [] (get_index t) [] Hst) as (D & l & idx & sz & E & Hst' & _ & _ & Hp).
  simpl app in Hst'. destruct Hst' as (Hidx & Hg & _). simpl length in Hp. rewrite Nat.add_0_r in Hp.
  assert (Hlen : S (length D) = n).
  { assert (H1 := Permutation_length Hp). assert (H2 := Permutation_length Hperm).
    rewrite !app_length, children_length, !seq_length in *. simpl in H1. lia. }
  assert (Hwf : wf_dend n D).
  { split.
    - exact Hlen.
    - assert (Hnd : NoDup (flat_map children D ++ [l])).
      { apply (Permutation_NoDup (Permutation_sym Hp)).
        apply (Permutation_NoDup (l := seq 0 n ++ seq n (length D))).
        - apply Permutation_app_tail. now apply Permutation_sym.
        - change n with (0 + n) at 2. rewrite <- seq_app. apply seq_NoDup. }
      now apply NoDup_app_remove_aux in Hnd.
    - intros k r Hk. destruct (Hg k r Hk) as (H1 & H2 & _). split; assumption.
    - intros k r Hk. destruct (Hg k r Hk) as (_ & _ & H3 & _). exact H3. }
  assert (Hv := wf_valid n D Hwf).
  exists D. split; [|split; [exact Hv|split; [now apply all_good_hmono | now apply valid_size_leaves]]].
  subst t. unfold get_dendrogram, get_dendrogram_gen.
  destruct ts as [|a [|b ts']]; [discriminate Hsh | discriminate Hsh |].
  match goal with |- match ?g with _ => _ end = _ =>
    assert (E' : g = Ok (D, l, (idx, sz))) by exact E; rewrite E' end.
  f_equal. f_equal. lia.
Qed.

(** Non-vacuity: the tree [[[0], [1]], [2], [3]] (a two-way merge below a three-way merge). *)
Example get_dendrogram_example :
  get_dendrogram (PNode [PNode [PLeaf 0; PLeaf 1]; PLeaf 2; PLeaf 3])
  = Ok ([(1, 0, (-1 # 1)%Q, 2); (3, 2, 0%Q, 2); (5, 4, 0%Q, 4)], 6).
Proof. vm_compute. reflexivity. Qed.

Example get_dendrogram_example_valid :
  valid 4 [(1, 0, (-1 # 1)%Q, 2); (3, 2, 0%Q, 2); (5, 4, 0%Q, 4)] = true.
Proof. vm_compute. reflexivity. Qed.

(** * The code before fix fb47193f: [s += 1] for every further child of a multi-way merge *)
Theorem get_dendrogram_legacy_refuted : exists n t D idx,
  tree_ok n t /\ get_dendrogram_legacy t = Ok (D, idx) /\ valid n D = false.
Proof.
  exists 4, (PNode [PNode [PLeaf 0; PLeaf 1]; PLeaf 2; PLeaf 3]).
  exists [(1, 0, (-1 # 1)%Q, 2); (3, 2, 0%Q, 2); (5, 4, 0%Q, 3)], 6.
  split; [|split].
  - split; [reflexivity|]. split; [apply Permutation_refl | eexists; reflexivity].
  - vm_compute. reflexivity.
  - vm_compute. reflexivity.
Qed.

(** * The height shift of LouvainHierarchy.fit / LouvainIteration.fit

    Validity only looks at the (left, right, size) columns; [hmono] survives any map that shifts all the heights
    by the same amount. *)
Definition keeps_cols (g : drow -> drow) : Prop :=
  forall x, r_left (g x) = r_left x /\ r_right (g x) = r_right x /\ r_size (g x) = r_size x.

Lemma csize_map g n D c : keeps_cols g -> csize n (map g D) c = csize n D c.
Proof.
  intros Hg. unfold csize. destruct (Nat.ltb c n); [reflexivity|].
  destruct (nth_error D (c - n)) as [r|] eqn:E.
  - rewrite (nth_error_nth_d _ _ _ drow0 E).
    assert (E' : nth_error (map g D) (c - n) = Some (g r)) by (rewrite nth_error_map, E; reflexivity).
    rewrite (nth_error_nth_d _ _ _ drow0 E'). apply Hg.
  - apply nth_error_None in E. rewrite !nth_overflow by (rewrite ?map_length; exact E). reflexivity.
Qed.

Lemma children_map g D : keeps_cols g -> flat_map children (map g D) = flat_map children D.
Proof.
  intros Hg. induction D as [|r D IH]; [reflexivity|]. cbn [map flat_map]. rewrite IH. unfold children.
  destruct (Hg r) as (-> & -> & _). reflexivity.
Qed.

Lemma wf_dend_map g n D : keeps_cols g -> wf_dend n D -> wf_dend n (map g D).
Proof.
  intros Hg [Hlen Hnd Hlt Hsz]. split.
  - now rewrite map_length.
  - now rewrite children_map.
  - intros t r' Hr'. rewrite nth_error_map in Hr'. destruct (nth_error D t) as [r|] eqn:E; [|discriminate].
    simpl in Hr'. inversion Hr'; subst r'. destruct (Hg r) as (-> & -> & _). now apply Hlt.
  - intros t r' Hr'. rewrite nth_error_map in Hr'. destruct (nth_error D t) as [r|] eqn:E; [|discriminate].
    simpl in Hr'. inversion Hr'; subst r'. rewrite !csize_map by assumption.
    destruct (Hg r) as (-> & -> & ->). now apply (Hsz t).
Qed.

Definition shift_row (d : Q) (x : drow) : drow := (r_left x, r_right x, Qred (r_height x + d), r_size x).

Lemma shift_row_cols d : keeps_cols (shift_row d).
Proof. intros x. repeat split. Qed.

Lemma cho_shift n D d h c :
  child_height_ok n D h c = true -> child_height_ok n (map (shift_row d) D) (Qred (h + d)) c = true.
Proof.
  unfold child_height_ok. destruct (Nat.ltb c n); [trivial|]. rewrite nth_error_map.
  destruct (nth_error D (c - n)) as [r|]; [|discriminate]. cbn [option_map].
  rewrite !Qle_bool_iff. intros H. unfold shift_row, r_height at 1. cbn [fst snd].
  rewrite !Qred_correct. lra.
Qed.

Lemma hmono_shift n D d : hmono n D = true -> hmono n (map (shift_row d) D) = true.
Proof.
  unfold hmono. rewrite !forallb_forall. intros H r' Hr'. apply in_map_iff in Hr'.
  destruct Hr' as (r & <- & Hr). specialize (H r Hr). apply andb_true_iff in H. destruct H as [H1 H2].
  change (r_height (shift_row d r)) with (Qred (r_height r + d)).
  change (r_left (shift_row d r)) with (r_left r). change (r_right (shift_row d r)) with (r_right r).
  now rewrite !cho_shift.
Qed.

Theorem shift_heights_valid : forall n D, valid n D = true -> D <> [] ->
  exists D', shift_heights D = Ok D' /\ valid n D' = true /\ (hmono n D = true -> hmono n D' = true) /\
             map (fun r => (r_left r, r_right r, r_size r)) D' = map (fun r => (r_left r, r_right r, r_size r)) D.
Proof.
  intros n D Hv Hne. destruct D as [|r rs]; [congruence|].
  set (m := fold_right (fun x acc => qmin (r_height x) acc) (r_height r) rs).
  exists (map (shift_row (1 - m)) (r :: rs)). split; [reflexivity|]. split; [|split].
  - apply wf_valid. apply wf_dend_map; [apply shift_row_cols | now apply valid_wf].
  - apply hmono_shift.
  - rewrite map_map. apply map_ext. intros x. reflexivity.
Qed.

Print Assumptions get_dendrogram_valid.
Print Assumptions get_dendrogram_legacy_refuted.
Print Assumptions shift_heights_valid.
Print Assumptions get_dendrogram_example.

(** Base lemmas about lists, association lists, leaf sets and [valid] used by the C07 proofs.
    The text below is a verbatim copy of parts of Proofs/CutsProofs.v (property C08: its first four sections and three
    small list lemmas), kept separately so that the C07 development does not depend on the rest of that much larger,
    independently evolving file. *)
From SKN Require Import Base.Util Model.Dendrogram.
From Coq Require Import Permutation Lia.
Close Scope Q_scope.
Open Scope nat_scope.

(** * Lists *)
Lemma NoDup_snoc {A} (l : list A) x : NoDup l -> ~ In x l -> NoDup (l ++ [x]).
Proof.
  intros H Hn. apply (Permutation_NoDup (Permutation_cons_append l x)). now constructor.
Qed.

Lemma NoDup_app_remove_aux {A} (l1 l2 : list A) :
  NoDup (l1 ++ l2) -> NoDup l1 /\ NoDup l2 /\ (forall x, In x l1 -> ~ In x l2).
Proof.
  induction l1 as [|a l1 IH]; simpl; intros H.
  - split; [constructor|]. split; [assumption|tauto].
  - inversion H as [|? ? Hn Hnd]; subst. destruct (IH Hnd) as (H1 & H2 & H3). split; [|split].
    + constructor; [|assumption]. intros Hc. apply Hn. apply in_app_iff. now left.
    + assumption.
    + intros x [->|Hx]; [intros Hc; apply Hn; apply in_app_iff; now right | now apply H3].
Qed.

Lemma fold_right_permutation_sum (l l' : list nat) :
  Permutation l l' -> fold_right Nat.add 0 l = fold_right Nat.add 0 l'.
Proof. induction 1; simpl; lia. Qed.

Lemma fold_right_add_acc (l : list nat) a : fold_right Nat.add a l = fold_right Nat.add 0 l + a.
Proof. induction l; simpl; lia. Qed.

Lemma nth_repeat_lt_aux (a : nat) n x : x < n -> nth x (repeat a n) 0 = a.
Proof. revert x. induction n as [|n IH]; intros x H; [lia|]. destruct x; simpl; [reflexivity | apply IH; lia]. Qed.

Lemma firstn_In_aux {A} (l : list A) k x : In x (firstn k l) -> In x l.
Proof. revert l. induction k as [|k IH]; intros [|a l]; simpl; try tauto. intros [H|H]; [now left | right; now apply IH]. Qed.

Lemma In_firstn_nth_error {A} (l : list A) k x : In x (firstn k l) -> exists i, i < k /\ nth_error l i = Some x.
Proof.
  revert l. induction k as [|k IH]; intros [|a l]; simpl; try tauto. intros [H|H].
  - exists 0. split; [lia | now subst].
  - destruct (IH l H) as [i [Hi E]]. exists (S i). split; [lia | exact E].
Qed.

Lemma nth_error_firstn_lt {A} (l : list A) k i : i < k -> nth_error (firstn k l) i = nth_error l i.
Proof.
  revert l i. induction k as [|k IH]; intros l i H; [lia|]. destruct l as [|a l]; [now destruct i|].
  destruct i as [|i]; [reflexivity|]. simpl. apply IH. lia.
Qed.

(** * Association lists *)
Section Alist.
Context {A : Type}.
Implicit Types l : list (nat * A).

Lemma alookup_In k l v : alookup k l = Some v -> In (k, v) l.
Proof.
  induction l as [|[k' v'] t IH]; simpl; [discriminate|].
  destruct (Nat.eqb k k') eqn:E.
  - intros H; inversion H; subst. apply Nat.eqb_eq in E. subst. now left.
  - intros H. right. now apply IH.
Qed.

Lemma alookup_key k l v : alookup k l = Some v -> In k (akeys l).
Proof. intros H. apply alookup_In in H. unfold akeys. apply in_map_iff. now exists (k, v). Qed.

Lemma alookup_None k l : alookup k l = None <-> ~ In k (akeys l).
Proof.
  induction l as [|[k' v'] t IH]; simpl; [tauto|].
  destruct (Nat.eqb k k') eqn:E.
  - apply Nat.eqb_eq in E. subst. split; [discriminate | intros H; exfalso; apply H; now left].
  - apply Nat.eqb_neq in E. rewrite IH. split; intros H; [intros [H1|H1]; [congruence|tauto] | tauto].
Qed.

Lemma In_alookup k v l : NoDup (akeys l) -> In (k, v) l -> alookup k l = Some v.
Proof.
  induction l as [|[k' v'] t IH]; simpl; [tauto|].
  intros Hnd [H|H].
  - inversion H; subst. now rewrite Nat.eqb_refl.
  - inversion Hnd as [|? ? Hn Hnd']; subst.
    destruct (Nat.eqb k k') eqn:E.
    + apply Nat.eqb_eq in E. subst. exfalso. apply Hn. unfold akeys. apply in_map_iff. now exists (k', v).
    + now apply IH.
Qed.

Lemma In_key_alookup k l : In k (akeys l) -> exists v, alookup k l = Some v.
Proof.
  intros H. destruct (alookup k l) eqn:E; [eauto|]. apply alookup_None in E. tauto.
Qed.

Lemma aremove_In x l k : In x (aremove k l) -> In x l.
Proof.
  induction l as [|[k' v'] t IH]; simpl; [tauto|].
  destruct (Nat.eqb k k'); [tauto|]. intros [H|H]; [now left | right; now apply IH].
Qed.

Lemma akeys_aremove_In x l k : In x (akeys (aremove k l)) -> In x (akeys l).
Proof.
  unfold akeys. intros H. apply in_map_iff in H. destruct H as [[a b] [H1 H2]].
  apply in_map_iff. exists (a, b). split; [exact H1|]. now apply aremove_In in H2.
Qed.

Lemma NoDup_aremove l k : NoDup (akeys l) -> NoDup (akeys (aremove k l)).
Proof.
  induction l as [|[k' v'] t IH]; simpl; [auto|].
  intros H. inversion H as [|? ? Hn Hnd]; subst.
  destruct (Nat.eqb k k'); [exact Hnd|]. simpl. constructor; [|now apply IH].
  intros Hc. apply Hn. now apply akeys_aremove_In in Hc.
Qed.

Lemma aremove_not_key l k : NoDup (akeys l) -> ~ In k (akeys (aremove k l)).
Proof.
  induction l as [|[k' v'] t IH]; simpl; [tauto|].
  intros H. inversion H as [|? ? Hn Hnd]; subst.
  destruct (Nat.eqb k k') eqn:E.
  - apply Nat.eqb_eq in E. now subst.
  - apply Nat.eqb_neq in E. simpl. intros [Hc|Hc]; [congruence|]. now apply IH.
Qed.

Lemma aremove_In_neq k' v l k : In (k', v) l -> k' <> k -> In (k', v) (aremove k l).
Proof.
  induction l as [|[k2 v2] t IH]; simpl; [tauto|].
  intros [H|H] Hne.
  - inversion H; subst. destruct (Nat.eqb k k') eqn:E; [apply Nat.eqb_eq in E; congruence | now left].
  - destruct (Nat.eqb k k2); [exact H | right; now apply IH].
Qed.

Lemma akeys_aremove_neq x l k : In x (akeys l) -> x <> k -> In x (akeys (aremove k l)).
Proof.
  unfold akeys. intros H Hne. apply in_map_iff in H. destruct H as [[a b] [H1 H2]]. simpl in H1. subst.
  apply in_map_iff. exists (x, b). split; [reflexivity|]. now apply aremove_In_neq.
Qed.

Lemma alookup_aremove_neq k k' l : k <> k' -> alookup k (aremove k' l) = alookup k l.
Proof.
  intros Hne. induction l as [|[k2 v2] t IH]; simpl; [reflexivity|].
  destruct (Nat.eqb k' k2) eqn:E.
  - apply Nat.eqb_eq in E. subst. destruct (Nat.eqb k k2) eqn:E2; [apply Nat.eqb_eq in E2; congruence | reflexivity].
  - simpl. now rewrite IH.
Qed.

Lemma alookup_aremove_eq k l : NoDup (akeys l) -> alookup k (aremove k l) = None.
Proof. intros H. apply alookup_None. now apply aremove_not_key. Qed.

Lemma alookup_app k l1 l2 :
  alookup k (l1 ++ l2) = match alookup k l1 with Some v => Some v | None => alookup k l2 end.
Proof.
  induction l1 as [|[k' v'] t IH]; simpl; [reflexivity|]. destruct (Nat.eqb k k'); [reflexivity | exact IH].
Qed.

Lemma akeys_app l1 l2 : akeys (l1 ++ l2) = akeys l1 ++ akeys l2.
Proof. unfold akeys. apply map_app. Qed.

Lemma aremove_perm k l v : alookup k l = Some v -> Permutation l ((k, v) :: aremove k l).
Proof.
  induction l as [|[k' v'] t IH]; simpl; [discriminate|].
  destruct (Nat.eqb k k') eqn:E.
  - intros H. inversion H; subst. apply Nat.eqb_eq in E. subst. reflexivity.
  - intros H. apply IH in H. rewrite perm_swap. now constructor.
Qed.

Lemma aremove_length k l v : alookup k l = Some v -> S (length (aremove k l)) = length l.
Proof. intros H. apply aremove_perm in H. apply Permutation_length in H. simpl in H. lia. Qed.

Lemma NoDup_akeys_app_fresh l k v : NoDup (akeys l) -> ~ In k (akeys l) -> NoDup (akeys (l ++ [(k, v)])).
Proof.
  intros H Hn. rewrite akeys_app. simpl. now apply NoDup_snoc.
Qed.
End Alist.

(** * Leaf sets *)
Definition ids_lt (n : nat) (D : dendrogram) : Prop :=
  forall t r, nth_error D t = Some r -> r_left r < n + t /\ r_right r < n + t.

Lemma leaves_f_indep n D : ids_lt n D ->
  forall k f1 f2, k < f1 -> k < f2 -> leaves_f f1 n D k = leaves_f f2 n D k.
Proof.
  intros Hids k. induction k as [k IH] using lt_wf_ind. intros f1 f2 H1 H2.
  destruct f1 as [|f1]; [lia|]. destruct f2 as [|f2]; [lia|]. simpl.
  destruct (Nat.ltb k n) eqn:E; [reflexivity|]. apply Nat.ltb_ge in E.
  destruct (nth_error D (k - n)) as [r|] eqn:Er; [|reflexivity].
  destruct (Hids _ _ Er) as [Hl Hr].
  rewrite (IH (r_left r)) with (f2 := f2) by lia.
  rewrite (IH (r_right r)) with (f2 := f2) by lia. reflexivity.
Qed.

Lemma leaves_leaf n D k : k < n -> leaves n D k = [k].
Proof. intros H. unfold leaves. simpl. apply Nat.ltb_lt in H. now rewrite H. Qed.

Lemma leaves_node n D t r : ids_lt n D -> nth_error D t = Some r ->
  leaves n D (n + t) = leaves n D (r_left r) ++ leaves n D (r_right r).
Proof.
  intros Hids Hr. unfold leaves at 1. simpl.
  replace (Nat.ltb (n + t) n) with false by (symmetry; apply Nat.ltb_ge; lia).
  replace (n + t - n) with t by lia. rewrite Hr.
  destruct (Hids _ _ Hr) as [Hl Hrr]. unfold leaves.
  rewrite (leaves_f_indep n D Hids (r_left r) (n + t) (S (r_left r))) by lia.
  rewrite (leaves_f_indep n D Hids (r_right r) (n + t) (S (r_right r))) by lia. reflexivity.
Qed.

(** * What validity gives *)
Definition children (r : drow) : list nat := [r_left r; r_right r].

Definition row_ok (k : nat) (D : dendrogram) (t : nat) (r : drow) : Prop :=
  r_left r <> r_right r /\ r_left r < k + t /\ r_right r < k + t /\
  ~ In (r_left r) (flat_map children (firstn t D)) /\ ~ In (r_right r) (flat_map children (firstn t D)).

Definition linv (k : nat) (done : dendrogram) (live : list (nat * nat)) : Prop :=
  NoDup (akeys live) /\
  (forall x, In x (akeys live) <-> x < k + length done /\ ~ In x (flat_map children done)) /\
  (forall c, In c (flat_map children done) -> c < k + length done).

Lemma akeys_aremove_iff {A} (l : list (nat * A)) k x :
  NoDup (akeys l) -> (In x (akeys (aremove k l)) <-> In x (akeys l) /\ x <> k).
Proof.
  intros H. split.
  - intros Hx. split; [now apply akeys_aremove_In in Hx|]. intros ->. now apply (aremove_not_key l k).
  - intros [H1 H2]. now apply akeys_aremove_neq.
Qed.

Lemma flat_map_app {A B} (f : A -> list B) l1 l2 : flat_map f (l1 ++ l2) = flat_map f l1 ++ flat_map f l2.
Proof. induction l1; simpl; [reflexivity|]. now rewrite IHl1, app_assoc. Qed.

Lemma firstn_app_length {A} (l1 l2 : list A) : firstn (length l1) (l1 ++ l2) = l1.
Proof. induction l1; simpl; [now destruct l2 | now rewrite IHl1]. Qed.

Lemma nth_error_app_length {A} (l1 l2 : list A) x : nth_error (l1 ++ x :: l2) (length l1) = Some x.
Proof. induction l1; simpl; auto. Qed.

Lemma valid_run_step k done live r :
  linv k done live ->
  forall si sj, alookup (r_left r) live = Some si -> alookup (r_right r) live = Some sj ->
  r_left r <> r_right r ->
  forall s, linv k (done ++ [r]) (aremove (r_right r) (aremove (r_left r) live) ++ [(k + length done, s)]).
Proof.
  intros (Hnd & Hkeys & Hch) si sj Hi Hj Hne s.
  assert (Hik := alookup_key _ _ _ Hi). assert (Hjk := alookup_key _ _ _ Hj).
  apply Hkeys in Hik. apply Hkeys in Hjk.
  assert (Hnd1 : NoDup (akeys (aremove (r_left r) live))) by now apply NoDup_aremove.
  assert (Hnd2 : NoDup (akeys (aremove (r_right r) (aremove (r_left r) live)))) by now apply NoDup_aremove.
  assert (Hkeys2 : forall x, In x (akeys (aremove (r_right r) (aremove (r_left r) live))) <->
                             In x (akeys live) /\ x <> r_left r /\ x <> r_right r).
  { intros x. rewrite akeys_aremove_iff by assumption. rewrite akeys_aremove_iff by assumption. tauto. }
  split; [|split].
  - apply NoDup_akeys_app_fresh; [assumption|]. rewrite Hkeys2, Hkeys. lia.
  - intros x. rewrite akeys_app, in_app_iff, Hkeys2, Hkeys, flat_map_app, in_app_iff, app_length. simpl.
    split.
    + intros [[[H1 H2] [H3 H4]]|[H|[]]].
      * split; [lia|]. intros [Hc|[Hc|[Hc|[]]]]; [tauto|congruence|congruence].
      * subst x. split; [lia|]. intros [Hc|[Hc|[Hc|[]]]]; [apply Hch in Hc; lia | lia | lia].
    + intros [Hlt Hnot].
      destruct (Nat.eq_dec x (k + length done)) as [->|Hx]; [right; now left|].
      left. repeat split; try lia; try tauto; intros ->; apply Hnot; right; simpl; tauto.
  - intros c. rewrite flat_map_app, in_app_iff, app_length. simpl.
    intros [H|[H|[H|[]]]]; [apply Hch in H; lia | subst c; lia | subst c; lia].
Qed.

Lemma valid_run_rows k D :
  forall rows done live live',
    D = done ++ rows -> linv k done live ->
    valid_run (k + length done) rows live = Some live' ->
    (forall t r, length done <= t -> nth_error D t = Some r -> row_ok k D t r) /\ linv k D live'.
Proof.
  induction rows as [|r rows IH]; intros done live live' HD Hinv Hrun.
  - simpl in Hrun. inversion Hrun; subst. rewrite app_nil_r. split; [|assumption].
    intros t r Ht Hr. assert (t < length done) by (apply nth_error_Some; congruence). lia.
  - simpl in Hrun. destruct r as [[[i j] h] s] eqn:Er.
    destruct (alookup i live) as [si|] eqn:Hi; [|discriminate].
    destruct (alookup j live) as [sj|] eqn:Hj; [|discriminate].
    destruct (negb (Nat.eqb i j) && Nat.eqb s (si + sj)) eqn:Hc; [|discriminate].
    apply andb_true_iff in Hc. destruct Hc as [Hne _]. apply negb_true_iff, Nat.eqb_neq in Hne.
    assert (Hstep := valid_run_step k done live r Hinv si sj).
    subst r. unfold r_left, r_right in Hstep. simpl in Hstep. specialize (Hstep Hi Hj Hne s).
    specialize (IH (done ++ [(i, j, h, s)]) (aremove j (aremove i live) ++ [(k + length done, s)]) live').
    rewrite app_length in IH. simpl in IH. replace (k + (length done + 1)) with (S (k + length done)) in IH by lia.
    rewrite <- app_assoc in IH. simpl in IH. specialize (IH HD Hstep Hrun).
    destruct IH as [IH1 IH2]. split; [|assumption].
    intros t r Ht Hr. destruct (Nat.eq_dec t (length done)) as [->|Hneq]; [|apply IH1; [lia|assumption]].
    rewrite HD, nth_error_app_length in Hr. inversion Hr; subst r.
    destruct Hinv as (Hnd & Hkeys & Hch).
    assert (Hik := alookup_key _ _ _ Hi). assert (Hjk := alookup_key _ _ _ Hj).
    apply Hkeys in Hik. apply Hkeys in Hjk. unfold row_ok. rewrite HD, firstn_app_length.
    unfold r_left, r_right. simpl. tauto.
Qed.

Lemma init_live_keys ws : akeys (init_live ws) = seq 0 (length ws).
Proof.
  unfold akeys, init_live.
  assert (H : forall (a : list nat) (b : list nat), length a = length b -> map fst (combine a b) = a).
  { induction a as [|x a IH]; intros [|y b]; simpl; intros E; try discriminate; [reflexivity|].
    f_equal. apply IH. lia. }
  apply H. now rewrite seq_length.
Qed.

Lemma linv_init ws : linv (length ws) [] (init_live ws).
Proof.
  unfold linv. rewrite init_live_keys. simpl. split; [apply seq_NoDup|]. split.
  - intros x. rewrite in_seq. lia.
  - tauto.
Qed.

Lemma validw_rows ws D : validw ws D = true ->
  S (length D) = length ws /\ forall t r, nth_error D t = Some r -> row_ok (length ws) D t r.
Proof.
  unfold validw. intros H. apply andb_true_iff in H. destruct H as [H _].
  apply andb_true_iff in H. destruct H as [Hlen Hrun]. apply Nat.eqb_eq in Hlen. split; [exact Hlen|].
  destruct (valid_run (length ws) D (init_live ws)) as [live'|] eqn:E; [|discriminate].
  destruct (valid_run_rows (length ws) D D [] (init_live ws) live' eq_refl (linv_init ws)) as [H1 _].
  { simpl. now rewrite Nat.add_0_r. }
  intros t r Hr. apply H1; [simpl; lia | exact Hr].
Qed.

Lemma valid_rows n D : valid n D = true ->
  S (length D) = n /\ forall t r, nth_error D t = Some r -> row_ok n D t r.
Proof.
  unfold valid. intros H. apply validw_rows in H. now rewrite repeat_length in H.
Qed.

Lemma valid_ids_lt n D : valid n D = true -> ids_lt n D.
Proof.
  intros H t r Hr. destruct (valid_rows n D H) as [_ H2]. specialize (H2 t r Hr). unfold row_ok in H2. tauto.
Qed.

Lemma map_fst_combine {A B} (a : list A) (b : list B) : length a = length b -> map fst (combine a b) = a.
Proof.
  revert b. induction a as [|x a IH]; intros [|y b]; simpl; intros E; try discriminate; [reflexivity|].
  f_equal. apply IH. lia.
Qed.

Lemma In_le_list_max x l : In x l -> x <= list_max l.
Proof.
  intros H. assert (Hf := proj1 (list_max_le l (list_max l)) (Nat.le_refl _)).
  rewrite Forall_forall in Hf. now apply Hf.
Qed.

(** split_dendrogram (sknetwork/hierarchy/postprocess.py) returns two valid dendrograms that agree with the
    full dendrogram restricted to each side (property C07). *)
From Coq Require Import Permutation Lia.
From Coq Require FinFun.
From SKN Require Import Base.Util Model.Dendrogram Model.Cuts Model.Hierarchy Proofs.CutsProofs Proofs.HierarchyBase.
Set Warnings "-notation-overridden".

(** * Association lists (complements) *)
Lemma amem_true {A} k (l : list (nat * A)) : amem k l = true <-> In k (akeys l).
Proof.
  unfold amem. destruct (alookup k l) eqn:E.
  - split; [intros _; eapply alookup_key; eauto | reflexivity].
  - split; [discriminate|]. intros H. apply alookup_None in E. tauto.
Qed.

Lemma amem_false {A} k (l : list (nat * A)) : amem k l = false <-> ~ In k (akeys l).
Proof.
  rewrite <- amem_true. destruct (amem k l); split; intros H; try congruence; try discriminate.
Qed.

Lemma aremove_app_l {A} k (l1 l2 : list (nat * A)) v :
  alookup k l1 = Some v -> aremove k (l1 ++ l2) = aremove k l1 ++ l2.
Proof.
  induction l1 as [|[k' v'] t IH]; simpl; [discriminate|].
  destruct (Nat.eqb k k'); [reflexivity|]. intros H. simpl. now rewrite IH.
Qed.

Lemma alookup_aremove_Some {A} x c (l : list (nat * A)) y :
  NoDup (akeys l) -> alookup x (aremove c l) = Some y -> x <> c /\ alookup x l = Some y.
Proof.
  intros Hnd H. destruct (Nat.eq_dec x c) as [->|Hne].
  - rewrite alookup_aremove_eq in H by assumption. discriminate.
  - rewrite alookup_aremove_neq in H by assumption. tauto.
Qed.

Lemma alookup_snoc_inv {A} x (l : list (nat * A)) k v y :
  alookup x (l ++ [(k, v)]) = Some y -> alookup x l = Some y \/ (x = k /\ y = v).
Proof.
  rewrite alookup_app. destruct (alookup x l); [tauto|]. simpl.
  destruct (Nat.eqb x k) eqn:E; [|discriminate]. apply Nat.eqb_eq in E. intros H; inversion H. tauto.
Qed.

Lemma alookup_app_old {A} x (l l2 : list (nat * A)) y : alookup x l = Some y -> alookup x (l ++ l2) = Some y.
Proof. intros H. now rewrite alookup_app, H. Qed.

Lemma alookup_snoc_new {A} (l : list (nat * A)) k v : ~ In k (akeys l) -> alookup k (l ++ [(k, v)]) = Some v.
Proof.
  intros H. apply alookup_None in H. rewrite alookup_app, H. simpl. now rewrite Nat.eqb_refl.
Qed.

Lemma alookup_init {A} (f : nat -> A) lo c : forall s x,
  alookup x (map (fun i => (lo + i, f i)) (seq s c)) =
  if (lo + s <=? x) && (x <? lo + s + c) then Some (f (x - lo)) else None.
Proof.
  induction c as [|c IH]; intros s x; simpl.
  - destruct (Nat.leb_spec (lo + s) x), (Nat.ltb_spec x (lo + s + 0)); simpl; try reflexivity; lia.
  - destruct (Nat.eqb_spec x (lo + s)) as [->|Hne].
    + destruct (Nat.leb_spec (lo + s) (lo + s)), (Nat.ltb_spec (lo + s) (lo + s + S c)); simpl; try lia.
      f_equal. f_equal. lia.
    + rewrite IH.
      destruct (Nat.leb_spec (lo + S s) x), (Nat.ltb_spec x (lo + S s + c)),
        (Nat.leb_spec (lo + s) x), (Nat.ltb_spec x (lo + s + S c)); simpl; try reflexivity; lia.
Qed.

Lemma alookup_init0 {A} (f : nat -> A) lo c x y :
  alookup x (map (fun i => (lo + i, f i)) (seq 0 c)) = Some y <-> (lo <= x /\ x < lo + c /\ y = f (x - lo)).
Proof.
  rewrite alookup_init.
  destruct (Nat.leb_spec (lo + 0) x), (Nat.ltb_spec x (lo + 0 + c)); simpl; split; intros H;
    try discriminate; try lia.
  - inversion H. lia.
  - destruct H as (_ & _ & ->). reflexivity.
Qed.

Lemma akeys_init {A} (f : nat -> A) lo c :
  akeys (map (fun i => (lo + i, f i)) (seq 0 c)) = map (fun i => lo + i) (seq 0 c).
Proof. unfold akeys. rewrite map_map. reflexivity. Qed.

Lemma NoDup_shift lo c : NoDup (map (fun i => lo + i) (seq 0 c)).
Proof. apply FinFun.Injective_map_NoDup; [|apply seq_NoDup]. intros a b H. lia. Qed.

Lemma In_shift lo c x : In x (map (fun i => lo + i) (seq 0 c)) <-> lo <= x /\ x < lo + c.
Proof.
  rewrite in_map_iff. split.
  - intros [i [E Hi]]. apply in_seq in Hi. lia.
  - intros H. exists (x - lo). rewrite in_seq. lia.
Qed.

(** * Leaf sets: appending rows does not change the leaf sets of the ids already defined *)
Lemma ids_lt_app_l n D1 D2 : ids_lt n (D1 ++ D2) -> ids_lt n D1.
Proof.
  intros H t r Hr. apply (H t r). rewrite nth_error_app1; [exact Hr|]. apply nth_error_Some. congruence.
Qed.

Lemma leaves_app_prefix n D1 D2 : ids_lt n (D1 ++ D2) ->
  forall k, k < n + length D1 -> leaves n (D1 ++ D2) k = leaves n D1 k.
Proof.
  intros Hids. assert (Hids1 := ids_lt_app_l _ _ _ Hids).
  intros k. induction k as [k IH] using lt_wf_ind. intros Hk.
  destruct (Nat.lt_ge_cases k n) as [Hlt|Hge]; [now rewrite !leaves_leaf|].
  remember (k - n) as t eqn:Et. assert (Ek : k = n + t) by lia. subst k.
  assert (Ht : t < length D1) by lia.
  destruct (nth_error D1 t) as [r|] eqn:Er; [|apply nth_error_None in Er; lia].
  assert (Er2 : nth_error (D1 ++ D2) t = Some r) by (rewrite nth_error_app1; assumption).
  rewrite (leaves_node _ _ _ _ Hids Er2), (leaves_node _ _ _ _ Hids1 Er).
  destruct (Hids1 _ _ Er) as [Hl Hr].
  rewrite (IH (r_left r)), (IH (r_right r)) by lia. reflexivity.
Qed.

Lemma ids_lt_snoc n R r : ids_lt n R -> r_left r < n + length R -> r_right r < n + length R -> ids_lt n (R ++ [r]).
Proof.
  intros H Hl Hr t r0 Hr0. destruct (Nat.lt_ge_cases t (length R)) as [Hlt|Hge].
  - rewrite nth_error_app1 in Hr0 by assumption. now apply H.
  - assert (Ht : t < length (R ++ [r])) by (apply nth_error_Some; congruence).
    rewrite app_length in Ht. simpl in Ht. assert (t = length R) by lia. subst t.
    rewrite nth_error_app_length in Hr0. inversion Hr0; subst r0. tauto.
Qed.

Lemma ids_lt_children_lt n R : ids_lt n R -> forall c, In c (flat_map children R) -> c < n + length R.
Proof.
  intros H c Hc. apply in_flat_map in Hc. destruct Hc as [r [Hr Hc]].
  apply In_nth_error in Hr. destruct Hr as [t Ht].
  assert (t < length R) by (apply nth_error_Some; congruence).
  destruct (H _ _ Ht) as [H1 H2]. destruct Hc as [<-|[<-|[]]]; lia.
Qed.

Lemma own_view_snoc n R r : ids_lt n (R ++ [r]) ->
  own_view n (R ++ [r]) = own_view n R ++ [(leaves n R (r_left r), leaves n R (r_right r), r_height r)].
Proof.
  intros Hids. unfold own_view. rewrite map_app. simpl.
  destruct (Hids (length R) r (nth_error_app_length R [] r)) as [Hl Hr].
  rewrite (leaves_app_prefix n R [r] Hids (r_left r)) by assumption.
  rewrite (leaves_app_prefix n R [r] Hids (r_right r)) by assumption. f_equal.
  apply map_ext_in. intros x Hx. apply In_nth_error in Hx. destruct Hx as [t Ht].
  assert (t < length R) by (apply nth_error_Some; congruence).
  destruct (Hids t x) as [H1 H2]. { rewrite nth_error_app1; assumption. }
  rewrite (leaves_app_prefix n R [r] Hids (r_left x)) by lia.
  rewrite (leaves_app_prefix n R [r] Hids (r_right x)) by lia. reflexivity.
Qed.

(** * Leaves of one side *)
Definition SL (n : nat) (D : dendrogram) (lo cnt x : nat) : list nat := side_leaves lo cnt (leaves n D x).

Lemma side_leaves_app lo cnt l1 l2 : side_leaves lo cnt (l1 ++ l2) = side_leaves lo cnt l1 ++ side_leaves lo cnt l2.
Proof. unfold side_leaves. now rewrite filter_app, map_app. Qed.

Lemma SL_leaf_in n D lo cnt x : x < n -> lo <= x -> x < lo + cnt -> SL n D lo cnt x = [x - lo].
Proof.
  intros H H1 H2. unfold SL, side_leaves. rewrite leaves_leaf by assumption. simpl.
  apply Nat.leb_le in H1. apply Nat.ltb_lt in H2. now rewrite H1, H2.
Qed.

Lemma SL_leaf_ne n D lo cnt x : x < n -> SL n D lo cnt x <> [] -> lo <= x /\ x < lo + cnt.
Proof.
  intros H. unfold SL, side_leaves. rewrite leaves_leaf by assumption. simpl.
  destruct (Nat.leb_spec lo x), (Nat.ltb_spec x (lo + cnt)); simpl; intros E; try congruence; lia.
Qed.

Lemma SL_node n D lo cnt t r : ids_lt n D -> nth_error D t = Some r ->
  SL n D lo cnt (n + t) = SL n D lo cnt (r_left r) ++ SL n D lo cnt (r_right r).
Proof. intros Hids Hr. unfold SL. now rewrite (leaves_node _ _ _ _ Hids Hr), side_leaves_app. Qed.

Definition view := (list nat * list nat * Q)%type.

Definition rv (n : nat) (D : dendrogram) (lo cnt : nat) (rows : dendrogram) : list view :=
  flat_map (fun r =>
              let a := side_leaves lo cnt (leaves n D (r_left r)) in
              let b := side_leaves lo cnt (leaves n D (r_right r)) in
              match a, b with
              | _ :: _, _ :: _ => [(a, b, r_height r)]
              | _, _ => []
              end) rows.

Lemma rv_full n D lo cnt : restrict_view n D lo cnt = rv n D lo cnt D.
Proof. reflexivity. Qed.

Lemma rv_snoc n D lo cnt done r :
  rv n D lo cnt (done ++ [r]) =
  rv n D lo cnt done ++
  match SL n D lo cnt (r_left r), SL n D lo cnt (r_right r) with
  | _ :: _, _ :: _ => [(SL n D lo cnt (r_left r), SL n D lo cnt (r_right r), r_height r)]
  | _, _ => []
  end.
Proof. unfold rv. rewrite flat_map_app. simpl. rewrite app_nil_r. reflexivity. Qed.

(** split_dendrogram (sknetwork/hierarchy/postprocess.py) returns two valid dendrograms that agree with the
    full dendrogram restricted to each side (property C07). *)
From Coq Require Import Permutation Sorted Lia.
From Coq Require FinFun.
From SKN Require Import Base.Util Model.Dendrogram Model.Cuts Model.Hierarchy Proofs.DendroBase Proofs.HierarchyBase.
Set Warnings "-notation-overridden".

(** * Association lists (complements) *)
Lemma amem_true {A} k (l : list (nat * A)) : amem k l = true <-> In k (akeys l).
Proof.
  unfold amem. destruct (alookup k l) eqn:E.
  - split; [intros _; eapply alookup_key; eauto | reflexivity].
  - split; [discriminate|]. intros H. apply alookup_None in E. tauto.
Qed.

Lemma amem_false {A} k (l : list (nat * A)) : amem k l = false <-> ~ In k (akeys l).
Proof.
  rewrite <- amem_true. destruct (amem k l); split; intros H; try congruence; try discriminate.
Qed.

Lemma aremove_app_l {A} k (l1 l2 : list (nat * A)) v :
  alookup k l1 = Some v -> aremove k (l1 ++ l2) = aremove k l1 ++ l2.
Proof.
  induction l1 as [|[k' v'] t IH]; simpl; [discriminate|].
  destruct (Nat.eqb k k'); [reflexivity|]. intros H. simpl. now rewrite IH.
Qed.

Lemma alookup_aremove_Some {A} x c (l : list (nat * A)) y :
  NoDup (akeys l) -> alookup x (aremove c l) = Some y -> x <> c /\ alookup x l = Some y.
Proof.
  intros Hnd H. destruct (Nat.eq_dec x c) as [->|Hne].
  - rewrite alookup_aremove_eq in H by assumption. discriminate.
  - rewrite alookup_aremove_neq in H by assumption. tauto.
Qed.

Lemma alookup_snoc_inv {A} x (l : list (nat * A)) k v y :
  alookup x (l ++ [(k, v)]) = Some y -> alookup x l = Some y \/ (x = k /\ y = v).
Proof.
  rewrite alookup_app. destruct (alookup x l); [tauto|]. simpl.
  destruct (Nat.eqb x k) eqn:E; [|discriminate]. apply Nat.eqb_eq in E. intros H; inversion H. tauto.
Qed.

Lemma alookup_app_old {A} x (l l2 : list (nat * A)) y : alookup x l = Some y -> alookup x (l ++ l2) = Some y.
Proof. intros H. now rewrite alookup_app, H. Qed.

Lemma alookup_snoc_new {A} (l : list (nat * A)) k v : ~ In k (akeys l) -> alookup k (l ++ [(k, v)]) = Some v.
Proof.
  intros H. apply alookup_None in H. rewrite alookup_app, H. simpl. now rewrite Nat.eqb_refl.
Qed.

Lemma alookup_init {A} (f : nat -> A) lo c : forall s x,
  alookup x (map (fun i => (lo + i, f i)) (seq s c)) =
  if (lo + s <=? x) && (x <? lo + s + c) then Some (f (x - lo)) else None.
Proof.
  induction c as [|c IH]; intros s x; simpl.
  - destruct (Nat.leb_spec (lo + s) x), (Nat.ltb_spec x (lo + s + 0)); simpl; try reflexivity; lia.
  - destruct (Nat.eqb_spec x (lo + s)) as [->|Hne].
    + destruct (Nat.leb_spec (lo + s) (lo + s)), (Nat.ltb_spec (lo + s) (lo + s + S c)); simpl; try lia.
      f_equal. f_equal. lia.
    + rewrite IH.
      destruct (Nat.leb_spec (lo + S s) x), (Nat.ltb_spec x (lo + S s + c)),
        (Nat.leb_spec (lo + s) x), (Nat.ltb_spec x (lo + s + S c)); simpl; try reflexivity; lia.
Qed.

Lemma alookup_init0 {A} (f : nat -> A) lo c x y :
  alookup x (map (fun i => (lo + i, f i)) (seq 0 c)) = Some y <-> (lo <= x /\ x < lo + c /\ y = f (x - lo)).
Proof.
  rewrite alookup_init.
  destruct (Nat.leb_spec (lo + 0) x), (Nat.ltb_spec x (lo + 0 + c)); simpl; split; intros Hx;
    try discriminate; try lia.
  - inversion Hx. repeat split; lia.
  - destruct Hx as (_ & _ & ->). reflexivity.
Qed.

Lemma akeys_init {A} (f : nat -> A) lo c :
  akeys (map (fun i => (lo + i, f i)) (seq 0 c)) = map (fun i => lo + i) (seq 0 c).
Proof. unfold akeys. rewrite map_map. reflexivity. Qed.

Lemma NoDup_shift lo c : NoDup (map (fun i => lo + i) (seq 0 c)).
Proof. apply FinFun.Injective_map_NoDup; [|apply seq_NoDup]. intros a b H. lia. Qed.

Lemma In_shift lo c x : In x (map (fun i => lo + i) (seq 0 c)) <-> lo <= x /\ x < lo + c.
Proof.
  rewrite in_map_iff. split.
  - intros [i [E Hi]]. apply in_seq in Hi. lia.
  - intros H. exists (x - lo). rewrite in_seq. lia.
Qed.

(** * Leaf sets: appending rows does not change the leaf sets of the ids already defined *)
Lemma ids_lt_app_l n D1 D2 : ids_lt n (D1 ++ D2) -> ids_lt n D1.
Proof.
  intros H t r Hr. apply (H t r). rewrite nth_error_app1; [exact Hr|]. apply nth_error_Some. congruence.
Qed.

Lemma leaves_app_prefix n D1 D2 : ids_lt n (D1 ++ D2) ->
  forall k, k < n + length D1 -> leaves n (D1 ++ D2) k = leaves n D1 k.
Proof.
  intros Hids. assert (Hids1 := ids_lt_app_l _ _ _ Hids).
  intros k. induction k as [k IH] using lt_wf_ind. intros Hk.
  destruct (Nat.lt_ge_cases k n) as [Hlt|Hge]; [now rewrite !leaves_leaf|].
  remember (k - n) as t eqn:Et. assert (Ek : k = n + t) by lia. subst k.
  assert (Ht : t < length D1) by lia.
  destruct (nth_error D1 t) as [r|] eqn:Er; [|apply nth_error_None in Er; lia].
  assert (Er2 : nth_error (D1 ++ D2) t = Some r) by (rewrite nth_error_app1; assumption).
  rewrite (leaves_node _ _ _ _ Hids Er2), (leaves_node _ _ _ _ Hids1 Er).
  destruct (Hids1 _ _ Er) as [Hl Hr].
  rewrite (IH (r_left r)), (IH (r_right r)) by lia. reflexivity.
Qed.

Lemma ids_lt_snoc n R r : ids_lt n R -> r_left r < n + length R -> r_right r < n + length R -> ids_lt n (R ++ [r]).
Proof.
  intros H Hl Hr t r0 Hr0. destruct (Nat.lt_ge_cases t (length R)) as [Hlt|Hge].
  - rewrite nth_error_app1 in Hr0 by assumption. now apply H.
  - assert (Ht : t < length (R ++ [r])) by (apply nth_error_Some; congruence).
    rewrite app_length in Ht. simpl in Ht. assert (t = length R) by lia. subst t.
    rewrite nth_error_app_length in Hr0. inversion Hr0; subst r0. tauto.
Qed.

Lemma ids_lt_children_lt n R : ids_lt n R -> forall c, In c (flat_map children R) -> c < n + length R.
Proof.
  intros H c Hc. apply in_flat_map in Hc. destruct Hc as [r [Hr Hc]].
  apply In_nth_error in Hr. destruct Hr as [t Ht].
  assert (t < length R) by (apply nth_error_Some; congruence).
  destruct (H _ _ Ht) as [H1 H2]. destruct Hc as [<-|[<-|[]]]; lia.
Qed.

Lemma own_view_snoc n R r : ids_lt n (R ++ [r]) ->
  own_view n (R ++ [r]) = own_view n R ++ [(leaves n R (r_left r), leaves n R (r_right r), r_height r)].
Proof.
  intros Hids. unfold own_view. rewrite map_app. simpl.
  destruct (Hids (length R) r (nth_error_app_length R [] r)) as [Hl Hr].
  rewrite (leaves_app_prefix n R [r] Hids (r_left r)) by assumption.
  rewrite (leaves_app_prefix n R [r] Hids (r_right r)) by assumption. f_equal.
  apply map_ext_in. intros x Hx. apply In_nth_error in Hx. destruct Hx as [t Ht].
  assert (t < length R) by (apply nth_error_Some; congruence).
  destruct (Hids t x) as [H1 H2]. { rewrite nth_error_app1; assumption. }
  rewrite (leaves_app_prefix n R [r] Hids (r_left x)) by lia.
  rewrite (leaves_app_prefix n R [r] Hids (r_right x)) by lia. reflexivity.
Qed.

(** * Leaves of one side *)
Definition SL (n : nat) (D : dendrogram) (lo cnt x : nat) : list nat := side_leaves lo cnt (leaves n D x).

Lemma side_leaves_app lo cnt l1 l2 : side_leaves lo cnt (l1 ++ l2) = side_leaves lo cnt l1 ++ side_leaves lo cnt l2.
Proof. unfold side_leaves. now rewrite filter_app, map_app. Qed.

Lemma SL_leaf_in n D lo cnt x : x < n -> lo <= x -> x < lo + cnt -> SL n D lo cnt x = [x - lo].
Proof.
  intros H H1 H2. unfold SL, side_leaves. rewrite leaves_leaf by assumption. simpl.
  apply Nat.leb_le in H1. apply Nat.ltb_lt in H2. now rewrite H1, H2.
Qed.

Lemma SL_leaf_ne n D lo cnt x : x < n -> SL n D lo cnt x <> [] -> lo <= x /\ x < lo + cnt.
Proof.
  intros H. unfold SL, side_leaves. rewrite leaves_leaf by assumption. simpl.
  destruct (Nat.leb_spec lo x), (Nat.ltb_spec x (lo + cnt)); simpl; intros E; try congruence; lia.
Qed.

Lemma SL_node n D lo cnt t r : ids_lt n D -> nth_error D t = Some r ->
  SL n D lo cnt (n + t) = SL n D lo cnt (r_left r) ++ SL n D lo cnt (r_right r).
Proof. intros Hids Hr. unfold SL. now rewrite (leaves_node _ _ _ _ Hids Hr), side_leaves_app. Qed.

Definition view := (list nat * list nat * Q)%type.

Definition rv (n : nat) (D : dendrogram) (lo cnt : nat) (rows : dendrogram) : list view :=
  flat_map (fun r =>
              let a := side_leaves lo cnt (leaves n D (r_left r)) in
              let b := side_leaves lo cnt (leaves n D (r_right r)) in
              match a, b with
              | _ :: _, _ :: _ => [(a, b, r_height r)]
              | _, _ => []
              end) rows.

Lemma rv_full n D lo cnt : restrict_view n D lo cnt = rv n D lo cnt D.
Proof. reflexivity. Qed.

Lemma rv_snoc n D lo cnt done r :
  rv n D lo cnt (done ++ [r]) =
  rv n D lo cnt done ++
  match SL n D lo cnt (r_left r), SL n D lo cnt (r_right r) with
  | _ :: _, _ :: _ => [(SL n D lo cnt (r_left r), SL n D lo cnt (r_right r), r_height r)]
  | _, _ => []
  end.
Proof. unfold rv. rewrite flat_map_app. simpl. rewrite app_nil_r. reflexivity. Qed.

(** * split_step in normal form *)
Lemma split_step_merge key r id sz nw R a b si sj :
  r_left r <> r_right r ->
  alookup (r_left r) id = Some a -> alookup (r_right r) id = Some b ->
  alookup (r_left r) sz = Some si -> alookup (r_right r) sz = Some sj ->
  split_step key r {| s_id := id; s_size := sz; s_new := nw; s_rows := R |} =
  Ok {| s_id := aremove (r_right r) (aremove (r_left r) id) ++ [(key, nw)];
        s_size := aremove (r_right r) (aremove (r_left r) sz) ++ [(key, si + sj)];
        s_new := S nw; s_rows := R ++ [(a, b, r_height r, si + sj)] |}.
Proof.
  intros Hne Ha Hb Hsi Hsj. unfold split_step, amem. simpl.
  rewrite Ha, Hb, Hsi. simpl.
  rewrite (alookup_aremove_neq (r_right r) (r_left r)) by congruence. rewrite Hsj.
  rewrite alookup_app, Ha.
  rewrite alookup_aremove_neq by congruence. rewrite alookup_app, Hb.
  rewrite (aremove_app_l _ _ _ _ Ha).
  rewrite (aremove_app_l (r_right r) (aremove (r_left r) id) _ b)
    by (rewrite alookup_aremove_neq by congruence; exact Hb).
  reflexivity.
Qed.

Lemma split_step_left key r id sz nw R a si :
  alookup (r_left r) id = Some a -> alookup (r_right r) id = None -> alookup (r_left r) sz = Some si ->
  split_step key r {| s_id := id; s_size := sz; s_new := nw; s_rows := R |} =
  Ok {| s_id := aremove (r_left r) id ++ [(key, a)]; s_size := aremove (r_left r) sz ++ [(key, si)];
        s_new := nw; s_rows := R |}.
Proof. intros Ha Hb Hsi. unfold split_step, amem. simpl. rewrite Ha, Hb, Hsi. reflexivity. Qed.

Lemma split_step_right key r id sz nw R b sj :
  alookup (r_left r) id = None -> alookup (r_right r) id = Some b -> alookup (r_right r) sz = Some sj ->
  split_step key r {| s_id := id; s_size := sz; s_new := nw; s_rows := R |} =
  Ok {| s_id := aremove (r_right r) id ++ [(key, b)]; s_size := aremove (r_right r) sz ++ [(key, sj)];
        s_new := nw; s_rows := R |}.
Proof. intros Ha Hb Hsj. unfold split_step, amem. simpl. rewrite Ha, Hb, Hsj. reflexivity. Qed.

Lemma split_step_skip key r st :
  alookup (r_left r) (s_id st) = None -> alookup (r_right r) (s_id st) = None -> split_step key r st = Ok st.
Proof. intros Ha Hb. unfold split_step, amem. rewrite Ha, Hb. reflexivity. Qed.

(** * The loop invariant

    After the first [t] rows of D ([C]: their children, [V]: the restricted view of these rows). *)
Record sinv (n : nat) (D : dendrogram) (lo cnt t : nat) (C : list nat) (V : list view) (st : sstate) : Prop := {
  i_ndid : NoDup (akeys (s_id st));
  i_ndsz : NoDup (akeys (s_size st));
  i_ne : s_id st <> [];
  i_keys : forall x, In x (akeys (s_id st)) <-> (x < n + t /\ ~ In x C /\ SL n D lo cnt x <> []);
  i_dead : forall c, In c C -> c < n + t;
  i_szk : forall x, In x (akeys (s_size st)) -> In x (akeys (s_id st));
  i_sz : forall x y, alookup x (s_id st) = Some y -> alookup x (s_size st) = Some (csize cnt (s_rows st) y);
  i_val : forall x y, alookup x (s_id st) = Some y ->
            y < cnt + length (s_rows st) /\ ~ In y (flat_map children (s_rows st)) /\
            leaves cnt (s_rows st) y = SL n D lo cnt x;
  i_inj : forall x x' y, alookup x (s_id st) = Some y -> alookup x' (s_id st) = Some y -> x = x';
  i_new : s_new st = cnt + length (s_rows st);
  i_Rnd : NoDup (flat_map children (s_rows st));
  i_Rlt : ids_lt cnt (s_rows st);
  i_Rsz : sizes_add cnt (s_rows st);
  i_cnt : length (s_id st) + length (s_rows st) = cnt;
  i_view : own_view cnt (s_rows st) = V }.

Lemma sinv_init n D lo cnt : 1 <= cnt -> lo + cnt <= n -> sinv n D lo cnt 0 [] [] (split_init lo cnt).
Proof.
  intros Hc Hn. unfold split_init. split; simpl.
  - rewrite akeys_init. apply NoDup_shift.
  - rewrite akeys_init. apply NoDup_shift.
  - destruct cnt; [lia|discriminate].
  - intros x. rewrite akeys_init, In_shift. split.
    + intros [H1 H2]. split; [lia|]. split; [tauto|]. rewrite SL_leaf_in by lia. discriminate.
    + intros (H1 & _ & H2). apply SL_leaf_ne in H2; lia.
  - tauto.
  - intros x. now rewrite !akeys_init.
  - intros x y H. apply alookup_init0 in H. destruct H as (H1 & H2 & ->).
    rewrite csize_leaf by lia. apply alookup_init0. repeat split; lia.
  - intros x y H. apply alookup_init0 in H. destruct H as (H1 & H2 & ->).
    split; [lia|]. split; [tauto|]. rewrite leaves_leaf by lia. rewrite SL_leaf_in by lia. reflexivity.
  - intros x x' y H H'. apply alookup_init0 in H. apply alookup_init0 in H'. lia.
  - lia.
  - constructor.
  - intros t r Hr. destruct t; discriminate.
  - intros t r Hr. destruct t; discriminate.
  - rewrite map_length, seq_length. lia.
  - reflexivity.
Qed.

(** ** Neither child meets the side *)
Lemma inv_skip n D lo cnt t C V st i j C' :
  sinv n D lo cnt t C V st ->
  i < n + t -> j < n + t ->
  SL n D lo cnt i = [] -> SL n D lo cnt j = [] -> SL n D lo cnt (n + t) = [] ->
  (forall x, In x C' <-> In x C \/ x = i \/ x = j) ->
  sinv n D lo cnt (S t) C' V st.
Proof.
  intros [Hndid Hndsz Hne Hkeys Hdead Hszk Hsz Hval Hinj Hnew HRnd HRlt HRsz Hcnt Hview] Hi Hj Ei Ej Ek HC'.
  split; try assumption.
  - intros x. rewrite Hkeys, HC'. split.
    + intros (H1 & H2 & H3). split; [lia|]. split; [|assumption].
      intros [Hc|[-> | ->]]; [tauto | now apply H3 | now apply H3].
    + intros (H1 & H2 & H3). destruct (Nat.eq_dec x (n + t)) as [->|Hx]; [now elim H3|].
      split; [lia|]. split; [tauto|assumption].
  - intros c Hc. apply HC' in Hc. destruct Hc as [Hc|[-> | ->]]; [apply Hdead in Hc; lia | lia | lia].
Qed.

(** ** Exactly one child [c] meets the side: its entry is renamed *)
Lemma inv_rename n D lo cnt t C V id sz nw R c c' C' :
  sinv n D lo cnt t C V {| s_id := id; s_size := sz; s_new := nw; s_rows := R |} ->
  c < n + t -> c' < n + t -> ~ In c C -> ~ In c' C ->
  SL n D lo cnt c <> [] -> SL n D lo cnt c' = [] -> SL n D lo cnt (n + t) = SL n D lo cnt c ->
  (forall x, In x C' <-> In x C \/ x = c \/ x = c') ->
  exists a, alookup c id = Some a /\ alookup c' id = None /\ alookup c sz = Some (csize cnt R a) /\
    sinv n D lo cnt (S t) C' V
      {| s_id := aremove c id ++ [(n + t, a)]; s_size := aremove c sz ++ [(n + t, csize cnt R a)];
         s_new := nw; s_rows := R |}.
Proof.
  intros [Hndid Hndsz Hne Hkeys Hdead Hszk Hsz Hval Hinj Hnew HRnd HRlt HRsz Hcnt Hview]
         Hc Hc' HnC HnC' Ec Ec' Ek HC'. simpl in *.
  assert (Hkc : In c (akeys id)) by (apply Hkeys; tauto).
  destruct (In_key_alookup _ _ Hkc) as [a Ha].
  assert (Hnc' : alookup c' id = None).
  { apply alookup_None. intros Hk. apply Hkeys in Hk. tauto. }
  assert (Hsa := Hsz _ _ Ha).
  assert (Hkid : ~ In (n + t) (akeys id)) by (intros Hk; apply Hkeys in Hk; lia).
  assert (Hksz : ~ In (n + t) (akeys sz)) by (intros Hk; apply Hszk in Hk; tauto).
  assert (Hlk : forall x y, alookup x (aremove c id ++ [(n + t, a)]) = Some y ->
                            (x <> c /\ alookup x id = Some y) \/ (x = n + t /\ y = a)).
  { intros x y H. apply alookup_snoc_inv in H. destruct H as [H|H]; [left|now right].
    now apply alookup_aremove_Some in H. }
  exists a. split; [exact Ha|]. split; [exact Hnc'|]. split; [exact Hsa|].
  split; simpl; try assumption.
  - apply NoDup_akeys_app_fresh; [now apply NoDup_aremove|]. intros Hk. apply akeys_aremove_In in Hk. tauto.
  - apply NoDup_akeys_app_fresh; [now apply NoDup_aremove|]. intros Hk. apply akeys_aremove_In in Hk. tauto.
  - intros E. apply app_eq_nil in E. destruct E; discriminate.
  - intros x. rewrite akeys_app, in_app_iff, akeys_aremove_iff, Hkeys, HC' by assumption. simpl. split.
    + intros [[(H1 & H2 & H3) H4]|[<-|[]]].
      * split; [lia|]. split; [|assumption]. intros [Hx|[-> | ->]]; [tauto | congruence | now apply H3].
      * split; [lia|]. split; [|now rewrite Ek]. intros [Hx|[Hx|Hx]]; [apply Hdead in Hx; lia | lia | lia].
    + intros (H1 & H2 & H3). destruct (Nat.eq_dec x (n + t)) as [->|Hx]; [right; now left|].
      left. split; [|intros ->; apply H2; tauto]. split; [lia|]. split; [tauto|assumption].
  - intros x Hx. apply HC' in Hx. destruct Hx as [Hx|[-> | ->]]; [apply Hdead in Hx; lia | lia | lia].
  - intros x. rewrite !akeys_app, !in_app_iff, !akeys_aremove_iff by assumption. simpl.
    intros [[H1 H2]|H]; [left; split; [now apply Hszk|assumption] | now right].
  - intros x y H. apply Hlk in H. destruct H as [[Hx H]|[-> ->]].
    + apply alookup_app_old. rewrite alookup_aremove_neq by assumption. now apply Hsz.
    + apply alookup_snoc_new. intros Hk. apply akeys_aremove_In in Hk. tauto.
  - intros x y H. apply Hlk in H. destruct H as [[Hx H]|[-> ->]].
    + now apply Hval.
    + rewrite Ek. now apply Hval.
  - intros x x' y H H'. apply Hlk in H. apply Hlk in H'.
    destruct H as [[Hx H]|[-> ->]], H' as [[Hx' H']|[-> Ey]].
    + now apply (Hinj x x' y).
    + subst y. elim Hx. now apply (Hinj x c a).
    + elim Hx'. now apply (Hinj x' c a).
    + reflexivity.
  - rewrite app_length. simpl. assert (E := aremove_length _ _ _ Ha). lia.
Qed.

(** ** Both children meet the side: a merge of the side's dendrogram *)
Lemma inv_merge n D lo cnt t C V id sz nw R i j h C' :
  sinv n D lo cnt t C V {| s_id := id; s_size := sz; s_new := nw; s_rows := R |} ->
  i <> j -> i < n + t -> j < n + t -> ~ In i C -> ~ In j C ->
  SL n D lo cnt i <> [] -> SL n D lo cnt j <> [] ->
  SL n D lo cnt (n + t) = SL n D lo cnt i ++ SL n D lo cnt j ->
  (forall x, In x C' <-> In x C \/ x = i \/ x = j) ->
  exists a b, alookup i id = Some a /\ alookup j id = Some b /\
    alookup i sz = Some (csize cnt R a) /\ alookup j sz = Some (csize cnt R b) /\
    sinv n D lo cnt (S t) C' (V ++ [(SL n D lo cnt i, SL n D lo cnt j, h)])
      {| s_id := aremove j (aremove i id) ++ [(n + t, nw)];
         s_size := aremove j (aremove i sz) ++ [(n + t, csize cnt R a + csize cnt R b)];
         s_new := S nw;
         s_rows := R ++ [(a, b, h, csize cnt R a + csize cnt R b)] |}.
Proof.
  intros [Hndid Hndsz Hne Hkeys Hdead Hszk Hsz Hval Hinj Hnew HRnd HRlt HRsz Hcnt Hview]
         Hij Hi Hj HnCi HnCj Ei Ej Ek HC'. simpl in *.
  assert (Hki : In i (akeys id)) by (apply Hkeys; tauto).
  assert (Hkj : In j (akeys id)) by (apply Hkeys; tauto).
  destruct (In_key_alookup _ _ Hki) as [a Ha]. destruct (In_key_alookup _ _ Hkj) as [b Hb].
  assert (Hsa := Hsz _ _ Ha). assert (Hsb := Hsz _ _ Hb).
  assert (Hab : a <> b). { intros ->. apply Hij. now apply (Hinj i j b). }
  destruct (Hval _ _ Ha) as (Hva1 & Hva2 & Hva3). destruct (Hval _ _ Hb) as (Hvb1 & Hvb2 & Hvb3).
  assert (Hkid : ~ In (n + t) (akeys id)) by (intros Hk; apply Hkeys in Hk; lia).
  assert (Hksz : ~ In (n + t) (akeys sz)) by (intros Hk; apply Hszk in Hk; tauto).
  assert (Hnd1 : NoDup (akeys (aremove i id))) by now apply NoDup_aremove.
  assert (Hnd1s : NoDup (akeys (aremove i sz))) by now apply NoDup_aremove.
  assert (Hk2 : forall x, In x (akeys (aremove j (aremove i id))) <-> In x (akeys id) /\ x <> i /\ x <> j).
  { intros x. rewrite !akeys_aremove_iff by assumption. tauto. }
  assert (Hk2s : forall x, In x (akeys (aremove j (aremove i sz))) <-> In x (akeys sz) /\ x <> i /\ x <> j).
  { intros x. rewrite !akeys_aremove_iff by assumption. tauto. }
  assert (Hlk : forall x y, alookup x (aremove j (aremove i id) ++ [(n + t, nw)]) = Some y ->
                            (x <> i /\ x <> j /\ alookup x id = Some y) \/ (x = n + t /\ y = nw)).
  { intros x y H. apply alookup_snoc_inv in H. destruct H as [H|H]; [left|now right].
    apply alookup_aremove_Some in H; [|assumption]. destruct H as [H1 H].
    apply alookup_aremove_Some in H; [|assumption]. tauto. }
  exists a, b. split; [exact Ha|]. split; [exact Hb|]. split; [exact Hsa|]. split; [exact Hsb|].
  set (sa := csize cnt R a) in *. set (sb := csize cnt R b) in *.
  set (row := (a, b, h, sa + sb)).
  assert (HRlt' : ids_lt cnt (R ++ [row])) by (apply ids_lt_snoc; assumption).
  assert (Hrow : nth_error (R ++ [row]) (length R) = Some row) by apply nth_error_app_length.
  assert (Hch : forall c, In c (flat_map children R) -> c < cnt + length R) by now apply ids_lt_children_lt.
  split; simpl.
  - apply NoDup_akeys_app_fresh; [now apply NoDup_aremove|]. rewrite Hk2. tauto.
  - apply NoDup_akeys_app_fresh; [now apply NoDup_aremove|]. rewrite Hk2s. tauto.
  - intros E. apply app_eq_nil in E. destruct E; discriminate.
  - intros x. rewrite akeys_app, in_app_iff, Hk2, Hkeys, HC'. simpl. split.
    + intros [[(H1 & H2 & H3) [H4 H5]]|[<-|[]]].
      * split; [lia|]. split; [|assumption]. intros [Hx|[Hx|Hx]]; [tauto | congruence | congruence].
      * split; [lia|]. split.
        -- intros [Hx|[Hx|Hx]]; [apply Hdead in Hx; lia | lia | lia].
        -- rewrite Ek. intros E. apply app_eq_nil in E. tauto.
    + intros (H1 & H2 & H3). destruct (Nat.eq_dec x (n + t)) as [->|Hx]; [right; now left|].
      left. split; [split; [lia|]; split; [tauto|assumption]|]. split; intros ->; apply H2; tauto.
  - intros x Hx. apply HC' in Hx. destruct Hx as [Hx|[-> | ->]]; [apply Hdead in Hx; lia | lia | lia].
  - intros x. rewrite !akeys_app, !in_app_iff, Hk2, Hk2s. simpl.
    intros [[H1 H2]|H]; [left; split; [now apply Hszk|assumption] | now right].
  - intros x y H. apply Hlk in H. destruct H as [(Hx1 & Hx2 & H)|[-> ->]].
    + destruct (Hval _ _ H) as (Hy & _).
      rewrite csize_app by assumption.
      apply alookup_app_old. rewrite !alookup_aremove_neq by assumption. now apply Hsz.
    + rewrite Hnew. rewrite (csize_node cnt (R ++ [row]) (length R) row Hrow). unfold row, r_size. simpl.
      apply alookup_snoc_new. rewrite Hk2s. tauto.
  - intros x y H. apply Hlk in H. destruct H as [(Hx1 & Hx2 & H)|[-> ->]].
    + destruct (Hval _ _ H) as (Hy1 & Hy2 & Hy3). split; [rewrite app_length; simpl; lia|]. split.
      * rewrite flat_map_app, in_app_iff. simpl. unfold r_left, r_right. simpl.
        intros [Hc|[Hc|[Hc|[]]]]; [tauto | subst y; apply Hx1; now apply (Hinj x i a) |
                                   subst y; apply Hx2; now apply (Hinj x j b)].
      * rewrite leaves_app_prefix by assumption. exact Hy3.
    + rewrite Hnew. split; [rewrite app_length; simpl; lia|]. split.
      * rewrite flat_map_app, in_app_iff. simpl. unfold r_left, r_right. simpl.
        intros [Hc|[Hc|[Hc|[]]]]; [apply Hch in Hc; lia | lia | lia].
      * rewrite (leaves_node cnt (R ++ [row]) (length R) row HRlt' Hrow).
        unfold row, r_left, r_right. simpl. fold row.
        rewrite !leaves_app_prefix by assumption. now rewrite Hva3, Hvb3, Ek.
  - intros x x' y H H'. apply Hlk in H. apply Hlk in H'.
    destruct H as [(Hx1 & Hx2 & H)|[-> Ey]], H' as [(Hx1' & Hx2' & H')|[-> Ey']].
    + now apply (Hinj x x' y).
    + subst y. destruct (Hval _ _ H) as (Hy & _). lia.
    + subst y. destruct (Hval _ _ H') as (Hy & _). lia.
    + reflexivity.
  - rewrite app_length. simpl. lia.
  - rewrite flat_map_app. simpl. unfold r_left, r_right. simpl.
    replace (flat_map children R ++ [a; b]) with ((flat_map children R ++ [a]) ++ [b])
      by (rewrite <- app_assoc; reflexivity).
    apply NoDup_snoc; [now apply NoDup_snoc|]. rewrite in_app_iff. simpl. intros [Hc|[Hc|[]]]; tauto.
  - exact HRlt'.
  - intros t0 r0 Hr0. destruct (Nat.lt_ge_cases t0 (length R)) as [Hlt|Hge].
    + rewrite nth_error_app1 in Hr0 by assumption. destruct (HRlt _ _ Hr0) as [H1 H2].
      rewrite !csize_app by lia. now apply (HRsz t0).
    + assert (Ht0 : t0 < length (R ++ [row])) by (apply nth_error_Some; congruence).
      rewrite app_length in Ht0. simpl in Ht0. assert (t0 = length R) by lia. subst t0.
      rewrite Hrow in Hr0. inversion Hr0; subst r0. unfold row, r_size, r_left, r_right. simpl.
      rewrite !csize_app by assumption. reflexivity.
  - rewrite !app_length. simpl.
    assert (E1 := aremove_length _ _ _ Ha).
    assert (Hb' : alookup j (aremove i id) = Some b) by (rewrite alookup_aremove_neq by congruence; exact Hb).
    assert (E2 := aremove_length _ _ _ Hb'). lia.
  - change (own_view cnt (R ++ [row]) = V ++ [(SL n D lo cnt i, SL n D lo cnt j, h)]).
    rewrite own_view_snoc by exact HRlt'. unfold row, r_left, r_right, r_height. simpl.
    now rewrite Hview, Hva3, Hvb3.
Qed.

(** * One step of the loop on a valid dendrogram *)
Lemma split_step_inv n D lo cnt done r rows st :
  valid n D = true -> D = done ++ r :: rows ->
  sinv n D lo cnt (length done) (flat_map children done) (rv n D lo cnt done) st ->
  exists st', split_step (n + length done) r st = Ok st' /\
    sinv n D lo cnt (S (length done)) (flat_map children (done ++ [r])) (rv n D lo cnt (done ++ [r])) st'.
Proof.
  intros Hv HD Hinv.
  assert (Hids := valid_ids_lt n D Hv).
  destruct (valid_rows n D Hv) as [_ Hrows].
  assert (Hrow : nth_error D (length done) = Some r) by (rewrite HD; apply nth_error_app_length).
  destruct (Hrows _ _ Hrow) as (Hne & Hl & Hr & Hnl & Hnr).
  rewrite HD, firstn_app_length in Hnl, Hnr.
  assert (Ek := SL_node n D lo cnt _ _ Hids Hrow).
  assert (HC' : forall x, In x (flat_map children (done ++ [r])) <->
                          In x (flat_map children done) \/ x = r_left r \/ x = r_right r).
  { intros x. rewrite flat_map_app, in_app_iff. simpl. intuition. }
  rewrite rv_snoc. destruct st as [id sz nw R].
  destruct (SL n D lo cnt (r_left r)) as [|u lu] eqn:Ei; destruct (SL n D lo cnt (r_right r)) as [|w lw] eqn:Ej.
  - (* neither *)
    simpl in Ek. rewrite app_nil_r.
    assert (Ha : alookup (r_left r) id = None).
    { apply alookup_None. intros Hk. apply (i_keys _ _ _ _ _ _ _ _ Hinv) in Hk. tauto. }
    assert (Hb : alookup (r_right r) id = None).
    { apply alookup_None. intros Hk. apply (i_keys _ _ _ _ _ _ _ _ Hinv) in Hk. tauto. }
    eexists. split; [apply split_step_skip; assumption|].
    apply (inv_skip n D lo cnt (length done) (flat_map children done) _ _ (r_left r) (r_right r)); assumption.
  - (* right only *)
    simpl in Ek. rewrite app_nil_r.
    destruct (inv_rename n D lo cnt (length done) _ _ id sz nw R (r_right r) (r_left r)
                (flat_map children (done ++ [r])) Hinv) as (b & Hb & Ha & Hsb & Hinv'); try assumption.
    + rewrite Ej. discriminate.
    + now rewrite Ej.
    + intros x. rewrite HC'. tauto.
    + eexists. split; [apply (split_step_right _ _ _ _ _ _ b (csize cnt R b)); assumption|exact Hinv'].
  - (* left only *)
    rewrite app_nil_r in Ek. rewrite app_nil_r.
    destruct (inv_rename n D lo cnt (length done) _ _ id sz nw R (r_left r) (r_right r)
                (flat_map children (done ++ [r])) Hinv) as (a & Ha & Hb & Hsa & Hinv'); try assumption.
    + rewrite Ei. discriminate.
    + now rewrite Ei.
    + eexists. split; [apply (split_step_left _ _ _ _ _ _ a (csize cnt R a)); assumption|exact Hinv'].
  - (* both *)
    destruct (inv_merge n D lo cnt (length done) _ _ id sz nw R (r_left r) (r_right r) (r_height r)
                (flat_map children (done ++ [r])) Hinv) as (a & b & Ha & Hb & Hsa & Hsb & Hinv'); try assumption.
    + rewrite Ei. discriminate.
    + rewrite Ej. discriminate.
    + now rewrite Ei, Ej.
    + eexists. split; [apply (split_step_merge _ _ _ _ _ _ a b (csize cnt R a) (csize cnt R b)); assumption|].
      rewrite Ei, Ej in Hinv'. exact Hinv'.
Qed.

Lemma split_loop_inv n D lo cnt : valid n D = true ->
  forall rows done st, D = done ++ rows ->
    sinv n D lo cnt (length done) (flat_map children done) (rv n D lo cnt done) st ->
    exists st', split_loop (n + length done) rows st = Ok st' /\
      sinv n D lo cnt (length D) (flat_map children D) (rv n D lo cnt D) st'.
Proof.
  intros Hv. induction rows as [|r rows IH]; intros done st HD Hinv.
  - rewrite app_nil_r in HD. subst done. exists st. split; [reflexivity|assumption].
  - destruct (split_step_inv n D lo cnt done r rows st Hv HD Hinv) as (st1 & Hstep & Hinv1).
    simpl. rewrite Hstep.
    specialize (IH (done ++ [r]) st1). rewrite app_length in IH. simpl in IH.
    replace (n + (length done + 1)) with (S (n + length done)) in IH by lia.
    replace (length done + 1) with (S (length done)) in IH by lia.
    apply IH; [rewrite <- app_assoc; exact HD | exact Hinv1].
Qed.

(** Exactly one cluster is live at the end of a valid dendrogram. *)
Lemma live_unique n D l : valid n D = true -> NoDup l ->
  (forall x, In x l -> x < n + length D /\ ~ In x (flat_map children D)) -> length l <= 1.
Proof.
  intros Hv Hnd Hl. assert (Hv' := Hv). unfold valid, validw in Hv'.
  apply andb_true_iff in Hv'. destruct Hv' as [Hv' _]. apply andb_true_iff in Hv'. destruct Hv' as [_ Hrun].
  rewrite repeat_length in Hrun.
  destruct (valid_run n D (init_live (repeat 1 n))) as [live'|] eqn:E; [|discriminate].
  assert (Hl0 : linv n [] (init_live (repeat 1 n))).
  { assert (X := linv_init (repeat 1 n)). now rewrite repeat_length in X. }
  destruct (valid_run_rows n D D [] _ live' eq_refl Hl0) as [_ (Hndk & Hkeys & _)].
  { simpl. now rewrite Nat.add_0_r. }
  destruct (valid_run_shape _ _ _ _ E) as (_ & Hlen & _).
  unfold init_live in Hlen. rewrite repeat_length, combine_length, seq_length, repeat_length, Nat.min_id in Hlen.
  destruct (valid_rows n D Hv) as [HlenD _].
  assert (Hincl : incl l (akeys live')) by (intros x Hx; apply Hkeys; now apply Hl).
  apply (NoDup_incl_length Hnd) in Hincl. unfold akeys in Hincl. rewrite map_length in Hincl. lia.
Qed.

Lemma split_side_inv D n1 n2 lo cnt :
  valid (n1 + n2) D = true -> 1 <= cnt -> lo + cnt <= n1 + n2 ->
  exists st, split_side D n1 n2 lo cnt = Ok (s_rows st) /\
    sinv (n1 + n2) D lo cnt (length D) (flat_map children D) (restrict_view (n1 + n2) D lo cnt) st.
Proof.
  intros Hv Hc Hlo. destruct (valid_rows _ D Hv) as [Hlen _].
  destruct (split_loop_inv (n1 + n2) D lo cnt Hv D [] (split_init lo cnt) eq_refl) as (st & Hloop & Hinv).
  { simpl. apply sinv_init; assumption. }
  simpl in Hloop. rewrite Nat.add_0_r in Hloop.
  exists st. split; [|exact Hinv].
  unfold split_side.
  replace (Nat.ltb (length D) (n1 + n2 - 1)) with false by (symmetry; apply Nat.ltb_ge; lia).
  rewrite firstn_all2 by lia. now rewrite Hloop.
Qed.

Lemma sinv_final_valid n D lo cnt V st : valid n D = true ->
  sinv n D lo cnt (length D) (flat_map children D) V st -> valid cnt (s_rows st) = true.
Proof.
  intros Hv Hinv. apply wf_valid. split.
  - assert (H1 : length (akeys (s_id st)) <= 1).
    { apply (live_unique n D); [assumption | apply (i_ndid _ _ _ _ _ _ _ _ Hinv) |].
      intros x Hx. apply (i_keys _ _ _ _ _ _ _ _ Hinv) in Hx. tauto. }
    unfold akeys in H1. rewrite map_length in H1.
    assert (H2 := i_ne _ _ _ _ _ _ _ _ Hinv). assert (H3 := i_cnt _ _ _ _ _ _ _ _ Hinv).
    destruct (s_id st) as [|p q]; [congruence|]. simpl in *. lia.
  - apply (i_Rnd _ _ _ _ _ _ _ _ Hinv).
  - apply (i_Rlt _ _ _ _ _ _ _ _ Hinv).
  - apply (i_Rsz _ _ _ _ _ _ _ _ Hinv).
Qed.

(** * Main theorems *)
Theorem split_side_valid : forall D n1 n2 lo cnt,
  valid (n1 + n2) D = true -> 1 <= cnt -> lo + cnt <= n1 + n2 ->
  exists R, split_side D n1 n2 lo cnt = Ok R /\ valid cnt R = true.
Proof.
  intros D n1 n2 lo cnt Hv Hc Hlo.
  destruct (split_side_inv D n1 n2 lo cnt Hv Hc Hlo) as (st & Hs & Hinv).
  exists (s_rows st). split; [exact Hs|]. exact (sinv_final_valid _ _ _ _ _ _ Hv Hinv).
Qed.

Theorem split_side_agrees : forall D n1 n2 lo cnt R,
  valid (n1 + n2) D = true -> 1 <= cnt -> lo + cnt <= n1 + n2 ->
  split_side D n1 n2 lo cnt = Ok R ->
  own_view cnt R = restrict_view (n1 + n2) D lo cnt.
Proof.
  intros D n1 n2 lo cnt R Hv Hc Hlo HR.
  destruct (split_side_inv D n1 n2 lo cnt Hv Hc Hlo) as (st & Hs & Hinv).
  rewrite Hs in HR. inversion HR; subst R. apply (i_view _ _ _ _ _ _ _ _ Hinv).
Qed.

(** * Heights: the rows of a side are a sub-sequence of the rows of the full dendrogram *)
Inductive sublist {A : Type} : list A -> list A -> Prop :=
| sub_nil : sublist [] []
| sub_skip : forall l1 l2 x, sublist l1 l2 -> sublist l1 (x :: l2)
| sub_keep : forall l1 l2 x, sublist l1 l2 -> sublist (x :: l1) (x :: l2).

Lemma sublist_In {A} (l1 l2 : list A) : sublist l1 l2 -> forall x, In x l1 -> In x l2.
Proof.
  induction 1 as [|l1 l2 y Hs IH|l1 l2 y Hs IH]; intros x Hx; simpl in *; [tauto | right; now apply IH |].
  destruct Hx as [Hx|Hx]; [now left | right; now apply IH].
Qed.

Definition qleb (a b : Q) : Prop := Qle_bool a b = true.

Lemma qleb_trans a b c : qleb a b -> qleb b c -> qleb a c.
Proof. unfold qleb. rewrite !Qle_bool_iff. apply Qle_trans. Qed.

Lemma sortedq_SS l : sortedq l = true <-> StronglySorted qleb l.
Proof.
  induction l as [|a l IH]; [split; [constructor | reflexivity]|].
  destruct l as [|b t].
  - split; [intros _; constructor; constructor | reflexivity].
  - change (sortedq (a :: b :: t)) with (Qle_bool a b && sortedq (b :: t)).
    rewrite andb_true_iff, IH. split.
    + intros [Hab Hs]. constructor; [exact Hs|]. constructor; [exact Hab|].
      apply StronglySorted_inv in Hs. destruct Hs as [_ Hf].
      eapply Forall_impl; [|exact Hf]. intros c Hc. now apply (qleb_trans a b c).
    + intros Hs. apply StronglySorted_inv in Hs. destruct Hs as [Hs Hf]. split; [|exact Hs].
      now inversion Hf.
Qed.

Lemma SS_sublist (l1 l2 : list Q) : sublist l1 l2 -> StronglySorted qleb l2 -> StronglySorted qleb l1.
Proof.
  induction 1 as [|l1 l2 y Hs IH|l1 l2 y Hs IH]; intros HS.
  - constructor.
  - apply StronglySorted_inv in HS. now apply IH.
  - apply StronglySorted_inv in HS. destruct HS as [HS Hf]. constructor; [now apply IH|].
    rewrite Forall_forall in *. intros x Hx. apply Hf. now apply (sublist_In l1 l2).
Qed.

Lemma split_step_rows key r st st' : split_step key r st = Ok st' ->
  s_rows st' = s_rows st \/ exists a b s, s_rows st' = s_rows st ++ [(a, b, r_height r, s)].
Proof.
  unfold split_step. intros H.
  destruct (amem (r_left r) (s_id st) && amem (r_right r) (s_id st)).
  - destruct (alookup (r_left r) (s_size st)) as [si|]; [|discriminate].
    destruct (alookup (r_right r) (aremove (r_left r) (s_size st))) as [sj|]; [|discriminate].
    destruct (alookup (r_left r) (s_id st ++ [(key, s_new st)])) as [a|]; [|discriminate].
    destruct (alookup (r_right r) (aremove (r_left r) (s_id st ++ [(key, s_new st)]))) as [b|]; [|discriminate].
    inversion H. simpl. right. now exists a, b, (si + sj).
  - destruct (amem (r_left r) (s_id st)).
    + destruct (alookup (r_left r) (s_size st)); [|discriminate].
      destruct (alookup (r_left r) (s_id st)); [|discriminate]. inversion H. now left.
    + destruct (amem (r_right r) (s_id st)).
      * destruct (alookup (r_right r) (s_size st)); [|discriminate].
        destruct (alookup (r_right r) (s_id st)); [|discriminate]. inversion H. now left.
      * inversion H. now left.
Qed.

Lemma split_loop_heights : forall rows key st st', split_loop key rows st = Ok st' ->
  exists hs, heights (s_rows st') = heights (s_rows st) ++ hs /\ sublist hs (heights rows).
Proof.
  induction rows as [|r rows IH]; intros key st st' H; simpl in H.
  - inversion H. exists []. rewrite app_nil_r. split; [reflexivity|constructor].
  - destruct (split_step key r st) as [st1|e] eqn:E; [|discriminate].
    destruct (IH _ _ _ H) as (hs & Hh & Hsub). apply split_step_rows in E.
    destruct E as [E|(a & b & s & E)]; rewrite E in Hh.
    + exists hs. split; [exact Hh|]. simpl. now constructor.
    + exists (r_height r :: hs). split.
      * rewrite Hh. unfold heights. rewrite map_app, <- app_assoc. reflexivity.
      * simpl. now constructor.
Qed.

Theorem split_side_sorted : forall D n1 n2 lo cnt R,
  valid (n1 + n2) D = true -> 1 <= cnt -> lo + cnt <= n1 + n2 ->
  split_side D n1 n2 lo cnt = Ok R ->
  sortedq (heights D) = true -> sortedq (heights R) = true.
Proof.
  intros D n1 n2 lo cnt R Hv Hc Hlo HR Hs.
  destruct (valid_rows _ D Hv) as [Hlen _].
  unfold split_side in HR.
  destruct (Nat.ltb (length D) (n1 + n2 - 1)); [discriminate|].
  rewrite firstn_all2 in HR by lia.
  destruct (split_loop (n1 + n2) D (split_init lo cnt)) as [st|e] eqn:E; [|discriminate].
  inversion HR; subst R.
  destruct (split_loop_heights _ _ _ _ E) as (hs & Hh & Hsub). simpl in Hh. rewrite Hh.
  apply sortedq_SS. apply (SS_sublist hs (heights D) Hsub). now apply sortedq_SS.
Qed.

Theorem split_dendrogram_valid : forall D n1 n2,
  1 <= n1 -> 1 <= n2 -> valid (n1 + n2) D = true ->
  exists Dr Dc, split_dendrogram D n1 n2 = Ok (Dr, Dc) /\ valid n1 Dr = true /\ valid n2 Dc = true.
Proof.
  intros D n1 n2 H1 H2 Hv.
  destruct (split_side_valid D n1 n2 0 n1 Hv H1 ltac:(lia)) as (Dr & Hr & Hvr).
  destruct (split_side_valid D n1 n2 n1 n2 Hv H2 ltac:(lia)) as (Dc & Hc & Hvc).
  exists Dr, Dc. unfold split_dendrogram. rewrite Hr, Hc. auto.
Qed.

Theorem split_dendrogram_agrees : forall D n1 n2 Dr Dc,
  1 <= n1 -> 1 <= n2 -> valid (n1 + n2) D = true -> split_dendrogram D n1 n2 = Ok (Dr, Dc) ->
  own_view n1 Dr = restrict_view (n1 + n2) D 0 n1 /\ own_view n2 Dc = restrict_view (n1 + n2) D n1 n2.
Proof.
  intros D n1 n2 Dr Dc H1 H2 Hv Hs. unfold split_dendrogram in Hs.
  destruct (split_side D n1 n2 0 n1) as [Dr'|e1] eqn:Er; [|discriminate].
  destruct (split_side D n1 n2 n1 n2) as [Dc'|e2] eqn:Ec; [|discriminate].
  inversion Hs; subst Dr' Dc'. split.
  - apply (split_side_agrees D n1 n2 0 n1 Dr Hv H1 ltac:(lia) Er).
  - apply (split_side_agrees D n1 n2 n1 n2 Dc Hv H2 ltac:(lia) Ec).
Qed.

Print Assumptions split_side_valid.
Print Assumptions split_side_agrees.
Print Assumptions split_side_sorted.
Print Assumptions split_dendrogram_valid.
Print Assumptions split_dendrogram_agrees.

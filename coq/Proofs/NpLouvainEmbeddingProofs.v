(** C09, last clause, about the terms regenerated from sknetwork/embedding/louvain_embedding.py
    (Gen/NpLouvainEmbedding.v, language and semantics of Model/NpVec.v), over R: for every matrix (as an index function)
    and every label vector, LouvainEmbedding's embedding equals its closed form: entry (i, c) is the share of the (absolute)
    weight of row i that goes to cluster c;  for a non-negative matrix every row is non-negative and sums to 1 (to 0 for a
    null row). *)
From SKN Require Import Base.Util Model.Gnn Model.NpExpr Model.NpVec Gen.NpLouvainEmbedding Proofs.NpVecProofs
                        Proofs.NpModularityProofs Proofs.NpSecondaryProofs.
Set Warnings "-notation-overridden,-ambiguous-paths".
From Coq Require Import Reals Lra String.
Local Open Scope R_scope.
Local Open Scope string_scope.
Notation ind := NpModularityProofs.ind.

Definition env_le (n1 n2 : nat) (B : nat -> nat -> R) (l : list Z) : venv :=
  ("input_matrix", WM n1 n2 B) :: ("self.labels_", WLab l) :: nil.
Definition env_le_col (n1 n2 : nat) (B : nat -> nat -> R) (l : list Z) : venv :=
  ("input_matrix", WM n1 n2 B) :: ("labels_row", WLab l) :: nil.

(** closed form: pinv(sum_j |B_ij|) * sum_j B_ij [label j = c] *)
Definition le_closed (n2 : nat) (B : nat -> nat -> R) (l : list Z) (i c : nat) : R :=
  pinvT Rdiv 0 1 Reqb (lsum (seq 0 n2) (fun j => Rabs (B i j))) * lsum (seq 0 n2) (fun j => B i j * ind l j c).

Theorem source_louvain_embedding_closed_form n1 n2 B l :
  List.length l = n2 ->
  exists f, rvdenote (env_le n1 n2 B l) src_louvain_embedding = Some (WM n1 (nlab l) f) /\
            forall i c, f i c = le_closed n2 B l i c.
Proof.
  intros Hl. eexists. split.
  - unfold rvdenote, env_le, src_louvain_embedding. repeat (cbn; rewrite ?Nat.eqb_refl, ?Hl). reflexivity.
  - intros i c. cbn beta. unfold le_closed.
    change (lsum (seq 0 n2) (fun j => pinvT Rdiv 0 1 Reqb (lsum (seq 0 n2) (fun j' => Rabs (B i j'))) * B i j * ind l j c) =
            pinvT Rdiv 0 1 Reqb (lsum (seq 0 n2) (fun j => Rabs (B i j))) * lsum (seq 0 n2) (fun j => B i j * ind l j c)).
    rewrite <- lsum_scale. apply lsum_ext. intros j _. ring.
Qed.

Theorem source_louvain_embedding_col_closed_form n1 n2 B l :
  List.length l = n1 ->
  exists f, rvdenote (env_le_col n1 n2 B l) src_louvain_embedding_col = Some (WM n2 (nlab l) f) /\
            forall j c, f j c = le_closed n1 (fun j i => B i j) l j c.
Proof.
  intros Hl. eexists. split.
  - unfold rvdenote, env_le_col, src_louvain_embedding_col. repeat (cbn; rewrite ?Nat.eqb_refl, ?Hl). reflexivity.
  - intros j c. cbn beta. unfold le_closed.
    change (lsum (seq 0 n1) (fun i => pinvT Rdiv 0 1 Reqb (lsum (seq 0 n1) (fun i' => Rabs (B i' j))) * B i j * ind l i c) =
            pinvT Rdiv 0 1 Reqb (lsum (seq 0 n1) (fun i => Rabs (B i j))) * lsum (seq 0 n1) (fun i => B i j * ind l i c)).
    rewrite <- lsum_scale. apply lsum_ext. intros i _. ring.
Qed.

(** for a non-negative matrix and labels in range the rows are probability vectors (or null) *)
Theorem source_louvain_embedding_rows n1 n2 B l i :
  labels_ok n2 l -> nonneg_rect n1 n2 B -> (i < n1)%nat ->
  (forall c, (c < nlab l)%nat -> 0 <= le_closed n2 B l i c) /\
  (0 < lsum (seq 0 n2) (B i) -> lsum (seq 0 (nlab l)) (le_closed n2 B l i) = 1).
Proof.
  intros Hok HB Hi.
  assert (Habs : lsum (seq 0 n2) (fun j => Rabs (B i j)) = lsum (seq 0 n2) (B i)).
  { apply lsum_ext. intros j Hj. apply in_seq0 in Hj. apply Rabs_pos_eq. apply HB; assumption. }
  assert (Hs : 0 <= lsum (seq 0 n2) (B i)) by (apply lsum_nonneg; intros j Hj; apply in_seq0 in Hj; apply HB; assumption).
  unfold le_closed. rewrite Habs. unfold pinvT. split.
  - intros c Hc. pose proof (mass_nonneg n1 n2 B l i c HB Hi) as Hm. unfold mass in Hm.
    destruct (Reqb (lsum (seq 0 n2) (B i)) 0) eqn:E; [lra|].
    assert (lsum (seq 0 n2) (B i) <> 0) by (intros F; apply Reqb_true in F; congruence).
    apply Rmult_le_pos; [|exact Hm]. unfold Rdiv. rewrite Rmult_1_l. apply Rlt_le, Rinv_0_lt_compat. lra.
  - intros Hpos. destruct (Reqb (lsum (seq 0 n2) (B i)) 0) eqn:E; [apply Reqb_true in E; lra|].
    rewrite lsum_scale. pose proof (mass_total n1 n2 (nlab l) B l i (labels_ok_in n2 l Hok)) as Ht. unfold mass in Ht.
    rewrite Ht. field. lra.
Qed.

(** Proofs about Model/Embedding.v (all over Q, no axiom). *)
From SKN Require Import Base.Util Base.QMat Model.Embedding.
From Coq Require Import QArith Qabs Qreduction Qminmax Lqa Psatz Setoid Morphisms Sorted.
Local Open Scope Q_scope.

(* ------------------------------------------------------------------------------------------- *)
(** * Basics *)
Lemma qdot_dot u v : qdot u v == dot u v.
Proof. unfold qdot. apply Qred_correct. Qed.

Lemma qmat_vec_eq M x : qmat_vec M x =v mat_vec M x.
Proof. unfold qmat_vec, mat_vec. apply map_ext_veq. intros r _. apply qdot_dot. Qed.

Lemma qmat_vec_length M x : length (qmat_vec M x) = length M.
Proof. apply map_length. Qed.

Lemma nthq_qmat_vec M x i : (i < length M)%nat -> nthq (qmat_vec M x) i = qdot (nth i M []) x.
Proof. intros Hi. unfold qmat_vec. rewrite (nthq_map_gen (fun r => qdot r x) M []) by exact Hi. reflexivity. Qed.

Lemma pinv_inv x : pinv x == / x.
Proof.
  unfold pinv. destruct (Qeq_bool x 0) eqn:E; [|reflexivity].
  apply Qeq_bool_iff in E. rewrite E. reflexivity.
Qed.

Global Instance pinv_proper : Proper (Qeq ==> Qeq) pinv.
Proof. intros a b H. rewrite !pinv_inv, H. reflexivity. Qed.

Lemma Qlt_bool_true a b : Qlt_bool a b = true -> a < b.
Proof.
  unfold Qlt_bool. intros H. apply negb_true_iff in H. apply Qnot_le_lt. intros Hle.
  apply Qle_bool_iff in Hle. congruence.
Qed.
Lemma Qlt_bool_false a b : Qlt_bool a b = false -> b <= a.
Proof. unfold Qlt_bool. intros H. apply negb_false_iff in H. apply Qle_bool_iff. exact H. Qed.

Lemma qn_S n : qn (S n) == qn n + 1.
Proof. unfold qn. rewrite Nat2Z.inj_succ. unfold Z.succ. rewrite inject_Z_plus. reflexivity. Qed.
Lemma qn_0 : qn 0 == 0.
Proof. reflexivity. Qed.
Lemma qn_pos n : (0 < n)%nat -> 0 < qn n.
Proof. intros H. unfold qn. change 0 with (inject_Z 0). rewrite <- Zlt_Qlt. lia. Qed.
Lemma qn_nonzero n : (0 < n)%nat -> ~ qn n == 0.
Proof. intros H E. pose proof (qn_pos n H) as P. rewrite E in P. apply (Qlt_irrefl 0 P). Qed.

Lemma nthq_vscale_eq c r k : nthq (vscale c r) k == c * nthq r k.
Proof.
  revert k; induction r as [|a r IH]; intros [|k]; unfold nthq in *; simpl; try ring. apply IH.
Qed.

Lemma sumq_map_addc r c : sumq (map (fun a => a + c) r) == sumq r + qn (length r) * c.
Proof.
  induction r as [|a r IH]; simpl length; [simpl; rewrite qn_0; ring|].
  cbn [map sumq fold_right]. fold (sumq (map (fun a0 => a0 + c) r)). fold (sumq r). rewrite IH, qn_S. ring.
Qed.

Lemma dot_map_addc r c x : length r = length x -> dot (map (fun a => a + c) r) x == dot r x + c * sumq x.
Proof.
  revert x; induction r as [|a r IH]; intros [|b x] H; simpl in H; try discriminate.
  - unfold dot; simpl; ring.
  - cbn [map]. rewrite !dot_cons, IH by lia. cbn [sumq fold_right]. fold (sumq x). ring.
Qed.

Lemma sumq_vscale c r : sumq (vscale c r) == c * sumq r.
Proof.
  induction r as [|a r IH]; [simpl; ring|]. cbn [vscale map sumq fold_right].
  fold (vscale c r). fold (sumq (vscale c r)). fold (sumq r). rewrite IH. ring.
Qed.

(** [col] and [take_cols] *)
Lemma col_take_cols idx M k : (k < length idx)%nat -> col k (take_cols idx M) = col (nth k idx 0%nat) M.
Proof.
  intros Hk. unfold col, take_cols. rewrite map_map. apply map_ext. intros r.
  apply (nthq_map_gen (nthq r) idx 0%nat). exact Hk.
Qed.

Lemma col_row_scale d M k : length d = length M -> col k (row_scale d M) =v vmul d (col k M).
Proof.
  revert M; induction d as [|q d IH]; intros [|r M] H; simpl in H; try discriminate; [constructor|].
  cbn. constructor; [apply nthq_vscale_eq | apply IH; lia].
Qed.

Lemma take_cols_length idx M : length (take_cols idx M) = length M.
Proof. apply map_length. Qed.

(* ------------------------------------------------------------------------------------------- *)
(** * Laplacian operator (linalg/operators.py) *)
Section Laplacian.
Context (n : nat) (A : mat) (reg : Q) (Hn : (0 < n)%nat) (HA : wf_mat n n A) (Hreg : 0 <= reg).

Lemma lap_weights_nth i : (i < n)%nat -> nthq (lap_weights A) i == sumq (nth i A []).
Proof.
  intros Hi. destruct HA as [HL HF]. unfold lap_weights. rewrite nthq_qmat_vec by lia. rewrite qdot_dot, HL.
  rewrite <- (wf_mat_row n n A i HA Hi) at 1. apply dot_vones_r.
Qed.

Lemma lap_weights_length : length (lap_weights A) = n.
Proof. unfold lap_weights. rewrite qmat_vec_length. apply HA. Qed.

Lemma mean_scale x : length x = n -> reg / qn n * sumq x == reg * mean x.
Proof. intros H. unfold mean. rewrite H. field. apply qn_nonzero; exact Hn. Qed.

(** Entry i of the un-normalised operator: (w_i + reg) x_i - (A_i . x + reg mean x). *)
Lemma lap_plain_nth nd x i : length x = n -> (i < n)%nat ->
  nthq (lap_matvec A reg false nd x) i ==
  (sumq (nth i A []) + reg) * nthq x i - (dot (nth i A []) x + reg * mean x).
Proof.
  intros Hx Hi. pose proof lap_weights_length as HW. destruct HA as [HL HF].
  unfold lap_matvec. cbv iota.
  assert (Hbase : nthq (vsub (vmul (lap_weights A) x) (qmat_vec A x)) i ==
                  sumq (nth i A []) * nthq x i - dot (nth i A []) x).
  { rewrite nthq_vsub by (rewrite ?vmul_length, ?qmat_vec_length; lia).
    rewrite nthq_vmul by lia. rewrite nthq_qmat_vec by lia. rewrite qdot_dot, lap_weights_nth by exact Hi. reflexivity. }
  destruct (Qlt_bool 0 reg) eqn:E.
  - rewrite nthq_vadd by (rewrite ?vsub_length, ?vmul_length, ?qmat_vec_length, ?vscale_length, ?map_length; lia).
    rewrite Hbase. rewrite nthq_vscale by (rewrite map_length; lia).
    rewrite (nthq_map (fun t => t - mean x)) by lia. ring.
  - apply Qlt_bool_false in E. assert (R0 : reg == 0) by (apply Qle_antisym; assumption).
    rewrite Hbase, R0. ring.
Qed.

Lemma lap_matvec_length nrm nd x : length x = n -> length nd = n -> length (lap_matvec A reg nrm nd x) = n.
Proof.
  intros Hx Hd. pose proof lap_weights_length as HW. destruct HA as [HL HF]. unfold lap_matvec.
  destruct nrm, (Qlt_bool 0 reg);
    rewrite ?vmul_length, ?vadd_length, ?vsub_length, ?vmul_length, ?qmat_vec_length, ?vscale_length, ?map_length, ?vmul_length; lia.
Qed.

Lemma lap_matvec_length_plain nd x : length x = n -> length (lap_matvec A reg false nd x) = n.
Proof.
  intros Hx. pose proof lap_weights_length as HW. destruct HA as [HL HF]. unfold lap_matvec.
  destruct (Qlt_bool 0 reg);
    rewrite ?vadd_length, ?vsub_length, ?vmul_length, ?qmat_vec_length, ?vscale_length, ?map_length; lia.
Qed.

Lemma lap_matvec_true nd x : lap_matvec A reg true nd x = vmul nd (lap_matvec A reg false [] (vmul nd x)).
Proof. reflexivity. Qed.

(** Rows of the documented regularised adjacency. *)
Lemma reg_adj_wf : wf_mat n n (reg_adj n A reg).
Proof. unfold reg_adj. apply (wf_map n n n); [|exact HA]. intros row H. rewrite map_length. exact H. Qed.

Lemma reg_adj_row i : (i < n)%nat -> nth i (reg_adj n A reg) [] = map (fun a => a + reg / qn n) (nth i A []).
Proof. intros Hi. unfold reg_adj. apply (nth_map_gen (map (fun a => a + reg / qn n)) A [] []). destruct HA; lia. Qed.

Lemma reg_adj_rowsum i : (i < n)%nat -> sumq (nth i (reg_adj n A reg) []) == sumq (nth i A []) + reg.
Proof.
  intros Hi. rewrite reg_adj_row by exact Hi. rewrite sumq_map_addc. rewrite (wf_mat_row n n A i HA Hi).
  field. apply qn_nonzero; exact Hn.
Qed.

Lemma reg_adj_dot i x : (i < n)%nat -> length x = n ->
  dot (nth i (reg_adj n A reg) []) x == dot (nth i A []) x + reg * mean x.
Proof.
  intros Hi Hx. rewrite reg_adj_row by exact Hi. rewrite dot_map_addc by (rewrite (wf_mat_row n n A i HA Hi); lia).
  rewrite mean_scale by exact Hx. reflexivity.
Qed.

(** decomposition = 'laplacian': the operator handed to the solver IS the Laplacian D - A of the
    regularised adjacency matrix (with its own degrees). *)
Lemma lap_operator_is_laplacian nd x : length x = n ->
  lap_matvec A reg false nd x =v laplacian_apply (reg_adj n A reg) x.
Proof.
  intros Hx. pose proof reg_adj_wf as [RL RF].
  apply veq_nth.
  - rewrite lap_matvec_length_plain by exact Hx. unfold laplacian_apply.
    rewrite vsub_length, vmul_length, row_sums_length, mat_vec_length. lia.
  - intros i Hi. rewrite lap_matvec_length_plain in Hi by exact Hx.
    rewrite lap_plain_nth by assumption. unfold laplacian_apply.
    rewrite nthq_vsub by (rewrite ?vmul_length, ?row_sums_length, ?mat_vec_length; lia).
    rewrite nthq_vmul by (rewrite ?row_sums_length; lia). rewrite nthq_mat_vec by lia.
    unfold row_sums. rewrite (nthq_map_gen sumq _ []) by lia.
    rewrite reg_adj_rowsum, reg_adj_dot by assumption. ring.
Qed.

(** decomposition = 'rw': back-transform. [s] is the sqrt oracle's answer for each degree. *)
Context (sqrt_o : Q -> Q)
        (Hsqrt : forall i, (i < n)%nat ->
                 let d := nthq (lap_weights A) i + reg in sqrt_o d * sqrt_o d == d /\ ~ d == 0).

Lemma norm_diag_length : length (lap_norm_diag sqrt_o A reg) = n.
Proof. unfold lap_norm_diag. rewrite map_length. apply lap_weights_length. Qed.

Lemma norm_diag_nth i : (i < n)%nat ->
  nthq (lap_norm_diag sqrt_o A reg) i = pinv (sqrt_o (nthq (lap_weights A) i + reg)).
Proof.
  intros Hi. unfold lap_norm_diag.
  apply (nthq_map_gen (fun w => pinv (sqrt_o (w + reg))) (lap_weights A) 0). rewrite lap_weights_length. exact Hi.
Qed.

Lemma transition_row M i : (i < length M)%nat ->
  nth i (transition M) [] = vscale (pinv (sumq (nth i M []))) (nth i M []).
Proof. intros Hi. unfold transition. apply (nth_map_gen (fun r => vscale (pinv (sumq r)) r) M [] []). exact Hi. Qed.

Lemma rw_backtransform u mu : length u = n ->
  lap_matvec A reg true (lap_norm_diag sqrt_o A reg) u =v vscale mu u ->
  let v := vmul (lap_norm_diag sqrt_o A reg) u in
  mat_vec (transition (reg_adj n A reg)) v =v vscale (1 - mu) v.
Proof.
  intros Hu H v. pose proof norm_diag_length as HD. pose proof reg_adj_wf as [RL RF].
  assert (Hv : length v = n) by (unfold v; rewrite vmul_length; lia).
  apply veq_nth.
  - rewrite mat_vec_length, vscale_length. unfold transition. rewrite map_length. lia.
  - intros i Hi. rewrite mat_vec_length in Hi. unfold transition in Hi. rewrite map_length, RL in Hi.
    pose proof (veq_nthq _ _ i H) as Hi'.
    rewrite lap_matvec_true in Hi'.
    rewrite nthq_vmul in Hi' by (rewrite ?lap_matvec_length_plain; fold v; lia).
    fold v in Hi'. rewrite lap_plain_nth in Hi' by assumption.
    rewrite nthq_vscale in Hi' by lia.
    rewrite nthq_mat_vec by (unfold transition; rewrite map_length; lia).
    rewrite transition_row by lia. rewrite dot_vscale_l, reg_adj_rowsum, reg_adj_dot by assumption.
    rewrite nthq_vscale by lia.
    assert (Hvi : nthq v i == nthq (lap_norm_diag sqrt_o A reg) i * nthq u i)
      by (unfold v; rewrite nthq_vmul by lia; reflexivity).
    rewrite norm_diag_nth in Hi', Hvi by exact Hi.
    destruct (Hsqrt i Hi) as [Hs Hd]. cbv zeta in Hs, Hd.
    rewrite lap_weights_nth in Hd by exact Hi.
    set (s := sqrt_o (nthq (lap_weights A) i + reg)) in *.
    assert (Hsd : s * s == sumq (nth i A []) + reg) by (rewrite Hs, lap_weights_nth by exact Hi; reflexivity).
    assert (Hs0 : ~ s == 0) by (intros E; apply Hd; rewrite <- Hsd, E; ring).
    rewrite pinv_inv in Hi', Hvi. rewrite pinv_inv.
    set (d := sumq (nth i A []) + reg) in *.
    set (X := dot (nth i A []) v + reg * mean v) in *.
    assert (Hui : nthq u i == s * nthq v i) by (rewrite Hvi; field; exact Hs0).
    assert (HX : d * nthq v i - X == mu * d * nthq v i).
    { transitivity (s * (/ s * (d * nthq v i - X))); [field; exact Hs0|].
      rewrite Hi', Hui, <- Hsd. ring. }
    assert (HX' : X == d * nthq v i - mu * d * nthq v i) by (rewrite <- HX; ring).
    rewrite HX'. field. exact Hd.
Qed.
End Laplacian.

(* ------------------------------------------------------------------------------------------- *)
(** * Spectral.fit: selection, back-transform, ordering *)
Lemma spectral_core_laplacian sqrt_o A reg sv sV argsort :
  spectral_core sqrt_o false A reg sv sV argsort = (map (nthq sv) (tl argsort), take_cols (tl argsort) sV).
Proof. reflexivity. Qed.

Lemma spectral_core_rw sqrt_o A reg sv sV argsort :
  spectral_core sqrt_o true A reg sv sV argsort =
  (map (fun m => 1 - m) (map (nthq sv) (tl argsort)), row_scale (lap_norm_diag sqrt_o A reg) (take_cols (tl argsort) sV)).
Proof. reflexivity. Qed.

Theorem spectral_backtransform_rw (sqrt_o : Q -> Q) (n : nat) (A : mat) (reg : Q) (sv : vec) (sV : mat)
        (argsort : list nat) (k : nat) :
  (0 < n)%nat -> wf_mat n n A -> 0 <= reg -> length sV = n ->
  (forall i, (i < n)%nat -> let d := nthq (lap_weights A) i + reg in sqrt_o d * sqrt_o d == d /\ ~ d == 0) ->
  (k < length (tl argsort))%nat ->
  let j := nth k (tl argsort) 0%nat in
  spectral_operator sqrt_o true A reg (col j sV) =v vscale (nthq sv j) (col j sV) ->
  let evals := fst (spectral_core sqrt_o true A reg sv sV argsort) in
  let evecs := snd (spectral_core sqrt_o true A reg sv sV argsort) in
  nthq evals k == 1 - nthq sv j /\
  mat_vec (transition (reg_adj n A reg)) (col k evecs) =v vscale (nthq evals k) (col k evecs).
Proof.
  intros Hn HA Hreg HV Hsqrt Hk j Hop evals evecs.
  unfold evals, evecs. rewrite spectral_core_rw. cbn [fst snd].
  assert (E1 : nthq (map (fun m => 1 - m) (map (nthq sv) (tl argsort))) k == 1 - nthq sv j).
  { rewrite map_map. rewrite (nthq_map_gen (fun x => 1 - nthq sv x) (tl argsort) 0%nat) by exact Hk. reflexivity. }
  split; [exact E1|].
  assert (Hc : col k (row_scale (lap_norm_diag sqrt_o A reg) (take_cols (tl argsort) sV)) =v
               vmul (lap_norm_diag sqrt_o A reg) (col j sV)).
  { rewrite col_row_scale by (rewrite take_cols_length, (norm_diag_length n A reg HA); lia).
    rewrite col_take_cols by exact Hk. reflexivity. }
  rewrite Hc, E1.
  apply (rw_backtransform n A reg Hn HA Hreg sqrt_o Hsqrt (col j sV) (nthq sv j)).
  - rewrite col_length. exact HV.
  - exact Hop.
Qed.

Theorem spectral_backtransform_laplacian (sqrt_o : Q -> Q) (n : nat) (A : mat) (reg : Q) (sv : vec) (sV : mat)
        (argsort : list nat) (k : nat) :
  (0 < n)%nat -> wf_mat n n A -> 0 <= reg -> length sV = n ->
  (k < length (tl argsort))%nat ->
  let j := nth k (tl argsort) 0%nat in
  spectral_operator sqrt_o false A reg (col j sV) =v vscale (nthq sv j) (col j sV) ->
  let evals := fst (spectral_core sqrt_o false A reg sv sV argsort) in
  let evecs := snd (spectral_core sqrt_o false A reg sv sV argsort) in
  nthq evals k = nthq sv j /\
  laplacian_apply (reg_adj n A reg) (col k evecs) =v vscale (nthq evals k) (col k evecs).
Proof.
  intros Hn HA Hreg HV Hk j Hop evals evecs.
  unfold evals, evecs. rewrite spectral_core_laplacian. cbn [fst snd].
  assert (E1 : nthq (map (nthq sv) (tl argsort)) k = nthq sv j)
    by (apply (nthq_map_gen (nthq sv) (tl argsort) 0%nat); exact Hk).
  split; [exact E1|]. rewrite E1, col_take_cols by exact Hk. fold j.
  rewrite <- (lap_operator_is_laplacian n A reg Hn HA Hreg [] (col j sV)) by (rewrite col_length; exact HV).
  exact Hop.
Qed.

(** Ordering: if [argsort] sorts the solver's eigenvalues increasingly, the returned eigenvalues are
    increasing ('laplacian') resp. decreasing ('rw', after 1 - mu), and the skipped one is extreme. *)
Lemma sorted_map_flip l : Sorted Qle l -> Sorted (fun a b => b <= a) (map (fun m => 1 - m) l).
Proof.
  induction 1 as [|a l HS IH HR]; simpl; constructor; auto.
  destruct HR as [|b l Hab]; simpl; constructor. lra.
Qed.

Theorem spectral_order (sqrt_o : Q -> Q) (A : mat) (reg : Q) (sv : vec) (sV : mat) (argsort : list nat) :
  StronglySorted Qle (map (nthq sv) argsort) ->
  Sorted Qle (fst (spectral_core sqrt_o false A reg sv sV argsort)) /\
  Sorted (fun a b => b <= a) (fst (spectral_core sqrt_o true A reg sv sV argsort)) /\
  (forall x, In x (fst (spectral_core sqrt_o false A reg sv sV argsort)) -> nthq sv (hd 0%nat argsort) <= x) /\
  (forall x, In x (fst (spectral_core sqrt_o true A reg sv sV argsort)) -> x <= 1 - nthq sv (hd 0%nat argsort)).
Proof.
  intros HS. rewrite spectral_core_laplacian, spectral_core_rw. cbn [fst].
  destruct argsort as [|a0 rest]; cbn [tl hd map] in *.
  - repeat split; try constructor; intros x [].
  - inversion HS as [|? ? HS' HF]; subst. apply StronglySorted_Sorted in HS'.
    repeat split.
    + exact HS'.
    + apply sorted_map_flip; exact HS'.
    + intros x Hx. rewrite Forall_forall in HF. apply HF; exact Hx.
    + intros x Hx. apply in_map_iff in Hx. destruct Hx as [y [<- Hy]]. rewrite Forall_forall in HF.
      specialize (HF y Hy). lra.
Qed.

(* ------------------------------------------------------------------------------------------- *)
(** * SparseLR denotes sparse + sum of rank-one terms *)
Definition slr_wf (r c : nat) (S : sparselr) : Prop :=
  wf_mat r c (slr_mat S) /\ Forall (fun xy => length (fst xy) = r /\ length (snd xy) = c) (slr_lr S).

Lemma slr_fold_dense r c v L : Forall (fun xy => length (fst xy) = r /\ length (snd xy) = c) L ->
  forall acc D, wf_mat r c D -> acc =v mat_vec D v ->
  fold_left (fun prod xy => vadd prod (vscale (qdot v (snd xy)) (fst xy))) L acc =v
  mat_vec (fold_left (fun D xy => madd D (outer (fst xy) (snd xy))) L D) v /\
  wf_mat r c (fold_left (fun D xy => madd D (outer (fst xy) (snd xy))) L D).
Proof.
  induction 1 as [|[x y] L [Hx Hy] HF IH]; intros acc D HD Hacc; cbn [fold_left fst snd] in *.
  - split; assumption.
  - assert (HO : wf_mat r c (outer x y)) by (rewrite <- Hx, <- Hy; apply outer_wf).
    apply IH.
    + apply madd_wf; assumption.
    + rewrite (mat_vec_madd r c) by assumption. rewrite mat_vec_outer, Hacc, qdot_dot, (dot_comm v y). reflexivity.
Qed.

Theorem slr_matvec_dense r c S v : slr_wf r c S -> slr_matvec S v =v mat_vec (slr_dense S) v.
Proof.
  intros [HM HL]. unfold slr_matvec, slr_dense.
  apply (slr_fold_dense r c v (slr_lr S) HL); [exact HM | apply qmat_vec_eq].
Qed.

Lemma slr_dense_wf r c S : slr_wf r c S -> wf_mat r c (slr_dense S).
Proof.
  intros [HM HL]. unfold slr_dense.
  apply (slr_fold_dense r c [] (slr_lr S) HL (qmat_vec (slr_mat S) [])); [exact HM | apply qmat_vec_eq].
Qed.

Lemma slr_matvec_nil M v : slr_matvec {| slr_mat := M; slr_lr := [] |} v = qmat_vec M v.
Proof. reflexivity. Qed.
Lemma slr_matvec_one M x y v :
  slr_matvec {| slr_mat := M; slr_lr := [(x, y)] |} v = vadd (qmat_vec M v) (vscale (qdot v y) x).
Proof. reflexivity. Qed.

(** Regularizer(A, reg) denotes A + reg 11^T / n_col. *)
Lemma regularizer_wf r c A reg : wf_mat r c A -> slr_wf r c (regularizer r c A reg).
Proof.
  intros HA. split; [exact HA|]. cbn. constructor; [|constructor]. cbn.
  rewrite vscale_length, map_length, !vones_length. split; reflexivity.
Qed.

Lemma regularizer_dense r c A reg : wf_mat r c A -> slr_dense (regularizer r c A reg) =m reg_adj c A reg.
Proof.
  intros [HL HF]. unfold slr_dense, regularizer, reg_adj. cbn [slr_lr slr_mat fold_left fst snd].
  subst r. clear - HF. induction HF as [|a A Ha HF IH]; cbn; constructor; [|exact IH].
  apply veq_nth.
  - rewrite vadd_length, vscale_length, !map_length, vones_length. lia.
  - intros i Hi. rewrite vadd_length, vscale_length, map_length, vones_length in Hi.
    rewrite nthq_vadd by (rewrite ?vscale_length, ?map_length, ?vones_length; lia).
    rewrite nthq_vscale by (rewrite map_length, vones_length; lia).
    rewrite (nthq_map (fun o => o / qn c)) by (rewrite vones_length; lia).
    rewrite nthq_vones by lia. rewrite (nthq_map (fun a0 => a0 + reg / qn c)) by lia. field.
    destruct c; [lia|]. apply qn_nonzero. lia.
Qed.

Theorem regularizer_matvec r c A reg x : wf_mat r c A ->
  slr_matvec (regularizer r c A reg) x =v mat_vec (reg_adj c A reg) x.
Proof.
  intros HA. rewrite (slr_matvec_dense r c) by (apply regularizer_wf; exact HA).
  rewrite regularizer_dense by exact HA. reflexivity.
Qed.

(** Left / right products with diagonal matrices. *)
Lemma slr_left_diag_matvec d S v : length d = length (slr_mat S) ->
  Forall (fun xy => length (fst xy) = length d) (slr_lr S) ->
  slr_matvec (slr_left_diag d S) v =v vmul d (slr_matvec S v).
Proof.
  destruct S as [M L]. cbn [slr_mat slr_lr]. intros HM HL. unfold slr_matvec, slr_left_diag. cbn [slr_mat slr_lr].
  assert (H0 : qmat_vec (row_scale d M) v =v vmul d (qmat_vec M v))
    by (rewrite !qmat_vec_eq; apply mat_vec_row_scale).
  assert (Hlen : length (qmat_vec M v) = length d) by (rewrite qmat_vec_length; lia).
  revert H0 Hlen. generalize (qmat_vec (row_scale d M) v) (qmat_vec M v). clear HM.
  induction HL as [|[x y] L Hx HL IH]; intros acc1 acc2 H0 Hlen; cbn [map fold_left fst snd] in *.
  - exact H0.
  - apply IH.
    + rewrite H0. rewrite vmul_vadd_r by (rewrite vscale_length; lia). rewrite vmul_vscale_r. reflexivity.
    + rewrite vadd_length, vscale_length. lia.
Qed.

Lemma dot_vmul_shift v d y : dot v (vmul d y) == dot (vmul d v) y.
Proof.
  revert d y; induction v as [|a v IH]; intros [|b d] [|c y]; try reflexivity.
  change (dot (a :: v) (b * c :: vmul d y) == dot (b * a :: vmul d v) (c :: y)).
  rewrite !dot_cons, IH. ring.
Qed.

Lemma slr_right_diag_matvec S d v :
  slr_matvec (slr_right_diag S d) v =v slr_matvec S (vmul d v).
Proof.
  destruct S as [M L]. unfold slr_matvec, slr_right_diag. cbn [slr_mat slr_lr].
  assert (H0 : qmat_vec (col_scale M d) v =v qmat_vec M (vmul d v))
    by (rewrite !qmat_vec_eq; apply mat_vec_col_scale).
  revert H0. generalize (qmat_vec (col_scale M d) v) (qmat_vec M (vmul d v)).
  induction L as [|[x y] L IH]; intros acc1 acc2 H0; cbn [map fold_left fst snd] in *.
  - exact H0.
  - apply IH. rewrite H0. rewrite !qdot_dot. rewrite dot_vmul_shift. reflexivity.
Qed.

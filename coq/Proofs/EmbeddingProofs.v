(** Proofs about Model/Embedding.v (all over Q, no axiom). *)
From SKN Require Import Base.Util Base.QMat Model.Embedding.
From Coq Require Import QArith Qabs Qreduction Qminmax Lqa Psatz Setoid Morphisms Sorted.
Local Open Scope Q_scope.

(* ------------------------------------------------------------------------------------------- *)
(** * Basics *)
Lemma qdot_dot u v : qdot u v == dot u v.
Proof. unfold qdot. apply Qred_correct. Qed.

Lemma qmat_vec_eq M x : qmat_vec M x =v mat_vec M x.
Proof. unfold qmat_vec, mat_vec. apply map_ext_veq. intros r _. apply qdot_dot. Qed.

Lemma qmat_vec_length M x : length (qmat_vec M x) = length M.
Proof. apply map_length. Qed.

Lemma nthq_qmat_vec M x i : (i < length M)%nat -> nthq (qmat_vec M x) i = qdot (nth i M []) x.
Proof. intros Hi. unfold qmat_vec. rewrite (nthq_map_gen (fun r => qdot r x) M []) by exact Hi. reflexivity. Qed.

Lemma pinv_inv x : pinv x == / x.
Proof.
  unfold pinv. destruct (Qeq_bool x 0) eqn:E; [|reflexivity].
  apply Qeq_bool_iff in E. rewrite E. reflexivity.
Qed.

Global Instance pinv_proper : Proper (Qeq ==> Qeq) pinv.
Proof. intros a b H. rewrite !pinv_inv, H. reflexivity. Qed.

Lemma Qlt_bool_true a b : Qlt_bool a b = true -> a < b.
Proof.
  unfold Qlt_bool. intros H. apply negb_true_iff in H. apply Qnot_le_lt. intros Hle.
  apply Qle_bool_iff in Hle. congruence.
Qed.
Lemma Qlt_bool_false a b : Qlt_bool a b = false -> b <= a.
Proof. unfold Qlt_bool. intros H. apply negb_false_iff in H. apply Qle_bool_iff. exact H. Qed.

Lemma qn_S n : qn (S n) == qn n + 1.
Proof. unfold qn. rewrite Nat2Z.inj_succ. unfold Z.succ. rewrite inject_Z_plus. reflexivity. Qed.
Lemma qn_0 : qn 0 == 0.
Proof. reflexivity. Qed.
Lemma qn_pos n : (0 < n)%nat -> 0 < qn n.
Proof. intros H. unfold qn. change 0 with (inject_Z 0). rewrite <- Zlt_Qlt. lia. Qed.
Lemma qn_nonzero n : (0 < n)%nat -> ~ qn n == 0.
Proof. intros H E. pose proof (qn_pos n H) as P. rewrite E in P. apply (Qlt_irrefl 0 P). Qed.

Lemma nthq_vscale_eq c r k : nthq (vscale c r) k == c * nthq r k.
Proof.
  revert k; induction r as [|a r IH]; intros [|k]; unfold nthq in *; simpl; try ring. apply IH.
Qed.

Lemma sumq_map_addc r c : sumq (map (fun a => a + c) r) == sumq r + qn (length r) * c.
Proof.
  induction r as [|a r IH]; simpl length; [simpl; rewrite qn_0; ring|].
  cbn [map sumq fold_right]. fold (sumq (map (fun a0 => a0 + c) r)). fold (sumq r). rewrite IH, qn_S. ring.
Qed.

Lemma dot_map_addc r c x : length r = length x -> dot (map (fun a => a + c) r) x == dot r x + c * sumq x.
Proof.
  revert x; induction r as [|a r IH]; intros [|b x] H; simpl in H; try discriminate.
  - unfold dot; simpl; ring.
  - cbn [map]. rewrite !dot_cons, IH by lia. cbn [sumq fold_right]. fold (sumq x). ring.
Qed.

Lemma sumq_vscale c r : sumq (vscale c r) == c * sumq r.
Proof.
  induction r as [|a r IH]; [simpl; ring|]. cbn [vscale map sumq fold_right].
  fold (vscale c r). fold (sumq (vscale c r)). fold (sumq r). rewrite IH. ring.
Qed.

(** [col] and [take_cols] *)
Lemma col_take_cols idx M k : (k < length idx)%nat -> col k (take_cols idx M) = col (nth k idx 0%nat) M.
Proof.
  intros Hk. unfold col, take_cols. rewrite map_map. apply map_ext. intros r.
  apply (nthq_map_gen (nthq r) idx 0%nat). exact Hk.
Qed.

Lemma col_row_scale d M k : length d = length M -> col k (row_scale d M) =v vmul d (col k M).
Proof.
  revert M; induction d as [|q d IH]; intros [|r M] H; simpl in H; try discriminate; [constructor|].
  cbn. constructor; [apply nthq_vscale_eq | apply IH; lia].
Qed.

Lemma take_cols_length idx M : length (take_cols idx M) = length M.
Proof. apply map_length. Qed.

(* ------------------------------------------------------------------------------------------- *)
(** * Laplacian operator (linalg/operators.py) *)
Section Laplacian.
Context (n : nat) (A : mat) (reg : Q) (Hn : (0 < n)%nat) (HA : wf_mat n n A) (Hreg : 0 <= reg).

Lemma lap_weights_nth i : (i < n)%nat -> nthq (lap_weights A) i == sumq (nth i A []).
Proof.
  intros Hi. destruct HA as [HL HF]. unfold lap_weights. rewrite nthq_qmat_vec by lia. rewrite qdot_dot, HL.
  rewrite <- (wf_mat_row n n A i HA Hi) at 1. apply dot_vones_r.
Qed.

Lemma lap_weights_length : length (lap_weights A) = n.
Proof. unfold lap_weights. rewrite qmat_vec_length. apply HA. Qed.

Lemma mean_scale x : length x = n -> reg / qn n * sumq x == reg * mean x.
Proof. intros H. unfold mean. rewrite H. field. apply qn_nonzero; exact Hn. Qed.

(** Entry i of the un-normalised operator: (w_i + reg) x_i - (A_i . x + reg mean x). *)
Lemma lap_plain_nth nd x i : length x = n -> (i < n)%nat ->
  nthq (lap_matvec A reg false nd x) i ==
  (sumq (nth i A []) + reg) * nthq x i - (dot (nth i A []) x + reg * mean x).
Proof.
  intros Hx Hi. pose proof lap_weights_length as HW. destruct HA as [HL HF].
  unfold lap_matvec. cbv iota.
  assert (Hbase : nthq (vsub (vmul (lap_weights A) x) (qmat_vec A x)) i ==
                  sumq (nth i A []) * nthq x i - dot (nth i A []) x).
  { rewrite nthq_vsub by (rewrite ?vmul_length, ?qmat_vec_length; lia).
    rewrite nthq_vmul by lia. rewrite nthq_qmat_vec by lia. rewrite qdot_dot, lap_weights_nth by exact Hi. reflexivity. }
  destruct (Qlt_bool 0 reg) eqn:E.
  - rewrite nthq_vadd by (rewrite ?vsub_length, ?vmul_length, ?qmat_vec_length, ?vscale_length, ?map_length; lia).
    rewrite Hbase. rewrite nthq_vscale by (rewrite map_length; lia).
    rewrite (nthq_map (fun t => t - mean x)) by lia. ring.
  - apply Qlt_bool_false in E. assert (R0 : reg == 0) by (apply Qle_antisym; assumption).
    rewrite Hbase, R0. ring.
Qed.

Lemma lap_matvec_length nrm nd x : length x = n -> length nd = n -> length (lap_matvec A reg nrm nd x) = n.
Proof.
  intros Hx Hd. pose proof lap_weights_length as HW. destruct HA as [HL HF]. unfold lap_matvec.
  destruct nrm, (Qlt_bool 0 reg);
    rewrite ?vmul_length, ?vadd_length, ?vsub_length, ?vmul_length, ?qmat_vec_length, ?vscale_length, ?map_length, ?vmul_length; lia.
Qed.

Lemma lap_matvec_length_plain nd x : length x = n -> length (lap_matvec A reg false nd x) = n.
Proof.
  intros Hx. pose proof lap_weights_length as HW. destruct HA as [HL HF]. unfold lap_matvec.
  destruct (Qlt_bool 0 reg);
    rewrite ?vadd_length, ?vsub_length, ?vmul_length, ?qmat_vec_length, ?vscale_length, ?map_length; lia.
Qed.

Lemma lap_matvec_true nd x : lap_matvec A reg true nd x = vmul nd (lap_matvec A reg false [] (vmul nd x)).
Proof. reflexivity. Qed.

(** Rows of the documented regularised adjacency. *)
Lemma reg_adj_wf : wf_mat n n (reg_adj n A reg).
Proof. unfold reg_adj. apply (wf_map n n n); [|exact HA]. intros row H. rewrite map_length. exact H. Qed.

Lemma reg_adj_row i : (i < n)%nat -> nth i (reg_adj n A reg) [] = map (fun a => a + reg / qn n) (nth i A []).
Proof. intros Hi. unfold reg_adj. apply (nth_map_gen (map (fun a => a + reg / qn n)) A [] []). destruct HA; lia. Qed.

Lemma reg_adj_rowsum i : (i < n)%nat -> sumq (nth i (reg_adj n A reg) []) == sumq (nth i A []) + reg.
Proof.
  intros Hi. rewrite reg_adj_row by exact Hi. rewrite sumq_map_addc. rewrite (wf_mat_row n n A i HA Hi).
  field. apply qn_nonzero; exact Hn.
Qed.

Lemma reg_adj_dot i x : (i < n)%nat -> length x = n ->
  dot (nth i (reg_adj n A reg) []) x == dot (nth i A []) x + reg * mean x.
Proof.
  intros Hi Hx. rewrite reg_adj_row by exact Hi. rewrite dot_map_addc by (rewrite (wf_mat_row n n A i HA Hi); lia).
  rewrite mean_scale by exact Hx. reflexivity.
Qed.

(** decomposition = 'laplacian': the operator handed to the solver IS the Laplacian D - A of the
    regularised adjacency matrix (with its own degrees). *)
Lemma lap_operator_is_laplacian nd x : length x = n ->
  lap_matvec A reg false nd x =v laplacian_apply (reg_adj n A reg) x.
Proof.
  intros Hx. pose proof reg_adj_wf as [RL RF].
  apply veq_nth.
  - rewrite lap_matvec_length_plain by exact Hx. unfold laplacian_apply.
    rewrite vsub_length, vmul_length, row_sums_length, mat_vec_length. lia.
  - intros i Hi. rewrite lap_matvec_length_plain in Hi by exact Hx.
    rewrite lap_plain_nth by assumption. unfold laplacian_apply.
    rewrite nthq_vsub by (rewrite ?vmul_length, ?row_sums_length, ?mat_vec_length; lia).
    rewrite nthq_vmul by (rewrite ?row_sums_length; lia). rewrite nthq_mat_vec by lia.
    unfold row_sums. rewrite (nthq_map_gen sumq _ []) by lia.
    rewrite reg_adj_rowsum, reg_adj_dot by assumption. ring.
Qed.

(** decomposition = 'rw': back-transform. [s] is the sqrt oracle's answer for each degree. *)
Context (sqrt_o : Q -> Q)
        (Hsqrt : forall i, (i < n)%nat ->
                 let d := nthq (lap_weights A) i + reg in sqrt_o d * sqrt_o d == d /\ ~ d == 0).

Lemma norm_diag_length : length (lap_norm_diag sqrt_o A reg) = n.
Proof. unfold lap_norm_diag. rewrite map_length. apply lap_weights_length. Qed.

Lemma norm_diag_nth i : (i < n)%nat ->
  nthq (lap_norm_diag sqrt_o A reg) i = pinv (sqrt_o (nthq (lap_weights A) i + reg)).
Proof.
  intros Hi. unfold lap_norm_diag.
  apply (nthq_map_gen (fun w => pinv (sqrt_o (w + reg))) (lap_weights A) 0). rewrite lap_weights_length. exact Hi.
Qed.

Lemma transition_row M i : (i < length M)%nat ->
  nth i (transition M) [] = vscale (pinv (sumq (nth i M []))) (nth i M []).
Proof. intros Hi. unfold transition. apply (nth_map_gen (fun r => vscale (pinv (sumq r)) r) M [] []). exact Hi. Qed.

Lemma rw_backtransform u mu : length u = n ->
  lap_matvec A reg true (lap_norm_diag sqrt_o A reg) u =v vscale mu u ->
  let v := vmul (lap_norm_diag sqrt_o A reg) u in
  mat_vec (transition (reg_adj n A reg)) v =v vscale (1 - mu) v.
Proof.
  intros Hu H v. pose proof norm_diag_length as HD. pose proof reg_adj_wf as [RL RF].
  assert (Hv : length v = n) by (unfold v; rewrite vmul_length; lia).
  apply veq_nth.
  - rewrite mat_vec_length, vscale_length. unfold transition. rewrite map_length. lia.
  - intros i Hi. rewrite mat_vec_length in Hi. unfold transition in Hi. rewrite map_length, RL in Hi.
    pose proof (veq_nthq _ _ i H) as Hi'.
    rewrite lap_matvec_true in Hi'.
    rewrite nthq_vmul in Hi' by (rewrite ?lap_matvec_length_plain; fold v; lia).
    fold v in Hi'. rewrite lap_plain_nth in Hi' by assumption.
    rewrite nthq_vscale in Hi' by lia.
    rewrite nthq_mat_vec by (unfold transition; rewrite map_length; lia).
    rewrite transition_row by lia. rewrite dot_vscale_l, reg_adj_rowsum, reg_adj_dot by assumption.
    rewrite nthq_vscale by lia.
    assert (Hvi : nthq v i == nthq (lap_norm_diag sqrt_o A reg) i * nthq u i)
      by (unfold v; rewrite nthq_vmul by lia; reflexivity).
    rewrite norm_diag_nth in Hi', Hvi by exact Hi.
    destruct (Hsqrt i Hi) as [Hs Hd]. cbv zeta in Hs, Hd.
    rewrite lap_weights_nth in Hd by exact Hi.
    set (s := sqrt_o (nthq (lap_weights A) i + reg)) in *.
    assert (Hsd : s * s == sumq (nth i A []) + reg) by (rewrite Hs, lap_weights_nth by exact Hi; reflexivity).
    assert (Hs0 : ~ s == 0) by (intros E; apply Hd; rewrite <- Hsd, E; ring).
    rewrite pinv_inv in Hi', Hvi. rewrite pinv_inv.
    set (d := sumq (nth i A []) + reg) in *.
    set (X := dot (nth i A []) v + reg * mean v) in *.
    assert (Hui : nthq u i == s * nthq v i) by (rewrite Hvi; field; exact Hs0).
    assert (HX : d * nthq v i - X == mu * d * nthq v i).
    { transitivity (s * (/ s * (d * nthq v i - X))); [field; exact Hs0|].
      rewrite Hi', Hui, <- Hsd. ring. }
    assert (HX' : X == d * nthq v i - mu * d * nthq v i) by (rewrite <- HX; ring).
    rewrite HX'. field. exact Hd.
Qed.
End Laplacian.

(* ------------------------------------------------------------------------------------------- *)
(** * Spectral.fit: selection, back-transform, ordering *)
Lemma spectral_core_laplacian sqrt_o A reg sv sV argsort :
  spectral_core sqrt_o false A reg sv sV argsort = (map (nthq sv) (tl argsort), take_cols (tl argsort) sV).
Proof. reflexivity. Qed.

Lemma spectral_core_rw sqrt_o A reg sv sV argsort :
  spectral_core sqrt_o true A reg sv sV argsort =
  (map (fun m => 1 - m) (map (nthq sv) (tl argsort)), row_scale (lap_norm_diag sqrt_o A reg) (take_cols (tl argsort) sV)).
Proof. reflexivity. Qed.

Theorem spectral_backtransform_rw (sqrt_o : Q -> Q) (n : nat) (A : mat) (reg : Q) (sv : vec) (sV : mat)
        (argsort : list nat) (k : nat) :
  (0 < n)%nat -> wf_mat n n A -> 0 <= reg -> length sV = n ->
  (forall i, (i < n)%nat -> let d := nthq (lap_weights A) i + reg in sqrt_o d * sqrt_o d == d /\ ~ d == 0) ->
  (k < length (tl argsort))%nat ->
  let j := nth k (tl argsort) 0%nat in
  spectral_operator sqrt_o true A reg (col j sV) =v vscale (nthq sv j) (col j sV) ->
  let evals := fst (spectral_core sqrt_o true A reg sv sV argsort) in
  let evecs := snd (spectral_core sqrt_o true A reg sv sV argsort) in
  nthq evals k == 1 - nthq sv j /\
  mat_vec (transition (reg_adj n A reg)) (col k evecs) =v vscale (nthq evals k) (col k evecs).
Proof.
  intros Hn HA Hreg HV Hsqrt Hk j Hop evals evecs.
  unfold evals, evecs. rewrite spectral_core_rw. cbn [fst snd].
  assert (E1 : nthq (map (fun m => 1 - m) (map (nthq sv) (tl argsort))) k == 1 - nthq sv j).
  { rewrite map_map. rewrite (nthq_map_gen (fun x => 1 - nthq sv x) (tl argsort) 0%nat) by exact Hk. reflexivity. }
  split; [exact E1|].
  assert (Hc : col k (row_scale (lap_norm_diag sqrt_o A reg) (take_cols (tl argsort) sV)) =v
               vmul (lap_norm_diag sqrt_o A reg) (col j sV)).
  { rewrite col_row_scale by (rewrite take_cols_length, (norm_diag_length n A reg HA); lia).
    rewrite col_take_cols by exact Hk. reflexivity. }
  rewrite Hc, E1.
  apply (rw_backtransform n A reg Hn HA Hreg sqrt_o Hsqrt (col j sV) (nthq sv j)).
  - rewrite col_length. exact HV.
  - exact Hop.
Qed.

Theorem spectral_backtransform_laplacian (sqrt_o : Q -> Q) (n : nat) (A : mat) (reg : Q) (sv : vec) (sV : mat)
        (argsort : list nat) (k : nat) :
  (0 < n)%nat -> wf_mat n n A -> 0 <= reg -> length sV = n ->
  (k < length (tl argsort))%nat ->
  let j := nth k (tl argsort) 0%nat in
  spectral_operator sqrt_o false A reg (col j sV) =v vscale (nthq sv j) (col j sV) ->
  let evals := fst (spectral_core sqrt_o false A reg sv sV argsort) in
  let evecs := snd (spectral_core sqrt_o false A reg sv sV argsort) in
  nthq evals k = nthq sv j /\
  laplacian_apply (reg_adj n A reg) (col k evecs) =v vscale (nthq evals k) (col k evecs).
Proof.
  intros Hn HA Hreg HV Hk j Hop evals evecs.
  unfold evals, evecs. rewrite spectral_core_laplacian. cbn [fst snd].
  assert (E1 : nthq (map (nthq sv) (tl argsort)) k = nthq sv j)
    by (apply (nthq_map_gen (nthq sv) (tl argsort) 0%nat); exact Hk).
  split; [exact E1|]. rewrite E1, col_take_cols by exact Hk. fold j.
  rewrite <- (lap_operator_is_laplacian n A reg Hn HA Hreg [] (col j sV)) by (rewrite col_length; exact HV).
  exact Hop.
Qed.

(** Ordering: if [argsort] sorts the solver's eigenvalues increasingly, the returned eigenvalues are
    increasing ('laplacian') resp. decreasing ('rw', after 1 - mu), and the skipped one is extreme. *)
Lemma sorted_map_flip l : Sorted Qle l -> Sorted (fun a b => b <= a) (map (fun m => 1 - m) l).
Proof.
  induction 1 as [|a l HS IH HR]; simpl; constructor; auto.
  destruct HR as [|b l Hab]; simpl; constructor. lra.
Qed.

Theorem spectral_order (sqrt_o : Q -> Q) (A : mat) (reg : Q) (sv : vec) (sV : mat) (argsort : list nat) :
  StronglySorted Qle (map (nthq sv) argsort) ->
  Sorted Qle (fst (spectral_core sqrt_o false A reg sv sV argsort)) /\
  Sorted (fun a b => b <= a) (fst (spectral_core sqrt_o true A reg sv sV argsort)) /\
  (forall x, In x (fst (spectral_core sqrt_o false A reg sv sV argsort)) -> nthq sv (hd 0%nat argsort) <= x) /\
  (forall x, In x (fst (spectral_core sqrt_o true A reg sv sV argsort)) -> x <= 1 - nthq sv (hd 0%nat argsort)).
Proof.
  intros HS. rewrite spectral_core_laplacian, spectral_core_rw. cbn [fst].
  destruct argsort as [|a0 rest]; cbn [tl hd map] in *.
  - repeat split; try constructor; intros x [].
  - inversion HS as [|? ? HS' HF]; subst. apply StronglySorted_Sorted in HS'.
    repeat split.
    + exact HS'.
    + apply sorted_map_flip; exact HS'.
    + intros x Hx. rewrite Forall_forall in HF. apply HF; exact Hx.
    + intros x Hx. apply in_map_iff in Hx. destruct Hx as [y [<- Hy]]. rewrite Forall_forall in HF.
      specialize (HF y Hy). lra.
Qed.

(* ------------------------------------------------------------------------------------------- *)
(** * SparseLR denotes sparse + sum of rank-one terms *)
Definition slr_wf (r c : nat) (S : sparselr) : Prop :=
  wf_mat r c (slr_mat S) /\ Forall (fun xy => length (fst xy) = r /\ length (snd xy) = c) (slr_lr S).

Lemma slr_fold_dense r c v L : Forall (fun xy => length (fst xy) = r /\ length (snd xy) = c) L ->
  forall acc D, wf_mat r c D -> acc =v mat_vec D v ->
  fold_left (fun prod xy => vadd prod (vscale (qdot v (snd xy)) (fst xy))) L acc =v
  mat_vec (fold_left (fun D xy => madd D (outer (fst xy) (snd xy))) L D) v /\
  wf_mat r c (fold_left (fun D xy => madd D (outer (fst xy) (snd xy))) L D).
Proof.
  induction 1 as [|[x y] L [Hx Hy] HF IH]; intros acc D HD Hacc; cbn [fold_left fst snd] in *.
  - split; assumption.
  - assert (HO : wf_mat r c (outer x y)) by (rewrite <- Hx, <- Hy; apply outer_wf).
    apply IH.
    + apply madd_wf; assumption.
    + rewrite (mat_vec_madd r c) by assumption. rewrite mat_vec_outer, Hacc, qdot_dot, (dot_comm v y). reflexivity.
Qed.

Theorem slr_matvec_dense r c S v : slr_wf r c S -> slr_matvec S v =v mat_vec (slr_dense S) v.
Proof.
  intros [HM HL]. unfold slr_matvec, slr_dense.
  apply (slr_fold_dense r c v (slr_lr S) HL); [exact HM | apply qmat_vec_eq].
Qed.

Lemma slr_dense_wf r c S : slr_wf r c S -> wf_mat r c (slr_dense S).
Proof.
  intros [HM HL]. unfold slr_dense.
  apply (slr_fold_dense r c [] (slr_lr S) HL (qmat_vec (slr_mat S) [])); [exact HM | apply qmat_vec_eq].
Qed.

Lemma slr_matvec_nil M v : slr_matvec {| slr_mat := M; slr_lr := [] |} v = qmat_vec M v.
Proof. reflexivity. Qed.
Lemma slr_matvec_one M x y v :
  slr_matvec {| slr_mat := M; slr_lr := [(x, y)] |} v = vadd (qmat_vec M v) (vscale (qdot v y) x).
Proof. reflexivity. Qed.

(** Regularizer(A, reg) denotes A + reg 11^T / n_col. *)
Lemma regularizer_wf r c A reg : wf_mat r c A -> slr_wf r c (regularizer r c A reg).
Proof.
  intros HA. split; [exact HA|]. cbn. constructor; [|constructor]. cbn.
  rewrite vscale_length, map_length, !vones_length. split; reflexivity.
Qed.

Lemma regularizer_dense r c A reg : wf_mat r c A -> slr_dense (regularizer r c A reg) =m reg_adj c A reg.
Proof.
  intros [HL HF]. unfold slr_dense, regularizer, reg_adj. cbn [slr_lr slr_mat fold_left fst snd].
  subst r. clear - HF. induction HF as [|a A Ha HF IH]; cbn; constructor; [|exact IH].
  apply veq_nth.
  - rewrite vadd_length, vscale_length, !map_length, vones_length. lia.
  - intros i Hi. rewrite vadd_length, vscale_length, map_length, vones_length in Hi.
    rewrite nthq_vadd by (rewrite ?vscale_length, ?map_length, ?vones_length; lia).
    rewrite nthq_vscale by (rewrite map_length, vones_length; lia).
    rewrite (nthq_map (fun o => o / qn c)) by (rewrite vones_length; lia).
    rewrite nthq_vones by lia. rewrite (nthq_map (fun a0 => a0 + reg / qn c)) by lia. field.
    destruct c; [lia|]. apply qn_nonzero. lia.
Qed.

Theorem regularizer_matvec r c A reg x : wf_mat r c A ->
  slr_matvec (regularizer r c A reg) x =v mat_vec (reg_adj c A reg) x.
Proof.
  intros HA. rewrite (slr_matvec_dense r c) by (apply regularizer_wf; exact HA).
  rewrite regularizer_dense by exact HA. reflexivity.
Qed.

(** Left / right products with diagonal matrices. *)
Lemma slr_left_diag_matvec d S v : length d = length (slr_mat S) ->
  Forall (fun xy => length (fst xy) = length d) (slr_lr S) ->
  slr_matvec (slr_left_diag d S) v =v vmul d (slr_matvec S v).
Proof.
  destruct S as [M L]. cbn [slr_mat slr_lr]. intros HM HL. unfold slr_matvec, slr_left_diag. cbn [slr_mat slr_lr].
  assert (H0 : qmat_vec (row_scale d M) v =v vmul d (qmat_vec M v))
    by (rewrite !qmat_vec_eq; apply mat_vec_row_scale).
  assert (Hlen : length (qmat_vec M v) = length d) by (rewrite qmat_vec_length; lia).
  revert H0 Hlen. generalize (qmat_vec (row_scale d M) v) (qmat_vec M v). clear HM.
  induction HL as [|[x y] L Hx HL IH]; intros acc1 acc2 H0 Hlen; cbn [map fold_left fst snd] in *.
  - exact H0.
  - apply IH.
    + rewrite H0. rewrite vmul_vadd_r by (rewrite vscale_length; lia). rewrite vmul_vscale_r. reflexivity.
    + rewrite vadd_length, vscale_length. lia.
Qed.

Lemma dot_vmul_shift v d y : dot v (vmul d y) == dot (vmul d v) y.
Proof.
  revert d y; induction v as [|a v IH]; intros [|b d] [|c y]; try reflexivity.
  change (dot (a :: v) (b * c :: vmul d y) == dot (b * a :: vmul d v) (c :: y)).
  rewrite !dot_cons, IH. ring.
Qed.

Lemma slr_right_diag_matvec S d v :
  slr_matvec (slr_right_diag S d) v =v slr_matvec S (vmul d v).
Proof.
  destruct S as [M L]. unfold slr_matvec, slr_right_diag. cbn [slr_mat slr_lr].
  assert (H0 : qmat_vec (col_scale M d) v =v qmat_vec M (vmul d v))
    by (rewrite !qmat_vec_eq; apply mat_vec_col_scale).
  revert H0. generalize (qmat_vec (col_scale M d) v) (qmat_vec M (vmul d v)).
  induction L as [|[x y] L IH]; intros acc1 acc2 H0; cbn [map fold_left fst snd] in *.
  - exact H0.
  - apply IH. rewrite H0. rewrite !qdot_dot. rewrite dot_vmul_shift. reflexivity.
Qed.

(* ------------------------------------------------------------------------------------------- *)
(** * GSVD *)
Lemma slr_matvec_row_nil M v i : (i < length M)%nat ->
  nthq (slr_matvec {| slr_mat := M; slr_lr := [] |} v) i = qdot (nth i M []) v.
Proof. intros Hi. rewrite slr_matvec_nil. apply nthq_qmat_vec; exact Hi. Qed.

Lemma slr_matvec_row_one M x y v i : (i < length M)%nat -> (i < length x)%nat ->
  nthq (slr_matvec {| slr_mat := M; slr_lr := [(x, y)] |} v) i = qdot (nth i M []) v + qdot v y * nthq x i.
Proof.
  intros Hi Hx. rewrite slr_matvec_one.
  rewrite nthq_vadd by (rewrite ?qmat_vec_length, ?vscale_length; lia).
  rewrite nthq_qmat_vec by exact Hi. rewrite nthq_vscale by exact Hx. reflexivity.
Qed.

Lemma row_scale_nth d M i : (i < length d)%nat -> (i < length M)%nat ->
  nth i (row_scale d M) [] = vscale (nthq d i) (nth i M []).
Proof. intros H1 H2. unfold row_scale, nthq. apply (nth_map2 vscale d M i 0 [] []); assumption. Qed.

Lemma col_scale_nth M d i : (i < length M)%nat -> nth i (col_scale M d) [] = vmul (nth i M []) d.
Proof. intros H. unfold col_scale. apply (nth_map_gen (fun r => vmul r d) M [] []). exact H. Qed.

Section GSVD.
Context (prow pcol psl psr : Q -> Q) (nrow ncol : nat) (A : mat) (reg : Q) (HA : wf_mat nrow ncol A).

Lemma gsvd_weights_row_length : length (fst (gsvd_weights nrow ncol A reg)) = nrow.
Proof.
  destruct HA as [HL HF]. unfold gsvd_weights, gsvd_reg_matrix. cbn [fst].
  destruct (Qeq_bool reg 0).
  - unfold slr_plain. rewrite slr_matvec_nil, qmat_vec_length. exact HL.
  - unfold regularizer. rewrite slr_matvec_one, vadd_length, qmat_vec_length, !vscale_length, vones_length. lia.
Qed.

(** The weight predict computes for the vector [x = A_i] is the fit's row weight i (same oracle question). *)
Lemma gsvd_weight_row_predict i : (i < nrow)%nat ->
  slr_matvec (gsvd_reg_matrix 1 ncol [nth i A []] reg) (vones ncol) = [nthq (fst (gsvd_weights nrow ncol A reg)) i].
Proof.
  intros Hi. destruct HA as [HL HF]. unfold gsvd_weights, gsvd_reg_matrix. cbn [fst].
  destruct (Qeq_bool reg 0).
  - unfold slr_plain. rewrite slr_matvec_row_nil by lia. reflexivity.
  - unfold regularizer. rewrite slr_matvec_row_one by (rewrite ?vscale_length, ?vones_length; lia).
    rewrite nthq_vscale by (rewrite vones_length; lia). rewrite nthq_vones by lia. reflexivity.
Qed.

(** Row i of the operator handed to the solver is the weighted vector predict builds from A_i. *)
Lemma gsvd_operator_row i v : (i < nrow)%nat ->
  let p := nthq (gsvd_diag prow (fst (gsvd_weights nrow ncol A reg))) i in
  let dc := gsvd_diag pcol (snd (gsvd_weights nrow ncol A reg)) in
  nthq (slr_matvec (gsvd_operator prow pcol nrow ncol A reg) v) i =
  nthq (slr_matvec (slr_left_diag [p] (slr_right_diag (gsvd_reg_matrix 1 ncol [nth i A []] reg) dc)) v) 0.
Proof.
  intros Hi p dc. pose proof gsvd_weights_row_length as HW. destruct HA as [HL HF].
  unfold gsvd_operator. fold dc. unfold gsvd_reg_matrix.
  assert (HDl : length (gsvd_diag prow (fst (gsvd_weights nrow ncol A reg))) = nrow)
    by (unfold gsvd_diag; rewrite map_length; exact HW).
  destruct (Qeq_bool reg 0).
  - unfold slr_plain, slr_left_diag, slr_right_diag. cbn [slr_mat slr_lr map].
    rewrite !slr_matvec_row_nil by (unfold row_scale, col_scale; rewrite ?map2_length, ?map_length; cbn [length]; lia).
    rewrite row_scale_nth by (unfold col_scale; rewrite ?map_length; lia).
    rewrite col_scale_nth by lia. reflexivity.
  - unfold regularizer, slr_left_diag, slr_right_diag. cbn [slr_mat slr_lr map fst snd].
    rewrite !slr_matvec_row_one by
        (unfold row_scale, col_scale; rewrite ?map2_length, ?map_length, ?vmul_length, ?vscale_length, ?vones_length; cbn [length]; lia).
    rewrite row_scale_nth by (unfold col_scale; rewrite ?map_length; lia).
    rewrite col_scale_nth by lia.
    rewrite nthq_vmul by (rewrite ?vscale_length, ?vones_length; lia).
    rewrite nthq_vscale by (rewrite vones_length; lia). rewrite nthq_vones by lia. reflexivity.
Qed.

Context (sU : mat) (sS : vec) (sV : mat) (index : list nat) (HU : length sU = nrow).

(** The embedding is formed from the selected triples as documented:
    row i, component k:  D1^{-a1}_i  U_{i,j}  sigma_j^{1 - fs}   with j = index[k]. *)
Lemma gsvd_emb_row_entry i k : (i < nrow)%nat -> (k < length index)%nat ->
  let j := nth k index 0%nat in
  nthq (nth i (gsvd_emb_row prow psl nrow ncol A reg sU sS index) []) k ==
  pinv (prow (nthq (fst (gsvd_weights nrow ncol A reg)) i)) * mget sU i j * psl (nthq sS j).
Proof.
  intros Hi Hk j. pose proof gsvd_weights_row_length as HW. unfold gsvd_emb_row, gsvd_sv.
  rewrite (nth_map_gen (fun r => vmul (map psl (map (nthq sS) index)) r) _ [] []) by
      (unfold row_scale; rewrite map2_length, take_cols_length; unfold gsvd_diag; rewrite map_length; lia).
  rewrite row_scale_nth by (rewrite ?take_cols_length; unfold gsvd_diag; rewrite ?map_length; lia).
  unfold take_cols. rewrite (nth_map_gen (fun r => map (nthq r) index) sU [] []) by lia.
  rewrite nthq_vmul by (rewrite ?vscale_length, ?map_length; lia).
  rewrite nthq_vscale by (rewrite map_length; lia).
  rewrite map_map. rewrite (nthq_map_gen (fun x => psl (nthq sS x)) index 0%nat) by exact Hk.
  rewrite (nthq_map_gen (nthq (nth i sU [])) index 0%nat) by exact Hk.
  unfold gsvd_diag. rewrite (nthq_map_gen (fun x => pinv (prow x)) _ 0) by lia.
  fold j. unfold mget, nthq. ring.
Qed.

Lemma gsvd_emb_row_length i : (i < nrow)%nat ->
  length (nth i (gsvd_emb_row prow psl nrow ncol A reg sU sS index) []) = length index.
Proof.
  intros Hi. pose proof gsvd_weights_row_length as HW. unfold gsvd_emb_row, gsvd_sv.
  rewrite (nth_map_gen (fun r => vmul (map psl (map (nthq sS) index)) r) _ [] []) by
      (unfold row_scale; rewrite map2_length, take_cols_length; unfold gsvd_diag; rewrite map_length; lia).
  rewrite row_scale_nth by (rewrite ?take_cols_length; unfold gsvd_diag; rewrite ?map_length; lia).
  unfold take_cols. rewrite (nth_map_gen (fun r => map (nthq r) index) sU [] []) by lia.
  rewrite vmul_length, vscale_length, !map_length. lia.
Qed.

(** predict on row i of the fitted matrix reproduces embedding_row_[i] (before normalisation),
    given the singular equation M v_j = sigma_j u_j for each selected triple and the power oracles'
    contract  sigma^(1-fs) * sigma^fs = sigma,  sigma^fs <> 0. *)
Lemma gsvd_predict_core i (norm_o : Q -> Q) : (i < nrow)%nat ->
  (forall k, (k < length index)%nat -> let j := nth k index 0%nat in
     slr_matvec (gsvd_operator prow pcol nrow ncol A reg) (col j sV) =v vscale (nthq sS j) (col j sU) /\
     psl (nthq sS j) * psr (nthq sS j) == nthq sS j /\ ~ psr (nthq sS j) == 0) ->
  gsvd_predict_row prow pcol psr norm_o false ncol reg (snd (gsvd_weights nrow ncol A reg))
                   (gsvd_sv sS index) (take_cols index sV) (nth i A []) =v
  nth i (gsvd_emb_row prow psl nrow ncol A reg sU sS index) [].
Proof.
  intros Hi Hsolver. unfold gsvd_predict_row. cbv iota.
  rewrite (gsvd_weight_row_predict i Hi).
  change (gsvd_diag prow [nthq (fst (gsvd_weights nrow ncol A reg)) i])
    with [pinv (prow (nthq (fst (gsvd_weights nrow ncol A reg)) i))].
  change (nthq [pinv (prow (nthq (fst (gsvd_weights nrow ncol A reg)) i))] 0)
    with (pinv (prow (nthq (fst (gsvd_weights nrow ncol A reg)) i))).
  set (p := pinv (prow (nthq (fst (gsvd_weights nrow ncol A reg)) i))).
  assert (Hp : p = nthq (gsvd_diag prow (fst (gsvd_weights nrow ncol A reg))) i).
  { unfold p, gsvd_diag. symmetry. apply (nthq_map_gen (fun x => pinv (prow x)) _ 0).
    rewrite gsvd_weights_row_length. exact Hi. }
  unfold gsvd_sv. rewrite map_length.
  apply veq_nth.
  - rewrite map2_length, vscale_length, !map_length, seq_length, gsvd_emb_row_length by exact Hi. lia.
  - intros k Hk. rewrite map2_length, vscale_length, !map_length, seq_length, Nat.min_id in Hk.
    rewrite nthq_map2 by (rewrite ?vscale_length, ?map_length, ?seq_length; lia).
    rewrite nthq_vscale by (rewrite map_length, seq_length; lia).
    rewrite nthq_seq_map by exact Hk.
    rewrite map_map. rewrite (nthq_map_gen (fun x => psr (nthq sS x)) index 0%nat) by exact Hk.
    rewrite col_take_cols by exact Hk.
    rewrite gsvd_emb_row_entry by assumption. cbv zeta.
    destruct (Hsolver k Hk) as [Hop [Hpow Hnz]]. cbv zeta in Hop, Hpow, Hnz.
    set (j := nth k index 0%nat) in *.
    rewrite Hp. rewrite <- (gsvd_operator_row i (col j sV) Hi). rewrite <- Hp.
    rewrite (veq_nthq _ _ i Hop). rewrite nthq_vscale by (rewrite col_length; lia).
    rewrite nthq_col by lia. fold p.
    set (s := nthq sS j) in *. set (uij := mget sU i j).
    rewrite <- Hpow at 1. field. exact Hnz.
Qed.
End GSVD.

(** Column embedding entry and full fit / predict theorems. *)
Lemma gsvd_weights_col_length nrow ncol A reg : wf_mat nrow ncol A ->
  length (snd (gsvd_weights nrow ncol A reg)) = ncol.
Proof.
  intros [HL HF]. unfold gsvd_weights, gsvd_reg_matrix. cbn [snd].
  destruct (Qeq_bool reg 0).
  - unfold slr_plain, slr_transpose. cbn [slr_mat slr_lr map]. rewrite slr_matvec_nil, qmat_vec_length.
    unfold transpose_n. rewrite map_length, seq_length. reflexivity.
  - unfold regularizer, slr_transpose. cbn [slr_mat slr_lr map fst snd].
    rewrite slr_matvec_one, vadd_length, qmat_vec_length, vscale_length, map_length, vones_length.
    unfold transpose_n. rewrite map_length, seq_length. lia.
Qed.

Lemma gsvd_emb_col_entry pcol psr nrow ncol A reg sV sS index i k :
  wf_mat nrow ncol A -> length sV = ncol -> (i < ncol)%nat -> (k < length index)%nat ->
  let j := nth k index 0%nat in
  nthq (nth i (gsvd_emb_col pcol psr nrow ncol A reg sV sS index) []) k ==
  pinv (pcol (nthq (snd (gsvd_weights nrow ncol A reg)) i)) * mget sV i j * psr (nthq sS j).
Proof.
  intros HA HV Hi Hk j. pose proof (gsvd_weights_col_length nrow ncol A reg HA) as HW. unfold gsvd_emb_col, gsvd_sv.
  rewrite (nth_map_gen (fun r => vmul (map psr (map (nthq sS) index)) r) _ [] []) by
      (unfold row_scale; rewrite map2_length, take_cols_length; unfold gsvd_diag; rewrite map_length; lia).
  rewrite row_scale_nth by (rewrite ?take_cols_length; unfold gsvd_diag; rewrite ?map_length; lia).
  unfold take_cols. rewrite (nth_map_gen (fun r => map (nthq r) index) sV [] []) by lia.
  rewrite nthq_vmul by (rewrite ?vscale_length, ?map_length; lia).
  rewrite nthq_vscale by (rewrite map_length; lia).
  rewrite map_map. rewrite (nthq_map_gen (fun x => psr (nthq sS x)) index 0%nat) by exact Hk.
  rewrite (nthq_map_gen (nthq (nth i sV [])) index 0%nat) by exact Hk.
  unfold gsvd_diag. rewrite (nthq_map_gen (fun x => pinv (pcol x)) _ 0) by lia.
  fold j. unfold mget, nthq. ring.
Qed.

(* ------------------------------------------------------------------------------------------- *)
(** * normalize(p = 2) *)
Lemma sumq_vmul_self r : sumq (vmul r r) == sumq (map (fun x => x * x) r).
Proof. induction r as [|a r IH]; [reflexivity|]. cbn. fold (vmul r r). fold (sumq (vmul r r)). rewrite IH. reflexivity. Qed.

Lemma sqnorm_sumsq r : sqnorm r == sumq (map (fun x => x * x) r).
Proof.
  unfold sqnorm. rewrite qdot_dot. rewrite <- sumq_vmul_self.
  rewrite <- (Nat.min_id (length r)) at 1. rewrite <- (vmul_length r r). apply dot_vones_r.
Qed.

Global Instance sqnorm_proper : Proper (veq ==> Qeq) sqnorm.
Proof.
  intros r r' H. unfold sqnorm. rewrite !qdot_dot, (veq_length _ _ H). rewrite H. reflexivity.
Qed.

Lemma sumsq_nonneg r : 0 <= sumq (map (fun x => x * x) r).
Proof.
  induction r as [|a r IH]; [apply Qle_refl|]. cbn. fold (sumq (map (fun x => x * x) r)). nra.
Qed.

Lemma sumsq_zero r : sumq (map (fun x => x * x) r) == 0 <-> Forall (fun x => x == 0) r.
Proof.
  induction r as [|a r IH]; [split; [constructor | reflexivity]|].
  cbn. fold (sumq (map (fun x => x * x) r)). pose proof (sumsq_nonneg r) as HS. split.
  - intros H. assert (Ha : a == 0) by nra. constructor; [exact Ha|]. apply IH. rewrite Ha in H. lra.
  - intros H. inversion H as [|? ? Ha Hr]; subst. apply IH in Hr. rewrite Ha, Hr. ring.
Qed.

(** A row is null iff its squared norm is 0. *)
Lemma sqnorm_zero r : sqnorm r == 0 <-> Forall (fun x => x == 0) r.
Proof. rewrite sqnorm_sumsq. apply sumsq_zero. Qed.

Lemma sumsq_vscale c r : sumq (map (fun x => x * x) (vscale c r)) == c * c * sumq (map (fun x => x * x) r).
Proof.
  induction r as [|a r IH]; [cbn; ring|]. cbn. fold (vscale c r).
  fold (sumq (map (fun x => x * x) (vscale c r))). fold (sumq (map (fun x => x * x) r)). rewrite IH. ring.
Qed.

(** With normalisation every non-null row has norm 1, for any sqrt oracle that answers the
    question asked ([s * s = sqnorm r]). *)
Theorem normalize_row2_unit (norm_o : Q -> Q) (r : vec) :
  norm_o (sqnorm r) * norm_o (sqnorm r) == sqnorm r ->
  ~ Forall (fun x => x == 0) r ->
  sqnorm (normalize_row2 norm_o r) == 1.
Proof.
  intros Hs Hnz. rewrite <- sqnorm_zero in Hnz. unfold normalize_row2.
  rewrite sqnorm_sumsq, sumsq_vscale, <- sqnorm_sumsq, pinv_inv.
  set (s := norm_o (sqnorm r)) in *.
  assert (Hs0 : ~ s == 0) by (intros E; apply Hnz; rewrite <- Hs, E; ring).
  rewrite <- Hs. field. exact Hs0.
Qed.

Lemma normalize_row2_null (norm_o : Q -> Q) (r : vec) :
  Forall (fun x => x == 0) r -> Forall (fun x => x == 0) (normalize_row2 norm_o r).
Proof.
  intros H. unfold normalize_row2, vscale. rewrite Forall_map. eapply Forall_impl; [|exact H].
  cbn. intros a Ha. rewrite Ha. ring.
Qed.

Lemma normalize_row2_proper (norm_o : Q -> Q) : Proper (Qeq ==> Qeq) norm_o ->
  Proper (veq ==> veq) (normalize_row2 norm_o).
Proof.
  intros HP r r' H. unfold normalize_row2. rewrite H at 2. apply vscale_proper; [|reflexivity].
  apply pinv_proper. apply HP. rewrite H. reflexivity.
Qed.

Theorem normalize2_unit (norm_o : Q -> Q) (E : mat) (i : nat) :
  (i < length E)%nat ->
  (let s := sqnorm (nth i E []) in norm_o s * norm_o s == s) ->
  ~ Forall (fun x => x == 0) (nth i E []) ->
  sqnorm (nth i (normalize2 norm_o E) []) == 1.
Proof.
  intros Hi Hs Hnz. unfold normalize2. rewrite (nth_map_gen (normalize_row2 norm_o) E [] []) by exact Hi.
  apply normalize_row2_unit; assumption.
Qed.

(** GSVD.fit / GSVD.predict with the [normalized] flag. *)
Theorem gsvd_predict_reproduces_fit_full (prow pcol psl psr norm_o : Q -> Q) (normalized : bool) (nrow ncol : nat)
        (A : mat) (reg : Q) (sU : mat) (sS : vec) (sV : mat) (index : list nat) (i : nat) :
  wf_mat nrow ncol A -> length sU = nrow -> (i < nrow)%nat ->
  Proper (Qeq ==> Qeq) norm_o ->
  (forall k, (k < length index)%nat -> let j := nth k index 0%nat in
     slr_matvec (gsvd_operator prow pcol nrow ncol A reg) (col j sV) =v vscale (nthq sS j) (col j sU) /\
     psl (nthq sS j) * psr (nthq sS j) == nthq sS j /\ ~ psr (nthq sS j) == 0) ->
  let '(sv, Ul, Vr, emb_row, emb_col) :=
      gsvd_fit prow pcol psl psr norm_o normalized nrow ncol A reg sU sS sV index in
  gsvd_predict_row prow pcol psr norm_o normalized ncol reg (snd (gsvd_weights nrow ncol A reg)) sv Vr (nth i A [])
  =v nth i emb_row [].
Proof.
  intros HA HU Hi HP Hsolver. unfold gsvd_fit, gsvd_core.
  pose proof (gsvd_predict_core prow pcol psl psr nrow ncol A reg HA sU sS sV index HU i norm_o Hi Hsolver) as H.
  destruct normalized.
  - unfold gsvd_predict_row in *. cbv iota in *.
    unfold normalize2. rewrite (nth_map_gen (normalize_row2 norm_o) _ [] []).
    + apply (normalize_row2_proper norm_o HP). exact H.
    + unfold gsvd_emb_row. rewrite map_length. unfold row_scale. rewrite map2_length, take_cols_length.
      unfold gsvd_diag. rewrite map_length, (gsvd_weights_row_length nrow ncol A reg HA). lia.
  - exact H.
Qed.

(* ------------------------------------------------------------------------------------------- *)
(** * The operator handed to the SVD solver is the documented weighted, regularised matrix *)
Lemma reg_adj_zero c A reg : reg == 0 -> reg_adj c A reg =m A.
Proof.
  intros H. unfold reg_adj. induction A as [|r A IH]; cbn; constructor; [|exact IH].
  induction r as [|a r IHr]; cbn; constructor; [|exact IHr]. rewrite H. unfold Qdiv. ring.
Qed.

Theorem gsvd_operator_matvec (prow pcol : Q -> Q) (nrow ncol : nat) (A : mat) (reg : Q) (v : vec) :
  wf_mat nrow ncol A ->
  let W := gsvd_weights nrow ncol A reg in
  slr_matvec (gsvd_operator prow pcol nrow ncol A reg) v =v
  vmul (gsvd_diag prow (fst W)) (mat_vec (reg_adj ncol A reg) (vmul (gsvd_diag pcol (snd W)) v)).
Proof.
  intros HA W. pose proof (gsvd_weights_row_length nrow ncol A reg HA) as HW. destruct HA as [HL HF].
  unfold gsvd_operator. fold W.
  assert (HD : length (gsvd_diag prow (fst W)) = nrow) by (unfold gsvd_diag; rewrite map_length; exact HW).
  unfold gsvd_reg_matrix. destruct (Qeq_bool reg 0) eqn:E.
  - apply Qeq_bool_iff in E. rewrite slr_left_diag_matvec.
    + rewrite slr_right_diag_matvec. unfold slr_plain. rewrite slr_matvec_nil, qmat_vec_eq.
      rewrite (reg_adj_zero ncol A reg E). reflexivity.
    + rewrite HD. unfold slr_right_diag, slr_plain, col_scale. cbn [slr_mat]. rewrite map_length. lia.
    + unfold slr_right_diag, slr_plain. cbn [slr_lr map]. constructor.
  - rewrite slr_left_diag_matvec.
    + rewrite slr_right_diag_matvec. rewrite (regularizer_matvec nrow ncol) by (split; assumption). reflexivity.
    + rewrite HD. unfold slr_right_diag, regularizer, col_scale. cbn [slr_mat]. rewrite map_length. lia.
    + unfold slr_right_diag, regularizer. cbn [slr_lr map fst snd]. constructor; [|constructor].
      cbn [fst]. rewrite vscale_length, vones_length. lia.
Qed.

(** The weights are the row / column sums of the regularised matrix. *)
Lemma gsvd_weights_row_sums nrow ncol A reg : wf_mat nrow ncol A ->
  fst (gsvd_weights nrow ncol A reg) =v row_sums (reg_adj ncol A reg).
Proof.
  intros HA. unfold gsvd_weights, gsvd_reg_matrix. cbn [fst].
  assert (HR : wf_mat nrow ncol (reg_adj ncol A reg)).
  { unfold reg_adj. apply (wf_map nrow ncol ncol); [|exact HA]. intros row H. rewrite map_length. exact H. }
  destruct (Qeq_bool reg 0) eqn:E.
  - apply Qeq_bool_iff in E. unfold slr_plain. rewrite slr_matvec_nil, qmat_vec_eq.
    rewrite (mat_vec_vones nrow ncol) by exact HA. rewrite (reg_adj_zero ncol A reg E). reflexivity.
  - rewrite (regularizer_matvec nrow ncol) by exact HA. apply (mat_vec_vones nrow ncol). exact HR.
Qed.

(* ------------------------------------------------------------------------------------------- *)
(** * PCA: the SparseLR operator is the centred matrix A - 1 mean^T (and its transpose) *)
Lemma outer_nth x y i : (i < length x)%nat -> nth i (outer x y) [] = vscale (nthq x i) y.
Proof. intros H. unfold outer, nthq. apply (nth_map_gen (fun xi => vscale xi y) x 0 []). exact H. Qed.

Lemma pca_y_means nrow ncol A : length A = nrow ->
  map (fun s => s / qn nrow) (qmat_vec (transpose_n ncol A) (vones nrow)) =v col_means nrow ncol A.
Proof.
  intros HL. unfold col_means. apply map_veq; [intros a b H; rewrite H; reflexivity|].
  rewrite qmat_vec_eq, <- HL. apply mat_vec_transpose_vones.
Qed.

Lemma col_means_length nrow ncol A : length (col_means nrow ncol A) = ncol.
Proof. unfold col_means. rewrite map_length. apply col_sums_length. Qed.

Lemma pca_operator_wf nrow ncol A : wf_mat nrow ncol A -> slr_wf nrow ncol (pca_operator nrow ncol A).
Proof.
  intros HA. split; [exact HA|]. cbn. constructor; [|constructor]. cbn.
  rewrite vneg_length, vones_length, map_length, qmat_vec_length. unfold transpose_n. rewrite map_length, seq_length.
  split; reflexivity.
Qed.

Lemma pca_dense nrow ncol A : wf_mat nrow ncol A -> slr_dense (pca_operator nrow ncol A) =m centered nrow ncol A.
Proof.
  intros HA. pose proof HA as [HL HF]. pose proof (pca_y_means nrow ncol A HL) as HY.
  pose proof (col_means_length nrow ncol A) as HM.
  unfold slr_dense, pca_operator. cbn [slr_lr slr_mat fold_left fst snd].
  set (y := map (fun s => s / qn nrow) (qmat_vec (transpose_n ncol A) (vones nrow))) in *.
  assert (Hy : length y = ncol) by (rewrite (veq_length _ _ HY); exact HM).
  apply meq_nth.
  - unfold madd, centered, outer. rewrite map2_length, !map_length, vneg_length, vones_length. lia.
  - intros i Hi. unfold madd in Hi. rewrite map2_length in Hi. unfold outer in Hi. rewrite !map_length, vneg_length, vones_length in Hi.
    assert (Hi' : (i < nrow)%nat) by lia.
    unfold madd. rewrite nth_map2_mat by (unfold outer; rewrite ?map_length, ?vneg_length, ?vones_length; lia).
    rewrite outer_nth by (rewrite vneg_length, vones_length; lia).
    rewrite nthq_vneg by (rewrite vones_length; lia). rewrite nthq_vones by lia.
    unfold centered. rewrite (nth_map_gen (fun r => vsub r (col_means nrow ncol A)) A [] []) by lia.
    pose proof (wf_mat_row nrow ncol A i HA Hi') as Hr.
    apply veq_nth.
    + rewrite vadd_length, vsub_length, vscale_length. lia.
    + intros j Hj. rewrite vadd_length, vscale_length in Hj.
      rewrite nthq_vadd by (rewrite ?vscale_length; lia). rewrite nthq_vscale by lia.
      rewrite nthq_vsub by lia. rewrite (veq_nthq _ _ j HY). ring.
Qed.

Theorem pca_centering nrow ncol A v : wf_mat nrow ncol A ->
  slr_matvec (pca_operator nrow ncol A) v =v mat_vec (centered nrow ncol A) v.
Proof.
  intros HA. rewrite (slr_matvec_dense nrow ncol) by (apply pca_operator_wf; exact HA).
  rewrite pca_dense by exact HA. reflexivity.
Qed.

Lemma slr_transpose_dense_one r c M x y : wf_mat r c M -> length x = r -> length y = c ->
  slr_dense (slr_transpose c {| slr_mat := M; slr_lr := [(x, y)] |}) =m
  transpose_n c (slr_dense {| slr_mat := M; slr_lr := [(x, y)] |}).
Proof.
  intros HM Hx Hy. subst c. unfold slr_dense, slr_transpose. cbn [slr_lr slr_mat map fold_left fst snd].
  assert (HO : wf_mat r (length y) (outer x y)) by (rewrite <- Hx; apply outer_wf).
  rewrite (transpose_madd r (length y)) by assumption. rewrite transpose_outer. reflexivity.
Qed.

Theorem pca_centering_transpose nrow ncol A u : wf_mat nrow ncol A ->
  slr_matvec (slr_transpose ncol (pca_operator nrow ncol A)) u =v mat_vec (transpose_n ncol (centered nrow ncol A)) u.
Proof.
  intros HA. pose proof (pca_operator_wf nrow ncol A HA) as [HM HL]. cbn in HL. inversion HL as [|? ? [Hx Hy] _]; subst.
  cbn [fst snd] in Hx, Hy.
  rewrite (slr_matvec_dense ncol nrow).
  - unfold pca_operator. rewrite (slr_transpose_dense_one nrow ncol) by assumption.
    fold (pca_operator nrow ncol A). rewrite pca_dense by exact HA. reflexivity.
  - split; cbn.
    + apply transpose_n_wf. apply HA.
    + constructor; [|constructor]. cbn. split; assumption.
Qed.

(* ------------------------------------------------------------------------------------------- *)
(** * RandomProjection *)
Theorem normalizer_matvec_dense n A reg x : (0 < n)%nat -> wf_mat n n A -> 0 <= reg -> length x = n ->
  normalizer_matvec n n A reg x =v mat_vec (transition (reg_adj n A reg)) x.
Proof.
  intros Hn HA Hreg Hx. pose proof HA as [HL HF]. pose proof (reg_adj_wf n A reg HA) as [RL RF].
  unfold normalizer_matvec.
  set (prod := if Qlt_bool 0 reg then vadd (qmat_vec A x) (vscale (reg * mean x) (vones n)) else qmat_vec A x).
  assert (Hpl : length prod = n)
    by (unfold prod; destruct (Qlt_bool 0 reg); rewrite ?vadd_length, ?qmat_vec_length, ?vscale_length, ?vones_length; lia).
  assert (Hp : forall i, (i < n)%nat -> nthq prod i == dot (nth i A []) x + reg * mean x).
  { intros i Hi. unfold prod. destruct (Qlt_bool 0 reg) eqn:E.
    - rewrite nthq_vadd by (rewrite ?qmat_vec_length, ?vscale_length, ?vones_length; lia).
      rewrite nthq_qmat_vec by lia. rewrite qdot_dot. rewrite nthq_vscale by (rewrite vones_length; lia).
      rewrite nthq_vones by lia. ring.
    - apply Qlt_bool_false in E. assert (R0 : reg == 0) by (apply Qle_antisym; assumption).
      rewrite nthq_qmat_vec by lia. rewrite qdot_dot, R0. ring. }
  apply veq_nth.
  - rewrite vmul_length, map_length, qmat_vec_length, mat_vec_length. unfold transition. rewrite map_length. lia.
  - intros i Hi. rewrite vmul_length, map_length, qmat_vec_length in Hi.
    assert (Hi' : (i < n)%nat) by lia.
    rewrite nthq_vmul by (rewrite ?map_length, ?qmat_vec_length; lia).
    rewrite (nthq_map (fun w => pinv (w + reg))) by (rewrite qmat_vec_length; lia).
    rewrite nthq_qmat_vec by lia. rewrite Hp by exact Hi'.
    rewrite nthq_mat_vec by (unfold transition; rewrite map_length; lia).
    rewrite transition_row by lia. rewrite dot_vscale_l.
    rewrite (reg_adj_rowsum n A reg Hn HA i Hi'), (reg_adj_dot n A reg Hn HA i x Hi' Hx).
    rewrite qdot_dot. rewrite <- (wf_mat_row n n A i HA Hi') at 1. rewrite dot_vones_r. reflexivity.
Qed.

Lemma mat_pow_apply_length n M t g : wf_mat n n M -> length g = n -> length (mat_pow_apply M t g) = n.
Proof. intros [HL _] Hg. destruct t; cbn; [exact Hg | rewrite mat_vec_length; exact HL]. Qed.

Lemma rp_spec_length n M alpha K g : wf_mat n n M -> length g = n -> length (rp_spec M alpha K g) = n.
Proof.
  intros HM Hg. induction K as [|K IH]; [exact Hg|].
  cbn [rp_spec]. rewrite vadd_length, IH, vscale_length, (mat_pow_apply_length n) by assumption. lia.
Qed.

Lemma vred_eq v : vred v =v v.
Proof. unfold vred. induction v as [|a v IH]; cbn; constructor; [apply Qred_correct | exact IH]. Qed.

(** The loop computes (I + alpha M + ... + (alpha M)^K) g for any operator that acts as the dense M. *)
Lemma rp_loop_invariant n M op alpha g : wf_mat n n M -> length g = n ->
  (forall x, length x = n -> op x =v mat_vec M x) ->
  forall K t f e, f =v vscale (qpow alpha t) (mat_pow_apply M t g) -> e =v rp_spec M alpha t g ->
  rp_loop op alpha K f e =v rp_spec M alpha (t + K) g.
Proof.
  intros HM Hg Hop. induction K as [|K IH]; intros t f e Hf He.
  - rewrite Nat.add_0_r. exact He.
  - cbn [rp_loop]. replace (t + S K)%nat with (S t + K)%nat by lia.
    assert (Hfl : length f = n).
    { rewrite (veq_length _ _ Hf), vscale_length. apply (mat_pow_apply_length n); assumption. }
    assert (Hf' : vred (vscale alpha (op f)) =v vscale (qpow alpha (S t)) (mat_pow_apply M (S t) g)).
    { rewrite vred_eq, (Hop f Hfl), Hf, mat_vec_vscale, vscale_vscale. cbn [qpow mat_pow_apply]. reflexivity. }
    apply IH; [exact Hf'|]. cbn [rp_spec]. rewrite vred_eq, He, Hf'. reflexivity.
Qed.

Theorem rp_loop_closed_form n M op alpha K g : wf_mat n n M -> length g = n ->
  (forall x, length x = n -> op x =v mat_vec M x) ->
  rp_loop op alpha K g g =v rp_spec M alpha K g.
Proof.
  intros HM Hg Hop. apply (rp_loop_invariant n M op alpha g HM Hg Hop K 0%nat g g).
  - change (g =v vscale 1 g). symmetry. apply vscale_1.
  - reflexivity.
Qed.

(** RandomProjection's multiplier is the documented matrix: A + reg 11^T/n, or its transition matrix. *)
Definition rp_matrix (random_walk : bool) (n : nat) (A : mat) (reg : Q) : mat :=
  if random_walk then transition (reg_adj n A reg) else reg_adj n A reg.

Theorem random_projection_column n A reg alpha K random_walk g :
  (0 < n)%nat -> wf_mat n n A -> 0 <= reg -> length g = n ->
  rp_loop (rp_multiplier random_walk n A reg) alpha K g g =v rp_spec (rp_matrix random_walk n A reg) alpha K g.
Proof.
  intros Hn HA Hreg Hg. pose proof (reg_adj_wf n A reg HA) as HR.
  apply (rp_loop_closed_form n); [| exact Hg |].
  - unfold rp_matrix. destruct random_walk; [|exact HR]. unfold transition.
    apply (wf_map n n n); [|exact HR]. intros row H. rewrite vscale_length. exact H.
  - intros x Hx. unfold rp_multiplier, rp_matrix. destruct random_walk.
    + apply normalizer_matvec_dense; assumption.
    + apply (regularizer_matvec n n). exact HA.
Qed.

(* ------------------------------------------------------------------------------------------- *)
(** * LouvainEmbedding *)
Lemma dot_indicator r labels c : length r = length labels ->
  dot r (indicator c labels) == cluster_weight r labels c.
Proof.
  revert labels; induction r as [|a r IH]; intros [|l labels] H; simpl in H; try discriminate; [reflexivity|].
  unfold indicator, cluster_weight in *. cbn [map map2 sumq fold_right]. rewrite dot_cons, IH by lia.
  fold (sumq (map2 (fun a0 l0 => if (l0 =? Z.of_nat c)%Z then a0 else 0) r labels)).
  destruct (l =? Z.of_nat c)%Z; ring.
Qed.

Lemma norm1_abs r : norm1 r == sumq (map Qabs r).
Proof. unfold norm1. rewrite qdot_dot. rewrite <- (map_length Qabs r). apply dot_vones_r. Qed.

Theorem louvain_embedding_entry A labels i c :
  (i < length A)%nat -> (c < n_labels labels)%nat -> length (nth i A []) = length labels ->
  mget (louvain_embedding A labels) i c ==
  pinv (sumq (map Qabs (nth i A []))) * cluster_weight (nth i A []) labels c.
Proof.
  intros Hi Hc Hl. unfold mget, louvain_embedding.
  rewrite (nth_map_gen (fun r => map (fun c0 => qdot (normalize_row1 r) (indicator c0 labels)) (seq 0 (n_labels labels))) A [] []) by exact Hi.
  rewrite nthq_seq_map by exact Hc. unfold normalize_row1.
  rewrite qdot_dot, dot_vscale_l, dot_indicator by exact Hl. rewrite norm1_abs. reflexivity.
Qed.

(** Rows of a non-negative matrix sum to the share of weight on labelled (non-removed) nodes;
    the shape is n x (max label + 1). *)
Lemma louvain_embedding_shape A labels : wf_mat (length A) (n_labels labels) (louvain_embedding A labels).
Proof.
  unfold louvain_embedding. split; [apply map_length|]. rewrite Forall_map. apply Forall_forall. intros r _.
  rewrite map_length, seq_length. reflexivity.
Qed.

(* ------------------------------------------------------------------------------------------- *)
(** * Residual validators *)
Lemma all_le_Forall eps x : all_le eps x = true <-> Forall (fun t => Qabs t <= eps) x.
Proof.
  unfold all_le. rewrite forallb_forall, Forall_forall. split; intros H t Ht.
  - apply Qle_bool_iff. apply H; exact Ht.
  - apply Qle_bool_iff. apply H; exact Ht.
Qed.

Lemma linf_le eps x : 0 <= eps -> (linf x <= eps <-> Forall (fun t => Qabs t <= eps) x).
Proof.
  intros He. unfold linf. induction x as [|a x IH]; cbn [map fold_right].
  - split; [constructor | intros _; exact He].
  - rewrite Q.max_lub_iff. split.
    + intros [Ha Hx]. constructor; [exact Ha | apply IH; exact Hx].
    + intros H. inversion H; subst. split; [assumption | apply IH; assumption].
Qed.

Lemma shape_ok_wf r c M : shape_ok r c M = true <-> wf_mat r c M.
Proof.
  unfold shape_ok, wf_mat. rewrite andb_true_iff, Nat.eqb_eq, forallb_forall, Forall_forall.
  split; intros [H1 H2]; split; auto; intros row Hr; apply Nat.eqb_eq; apply H2; exact Hr.
Qed.

Lemma Forall_nthq (P : Q -> Prop) x : Forall P x -> forall i, (i < length x)%nat -> P (nthq x i).
Proof. intros H i Hi. rewrite Forall_forall in H. apply H. unfold nthq. apply nth_In. exact Hi. Qed.

Theorem eig_residual_sound M lam v eps : 0 <= eps ->
  eig_residual_check M lam v eps = true ->
  wf_mat (length v) (length v) M /\
  linf (vsub (mat_vec M v) (vscale lam v)) <= eps /\
  forall i, (i < length v)%nat -> Qabs (dot (nth i M []) v - lam * nthq v i) <= eps.
Proof.
  intros He H. unfold eig_residual_check in H. apply andb_true_iff in H. destruct H as [Hs Ha].
  apply shape_ok_wf in Hs. apply all_le_Forall in Ha. split; [exact Hs|]. split.
  - apply linf_le; assumption.
  - intros i Hi. destruct Hs as [HL HF]. unfold eig_residual in Ha.
    pose proof (Forall_nthq _ _ Ha i) as Hn.
    rewrite vsub_length, mat_vec_length, vscale_length, HL, Nat.min_id in Hn. specialize (Hn Hi).
    rewrite nthq_vsub in Hn by (rewrite ?mat_vec_length, ?vscale_length; lia).
    rewrite nthq_mat_vec in Hn by lia. rewrite nthq_vscale in Hn by lia. exact Hn.
Qed.

Theorem svd_residual_sound M u sigma v eps : 0 <= eps ->
  svd_residual_check M u sigma v eps = true ->
  wf_mat (length u) (length v) M /\
  linf (vsub (mat_vec M v) (vscale sigma u)) <= eps /\
  linf (vsub (mat_vec (transpose_n (length v) M) u) (vscale sigma v)) <= eps /\
  (forall i, (i < length u)%nat -> Qabs (dot (nth i M []) v - sigma * nthq u i) <= eps) /\
  (forall j, (j < length v)%nat -> Qabs (dot (col j M) u - sigma * nthq v j) <= eps).
Proof.
  intros He H. unfold svd_residual_check in H. apply andb_true_iff in H. destruct H as [H Hr].
  apply andb_true_iff in H. destruct H as [Hs Hl].
  apply shape_ok_wf in Hs. apply all_le_Forall in Hl. apply all_le_Forall in Hr.
  split; [exact Hs|]. split; [apply linf_le; assumption|]. split; [apply linf_le; assumption|].
  destruct Hs as [HL HF]. split.
  - intros i Hi. unfold svd_residual_l in Hl. pose proof (Forall_nthq _ _ Hl i) as Hn.
    rewrite vsub_length, mat_vec_length, vscale_length, HL, Nat.min_id in Hn. specialize (Hn Hi).
    rewrite nthq_vsub in Hn by (rewrite ?mat_vec_length, ?vscale_length; lia).
    rewrite nthq_mat_vec in Hn by lia. rewrite nthq_vscale in Hn by lia. exact Hn.
  - intros j Hj. unfold svd_residual_r in Hr. pose proof (Forall_nthq _ _ Hr j) as Hn.
    assert (HT : length (transpose_n (length v) M) = length v) by (unfold transpose_n; rewrite map_length, seq_length; reflexivity).
    rewrite vsub_length, mat_vec_length, vscale_length, HT, Nat.min_id in Hn. specialize (Hn Hj).
    rewrite nthq_vsub in Hn by (rewrite ?mat_vec_length, ?vscale_length; lia).
    rewrite nthq_mat_vec in Hn by lia. rewrite nth_transpose_n in Hn by exact Hj.
    rewrite nthq_vscale in Hn by lia. exact Hn.
Qed.

(** Matrix level: column j of RandomProjection's (unnormalised) embedding is the closed form applied to
    column j of the random matrix. *)
Theorem random_projection_closed_form_cols random_walk n k A reg alpha K G j :
  (0 < n)%nat -> wf_mat n n A -> 0 <= reg -> wf_mat n k G -> (j < k)%nat ->
  col j (random_projection_core random_walk n k A reg alpha K G) =v
  rp_spec (rp_matrix random_walk n A reg) alpha K (col j G).
Proof.
  intros Hn HA Hreg [GL GF] Hj. unfold random_projection_core.
  set (op := rp_multiplier random_walk n A reg).
  assert (Hcol : forall j', length (col j' G) = n) by (intros j'; rewrite col_length; exact GL).
  assert (HM : wf_mat n n (rp_matrix random_walk n A reg)).
  { pose proof (reg_adj_wf n A reg HA) as HR. unfold rp_matrix. destruct random_walk; [|exact HR]. unfold transition.
    apply (wf_map n n n); [|exact HR]. intros row H. rewrite vscale_length. exact H. }
  assert (HW : wf_mat k n (map (fun g => rp_loop op alpha K g g) (transpose_n k G))).
  { split; [unfold transpose_n; rewrite !map_length, seq_length; reflexivity|].
    rewrite Forall_map. unfold transpose_n. rewrite Forall_map. apply Forall_forall. intros j' _. unfold op.
    rewrite (veq_length _ _ (random_projection_column n A reg alpha K random_walk (col j' G) Hn HA Hreg (Hcol j'))).
    apply (rp_spec_length n); [exact HM | apply Hcol]. }
  rewrite (col_transpose_n k n _ j HW Hj).
  rewrite (nth_map_gen (fun g => rp_loop op alpha K g g) (transpose_n k G) [] []) by
      (unfold transpose_n; rewrite map_length, seq_length; exact Hj).
  rewrite nth_transpose_n by exact Hj.
  apply random_projection_column; auto.
Qed.

(* ------------------------------------------------------------------------------------------- *)
(** * Statements in the form used by Props/C09.v *)
Lemma gsvd_embedding_entries (prow pcol psl psr : Q -> Q) (nrow ncol : nat) (A : mat) (reg : Q)
      (sU : mat) (sS : vec) (sV : mat) (index : list nat) (k : nat) :
  wf_mat nrow ncol A -> length sU = nrow -> length sV = ncol -> (k < length index)%nat ->
  let j := nth k index 0%nat in
  let W := gsvd_weights nrow ncol A reg in
  let '(sv, Ul, Vr, emb_row, emb_col) := gsvd_core prow pcol psl psr nrow ncol A reg sU sS sV index in
  nthq sv k = nthq sS j /\ col k Ul = col j sU /\ col k Vr = col j sV /\
  (forall i, (i < nrow)%nat ->
     mget emb_row i k == pinv (prow (nthq (fst W) i)) * mget sU i j * psl (nthq sS j)) /\
  (forall i, (i < ncol)%nat ->
     mget emb_col i k == pinv (pcol (nthq (snd W) i)) * mget sV i j * psr (nthq sS j)).
Proof.
  intros HA HU HV Hk j W. unfold gsvd_core. repeat split.
  - unfold gsvd_sv. apply (nthq_map_gen (nthq sS) index 0%nat). exact Hk.
  - apply col_take_cols; exact Hk.
  - apply col_take_cols; exact Hk.
  - intros i Hi. unfold mget. apply (gsvd_emb_row_entry prow psl nrow ncol A reg HA sU sS index HU i k Hi Hk).
  - intros i Hi. unfold mget. apply (gsvd_emb_col_entry pcol psr nrow ncol A reg sV sS index i k HA HV Hi Hk).
Qed.

Lemma pca_centering_both nrow ncol A : wf_mat nrow ncol A ->
  (forall v, slr_matvec (pca_operator nrow ncol A) v =v mat_vec (centered nrow ncol A) v) /\
  (forall u, slr_matvec (slr_transpose ncol (pca_operator nrow ncol A)) u =v
             mat_vec (transpose_n ncol (centered nrow ncol A)) u) /\
  (forall i j, (i < nrow)%nat -> (j < ncol)%nat ->
     mget (centered nrow ncol A) i j == mget A i j - sumq (col j A) / qn nrow).
Proof.
  intros HA. split; [intros v; apply pca_centering; exact HA|]. split; [intros u; apply pca_centering_transpose; exact HA|].
  intros i j Hi Hj. pose proof HA as [HL HF]. unfold mget, centered.
  rewrite (nth_map_gen (fun r => vsub r (col_means nrow ncol A)) A [] []) by lia.
  rewrite nthq_vsub by (rewrite ?(wf_mat_row nrow ncol A i HA Hi), ?col_means_length; lia).
  unfold col_means. rewrite (nthq_map (fun s => s / qn nrow)) by (rewrite col_sums_length; exact Hj).
  unfold col_sums. rewrite nthq_seq_map by exact Hj. reflexivity.
Qed.

(* ------------------------------------------------------------------------------------------- *)
(** * Refutations (faithful model of the current code) *)
(** GSVD.predict divides by sigma^fs: with a zero singular value among the returned ones (n_components
    above the rank) and factor_singular = 1, every hypothesis of [gsvd_predict_reproduces_fit_full]
    except [sigma^fs <> 0] holds and predict does not return the fitted row.
    Witness: A = [[3,0,0],[4,0,0],[0,0,0]], sigma = (5, 0), u2 = (4/5, -3/5, 0), row 0. *)
Lemma gsvd_predict_zero_singular_refuted :
  exists (A sU sV : mat) (sS : vec) (index : list nat) (psl psr : Q -> Q),
    let one := fun _ : Q => 1 in
    wf_mat 3 3 A /\ length sU = 3%nat /\
    (forall k, (k < length index)%nat -> let j := nth k index 0%nat in
       slr_matvec (gsvd_operator one one 3 3 A 0) (col j sV) =v vscale (nthq sS j) (col j sU) /\
       psl (nthq sS j) * psr (nthq sS j) == nthq sS j) /\
    ~ (gsvd_predict_row one one psr (fun q => q) false 3 0 (snd (gsvd_weights 3 3 A 0))
                        (gsvd_sv sS index) (take_cols index sV) (nth 0 A [])
       =v nth 0 (gsvd_emb_row one psl 3 3 A 0 sU sS index) []).
Proof.
  exists [[3; 0; 0]; [4; 0; 0]; [0; 0; 0]], [[3 # 5; 4 # 5]; [4 # 5; -(3 # 5)]; [0; 0]],
         [[1; 0]; [0; 1]; [0; 0]], [5; 0], [0%nat; 1%nat], (fun _ => 1), (fun q => q).
  cbv zeta. split; [split; [reflexivity | repeat constructor]|]. split; [reflexivity|]. split.
  - intros k Hk. do 2 (destruct k as [|k]; [vm_compute; split; [repeat (constructor; try reflexivity) | reflexivity]|]).
    cbn in Hk. lia.
  - intros H. vm_compute in H. inversion H as [|? ? ? ? _ H2]; subst. inversion H2 as [|? ? ? ? H3 _]; subst.
    vm_compute in H3. discriminate.
Qed.

(** LEGACY code (before fix 11827c95). PCA(normalized=True): fit returned the left singular vectors untouched. *)
Lemma legacy_pca_normalized_refuted :
  exists (sU : mat) (sS : vec) (sV : mat) (i : nat),
    let '(emb_row, _, _) := pca_fit_legacy true sU sS sV in
    ~ Forall (fun x => x == 0) (nth i emb_row []) /\ ~ sqnorm (nth i emb_row []) == 1.
Proof.
  exists [[3 # 5]; [4 # 5]], [1], [[1]], 0%nat. cbn. split.
  - intros H. inversion H as [|? ? H1 _]; subst. vm_compute in H1. discriminate.
  - intros H. vm_compute in H. discriminate.
Qed.

(** LEGACY code: PCA.predict after PCA.fit (weights_col_ was None) failed for every adjacency vector. *)
Lemma legacy_pca_predict_refuted x : pca_predict_row_legacy None x = inr TypeError.
Proof. reflexivity. Qed.

(* ------------------------------------------------------------------------------------------- *)
(** * PCA.predict (repaired code) reproduces the fitted rows *)
Theorem pca_predict_reproduces_fit_full (norm_o : Q -> Q) (normalized : bool) (nrow ncol : nat) (A : mat)
        (sU : mat) (sS : vec) (sV : mat) (i : nat) :
  wf_mat nrow ncol A -> wf_mat nrow (length sS) sU -> length sV = ncol -> (i < nrow)%nat ->
  Proper (Qeq ==> Qeq) norm_o ->
  (forall k, (k < length sS)%nat ->
     slr_matvec (pca_operator nrow ncol A) (col k sV) =v vscale (nthq sS k) (col k sU) /\ ~ nthq sS k == 0) ->
  let '(emb_row, emb_col, sv) := pca_fit norm_o normalized sU sS sV in
  pca_predict_row norm_o normalized (pca_mean_col nrow ncol A) sv sV (nth i A []) =v nth i emb_row [].
Proof.
  intros HA HU HV Hi HP Hsolver. unfold pca_fit.
  pose proof HA as [HL HF]. pose proof HU as [HUL HUF].
  pose proof (pca_y_means nrow ncol A HL) as HY. fold (pca_mean_col nrow ncol A) in HY.
  pose proof (col_means_length nrow ncol A) as HM.
  assert (Hcore : pca_predict_row norm_o false (pca_mean_col nrow ncol A) sS sV (nth i A []) =v nth i sU []).
  { unfold pca_predict_row. apply veq_nth.
    - rewrite map_length, seq_length, (wf_mat_row nrow (length sS) sU i HU Hi). reflexivity.
    - intros k Hk. rewrite map_length, seq_length in Hk. rewrite nthq_seq_map by exact Hk.
      destruct (Hsolver k Hk) as [Hop Hnz].
      pose proof (veq_nthq _ _ i Hop) as E. rewrite (veq_nthq _ _ i (pca_centering nrow ncol A (col k sV) HA)) in E.
      rewrite nthq_mat_vec in E by (unfold centered; rewrite map_length; lia).
      unfold centered in E. rewrite (nth_map_gen (fun r => vsub r (col_means nrow ncol A)) A [] []) in E by lia.
      rewrite dot_vsub_l in E by (rewrite (wf_mat_row nrow ncol A i HA Hi), HM; reflexivity).
      rewrite nthq_vscale in E by (rewrite col_length; lia). rewrite nthq_col in E by lia.
      rewrite !qdot_dot, HY, E. unfold mget. field. exact Hnz. }
  destruct normalized.
  - unfold pca_predict_row in *. unfold normalize2. rewrite (nth_map_gen (normalize_row2 norm_o) sU [] []) by lia.
    apply (normalize_row2_proper norm_o HP). exact Hcore.
  - exact Hcore.
Qed.

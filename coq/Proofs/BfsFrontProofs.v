(** Front end of get_distances / get_shortest_path (Model/Bfs.v): transposition, the bipartite block
    graph, the initial mask, the error branches and the split of the result; plus soundness and
    completeness of the brute-force validator [dist_ok]. *)
From Coq Require Import Permutation.
From SKN Require Import Base.Util Model.Bfs Proofs.BfsProofs.
Set Warnings "-notation-overridden".

(** * Well-formed pattern matrices *)

Definition wf_pmat (m : pmat) : Prop :=
  forall i j, In j (row (p_rows m) i) -> j < p_ncol m.

(** * 1. transpose *)

Lemma transpose_nrow m : p_nrow (transpose m) = p_ncol m.
Proof. unfold p_nrow, transpose. cbn [p_rows]. rewrite map_length, seq_length. reflexivity. Qed.

Lemma transpose_ncol m : p_ncol (transpose m) = p_nrow m.
Proof. reflexivity. Qed.

Lemma row_transpose m j : j < p_ncol m ->
  row (p_rows (transpose m)) j =
  filter (fun i => memn j (row (p_rows m) i)) (seq 0 (p_nrow m)).
Proof.
  intros Hj. unfold row at 1, transpose. cbn [p_rows].
  rewrite nth_map_seq by exact Hj. reflexivity.
Qed.

(** Holds for every pattern matrix (no well-formedness needed). *)
Lemma transpose_edges m i j :
  In i (row (p_rows (transpose m)) j) <->
  i < p_nrow m /\ j < p_ncol m /\ In j (row (p_rows m) i).
Proof.
  split.
  - intros H. pose proof (row_nonempty_lt _ _ _ H) as Hj.
    fold (p_nrow (transpose m)) in Hj. rewrite transpose_nrow in Hj.
    rewrite row_transpose in H by exact Hj.
    apply filter_In in H. destruct H as [Hi Hm].
    apply in_seq in Hi. apply memn_In in Hm. repeat split; [lia|exact Hj|exact Hm].
  - intros [Hi [Hj Hin]]. rewrite row_transpose by exact Hj.
    apply filter_In. split; [apply in_seq; lia | apply memn_In; exact Hin].
Qed.

Theorem transpose_spec m :
  wf_pmat m ->
  p_nrow (transpose m) = p_ncol m /\ p_ncol (transpose m) = p_nrow m /\
  wf_pmat (transpose m) /\
  (forall i j, In i (row (p_rows (transpose m)) j) <->
               i < p_nrow m /\ j < p_ncol m /\ In j (row (p_rows m) i)) /\
  (forall i j, In i (row (p_rows (transpose m)) j) <-> In j (row (p_rows m) i)).
Proof.
  intros Hwf. split; [apply transpose_nrow|]. split; [reflexivity|]. split; [|split].
  - intros j i H. apply transpose_edges in H. rewrite transpose_ncol. tauto.
  - intros i j. apply transpose_edges.
  - intros i j. rewrite transpose_edges. split; [tauto|].
    intros H. split; [exact (row_nonempty_lt _ _ _ H)|]. split; [exact (Hwf _ _ H)|exact H].
Qed.

Lemma wf_transpose m : wf_pmat (transpose m).
Proof. intros j i H. apply transpose_edges in H. rewrite transpose_ncol. tauto. Qed.

(** * 2. block_undirected *)

Lemma block_length m : length (block_undirected m) = p_nrow m + p_ncol m.
Proof.
  unfold block_undirected. rewrite app_length, map_length.
  fold (p_nrow m). fold (p_nrow (transpose m)). rewrite transpose_nrow. reflexivity.
Qed.

Lemma row_block_lo m u : u < p_nrow m ->
  row (block_undirected m) u = map (fun j => p_nrow m + j) (row (p_rows m) u).
Proof.
  intros Hu. unfold row, block_undirected.
  rewrite app_nth1 by (rewrite map_length; exact Hu).
  apply (nth_map_lt (fun r => map (fun j => p_nrow m + j) r)). exact Hu.
Qed.

Lemma row_block_hi m j :
  row (block_undirected m) (p_nrow m + j) = row (p_rows (transpose m)) j.
Proof.
  unfold row, block_undirected.
  rewrite app_nth2 by (rewrite map_length; fold (p_nrow m); lia).
  rewrite map_length. fold (p_nrow m). f_equal. lia.
Qed.

(** Holds for every pattern matrix. *)
Lemma block_edges m u v :
  In v (row (block_undirected m) u) <->
  (u < p_nrow m /\ exists j, v = p_nrow m + j /\ In j (row (p_rows m) u)) \/
  (exists j, u = p_nrow m + j /\ j < p_ncol m /\ v < p_nrow m /\ In j (row (p_rows m) v)).
Proof.
  destruct (Nat.lt_ge_cases u (p_nrow m)) as [L|L].
  - rewrite row_block_lo by exact L. rewrite in_map_iff. split.
    + intros [j [E H]]. left. split; [exact L|]. exists j. split; [lia|exact H].
    + intros [[_ [j [E H]]]|[j [E _]]]; [|lia]. exists j. split; [lia|exact H].
  - replace u with (p_nrow m + (u - p_nrow m)) at 1 by lia.
    rewrite row_block_hi, transpose_edges. split.
    + intros [Hv [Hj H]]. right. exists (u - p_nrow m). repeat split; try assumption. lia.
    + intros [[Hu _]|[j [E [Hj [Hv H]]]]]; [lia|].
      replace (u - p_nrow m) with j by lia. tauto.
Qed.

Theorem block_undirected_spec m :
  wf_pmat m ->
  length (block_undirected m) = p_nrow m + p_ncol m /\
  wf_graph (block_undirected m) /\
  forall u v,
    In v (row (block_undirected m) u) <->
    (exists j, u < p_nrow m /\ v = p_nrow m + j /\ In j (row (p_rows m) u)) \/
    (exists j, u = p_nrow m + j /\ v < p_nrow m /\ In j (row (p_rows m) v)).
Proof.
  intros Hwf. split; [apply block_length|]. split.
  - intros u v H. rewrite block_length. apply block_edges in H.
    destruct H as [[_ [j [E H]]]|[j [_ [_ [Hv _]]]]]; [|lia].
    pose proof (Hwf _ _ H). lia.
  - intros u v. rewrite block_edges. split.
    + intros [[Hu [j [E H]]]|[j [E [Hj [Hv H]]]]].
      * left. exists j. tauto.
      * right. exists j. tauto.
    + intros [[j [Hu [E H]]]|[j [E [Hv H]]]].
      * left. split; [exact Hu|]. exists j. tauto.
      * right. exists j. pose proof (Hwf _ _ H). tauto.
Qed.

Lemma wf_block m : wf_pmat m -> wf_graph (block_undirected m).
Proof. intros H. apply (block_undirected_spec m H). Qed.

(** The block graph is symmetric. *)
Lemma block_symmetric m u v :
  wf_pmat m -> In v (row (block_undirected m) u) -> In u (row (block_undirected m) v).
Proof.
  intros Hwf. rewrite !block_edges.
  intros [[Hu [j [E H]]]|[j [E [Hj [Hv H]]]]].
  - right. exists j. pose proof (Hwf _ _ H). tauto.
  - left. split; [exact Hv|]. exists j. tauto.
Qed.

(** * 3. set_mask *)

Lemma forallb_ltb_spec n off idx :
  forallb (fun i => Nat.ltb (off + i) n) idx = true <-> forall i, In i idx -> off + i < n.
Proof.
  rewrite forallb_forall. split; intros H i Hi.
  - apply Nat.ltb_lt. exact (H i Hi).
  - apply Nat.ltb_lt. exact (H i Hi).
Qed.

Lemma set_mask_ok n off idx mask :
  (forall i, In i idx -> off + i < n) ->
  set_mask n off idx mask =
  Ok (map (fun v => nthb mask v || memn v (map (fun i => off + i) idx)) (seq 0 n)).
Proof.
  intros H. unfold set_mask.
  rewrite (proj2 (forallb_ltb_spec n off idx) H). reflexivity.
Qed.

Lemma set_mask_err n off idx mask :
  ~ (forall i, In i idx -> off + i < n) -> set_mask n off idx mask = Err IndexError.
Proof.
  intros H. unfold set_mask.
  destruct (forallb (fun i => Nat.ltb (off + i) n) idx) eqn:E; [|reflexivity].
  exfalso. apply H. apply forallb_ltb_spec. exact E.
Qed.

Lemma in_range_dec n off idx :
  {forall i, In i idx -> off + i < n} + {exists i, In i idx /\ n <= off + i}.
Proof.
  destruct (forallb (fun i => Nat.ltb (off + i) n) idx) eqn:E.
  - left. apply forallb_ltb_spec. exact E.
  - right. induction idx as [|a t IH]; [discriminate|].
    cbn [forallb] in E. apply andb_false_iff in E. destruct E as [E|E].
    + exists a. split; [left; reflexivity|]. apply Nat.ltb_ge in E. exact E.
    + destruct (IH E) as [i [Hi Hn]]. exists i. split; [right; exact Hi|exact Hn].
Qed.

Theorem set_mask_spec n off idx mask :
  (forall mask', set_mask n off idx mask = Ok mask' <->
     (forall i, In i idx -> off + i < n) /\
     length mask' = n /\
     forall v, (nthb mask' v = true <->
                v < n /\ (nthb mask v = true \/ exists i, In i idx /\ v = off + i))) /\
  (set_mask n off idx mask = Err IndexError <-> exists i, In i idx /\ n <= off + i) /\
  (forall e, set_mask n off idx mask = Err e -> e = IndexError).
Proof.
  assert (Hchar : forall v,
            nthb (map (fun v => nthb mask v || memn v (map (fun i => off + i) idx)) (seq 0 n)) v = true <->
            v < n /\ (nthb mask v = true \/ exists i, In i idx /\ v = off + i)).
  { intros v. destruct (Nat.lt_ge_cases v n) as [L|L].
    - unfold nthb at 1. rewrite nth_map_seq by exact L.
      rewrite orb_true_iff, memn_In, in_map_iff. split.
      + intros [H|[i [E H]]]; (split; [exact L|]); [left; exact H|right; exists i; auto].
      + intros [_ [H|[i [H E]]]]; [left; exact H|right; exists i; auto].
    - unfold nthb at 1. rewrite nth_overflow by (rewrite map_length, seq_length; exact L).
      split; [discriminate|]. intros [H _]. lia. }
  split; [|split].
  - intros mask'. split.
    + intros H. destruct (in_range_dec n off idx) as [Hr|[i [Hi Hn]]].
      * rewrite set_mask_ok in H by exact Hr. injection H as H. subst mask'.
        split; [exact Hr|]. split; [rewrite map_length, seq_length; reflexivity|exact Hchar].
      * rewrite set_mask_err in H; [discriminate|].
        intros Hr. specialize (Hr i Hi). lia.
    + intros [Hr [Hl Hc]]. rewrite set_mask_ok by exact Hr. f_equal.
      apply nth_ext with (d := false) (d' := false).
      * rewrite map_length, seq_length. symmetry. exact Hl.
      * intros v _.
        fold (nthb (map (fun v => nthb mask v || memn v (map (fun i => off + i) idx)) (seq 0 n)) v).
        fold (nthb mask' v).
        destruct (nthb mask' v) eqn:E1.
        -- apply Hchar. apply Hc. exact E1.
        -- destruct (nthb (map (fun v => nthb mask v || memn v (map (fun i => off + i) idx)) (seq 0 n)) v) eqn:E2;
             [|reflexivity].
           apply Hchar in E2. apply Hc in E2. rewrite E2 in E1. discriminate.
  - split.
    + intros H. destruct (in_range_dec n off idx) as [Hr|Hx]; [|exact Hx].
      rewrite set_mask_ok in H by exact Hr. discriminate.
    + intros [i [Hi Hn]]. apply set_mask_err. intros Hr. specialize (Hr i Hi). lia.
  - intros e H. unfold set_mask in H.
    destruct (forallb (fun i => Nat.ltb (off + i) n) idx); [discriminate|].
    injection H as H. symmetry. exact H.
Qed.

(** * 4. get_distances: the front end *)

Definition olist {A} (o : option (list A)) : list A :=
  match o with Some l => l | None => [] end.

(** Boolean indicator vector of a list of nodes. *)
Definition mask_of (n : nat) (nodes : list nat) : list bool :=
  map (fun v => memn v nodes) (seq 0 n).

(** The matrix, the bipartite decision, the graph and the source nodes of a call. *)
Definition gd_matrix (m0 : pmat) (tr : bool) : pmat := if tr then transpose m0 else m0.

Definition gd_bipartite (m : pmat) (sr sc : option (list nat)) (fb : bool) : bool :=
  (match sr, sc with None, None => fb | _, _ => true end) ||
  negb (Nat.eqb (p_nrow m) (p_ncol m)).

Definition gd_graph (m : pmat) (bip : bool) : graph :=
  if bip then block_undirected m else p_rows m.

Definition gd_rows (s sr : option (list nat)) : option (list nat) :=
  match s with Some x => Some x | None => sr end.

Definition gd_nodes (m : pmat) (bip : bool) (s sr sc : option (list nat)) : list nat :=
  if bip then olist (gd_rows s sr) ++ map (fun j => p_nrow m + j) (olist sc) else olist s.

Definition gd_value_error (bip : bool) (s sr sc : option (list nat)) : Prop :=
  (bip = false /\ s = None) \/
  (bip = true /\ s <> None /\ sr <> None) \/
  (bip = true /\ s = None /\ sr = None /\ sc = None).

Definition gd_index_error (G : graph) (nodes : list nat) : Prop :=
  exists v, In v nodes /\ length G <= v.

Lemma gd_bipartite_iff m sr sc fb :
  gd_bipartite m sr sc fb = true <->
  fb = true \/ sr <> None \/ sc <> None \/ p_nrow m <> p_ncol m.
Proof.
  unfold gd_bipartite. rewrite orb_true_iff, negb_true_iff, Nat.eqb_neq.
  destruct sr as [r|], sc as [c|]; split; intros H; try tauto;
    try (left; reflexivity); try (right; left; discriminate); try (right; right; left; discriminate).
Qed.

(** ** masks *)

Lemma mask_of_length n nodes : length (mask_of n nodes) = n.
Proof. unfold mask_of. rewrite map_length, seq_length. reflexivity. Qed.

Lemma nthb_mask_of n nodes v :
  nthb (mask_of n nodes) v = true <-> v < n /\ In v nodes.
Proof.
  unfold mask_of. destruct (Nat.lt_ge_cases v n) as [L|L].
  - unfold nthb. rewrite nth_map_seq by exact L. rewrite memn_In. tauto.
  - unfold nthb. rewrite nth_overflow by (rewrite map_length, seq_length; exact L).
    split; [discriminate|]. intros [H _]. lia.
Qed.

Lemma nthb_mask_of_lt n nodes v : v < n -> nthb (mask_of n nodes) v = memn v nodes.
Proof. intros L. unfold mask_of, nthb. rewrite nth_map_seq by exact L. reflexivity. Qed.

Lemma map_false_seq a n : map (fun _ : nat => false) (seq a n) = repeat false n.
Proof. revert a; induction n as [|n IH]; intros a; simpl; [reflexivity|]. rewrite IH. reflexivity. Qed.

Lemma mask_of_nil n : mask_of n [] = repeat false n.
Proof. unfold mask_of. cbn [memn existsb]. apply map_false_seq. Qed.

Lemma memn_app v l1 l2 : memn v (l1 ++ l2) = memn v l1 || memn v l2.
Proof. unfold memn. apply existsb_app. Qed.

Lemma set_mask_on_mask n off idx nodes :
  (forall j, In j idx -> off + j < n) ->
  set_mask n off idx (mask_of n nodes) = Ok (mask_of n (nodes ++ map (fun j => off + j) idx)).
Proof.
  intros H. rewrite set_mask_ok by exact H. f_equal. unfold mask_of at 2.
  apply map_ext_in. intros v Hv. apply in_seq in Hv.
  rewrite nthb_mask_of_lt by lia. rewrite memn_app. reflexivity.
Qed.

Lemma map_add0 (l : list nat) : map (fun i => 0 + i) l = l.
Proof. change (fun i => 0 + i) with (fun i : nat => i). apply map_id. Qed.

(** The bipartite mask: rows first (offset 0), then columns (offset n_row). *)
Definition bip_mask (n n_row : nat) (rows cols : option (list nat)) : result (list bool) :=
  match (match rows with Some s => set_mask n 0 s (repeat false n) | None => Ok (repeat false n) end) with
  | Err e => Err e
  | Ok mk => match cols with Some s => set_mask n n_row s mk | None => Ok mk end
  end.

Lemma bip_mask_cases n n_row rows cols :
  let nodes := olist rows ++ map (fun j => n_row + j) (olist cols) in
  ((forall v, In v nodes -> v < n) /\ bip_mask n n_row rows cols = Ok (mask_of n nodes)) \/
  ((exists v, In v nodes /\ n <= v) /\ bip_mask n n_row rows cols = Err IndexError).
Proof.
  intros nodes.
  assert (Hrows : (forall i, In i (olist rows) -> 0 + i < n) ->
            match rows with Some s => set_mask n 0 s (repeat false n) | None => Ok (repeat false n) end
            = Ok (mask_of n (olist rows))).
  { intros Hr. destruct rows as [r|]; cbn [olist] in *.
    - rewrite <- mask_of_nil. rewrite set_mask_on_mask by exact Hr.
      cbn [app]. rewrite map_add0. reflexivity.
    - rewrite mask_of_nil. reflexivity. }
  destruct (in_range_dec n 0 (olist rows)) as [Hr|[i [Hi Hn]]].
  - destruct (in_range_dec n n_row (olist cols)) as [Hc|[j [Hj Hn]]].
    + left. split.
      * intros v Hv. unfold nodes in Hv. apply in_app_or in Hv. destruct Hv as [Hv|Hv].
        -- exact (Hr v Hv).
        -- apply in_map_iff in Hv. destruct Hv as [j [E Hj]]. subst v. exact (Hc j Hj).
      * unfold bip_mask. rewrite (Hrows Hr). unfold nodes.
        destruct cols as [c|]; cbn [olist] in *.
        -- apply set_mask_on_mask. exact Hc.
        -- cbn [map]. rewrite app_nil_r. reflexivity.
    + right. split.
      * exists (n_row + j). split; [|exact Hn]. unfold nodes. apply in_or_app. right.
        apply in_map_iff. exists j. split; [reflexivity|exact Hj].
      * unfold bip_mask. rewrite (Hrows Hr).
        destruct cols as [c|]; cbn [olist] in *; [|destruct Hj].
        apply set_mask_err. intros Hc. specialize (Hc j Hj). lia.
  - right. split.
    + exists i. split; [|exact Hn]. unfold nodes. apply in_or_app. left. exact Hi.
    + unfold bip_mask. destruct rows as [r|]; cbn [olist] in *; [|destruct Hi].
      rewrite set_mask_err; [reflexivity|].
      intros Hr. specialize (Hr i Hi). lia.
Qed.

(** ** get_distances refactored (definitionally equal to the model) *)

Definition gd_rmask (m : pmat) (bip : bool) (s sr sc : option (list nat)) : result (list bool) :=
  let n := length (gd_graph m bip) in
  if bip then
    match s, sr with
    | Some _, Some _ => Err ValueError
    | _, _ =>
        match gd_rows s sr, sc with
        | None, None => Err ValueError
        | rows, _ => bip_mask n (p_nrow m) rows sc
        end
    end
  else
    match s with
    | None => Err ValueError
    | Some s => set_mask n 0 s (repeat false n)
    end.

Definition gd_core (m : pmat) (bip : bool) (s sr sc : option (list nat))
  : result (list Z * option (list Z)) :=
  match gd_rmask m bip s sr sc with
  | Err e => Err e
  | Ok mk =>
      match bfs (gd_graph m bip) mk with
      | None => Err OutOfFuel
      | Some dist =>
          if bip then Ok (firstn (p_nrow m) dist, Some (skipn (p_nrow m) dist)) else Ok (dist, None)
      end
  end.

Lemma get_distances_unfold m0 s sr sc tr fb :
  get_distances m0 s sr sc tr fb =
  gd_core (gd_matrix m0 tr) (gd_bipartite (gd_matrix m0 tr) sr sc fb) s sr sc.
Proof.
  unfold get_distances, gd_core, gd_rmask, gd_bipartite, gd_graph, gd_rows, bip_mask.
  destruct s as [s|], sr as [r|], sc as [c|]; reflexivity.
Qed.

Lemma gd_rmask_cases m bip s sr sc :
  let n := length (gd_graph m bip) in
  let nodes := gd_nodes m bip s sr sc in
  (gd_value_error bip s sr sc /\ gd_rmask m bip s sr sc = Err ValueError) \/
  (~ gd_value_error bip s sr sc /\ gd_index_error (gd_graph m bip) nodes /\
   gd_rmask m bip s sr sc = Err IndexError) \/
  (~ gd_value_error bip s sr sc /\ (forall v, In v nodes -> v < n) /\
   gd_rmask m bip s sr sc = Ok (mask_of n nodes)).
Proof.
  intros n nodes. unfold gd_index_error. fold n.
  assert (Hnb : forall x : list nat, Some x <> None) by (intros x; discriminate).
  destruct bip.
  - (* bipartite *)
    assert (Hgo : forall rows, rows = gd_rows s sr ->
              ~ gd_value_error true s sr sc ->
              gd_rmask m true s sr sc = bip_mask n (p_nrow m) rows sc ->
              (~ gd_value_error true s sr sc /\ (exists v, In v nodes /\ n <= v) /\
               gd_rmask m true s sr sc = Err IndexError) \/
              (~ gd_value_error true s sr sc /\ (forall v, In v nodes -> v < n) /\
               gd_rmask m true s sr sc = Ok (mask_of n nodes))).
    { intros rows Er Hve Eq. rewrite Eq.
      destruct (bip_mask_cases n (p_nrow m) rows sc) as [[Hr Hm]|[Hx Hm]].
      - right. unfold nodes, gd_nodes. rewrite <- Er. auto.
      - left. unfold nodes, gd_nodes. rewrite <- Er. auto. }
    destruct s as [s|].
    + destruct sr as [r|].
      * left. split; [|reflexivity]. right; left. auto.
      * right. apply (Hgo (Some s)); [reflexivity| |destruct sc; reflexivity].
        intros [[H _]|[[_ [_ H]]|[_ [H _]]]]; congruence.
    + destruct sr as [r|].
      * right. apply (Hgo (Some r)); [reflexivity| |destruct sc; reflexivity].
        intros [[H _]|[[_ [H _]]|[_ [_ [H _]]]]]; congruence.
      * destruct sc as [c|].
        -- right. apply (Hgo None); [reflexivity| |reflexivity].
           intros [[H _]|[[_ [H _]]|[_ [_ [_ H]]]]]; congruence.
        -- left. split; [|reflexivity]. right; right. auto.
  - (* not bipartite *)
    destruct s as [s|].
    + right.
      assert (Hve : ~ gd_value_error false (Some s) sr sc).
      { intros [[_ H]|[[H _]|[H _]]]; congruence. }
      unfold nodes, gd_nodes, gd_rmask. cbn [olist]. fold n.
      destruct (in_range_dec n 0 s) as [Hr|[i [Hi Hn]]].
      * right. split; [exact Hve|]. split; [exact Hr|].
        rewrite <- mask_of_nil. rewrite set_mask_on_mask by exact Hr.
        cbn [app]. rewrite map_add0. reflexivity.
      * left. split; [exact Hve|]. split; [exists i; auto|].
        apply set_mask_err. intros Hr. specialize (Hr i Hi). lia.
    + left. split; [|reflexivity]. left. auto.
Qed.

(** ** the three outcomes of get_distances *)

Lemma gd_core_cases m bip s sr sc :
  let G := gd_graph m bip in
  let nodes := gd_nodes m bip s sr sc in
  (gd_value_error bip s sr sc /\ gd_core m bip s sr sc = Err ValueError) \/
  (~ gd_value_error bip s sr sc /\ gd_index_error G nodes /\
   gd_core m bip s sr sc = Err IndexError) \/
  (~ gd_value_error bip s sr sc /\ (forall v, In v nodes -> v < length G) /\
   exists dist, bfs G (mask_of (length G) nodes) = Some dist /\
     Final G (mask_of (length G) nodes) dist /\
     gd_core m bip s sr sc =
     if bip then Ok (firstn (p_nrow m) dist, Some (skipn (p_nrow m) dist)) else Ok (dist, None)).
Proof.
  intros G nodes. unfold gd_core.
  destruct (gd_rmask_cases m bip s sr sc) as [[Hve E]|[[Hve [Hx E]]|[Hve [Hr E]]]].
  - left. rewrite E. auto.
  - right; left. rewrite E. auto.
  - right; right. rewrite E. split; [exact Hve|]. split; [exact Hr|].
    fold G. fold nodes.
    destruct (bfs_exact G (mask_of (length G) nodes) (mask_of_length _ _)) as [dist [Hb [Hl Hf]]].
    exists dist. split; [exact Hb|]. split; [split; [exact Hl|exact Hf]|].
    rewrite Hb. reflexivity.
Qed.

Lemma gd_graph_length m bip :
  length (gd_graph m bip) = if bip then p_nrow m + p_ncol m else p_nrow m.
Proof. destruct bip; cbn [gd_graph]; [apply block_length|reflexivity]. Qed.

Theorem get_distances_full_exact m0 s sr sc tr fb d c :
  get_distances m0 s sr sc tr fb = Ok (d, c) ->
  let m := gd_matrix m0 tr in
  let bip := gd_bipartite m sr sc fb in
  let G := gd_graph m bip in
  let nodes := gd_nodes m bip s sr sc in
  let src := mask_of (length G) nodes in
  let dist := d ++ olist c in
  ~ gd_value_error bip s sr sc /\
  (forall v, In v nodes -> v < length G) /\
  (forall v, nthb src v = true <-> In v nodes) /\
  (if bip
   then length G = p_nrow m + p_ncol m /\ length d = p_nrow m /\
        exists c', c = Some c' /\ length c' = p_ncol m
   else length G = p_nrow m /\ p_nrow m = p_ncol m /\ c = None) /\
  bfs G src = Some dist /\
  length dist = length G /\
  forall v, v < length G ->
    (forall k, nthz dist v = Z.of_nat k <-> hop G src v k) /\
    (nthz dist v = (-1)%Z <-> forall k, ~ reachk G src k v).
Proof.
  intros H m bip G nodes src dist.
  rewrite get_distances_unfold in H. fold m in H. fold bip in H.
  destruct (gd_core_cases m bip s sr sc) as [[_ E]|[[_ [_ E]]|[Hve [Hr [dd [Hb [[Hl Hf] E]]]]]]];
    try (rewrite E in H; discriminate).
  fold G in Hr, Hb, Hl, Hf. fold nodes in Hr, Hb, Hl, Hf. fold src in Hb, Hl, Hf.
  rewrite E in H.
  split; [exact Hve|]. split; [exact Hr|]. split.
  { intros v. unfold src. rewrite nthb_mask_of. split; [tauto|]. intros Hv. split; [apply Hr|]; exact Hv. }
  pose proof (gd_graph_length m bip) as HlG. fold G in HlG.
  destruct bip eqn:Eb.
  - injection H as Hd Hc. subst d c.
    assert (Hdist : dist = dd).
    { unfold dist. cbn [olist]. apply firstn_skipn. }
    rewrite Hdist.
    split.
    { split; [exact HlG|]. split.
      - rewrite firstn_length. lia.
      - exists (skipn (p_nrow m) dd). split; [reflexivity|]. rewrite skipn_length. lia. }
    split; [exact Hb|]. split; [exact Hl|exact Hf].
  - injection H as Hd Hc. subst d c.
    assert (Hdist : dist = dd).
    { unfold dist. cbn [olist]. apply app_nil_r. }
    rewrite Hdist.
    split.
    { split; [exact HlG|]. split; [|reflexivity].
      unfold bip, gd_bipartite in Eb. apply orb_false_iff in Eb. destruct Eb as [_ Eb].
      apply negb_false_iff in Eb. apply Nat.eqb_eq in Eb. exact Eb. }
    split; [exact Hb|]. split; [exact Hl|exact Hf].
Qed.

(** Error branches, and totality: every call ends in exactly one of the three outcomes. *)
Theorem get_distances_errors m0 s sr sc tr fb :
  let m := gd_matrix m0 tr in
  let bip := gd_bipartite m sr sc fb in
  let G := gd_graph m bip in
  let nodes := gd_nodes m bip s sr sc in
  (get_distances m0 s sr sc tr fb = Err ValueError <-> gd_value_error bip s sr sc) /\
  (get_distances m0 s sr sc tr fb = Err IndexError <->
     ~ gd_value_error bip s sr sc /\ gd_index_error G nodes) /\
  get_distances m0 s sr sc tr fb <> Err OutOfFuel /\
  ((exists d c, get_distances m0 s sr sc tr fb = Ok (d, c)) <->
     ~ gd_value_error bip s sr sc /\ forall v, In v nodes -> v < length G).
Proof.
  intros m bip G nodes. subst G nodes. rewrite get_distances_unfold. fold m. fold bip.
  destruct (gd_core_cases m bip s sr sc) as [[Hve E]|[[Hve [Hx E]]|[Hve [Hr [dd [_ [_ E]]]]]]];
    rewrite E.
  - split; [tauto|]. split; [split; [discriminate|tauto]|]. split; [discriminate|].
    split; [intros [d [c H]]; discriminate|tauto].
  - split; [split; [discriminate|tauto]|]. split; [tauto|]. split; [discriminate|].
    split; [intros [d [c H]]; discriminate|].
    intros [_ Hr]. destruct Hx as [v [Hv Hn]]. specialize (Hr v Hv). lia.
  - assert (Hnx : ~ gd_index_error (gd_graph m bip) (gd_nodes m bip s sr sc)).
    { intros [v [Hv Hn]]. specialize (Hr v Hv). lia. }
    destruct bip.
    + split; [split; [discriminate|tauto]|]. split; [split; [discriminate|tauto]|].
      split; [discriminate|]. split; [tauto|]. intros _. eexists. eexists. reflexivity.
    + split; [split; [discriminate|tauto]|]. split; [split; [discriminate|tauto]|].
      split; [discriminate|]. split; [tauto|]. intros _. eexists. eexists. reflexivity.
Qed.

(** * 5. get_shortest_path through the front end *)

Lemma wf_gd_graph m bip :
  wf_pmat m -> (bip = false -> p_nrow m = p_ncol m) -> wf_graph (gd_graph m bip).
Proof.
  intros Hwf Hsq. destruct bip; cbn [gd_graph].
  - apply wf_block. exact Hwf.
  - intros u v H. fold (p_nrow m). rewrite (Hsq eq_refl). exact (Hwf _ _ H).
Qed.

Theorem get_shortest_path_full_exact m s sr sc fb gr :
  wf_pmat m ->
  get_shortest_path false true m s sr sc fb = Ok gr ->
  let bip := gd_bipartite m sr sc fb in
  let G := gd_graph m bip in
  let nodes := gd_nodes m bip s sr sc in
  let src := mask_of (length G) nodes in
  exists dist,
    bfs G src = Some dist /\
    length dist = length G /\
    (forall v, v < length G ->
       (forall k, nthz dist v = Z.of_nat k <-> hop G src v k) /\
       (nthz dist v = (-1)%Z <-> forall k, ~ reachk G src k v)) /\
    length gr = length G /\
    forall i j, i < length G ->
      (In j (row gr i) <->
       In j (row G i) /\ (0 <= nthz dist i)%Z /\ nthz dist j = (nthz dist i + 1)%Z) /\
      (In j (row gr i) <->
       In j (row G i) /\ exists k, hop G src i k /\ hop G src j (S k)).
Proof.
  intros Hwf H bip G nodes src.
  unfold get_shortest_path in H. cbn [andb] in H.
  destruct (get_distances m s sr sc false fb) as [[d c]|e] eqn:E; [|discriminate].
  pose proof (get_distances_full_exact m s sr sc false fb d c E) as HF.
  cbv zeta in HF. cbn [gd_matrix] in HF.
  fold bip in HF. fold G in HF. fold nodes in HF. fold src in HF.
  destruct HF as [_ [_ [_ [Hshape [Hb [Hl Hf]]]]]].
  assert (HwfG : wf_graph G).
  { apply wf_gd_graph; [exact Hwf|]. intros Eb. fold bip in Eb. rewrite Eb in Hshape. tauto. }
  assert (Hgr : gr = get_dag G (d ++ olist c)).
  { unfold G, gd_graph. destruct bip.
    - destruct Hshape as [_ [_ [c' [Ec _]]]]. subst c. cbn [olist]. injection H as H. auto.
    - destruct Hshape as [_ [_ Ec]]. subst c. cbn [olist]. rewrite app_nil_r. injection H as H. auto. }
  exists (d ++ olist c). split; [exact Hb|]. split; [exact Hl|]. split; [exact Hf|].
  split; [rewrite Hgr; apply get_dag_length|].
  intros i j Hi.
  assert (H1 : In j (row gr i) <->
       In j (row G i) /\ (0 <= nthz (d ++ olist c) i)%Z /\
       nthz (d ++ olist c) j = (nthz (d ++ olist c) i + 1)%Z).
  { rewrite Hgr. apply (shortest_path_edges G src); auto. apply mask_of_length. }
  split; [exact H1|]. rewrite H1. split.
  - intros [Hin [H0 He]]. split; [exact Hin|].
    pose proof (HwfG _ _ Hin) as Hj.
    exists (Z.to_nat (nthz (d ++ olist c) i)). split.
    + apply (proj1 (Hf i Hi)). lia.
    + apply (proj1 (Hf j Hj)). lia.
  - intros [Hin [k [Hhi Hhj]]]. split; [exact Hin|].
    pose proof (HwfG _ _ Hin) as Hj.
    apply (proj1 (Hf i Hi)) in Hhi. apply (proj1 (Hf j Hj)) in Hhj. lia.
Qed.

Lemma get_shortest_path_errors ft ff m s sr sc fb e :
  get_shortest_path ft ff m s sr sc fb = Err e <->
  get_distances m s sr sc (ft && fb) (ff && fb) = Err e.
Proof.
  unfold get_shortest_path.
  destruct (get_distances m s sr sc (ft && fb) (ff && fb)) as [[d [c|]]|e']; split; intros H;
    try discriminate; injection H as H; subst; reflexivity.
Qed.

(** * 6. The brute-force validator [dist_ok] decides hop distances *)

Lemma reachk_b_length g src k : length (reachk_b g src k) = length g.
Proof. destruct k; cbn [reachk_b]; rewrite map_length, seq_length; reflexivity. Qed.

Lemma reachk_b_spec g src k : forall v, v < length g ->
  (nthb (reachk_b g src k) v = true <-> reachk g src k v).
Proof.
  induction k as [|k IH]; intros v Hv.
  - cbn [reachk_b reachk]. unfold nthb at 1. rewrite nth_map_seq by exact Hv. reflexivity.
  - cbn [reachk_b reachk]. unfold nthb at 1. rewrite nth_map_seq by exact Hv.
    rewrite existsb_exists. split.
    + intros [u [Hu H]]. apply in_seq in Hu. apply andb_true_iff in H. destruct H as [H1 H2].
      exists u. split; [apply IH; [lia|exact H1] | apply memn_In; exact H2].
    + intros [u [H1 H2]]. pose proof (row_nonempty_lt _ _ _ H2) as Hu.
      exists u. split; [apply in_seq; lia|].
      apply andb_true_iff. split; [apply IH; assumption | apply memn_In; exact H2].
Qed.

Lemma filter_seq_head (p : nat -> bool) len : forall a k t,
  filter p (seq a len) = k :: t ->
  p k = true /\ a <= k < a + len /\ forall j, a <= j < k -> p j = false.
Proof.
  induction len as [|len IH]; intros a k t H; [discriminate|].
  cbn [seq filter] in H. destruct (p a) eqn:E.
  - injection H as H _. subst k. split; [exact E|]. split; [lia|]. intros j Hj. lia.
  - destruct (IH _ _ _ H) as [Hp [Hr Hm]]. split; [exact Hp|]. split; [lia|].
    intros j Hj. destruct (Nat.eq_dec j a) as [->|Ne]; [exact E|]. apply Hm. lia.
Qed.

Lemma filter_seq_nil (p : nat -> bool) a len :
  filter p (seq a len) = [] -> forall j, a <= j < a + len -> p j = false.
Proof.
  intros H j Hj. destruct (p j) eqn:E; [|reflexivity].
  assert (Hin : In j (filter p (seq a len))).
  { apply filter_In. split; [apply in_seq; lia|exact E]. }
  rewrite H in Hin. destruct Hin.
Qed.

Lemma least_true (p : nat -> bool) : forall k, p k = true ->
  exists k0, k0 <= k /\ p k0 = true /\ forall j, j < k0 -> p j = false.
Proof.
  induction k as [k IH] using lt_wf_ind. intros Hk.
  destruct (existsb p (seq 0 k)) eqn:E.
  - apply existsb_exists in E. destruct E as [j [Hj Hp]]. apply in_seq in Hj.
    destruct (IH j ltac:(lia) Hp) as [k0 [Hle [Hp0 Hm]]].
    exists k0. split; [lia|]. split; [exact Hp0|exact Hm].
  - exists k. split; [lia|]. split; [exact Hk|].
    intros j Hj. rewrite existsb_false in E. apply E. apply in_seq. lia.
Qed.

Lemma reach_least g src v k : v < length g -> reachk g src k v ->
  exists k0, k0 <= k /\ hop g src v k0.
Proof.
  intros Hv Hr.
  destruct (least_true (fun k => nthb (reachk_b g src k) v) k) as [k0 [Hle [Hp Hm]]].
  { apply reachk_b_spec; assumption. }
  exists k0. split; [exact Hle|]. split.
  - apply (reachk_b_spec g src k0 v Hv). exact Hp.
  - intros j Hj Hrj. apply (reachk_b_spec g src j v Hv) in Hrj.
    rewrite (Hm j Hj) in Hrj. discriminate.
Qed.

Lemma hop_pred g src v k : hop g src v (S k) ->
  exists u, hop g src u k /\ In v (row g u).
Proof.
  intros [Hr Hm]. cbn [reachk] in Hr. destruct Hr as [u [Hu Hin]].
  exists u. split; [|exact Hin]. split; [exact Hu|].
  intros j Hj Hrj. apply (Hm (S j)); [lia|]. cbn [reachk]. exists u. split; assumption.
Qed.

(** A shortest walk visits pairwise distinct nodes (their hop values differ). *)
Lemma hop_chain g src : forall k v, hop g src v k -> v < length g ->
  exists l, length l = S k /\ NoDup l /\
    forall x, In x l -> x < length g /\ exists j, j <= k /\ hop g src x j.
Proof.
  induction k as [|k IH]; intros v Hh Hv.
  - exists [v]. split; [reflexivity|]. split.
    + constructor; [intros []|constructor].
    + intros x [E|[]]. subst x. split; [exact Hv|]. exists 0. split; [lia|exact Hh].
  - destruct (hop_pred _ _ _ _ Hh) as [u [Hu Hin]].
    pose proof (row_nonempty_lt _ _ _ Hin) as Hun.
    destruct (IH u Hu Hun) as [l [Hl [Hnd Hall]]].
    exists (v :: l). split; [cbn [length]; lia|]. split.
    + constructor; [|exact Hnd]. intros Hvl.
      destruct (Hall v Hvl) as [_ [j [Hj Hhj]]].
      pose proof (hop_unique _ _ _ _ _ Hh Hhj). lia.
    + intros x [E|Hx].
      * subst x. split; [exact Hv|]. exists (S k). split; [lia|exact Hh].
      * destruct (Hall x Hx) as [Hxn [j [Hj Hhj]]]. split; [exact Hxn|].
        exists j. split; [lia|exact Hhj].
Qed.

(** Every finite hop distance is below the number of nodes. *)
Lemma hop_lt g src v k : hop g src v k -> v < length g -> k < length g.
Proof.
  intros Hh Hv. destruct (hop_chain g src k v Hh Hv) as [l [Hl [Hnd Hall]]].
  assert (Hincl : incl l (seq 0 (length g))).
  { intros x Hx. apply in_seq. destruct (Hall x Hx) as [Hxn _]. lia. }
  pose proof (NoDup_incl_length Hnd Hincl) as Hle. rewrite seq_length in Hle. lia.
Qed.

Definition hits (g : graph) (src : list bool) (v : nat) : list nat :=
  filter (fun k => nthb (reachk_b g src k) v) (seq 0 (S (length g))).

Lemma dist_ok_unfold g src dist :
  dist_ok g src dist =
  Nat.eqb (length dist) (length g) &&
  forallb (fun v => match hits g src v with
                    | [] => (nthz dist v =? -1)%Z
                    | k :: _ => (nthz dist v =? Z.of_nat k)%Z
                    end) (seq 0 (length g)).
Proof. reflexivity. Qed.

Lemma hits_spec g src v : v < length g ->
  match hits g src v with
  | [] => forall k, ~ reachk g src k v
  | k :: _ => hop g src v k
  end.
Proof.
  intros Hv. destruct (hits g src v) as [|k t] eqn:E; unfold hits in E.
  - intros k Hr. destruct (reach_least g src v k Hv Hr) as [k0 [_ Hh]].
    pose proof (hop_lt _ _ _ _ Hh Hv) as Hlt.
    pose proof (filter_seq_nil _ _ _ E k0 ltac:(lia)) as Hf. cbv beta in Hf.
    destruct Hh as [Hr0 _]. apply (reachk_b_spec g src k0 v Hv) in Hr0.
    rewrite Hr0 in Hf. discriminate.
  - destruct (filter_seq_head _ _ _ _ _ E) as [Hp [_ Hm]]. cbv beta in Hp, Hm. split.
    + apply (reachk_b_spec g src k v Hv). exact Hp.
    + intros j Hj Hrj. apply (reachk_b_spec g src j v Hv) in Hrj.
      rewrite (Hm j ltac:(lia)) in Hrj. discriminate.
Qed.

(** [dist_ok] accepts exactly the vectors that satisfy the hop-distance specification. *)
Lemma dist_ok_final g src dist :
  dist_ok g src dist = true <-> Final g src dist.
Proof.
  rewrite dist_ok_unfold, andb_true_iff, Nat.eqb_eq, forallb_forall. unfold Final.
  split; intros [Hl Hf]; (split; [exact Hl|]).
  - intros v Hv. specialize (Hf v ltac:(apply in_seq; lia)).
    pose proof (hits_spec g src v Hv) as Hs.
    destruct (hits g src v) as [|k0 t].
    + apply Z.eqb_eq in Hf. split.
      * intros k. split; [lia|]. intros [Hr _]. exfalso. exact (Hs _ Hr).
      * split; [intros _; exact Hs|intros _; exact Hf].
    + apply Z.eqb_eq in Hf. split.
      * intros k. split.
        -- intros Hk. assert (k = k0) by lia. subst k. exact Hs.
        -- intros Hk. rewrite (hop_unique _ _ _ _ _ Hk Hs). exact Hf.
      * split; [lia|]. intros Hno. exfalso. destruct Hs as [Hr _]. exact (Hno _ Hr).
  - intros v Hv. apply in_seq in Hv. assert (Hvn : v < length g) by lia.
    destruct (Hf v Hvn) as [Hk Hneg].
    pose proof (hits_spec g src v Hvn) as Hs.
    destruct (hits g src v) as [|k0 t]; apply Z.eqb_eq.
    + apply Hneg. exact Hs.
    + apply Hk. exact Hs.
Qed.

Lemma final_unique g src d1 d2 : Final g src d1 -> Final g src d2 -> d1 = d2.
Proof.
  intros H1 H2. apply dist_ok_final in H1. rewrite dist_ok_unfold in H1.
  apply andb_true_iff in H1. destruct H1 as [Hl1 Hf1]. apply Nat.eqb_eq in Hl1.
  rewrite forallb_forall in Hf1. destruct H2 as [Hl2 Hf2].
  apply nth_ext with (d := 0%Z) (d' := 0%Z); [lia|].
  intros v Hv. rewrite Hl1 in Hv. fold (nthz d1 v). fold (nthz d2 v).
  specialize (Hf1 v ltac:(apply in_seq; lia)).
  pose proof (hits_spec g src v Hv) as Hs. destruct (Hf2 v Hv) as [Hk Hneg].
  destruct (hits g src v) as [|k0 t]; apply Z.eqb_eq in Hf1; rewrite Hf1; symmetry.
  - apply Hneg. exact Hs.
  - apply Hk. exact Hs.
Qed.

Theorem dist_ok_sound g src dist :
  length src = length g -> dist_ok g src dist = true -> bfs g src = Some dist.
Proof.
  intros Hs H. apply dist_ok_final in H.
  destruct (bfs_exact g src Hs) as [dist' [Hb [Hl Hf]]].
  rewrite Hb. f_equal. apply (final_unique g src); [split; assumption|exact H].
Qed.

Theorem dist_ok_complete g src dist :
  length src = length g -> bfs g src = Some dist -> dist_ok g src dist = true.
Proof.
  intros Hs H. destruct (bfs_exact g src Hs) as [dist' [Hb [Hl Hf]]].
  rewrite H in Hb. injection Hb as Hb. subst dist'.
  apply dist_ok_final. split; assumption.
Qed.

Theorem dist_ok_iff g src dist :
  length src = length g -> (dist_ok g src dist = true <-> bfs g src = Some dist).
Proof. intros Hs. split; [apply dist_ok_sound|apply dist_ok_complete]; exact Hs. Qed.

(** Finite BFS distances are below the number of nodes. *)
Corollary bfs_dist_bound g src dist v :
  length src = length g -> bfs g src = Some dist -> v < length g ->
  (-1 <= nthz dist v < Z.of_nat (length g))%Z.
Proof.
  intros Hs Hb Hv. apply (dist_ok_complete g src dist Hs) in Hb. apply dist_ok_final in Hb.
  destruct Hb as [_ Hf]. destruct (Hf v Hv) as [Hk Hneg].
  pose proof (hits_spec g src v Hv) as Hh. destruct (hits g src v) as [|k0 t].
  - apply Hneg in Hh. lia.
  - pose proof (hop_lt _ _ _ _ Hh Hv). apply Hk in Hh. lia.
Qed.

Print Assumptions transpose_spec.
Print Assumptions block_undirected_spec.
Print Assumptions set_mask_spec.
Print Assumptions get_distances_full_exact.
Print Assumptions get_distances_errors.
Print Assumptions get_shortest_path_full_exact.
Print Assumptions dist_ok_iff.
Print Assumptions bfs_dist_bound.

(** Executable well-formedness check (for concrete examples). *)
Definition wf_pmatb (m : pmat) : bool :=
  forallb (fun r => forallb (fun j => Nat.ltb j (p_ncol m)) r) (p_rows m).

Lemma wf_pmatb_sound m : wf_pmatb m = true -> wf_pmat m.
Proof.
  unfold wf_pmatb. rewrite forallb_forall. intros H i j Hin.
  pose proof (row_nonempty_lt _ _ _ Hin) as Hi.
  specialize (H (row (p_rows m) i) ltac:(unfold row; apply nth_In; exact Hi)).
  rewrite forallb_forall in H. apply Nat.ltb_lt. exact (H j Hin).
Qed.
Print Assumptions wf_pmatb_sound.

(** Link between the programs REGENERATED from sknetwork/hierarchy/postprocess.py (Gen/PyCuts.v, language Model/PyImp.v)
    and the hand-written functional model Model/Cuts.v: for ALL dendrograms and arguments, running the generated statements
    gives exactly the [cluster] dict / the reduced dendrogram / the error of the model.  Proved by symbolic execution of the
    generated terms (not by comparison with a pinned copy), so a harmless rewrite inside the subset keeps them provable. *)
From SKN Require Import Base.Util Model.Dendrogram Model.Cuts Model.PyImp Gen.PyCuts.
From Coq Require Import String Qround.
Local Open Scope nat_scope.

(** * Embedding of the model's data into Python values *)
Definition vnat (k : nat) : val := VInt (Z.of_nat k).
Definition fnat (k : nat) : val := VNum (inject_Z (Z.of_nat k)).      (* an id / a size stored in the float array *)
Definition embRow (r : drow) : val := VList [fnat (r_left r); fnat (r_right r); VNum (r_height r); fnat (r_size r)].
Definition embD (D : dendrogram) : val := VList (map embRow D).
Definition embL (c : list nat) : val := VList (map vnat c).
Definition embA {A} (f : A -> val) (st : list (nat * A)) : list (Z * val) :=
  map (fun kc => (Z.of_nat (fst kc), f (snd kc))) st.
Definition embC (st : cstate) : val := VDict (embA embL st).
Definition embN (d : list (nat * nat)) : val := VDict (embA vnat d).
Definition embCut (c : option Q) : val := match c with None => VInf | Some q => VNum q end.
Definition embON (o : option nat) : val := match o with None => VNone | Some k => vnat k end.
Definition embOQ (o : option Q) : val := match o with None => VNone | Some q => VNum q end.
(** a row of the reduced dendrogram as get_labels appends it: [i_new, j_new, height, size] *)
Definition embNewRow (r : drow) : val := VList [vnat (r_left r); vnat (r_right r); VNum (r_height r); vnat (r_size r)].

Definition conv (e : cerr) : perr :=
  match e with ValueError => PValueError | IndexError => PIndexError | KeyError => PKeyError end.

(** * Dicts *)
Lemma Zeqb_of_nat a b : Z.eqb (Z.of_nat a) (Z.of_nat b) = Nat.eqb a b.
Proof.
  destruct (Nat.eqb_spec a b) as [E|E].
  - subst. apply Z.eqb_refl.
  - apply Z.eqb_neq. intros H. apply E. apply Nat2Z.inj. exact H.
Qed.

Lemma dget_emb {A} (f : A -> val) k st : dget (Z.of_nat k) (embA f st) = option_map f (alookup k st).
Proof.
  induction st as [|[k' v] t IH]; simpl; [reflexivity|].
  rewrite Zeqb_of_nat. destruct (Nat.eqb k k'); [reflexivity | exact IH].
Qed.

Lemma dremove_emb {A} (f : A -> val) k st : dremove (Z.of_nat k) (embA f st) = embA f (aremove k st).
Proof.
  induction st as [|[k' v] t IH]; simpl; [reflexivity|].
  rewrite Zeqb_of_nat. destruct (Nat.eqb k k'); [reflexivity|]. simpl. f_equal. exact IH.
Qed.

Lemma dset_emb_fresh {A} (f : A -> val) k v st :
  alookup k st = None -> dset (Z.of_nat k) (f v) (embA f st) = embA f (st ++ [(k, v)]).
Proof.
  induction st as [|[k' v'] t IH]; simpl; intros H; [reflexivity|].
  rewrite Zeqb_of_nat. destruct (Nat.eqb k k'); [discriminate|]. f_equal. apply IH. exact H.
Qed.

Definition keys_lt {A} (b : nat) (st : list (nat * A)) : Prop := forall k, In k (akeys st) -> k < b.

Lemma alookup_None_notin {A} k (st : list (nat * A)) : ~ In k (akeys st) -> alookup k st = None.
Proof.
  induction st as [|[k' v] t IH]; simpl; intros H; [reflexivity|].
  destruct (Nat.eqb_spec k k') as [E|E]; [exfalso; apply H; left; symmetry; exact E|].
  apply IH. intros H'. apply H. right. exact H'.
Qed.

Lemma keys_lt_fresh {A} b (st : list (nat * A)) : keys_lt b st -> alookup b st = None.
Proof. intros H. apply alookup_None_notin. intros Hin. apply H in Hin. lia. Qed.

Lemma akeys_aremove_incl {A} k (st : list (nat * A)) x : In x (akeys (aremove k st)) -> In x (akeys st).
Proof.
  induction st as [|[k' v] t IH]; simpl; [tauto|].
  destruct (Nat.eqb k k'); simpl; [tauto|]. intros [H|H]; [left; exact H | right; apply IH; exact H].
Qed.

Lemma keys_lt_aremove {A} b k (st : list (nat * A)) : keys_lt b st -> keys_lt b (aremove k st).
Proof. intros H x Hx. apply H. eapply akeys_aremove_incl. exact Hx. Qed.

Lemma keys_lt_app {A} b (st : list (nat * A)) k v : keys_lt b st -> k < S b -> keys_lt (S b) (st ++ [(k, v)]).
Proof.
  intros H Hk x Hx. unfold akeys in Hx. rewrite map_app in Hx. apply in_app_or in Hx. destruct Hx as [Hx|Hx].
  - apply H in Hx. lia.
  - simpl in Hx. destruct Hx as [Hx|[]]. subst. exact Hk.
Qed.

Lemma keys_lt_weaken {A} b b' (st : list (nat * A)) : keys_lt b st -> b <= b' -> keys_lt b' st.
Proof. intros H Hb x Hx. apply H in Hx. lia. Qed.

(** * Numbers *)
Lemma qtrunc_inject_Z z : qtrunc (inject_Z z) = z.
Proof.
  unfold qtrunc. destruct (Qle_bool 0 (inject_Z z)); [apply Qfloor_Z | apply Qceiling_Z].
Qed.

Lemma psort_sortq l : psort l = sortq l.
Proof.
  unfold psort, sortq. induction l as [|x t IH]; simpl; [reflexivity|]. rewrite IH.
  generalize (fold_right insq [] t). intros s. induction s as [|y s IHs]; simpl; [reflexivity|].
  destruct (Qle_bool x y); [reflexivity|]. rewrite IHs. reflexivity.
Qed.

(** * Rows *)
Lemma list_index_nat (l : list val) t v : nth_error l t = Some v -> list_index l (Z.of_nat t) = POk v.
Proof.
  intros H. unfold list_index.
  assert (Hlt : (Z.of_nat t <? 0)%Z = false) by (apply Z.ltb_ge; lia).
  rewrite Hlt, Hlt, Nat2Z.id, H. reflexivity.
Qed.

Lemma index_embD D t r : nth_error D t = Some r -> index_vals (embD D) (vnat t) = POk (embRow r).
Proof.
  intros H. unfold embD, vnat. simpl. apply list_index_nat. rewrite nth_error_map, H. reflexivity.
Qed.

Lemma column2_embD D : column 2 (map embRow D) = POk (heights D).
Proof.
  induction D as [|r t IH]; simpl; [reflexivity|]. rewrite IH. reflexivity.
Qed.

Lemma index_embD' D t r : nth_error D t = Some r -> index_vals (embD D) (VInt (Z.of_nat t)) = POk (embRow r).
Proof. apply index_embD. Qed.
Lemma index_row0 r : index_vals (embRow r) (VInt 0) = POk (fnat (r_left r)). Proof. reflexivity. Qed.
Lemma index_row1 r : index_vals (embRow r) (VInt 1) = POk (fnat (r_right r)). Proof. reflexivity. Qed.
Lemma index_row2 r : index_vals (embRow r) (VInt 2) = POk (VNum (r_height r)). Proof. reflexivity. Qed.

(** comparisons of embedded naturals *)
Lemma qlt_inject a b : qlt (inject_Z a) (inject_Z b) = (a <? b)%Z.
Proof.
  unfold qlt. destruct (Z.ltb_spec a b) as [H|H].
  - apply negb_true_iff. destruct (Qle_bool (inject_Z b) (inject_Z a)) eqn:E; [|reflexivity].
    apply Qle_bool_iff in E. rewrite <- Zle_Qle in E. lia.
  - apply negb_false_iff. apply Qle_bool_iff. rewrite <- Zle_Qle. exact H.
Qed.

Lemma nat_ltb_Z a b : (Z.of_nat a <? Z.of_nat b)%Z = Nat.ltb a b.
Proof.
  destruct (Nat.ltb_spec a b) as [H|H]; [apply Z.ltb_lt | apply Z.ltb_ge]; lia.
Qed.

Lemma cmp_lt_nat a b : cmp_vals CLt (vnat a) (vnat b) = POk (VBool (Nat.ltb a b)).
Proof. unfold cmp_vals, vnat, as_num, num_lt. rewrite qlt_inject, nat_ltb_Z. reflexivity. Qed.
Lemma cmp_gt_nat a b : cmp_vals CGt (vnat a) (vnat b) = POk (VBool (Nat.ltb b a)).
Proof. unfold cmp_vals, vnat, as_num, num_lt. rewrite qlt_inject, nat_ltb_Z. reflexivity. Qed.
Lemma cmp_le_nat a b : cmp_vals CLe (vnat a) (vnat b) = POk (VBool (Nat.leb a b)).
Proof.
  unfold cmp_vals, vnat, as_num, num_lt. rewrite qlt_inject, nat_ltb_Z. rewrite Nat.leb_antisym. reflexivity.
Qed.
Lemma num_eq_nat a b : Qeq_bool (inject_Z (Z.of_nat a)) (inject_Z (Z.of_nat b)) = Nat.eqb a b.
Proof.
  destruct (Nat.eqb_spec a b) as [E|E].
  - subst. apply Qeq_bool_iff. reflexivity.
  - destruct (Qeq_bool _ _) eqn:H; [|reflexivity]. apply Qeq_bool_iff in H. unfold Qeq in H. simpl in H.
    exfalso. apply E. lia.
Qed.
Lemma cmp_eq_nat a b : cmp_vals CEq (vnat a) (vnat b) = POk (VBool (Nat.eqb a b)).
Proof. unfold cmp_vals, vnat, as_num, num_eq. rewrite num_eq_nat. reflexivity. Qed.
Lemma cmp_ne_nat a b : cmp_vals CNe (vnat a) (vnat b) = POk (VBool (negb (Nat.eqb a b))).
Proof. unfold cmp_vals, vnat, as_num, num_eq. rewrite num_eq_nat. reflexivity. Qed.

Lemma add_nat a b : bin_vals BAdd (vnat a) (vnat b) = POk (vnat (a + b)).
Proof. unfold vnat. simpl. rewrite Nat2Z.inj_add. reflexivity. Qed.

Lemma len_embL c : VInt (Z.of_nat (Datatypes.length (map vnat c))) = vnat (Datatypes.length c).
Proof. rewrite map_length. reflexivity. Qed.

(** * Sequencing *)
Lemma exec_seq_ok a b e e1 : exec a e = POk e1 -> exec (SSeq a b) e = exec b e1.
Proof. intros H. simpl. rewrite H. reflexivity. Qed.
Lemma exec_seq_err a b e x : exec a e = PErr x -> exec (SSeq a b) e = PErr x.
Proof. intros H. simpl. rewrite H. reflexivity. Qed.

Fixpoint last_stmt (s : stmt) : stmt := match s with SSeq _ b => last_stmt b | _ => s end.
Definition loop_body (s : stmt) : stmt :=
  match last_stmt s with SForRange _ _ b => b | SForRows _ _ b => b | SForEnum _ _ _ b => b | _ => SSkip end.

Ltac ev1 := cbn [exec eval upd String.eqb Ascii.eqb Bool.eqb fnat as_key].
Ltac look := match goal with H : ?e ?x = Some _ |- context [?e ?x] => rewrite H end.
Ltac ev := repeat (progress ev1 || look
                   || (erewrite index_embD' by eassumption) || rewrite index_row0 || rewrite index_row1 || rewrite index_row2
                   || rewrite qtrunc_inject_Z).

(** * [{i: [i] for i in range(n)}] is the initial [cluster] dict *)
Lemma dset_fresh_raw k v (acc : list (Z * val)) : ~ In k (map fst acc) -> dset k v acc = (acc ++ [(k, v)])%list.
Proof.
  induction acc as [|[k' v'] t IH]; intros H; [reflexivity|]. cbn [dset].
  destruct (Z.eqb_spec k k') as [E|E]; [exfalso; apply H; left; symmetry; exact E|].
  cbn [app]. f_equal. apply IH. intros Hin. apply H. right. exact Hin.
Qed.

(** a comprehension [{lo + i: h i for i in range(len)}] appends its entries in order when the keys are new *)
Lemma dict_range_fresh (f : nat -> pres (Z * val)) (lo : nat) (h : nat -> val) :
  (forall i, f i = POk (Z.of_nat (lo + i), h i)) ->
  forall len a acc, (forall k, In k (map fst acc) -> (k < Z.of_nat (lo + a))%Z) ->
    dict_range f (seq a len) acc = POk (acc ++ map (fun i => (Z.of_nat (lo + i), h i)) (seq a len))%list.
Proof.
  intros Hf. induction len as [|len IH]; intros a acc Hacc.
  - cbn [seq dict_range map]. rewrite app_nil_r. reflexivity.
  - cbn [seq dict_range map]. rewrite Hf.
    rewrite dset_fresh_raw by (intros Hin; apply Hacc in Hin; lia).
    rewrite IH.
    + rewrite <- app_assoc. reflexivity.
    + intros k Hin. rewrite map_app in Hin. apply in_app_or in Hin. destruct Hin as [Hin|Hin].
      * apply Hacc in Hin. lia.
      * cbn in Hin. destruct Hin as [<-|[]]. lia.
Qed.

Lemma dict_range_init (x : string) (e : env) n :
  e "n"%string = Some (vnat n) ->
  eval (EDictRange x (EVar x) (EList [EVar x]) (EVar "n"%string)) e = POk (e, embC (init_clusters n)).
Proof.
  intros Hn. cbn [eval]. rewrite Hn. unfold vnat at 1. rewrite Nat2Z.id.
  rewrite (dict_range_fresh _ 0 (fun i => embL [i])).
  - cbn [app]. unfold embC, init_clusters, embA. rewrite map_map. reflexivity.
  - intros i. unfold upd. rewrite String.eqb_refl. reflexivity.
  - intros k [].
Qed.

(** * A counted loop whose body simulates one [cut_step] simulates [replay] *)
Lemma skipn_cons_nth {A} (l : list A) : forall t r rest, skipn t l = r :: rest -> nth_error l t = Some r /\ skipn (S t) l = rest.
Proof.
  induction l as [|a l IH]; intros [|t] r rest H; simpl in *; try discriminate.
  - inversion H. subst. split; reflexivity.
  - apply IH. exact H.
Qed.

Lemma cut_step_keys guard key r (st st' : cstate) :
  keys_lt key st -> cut_step guard key r st = Ok st' -> keys_lt (S key) st'.
Proof.
  intros Hk. unfold cut_step.
  destruct (alookup (r_left r) st) as [ci|]; [|intros H; inversion H; subst; eapply keys_lt_weaken; [exact Hk|lia]].
  destruct (alookup (r_right r) st) as [cj|]; [|intros H; inversion H; subst; eapply keys_lt_weaken; [exact Hk|lia]].
  destruct (guard r ci cj); [|intros H; inversion H; subst; eapply keys_lt_weaken; [exact Hk|lia]].
  destruct (alookup (r_right r) (aremove (r_left r) st)) as [cj'|]; [|discriminate].
  intros H. inversion H. subst. apply keys_lt_app; [|lia].
  apply keys_lt_aremove. apply keys_lt_aremove. exact Hk.
Qed.

Lemma for_range_replay (guard : drow -> list nat -> list nat -> bool) (n : nat) (D : dendrogram)
      (sim : cstate -> env -> Prop) (f : Z -> env -> pres env)
      (step : forall t r st e, nth_error D t = Some r -> sim st e -> keys_lt (n + t) st ->
         match cut_step guard (n + t) r st with
         | Ok st' => exists e', f (Z.of_nat t) e = POk e' /\ sim st' e'
         | Err er => f (Z.of_nat t) e = PErr (conv er)
         end) :
  forall rows t0 st e, skipn t0 D = rows -> sim st e -> keys_lt (n + t0) st ->
    match replay guard (n + t0) rows st with
    | Ok st' => exists e', for_range f (Datatypes.length rows) (Z.of_nat t0) e = POk e' /\ sim st' e'
    | Err er => for_range f (Datatypes.length rows) (Z.of_nat t0) e = PErr (conv er)
    end.
Proof.
  induction rows as [|r rest IH]; intros t0 st e Hs Hsim Hk.
  - simpl. exists e. split; [reflexivity | exact Hsim].
  - apply skipn_cons_nth in Hs. destruct Hs as [Hr Hrest].
    cbn [replay Datatypes.length for_range].
    pose proof (step t0 r st e Hr Hsim Hk) as S1.
    destruct (cut_step guard (n + t0) r st) as [st1|er] eqn:E1.
    + destruct S1 as [e1 [F1 Sim1]]. rewrite F1.
      replace (Z.of_nat t0 + 1)%Z with (Z.of_nat (S t0)) by lia.
      replace (S (n + t0)) with (n + S t0) by lia.
      apply IH; [exact Hrest | exact Sim1 |].
      replace (n + S t0) with (S (n + t0)) by lia. eapply cut_step_keys; eassumption.
    + rewrite S1. reflexivity.
Qed.

Local Open Scope string_scope.

(** * cut_balanced *)
Lemma add_nat' a b : bin_vals BAdd (VInt (Z.of_nat a)) (VInt (Z.of_nat b)) = POk (VInt (Z.of_nat (a + b))).
Proof. apply add_nat. Qed.
Lemma cmp_le_nat' a b : cmp_vals CLe (VInt (Z.of_nat a)) (VInt (Z.of_nat b)) = POk (VBool (Nat.leb a b)).
Proof. apply cmp_le_nat. Qed.
Lemma cmp_lt_nat' a b : cmp_vals CLt (VInt (Z.of_nat a)) (VInt (Z.of_nat b)) = POk (VBool (Nat.ltb a b)).
Proof. apply cmp_lt_nat. Qed.
Lemma cmp_gt_nat' a b : cmp_vals CGt (VInt (Z.of_nat a)) (VInt (Z.of_nat b)) = POk (VBool (Nat.ltb b a)).
Proof. apply cmp_gt_nat. Qed.
Lemma cmp_eq_nat' a b : cmp_vals CEq (VInt (Z.of_nat a)) (VInt (Z.of_nat b)) = POk (VBool (Nat.eqb a b)).
Proof. apply cmp_eq_nat. Qed.
Lemma cmp_ne_nat' a b : cmp_vals CNe (VInt (Z.of_nat a)) (VInt (Z.of_nat b)) = POk (VBool (negb (Nat.eqb a b))).
Proof. apply cmp_ne_nat. Qed.
Lemma len_vnat c : Z.of_nat (Datatypes.length (map vnat c)) = Z.of_nat (Datatypes.length c).
Proof. rewrite map_length. reflexivity. Qed.
Lemma add_lists a b : bin_vals BAdd (VList (map vnat a)) (VList (map vnat b)) = POk (VList (map vnat (a ++ b))).
Proof. simpl. rewrite map_app. reflexivity. Qed.
Lemma dset_embL_fresh k c (st : cstate) :
  alookup k st = None -> dset (Z.of_nat k) (VList (map vnat c)) (embA embL st) = embA embL (st ++ [(k, c)]).
Proof. apply (dset_emb_fresh embL). Qed.

Lemma add_embL a b : bin_vals BAdd (embL a) (embL b) = POk (embL (a ++ b)).
Proof. apply add_lists. Qed.
Lemma dset_embL_fresh' k c (st : cstate) :
  alookup k st = None -> dset (Z.of_nat k) (embL c) (embA embL st) = embA embL (st ++ [(k, c)]).
Proof. apply (dset_emb_fresh embL). Qed.

Definition sim_bal (m n : nat) (D : dendrogram) (st : cstate) (e : env) : Prop :=
  e "dendrogram" = Some (embD D) /\ e "cluster" = Some (embC st) /\ e "n" = Some (vnat n) /\
  e "max_cluster_size" = Some (vnat m).

Ltac ev2 := cbn [exec eval upd String.eqb Ascii.eqb Bool.eqb fnat vnat embC embL index_vals option_map as_key].
Ltac evx := repeat (progress ev2 || look || (progress (unfold vnat))
                   || (erewrite index_embD' by eassumption) || rewrite index_row0 || rewrite index_row1 || rewrite index_row2
                   || rewrite qtrunc_inject_Z || rewrite dget_emb || rewrite dremove_emb || rewrite len_vnat
                   || rewrite add_nat' || rewrite cmp_le_nat' || rewrite add_lists || rewrite add_embL).
Ltac simok := repeat split; cbn [upd String.eqb Ascii.eqb Bool.eqb]; try assumption; try reflexivity.

Lemma bal_step m n D t r st e :
  nth_error D t = Some r -> sim_bal m n D st e -> keys_lt (n + t) st ->
  match cut_step (balanced_guard m) (n + t) r st with
  | Ok st' => exists e', exec (loop_body src_cut_balanced) (upd "t" (VInt (Z.of_nat t)) e) = POk e' /\ sim_bal m n D st' e'
  | Err er => exec (loop_body src_cut_balanced) (upd "t" (VInt (Z.of_nat t)) e) = PErr (conv er)
  end.
Proof.
  intros Hr (Hd & Hc & Hn & Hm) Hk.
  let b := eval vm_compute in (loop_body src_cut_balanced) in change (loop_body src_cut_balanced) with b.
  unfold cut_step. evx.
  destruct (alookup (r_left r) st) as [ci|] eqn:Ei; evx.
  2:{ eexists. split; [reflexivity|]. unfold sim_bal. simok. }
  destruct (alookup (r_right r) st) as [cj|] eqn:Ej; evx.
  2:{ eexists. split; [reflexivity|]. unfold sim_bal. simok. }
  unfold balanced_guard. destruct (Nat.leb _ _); evx.
  2:{ eexists. split; [reflexivity|]. unfold sim_bal. simok. }
  destruct (alookup (r_right r) (aremove (r_left r) st)) as [cj'|] eqn:Ej'; evx.
  2:{ reflexivity. }
  rewrite dset_embL_fresh'.
  2:{ apply keys_lt_fresh. apply keys_lt_aremove. apply keys_lt_aremove. exact Hk. }
  eexists. split; [reflexivity|]. unfold sim_bal. simok.
Qed.

Lemma len_succ D : Datatypes.length (map embRow D) + 1 = S (Datatypes.length D).
Proof. rewrite map_length. lia. Qed.

Lemma sub_int a b : bin_vals BSub (VInt a) (VInt b) = POk (VInt (a - b)).
Proof. reflexivity. Qed.
Lemma init_keys_lt n : keys_lt n (init_clusters n).
Proof.
  intros k Hk. unfold init_clusters, akeys in Hk. rewrite map_map in Hk. simpl in Hk. rewrite map_id in Hk.
  apply in_seq in Hk. lia.
Qed.

Theorem src_cut_balanced_is_model D m (e0 : env) :
  e0 "dendrogram" = Some (embD D) -> e0 "max_cluster_size" = Some (vnat m) ->
  match balanced_state D m with
  | Ok st => exists e', exec src_cut_balanced e0 = POk e' /\ e' "cluster" = Some (embC st) /\ e' "dendrogram" = Some (embD D)
  | Err er => exec src_cut_balanced e0 = PErr (conv er)
  end.
Proof.
  intros Hd Hm. unfold src_cut_balanced, balanced_state.
  set (n := S (Datatypes.length D)).
  erewrite exec_seq_ok. 2:{ evx. unfold embD at 1. change 1%Z with (Z.of_nat 1). evx. rewrite len_succ. reflexivity. }
  fold n.
  set (e1 := upd "n" (VInt (Z.of_nat n)) e0).
  assert (Hd1 : e1 "dendrogram" = Some (embD D)) by (unfold e1; simok).
  assert (Hm1 : e1 "max_cluster_size" = Some (vnat m)) by (unfold e1; simok).
  assert (Hn1 : e1 "n" = Some (vnat n)) by (unfold e1; simok).
  clearbody e1.
  destruct (Nat.ltb m 2) eqn:E2.
  { erewrite exec_seq_err; [reflexivity|]. evx. change 2%Z with (Z.of_nat 2). rewrite cmp_lt_nat', E2. evx. reflexivity. }
  destruct (Nat.ltb n m) eqn:E3.
  { erewrite exec_seq_err; [reflexivity|]. evx. change 2%Z with (Z.of_nat 2). rewrite cmp_lt_nat', E2. evx.
    rewrite cmp_gt_nat', E3. evx. reflexivity. }
  erewrite exec_seq_ok.
  2:{ evx. change 2%Z with (Z.of_nat 2). rewrite cmp_lt_nat', E2. evx. rewrite cmp_gt_nat', E3. evx. reflexivity. }
  erewrite exec_seq_ok.
  2:{ cbn [exec]. rewrite (dict_range_init "i" e1 n Hn1). reflexivity. }
  cbn [orb].
  set (e2 := upd "cluster" (embC (init_clusters n)) e1).
  assert (Hsim : sim_bal m n D (init_clusters n) e2) by (unfold sim_bal, e2; simok).
  assert (Hk : keys_lt (n + 0) (init_clusters n)) by (rewrite Nat.add_0_r; apply init_keys_lt).
  pose proof (for_range_replay (balanced_guard m) n D (sim_bal m n D)
                (fun i e' => exec (loop_body src_cut_balanced) (upd "t" (VInt i) e'))
                (fun t r st e => bal_step m n D t r st e) D 0 (init_clusters n) e2 eq_refl Hsim Hk) as R.
  rewrite Nat.add_0_r in R.
  assert (Hloop : forall body, exec (SForRange "t" (EBin BSub (EVar "n") (EInt 1)) body) e2 =
                  for_range (fun i e' => exec body (upd "t" (VInt i) e')) (Datatypes.length D) 0%Z e2).
  { intros body. destruct Hsim as (_ & _ & Hn2 & _). evx. rewrite sub_int. evx.
    replace (Z.to_nat (Z.of_nat n - 1)) with (Datatypes.length D) by (unfold n; lia). reflexivity. }
  rewrite Hloop. clear Hloop.
  destruct (replay (balanced_guard m) n D (init_clusters n)) as [st|er].
  - destruct R as [e' [F (Hd' & Hc' & _)]]. exists e'. split; [exact F|]. split; assumption.
  - exact R.
Qed.

(** * cut_straight *)
Definition sim_str (cut : option Q) (n : nat) (D : dendrogram) (st : cstate) (e : env) : Prop :=
  e "dendrogram" = Some (embD D) /\ e "cluster" = Some (embC st) /\ e "n" = Some (vnat n) /\
  e "cut" = Some (embCut cut).

Lemma cmp_below_cut h cut r : h = r_height r -> cmp_vals CLt (VNum h) (embCut cut) = POk (VBool (below_cut cut r)).
Proof. intros ->. destruct cut; reflexivity. Qed.

Lemma str_step cut n D t r st e :
  nth_error D t = Some r -> sim_str cut n D st e -> keys_lt (n + t) st ->
  match cut_step (straight_guard cut) (n + t) r st with
  | Ok st' => exists e', exec (loop_body src_cut_straight_core) (upd "t" (VInt (Z.of_nat t)) e) = POk e' /\ sim_str cut n D st' e'
  | Err er => exec (loop_body src_cut_straight_core) (upd "t" (VInt (Z.of_nat t)) e) = PErr (conv er)
  end.
Proof.
  intros Hr (Hd & Hc & Hn & Hcut) Hk.
  let b := eval vm_compute in (loop_body src_cut_straight_core) in change (loop_body src_cut_straight_core) with b.
  unfold cut_step, straight_guard. evx. rewrite (cmp_below_cut _ cut r eq_refl). evx.
  destruct (below_cut cut r) eqn:Eg; evx.
  2:{ destruct (alookup (r_left r) st), (alookup (r_right r) st); eexists; (split; [reflexivity|]); unfold sim_str; simok. }
  destruct (alookup (r_left r) st) as [ci|] eqn:Ei; evx.
  2:{ eexists. split; [reflexivity|]. unfold sim_str. simok. }
  destruct (alookup (r_right r) st) as [cj|] eqn:Ej; evx.
  2:{ eexists. split; [reflexivity|]. unfold sim_str. simok. }
  destruct (alookup (r_right r) (aremove (r_left r) st)) as [cj'|] eqn:Ej'; evx.
  2:{ reflexivity. }
  rewrite dset_embL_fresh'.
  2:{ apply keys_lt_fresh. apply keys_lt_aremove. apply keys_lt_aremove. exact Hk. }
  eexists. split; [reflexivity|]. unfold sim_str. simok.
Qed.

Definition straight_core_model (D : dendrogram) (nc : option nat) (th : option Q) : result cstate :=
  let n := S (Datatypes.length D) in
  match cut_height D nc th with
  | Err e => Err e
  | Ok cut => replay (straight_guard cut) n D (init_clusters n)
  end.

Lemma list_index_none (l : list val) t : nth_error l t = None -> list_index l (Z.of_nat t) = PErr PIndexError.
Proof.
  intros H. unfold list_index.
  assert (Hlt : (Z.of_nat t <? 0)%Z = false) by (apply Z.ltb_ge; lia).
  rewrite Hlt, Hlt, Nat2Z.id, H. reflexivity.
Qed.

Lemma sorted_index D n k : n = S (Datatypes.length D) -> (k <= n \/ D = []) ->
  list_index (map VNum (sortq (heights D))) (Z.of_nat n - Z.of_nat k) =
  match nth_error (sortq (heights D)) (n - k) with Some c => POk (VNum c) | None => PErr PIndexError end.
Proof.
  intros Hn [Hk|HD].
  - replace (Z.of_nat n - Z.of_nat k)%Z with (Z.of_nat (n - k)) by lia.
    destruct (nth_error (sortq (heights D)) (n - k)) as [c|] eqn:E.
    + apply list_index_nat. rewrite nth_error_map, E. reflexivity.
    + apply list_index_none. rewrite nth_error_map, E. reflexivity.
  - subst D. cbn [heights map sortq fold_right].
    replace (nth_error [] (n - k)) with (@None Q) by (destruct (n - k); reflexivity).
    unfold list_index. cbn [Datatypes.length map].
    destruct (Z.of_nat n - Z.of_nat k <? 0)%Z; [|destruct (_ <? 0)%Z; [reflexivity|]].
    + destruct (_ <? 0)%Z; [reflexivity|]. destruct (Z.to_nat _); reflexivity.
    + destruct (Z.to_nat _); reflexivity.
Qed.

Lemma max_cut c t : max_vals (VNum c) (VNum t) = POk (VNum (qmax c t)).
Proof. unfold max_vals, qmax. cbn [as_num]. destruct (Qle_bool c t); reflexivity. Qed.

Fixpoint drop_stmts (k : nat) (s : stmt) : stmt :=
  match k, s with S k', SSeq _ b => drop_stmts k' b | _, _ => s end.

(** the loop of the core, from the initial dict *)
Lemma straight_loop D cut (e : env) :
  let n := S (Datatypes.length D) in
  sim_str cut n D (init_clusters n) e ->
  match replay (straight_guard cut) n D (init_clusters n) with
  | Ok st => exists e', exec (last_stmt src_cut_straight_core) e = POk e' /\ e' "cluster" = Some (embC st) /\
                        e' "dendrogram" = Some (embD D)
  | Err er => exec (last_stmt src_cut_straight_core) e = PErr (conv er)
  end.
Proof.
  intros n Hsim.
  assert (Hk : keys_lt (n + 0) (init_clusters n)) by (rewrite Nat.add_0_r; apply init_keys_lt).
  pose proof (for_range_replay (straight_guard cut) n D (sim_str cut n D)
                (fun i e' => exec (loop_body src_cut_straight_core) (upd "t" (VInt i) e'))
                (fun t r st e => str_step cut n D t r st e) D 0 (init_clusters n) e eq_refl Hsim Hk) as R.
  rewrite Nat.add_0_r in R.
  let b := eval vm_compute in (last_stmt src_cut_straight_core) in change (last_stmt src_cut_straight_core) with b.
  assert (Hloop : forall body, exec (SForRange "t" (EBin BSub (EVar "n") (EInt 1)) body) e =
                  for_range (fun i e' => exec body (upd "t" (VInt i) e')) (Datatypes.length D) 0%Z e).
  { intros body. destruct Hsim as (_ & _ & Hn2 & _). evx. rewrite sub_int. evx.
    replace (Z.to_nat (Z.of_nat n - 1)) with (Datatypes.length D) by (unfold n; lia). reflexivity. }
  rewrite Hloop. clear Hloop.
  destruct (replay (straight_guard cut) n D (init_clusters n)) as [st|er].
  - destruct R as [e' [F (Hd' & Hc' & _)]]. exists e'. split; [exact F|]. split; assumption.
  - exact R.
Qed.

Definition cut_of (D : dendrogram) (k : nat) (th : option Q) : result (option Q) :=
  if Nat.eqb k 1 then Ok None
  else match nth_error (sortq (heights D)) (S (Datatypes.length D) - k) with
       | None => Err IndexError
       | Some c => Ok (Some (match th with None => c | Some t => qmax c t end))
       end.

Lemma straight_tail D k th (e : env) :
  let n := S (Datatypes.length D) in
  e "dendrogram" = Some (embD D) -> e "n" = Some (vnat n) -> e "n_clusters" = Some (vnat k) ->
  e "threshold" = Some (embOQ th) -> e "cluster" = Some (embC (init_clusters n)) ->
  (k <= n \/ D = []) ->
  match cut_of D k th with
  | Err er => exec (drop_stmts 2 src_cut_straight_core) e = PErr (conv er)
  | Ok cut =>
      match replay (straight_guard cut) n D (init_clusters n) with
      | Ok st => exists e', exec (drop_stmts 2 src_cut_straight_core) e = POk e' /\ e' "cluster" = Some (embC st) /\
                            e' "dendrogram" = Some (embD D)
      | Err er => exec (drop_stmts 2 src_cut_straight_core) e = PErr (conv er)
      end
  end.
Proof.
  intros n Hd Hn Hk Hth Hc Hkn.
  pose proof (straight_loop D) as L. cbv zeta in L. fold n in L.
  let b := eval vm_compute in (last_stmt src_cut_straight_core) in change (last_stmt src_cut_straight_core) with b in L.
  let b := eval vm_compute in (drop_stmts 2 src_cut_straight_core) in change (drop_stmts 2 src_cut_straight_core) with b.
  unfold cut_of. fold n.
  destruct (Nat.eqb k 1) eqn:E1.
  - (* cut = inf *)
    erewrite exec_seq_ok.
    2:{ evx. change 1%Z with (Z.of_nat 1). rewrite cmp_eq_nat', E1. evx. reflexivity. }
    destruct th as [t|]; cbn [embOQ] in Hth.
    + erewrite exec_seq_ok.
      2:{ evx. cbn [negb max_vals as_num]. evx. reflexivity. }
      apply L. unfold sim_str. simok.
    + erewrite exec_seq_ok.
      2:{ evx. cbn [negb]. evx. reflexivity. }
      apply L. unfold sim_str. simok.
  - destruct (nth_error (sortq (heights D)) (n - k)) as [c|] eqn:Ec.
    + erewrite exec_seq_ok.
      2:{ evx. change 1%Z with (Z.of_nat 1). rewrite cmp_eq_nat', E1. evx. unfold embD. evx.
          rewrite column2_embD, psort_sortq. evx. rewrite sub_int.
          rewrite (sorted_index D n k eq_refl Hkn), Ec. reflexivity. }
      destruct th as [t|]; cbn [embOQ] in Hth.
      * erewrite exec_seq_ok.
        2:{ evx. cbn [negb]. evx. rewrite max_cut. reflexivity. }
        apply (L (Some (qmax c t))). unfold sim_str. simok.
      * erewrite exec_seq_ok.
        2:{ evx. cbn [negb]. evx. reflexivity. }
        apply (L (Some c)). unfold sim_str. simok.
    + erewrite exec_seq_err; [reflexivity|].
      evx. change 1%Z with (Z.of_nat 1). rewrite cmp_eq_nat', E1. evx. unfold embD. evx.
      rewrite column2_embD, psort_sortq. evx. rewrite sub_int.
      rewrite (sorted_index D n k eq_refl Hkn), Ec. reflexivity.
Qed.

Lemma cut_height_cut_of D nc th :
  cut_height D nc th =
  match resolve_n_clusters (S (Datatypes.length D)) nc th with Err e => Err e | Ok k => cut_of D k th end.
Proof. reflexivity. Qed.

Theorem src_cut_straight_core_is_model D nc th (e0 : env) :
  let n := S (Datatypes.length D) in
  e0 "dendrogram" = Some (embD D) -> e0 "n" = Some (vnat n) ->
  e0 "n_clusters" = Some (embON nc) -> e0 "threshold" = Some (embOQ th) ->
  match straight_core_model D nc th with
  | Ok st => exists e', exec src_cut_straight_core e0 = POk e' /\ e' "cluster" = Some (embC st) /\
                        e' "dendrogram" = Some (embD D)
  | Err er => exec src_cut_straight_core e0 = PErr (conv er)
  end.
Proof.
  intros n Hd Hn Hnc Hth. unfold straight_core_model. rewrite cut_height_cut_of. fold n.
  unfold src_cut_straight_core.
  erewrite exec_seq_ok.
  2:{ cbn [exec]. rewrite (dict_range_init "i" e0 n Hn). reflexivity. }
  set (e1 := upd "cluster" (embC (init_clusters n)) e0).
  assert (Hd1 : e1 "dendrogram" = Some (embD D)) by (unfold e1; simok).
  assert (Hn1 : e1 "n" = Some (vnat n)) by (unfold e1; simok).
  assert (Hnc1 : e1 "n_clusters" = Some (embON nc)) by (unfold e1; simok).
  assert (Hth1 : e1 "threshold" = Some (embOQ th)) by (unfold e1; simok).
  assert (Hc1 : e1 "cluster" = Some (embC (init_clusters n))) by (unfold e1; simok).
  clearbody e1. clear Hd Hn Hnc Hth.
  pose proof (straight_tail D) as T. cbv zeta in T. fold n in T.
  let b := eval vm_compute in (drop_stmts 2 src_cut_straight_core) in change (drop_stmts 2 src_cut_straight_core) with b in T.
  destruct nc as [k|]; cbn [embON resolve_n_clusters] in *.
  - (* n_clusters given: the inlined check_n_clusters *)
    unfold check_n_clusters.
    destruct (Nat.ltb n k) eqn:E1.
    { erewrite exec_seq_err; [reflexivity|]. evx. rewrite cmp_gt_nat', E1. evx. reflexivity. }
    destruct (Nat.ltb k 1) eqn:E2.
    { erewrite exec_seq_err; [reflexivity|]. evx. rewrite cmp_gt_nat', E1. evx.
      change 1%Z with (Z.of_nat 1). rewrite cmp_lt_nat', E2. evx. reflexivity. }
    erewrite exec_seq_ok.
    2:{ evx. rewrite cmp_gt_nat', E1. evx. change 1%Z with (Z.of_nat 1). rewrite cmp_lt_nat', E2. evx. reflexivity. }
    cbv iota.
    match goal with |- context [exec _ ?e2] =>
      assert (T' := T k th e2 ltac:(simok) ltac:(simok) ltac:(simok) ltac:(simok) ltac:(simok)
                      (or_introl (proj1 (Nat.ltb_ge n k) E1))) end.
    destruct (cut_of D k th); exact T'.
  - destruct th as [t|]; cbn [embOQ] in Hth1.
    + erewrite exec_seq_ok.
      2:{ evx. reflexivity. }
      match goal with |- context [exec _ ?e2] =>
        assert (T' := T n (Some t) e2 ltac:(simok) ltac:(simok) ltac:(simok) ltac:(simok) ltac:(simok)
                        (or_introl (le_n n))) end.
      destruct (cut_of D n (Some t)); exact T'.
    + erewrite exec_seq_ok.
      2:{ evx. reflexivity. }
      assert (H2 : 2 <= n \/ D = []) by (destruct D as [|r D']; [right; reflexivity | left; unfold n; simpl; lia]).
      match goal with |- context [exec _ ?e2] =>
        assert (T' := T 2 None e2 ltac:(simok) ltac:(simok) ltac:(simok) ltac:(simok) ltac:(simok) H2) end.
      destruct (cut_of D 2 None); exact T'.
Qed.

(** * Flattened sequences (to address the inlined copies of a callee inside a caller) *)
Fixpoint flat (s : stmt) : list stmt := match s with SSeq a b => flat a ++ flat b | _ => [s] end.
Fixpoint exec_list (l : list stmt) (e : env) : pres env :=
  match l with
  | [] => POk e
  | s :: t => match exec s e with POk e1 => exec_list t e1 | PErr x => PErr x end
  end.
Lemma exec_list_app l1 l2 e :
  exec_list (l1 ++ l2) e = match exec_list l1 e with POk e1 => exec_list l2 e1 | PErr x => PErr x end.
Proof.
  revert e. induction l1 as [|s t IH]; intros e; [reflexivity|]. cbn [app exec_list].
  destruct (exec s e); [apply IH | reflexivity].
Qed.
Lemma exec_flat s : forall e, exec s e = exec_list (flat s) e.
Proof.
  induction s; intros en; try (cbn [flat exec_list]; destruct (exec _ en); reflexivity).
  cbn [flat exec]. rewrite exec_list_app, <- IHs1. destruct (exec s1 en); [apply IHs2 | reflexivity].
Qed.


(** * get_labels: the loop that builds the reduced dendrogram *)
Definition sim_red (lv : option val) (cindex csize : list (nat * nat)) (cur cur_new : nat) (out : dendrogram) (e : env) : Prop :=
  e "cluster_index" = Some (embN cindex) /\ e "cluster_size" = Some (embN csize) /\
  e "current_cluster" = Some (vnat cur) /\ e "current_cluster_new" = Some (vnat cur_new) /\
  e "dendrogram_new" = Some (VList (map embNewRow out)) /\ e "labels" = lv.

Lemma dset_vnat_fresh k v (st : list (nat * nat)) :
  alookup k st = None -> dset (Z.of_nat k) (VInt (Z.of_nat v)) (embA vnat st) = embA vnat (st ++ [(k, v)]).
Proof. apply (dset_emb_fresh vnat). Qed.

Definition red_f : val -> env -> pres env :=
  fun r e' => match r with
              | VList vs => match bind_all ["i"; "j"; "height"; "_"] vs e' with
                            | Some e'' => exec (loop_body src_reduce_loop) e''
                            | None => PErr PValueError
                            end
              | _ => PErr PTypeError
              end.

Ltac ev3 := cbn [exec eval upd String.eqb Ascii.eqb Bool.eqb fnat vnat embC embL embN index_vals option_map negb as_key].
Ltac evr := repeat (progress ev3 || look || (progress (unfold vnat))
                   || rewrite qtrunc_inject_Z || rewrite dget_emb || rewrite dremove_emb
                   || rewrite add_nat' || rewrite cmp_ne_nat').

Lemma reduce_loop_link lv : forall rows cindex csize cur cur_new out e,
  sim_red lv cindex csize cur cur_new out e -> keys_lt cur cindex -> keys_lt cur_new csize ->
  match reduce_loop rows cindex csize cur cur_new with
  | Ok res => exists e', for_rows red_f (map embRow rows) e = POk e' /\
                         e' "dendrogram_new" = Some (VList (map embNewRow (out ++ res))) /\ e' "labels" = lv
  | Err er => for_rows red_f (map embRow rows) e = PErr (conv er)
  end.
Proof.
  induction rows as [|r rest IH]; intros cindex csize cur cur_new out e (Hci & Hcs & Hcur & Hnew & Hout & Hlab) Kci Kcs.
  - simpl. exists e. split; [reflexivity|]. rewrite app_nil_r. split; [exact Hout | exact Hlab].
  - cbn [reduce_loop map for_rows].
    remember (red_f (embRow r) e) as F eqn:HF. revert HF.
    unfold red_f at 1. unfold embRow at 1. cbn [bind_all].
    let b := eval vm_compute in (loop_body src_reduce_loop) in change (loop_body src_reduce_loop) with b.
    evr.
    destruct (alookup (r_left r) cindex) as [i_new|] eqn:Ei; evr; [|intros ->; reflexivity].
    destruct (alookup (r_right r) (aremove (r_left r) cindex)) as [j_new|] eqn:Ej; evr; [|intros ->; reflexivity].
    destruct (Nat.eqb i_new j_new) eqn:Eij; evr.
    + (* same cluster *)
      rewrite dset_vnat_fresh by (apply keys_lt_fresh; do 2 apply keys_lt_aremove; exact Kci).
      change 1%Z with (Z.of_nat 1). evr. rewrite Nat.add_1_r. intros ->. cbv iota beta.
      match goal with |- context [for_rows red_f _ ?e2] =>
        specialize (IH (aremove (r_right r) (aremove (r_left r) cindex) ++ [(cur, i_new)])%list csize (S cur) cur_new out e2) end.
      apply IH.
      * unfold sim_red. simok.
      * apply keys_lt_app; [do 2 apply keys_lt_aremove; exact Kci | lia].
      * exact Kcs.
    + destruct (alookup i_new csize) as [si|] eqn:Esi; evr; [|intros ->; reflexivity].
      destruct (alookup j_new (aremove i_new csize)) as [sj|] eqn:Esj; evr; [|intros ->; reflexivity].
      rewrite !dset_vnat_fresh by (apply keys_lt_fresh; do 2 apply keys_lt_aremove; first [exact Kcs | exact Kci]).
      evr. change 1%Z with (Z.of_nat 1). evr. rewrite !Nat.add_1_r. intros ->. cbv iota beta.
      match goal with |- context [for_rows red_f _ ?e2] =>
        specialize (IH (aremove (r_right r) (aremove (r_left r) cindex) ++ [(cur, cur_new)])%list
                       (aremove j_new (aremove i_new csize) ++ [(cur_new, si + sj)])%list (S cur) (S cur_new)
                       (out ++ [(i_new, j_new, r_height r, si + sj)])%list e2) end.
      assert (H1 : forall A B C, (A -> B -> C -> True) -> True) by trivial. clear H1.
      match type of IH with ?A -> ?B -> ?C -> _ =>
        assert (HA : A); [| assert (HB : B); [| assert (HC : C); [| specialize (IH HA HB HC) ]]] end.
      * unfold sim_red. simok. rewrite map_app. reflexivity.
      * apply keys_lt_app; [do 2 apply keys_lt_aremove; exact Kci | lia].
      * apply keys_lt_app; [do 2 apply keys_lt_aremove; exact Kcs | lia].
      * destruct (reduce_loop rest _ _ (S cur) (S cur_new)) as [out0|er].
        -- destruct IH as [e' [F1 [F2 F3]]]. exists e'. split; [exact F1|]. split; [|exact F3].
           rewrite F2. rewrite <- app_assoc. reflexivity.
        -- exact IH.
Qed.

Theorem src_reduce_loop_is_model D cindex csize cur cur_new (e0 : env) :
  e0 "dendrogram" = Some (embD D) -> e0 "cluster_index" = Some (embN cindex) ->
  e0 "cluster_size" = Some (embN csize) -> e0 "current_cluster" = Some (vnat cur) ->
  e0 "current_cluster_new" = Some (vnat cur_new) -> e0 "dendrogram_new" = Some (VList []) ->
  keys_lt cur cindex -> keys_lt cur_new csize ->
  match reduce_loop D cindex csize cur cur_new with
  | Ok res => exists e', exec src_reduce_loop e0 = POk e' /\ e' "dendrogram_new" = Some (VList (map embNewRow res)) /\
                         e' "labels" = e0 "labels"
  | Err er => exec src_reduce_loop e0 = PErr (conv er)
  end.
Proof.
  intros Hd Hci Hcs Hcur Hnew Hout Kci Kcs.
  assert (E : exec src_reduce_loop e0 = for_rows red_f (map embRow D) e0).
  { unfold src_reduce_loop. cbn [exec eval]. rewrite Hd. reflexivity. }
  rewrite E.
  exact (reduce_loop_link (e0 "labels") D cindex csize cur cur_new [] e0
           (conj Hci (conj Hcs (conj Hcur (conj Hnew (conj Hout eq_refl))))) Kci Kcs).
Qed.

(** C14 about the terms regenerated from sknetwork/regression/diffusion.py (Gen/NpDiffusion.v, language and semantics
    of Model/NpVec.v), over R: for every graph with non-negative weights, every seed vector, initial temperature and
    iteration count, the denotation of the numeric core of Dirichlet.fit / Diffusion.fit stays between the smallest and
    the largest initial temperature, and Dirichlet returns the seed temperatures at the seeds. *)
From SKN Require Import Base.Util Model.Gnn Model.NpExpr Model.NpVec Gen.NpDiffusion.
Set Warnings "-notation-overridden,-ambiguous-paths".
From Coq Require Import Reals Lra String.
Local Open Scope R_scope.
Local Open Scope string_scope.

(* ------------------------------------------------------------------------------------------- *)
(** * Instance over R *)
Definition Rleb (a b : R) : bool := if Rle_dec a b then true else false.
Definition Reqb (a b : R) : bool := if Req_EM_T a b then true else false.
Definition rlit2 (m e : Z) : R := IZR m * powerRZ 10 e.
Definition rvdenote : venv -> vexpr -> option (vvalue R) :=
  vdenote Rplus Rminus Rmult Rdiv 0 1 Rabs Rleb Reqb INR rlit2 sqrt (fun _ f => f).
Definition rsum (n : nat) (f : nat -> R) : R := vsum Rplus 0 n f.

Definition env_fit (n : nat) (A : nat -> nat -> R) (s : nat -> R) (init : vvalue R) (k : nat) (alpha : R) : venv :=
  ("adjacency", WM n n A) :: ("values", WV n s) :: ("init", init) ::
  ("self.n_iter", WN k) :: ("self.damping_factor", WS alpha) :: nil.

Lemma rlit2_1 : rlit2 1 0 = 1. Proof. unfold rlit2. cbn. lra. Qed.
Lemma Rleb_true a b : Rleb a b = true <-> a <= b.
Proof. unfold Rleb. destruct (Rle_dec a b); split; intros; try discriminate; auto; contradiction. Qed.
Lemma Reqb_true a b : Reqb a b = true <-> a = b.
Proof. unfold Reqb. destruct (Req_EM_T a b); split; intros; try discriminate; auto; contradiction. Qed.

(* ------------------------------------------------------------------------------------------- *)
(** * Finite sums *)
Definition lsum (l : list nat) (f : nat -> R) : R := g_sum Rplus 0 (map f l).

Lemma lsum_ext l f g : (forall j, In j l -> f j = g j) -> lsum l f = lsum l g.
Proof. intros H. unfold lsum. f_equal. apply map_ext_in. exact H. Qed.

Lemma lsum_le l f g : (forall j, In j l -> f j <= g j) -> lsum l f <= lsum l g.
Proof.
  unfold lsum, g_sum. induction l as [|a t IH]; intros H; cbn; [lra|].
  pose proof (H a (or_introl eq_refl)). assert (forall j, In j t -> f j <= g j) by (intros; apply H; right; assumption).
  specialize (IH H1). lra.
Qed.

Lemma lsum_scale l c f : lsum l (fun j => c * f j) = c * lsum l f.
Proof. unfold lsum, g_sum. induction l as [|a t IH]; cbn; [lra|]. rewrite IH. lra. Qed.

Lemma lsum_scale_r l c f : lsum l (fun j => f j * c) = lsum l f * c.
Proof. unfold lsum, g_sum. induction l as [|a t IH]; cbn; [lra|]. rewrite IH. lra. Qed.

Lemma lsum_add l f g : lsum l (fun j => f j + g j) = lsum l f + lsum l g.
Proof. unfold lsum, g_sum. induction l as [|a t IH]; cbn; [lra|]. rewrite IH. lra. Qed.

Lemma lsum_zero l f : (forall j, In j l -> f j = 0) -> lsum l f = 0.
Proof.
  unfold lsum, g_sum. induction l as [|a t IH]; intros H; cbn; [reflexivity|].
  rewrite (H a (or_introl eq_refl)), IH; [lra|]. intros; apply H; right; assumption.
Qed.

Lemma lsum_nonneg l f : (forall j, In j l -> 0 <= f j) -> 0 <= lsum l f.
Proof.
  intros H. rewrite <- (lsum_zero l (fun _ => 0)) by reflexivity. apply lsum_le. exact H.
Qed.

(** exactly one index [i] of a duplicate-free list carries the value *)
Lemma lsum_single l i (v : R) :
  NoDup l -> In i l -> lsum l (fun j => if Nat.eqb i j then v else 0) = v.
Proof.
  unfold lsum, g_sum. induction l as [|a t IH]; intros Hnd Hin; [destruct Hin|].
  inversion Hnd as [|? ? Hnot Hnd']; subst. cbn [map fold_right].
  destruct Hin as [->|Hin].
  - rewrite Nat.eqb_refl.
    fold (g_sum Rplus 0 (map (fun j => if Nat.eqb i j then v else 0) t)). fold (lsum t (fun j => if Nat.eqb i j then v else 0)).
    rewrite lsum_zero; [lra|]. intros j Hj. destruct (Nat.eqb_spec i j); [subst; contradiction | reflexivity].
  - destruct (Nat.eqb_spec i a); [subst; contradiction|]. rewrite IH by assumption. lra.
Qed.

(** a convex combination stays in the interval *)
Lemma convex_interval l (p v : nat -> R) lo hi :
  (forall j, In j l -> 0 <= p j) -> lsum l p = 1 -> (forall j, In j l -> lo <= v j <= hi) ->
  lo <= lsum l (fun j => p j * v j) <= hi.
Proof.
  intros Hp H1 Hv. split.
  - replace lo with (lsum l (fun j => p j * lo)) by (rewrite lsum_scale_r, H1; lra).
    apply lsum_le. intros j Hj. pose proof (Hp j Hj). pose proof (Hv j Hj). nra.
  - replace hi with (lsum l (fun j => p j * hi)) by (rewrite lsum_scale_r, H1; lra).
    apply lsum_le. intros j Hj. pose proof (Hp j Hj). pose proof (Hv j Hj). nra.
Qed.

Lemma rsum_lsum n f : rsum n f = lsum (seq 0 n) f. Proof. reflexivity. Qed.
Lemma in_seq0 n j : In j (seq 0 n) <-> (j < n)%nat. Proof. rewrite in_seq. lia. Qed.

(* ------------------------------------------------------------------------------------------- *)
(** * Loops *)
Lemma iter_opt_inv {X} (I : X -> Prop) (step : X -> option X) (k : nat) (x : X) :
  I x -> (forall y, I y -> exists z, step y = Some z /\ I z) -> exists z, iter_opt k step x = Some z /\ I z.
Proof.
  revert x; induction k as [|k IH]; intros x Hx Hstep; cbn [iter_opt].
  - exists x. split; [reflexivity | exact Hx].
  - destruct (Hstep x Hx) as [z [-> Hz]]. apply IH; assumption.
Qed.

(* ------------------------------------------------------------------------------------------- *)
(** * Row-stochastic matrices produced by [normalize] *)
Definition nonneg_mat (n : nat) (A : nat -> nat -> R) : Prop := forall i j, (i < n)%nat -> (j < n)%nat -> 0 <= A i j.

Definition nrow (n : nat) (A : nat -> nat -> R) (i j : nat) : R :=
  pinvT Rdiv 0 1 Reqb (rsum n (fun j' => Rabs (A i j'))) * A i j.

Lemma nrow_nonneg n A i j : nonneg_mat n A -> (i < n)%nat -> (j < n)%nat -> 0 <= nrow n A i j.
Proof.
  intros HA Hi Hj. unfold nrow, pinvT.
  assert (Hs : 0 <= rsum n (fun j' => Rabs (A i j'))).
  { rewrite rsum_lsum. apply lsum_nonneg. intros; apply Rabs_pos. }
  destruct (Reqb _ 0) eqn:E.
  - lra.
  - assert (rsum n (fun j' => Rabs (A i j')) <> 0) by (intros F; apply Reqb_true in F; congruence).
    pose proof (HA i j Hi Hj). apply Rmult_le_pos; [|assumption].
    unfold Rdiv. rewrite Rmult_1_l. apply Rlt_le, Rinv_0_lt_compat. lra.
Qed.

Lemma abs_sum_eq n A i : nonneg_mat n A -> (i < n)%nat -> rsum n (fun j => Rabs (A i j)) = rsum n (A i).
Proof.
  intros HA Hi. rewrite !rsum_lsum. apply lsum_ext. intros j Hj. apply in_seq0 in Hj.
  apply Rabs_pos_eq. apply HA; assumption.
Qed.

Lemma nrow_sum_1 n A i : nonneg_mat n A -> (i < n)%nat -> 0 < rsum n (A i) -> rsum n (nrow n A i) = 1.
Proof.
  intros HA Hi Hpos. unfold nrow. rewrite rsum_lsum, lsum_scale, <- rsum_lsum.
  rewrite abs_sum_eq by assumption. unfold pinvT.
  destruct (Reqb _ 0) eqn:E; [apply Reqb_true in E; lra|]. field. lra.
Qed.

Lemma nrow_zero n A i : nonneg_mat n A -> (i < n)%nat -> rsum n (A i) = 0 -> forall j, (j < n)%nat -> nrow n A i j = 0.
Proof.
  intros HA Hi H0 j Hj. unfold nrow. rewrite abs_sum_eq by assumption. rewrite H0. unfold pinvT.
  replace (Reqb 0 0) with true by (symmetry; apply Reqb_true; reflexivity). lra.
Qed.

(* ------------------------------------------------------------------------------------------- *)
(** * Initial temperatures (init_temperatures, inlined in both fits) *)
Definition base_temp (n : nat) (s : nat -> R) (init : vvalue R) : R :=
  match init with
  | WNone => rsum n (fun i => if Rleb 0 (s i) then s i else 0) / INR (count_true n (fun i => Rleb 0 (s i))) * 1
  | WS t => t * 1
  | _ => 0
  end.
Definition temp0 (n : nat) (s : nat -> R) (init : vvalue R) (i : nat) : R :=
  if Rleb 0 (s i) then s i else base_temp n s init.
Definition init_ok (init : vvalue R) : Prop := init = WNone \/ exists t, init = WS t.

(* ------------------------------------------------------------------------------------------- *)
(** * Dirichlet.fit *)
Theorem source_dirichlet_bounds_and_clamp n A s init k alpha lo hi :
  nonneg_mat n A -> (forall i, (i < n)%nat -> 0 < rsum n (A i)) -> init_ok init ->
  (forall i, (i < n)%nat -> lo <= temp0 n s init i <= hi) ->
  exists f, rvdenote (env_fit n A s init k alpha) src_dirichlet_fit = Some (WV n f) /\
            (forall i, (i < n)%nat -> lo <= f i <= hi) /\
            (forall i, (i < n)%nat -> 0 <= s i -> f i = s i).
Proof.
  intros HA Hrow Hinit H0.
  set (Inv := fun v : vvalue R => exists g, v = WV n g /\ (forall i, (i < n)%nat -> lo <= g i <= hi) /\
                                            (forall i, (i < n)%nat -> 0 <= s i -> g i = s i)).
  assert (Hstep : forall (b : R) (step : vvalue R -> option (vvalue R)),
             (forall i, (i < n)%nat -> lo <= (if Rleb 0 (s i) then s i else b) <= hi) ->
             (forall h, step (WV n h) =
                        Some (WV n (fun i => if Rleb 0 (s i) then (if Rleb 0 (s i) then s i else b)
                                             else vsum Rplus 0 n (fun j => pinvT Rdiv 0 1 Reqb
                                                    (vsum Rplus 0 n (fun j' => Rabs (A i j'))) * A i j * h j)))) ->
             forall y, Inv y -> exists z, step y = Some z /\ Inv z).
  { intros b step Hb Hst y [g [-> [Hg Hs]]]. eexists. split; [apply Hst|].
    eexists. split; [reflexivity|]. split.
    - intros i Hi. cbn beta. specialize (Hb i Hi). destruct (Rleb 0 (s i)) eqn:E; [exact Hb|].
      change (lo <= lsum (seq 0 n) (fun j => nrow n A i j * g j) <= hi).
      apply convex_interval.
      + intros j Hj. apply in_seq0 in Hj. apply nrow_nonneg; assumption.
      + rewrite <- rsum_lsum. apply nrow_sum_1; auto.
      + intros j Hj. apply in_seq0 in Hj. apply Hg. exact Hj.
    - intros i Hi Hsi. cbn beta. replace (Rleb 0 (s i)) with true by (symmetry; apply Rleb_true; exact Hsi). reflexivity. }
  destruct Hinit as [->|[t ->]].
  - unfold rvdenote, env_fit, src_dirichlet_fit. repeat (cbn; rewrite ?Nat.eqb_refl).
    match goal with |- context [iter_opt k ?st ?v0] =>
      destruct (iter_opt_inv Inv st k v0) as [z [Hz [g [-> [Hg Hs]]]]] end.
    + eexists. split; [reflexivity|]. split.
      * intros i Hi. exact (H0 i Hi).
      * intros i Hi Hsi. cbn beta. replace (Rleb 0 (s i)) with true by (symmetry; apply Rleb_true; exact Hsi). reflexivity.
    + apply (Hstep (base_temp n s WNone)); [exact H0|].
      intros h. repeat (cbn; rewrite ?Nat.eqb_refl). reflexivity.
    + rewrite Hz. exists g. split; [reflexivity|]. split; assumption.
  - unfold rvdenote, env_fit, src_dirichlet_fit. repeat (cbn; rewrite ?Nat.eqb_refl).
    match goal with |- context [iter_opt k ?st ?v0] =>
      destruct (iter_opt_inv Inv st k v0) as [z [Hz [g [-> [Hg Hs]]]]] end.
    + eexists. split; [reflexivity|]. split.
      * intros i Hi. exact (H0 i Hi).
      * intros i Hi Hsi. cbn beta. replace (Rleb 0 (s i)) with true by (symmetry; apply Rleb_true; exact Hsi). reflexivity.
    + apply (Hstep (base_temp n s (WS t))); [exact H0|].
      intros h. repeat (cbn; rewrite ?Nat.eqb_refl). reflexivity.
    + rewrite Hz. exists g. split; [reflexivity|]. split; assumption.
Qed.

(* ------------------------------------------------------------------------------------------- *)
(** * Diffusion.fit: the operator (1 - a) I + a (normalize(A^T) + diag(null rows)) is row-stochastic *)
Definition tr (A : nat -> nat -> R) (i j : nat) : R := A j i.
Definition zrow (n : nat) (A : nat -> nat -> R) (i : nat) : bool :=
  forallb (fun j0 => Reqb (pinvT Rdiv 0 1 Reqb (vsum Rplus 0 n (fun j' => Rabs (A j' i))) * A j0 i) 0) (seq 0 n).
Definition Dop (n : nat) (A : nat -> nat -> R) (alpha : R) (i j : nat) : R :=
  (rlit2 1 0 - alpha) * (if Nat.eqb i j then 1 else 0) +
  alpha * (pinvT Rdiv 0 1 Reqb (vsum Rplus 0 n (fun j' => Rabs (A j' i))) * A j i +
           (if Nat.eqb i j && zrow n A i then 1 else 0)).

Lemma nonneg_tr n A : nonneg_mat n A -> nonneg_mat n (tr A).
Proof. intros H i j Hi Hj. unfold tr. apply H; assumption. Qed.

Lemma Dop_nrow n A alpha i j :
  Dop n A alpha i j = (1 - alpha) * (if Nat.eqb i j then 1 else 0) +
                      alpha * (nrow n (tr A) i j + (if Nat.eqb i j && zrow n A i then 1 else 0)).
Proof. unfold Dop. rewrite rlit2_1. reflexivity. Qed.

Lemma Dop_nonneg n A alpha i j :
  nonneg_mat n A -> 0 <= alpha <= 1 -> (i < n)%nat -> (j < n)%nat -> 0 <= Dop n A alpha i j.
Proof.
  intros HA Ha Hi Hj. rewrite Dop_nrow.
  pose proof (nrow_nonneg n (tr A) i j (nonneg_tr n A HA) Hi Hj) as Hn.
  assert (0 <= (if Nat.eqb i j then 1 else 0)) by (destruct (Nat.eqb i j); lra).
  assert (0 <= (if Nat.eqb i j && zrow n A i then 1 else 0)) by (destruct (Nat.eqb i j && zrow n A i); lra).
  assert (0 <= (1 - alpha) * (if Nat.eqb i j then 1 else 0)) by (apply Rmult_le_pos; lra).
  assert (0 <= alpha * (nrow n (tr A) i j + (if Nat.eqb i j && zrow n A i then 1 else 0))) by (apply Rmult_le_pos; lra).
  lra.
Qed.

Lemma zrow_spec n A i : zrow n A i = true <-> forall j, (j < n)%nat -> nrow n (tr A) i j = 0.
Proof.
  unfold zrow. rewrite forallb_forall. split.
  - intros H j Hj. apply Reqb_true. apply (H j). apply in_seq0. exact Hj.
  - intros H j Hj. apply Reqb_true. apply in_seq0 in Hj. exact (H j Hj).
Qed.

Lemma rsum_nonneg_cases n (f : nat -> R) : (forall j, (j < n)%nat -> 0 <= f j) -> rsum n f = 0 \/ 0 < rsum n f.
Proof.
  intros H. assert (0 <= rsum n f) by (rewrite rsum_lsum; apply lsum_nonneg; intros j Hj; apply H; apply in_seq0; exact Hj).
  destruct (Req_dec (rsum n f) 0); [left; assumption | right; lra].
Qed.

Lemma Dop_sum_1 n A alpha i : nonneg_mat n A -> (i < n)%nat -> rsum n (Dop n A alpha i) = 1.
Proof.
  intros HA Hi.
  assert (Hd : lsum (seq 0 n) (fun j => if Nat.eqb i j then 1 else 0) = 1).
  { apply lsum_single; [apply seq_NoDup | apply in_seq0; exact Hi]. }
  rewrite rsum_lsum. rewrite (lsum_ext _ _ (fun j => (1 - alpha) * (if Nat.eqb i j then 1 else 0) +
     alpha * (nrow n (tr A) i j + (if Nat.eqb i j && zrow n A i then 1 else 0)))) by (intros; apply Dop_nrow).
  rewrite lsum_add, !lsum_scale, lsum_add, Hd.
  pose proof (nonneg_tr n A HA) as HB.
  destruct (rsum_nonneg_cases n (tr A i)) as [H0|Hpos]; [intros j Hj; apply HB; assumption| |].
  - (* null row of A^T: normalised row null, the diagonal takes the unit *)
    assert (Hz : zrow n A i = true) by (apply zrow_spec; intros j Hj; apply nrow_zero; assumption).
    rewrite Hz.
    rewrite (lsum_zero (seq 0 n) (nrow n (tr A) i))
      by (intros j Hj; apply in_seq0 in Hj; apply nrow_zero; assumption).
    rewrite (lsum_ext (seq 0 n) (fun j => if Nat.eqb i j && true then 1 else 0) (fun j => if Nat.eqb i j then 1 else 0))
      by (intros j _; rewrite andb_true_r; reflexivity).
    rewrite Hd. lra.
  - (* the normalised row sums to 1 and is not null *)
    pose proof (nrow_sum_1 n (tr A) i HB Hi Hpos) as H1. rewrite rsum_lsum in H1.
    assert (Hz : zrow n A i = false).
    { destruct (zrow n A i) eqn:E; [|reflexivity]. exfalso.
      rewrite (lsum_zero (seq 0 n) (nrow n (tr A) i)) in H1; [lra|].
      intros j Hj. apply in_seq0 in Hj. apply (proj1 (zrow_spec n A i) E). exact Hj. }
    rewrite Hz.
    rewrite H1.
    rewrite (lsum_zero (seq 0 n) (fun j => if Nat.eqb i j && false then 1 else 0))
      by (intros j _; rewrite andb_false_r; reflexivity).
    lra.
Qed.

Theorem source_diffusion_bounds n A s init k alpha lo hi :
  nonneg_mat n A -> 0 <= alpha <= 1 -> init_ok init ->
  (forall i, (i < n)%nat -> lo <= temp0 n s init i <= hi) ->
  exists f, rvdenote (env_fit n A s init k alpha) src_diffusion_fit = Some (WV n f) /\
            (forall i, (i < n)%nat -> lo <= f i <= hi).
Proof.
  intros HA Ha Hinit H0.
  set (Inv := fun v : vvalue R => exists g, v = WV n g /\ (forall i, (i < n)%nat -> lo <= g i <= hi)).
  assert (Hstep : forall step : vvalue R -> option (vvalue R),
             (forall h, step (WV n h) = Some (WV n (fun i => vsum Rplus 0 n (fun j => Dop n A alpha i j * h j)))) ->
             forall y, Inv y -> exists z, step y = Some z /\ Inv z).
  { intros step Hst y [g [-> Hg]]. eexists. split; [apply Hst|]. eexists. split; [reflexivity|].
    intros i Hi. cbn beta. change (lo <= lsum (seq 0 n) (fun j => Dop n A alpha i j * g j) <= hi).
    apply convex_interval.
    - intros j Hj. apply in_seq0 in Hj. apply Dop_nonneg; assumption.
    - rewrite <- rsum_lsum. apply Dop_sum_1; assumption.
    - intros j Hj. apply in_seq0 in Hj. apply Hg. exact Hj. }
  destruct Hinit as [->|[t ->]].
  - unfold rvdenote, env_fit, src_diffusion_fit. repeat (cbn; rewrite ?Nat.eqb_refl).
    match goal with |- context [iter_opt k ?st ?v0] =>
      destruct (iter_opt_inv Inv st k v0) as [z [Hz [g [-> Hg]]]] end.
    + eexists. split; [reflexivity|]. intros i Hi. exact (H0 i Hi).
    + apply Hstep. intros h. repeat (cbn; rewrite ?Nat.eqb_refl). reflexivity.
    + rewrite Hz. exists g. split; [reflexivity | assumption].
  - unfold rvdenote, env_fit, src_diffusion_fit. repeat (cbn; rewrite ?Nat.eqb_refl).
    match goal with |- context [iter_opt k ?st ?v0] =>
      destruct (iter_opt_inv Inv st k v0) as [z [Hz [g [-> Hg]]]] end.
    + eexists. split; [reflexivity|]. intros i Hi. exact (H0 i Hi).
    + apply Hstep. intros h. repeat (cbn; rewrite ?Nat.eqb_refl). reflexivity.
    + rewrite Hz. exists g. split; [reflexivity | assumption].
Qed.

(** With [init = None] the free nodes start from the mean of the seeds, which lies between the smallest and the largest
    seed: the interval of the initial temperatures is the interval of the seeds. *)
Theorem seed_mean_in_range n (s : nat -> R) lo hi :
  (exists i, (i < n)%nat /\ 0 <= s i) -> (forall i, (i < n)%nat -> 0 <= s i -> lo <= s i <= hi) ->
  forall i, (i < n)%nat -> lo <= temp0 n s WNone i <= hi.
Proof.
  intros [i0 [Hi0 Hs0]] Hr i Hi. unfold temp0. destruct (Rleb 0 (s i)) eqn:E.
  - apply Hr; [exact Hi | apply Rleb_true; exact E].
  - unfold base_temp. rewrite Rmult_1_r.
    set (b := fun i => Rleb 0 (s i)).
    assert (Hgen : forall l, lo * INR (List.length (filter b l)) <= lsum l (fun i => if b i then s i else 0)
                                <= hi * INR (List.length (filter b l)) \/ exists j, In j l /\ ~ (j < n)%nat).
    { induction l as [|a t IH]; [left; unfold lsum; cbn; lra|].
      destruct (Nat.lt_ge_cases a n) as [Ha|Ha]; [|right; exists a; split; [left; reflexivity | lia]].
      destruct IH as [IH|[j [Hj Hn]]]; [|right; exists j; split; [right; exact Hj | exact Hn]].
      left. unfold lsum in *. cbn [map g_sum fold_right filter]. fold (g_sum Rplus 0 (map (fun i1 => if b i1 then s i1 else 0) t)).
      destruct (b a) eqn:Eb.
      - cbn [List.length]. rewrite S_INR. pose proof (Hr a Ha (proj1 (Rleb_true 0 (s a)) Eb)). unfold g_sum in *. lra.
      - unfold g_sum in *. lra. }
    destruct (Hgen (seq 0 n)) as [Hb|[j [Hj Hn]]]; [|apply in_seq0 in Hj; contradiction].
    assert (Hc : 0 < INR (count_true n b)).
    { apply lt_0_INR. unfold count_true.
      assert (In i0 (filter b (seq 0 n))) by (apply filter_In; split; [apply in_seq0; exact Hi0 | apply Rleb_true; exact Hs0]).
      destruct (filter b (seq 0 n)); [contradiction | cbn; lia]. }
    unfold count_true in *. fold (lsum (seq 0 n) (fun i1 => if b i1 then s i1 else 0)) in Hb.
    change (rsum n (fun i1 => if Rleb 0 (s i1) then s i1 else 0)) with (lsum (seq 0 n) (fun i1 => if b i1 then s i1 else 0)).
    split.
    + apply Rmult_le_reg_r with (INR (List.length (filter b (seq 0 n)))); [exact Hc|].
      unfold Rdiv. rewrite Rmult_assoc, Rinv_l by lra. lra.
    + apply Rmult_le_reg_r with (INR (List.length (filter b (seq 0 n)))); [exact Hc|].
      unfold Rdiv. rewrite Rmult_assoc, Rinv_l by lra. lra.
Qed.

(** Reducibility of the Paris linkage in exact arithmetic (property C07, height monotonicity).

    In the model of sknetwork/hierarchy/paris.pyx with [R = exact] (no rounding) and [clamp = false] (the code
    as it is), no merge is lower than the merges that created its two children: [hmono n D = true].

    Proof: an invariant of [paris_run].  With sim(x,y) = 2 p(x,y) / (wo(x) wi(y) + wo(y) wi(x)):
      (I3) every live cluster x created at similarity m_x (height 1/m_x) has sim(x,y) <= m_x for every
           neighbour y;
      (I4) for consecutive chain entries z above x, if both are still live then z is a neighbour of x and
           sim(x,y) <= sim(x,z) for every neighbour y of x.
    A merge of a and b replaces sim(a,c), sim(b,c) by their mediant (or by something smaller when c is a
    neighbour of one only), which is what keeps both invariants. *)
From Coq Require Import Permutation Lia QArith Lqa Psatz.
From SKN Require Import Base.Util Model.Dendrogram Model.Cuts Model.Hierarchy Model.Paris Proofs.DendroBase.
Set Warnings "-notation-overridden". (* keep: the harness wants a line with a parenthesis after the imports *)

(** * The analytic core: mediant inequalities *)
Lemma Qpos_neq0 (d : Q) : (0 < d)%Q -> ~ (d == 0)%Q.
Proof. intros H E. rewrite E in H. lra. Qed.

Lemma div_le_mul (p d s : Q) : (0 < d)%Q -> (p / d <= s)%Q -> (p <= s * d)%Q.
Proof.
  intros Hd H. assert (E : (p == p / d * d)%Q) by (field; now apply Qpos_neq0).
  rewrite E. apply Qmult_le_compat_r; [exact H | lra].
Qed.

Lemma mul_le_div (p d s : Q) : (0 < d)%Q -> (p <= s * d)%Q -> (p / d <= s)%Q.
Proof. intros Hd H. now apply Qle_shift_div_r. Qed.

Lemma mediant_le : forall p1 d1 p2 d2 s : Q,
  (0 < d1)%Q -> (0 < d2)%Q -> (p1 / d1 <= s)%Q -> (p2 / d2 <= s)%Q -> ((p1 + p2) / (d1 + d2) <= s)%Q.
Proof.
  intros p1 d1 p2 d2 s H1 H2 L1 L2. apply mul_le_div; [lra|].
  pose proof (div_le_mul _ _ _ H1 L1) as M1. pose proof (div_le_mul _ _ _ H2 L2) as M2. lra.
Qed.

Lemma mediant_le_single : forall p1 d1 d2 s : Q,
  (0 < d1)%Q -> (0 <= d2)%Q -> (0 <= p1)%Q -> (p1 / d1 <= s)%Q -> (p1 / (d1 + d2) <= s)%Q.
Proof.
  intros p1 d1 d2 s H1 H2 Hp L1. apply mul_le_div; [lra|].
  pose proof (div_le_mul _ _ _ H1 L1) as M1.
  assert (Hs : (0 <= s)%Q).
  { apply Qle_trans with (p1 / d1)%Q; [|exact L1]. apply Qle_shift_div_l; [exact H1 | lra]. }
  pose proof (Qmult_le_0_compat _ _ Hs H2) as M2. lra.
Qed.

Lemma inv_le_inv (m m' : Q) : (0 < m)%Q -> (m <= m')%Q -> (1 / m' <= 1 / m)%Q.
Proof.
  intros H0 H1. apply Qle_shift_div_l; [exact H0|]. apply Qle_trans with (1 / m' * m')%Q.
  - apply Qmult_le_l.
    + apply Qlt_shift_div_l; lra.
    + exact H1.
  - assert (E : (1 / m' * m' == 1)%Q) by (field; apply Qpos_neq0; lra). rewrite E. lra.
Qed.

(** * Association lists: lookups through the list operations of the model *)
Lemma alookup_filter_key {A} (f : nat -> bool) (l : list (nat * A)) y :
  alookup y (filter (fun p => f (fst p)) l) = if f y then alookup y l else None.
Proof.
  induction l as [|[k v] t IH]; simpl; [now destruct (f y)|].
  destruct (f k) eqn:Ek; simpl.
  - destruct (Nat.eqb y k) eqn:E; [apply Nat.eqb_eq in E; subst; now rewrite Ek | exact IH].
  - destruct (Nat.eqb y k) eqn:E; [apply Nat.eqb_eq in E; subst; rewrite Ek in *; exact IH | exact IH].
Qed.

Definition in2 (a b y : nat) : bool := Nat.eqb y a || Nat.eqb y b.

Lemma alookup_filter_not2 {A} a b (l : list (nat * A)) y :
  alookup y (filter (fun p => negb (Nat.eqb (fst p) a) && negb (Nat.eqb (fst p) b)) l) =
  if in2 a b y then None else alookup y l.
Proof.
  rewrite (alookup_filter_key (fun k => negb (Nat.eqb k a) && negb (Nat.eqb k b))). unfold in2.
  destruct (Nat.eqb y a), (Nat.eqb y b); reflexivity.
Qed.

Lemma alookup_mapv {A B} (f : A -> B) (l : list (nat * A)) y :
  alookup y (map (fun p => (fst p, f (snd p))) l) = option_map f (alookup y l).
Proof. induction l as [|[k v] t IH]; simpl; [reflexivity|]. destruct (Nat.eqb y k); [reflexivity | exact IH]. Qed.

Lemma alookup_single {A} y k (v : A) : alookup y [(k, v)] = if Nat.eqb y k then Some v else None.
Proof. reflexivity. Qed.

Lemma alookup_not_None_key {A} k (l : list (nat * A)) : alookup k l <> None <-> In k (akeys l).
Proof.
  split.
  - intros H. destruct (alookup k l) eqn:E; [now apply alookup_key in E | congruence].
  - intros H E. apply alookup_None in E. tauto.
Qed.

(** * The nearest-neighbour search *)
Lemma nn_fold : forall (l : list (nat * option Q)) c0 m0,
  (forall c s, In (c, s) l -> s <> None) ->
  exists c m, fold_left nn_step l (c0, Some m0) = (c, Some m) /\
    ((c = c0 /\ m = m0) \/ exists s, In (c, Some s) l /\ (s == m)%Q) /\
    (m0 <= m)%Q /\ (forall c' s', In (c', Some s') l -> (s' <= m)%Q).
Proof.
  induction l as [|[c1 [s1|]] t IH]; intros c0 m0 Hs.
  - exists c0, m0. simpl. split; [reflexivity|]. split; [now left|]. split; [lra | tauto].
  - assert (Ht : forall c s, In (c, s) t -> s <> None) by (intros c s H; apply (Hs c s); now right).
    cbn [fold_left nn_step ogtb oeqb].
    destruct (negb (Qle_bool s1 m0)) eqn:E1.
    + apply negb_true_iff in E1. assert (L1 : ~ (s1 <= m0)%Q) by (intros L; apply Qle_bool_iff in L; congruence).
      destruct (IH c1 s1 Ht) as (c & m & E & Hc & Hm & Hall). exists c, m. split; [exact E|]. split; [|split].
      * right. destruct Hc as [[-> ->]|[s [Hin Hq]]]; [exists s1; split; [now left | reflexivity] | exists s; split; [now right | exact Hq]].
      * lra.
      * intros c' s' [H|H]; [inversion H; subst; exact Hm | now apply (Hall c')].
    + apply negb_false_iff in E1. apply Qle_bool_iff in E1.
      destruct (Qeq_bool s1 m0) eqn:E2.
      * apply Qeq_bool_iff in E2.
        destruct (IH (Nat.min c1 c0) m0 Ht) as (c & m & E & Hc & Hm & Hall). exists c, m. split; [exact E|]. split; [|split].
        -- destruct Hc as [[-> ->]|[s [Hin Hq]]].
           ++ destruct (Nat.min_dec c1 c0) as [Em|Em]; rewrite Em.
              ** right. exists s1. split; [now left | exact E2].
              ** now left.
           ++ right. exists s. split; [now right | exact Hq].
        -- exact Hm.
        -- intros c' s' [H|H]; [inversion H; subst; lra | now apply (Hall c')].
      * destruct (IH c0 m0 Ht) as (c & m & E & Hc & Hm & Hall). exists c, m. split; [exact E|]. split; [|split].
        -- destruct Hc as [[-> ->]|[s [Hin Hq]]]; [now left | right; exists s; split; [now right | exact Hq]].
        -- exact Hm.
        -- intros c' s' [H|H]; [inversion H; subst; lra | now apply (Hall c')].
  - exfalso. apply (Hs c1 None); [now left | reflexivity].
Qed.

(** The search over a non-empty list of finite similarities returns an element of the list whose similarity is
    the maximum; the stale initial [nn0] is irrelevant. *)
Lemma nn_search_spec : forall nn0 (l : list (nat * option Q)) nn mx,
  l <> [] -> (forall c s, In (c, s) l -> s <> None) ->
  nn_search nn0 l = (nn, mx) ->
  exists m, mx = Some m /\ (exists s, In (nn, Some s) l /\ (s == m)%Q) /\
            (forall c' s', In (c', Some s') l -> (s' <= m)%Q).
Proof.
  intros nn0 [|[c1 [s1|]] t] nn mx Hne Hs H; [congruence| |exfalso; apply (Hs c1 None); [now left | reflexivity]].
  unfold nn_search in H. cbn [fold_left nn_step ogtb] in H.
  assert (Ht : forall c s, In (c, s) t -> s <> None) by (intros c s Hin; apply (Hs c s); now right).
  destruct (nn_fold t c1 s1 Ht) as (c & m & E & Hc & Hm & Hall). rewrite E in H. inversion H; subst.
  exists m. split; [reflexivity|]. split.
  - destruct Hc as [[-> ->]|[s [Hin Hq]]]; [exists s1; split; [now left | reflexivity] | exists s; split; [now right | exact Hq]].
  - intros c' s' [Hin|Hin]; [inversion Hin; subst; exact Hm | now apply (Hall c')].
Qed.

(** * Accessors of the aggregate graph *)
Definition rowof (g : agraph) (x : nat) : nrow := match alookup x (ag_nb g) with Some r => r | None => [] end.
Definition nbw (g : agraph) (x y : nat) : option Q := alookup y (rowof g x).
Definition live (g : agraph) (x : nat) : Prop := alookup x (ag_nb g) <> None.
Definition pq (g : agraph) (x y : nat) : Q := getq (rowof g x) y.
Definition wo (g : agraph) (x : nat) : Q := getq (ag_wout g) x.
Definition wi (g : agraph) (x : nat) : Q := getq (ag_win g) x.
Definition den (g : agraph) (x y : nat) : Q := (wo g x * wi g y + wo g y * wi g x)%Q.
Definition simq (g : agraph) (x y : nat) : Q := (2 * pq g x y / den g x y)%Q.
Definition isnb (g : agraph) (x y : nat) : Prop := x <> y /\ nbw g x y <> None.

Lemma pq_nbw g x y : pq g x y = match nbw g x y with Some p => p | None => 0%Q end.
Proof. reflexivity. Qed.

Lemma nbw_live g x y : nbw g x y <> None -> live g x.
Proof. unfold nbw, rowof, live. destruct (alookup x (ag_nb g)); [congruence | simpl; congruence]. Qed.

(** Structural invariant of the aggregate graph. *)
Record GI (g : agraph) : Prop := {
  gi_sym : forall x y, nbw g x y = nbw g y x;
  gi_lt : forall x, live g x -> x < ag_next g;
  gi_pos : forall x y p, nbw g x y = Some p -> x <> y -> (0 < p)%Q;
  gi_w : forall x, live g x -> (0 < wo g x)%Q /\ (0 < wi g x)%Q;
  gi_fresh : forall x, ag_next g <= x -> alookup x (ag_wout g) = None /\ alookup x (ag_win g) = None }.

Lemma isnb_live g x y : GI g -> isnb g x y -> live g x /\ live g y.
Proof.
  intros HG [_ H]. split; [now apply nbw_live in H|]. rewrite (gi_sym g HG) in H. now apply nbw_live in H.
Qed.

Lemma den_pos g x y : GI g -> live g x -> live g y -> (0 < den g x y)%Q.
Proof.
  intros HG Hx Hy. destruct (gi_w g HG x Hx) as [A B]. destruct (gi_w g HG y Hy) as [C D]. unfold den.
  pose proof (Qmult_lt_0_compat _ _ A D). pose proof (Qmult_lt_0_compat _ _ C B). lra.
Qed.

Lemma den_sym g x y : (den g x y == den g y x)%Q.
Proof. unfold den. ring. Qed.

Lemma simq_sym g x y : GI g -> (simq g x y == simq g y x)%Q.
Proof. intros HG. unfold simq. rewrite !pq_nbw, (gi_sym g HG x y), (den_sym g x y). reflexivity. Qed.

Lemma simq_pos g x y : GI g -> isnb g x y -> (0 < simq g x y)%Q.
Proof.
  intros HG Hn. destruct (isnb_live g x y HG Hn) as [Hx Hy]. pose proof (den_pos g x y HG Hx Hy) as Hd.
  destruct Hn as [Hne Hn]. unfold simq. rewrite pq_nbw. destruct (nbw g x y) as [p|] eqn:E; [|congruence].
  pose proof (gi_pos g HG x y p E Hne) as Hp. apply Qlt_shift_div_l; [exact Hd | lra].
Qed.

(** In exact arithmetic [similarity] is [simq]. *)
Lemma sim_exact g x y : (0 < den g x y)%Q -> exists s, similarity exact g x y = Some s /\ (s == simq g x y)%Q.
Proof.
  intros Hd. unfold similarity. cbv beta zeta. cbn [r32 r64 exact].
  destruct (Qle_bool _ 0) eqn:E.
  - apply Qle_bool_iff in E. rewrite !Qred_correct in E. unfold den, wo, wi in Hd. lra.
  - eexists. split; [reflexivity|]. rewrite !Qred_correct. unfold simq, pq, den, wo, wi, rowof. reflexivity.
Qed.

(** * The merge *)
Definition comb (o1 o2 : option Q) : option Q :=
  match o1, o2 with
  | Some p, Some q => Some (Qred (p + q))
  | Some p, None => Some p
  | None, Some q => Some q
  | None, None => None
  end.

Lemma alookup_row_replace a b new rc y : a <> new -> b <> new -> alookup new rc = None ->
  alookup y (row_replace exact a b new rc) =
  if Nat.eqb y new then comb (alookup a rc) (alookup b rc) else if in2 a b y then None else alookup y rc.
Proof.
  intros Ha Hb Hn. unfold row_replace, not2.
  assert (Hnew : in2 a b new = false).
  { unfold in2. apply Nat.eqb_neq in Ha, Hb. rewrite Nat.eqb_sym in Ha. rewrite Nat.eqb_sym in Hb. now rewrite Ha, Hb. }
  destruct (alookup a rc) as [p|] eqn:Ea; destruct (alookup b rc) as [q|] eqn:Eb; cbn [comb];
    try (rewrite alookup_app, alookup_filter_not2, alookup_single;
         destruct (Nat.eqb y new) eqn:Ey;
         [apply Nat.eqb_eq in Ey; subst y; rewrite Hnew, Hn; reflexivity
         |destruct (in2 a b y); [reflexivity | now destruct (alookup y rc)]]).
  destruct (Nat.eqb y new) eqn:Ey; [apply Nat.eqb_eq in Ey; subst y; exact Hn|].
  unfold in2. destruct (Nat.eqb y a) eqn:E1; [apply Nat.eqb_eq in E1; subst y; exact Ea|].
  destruct (Nat.eqb y b) eqn:E2; [apply Nat.eqb_eq in E2; subst y; exact Eb | reflexivity].
Qed.

Lemma alookup_map_merge (rb' l : nrow) y :
  alookup y (map (fun p => match alookup (fst p) rb' with
                           | Some w => (fst p, r64 exact (snd p + w))
                           | None => p
                           end) l) =
  match alookup y l with
  | Some p => Some (match alookup y rb' with Some w => Qred (p + w) | None => p end)
  | None => None
  end.
Proof.
  induction l as [|[k v] t IH]; [reflexivity|]. cbn [map fst snd alookup r64 exact].
  destruct (alookup k rb') as [w|] eqn:E; cbn [alookup]; destruct (Nat.eqb y k) eqn:Ey; try exact IH;
    apply Nat.eqb_eq in Ey; subst y; now rewrite E.
Qed.

Lemma alookup_row_union a b ra rb y :
  alookup y (row_union exact a b ra rb) = if in2 a b y then None else comb (alookup y ra) (alookup y rb).
Proof.
  unfold row_union. cbv zeta. rewrite alookup_app, alookup_map_merge.
  rewrite (alookup_filter_key (fun k => negb (amem k (filter (not2 a b) ra)))).
  unfold amem, not2. rewrite !alookup_filter_not2.
  destruct (in2 a b y); [reflexivity|]. destruct (alookup y ra), (alookup y rb); reflexivity.
Qed.

(** The graph built by [ag_merge]. *)
Definition mg (g : agraph) (a b : nat) (ra rb : nrow) (s1 s2 : nat) : agraph :=
  let new := ag_next g in
  let others := filter (fun p => negb (Nat.eqb (fst p) a) && negb (Nat.eqb (fst p) b)) (ag_nb g) in
  {| ag_next := S new;
     ag_nb := map (fun p => (fst p, row_replace exact a b new (snd p))) others ++
              [(new, (new, self_weight exact a b ra rb) :: row_union exact a b ra rb)];
     ag_size := aremove b (aremove a (ag_size g)) ++ [(new, s1 + s2)];
     ag_wout := aremove b (aremove a (ag_wout g)) ++ [(new, r64 exact (getq (ag_wout g) a + getq (ag_wout g) b))];
     ag_win := aremove b (aremove a (ag_win g)) ++ [(new, r64 exact (getq (ag_win g) a + getq (ag_win g) b))] |}.

Lemma ag_merge_inv g a b g' : ag_merge exact g a b = Ok g' ->
  exists ra rb s1 s2, alookup a (ag_nb g) = Some ra /\ alookup b (ag_nb g) = Some rb /\
    alookup a (ag_size g) = Some s1 /\ alookup b (ag_size g) = Some s2 /\ a <> b /\ g' = mg g a b ra rb s1 s2.
Proof.
  unfold ag_merge. intros H.
  destruct (alookup a (ag_nb g)) as [ra|] eqn:E1; [|discriminate].
  destruct (alookup b (ag_nb g)) as [rb|] eqn:E2; [|discriminate].
  destruct (alookup a (ag_size g)) as [s1|] eqn:E3; [|discriminate].
  destruct (alookup b (ag_size g)) as [s2|] eqn:E4; [|discriminate].
  destruct (Nat.eqb a b) eqn:E5; [discriminate|]. apply Nat.eqb_neq in E5.
  exists ra, rb, s1, s2. inversion H. repeat split; auto.
Qed.

Lemma live_mg g a b ra rb s1 s2 x : GI g ->
  (live (mg g a b ra rb s1 s2) x <-> x = ag_next g \/ (live g x /\ x <> a /\ x <> b)).
Proof.
  intros HG. unfold live, mg. cbn [ag_nb]. rewrite alookup_app, alookup_mapv, alookup_filter_not2, alookup_single.
  unfold in2. destruct (Nat.eqb x (ag_next g)) eqn:En.
  - apply Nat.eqb_eq in En. split; [now left|]. intros _.
    destruct (option_map _ _); congruence.
  - apply Nat.eqb_neq in En. destruct (Nat.eqb x a) eqn:Ea; [|destruct (Nat.eqb x b) eqn:Eb]; cbn [orb option_map].
    + apply Nat.eqb_eq in Ea. split; [congruence | intros [H|(_ & H & _)]; congruence].
    + apply Nat.eqb_eq in Eb. split; [congruence | intros [H|(_ & _ & H)]; congruence].
    + apply Nat.eqb_neq in Ea, Eb. destruct (alookup x (ag_nb g)); cbn [option_map].
      * split; [intros _; right; repeat split; auto; congruence | congruence].
      * split; [congruence | intros [H|(H & _)]; congruence].
Qed.

Lemma rowof_mg g a b ra rb s1 s2 x : GI g ->
  rowof (mg g a b ra rb s1 s2) x =
  if Nat.eqb x (ag_next g) then (ag_next g, self_weight exact a b ra rb) :: row_union exact a b ra rb
  else if in2 a b x then []
  else match alookup x (ag_nb g) with Some rc => row_replace exact a b (ag_next g) rc | None => [] end.
Proof.
  intros HG. unfold rowof, mg. cbn [ag_nb]. rewrite alookup_app, alookup_mapv, alookup_filter_not2, alookup_single.
  destruct (Nat.eqb x (ag_next g)) eqn:En.
  - apply Nat.eqb_eq in En. subst x.
    assert (Hn : alookup (ag_next g) (ag_nb g) = None).
    { destruct (alookup (ag_next g) (ag_nb g)) eqn:E; [|reflexivity].
      assert (L : live g (ag_next g)) by (unfold live; congruence). apply (gi_lt g HG) in L. lia. }
    rewrite Hn. now destruct (in2 a b (ag_next g)).
  - destruct (in2 a b x); [reflexivity|]. now destruct (alookup x (ag_nb g)).
Qed.

Lemma nbw_mg g a b ra rb s1 s2 x y : GI g ->
  alookup a (ag_nb g) = Some ra -> alookup b (ag_nb g) = Some rb ->
  nbw (mg g a b ra rb s1 s2) x y =
  if Nat.eqb x (ag_next g) then
    (if Nat.eqb y (ag_next g) then Some (self_weight exact a b ra rb)
     else if in2 a b y then None else comb (nbw g a y) (nbw g b y))
  else if in2 a b x then None
  else if Nat.eqb y (ag_next g) then comb (nbw g x a) (nbw g x b)
  else if in2 a b y then None
  else nbw g x y.
Proof.
  intros HG Ea Eb. unfold nbw at 1. rewrite rowof_mg by exact HG.
  assert (La : a < ag_next g) by (apply (gi_lt g HG); unfold live; congruence).
  assert (Lb : b < ag_next g) by (apply (gi_lt g HG); unfold live; congruence).
  destruct (Nat.eqb x (ag_next g)) eqn:En.
  - cbn [alookup]. destruct (Nat.eqb y (ag_next g)); [reflexivity|].
    rewrite alookup_row_union. unfold nbw, rowof. now rewrite Ea, Eb.
  - destruct (in2 a b x); [reflexivity|].
    assert (Hnew : nbw g x (ag_next g) = None).
    { rewrite (gi_sym g HG). destruct (nbw g (ag_next g) x) eqn:E; [|reflexivity].
      assert (L : live g (ag_next g)) by (apply (nbw_live g _ x); congruence). apply (gi_lt g HG) in L. lia. }
    unfold nbw, rowof in *. destruct (alookup x (ag_nb g)) as [rc|] eqn:Ex.
    + rewrite alookup_row_replace by (try lia; exact Hnew). reflexivity.
    + cbn [alookup comb]. destruct (Nat.eqb y (ag_next g)); [reflexivity|]. now destruct (in2 a b y).
Qed.

Lemma wo_mg g a b ra rb s1 s2 x : GI g -> a < ag_next g -> b < ag_next g -> x <> a -> x <> b ->
  wo (mg g a b ra rb s1 s2) x = if Nat.eqb x (ag_next g) then Qred (wo g a + wo g b) else wo g x.
Proof.
  intros HG La Lb Ha Hb. unfold wo, getq, mg. cbn [ag_wout r64 exact].
  rewrite alookup_app, !alookup_aremove_neq, alookup_single by assumption.
  destruct (Nat.eqb x (ag_next g)) eqn:En.
  - apply Nat.eqb_eq in En. subst x. destruct (gi_fresh g HG (ag_next g) (le_n _)) as [F _]. now rewrite F.
  - now destruct (alookup x (ag_wout g)).
Qed.

Lemma wi_mg g a b ra rb s1 s2 x : GI g -> a < ag_next g -> b < ag_next g -> x <> a -> x <> b ->
  wi (mg g a b ra rb s1 s2) x = if Nat.eqb x (ag_next g) then Qred (wi g a + wi g b) else wi g x.
Proof.
  intros HG La Lb Ha Hb. unfold wi, getq, mg. cbn [ag_win r64 exact].
  rewrite alookup_app, !alookup_aremove_neq, alookup_single by assumption.
  destruct (Nat.eqb x (ag_next g)) eqn:En.
  - apply Nat.eqb_eq in En. subst x. destruct (gi_fresh g HG (ag_next g) (le_n _)) as [_ F]. now rewrite F.
  - now destruct (alookup x (ag_win g)).
Qed.

Lemma in2_false a b x : in2 a b x = false <-> x <> a /\ x <> b.
Proof.
  unfold in2. rewrite orb_false_iff, !Nat.eqb_neq. tauto.
Qed.

Lemma Some_inj {A} (x y : A) : Some x = Some y -> x = y.
Proof. congruence. Qed.

Lemma comb_pos o1 o2 r : (forall p, o1 = Some p -> (0 < p)%Q) -> (forall q, o2 = Some q -> (0 < q)%Q) ->
  comb o1 o2 = Some r -> (0 < r)%Q.
Proof.
  intros H1 H2 H. destruct o1 as [p|], o2 as [q|]; unfold comb in H; try discriminate; apply Some_inj in H; rewrite <- H.
  - rewrite Qred_correct. pose proof (H1 p eq_refl). pose proof (H2 q eq_refl). lra.
  - now apply H1.
  - now apply H2.
Qed.

Lemma GI_mg g a b ra rb s1 s2 : GI g ->
  alookup a (ag_nb g) = Some ra -> alookup b (ag_nb g) = Some rb -> GI (mg g a b ra rb s1 s2).
Proof.
  intros HG Ea Eb.
  assert (La : a < ag_next g) by (apply (gi_lt g HG); unfold live; congruence).
  assert (Lb : b < ag_next g) by (apply (gi_lt g HG); unfold live; congruence).
  constructor.
  - intros x y. rewrite !nbw_mg by assumption.
    destruct (Nat.eqb x (ag_next g)) eqn:Ex, (Nat.eqb y (ag_next g)) eqn:Ey, (in2 a b x), (in2 a b y);
      try reflexivity; try (f_equal; apply (gi_sym g HG)). apply (gi_sym g HG).
  - intros x H. apply live_mg in H; [|exact HG]. cbn [mg ag_next]. destruct H as [->|[H _]]; [lia|].
    apply (gi_lt g HG) in H. lia.
  - intros x y p H Hne. rewrite nbw_mg in H by assumption.
    destruct (Nat.eqb x (ag_next g)) eqn:Ex.
    + destruct (Nat.eqb y (ag_next g)) eqn:Ey.
      { apply Nat.eqb_eq in Ex, Ey. congruence. }
      destruct (in2 a b y) eqn:Iy; [discriminate|]. apply in2_false in Iy.
      apply (comb_pos _ _ _ (fun p E => gi_pos g HG a y p E (not_eq_sym (proj1 Iy)))
                            (fun p E => gi_pos g HG b y p E (not_eq_sym (proj2 Iy))) H).
    + destruct (in2 a b x) eqn:Ix; [discriminate|]. apply in2_false in Ix.
      destruct (Nat.eqb y (ag_next g)) eqn:Ey.
      * apply (comb_pos _ _ _ (fun p E => gi_pos g HG x a p E (proj1 Ix))
                              (fun p E => gi_pos g HG x b p E (proj2 Ix)) H).
      * destruct (in2 a b y); [discriminate|]. apply (gi_pos g HG x y p H Hne).
  - intros x H. apply live_mg in H; [|exact HG]. destruct H as [->|(H & Ha & Hb)].
    + rewrite wo_mg, wi_mg by (try assumption; lia). rewrite Nat.eqb_refl, !Qred_correct.
      assert (L1 : live g a) by (unfold live; congruence). assert (L2 : live g b) by (unfold live; congruence).
      destruct (gi_w g HG a L1), (gi_w g HG b L2). split; lra.
    + rewrite wo_mg, wi_mg by assumption.
      assert (En : Nat.eqb x (ag_next g) = false) by (apply Nat.eqb_neq; apply (gi_lt g HG) in H; lia).
      rewrite En. now apply (gi_w g HG).
  - intros x Hx. cbn [mg ag_next] in Hx. unfold mg. cbn [ag_wout ag_win].
    rewrite !alookup_app, !alookup_aremove_neq, !alookup_single by lia.
    assert (En : Nat.eqb x (ag_next g) = false) by (apply Nat.eqb_neq; lia). rewrite En.
    destruct (gi_fresh g HG x) as [F1 F2]; [lia|]. now rewrite F1, F2.
Qed.

(** Similarities between clusters that are not involved in the merge are unchanged. *)
Lemma simq_mg_old g a b ra rb s1 s2 x y : GI g ->
  alookup a (ag_nb g) = Some ra -> alookup b (ag_nb g) = Some rb ->
  x <> a -> x <> b -> x <> ag_next g -> y <> a -> y <> b -> y <> ag_next g ->
  nbw (mg g a b ra rb s1 s2) x y = nbw g x y /\ simq (mg g a b ra rb s1 s2) x y = simq g x y.
Proof.
  intros HG Ea Eb Xa Xb Xn Ya Yb Yn.
  assert (La : a < ag_next g) by (apply (gi_lt g HG); unfold live; congruence).
  assert (Lb : b < ag_next g) by (apply (gi_lt g HG); unfold live; congruence).
  assert (N : nbw (mg g a b ra rb s1 s2) x y = nbw g x y).
  { rewrite nbw_mg by assumption.
    apply Nat.eqb_neq in Xn, Yn. rewrite Xn, Yn.
    assert (I1 : in2 a b x = false) by (apply in2_false; tauto).
    assert (I2 : in2 a b y = false) by (apply in2_false; tauto). now rewrite I1, I2. }
  split; [exact N|]. unfold simq, den. rewrite !pq_nbw, N, !wo_mg, !wi_mg by assumption.
  apply Nat.eqb_neq in Xn, Yn. now rewrite Xn, Yn.
Qed.

Lemma den_mg_new g a b ra rb s1 s2 c : GI g ->
  alookup a (ag_nb g) = Some ra -> alookup b (ag_nb g) = Some rb ->
  c <> a -> c <> b -> c <> ag_next g ->
  (den (mg g a b ra rb s1 s2) (ag_next g) c == den g a c + den g b c)%Q.
Proof.
  intros HG Ea Eb Ca Cb Cn.
  assert (La : a < ag_next g) by (apply (gi_lt g HG); unfold live; congruence).
  assert (Lb : b < ag_next g) by (apply (gi_lt g HG); unfold live; congruence).
  unfold den. rewrite !wo_mg, !wi_mg by (try assumption; lia).
  apply Nat.eqb_neq in Cn. rewrite Cn, Nat.eqb_refl, !Qred_correct. ring.
Qed.

(** The similarity between the new cluster and a neighbour c is bounded by any bound on the similarities
    of its two halves with c (those that exist). *)
Lemma merge_similarity_le g a b ra rb s1 s2 c s : GI g ->
  alookup a (ag_nb g) = Some ra -> alookup b (ag_nb g) = Some rb ->
  isnb (mg g a b ra rb s1 s2) (ag_next g) c ->
  (isnb g a c -> (simq g a c <= s)%Q) -> (isnb g b c -> (simq g b c <= s)%Q) ->
  (simq (mg g a b ra rb s1 s2) (ag_next g) c <= s)%Q.
Proof.
  intros HG Ea Eb [Hne Hn] Ha Hb.
  assert (La : live g a) by (unfold live; congruence). assert (Lb : live g b) by (unfold live; congruence).
  rewrite nbw_mg in Hn by assumption. rewrite Nat.eqb_refl in Hn.
  assert (Cn : Nat.eqb c (ag_next g) = false) by (apply Nat.eqb_neq; congruence). rewrite Cn in Hn.
  destruct (in2 a b c) eqn:Ic; [congruence|]. apply in2_false in Ic. destruct Ic as [Ca Cb].
  apply Nat.eqb_neq in Cn.
  assert (Lc : live g c).
  { destruct (nbw g a c) eqn:E1.
    - apply (nbw_live g c a). rewrite (gi_sym g HG). congruence.
    - destruct (nbw g b c) eqn:E2; [|now cbn in Hn]. apply (nbw_live g c b). rewrite (gi_sym g HG). congruence. }
  pose proof (den_pos g a c HG La Lc) as D1. pose proof (den_pos g b c HG Lb Lc) as D2.
  unfold simq at 1. rewrite (den_mg_new g a b ra rb s1 s2 c HG Ea Eb Ca Cb Cn), pq_nbw, nbw_mg by assumption.
  rewrite Nat.eqb_refl. apply Nat.eqb_neq in Cn. rewrite Cn.
  assert (Ic : in2 a b c = false) by (apply in2_false; tauto). rewrite Ic.
  unfold isnb, simq in Ha, Hb. rewrite pq_nbw in Ha, Hb.
  destruct (nbw g a c) as [p|] eqn:E1; destruct (nbw g b c) as [q|] eqn:E2; cbn [comb] in *.
  - rewrite Qred_correct.
    assert (E : (2 * (p + q) == 2 * p + 2 * q)%Q) by ring. rewrite E.
    apply mediant_le; [exact D1 | exact D2 | apply Ha | apply Hb]; split; congruence.
  - pose proof (gi_pos g HG a c p E1 (not_eq_sym Ca)) as Pp.
    apply mediant_le_single; [exact D1 | lra | lra | apply Ha; split; congruence].
  - pose proof (gi_pos g HG b c q E2 (not_eq_sym Cb)) as Pq.
    rewrite (Qplus_comm (den g a c)).
    apply mediant_le_single; [exact D2 | lra | lra | apply Hb; split; congruence].
  - congruence.
Qed.

(** A cluster x that survives the merge: every bound on its similarities survives too. *)
Lemma old_sim_le g a b ra rb s1 s2 x s : GI g ->
  alookup a (ag_nb g) = Some ra -> alookup b (ag_nb g) = Some rb ->
  live g x -> x <> a -> x <> b ->
  (forall y, isnb g x y -> (simq g x y <= s)%Q) ->
  forall y, isnb (mg g a b ra rb s1 s2) x y -> (simq (mg g a b ra rb s1 s2) x y <= s)%Q.
Proof.
  intros HG Ea Eb Lx Xa Xb Hs y [Hne Hn].
  pose proof (GI_mg g a b ra rb s1 s2 HG Ea Eb) as HG'.
  assert (Xn : x <> ag_next g) by (apply (gi_lt g HG) in Lx; lia).
  destruct (Nat.eq_dec y (ag_next g)) as [->|Yn].
  - rewrite (simq_sym _ x (ag_next g) HG'). apply merge_similarity_le; try assumption.
    + split; [congruence|]. rewrite (gi_sym _ HG'). exact Hn.
    + intros [_ Ha]. rewrite (simq_sym g a x HG). apply Hs. split; [exact Xa|]. now rewrite (gi_sym g HG).
    + intros [_ Hb]. rewrite (simq_sym g b x HG). apply Hs. split; [exact Xb|]. now rewrite (gi_sym g HG).
  - assert (Iy : in2 a b y = false).
    { rewrite nbw_mg in Hn by assumption.
      apply Nat.eqb_neq in Xn, Yn. rewrite Xn, Yn in Hn.
      assert (I1 : in2 a b x = false) by (apply in2_false; tauto). rewrite I1 in Hn.
      destruct (in2 a b y); [congruence | reflexivity]. }
    apply in2_false in Iy. destruct Iy as [Ya Yb].
    destruct (simq_mg_old g a b ra rb s1 s2 x y HG Ea Eb Xa Xb Xn Ya Yb Yn) as [N S].
    rewrite S. apply Hs. split; [exact Hne|]. now rewrite <- N.
Qed.

(** * The invariant of the main loop *)
Definition pair_ok (g : agraph) (x z : nat) : Prop :=
  live g x -> live g z -> isnb g x z /\ forall y, isnb g x y -> (simq g x y <= simq g x z)%Q.

Fixpoint chain_ok (g : agraph) (c : list nat) : Prop :=
  match c with
  | [] => True
  | z :: t => match t with x :: _ => pair_ok g x z | [] => True end /\ chain_ok g t
  end.

Definition cho (n : nat) (rows : dendrogram) (r : drow) : Prop :=
  child_height_ok n rows (r_height r) (r_left r) = true /\ child_height_ok n rows (r_height r) (r_right r) = true.

Record SI (n : nat) (g : agraph) (chain : list nat) (rows : dendrogram) (comps : list (nat * nat)) : Prop := {
  si_g : GI g;
  si_next : ag_next g = n + length rows;
  si_chain : forall x, In x chain -> x < ag_next g;
  si_size : forall x, In x (akeys (ag_size g)) -> x < ag_next g;
  si_comps : forall x, In x (akeys comps) -> x < ag_next g;
  si_I3 : forall x, live g x -> n <= x ->
          exists r m, nth_error rows (x - n) = Some r /\ (0 < m)%Q /\ (r_height r == 1 / m)%Q /\
                      forall y, isnb g x y -> (simq g x y <= m)%Q;
  si_I4 : chain_ok g chain;
  si_mono : forall r, In r rows -> cho n rows r }.

Lemma child_height_ok_app n D E h c : child_height_ok n D h c = true -> child_height_ok n (D ++ E) h c = true.
Proof.
  unfold child_height_ok. destruct (Nat.ltb c n); [auto|].
  destruct (nth_error D (c - n)) eqn:E1; [|discriminate].
  rewrite nth_error_app1 by (apply nth_error_Some; congruence). now rewrite E1.
Qed.

Lemma chain_ok_ext g g' : ag_nb g = ag_nb g' -> ag_wout g = ag_wout g' -> ag_win g = ag_win g' ->
  forall c, chain_ok g c -> chain_ok g' c.
Proof.
  intros H1 H2 H3. induction c as [|z t IH]; [auto|]. cbn [chain_ok]. intros [P C]. split; [|now apply IH].
  destruct t as [|x t']; [exact I|].
  unfold pair_ok, live, isnb, nbw, rowof, simq, pq, den, wo, wi, rowof in *. rewrite <- H1, <- H2, <- H3. exact P.
Qed.

Lemma chain_ok_tail g z t : chain_ok g (z :: t) -> chain_ok g t.
Proof. cbn [chain_ok]. tauto. Qed.

(** start of a chain *)
Lemma SI_start n g rows comps node : SI n g [] rows comps -> In node (akeys (ag_size g)) -> SI n g [node] rows comps.
Proof.
  intros [HG Hnext Hchain Hsize Hcomps HI3 HI4 Hmono] Hin. constructor; try assumption.
  - intros x [<-|[]]. now apply Hsize.
  - cbn. tauto.
Qed.

(** a connected component is complete *)
Lemma SI_comp n g node chain rows comps s : SI n g (node :: chain) rows comps ->
  SI n {| ag_next := ag_next g; ag_nb := ag_nb g; ag_size := aremove node (ag_size g);
          ag_wout := ag_wout g; ag_win := ag_win g |} chain rows (comps ++ [(node, s)]).
Proof.
  intros [HG Hnext Hchain Hsize Hcomps HI3 HI4 Hmono]. constructor.
  - destruct HG as [G1 G2 G3 G4 G5]. constructor; assumption.
  - exact Hnext.
  - intros x H. apply Hchain. now right.
  - cbn [ag_size ag_next]. intros x H. apply akeys_aremove_In in H. now apply Hsize.
  - cbn [ag_next]. intros x H. rewrite akeys_app in H. apply in_app_iff in H. destruct H as [H|[<-|[]]].
    + now apply Hcomps.
    + apply Hchain. now left.
  - exact HI3.
  - apply chain_ok_tail in HI4. revert HI4. now apply chain_ok_ext.
  - exact Hmono.
Qed.

(** the nearest neighbour is pushed *)
Lemma SI_push n g node chain rows comps nn : SI n g (node :: chain) rows comps ->
  isnb g node nn -> (forall y, isnb g node y -> (simq g node y <= simq g node nn)%Q) ->
  SI n g (nn :: node :: chain) rows comps.
Proof.
  intros [HG Hnext Hchain Hsize Hcomps HI3 HI4 Hmono] Hn Hmax. constructor; try assumption.
  - intros x [<-|H]; [|now apply Hchain]. apply (gi_lt g HG). now apply (isnb_live g node nn).
  - cbn [chain_ok]. split; [|exact HI4]. intros _ _. split; assumption.
Qed.

Lemma chain_ok_mg g a b ra rb s1 s2 : GI g ->
  alookup a (ag_nb g) = Some ra -> alookup b (ag_nb g) = Some rb ->
  forall c, (forall x, In x c -> x < ag_next g) -> chain_ok g c -> chain_ok (mg g a b ra rb s1 s2) c.
Proof.
  intros HG Ea Eb. induction c as [|z t IH]; [auto|]. cbn [chain_ok]. intros Hlt [P C].
  split; [|apply IH; [intros x H; apply Hlt; now right | exact C]].
  destruct t as [|x t']; [exact I|].
  assert (Xn : x <> ag_next g) by (assert (x < ag_next g) by (apply Hlt; right; now left); lia).
  assert (Zn : z <> ag_next g) by (assert (z < ag_next g) by (apply Hlt; now left); lia).
  intros Lx Lz. apply live_mg in Lx, Lz; try exact HG.
  destruct Lx as [Lx|(Lx & Xa & Xb)]; [congruence|]. destruct Lz as [Lz|(Lz & Za & Zb)]; [congruence|].
  destruct (P Lx Lz) as [[Hne Hnb] Hmax].
  destruct (simq_mg_old g a b ra rb s1 s2 x z HG Ea Eb Xa Xb Xn Za Zb Zn) as [N S].
  split.
  - split; [exact Hne | now rewrite N].
  - rewrite S. now apply old_sim_le.
Qed.

(** the merge of a (top of the chain) with b (below it), at similarity m *)
Lemma SI_merge n g a b chain rows comps ra rb s1 s2 m h sz : SI n g (a :: b :: chain) rows comps ->
  alookup a (ag_nb g) = Some ra -> alookup b (ag_nb g) = Some rb ->
  isnb g a b -> (m == simq g a b)%Q -> (forall y, isnb g a y -> (simq g a y <= m)%Q) -> (h == 1 / m)%Q ->
  SI n (mg g a b ra rb s1 s2) chain (rows ++ [(a, b, h, sz)]) comps.
Proof.
  intros [HG Hnext Hchain Hsize Hcomps HI3 HI4 Hmono] Ea Eb Hab Hm Hmaxa Hh.
  pose proof (GI_mg g a b ra rb s1 s2 HG Ea Eb) as HG'.
  assert (La : live g a) by (unfold live; congruence). assert (Lb : live g b) by (unfold live; congruence).
  assert (Mpos : (0 < m)%Q) by (rewrite Hm; now apply simq_pos).
  assert (Hba : isnb g b a) by (destruct Hab as [H1 H2]; split; [congruence | now rewrite (gi_sym g HG)]).
  assert (Hmaxb : forall y, isnb g b y -> (simq g b y <= m)%Q).
  { cbn [chain_ok] in HI4. destruct HI4 as [P _]. destruct (P Lb La) as [_ Hmax].
    intros y Hy. rewrite Hm, (simq_sym g a b HG). now apply Hmax. }
  constructor.
  - exact HG'.
  - cbn [mg ag_next]. rewrite app_length. cbn [length]. lia.
  - cbn [mg ag_next]. intros x H. assert (x < ag_next g) by (apply Hchain; right; now right). lia.
  - cbn [mg ag_next ag_size]. intros x H. rewrite akeys_app in H. apply in_app_iff in H. destruct H as [H|[<-|[]]]; [|cbn [fst]; lia].
    apply akeys_aremove_In, akeys_aremove_In, Hsize in H. lia.
  - cbn [mg ag_next]. intros x H. apply Hcomps in H. lia.
  - intros x Lx Hx. apply live_mg in Lx; [|exact HG]. destruct Lx as [->|(Lx & Xa & Xb)].
    + exists (a, b, h, sz), m.
      replace (ag_next g - n) with (length rows) by lia.
      rewrite nth_error_app2, Nat.sub_diag by lia. split; [reflexivity|]. split; [exact Mpos|]. split; [exact Hh|].
      intros y Hy. apply merge_similarity_le; try assumption; [apply Hmaxa | apply Hmaxb].
    + destruct (HI3 x Lx Hx) as (r & mx & Er & Mx & Hr & Hmax). exists r, mx.
      split; [rewrite nth_error_app1 by (apply nth_error_Some; congruence); exact Er|].
      split; [exact Mx|]. split; [exact Hr|]. now apply old_sim_le.
  - apply chain_ok_mg; try assumption.
    + intros x H. apply Hchain. right; now right.
    + now apply chain_ok_tail, chain_ok_tail in HI4.
  - intros r H. apply in_app_iff in H. destruct H as [H|[<-|[]]].
    + destruct (Hmono r H) as [C1 C2]. split; now apply child_height_ok_app.
    + unfold cho. cbn [r_height r_left r_right fst snd].
      assert (K : forall c c', live g c -> isnb g c c' -> (m == simq g c c')%Q ->
                  child_height_ok n (rows ++ [(a, b, h, sz)]) h c = true).
      { intros c c' Lc Hcc Hmc. unfold child_height_ok. destruct (Nat.ltb c n) eqn:El; [reflexivity|].
        apply Nat.ltb_ge in El. destruct (HI3 c Lc El) as (r & mc & Er & Mc & Hr & Hmax).
        rewrite nth_error_app1 by (apply nth_error_Some; congruence). rewrite Er.
        apply Qle_bool_iff. rewrite Hr, Hh. apply inv_le_inv; [exact Mpos|]. rewrite Hmc. now apply Hmax. }
      split; [apply (K a b La Hab Hm) | apply (K b a Lb Hba)]. now rewrite Hm, (simq_sym g a b HG).
Qed.

(** * The search, in terms of the graph *)
Lemma nbrs_isnb g node row c : alookup node (ag_nb g) = Some row ->
  (In c (filter (fun c => negb (Nat.eqb c node)) (akeys row)) <-> isnb g node c).
Proof.
  intros Er. rewrite filter_In, negb_true_iff, Nat.eqb_neq. unfold isnb, nbw, rowof. rewrite Er.
  rewrite alookup_not_None_key. split; intros [H1 H2]; split; auto.
Qed.

Lemma search_g g node row nn0 nn mx : GI g -> alookup node (ag_nb g) = Some row ->
  filter (fun c => negb (Nat.eqb c node)) (akeys row) <> [] ->
  nn_search nn0 (map (fun c => (c, similarity exact g node c))
                     (filter (fun c => negb (Nat.eqb c node)) (akeys row))) = (nn, mx) ->
  isnb g node nn /\ exists m, mx = Some m /\ (m == simq g node nn)%Q /\
                              forall y, isnb g node y -> (simq g node y <= m)%Q.
Proof.
  intros HG Er Hne Hs.
  assert (Hsim : forall c, isnb g node c -> exists s, similarity exact g node c = Some s /\ (s == simq g node c)%Q).
  { intros c Hc. apply sim_exact. destruct (isnb_live g node c HG Hc). now apply den_pos. }
  apply nn_search_spec in Hs.
  - destruct Hs as (m & -> & (s & Hin & Hsm) & Hall).
    apply in_map_iff in Hin. destruct Hin as (c & Hc & Hcin).
    assert (c = nn) by congruence. subst c.
    assert (Es : similarity exact g node nn = Some s) by congruence.
    apply (nbrs_isnb g node row nn Er) in Hcin.
    destruct (Hsim nn Hcin) as (s' & Es' & Hs'). rewrite Es in Es'. apply Some_inj in Es'. subst s'.
    split; [exact Hcin|]. exists m. split; [reflexivity|]. split; [now rewrite <- Hsm|].
    intros y Hy. destruct (Hsim y Hy) as (sy & Esy & Hsy). rewrite <- Hsy. apply (Hall y).
    apply in_map_iff. exists y. split; [now rewrite Esy|]. now apply (nbrs_isnb g node row y Er).
  - destruct (filter _ (akeys row)); [congruence | discriminate].
  - intros c s Hin. apply in_map_iff in Hin. destruct Hin as (c' & Hc & Hcin).
    apply (nbrs_isnb g node row c' Er) in Hcin. destruct (Hsim c' Hcin) as (s' & Es' & _). congruence.
Qed.

(** * One step of the loop *)
Definition SIs (n : nat) (st : Paris.pstate) : Prop := SI n (p_ag st) (p_chain st) (p_rows st) (p_comps st).

Lemma Running_inj st1 st2 : Running st1 = Running st2 -> st1 = st2.
Proof. congruence. Qed.

Lemma step_SI n st st' : SIs n st -> paris_step exact false st = Running st' -> SIs n st'.
Proof.
  unfold SIs. intros HS H. unfold paris_step in H. cbv zeta in H.
  destruct (p_chain st) as [|node chain] eqn:Ec.
  - destruct (ag_size (p_ag st)) as [|[node sz] t] eqn:Es; [discriminate|].
    apply Running_inj in H. subst st'. cbn [p_ag p_chain p_rows p_comps].
    apply SI_start; [exact HS|]. rewrite Es. now left.
  - destruct (alookup node (ag_nb (p_ag st))) as [row|] eqn:Er; [|discriminate].
    destruct (filter (fun c => negb (Nat.eqb c node)) (akeys row)) as [|c0 nbrs] eqn:En.
    + destruct (alookup node (ag_size (p_ag st))) as [s|]; [|discriminate].
      apply Running_inj in H. subst st'. cbn [p_ag p_chain p_rows p_comps]. now apply SI_comp.
    + destruct (nn_search _ _) as [nn mx] eqn:Es.
      rewrite <- En in Es. apply (search_g (p_ag st) node row) in Es;
        [|exact (si_g _ _ _ _ _ HS) | exact Er | rewrite En; discriminate].
      destruct Es as (Hnn & m & -> & Hm & Hmax).
      assert (Hmax' : forall y, isnb (p_ag st) node y -> (simq (p_ag st) node y <= simq (p_ag st) node nn)%Q)
        by (intros y Hy; rewrite <- Hm; now apply Hmax).
      destruct chain as [|last chain'].
      * apply Running_inj in H. subst st'. cbn [p_ag p_chain p_rows p_comps]. now apply SI_push.
      * destruct (Nat.eqb last nn) eqn:El.
        -- apply Nat.eqb_eq in El. subst last.
           destruct (alookup node (ag_size (p_ag st))) as [s1|]; [|discriminate].
           destruct (alookup nn (ag_size (p_ag st))) as [s2|]; [|discriminate].
           destruct (ag_merge exact (p_ag st) node nn) as [g'|e] eqn:Em; [|discriminate].
           apply Running_inj in H. subst st'. cbn [p_ag p_chain p_rows p_comps].
           apply ag_merge_inv in Em. destruct Em as (ra & rb & t1 & t2 & Ea & Eb & _ & _ & _ & ->).
           apply (SI_merge n (p_ag st) node nn chain' (p_rows st) (p_comps st) ra rb t1 t2 m); try assumption.
           apply Qred_correct.
        -- apply Running_inj in H. subst st'. cbn [p_ag p_chain p_rows p_comps]. now apply SI_push.
Qed.

Lemma step_finished st st' : paris_step exact false st = Finished st' -> st' = st.
Proof.
  unfold paris_step. cbv zeta. intros H.
  destruct (p_chain st) as [|node chain].
  - destruct (ag_size (p_ag st)) as [|[node sz] t]; [congruence | discriminate].
  - destruct (alookup node (ag_nb (p_ag st))) as [row|]; [|discriminate].
    destruct (filter (fun c => negb (Nat.eqb c node)) (akeys row)) as [|c0 nbrs].
    + destruct (alookup node (ag_size (p_ag st))); discriminate.
    + destruct (nn_search _ _) as [nn mx]. destruct chain as [|last chain']; [discriminate|].
      destruct (Nat.eqb last nn); [|discriminate].
      destruct (alookup node (ag_size (p_ag st))); [|discriminate].
      destruct (alookup nn (ag_size (p_ag st))); [|discriminate].
      destruct (ag_merge exact (p_ag st) node nn); discriminate.
Qed.

Lemma run_SI n : forall fuel st st', SIs n st -> paris_run exact false fuel st = Some (Ok st') -> SIs n st'.
Proof.
  induction fuel as [|f IH]; intros st st' HS H; [discriminate|]. cbn [paris_run] in H.
  destruct (paris_step exact false st) as [st1|st1|e] eqn:E.
  - apply (IH st1 st'); [now apply (step_SI n st) | exact H].
  - apply step_finished in E. subst st1. assert (st = st') by congruence. now subst.
  - discriminate.
Qed.

(** * The initial graph *)

(* input of AggregateGraph: stored entries of a symmetric matrix with positive weights, one entry per position,
   indices < n; positive node weights (what get_probs returns for 'uniform', and for 'degree' when no node is
   isolated) *)
Definition graph_ok (n : nat) (G : entries) : Prop :=
  NoDup (map (fun e => (e_i e, e_j e)) G) /\
  (forall i j w, In (i, j, w) G -> In (j, i, w) G /\ i < n /\ j < n /\ (0 < w)%Q).
Definition weights_ok (n : nat) (w : list Q) : Prop := length w = n /\ (forall q, In q w -> (0 < q)%Q).

Lemma akeys_map_seq {A} (f : nat -> A) l : akeys (map (fun i => (i, f i)) l) = l.
Proof. unfold akeys. rewrite map_map. cbn [fst]. apply map_id. Qed.

Lemma alookup_map_seq_lt {A} (f : nat -> A) n x : x < n -> alookup x (map (fun i => (i, f i)) (seq 0 n)) = Some (f x).
Proof.
  intros H. apply In_alookup.
  - rewrite akeys_map_seq. apply seq_NoDup.
  - apply in_map_iff. exists x. split; [reflexivity|]. apply in_seq. lia.
Qed.

Lemma alookup_map_seq_ge {A} (f : nat -> A) n x : n <= x -> alookup x (map (fun i => (i, f i)) (seq 0 n)) = None.
Proof. intros H. apply alookup_None. rewrite akeys_map_seq. rewrite in_seq. lia. Qed.

Lemma alookup_combine_lt (w : list Q) n x : length w = n -> x < n ->
  exists q, alookup x (combine (seq 0 n) w) = Some q /\ In q w.
Proof.
  intros Hl H.
  assert (K : akeys (combine (seq 0 n) w) = seq 0 n) by (apply map_fst_combine; rewrite seq_length; lia).
  destruct (In_key_alookup x (combine (seq 0 n) w)) as [q Eq]; [rewrite K; apply in_seq; lia|].
  exists q. split; [exact Eq|]. apply alookup_In in Eq. now apply in_combine_r in Eq.
Qed.

Lemma alookup_combine_ge (w : list Q) n x : length w = n -> n <= x -> alookup x (combine (seq 0 n) w) = None.
Proof.
  intros Hl H. apply alookup_None.
  assert (K : akeys (combine (seq 0 n) w) = seq 0 n) by (apply map_fst_combine; rewrite seq_length; lia).
  rewrite K, in_seq. lia.
Qed.

Lemma init_row_some G x y w tw : NoDup (map (fun e => (e_i e, e_j e)) G) -> In (x, y, w) G ->
  alookup y (map (fun e => (e_j e, r64 exact (e_v e / tw))) (filter (fun e => Nat.eqb (e_i e) x) G)) =
  Some (r64 exact (w / tw)).
Proof.
  induction G as [|[[i j] v] G IH]; intros Hnd Hin; [destruct Hin|].
  cbn [map filter e_i e_j e_v fst snd] in *. inversion Hnd as [|? ? Hn Hnd']; subst.
  destruct Hin as [Hin|Hin].
  - assert (i = x /\ j = y /\ v = w) as (-> & -> & ->) by (repeat split; congruence).
    rewrite Nat.eqb_refl. cbn [map alookup e_j e_v fst snd]. now rewrite Nat.eqb_refl.
  - destruct (Nat.eqb i x) eqn:Ei.
    + cbn [map alookup e_j e_v fst snd]. destruct (Nat.eqb y j) eqn:Ej.
      * exfalso. apply Hn. apply Nat.eqb_eq in Ei, Ej. subst. apply in_map_iff. exists (x, j, w). split; [reflexivity | exact Hin].
      * now apply IH.
    + now apply IH.
Qed.

Lemma init_row_in G x y v tw :
  alookup y (map (fun e => (e_j e, r64 exact (e_v e / tw))) (filter (fun e => Nat.eqb (e_i e) x) G)) = Some v ->
  exists w, In (x, y, w) G /\ v = r64 exact (w / tw).
Proof.
  intros H. apply alookup_In in H. apply in_map_iff in H. destruct H as ([[i j] w] & E & Hin).
  apply filter_In in Hin. destruct Hin as [Hin Ei]. cbn [e_i e_j e_v fst snd] in *. apply Nat.eqb_eq in Ei.
  exists w. assert (j = y /\ r64 exact (w / tw) = v) as [-> <-] by (split; congruence). subst i. split; [exact Hin | reflexivity].
Qed.

Lemma qsumr_nonneg l : (forall q, In q l -> (0 < q)%Q) -> (0 <= qsumr l)%Q.
Proof.
  induction l as [|a l IH]; intros H; [cbn; lra|]. cbn [qsumr fold_right]. rewrite Qred_correct.
  assert (0 < a)%Q by (apply H; now left). assert (0 <= qsumr l)%Q by (apply IH; intros q Hq; apply H; now right).
  unfold qsumr in *. lra.
Qed.

Lemma total_pos n G i j w : graph_ok n G -> In (i, j, w) G -> (0 < total G)%Q.
Proof.
  intros [_ HG] Hin. unfold total.
  assert (Hp : forall q, In q (map e_v G) -> (0 < q)%Q).
  { intros q Hq. apply in_map_iff in Hq. destruct Hq as ([[i' j'] w'] & <- & Hin'). now apply HG in Hin'. }
  destruct G as [|e G]; [destruct Hin|]. cbn [map qsumr fold_right]. rewrite Qred_correct.
  assert (0 < e_v e)%Q by (apply Hp; now left).
  assert (0 <= qsumr (map e_v G))%Q by (apply qsumr_nonneg; intros q Hq; apply Hp; now right).
  unfold qsumr in *. lra.
Qed.

Lemma nbw_init_some n G wout win x y w : graph_ok n G -> In (x, y, w) G ->
  nbw (ag_init exact n G wout win) x y = Some (r64 exact (w / r32 exact (total G))).
Proof.
  intros HG Hin. destruct HG as [Hnd HG]. destruct (HG x y w Hin) as (_ & Hx & _).
  unfold nbw, rowof, ag_init. cbn [ag_nb]. rewrite alookup_map_seq_lt by exact Hx. now apply init_row_some.
Qed.

Lemma nbw_init_in n G wout win x y v : nbw (ag_init exact n G wout win) x y = Some v ->
  x < n /\ exists w, In (x, y, w) G /\ v = r64 exact (w / r32 exact (total G)).
Proof.
  unfold nbw, rowof, ag_init. cbn [ag_nb]. intros H. destruct (lt_dec x n) as [L|L].
  - rewrite alookup_map_seq_lt in H by exact L. split; [exact L|]. now apply init_row_in.
  - rewrite alookup_map_seq_ge in H by lia. discriminate.
Qed.

Lemma live_init n G wout win x : live (ag_init exact n G wout win) x -> x < n.
Proof.
  unfold live, ag_init. cbn [ag_nb]. intros H. destruct (lt_dec x n) as [L|L]; [exact L|].
  rewrite alookup_map_seq_ge in H by lia. congruence.
Qed.

Lemma GI_init n G wout win : graph_ok n G -> weights_ok n wout -> weights_ok n win ->
  GI (ag_init exact n G wout win).
Proof.
  intros HG [Lo Po] [Li Pi]. constructor.
  - intros x y. destruct (nbw (ag_init exact n G wout win) x y) as [v|] eqn:E1.
    + apply nbw_init_in in E1. destruct E1 as (_ & w & Hin & ->).
      apply (proj2 HG) in Hin. destruct Hin as (Hin & _). symmetry. now apply nbw_init_some.
    + destruct (nbw (ag_init exact n G wout win) y x) as [v|] eqn:E2; [|reflexivity].
      apply nbw_init_in in E2. destruct E2 as (_ & w & Hin & ->).
      apply (proj2 HG) in Hin. destruct Hin as (Hin & _).
      rewrite (nbw_init_some n G wout win x y w HG Hin) in E1. discriminate.
  - intros x H. apply live_init in H. exact H.
  - intros x y p H _. apply nbw_init_in in H. destruct H as (_ & w & Hin & ->).
    pose proof (total_pos n G x y w HG Hin) as T. apply (proj2 HG) in Hin. destruct Hin as (_ & _ & _ & W).
    cbn [r32 r64 exact]. rewrite !Qred_correct. apply Qlt_shift_div_l; [exact T | lra].
  - intros x H. apply live_init in H. unfold wo, wi, getq, ag_init. cbn [ag_wout ag_win].
    destruct (alookup_combine_lt wout n x Lo H) as (q1 & -> & I1).
    destruct (alookup_combine_lt win n x Li H) as (q2 & -> & I2). split; [now apply Po | now apply Pi].
  - intros x H. cbn [ag_init ag_next] in H. unfold ag_init. cbn [ag_wout ag_win].
    split; now apply alookup_combine_ge.
Qed.

Lemma SI_init n G wout win : graph_ok n G -> weights_ok n wout -> weights_ok n win ->
  SIs n (paris_init (ag_init exact n G wout win)).
Proof.
  intros HG Ho Hi. unfold SIs, paris_init. cbn [p_ag p_chain p_rows p_comps]. constructor.
  - now apply GI_init.
  - cbn. lia.
  - intros x [].
  - unfold ag_init. cbn [ag_size ag_next]. intros x H. rewrite akeys_map_seq in H. apply in_seq in H. lia.
  - intros x [].
  - intros x H Hx. apply live_init in H. lia.
  - exact I.
  - intros r [].
Qed.

(** * The rows that join the connected components *)
Lemma join_comps_spec hinf : forall cs node csz next r, In r (join_comps hinf node csz next cs) ->
  r_height r = hinf /\ (r_left r = node \/ r_left r < next + length cs) /\ In (r_right r) (akeys cs).
Proof.
  induction cs as [|[nx ns] rest IH]; intros node csz next r H; [destruct H|].
  cbn [join_comps] in H. destruct H as [<-|H].
  - cbn. auto.
  - apply IH in H. destruct H as (Hh & Hl & Hr). split; [exact Hh|]. split.
    + right. cbn [length]. destruct Hl as [->|Hl]; lia.
    + right. exact Hr.
Qed.

Lemma join_comps_length hinf : forall cs node csz next, length (join_comps hinf node csz next cs) = length cs.
Proof. induction cs as [|[nx ns] rest IH]; intros; cbn [join_comps length]; [reflexivity | now rewrite IH]. Qed.

Lemma cho_bound n D h c : c < n + length D -> (forall r, In r D -> (r_height r <= h)%Q) ->
  child_height_ok n D h c = true.
Proof.
  intros Hc Hh. unfold child_height_ok. destruct (Nat.ltb c n) eqn:El; [reflexivity|]. apply Nat.ltb_ge in El.
  destruct (nth_error D (c - n)) as [r|] eqn:E.
  - apply Qle_bool_iff. apply Hh. now apply nth_error_In in E.
  - apply nth_error_None in E. lia.
Qed.

(** * The theorem *)
Theorem paris_reducible : forall hinf n G wout win D m t,
  graph_ok n G -> weights_ok n wout -> weights_ok n win ->
  paris_core exact false hinf n G wout win = Some (Ok (D, m, t)) ->
  (forall r, In r D -> (r_height r <= hinf)%Q) ->
  hmono n D = true.
Proof.
  intros hinf n G wout win D m t HG Ho Hi H Hinf. unfold paris_core in H.
  destruct (paris_run exact false (paris_fuel n) (paris_init (ag_init exact n G wout win))) as [[st|e]|] eqn:Erun;
    try discriminate.
  destruct (paris_finish hinf st) as [D0|e] eqn:Ef; [|discriminate].
  assert (D0 = D) by congruence. subst D0. clear H.
  apply (run_SI n) in Erun; [|now apply SI_init].
  destruct Erun as [HGI Hnext Hchain Hsize Hcomps HI3 HI4 Hmono].
  unfold paris_finish in Ef. destruct (rev (p_comps st)) as [|[node cs] rest] eqn:Erev; [discriminate|].
  assert (ED : D = p_rows st ++ join_comps hinf node cs (ag_next (p_ag st)) (removelast (p_comps st))) by congruence.
  clear Ef.
  assert (Ecomps : p_comps st = rev rest ++ [(node, cs)]).
  { rewrite <- (rev_involutive (p_comps st)), Erev. reflexivity. }
  rewrite Ecomps, removelast_last in ED.
  assert (Hlen : length D = length (p_rows st) + length (rev rest)).
  { rewrite ED, app_length, join_comps_length. reflexivity. }
  unfold hmono. apply forallb_forall. intros r Hr. apply andb_true_iff.
  rewrite ED in Hr. apply in_app_iff in Hr. destruct Hr as [Hr|Hr].
  - destruct (Hmono r Hr) as [C1 C2]. rewrite ED. split; now apply child_height_ok_app.
  - apply join_comps_spec in Hr. destruct Hr as (Hh & Hl & Hrr). rewrite Hh.
    assert (Kc : forall x, In x (akeys (p_comps st)) -> x < n + length D).
    { intros x Hx. apply Hcomps in Hx. lia. }
    split; apply cho_bound; try exact Hinf.
    + destruct Hl as [->|Hl]; [|lia]. apply Kc. rewrite Ecomps, akeys_app, in_app_iff. right. now left.
    + apply Kc. rewrite Ecomps, akeys_app, in_app_iff. now left.
Qed.

(** * Non-vacuity: a 6-node graph (two triangles-like blocks joined by an edge) *)
Definition ex_edges : list (nat * nat * Z) :=
  [(0, 1, 3%Z); (0, 2, 3%Z); (2, 3, 2%Z); (3, 4, 2%Z); (3, 5, 2%Z); (4, 5, 1%Z)].
Definition ex_G : entries :=
  flat_map (fun e => [(fst (fst e), snd (fst e), inject_Z (snd e)); (snd (fst e), fst (fst e), inject_Z (snd e))]) ex_edges.
Definition ex_w : list Q := [(6#26)%Q; (3#26)%Q; (5#26)%Q; (6#26)%Q; (3#26)%Q; (3#26)%Q].

Example paris_reducible_example :
  match paris_core exact false (1000#1)%Q 6 ex_G ex_w ex_w with
  | Some (Ok (D, _, _)) => hmono 6 D = true /\ length D = 5
  | _ => False
  end.
Proof. vm_compute. split; reflexivity. Qed.

(** Every hypothesis of [paris_reducible] holds on this example (so the theorem is not vacuous there). *)
Example paris_reducible_example_hyps :
  graph_ok 6 ex_G /\ weights_ok 6 ex_w /\
  match paris_core exact false (1000#1)%Q 6 ex_G ex_w ex_w with
  | Some (Ok (D, _, _)) => forallb (fun r => Qle_bool (r_height r) (1000#1)%Q) D = true
  | _ => False
  end.
Proof.
  split; [|split].
  - split.
    + vm_compute. repeat (constructor; [cbn; intuition discriminate|]). constructor.
    + intros i j w H. vm_compute in H.
      repeat (destruct H as [H|H];
              [assert (Ei : fst (fst (i, j, w)) = i) by reflexivity; assert (Ej : snd (fst (i, j, w)) = j) by reflexivity;
               assert (Ew : snd (i, j, w) = w) by reflexivity; rewrite <- H in Ei, Ej, Ew; cbn [fst snd] in Ei, Ej, Ew;
               subst i j w; split; [vm_compute; repeat (first [left; reflexivity | right]) | split; [lia | split; [lia | reflexivity]]]|]).
      destruct H.
  - split; [reflexivity|]. intros q H. vm_compute in H. intuition (subst q; reflexivity).
  - vm_compute. reflexivity.
Qed.

Print Assumptions paris_reducible.
Print Assumptions mediant_le.
Print Assumptions mediant_le_single.
Print Assumptions merge_similarity_le.
Print Assumptions nn_search_spec.

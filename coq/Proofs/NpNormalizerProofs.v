(** C15 about the terms regenerated from sknetwork/linalg/operators.py (Gen/NpNormalizer.v, language and semantics of
    Model/NpVec.v), over R: Normalizer(adjacency, regularization) applied to a vector or a matrix, directly (_matvec) or
    transposed (_rmatvec), for EVERY matrix (as an index function), every regularization >= 0 and every operand, gives the
    same result as the dense matrix it denotes,  N_ij = pinv(sum_j' A_ij' + reg) * (A_ij + reg / n_col). *)
From SKN Require Import Base.Util Model.Gnn Model.NpExpr Model.NpVec Gen.NpNormalizer Proofs.NpVecProofs Proofs.NpModularityProofs.
Set Warnings "-notation-overridden,-ambiguous-paths".
From Coq Require Import Reals Lra String.
Local Open Scope R_scope.
Local Open Scope string_scope.

Definition env_nv (n k : nat) (A : nat -> nat -> R) (reg : R) (m : nat) (x : nat -> R) : venv :=
  ("adjacency", WM n k A) :: ("regularization", WS reg) :: ("matrix", WV m x) :: nil.
Definition env_nm (n k : nat) (A : nat -> nat -> R) (reg : R) (r c : nat) (X : nat -> nat -> R) : venv :=
  ("adjacency", WM n k A) :: ("regularization", WS reg) :: ("matrix", WM r c X) :: nil.

(** the dense matrix denoted by Normalizer(A, reg) *)
Definition wnorm (k : nat) (A : nat -> nat -> R) (reg : R) (i : nat) : R :=
  pinvT Rdiv 0 1 Reqb (lsum (seq 0 k) (fun j => A i j * 1) + reg).
Definition ndense (k : nat) (A : nat -> nat -> R) (reg : R) (i j : nat) : R :=
  wnorm k A reg i * (A i j + reg / INR k).

Lemma lsum_diag (n i : nat) (p : R) (g : nat -> R) : (i < n)%nat ->
  lsum (seq 0 n) (fun j => (if Nat.eqb i j then p else 0) * g j) = p * g i.
Proof.
  intros Hi.
  rewrite (lsum_ext _ _ (fun j => (if Nat.eqb i j then 1 else 0) * (p * g j)))
    by (intros j _; destruct (Nat.eqb i j); ring).
  apply (lsum_pick (seq 0 n) i (fun j => p * g j)); [apply seq_NoDup | apply in_seq0; exact Hi].
Qed.

Lemma Rleb_false_pos reg : 0 < reg -> Rleb reg 0 = false.
Proof. intros H. destruct (Rleb reg 0) eqn:E; [apply Rleb_true in E; lra | reflexivity]. Qed.
Lemma Rleb_zero : Rleb 0 0 = true. Proof. apply Rleb_true. lra. Qed.

Ltac nz_eval Hr :=
  unfold rvdenote, env_nv, env_nm;
  repeat (cbn; rewrite ?Nat.eqb_refl);
  first [rewrite (Rleb_false_pos _ Hr) | rewrite Rleb_zero];
  repeat (cbn; rewrite ?Nat.eqb_refl).

(* ------------------------------------------------------------------------------------------- *)
(** * _matvec, vector operand *)
Theorem source_normalizer_matvec_1d n k A reg x :
  0 <= reg ->
  exists f, rvdenote (env_nv n k A reg k x) src_normalizer_matvec_1d = Some (WV n f) /\
            forall i, (i < n)%nat -> f i = lsum (seq 0 k) (fun j => ndense k A reg i j * x j).
Proof.
  intros [Hr|Hr].
  - eexists. split; [unfold src_normalizer_matvec_1d; nz_eval Hr; reflexivity|].
    intros i Hi. cbn beta.
    change (lsum (seq 0 n) (fun j => (if Nat.eqb i j then wnorm k A reg i else 0) *
              (lsum (seq 0 k) (fun j0 => A j j0 * x j0) + reg * (lsum (seq 0 k) x / INR k) * 1)) =
            lsum (seq 0 k) (fun j => ndense k A reg i j * x j)).
    rewrite (lsum_diag n i _ _ Hi). unfold ndense.
    rewrite (lsum_ext (seq 0 k) (fun j => wnorm k A reg i * (A i j + reg / INR k) * x j)
                      (fun j => wnorm k A reg i * (A i j * x j + reg / INR k * x j))) by (intros; ring).
    rewrite lsum_scale, lsum_add, lsum_scale. unfold Rdiv. ring.
  - subst reg. eexists. split; [unfold src_normalizer_matvec_1d; nz_eval Hr; reflexivity|].
    intros i Hi. cbn beta.
    change (lsum (seq 0 n) (fun j => (if Nat.eqb i j then wnorm k A 0 i else 0) * lsum (seq 0 k) (fun j0 => A j j0 * x j0)) =
            lsum (seq 0 k) (fun j => ndense k A 0 i j * x j)).
    rewrite (lsum_diag n i _ _ Hi). unfold ndense.
    rewrite (lsum_ext (seq 0 k) (fun j => wnorm k A 0 i * (A i j + 0 / INR k) * x j)
                      (fun j => wnorm k A 0 i * (A i j * x j))) by (intros; unfold Rdiv; ring).
    rewrite lsum_scale. reflexivity.
Qed.

(* ------------------------------------------------------------------------------------------- *)
(** * _rmatvec, vector operand *)
Theorem source_normalizer_rmatvec_1d n k A reg y :
  0 <= reg ->
  exists f, rvdenote (env_nv n k A reg n y) src_normalizer_rmatvec_1d = Some (WV k f) /\
            forall j, (j < k)%nat -> f j = lsum (seq 0 n) (fun i => ndense k A reg i j * y i).
Proof.
  intros [Hr|Hr].
  - eexists. split; [unfold src_normalizer_rmatvec_1d; nz_eval Hr; reflexivity|].
    intros j Hj. cbn beta.
    change (lsum (seq 0 n) (fun i => A i j * lsum (seq 0 n) (fun i' => (if Nat.eqb i i' then wnorm k A reg i else 0) * y i')) +
            reg * lsum (seq 0 n) (fun i => lsum (seq 0 n) (fun i' => (if Nat.eqb i i' then wnorm k A reg i else 0) * y i')) * 1 / INR k =
            lsum (seq 0 n) (fun i => ndense k A reg i j * y i)).
    rewrite (lsum_ext (seq 0 n) (fun i => A i j * lsum (seq 0 n) (fun i' => (if Nat.eqb i i' then wnorm k A reg i else 0) * y i'))
                      (fun i => A i j * (wnorm k A reg i * y i)))
      by (intros i Hi; apply in_seq0 in Hi; rewrite (lsum_diag n i _ _ Hi); reflexivity).
    rewrite (lsum_ext (seq 0 n) (fun i => lsum (seq 0 n) (fun i' => (if Nat.eqb i i' then wnorm k A reg i else 0) * y i'))
                      (fun i => wnorm k A reg i * y i))
      by (intros i Hi; apply in_seq0 in Hi; rewrite (lsum_diag n i _ _ Hi); reflexivity).
    unfold ndense.
    rewrite (lsum_ext (seq 0 n) (fun i => wnorm k A reg i * (A i j + reg / INR k) * y i)
                      (fun i => A i j * (wnorm k A reg i * y i) + reg / INR k * (wnorm k A reg i * y i))) by (intros; ring).
    rewrite lsum_add, lsum_scale. unfold Rdiv. ring.
  - subst reg. eexists. split; [unfold src_normalizer_rmatvec_1d; nz_eval Hr; reflexivity|].
    intros j Hj. cbn beta.
    change (lsum (seq 0 n) (fun i => A i j * lsum (seq 0 n) (fun i' => (if Nat.eqb i i' then wnorm k A 0 i else 0) * y i')) =
            lsum (seq 0 n) (fun i => ndense k A 0 i j * y i)).
    apply lsum_ext. intros i Hi. apply in_seq0 in Hi. rewrite (lsum_diag n i _ _ Hi). unfold ndense, Rdiv. ring.
Qed.

(* ------------------------------------------------------------------------------------------- *)
(** * matrix operands *)
Theorem source_normalizer_matvec_2d n k m A reg X :
  0 <= reg ->
  exists f, rvdenote (env_nm n k A reg k m X) src_normalizer_matvec_2d = Some (WM n m f) /\
            forall i c, (i < n)%nat -> f i c = lsum (seq 0 k) (fun j => ndense k A reg i j * X j c).
Proof.
  intros [Hr|Hr].
  - eexists. split; [unfold src_normalizer_matvec_2d; nz_eval Hr; reflexivity|].
    intros i c Hi. cbn beta.
    change (lsum (seq 0 n) (fun j => (if Nat.eqb i j then wnorm k A reg i else 0) *
              (lsum (seq 0 k) (fun j0 => A j j0 * X j0 c) + reg * (1 * (lsum (seq 0 k) (fun i0 => X i0 c) / INR k)))) =
            lsum (seq 0 k) (fun j => ndense k A reg i j * X j c)).
    rewrite (lsum_diag n i _ _ Hi). unfold ndense.
    rewrite (lsum_ext (seq 0 k) (fun j => wnorm k A reg i * (A i j + reg / INR k) * X j c)
                      (fun j => wnorm k A reg i * (A i j * X j c + reg / INR k * X j c))) by (intros; ring).
    rewrite lsum_scale, lsum_add, lsum_scale. unfold Rdiv. ring.
  - subst reg. eexists. split; [unfold src_normalizer_matvec_2d; nz_eval Hr; reflexivity|].
    intros i c Hi. cbn beta.
    change (lsum (seq 0 n) (fun j => (if Nat.eqb i j then wnorm k A 0 i else 0) * lsum (seq 0 k) (fun j0 => A j j0 * X j0 c)) =
            lsum (seq 0 k) (fun j => ndense k A 0 i j * X j c)).
    rewrite (lsum_diag n i _ _ Hi). unfold ndense.
    rewrite (lsum_ext (seq 0 k) (fun j => wnorm k A 0 i * (A i j + 0 / INR k) * X j c)
                      (fun j => wnorm k A 0 i * (A i j * X j c))) by (intros; unfold Rdiv; ring).
    rewrite lsum_scale. reflexivity.
Qed.

Theorem source_normalizer_rmatvec_2d n k m A reg Y :
  0 <= reg ->
  exists f, rvdenote (env_nm n k A reg n m Y) src_normalizer_rmatvec_2d = Some (WM k m f) /\
            forall j c, (j < k)%nat -> f j c = lsum (seq 0 n) (fun i => ndense k A reg i j * Y i c).
Proof.
  intros [Hr|Hr].
  - eexists. split; [unfold src_normalizer_rmatvec_2d; nz_eval Hr; reflexivity|].
    intros j c Hj. cbn beta.
    change (lsum (seq 0 n) (fun i => A i j * lsum (seq 0 n) (fun i' => (if Nat.eqb i i' then wnorm k A reg i else 0) * Y i' c)) +
            reg * (1 * lsum (seq 0 n) (fun i => lsum (seq 0 n) (fun i' => (if Nat.eqb i i' then wnorm k A reg i else 0) * Y i' c))) / INR k =
            lsum (seq 0 n) (fun i => ndense k A reg i j * Y i c)).
    rewrite (lsum_ext (seq 0 n) (fun i => A i j * lsum (seq 0 n) (fun i' => (if Nat.eqb i i' then wnorm k A reg i else 0) * Y i' c))
                      (fun i => A i j * (wnorm k A reg i * Y i c)))
      by (intros i Hi; apply in_seq0 in Hi; rewrite (lsum_diag n i _ _ Hi); reflexivity).
    rewrite (lsum_ext (seq 0 n) (fun i => lsum (seq 0 n) (fun i' => (if Nat.eqb i i' then wnorm k A reg i else 0) * Y i' c))
                      (fun i => wnorm k A reg i * Y i c))
      by (intros i Hi; apply in_seq0 in Hi; rewrite (lsum_diag n i _ _ Hi); reflexivity).
    unfold ndense.
    rewrite (lsum_ext (seq 0 n) (fun i => wnorm k A reg i * (A i j + reg / INR k) * Y i c)
                      (fun i => A i j * (wnorm k A reg i * Y i c) + reg / INR k * (wnorm k A reg i * Y i c))) by (intros; ring).
    rewrite lsum_add, lsum_scale. unfold Rdiv. ring.
  - subst reg. eexists. split; [unfold src_normalizer_rmatvec_2d; nz_eval Hr; reflexivity|].
    intros j c Hj. cbn beta.
    change (lsum (seq 0 n) (fun i => A i j * lsum (seq 0 n) (fun i' => (if Nat.eqb i i' then wnorm k A 0 i else 0) * Y i' c)) =
            lsum (seq 0 n) (fun i => ndense k A 0 i j * Y i c)).
    apply lsum_ext. intros i Hi. apply in_seq0 in Hi. rewrite (lsum_diag n i _ _ Hi). unfold ndense, Rdiv. ring.
Qed.

(** Proofs about the ingestion model (Model/Parse.v). *)
From Coq Require Import String Ascii.
From SKN Require Import Base.Util Model.PathSafe Model.Parse Proofs.PathSafeProofs.
From Coq Require Import Lia.

(** * Generic list facts *)

Lemma combine_map {A B C} (f : A -> B) (g : A -> C) l :
  combine (map f l) (map g l) = map (fun x => (f x, g x)) l.
Proof. induction l as [|x t IH]; simpl; [reflexivity|]. rewrite IH. reflexivity. Qed.

Lemma filter_map {A B} (F : A -> B) (P : B -> bool) l :
  filter P (map F l) = map F (filter (fun x => P (F x)) l).
Proof.
  induction l as [|x t IH]; simpl; [reflexivity|].
  destruct (P (F x)); simpl; rewrite IH; reflexivity.
Qed.

Lemma filter_ext_In {A} (P Q : A -> bool) l :
  (forall x, In x l -> P x = Q x) -> filter P l = filter Q l.
Proof.
  induction l as [|x t IH]; intros H; simpl; [reflexivity|].
  rewrite (H x (or_introl eq_refl)). rewrite IH; [reflexivity|].
  intros y Hy. apply H. right. exact Hy.
Qed.

Lemma pos_eqb_eq p q : pos_eqb p q = true <-> p = q.
Proof.
  destruct p as [a b], q as [c d]. unfold pos_eqb. simpl.
  rewrite andb_true_iff, !Nat.eqb_eq. split; [intros [-> ->]; reflexivity|intros H; inversion H; auto].
Qed.

Lemma pos_eqb_refl p : pos_eqb p p = true.
Proof. apply pos_eqb_eq. reflexivity. Qed.

Lemma pos_eqb_sym p q : pos_eqb p q = pos_eqb q p.
Proof. unfold pos_eqb. rewrite (Nat.eqb_sym (fst p)), (Nat.eqb_sym (snd p)). reflexivity. Qed.

(** * Sums in the dtype *)

Lemma dsum_false l : dsum false l = sumz l.
Proof. unfold dsum. induction l as [|x t IH]; simpl; [reflexivity|]. rewrite IH. reflexivity. Qed.

Lemma sumz_app a b : sumz (a ++ b) = (sumz a + sumz b)%Z.
Proof. induction a as [|x t IH]; simpl; [reflexivity|]. rewrite IH. lia. Qed.

Definition nz (w : Z) : Z := if (w =? 0)%Z then 0%Z else 1%Z.

Lemma dsum_true_nz l :
  dsum true (map nz l) = if existsb (fun w => negb (w =? 0)%Z) l then 1%Z else 0%Z.
Proof.
  unfold dsum. induction l as [|x t IH]; simpl; [reflexivity|]. rewrite IH.
  unfold dadd, nz. destruct (x =? 0)%Z; simpl; destruct (existsb _ t); reflexivity.
Qed.

(** * nodup_pos, coalesce, symmetrisation *)

Lemma existsb_pos_In p l : existsb (pos_eqb p) l = true <-> In p l.
Proof.
  rewrite existsb_exists. split.
  - intros [q [Hq E]]. apply pos_eqb_eq in E. subst. exact Hq.
  - intros H. exists p. split; [exact H|apply pos_eqb_refl].
Qed.

Lemma nodup_pos_In p l : In p (nodup_pos l) <-> In p l.
Proof.
  induction l as [|q t IH]; simpl; [tauto|].
  destruct (existsb (pos_eqb q) t) eqn:E.
  - rewrite IH. split; [auto|]. intros [->|H]; [apply existsb_pos_In; exact E|exact H].
  - simpl. rewrite IH. tauto.
Qed.

Lemma nodup_pos_NoDup l : NoDup (nodup_pos l).
Proof.
  induction l as [|q t IH]; simpl; [constructor|].
  destruct (existsb (pos_eqb q) t) eqn:E; [exact IH|].
  constructor; [|exact IH]. rewrite nodup_pos_In. intros H. apply existsb_pos_In in H. congruence.
Qed.

Lemma filter_eq_NoDup q l :
  NoDup l -> filter (fun p => pos_eqb p q) l = if existsb (pos_eqb q) l then [q] else [].
Proof.
  induction l as [|x t IH]; intros H; simpl; [reflexivity|].
  inversion H as [|? ? Hx Ht]; subst. rewrite (IH Ht). rewrite (pos_eqb_sym q x).
  destruct (pos_eqb x q) eqn:E; simpl.
  - apply pos_eqb_eq in E. subst x.
    destruct (existsb (pos_eqb q) t) eqn:E2; [|reflexivity].
    apply existsb_pos_In in E2. contradiction.
  - reflexivity.
Qed.

Lemma entry_no_position m i j : ~ In (i, j) (map fst (m_coo m)) -> entry m i j = 0%Z.
Proof.
  intros H. unfold entry.
  replace (filter (fun t => pos_eqb (fst t) (i, j)) (m_coo m)) with (@nil (nat * nat * Z)); [reflexivity|].
  symmetry. induction (m_coo m) as [|t l IH]; simpl; [reflexivity|].
  destruct (pos_eqb (fst t) (i, j)) eqn:E.
  - exfalso. apply H. left. apply pos_eqb_eq. exact E.
  - apply IH. intros H2. apply H. right. exact H2.
Qed.

Lemma sum_coalesce m i j :
  sumz (map snd (filter (fun t => pos_eqb (fst t) (i, j)) (coalesce m))) = entry m i j.
Proof.
  unfold coalesce. rewrite filter_map. simpl.
  rewrite (filter_eq_NoDup (i, j) _ (nodup_pos_NoDup _)).
  destruct (existsb (pos_eqb (i, j)) (nodup_pos (map fst (m_coo m)))) eqn:E; simpl.
  - lia.
  - symmetry. apply entry_no_position. intros H. apply nodup_pos_In in H.
    apply existsb_pos_In in H. congruence.
Qed.

Lemma filter_transpose i j l :
  map snd (filter (fun t => pos_eqb (fst t) (i, j)) (transpose_coo l)) =
  map snd (filter (fun t => pos_eqb (fst t) (j, i)) l).
Proof.
  unfold transpose_coo. rewrite filter_map, map_map. simpl.
  f_equal. apply filter_ext_In. intros [[a b] w] _. unfold pos_eqb. simpl. apply andb_comm.
Qed.

(** [directed2undirected] denotes A + A^T over the integers. *)
Lemma entry_directed2undirected m i j :
  entry (directed2undirected m) i j = (entry m i j + entry m j i)%Z.
Proof.
  unfold entry at 1. unfold directed2undirected. simpl m_coo. simpl m_bool.
  rewrite dsum_false, filter_app, map_app, sumz_app, filter_transpose, !sum_coalesce. reflexivity.
Qed.

(** The canonical triples list exactly the non-zero entries, once each. *)
Lemma triples_spec m i j w :
  In (i, j, w) (triples m) <-> w = entry m i j /\ w <> 0%Z /\ In (i, j) (map fst (m_coo m)).
Proof.
  unfold triples, coalesce. rewrite filter_In, in_map_iff. simpl. split.
  - intros [[p [E Hp]] Hw]. destruct p as [a b]. simpl in E. inversion E; subst.
    apply (proj1 (nodup_pos_In _ _)) in Hp. split; [reflexivity|]. split; [|exact Hp].
    destruct (Z.eqb_spec (entry m i j) 0) as [Z0|Z0]; [discriminate Hw|exact Z0].
  - intros [-> [Hw Hp]]. split.
    + exists (i, j). split; [reflexivity|apply nodup_pos_In; exact Hp].
    + destruct (Z.eqb_spec (entry m i j) 0); [contradiction|reflexivity].
Qed.

Lemma firstn1_In {A} (x : A) l : In x (firstn 1 l) -> In x l.
Proof. destruct l as [|y t]; simpl; [tauto|]. intros [->|[]]. left. reflexivity. Qed.

Lemma filter_nil {A} (f : A -> bool) l : (forall x, In x l -> f x = false) -> filter f l = [].
Proof.
  induction l as [|x t IH]; intros H; simpl; [reflexivity|].
  rewrite (H x (or_introl eq_refl)). apply IH. intros y Hy. apply H. right. exact Hy.
Qed.

Lemma maxl_ge x l : In x l -> x <= maxl l.
Proof.
  induction l as [|y t IH]; simpl; [tauto|]. intros [->|H]; [lia|]. specialize (IH H). lia.
Qed.

Lemma combine_map_r {A B C} (f : B -> C) (l : list A) (ws : list B) :
  combine l (map f ws) = map (fun e => (fst e, f (snd e))) (combine l ws).
Proof.
  revert ws. induction l as [|x t IH]; intros [|w ws]; simpl; try reflexivity. rewrite IH. reflexivity.
Qed.

Lemma unravel_map2 {A} (f g : A -> nat) l :
  unravel (flat_map (fun e => [f e; g e]) l) = map (fun e => (f e, g e)) l.
Proof. induction l as [|x t IH]; simpl; [reflexivity|]. rewrite IH. reflexivity. Qed.

Section IngestProofs.
  Context {id : Type}.
  Context (ideqb : id -> id -> bool) (as_int : id -> option nat) (unique : list id -> list id * list nat).
  Context (ideqb_spec : forall a b, ideqb a b = true <-> a = b).
  Context (as_int_inj : forall a b k, as_int a = Some k -> as_int b = Some k -> a = b).
  Context (uniq_ok : unique_ok ideqb unique).

  Notation edge := (@edge id).
  Notation is_node := (is_node ideqb as_int).
  Notation index_of := (index_of ideqb).
  Notation first_occ := (first_occ ideqb).
  Notation to_int := (to_int as_int).

  Lemma ideqb_refl a : ideqb a a = true.
  Proof. apply ideqb_spec. reflexivity. Qed.

  Lemma index_of_nth names : forall a i, NoDup names -> In a names ->
    (index_of names a =? i) = match nth_error names i with Some x => ideqb x a | None => false end.
  Proof.
    induction names as [|x t IH]; intros a i Hnd Hin; [contradiction|].
    inversion Hnd as [|? ? Hx Ht]; subst. simpl.
    destruct (ideqb x a) eqn:E.
    - apply ideqb_spec in E. subst a. destruct i as [|i']; simpl.
      + symmetry. apply ideqb_refl.
      + destruct (nth_error t i') as [y|] eqn:N; [|reflexivity].
        symmetry. destruct (ideqb y x) eqn:E2; [|reflexivity].
        apply ideqb_spec in E2. subst y. apply nth_error_In in N. contradiction.
    - destruct Hin as [->|Hin]; [rewrite ideqb_refl in E; discriminate|].
      destruct i as [|i']; simpl; [symmetry; exact E|]. apply IH; assumption.
  Qed.

  Lemma index_of_lt names a : In a names -> index_of names a < length names.
  Proof.
    induction names as [|x t IH]; simpl; [tauto|]. intros H.
    destruct (ideqb x a) eqn:E; [lia|].
    destruct H as [->|H]; [rewrite ideqb_refl in E; discriminate|]. specialize (IH H). lia.
  Qed.

  Lemma is_node_inj names k a b : is_node names k a = true -> is_node names k b = true -> a = b.
  Proof.
    unfold Parse.is_node. destruct names as [ns|].
    - destruct (nth_error ns k) as [x|]; [|discriminate]. intros Ha Hb.
      apply ideqb_spec in Ha. apply ideqb_spec in Hb. congruence.
    - destruct (as_int a) as [u|] eqn:Ea; [|discriminate]. destruct (as_int b) as [v|] eqn:Eb; [|discriminate].
      intros Ha Hb. apply Nat.eqb_eq in Ha. apply Nat.eqb_eq in Hb. subst. eapply as_int_inj; eassumption.
  Qed.

  (** ** First occurrences *)

  Lemma key_eqb_eq p q : key_eqb ideqb p q = true <-> p = q.
  Proof.
    destruct p as [a b], q as [c d]. unfold key_eqb. simpl. rewrite andb_true_iff, !ideqb_spec.
    split; [intros [-> ->]; reflexivity|intros H; inversion H; auto].
  Qed.

  Lemma memp_In p l : memp ideqb p l = true <-> In p l.
  Proof.
    unfold memp. rewrite existsb_exists. split.
    - intros [q [Hq E]]. apply key_eqb_eq in E. subst. exact Hq.
    - intros H. exists p. split; [exact H|apply key_eqb_eq; reflexivity].
  Qed.

  Lemma first_occ_In es : forall seen (e : edge), In e (first_occ seen es) -> In e es /\ ~ In (fst e) seen.
  Proof.
    induction es as [|x t IH]; intros seen e; simpl; [tauto|].
    destruct (memp ideqb (fst x) seen) eqn:M.
    - intros H. destruct (IH _ _ H) as [H1 H2]. auto.
    - intros [->|H].
      + split; [left; reflexivity|]. intros H. apply memp_In in H. congruence.
      + destruct (IH _ _ H) as [H1 H2]. split; [right; exact H1|]. intros H3. apply H2. right. exact H3.
  Qed.

  Lemma first_occ_keys es : forall seen (e : edge), In e es ->
    In (fst e) seen \/ exists e', In e' (first_occ seen es) /\ fst e' = fst e.
  Proof.
    induction es as [|x t IH]; intros seen e; simpl; [tauto|].
    destruct (memp ideqb (fst x) seen) eqn:M.
    - intros [->|H]; [left; apply memp_In; exact M|]. apply IH. exact H.
    - intros [->|H].
      + right. exists e. split; [left; reflexivity|reflexivity].
      + destruct (IH (fst x :: seen) e H) as [[E|H1]|[e' [H1 H2]]].
        * right. exists x. split; [left; reflexivity|exact E].
        * left. exact H1.
        * right. exists e'. split; [right; exact H1|exact H2].
  Qed.

  Lemma first_occ_map (tw : edge -> edge) : (forall e, fst (tw e) = fst e) ->
    forall es seen, first_occ seen (map tw es) = map tw (first_occ seen es).
  Proof.
    intros Htw. induction es as [|x t IH]; intros seen; simpl; [reflexivity|].
    rewrite Htw. destruct (memp ideqb (fst x) seen); simpl; rewrite IH; reflexivity.
  Qed.

  Lemma first_occ_filter (Q : id * id -> bool) :
    (forall p q, Q p = true -> Q q = true -> p = q) ->
    forall es seen, (forall e : edge, In e es -> Q (fst e) = true -> ~ In (fst e) seen) ->
    filter (fun e : edge => Q (fst e)) (first_occ seen es) = firstn 1 (filter (fun e : edge => Q (fst e)) es).
  Proof.
    intros HQ. induction es as [|x t IH]; intros seen Hs; simpl; [reflexivity|].
    destruct (memp ideqb (fst x) seen) eqn:M.
    - destruct (Q (fst x)) eqn:Qx.
      + exfalso. apply (Hs x (or_introl eq_refl) Qx). apply memp_In. exact M.
      + apply IH. intros e He. apply Hs. right. exact He.
    - simpl. destruct (Q (fst x)) eqn:Qx; simpl.
      + f_equal. apply filter_nil. intros e He. apply first_occ_In in He as [_ He].
        destruct (Q (fst e)) eqn:Qe; [|reflexivity]. exfalso. apply He. left. apply HQ; assumption.
      + apply IH. intros e He Qe [E|H].
        * rewrite <- E in Qe. congruence.
        * exact (Hs e (or_intror He) Qe H).
  Qed.

  (** ** Entries of an indexed edge list *)

  Lemma entry_indexed b sh (fr fc : id -> nat) (es : list edge) i j :
    entry {| m_shape := sh; m_coo := map (fun e => ((fr (esrc e), fc (edst e)), ew e)) es; m_bool := b |} i j
    = dsum b (map ew (filter (fun e => (fr (esrc e) =? i) && (fc (edst e) =? j)) es)).
  Proof. unfold entry. simpl. rewrite filter_map, map_map. reflexivity. Qed.

  Definition twf (fl : flags) (w : Z) : Z := if weighted fl then w else nz w.
  Definition tw (fl : flags) (e : edge) : edge := (fst e, twf fl (snd e)).

  Lemma typed_edges fl (edge_array : list (id * id)) ws :
    combine edge_array (type_weights (weighted fl) ws) = map (tw fl) (combine edge_array ws).
  Proof.
    unfold type_weights, tw, twf. destruct (weighted fl).
    - rewrite <- (map_id ws) at 1. exact (combine_map_r (fun x : Z => x) edge_array ws).
    - apply combine_map_r.
  Qed.

  Definition dedup (fl : flags) (raw : list edge) : list edge :=
    if sum_duplicates fl then raw else first_occ [] raw.

  Lemma dedup_typed fl raw :
    (if sum_duplicates fl then map (tw fl) raw else first_occ [] (map (tw fl) raw)) = map (tw fl) (dedup fl raw).
  Proof. unfold dedup. destruct (sum_duplicates fl); [reflexivity|]. apply first_occ_map. reflexivity. Qed.

  Lemma dedup_incl fl raw e : In e (dedup fl raw) -> In e raw.
  Proof. unfold dedup. destruct (sum_duplicates fl); [auto|]. intros H. apply first_occ_In in H. tauto. Qed.

  Lemma dedup_keys fl raw e : In e raw -> exists e', In e' (dedup fl raw) /\ fst e' = fst e.
  Proof.
    unfold dedup. destruct (sum_duplicates fl); [intros H; exists e; auto|].
    intros H. destruct (first_occ_keys raw [] e H) as [[]|H1]. exact H1.
  Qed.

  Lemma dtype_sum fl ws :
    dsum (negb (weighted fl)) (map (twf fl) ws) =
    if weighted fl then sumz ws else if existsb (fun w => negb (w =? 0)%Z) ws then 1%Z else 0%Z.
  Proof.
    unfold twf. destruct (weighted fl); simpl.
    - rewrite map_id. apply dsum_false.
    - apply dsum_true_nz.
  Qed.

  (** The coded matrix before symmetrisation has the specified entries, for any pair of index
      functions that agree with the naming. *)
  Lemma base_entry_spec fl rn cn (fr fc : id -> nat) raw sh i j :
    (forall e, In e (dedup fl raw) -> (fr (esrc e) =? i) = is_node rn i (esrc e)) ->
    (forall e, In e (dedup fl raw) -> (fc (edst e) =? j) = is_node cn j (edst e)) ->
    entry {| m_shape := sh;
             m_coo := map (fun e => ((fr (esrc e), fc (edst e)), ew e)) (map (tw fl) (dedup fl raw));
             m_bool := negb (weighted fl) |} i j
    = spec_base ideqb as_int fl rn cn raw i j.
  Proof.
    intros Hr Hc. rewrite entry_indexed. rewrite filter_map.
    change (fun x : edge => (fr (esrc (tw fl x)) =? i) && (fc (edst (tw fl x)) =? j))
      with (fun x : edge => (fr (esrc x) =? i) && (fc (edst x) =? j)).
    rewrite (filter_ext_In _ (fun e : edge => is_node rn i (esrc e) && is_node cn j (edst e))).
    2:{ intros e He. rewrite (Hr e He), (Hc e He). reflexivity. }
    rewrite map_map. change (fun x : edge => ew (tw fl x)) with (fun x : edge => twf fl (ew x)).
    rewrite <- (map_map ew (twf fl)). rewrite dtype_sum.
    unfold spec_base, listed.
    assert (E : map ew (filter (fun e : edge => is_node rn i (esrc e) && is_node cn j (edst e)) (dedup fl raw)) =
                (if sum_duplicates fl
                 then map ew (filter (fun e : edge => is_node rn i (esrc e) && is_node cn j (edst e)) raw)
                 else firstn 1 (map ew (filter (fun e : edge => is_node rn i (esrc e) && is_node cn j (edst e)) raw)))).
    { unfold dedup. destruct (sum_duplicates fl); [reflexivity|].
      rewrite firstn_map. f_equal.
      apply (first_occ_filter (fun p => is_node rn i (fst p) && is_node cn j (snd p))).
      - intros [a b] [c d]. simpl. rewrite !andb_true_iff. intros [H1 H2] [H3 H4].
        f_equal; eapply is_node_inj; eassumption.
      - intros e _ _ []. }
    rewrite E. reflexivity.
  Qed.

  (** ** (Re)indexing of one side *)

  Lemma index_side_spec reindexed ids sk names ix n :
    index_side as_int unique reindexed ids sk = (names, ix, n) ->
    (reindexed = false -> forall a, In a ids -> is_some (as_int a) = true) ->
    exists f : id -> nat,
      ix = map f ids /\
      (forall a k, In a ids -> (f a =? k) = is_node names k a) /\
      (forall a, In a ids -> f a < n) /\
      (forall ns, names = Some ns -> NoDup ns /\ length ns = n /\ forall x, In x ns <-> In x ids) /\
      (reindexed = true -> names <> None).
  Proof.
    unfold index_side. destruct reindexed; intros E Hint.
    - destruct (uniq_ok ids) as [Hnd [Hin Hinv]]. inversion E; subst. clear E.
      exists (index_of (fst (unique ids))). split; [exact Hinv|]. split; [|split; [|split]].
      + intros a k Ha. unfold Parse.is_node. apply index_of_nth; [exact Hnd|apply Hin; exact Ha].
      + intros a Ha. apply index_of_lt. apply Hin. exact Ha.
      + intros ns Hns. inversion Hns; subst. split; [exact Hnd|]. split; [reflexivity|exact Hin].
      + discriminate.
    - inversion E; subst. clear E. exists to_int. split; [reflexivity|]. split; [|split; [|split]].
      + intros a k Ha. specialize (Hint eq_refl a Ha). unfold Parse.is_node, Parse.to_int.
        destruct (as_int a); [reflexivity|discriminate].
      + intros a Ha. assert (H : to_int a <= maxl (map to_int ids)) by (apply maxl_ge, in_map, Ha).
        destruct sk; lia.
      + discriminate.
      + discriminate.
  Qed.

  Lemma int_dtype_spec (es : list edge) e :
    int_dtype as_int es = true -> In e es -> is_some (as_int (esrc e)) = true /\ is_some (as_int (edst e)) = true.
  Proof.
    unfold int_dtype. rewrite forallb_forall. intros H He. apply andb_true_iff. apply H. exact He.
  Qed.

  Lemma raw_typed fl edge_array weights :
    combine edge_array (type_weights (weighted fl)
       (match weights with Some w => w | None => repeat 1%Z (length edge_array) end))
    = map (tw fl) (raw_edges edge_array weights).
  Proof. apply typed_edges. Qed.

  Lemma in_ravel (es : list edge) a : In a (ravel es) <-> exists e, In e es /\ (a = esrc e \/ a = edst e).
  Proof.
    unfold ravel. rewrite in_flat_map. split.
    - intros [e [He [H|[H|[]]]]]; exists e; auto.
    - intros [e [He [H|H]]]; exists e; subst; simpl; auto.
  Qed.

  (** ** The matrix the code builds *)

  (** Entry of the coded result in terms of the specification of the un-symmetrised matrix:
      the undirected branch always ADDS the two directions, also when [weighted] is off. *)
  Definition coded_entry (fl : flags) (rn cn : option (list id)) (raw : list edge) (i j : nat) : Z :=
    if bipartite fl || directed fl then spec_base ideqb as_int fl rn cn raw i j
    else (spec_base ideqb as_int fl rn cn raw i j + spec_base ideqb as_int fl rn cn raw j i)%Z.

  Lemma tw_in_dedup fl raw (e : edge) : In e (dedup fl raw) -> In (tw fl e) (map (tw fl) (dedup fl raw)).
  Proof. apply in_map. Qed.

  Theorem from_edge_array_coded fl edge_array weights d :
    from_edge_array ideqb as_int unique fl edge_array weights = Some d ->
    forall i j, entry (d_matrix d) i j =
                coded_entry fl (row_names d) (col_names d) (raw_edges edge_array weights) i j.
  Proof.
    unfold from_edge_array. intros H i j.
    destruct (negb (length (match weights with Some w => w | None => repeat 1%Z (length edge_array) end) =? length edge_array));
      [discriminate|].
    destruct (length edge_array =? 0); [discriminate|].
    cbv zeta in H. rewrite raw_typed in H. rewrite dedup_typed in H.
    set (raw := raw_edges edge_array weights) in *.
    set (reindexed := negb (int_dtype as_int (map (tw fl) raw)) || reindex fl) in *.
    assert (Hint : reindexed = false -> forall e, In e (map (tw fl) (dedup fl raw)) ->
                   is_some (as_int (esrc e)) = true /\ is_some (as_int (edst e)) = true).
    { intros Hre e He. apply orb_false_iff in Hre as [Hre _]. apply negb_false_iff in Hre.
      apply (int_dtype_spec _ e Hre). apply in_map_iff in He as [e0 [<- He0]].
      apply in_map. eapply dedup_incl. exact He0. }
    unfold coded_entry. destruct (bipartite fl) eqn:Bip.
    - destruct (index_side as_int unique reindexed (map esrc (map (tw fl) (dedup fl raw))) (option_map fst (shape fl)))
        as [[names_row r] n_row] eqn:IR.
      destruct (index_side as_int unique reindexed (map edst (map (tw fl) (dedup fl raw))) (option_map snd (shape fl)))
        as [[names_col c] n_col] eqn:IC.
      inversion H; subst d; clear H. unfold row_names, col_names. simpl.
      destruct (index_side_spec _ _ _ _ _ _ IR) as [fr [Er [Hfr _]]].
      { intros Hre a Ha. apply in_map_iff in Ha as [e [<- He]]. apply (Hint Hre e He). }
      destruct (index_side_spec _ _ _ _ _ _ IC) as [fc [Ec [Hfc _]]].
      { intros Hre a Ha. apply in_map_iff in Ha as [e [<- He]]. apply (Hint Hre e He). }
      subst r c. rewrite (map_map esrc fr), (map_map edst fc), combine_map, combine_map.
      apply (base_entry_spec fl names_row names_col fr fc raw).
      + intros e He. apply Hfr. apply in_map_iff. exists (tw fl e). split; [reflexivity|apply in_map; exact He].
      + intros e He. apply Hfc. apply in_map_iff. exists (tw fl e). split; [reflexivity|apply in_map; exact He].
    - destruct (index_side as_int unique reindexed (ravel (map (tw fl) (dedup fl raw))) (option_map fst (shape fl)))
        as [[names nodes] n] eqn:IN.
      inversion H; subst d; clear H. unfold row_names, col_names. simpl.
      destruct (index_side_spec _ _ _ _ _ _ IN) as [f [En [Hf _]]].
      { intros Hre a Ha. apply in_ravel in Ha as [e [He [-> | ->]]]; apply (Hint Hre e He). }
      subst nodes. unfold ravel. rewrite flat_map_concat_map.
      assert (Eu : unravel (map f (concat (map (fun e : edge => [esrc e; edst e]) (map (tw fl) (dedup fl raw)))))
                   = map (fun e : edge => (f (esrc e), f (edst e))) (map (tw fl) (dedup fl raw))).
      { rewrite <- unravel_map2. f_equal. rewrite flat_map_concat_map, concat_map, map_map. reflexivity. }
      rewrite Eu, combine_map.
      assert (Hnode : forall k e, In e (dedup fl raw) ->
                (f (esrc e) =? k) = is_node names k (esrc e) /\ (f (edst e) =? k) = is_node names k (edst e)).
      { intros k e He. split; apply Hf; apply in_ravel; exists (tw fl e); (split; [apply in_map; exact He|auto]). }
      destruct (directed fl) eqn:Dir; simpl.
      + apply (base_entry_spec fl names names f f raw); intros e He; apply (Hnode _ e He).
      + rewrite entry_directed2undirected. f_equal.
        * apply (base_entry_spec fl names names f f raw); intros e He; apply (Hnode _ e He).
        * apply (base_entry_spec fl names names f f raw); intros e He; apply (Hnode _ e He).
  Qed.
End IngestProofs.

(** Proofs about the ingestion model (Model/Parse.v). *)
From Coq Require Import String Ascii.
From SKN Require Import Base.Util Model.PathSafe Model.Parse Proofs.PathSafeProofs.
From Coq Require Import Lia.

(** * Generic list facts *)

Lemma combine_map {A B C} (f : A -> B) (g : A -> C) l :
  combine (map f l) (map g l) = map (fun x => (f x, g x)) l.
Proof. induction l as [|x t IH]; simpl; [reflexivity|]. rewrite IH. reflexivity. Qed.

Lemma filter_map {A B} (F : A -> B) (P : B -> bool) l :
  filter P (map F l) = map F (filter (fun x => P (F x)) l).
Proof.
  induction l as [|x t IH]; simpl; [reflexivity|].
  destruct (P (F x)); simpl; rewrite IH; reflexivity.
Qed.

Lemma filter_ext_In {A} (P Q : A -> bool) l :
  (forall x, In x l -> P x = Q x) -> filter P l = filter Q l.
Proof.
  induction l as [|x t IH]; intros H; simpl; [reflexivity|].
  rewrite (H x (or_introl eq_refl)). rewrite IH; [reflexivity|].
  intros y Hy. apply H. right. exact Hy.
Qed.

Lemma pos_eqb_eq p q : pos_eqb p q = true <-> p = q.
Proof.
  destruct p as [a b], q as [c d]. unfold pos_eqb. simpl.
  rewrite andb_true_iff, !Nat.eqb_eq. split; [intros [-> ->]; reflexivity|intros H; inversion H; auto].
Qed.

Lemma pos_eqb_refl p : pos_eqb p p = true.
Proof. apply pos_eqb_eq. reflexivity. Qed.

Lemma pos_eqb_sym p q : pos_eqb p q = pos_eqb q p.
Proof. unfold pos_eqb. rewrite (Nat.eqb_sym (fst p)), (Nat.eqb_sym (snd p)). reflexivity. Qed.

(** * Sums in the dtype *)

Lemma dsum_false l : dsum false l = sumz l.
Proof. unfold dsum. induction l as [|x t IH]; simpl; [reflexivity|]. rewrite IH. reflexivity. Qed.

Lemma sumz_app a b : sumz (a ++ b) = (sumz a + sumz b)%Z.
Proof. induction a as [|x t IH]; simpl; [reflexivity|]. rewrite IH. lia. Qed.

Definition nz (w : Z) : Z := if (w =? 0)%Z then 0%Z else 1%Z.

Lemma dsum_true_nz l :
  dsum true (map nz l) = if existsb (fun w => negb (w =? 0)%Z) l then 1%Z else 0%Z.
Proof.
  unfold dsum. induction l as [|x t IH]; simpl; [reflexivity|]. rewrite IH.
  unfold dadd, nz. destruct (x =? 0)%Z; simpl; destruct (existsb _ t); reflexivity.
Qed.

(** * nodup_pos, coalesce, symmetrisation *)

Lemma existsb_pos_In p l : existsb (pos_eqb p) l = true <-> In p l.
Proof.
  rewrite existsb_exists. split.
  - intros [q [Hq E]]. apply pos_eqb_eq in E. subst. exact Hq.
  - intros H. exists p. split; [exact H|apply pos_eqb_refl].
Qed.

Lemma nodup_pos_In p l : In p (nodup_pos l) <-> In p l.
Proof.
  induction l as [|q t IH]; simpl; [tauto|].
  destruct (existsb (pos_eqb q) t) eqn:E.
  - rewrite IH. split; [auto|]. intros [->|H]; [apply existsb_pos_In; exact E|exact H].
  - simpl. rewrite IH. tauto.
Qed.

Lemma nodup_pos_NoDup l : NoDup (nodup_pos l).
Proof.
  induction l as [|q t IH]; simpl; [constructor|].
  destruct (existsb (pos_eqb q) t) eqn:E; [exact IH|].
  constructor; [|exact IH]. rewrite nodup_pos_In. intros H. apply existsb_pos_In in H. congruence.
Qed.

Lemma filter_eq_NoDup q l :
  NoDup l -> filter (fun p => pos_eqb p q) l = if existsb (pos_eqb q) l then [q] else [].
Proof.
  induction l as [|x t IH]; intros H; simpl; [reflexivity|].
  inversion H as [|? ? Hx Ht]; subst. rewrite (IH Ht). rewrite (pos_eqb_sym q x).
  destruct (pos_eqb x q) eqn:E; simpl.
  - apply pos_eqb_eq in E. subst x.
    destruct (existsb (pos_eqb q) t) eqn:E2; [|reflexivity].
    apply existsb_pos_In in E2. contradiction.
  - reflexivity.
Qed.

Lemma entry_no_position m i j : ~ In (i, j) (map fst (m_coo m)) -> entry m i j = 0%Z.
Proof.
  intros H. unfold entry.
  replace (filter (fun t => pos_eqb (fst t) (i, j)) (m_coo m)) with (@nil (nat * nat * Z)); [reflexivity|].
  symmetry. induction (m_coo m) as [|t l IH]; simpl; [reflexivity|].
  destruct (pos_eqb (fst t) (i, j)) eqn:E.
  - exfalso. apply H. left. apply pos_eqb_eq. exact E.
  - apply IH. intros H2. apply H. right. exact H2.
Qed.

Lemma sum_coalesce m i j :
  sumz (map snd (filter (fun t => pos_eqb (fst t) (i, j)) (coalesce m))) = entry m i j.
Proof.
  unfold coalesce. rewrite filter_map. simpl.
  rewrite (filter_eq_NoDup (i, j) _ (nodup_pos_NoDup _)).
  destruct (existsb (pos_eqb (i, j)) (nodup_pos (map fst (m_coo m)))) eqn:E; simpl.
  - lia.
  - symmetry. apply entry_no_position. intros H. apply nodup_pos_In in H.
    apply existsb_pos_In in H. congruence.
Qed.

Lemma filter_transpose i j l :
  map snd (filter (fun t => pos_eqb (fst t) (i, j)) (transpose_coo l)) =
  map snd (filter (fun t => pos_eqb (fst t) (j, i)) l).
Proof.
  unfold transpose_coo. rewrite filter_map, map_map. simpl.
  f_equal. apply filter_ext_In. intros [[a b] w] _. unfold pos_eqb. simpl. apply andb_comm.
Qed.

(** [directed2undirected] denotes A + A^T over the integers. *)
Lemma entry_directed2undirected m i j :
  entry (directed2undirected m) i j = (entry m i j + entry m j i)%Z.
Proof.
  unfold entry at 1. unfold directed2undirected. simpl m_coo. simpl m_bool.
  rewrite dsum_false, filter_app, map_app, sumz_app, filter_transpose, !sum_coalesce. reflexivity.
Qed.

(** The canonical triples list exactly the non-zero entries, once each. *)
Lemma triples_spec m i j w :
  In (i, j, w) (triples m) <-> w = entry m i j /\ w <> 0%Z /\ In (i, j) (map fst (m_coo m)).
Proof.
  unfold triples, coalesce. rewrite filter_In, in_map_iff. simpl. split.
  - intros [[p [E Hp]] Hw]. destruct p as [a b]. simpl in E. inversion E; subst.
    apply (proj1 (nodup_pos_In _ _)) in Hp. split; [reflexivity|]. split; [|exact Hp].
    destruct (Z.eqb_spec (entry m i j) 0) as [Z0|Z0]; [discriminate Hw|exact Z0].
  - intros [-> [Hw Hp]]. split.
    + exists (i, j). split; [reflexivity|apply nodup_pos_In; exact Hp].
    + destruct (Z.eqb_spec (entry m i j) 0); [contradiction|reflexivity].
Qed.

Lemma dadd_true x y : dadd true x y = Z.max x y.
Proof. reflexivity. Qed.

Lemma dsum_true_nonneg l : (0 <= dsum true l)%Z.
Proof.
  unfold dsum. induction l as [|x t IH]; cbn [fold_right]; [lia|]. rewrite dadd_true. lia.
Qed.

Lemma fold_max_base l r :
  (0 <= r)%Z -> fold_right (dadd true) r l = Z.max (fold_right (dadd true) 0%Z l) r.
Proof.
  intros H. induction l as [|x t IH]; cbn [fold_right]; [lia|]. rewrite IH.
  generalize (fold_right (dadd true) 0%Z t). intros F. unfold dadd. lia.
Qed.

Lemma dsum_app b l1 l2 : dsum b (l1 ++ l2) = dadd b (dsum b l1) (dsum b l2).
Proof.
  destruct b.
  - pose proof (dsum_true_nonneg l2) as H2. unfold dsum in *.
    rewrite fold_right_app, (fold_max_base l1 _ H2). reflexivity.
  - rewrite !dsum_false, sumz_app. reflexivity.
Qed.

Lemma entry_nonneg_bool m i j : m_bool m = true -> (0 <= entry m i j)%Z.
Proof. intros H. unfold entry. rewrite H. apply dsum_true_nonneg. Qed.

(** Summing the coalesced matrix at a position, in its own dtype, gives the entry. *)
Lemma dsum_coalesce m i j :
  dsum (m_bool m) (map snd (filter (fun t => pos_eqb (fst t) (i, j)) (coalesce m))) = entry m i j.
Proof.
  unfold coalesce. rewrite filter_map. simpl.
  rewrite (filter_eq_NoDup (i, j) _ (nodup_pos_NoDup _)).
  destruct (existsb (pos_eqb (i, j)) (nodup_pos (map fst (m_coo m)))) eqn:E; simpl.
  - destruct (m_bool m) eqn:B; unfold dsum, dadd; simpl; [|lia].
    pose proof (entry_nonneg_bool m i j B). lia.
  - symmetry. apply entry_no_position. intros H. apply nodup_pos_In in H.
    apply existsb_pos_In in H. congruence.
Qed.

Lemma entry_add_transpose m i j :
  entry (add_transpose m) i j = dadd (m_bool m) (entry m i j) (entry m j i).
Proof.
  unfold entry at 1. unfold add_transpose. simpl m_coo. simpl m_bool.
  rewrite filter_app, map_app, dsum_app, filter_transpose, !dsum_coalesce. reflexivity.
Qed.

Lemma coalesce_positions_NoDup m : NoDup (map fst (coalesce m)).
Proof. unfold coalesce. rewrite map_map. simpl. rewrite map_id. apply nodup_pos_NoDup. Qed.

Lemma entry_astype_bool m i j : entry (astype_bool m) i j = nz (entry m i j).
Proof.
  unfold entry at 1. unfold astype_bool. simpl m_coo. simpl m_bool.
  rewrite filter_map, map_map. simpl.
  unfold coalesce. rewrite filter_map. simpl.
  rewrite (filter_eq_NoDup (i, j) _ (nodup_pos_NoDup _)).
  destruct (existsb (pos_eqb (i, j)) (nodup_pos (map fst (m_coo m)))) eqn:E; simpl.
  - unfold dsum, dadd, nz. simpl. destruct (entry m i j =? 0)%Z; reflexivity.
  - rewrite entry_no_position; [reflexivity|]. intros H. apply nodup_pos_In in H.
    apply existsb_pos_In in H. congruence.
Qed.

Lemma entry_directed2undirected_arg w m i j :
  entry (directed2undirected_arg w m) i j =
  if w then (entry m i j + entry m j i)%Z else nz (dadd (m_bool m) (entry m i j) (entry m j i)).
Proof.
  unfold directed2undirected_arg. destruct w.
  - apply entry_directed2undirected.
  - rewrite entry_astype_bool, entry_add_transpose. reflexivity.
Qed.

Lemma firstn1_In {A} (x : A) l : In x (firstn 1 l) -> In x l.
Proof. destruct l as [|y t]; simpl; [tauto|]. intros [->|[]]. left. reflexivity. Qed.

Lemma filter_nil {A} (f : A -> bool) l : (forall x, In x l -> f x = false) -> filter f l = [].
Proof.
  induction l as [|x t IH]; intros H; simpl; [reflexivity|].
  rewrite (H x (or_introl eq_refl)). apply IH. intros y Hy. apply H. right. exact Hy.
Qed.

Lemma maxl_ge x l : In x l -> x <= maxl l.
Proof.
  induction l as [|y t IH]; simpl; [tauto|]. intros [->|H]; [lia|]. specialize (IH H). lia.
Qed.

Lemma combine_map_r {A B C} (f : B -> C) (l : list A) (ws : list B) :
  combine l (map f ws) = map (fun e => (fst e, f (snd e))) (combine l ws).
Proof.
  revert ws. induction l as [|x t IH]; intros [|w ws]; simpl; try reflexivity. rewrite IH. reflexivity.
Qed.

Lemma unravel_map2 {A} (f g : A -> nat) l :
  unravel (flat_map (fun e => [f e; g e]) l) = map (fun e => (f e, g e)) l.
Proof. induction l as [|x t IH]; simpl; [reflexivity|]. rewrite IH. reflexivity. Qed.

Section IngestProofs.
  Context {id : Type}.
  Context (ideqb : id -> id -> bool) (as_int : id -> option nat) (unique : list id -> list id * list nat).
  Context (pass : bool).
  Context (ideqb_spec : forall a b, ideqb a b = true <-> a = b).
  Context (as_int_inj : forall a b k, as_int a = Some k -> as_int b = Some k -> a = b).
  Context (uniq_ok : unique_ok ideqb unique).

  Notation edge := (@edge id).
  Notation is_node := (is_node ideqb as_int).
  Notation index_of := (index_of ideqb).
  Notation first_occ := (first_occ ideqb).
  Notation to_int := (to_int as_int).

  Lemma ideqb_refl a : ideqb a a = true.
  Proof. apply ideqb_spec. reflexivity. Qed.

  Lemma index_of_nth names : forall a i, NoDup names -> In a names ->
    (index_of names a =? i) = match nth_error names i with Some x => ideqb x a | None => false end.
  Proof.
    induction names as [|x t IH]; intros a i Hnd Hin; [contradiction|].
    inversion Hnd as [|? ? Hx Ht]; subst. simpl.
    destruct (ideqb x a) eqn:E.
    - apply ideqb_spec in E. subst a. destruct i as [|i']; simpl.
      + symmetry. apply ideqb_refl.
      + destruct (nth_error t i') as [y|] eqn:N; [|reflexivity].
        symmetry. destruct (ideqb y x) eqn:E2; [|reflexivity].
        apply ideqb_spec in E2. subst y. apply nth_error_In in N. contradiction.
    - destruct Hin as [->|Hin]; [rewrite ideqb_refl in E; discriminate|].
      destruct i as [|i']; simpl; [symmetry; exact E|]. apply IH; assumption.
  Qed.

  Lemma index_of_lt names a : In a names -> index_of names a < length names.
  Proof.
    induction names as [|x t IH]; simpl; [tauto|]. intros H.
    destruct (ideqb x a) eqn:E; [lia|].
    destruct H as [->|H]; [rewrite ideqb_refl in E; discriminate|]. specialize (IH H). lia.
  Qed.

  Lemma is_node_inj names k a b : is_node names k a = true -> is_node names k b = true -> a = b.
  Proof.
    unfold Parse.is_node. destruct names as [ns|].
    - destruct (nth_error ns k) as [x|]; [|discriminate]. intros Ha Hb.
      apply ideqb_spec in Ha. apply ideqb_spec in Hb. congruence.
    - destruct (as_int a) as [u|] eqn:Ea; [|discriminate]. destruct (as_int b) as [v|] eqn:Eb; [|discriminate].
      intros Ha Hb. apply Nat.eqb_eq in Ha. apply Nat.eqb_eq in Hb. subst. eapply as_int_inj; eassumption.
  Qed.

  (** ** First occurrences *)

  Lemma key_eqb_eq p q : key_eqb ideqb p q = true <-> p = q.
  Proof.
    destruct p as [a b], q as [c d]. unfold key_eqb. simpl. rewrite andb_true_iff, !ideqb_spec.
    split; [intros [-> ->]; reflexivity|intros H; inversion H; auto].
  Qed.

  Lemma memp_In p l : memp ideqb p l = true <-> In p l.
  Proof.
    unfold memp. rewrite existsb_exists. split.
    - intros [q [Hq E]]. apply key_eqb_eq in E. subst. exact Hq.
    - intros H. exists p. split; [exact H|apply key_eqb_eq; reflexivity].
  Qed.

  Lemma first_occ_In es : forall seen (e : edge), In e (first_occ seen es) -> In e es /\ ~ In (fst e) seen.
  Proof.
    induction es as [|x t IH]; intros seen e; simpl; [tauto|].
    destruct (memp ideqb (fst x) seen) eqn:M.
    - intros H. destruct (IH _ _ H) as [H1 H2]. auto.
    - intros [->|H].
      + split; [left; reflexivity|]. intros H. apply memp_In in H. congruence.
      + destruct (IH _ _ H) as [H1 H2]. split; [right; exact H1|]. intros H3. apply H2. right. exact H3.
  Qed.

  Lemma first_occ_keys es : forall seen (e : edge), In e es ->
    In (fst e) seen \/ exists e', In e' (first_occ seen es) /\ fst e' = fst e.
  Proof.
    induction es as [|x t IH]; intros seen e; simpl; [tauto|].
    destruct (memp ideqb (fst x) seen) eqn:M.
    - intros [->|H]; [left; apply memp_In; exact M|]. apply IH. exact H.
    - intros [->|H].
      + right. exists e. split; [left; reflexivity|reflexivity].
      + destruct (IH (fst x :: seen) e H) as [[E|H1]|[e' [H1 H2]]].
        * right. exists x. split; [left; reflexivity|exact E].
        * left. exact H1.
        * right. exists e'. split; [right; exact H1|exact H2].
  Qed.

  Lemma first_occ_map (tw : edge -> edge) : (forall e, fst (tw e) = fst e) ->
    forall es seen, first_occ seen (map tw es) = map tw (first_occ seen es).
  Proof.
    intros Htw. induction es as [|x t IH]; intros seen; simpl; [reflexivity|].
    rewrite Htw. destruct (memp ideqb (fst x) seen); simpl; rewrite IH; reflexivity.
  Qed.

  Lemma first_occ_filter (Q : id * id -> bool) :
    (forall p q, Q p = true -> Q q = true -> p = q) ->
    forall es seen, (forall e : edge, In e es -> Q (fst e) = true -> ~ In (fst e) seen) ->
    filter (fun e : edge => Q (fst e)) (first_occ seen es) = firstn 1 (filter (fun e : edge => Q (fst e)) es).
  Proof.
    intros HQ. induction es as [|x t IH]; intros seen Hs; simpl; [reflexivity|].
    destruct (memp ideqb (fst x) seen) eqn:M.
    - destruct (Q (fst x)) eqn:Qx.
      + exfalso. apply (Hs x (or_introl eq_refl) Qx). apply memp_In. exact M.
      + apply IH. intros e He. apply Hs. right. exact He.
    - simpl. destruct (Q (fst x)) eqn:Qx; simpl.
      + f_equal. apply filter_nil. intros e He. apply first_occ_In in He as [_ He].
        destruct (Q (fst e)) eqn:Qe; [|reflexivity]. exfalso. apply He. left. apply HQ; assumption.
      + apply IH. intros e He Qe [E|H].
        * rewrite <- E in Qe. congruence.
        * exact (Hs e (or_intror He) Qe H).
  Qed.

  (** ** Entries of an indexed edge list *)

  Lemma entry_indexed b sh (fr fc : id -> nat) (es : list edge) i j :
    entry {| m_shape := sh; m_coo := map (fun e => ((fr (esrc e), fc (edst e)), ew e)) es; m_bool := b |} i j
    = dsum b (map ew (filter (fun e => (fr (esrc e) =? i) && (fc (edst e) =? j)) es)).
  Proof. unfold entry. simpl. rewrite filter_map, map_map. reflexivity. Qed.

  Definition twf (fl : flags) (w : Z) : Z := if weighted fl then w else nz w.
  Definition tw (fl : flags) (e : edge) : edge := (fst e, twf fl (snd e)).

  Lemma typed_edges fl (edge_array : list (id * id)) ws :
    combine edge_array (type_weights (weighted fl) ws) = map (tw fl) (combine edge_array ws).
  Proof.
    unfold type_weights, tw, twf. destruct (weighted fl).
    - rewrite <- (map_id ws) at 1. exact (combine_map_r (fun x : Z => x) edge_array ws).
    - apply combine_map_r.
  Qed.

  Definition dedup (fl : flags) (raw : list edge) : list edge :=
    if sum_duplicates fl then raw else first_occ [] raw.

  Lemma dedup_typed fl raw :
    (if sum_duplicates fl then map (tw fl) raw else first_occ [] (map (tw fl) raw)) = map (tw fl) (dedup fl raw).
  Proof. unfold dedup. destruct (sum_duplicates fl); [reflexivity|]. apply first_occ_map. reflexivity. Qed.

  Lemma dedup_incl fl raw e : In e (dedup fl raw) -> In e raw.
  Proof. unfold dedup. destruct (sum_duplicates fl); [auto|]. intros H. apply first_occ_In in H. tauto. Qed.

  Lemma dedup_keys fl raw e : In e raw -> exists e', In e' (dedup fl raw) /\ fst e' = fst e.
  Proof.
    unfold dedup. destruct (sum_duplicates fl); [intros H; exists e; auto|].
    intros H. destruct (first_occ_keys raw [] e H) as [[]|H1]. exact H1.
  Qed.

  Lemma dtype_sum fl ws :
    dsum (negb (weighted fl)) (map (twf fl) ws) =
    if weighted fl then sumz ws else if existsb (fun w => negb (w =? 0)%Z) ws then 1%Z else 0%Z.
  Proof.
    unfold twf. destruct (weighted fl); simpl.
    - rewrite map_id. apply dsum_false.
    - apply dsum_true_nz.
  Qed.

  (** The coded matrix before symmetrisation has the specified entries, for any pair of index
      functions that agree with the naming. *)
  Lemma base_entry_spec fl rn cn (fr fc : id -> nat) raw sh i j :
    (forall e, In e (dedup fl raw) -> (fr (esrc e) =? i) = is_node rn i (esrc e)) ->
    (forall e, In e (dedup fl raw) -> (fc (edst e) =? j) = is_node cn j (edst e)) ->
    entry {| m_shape := sh;
             m_coo := map (fun e => ((fr (esrc e), fc (edst e)), ew e)) (map (tw fl) (dedup fl raw));
             m_bool := negb (weighted fl) |} i j
    = spec_base ideqb as_int fl rn cn raw i j.
  Proof.
    intros Hr Hc. rewrite entry_indexed. rewrite filter_map.
    change (fun x : edge => (fr (esrc (tw fl x)) =? i) && (fc (edst (tw fl x)) =? j))
      with (fun x : edge => (fr (esrc x) =? i) && (fc (edst x) =? j)).
    rewrite (filter_ext_In _ (fun e : edge => is_node rn i (esrc e) && is_node cn j (edst e))).
    2:{ intros e He. rewrite (Hr e He), (Hc e He). reflexivity. }
    rewrite map_map. change (fun x : edge => ew (tw fl x)) with (fun x : edge => twf fl (ew x)).
    rewrite <- (map_map ew (twf fl)). rewrite dtype_sum.
    unfold spec_base, listed.
    assert (E : map ew (filter (fun e : edge => is_node rn i (esrc e) && is_node cn j (edst e)) (dedup fl raw)) =
                (if sum_duplicates fl
                 then map ew (filter (fun e : edge => is_node rn i (esrc e) && is_node cn j (edst e)) raw)
                 else firstn 1 (map ew (filter (fun e : edge => is_node rn i (esrc e) && is_node cn j (edst e)) raw)))).
    { unfold dedup. destruct (sum_duplicates fl); [reflexivity|].
      rewrite firstn_map. f_equal.
      apply (first_occ_filter (fun p => is_node rn i (fst p) && is_node cn j (snd p))).
      - intros [a b] [c d]. simpl. rewrite !andb_true_iff. intros [H1 H2] [H3 H4].
        f_equal; eapply is_node_inj; eassumption.
      - intros e _ _ []. }
    rewrite E. reflexivity.
  Qed.

  (** ** (Re)indexing of one side *)

  Lemma index_side_spec reindexed ids sk names ix n :
    index_side as_int unique reindexed ids sk = (names, ix, n) ->
    (reindexed = false -> forall a, In a ids -> is_some (as_int a) = true) ->
    exists f : id -> nat,
      ix = map f ids /\
      (forall a k, In a ids -> (f a =? k) = is_node names k a) /\
      (forall a, In a ids -> f a < n) /\
      (forall ns, names = Some ns -> NoDup ns /\ length ns = n /\ forall x, In x ns <-> In x ids) /\
      (reindexed = true -> names <> None).
  Proof.
    unfold index_side. destruct reindexed; intros E Hint.
    - destruct (uniq_ok ids) as [Hnd [Hin Hinv]]. inversion E; subst. clear E.
      exists (index_of (fst (unique ids))). split; [exact Hinv|]. split; [|split; [|split]].
      + intros a k Ha. unfold Parse.is_node. apply index_of_nth; [exact Hnd|apply Hin; exact Ha].
      + intros a Ha. apply index_of_lt. apply Hin. exact Ha.
      + intros ns Hns. inversion Hns; subst. split; [exact Hnd|]. split; [reflexivity|exact Hin].
      + discriminate.
    - inversion E; subst. clear E. exists to_int. split; [reflexivity|]. split; [|split; [|split]].
      + intros a k Ha. specialize (Hint eq_refl a Ha). unfold Parse.is_node, Parse.to_int.
        destruct (as_int a); [reflexivity|discriminate].
      + intros a Ha. assert (H : to_int a <= maxl (map to_int ids)) by (apply maxl_ge, in_map, Ha).
        destruct sk; lia.
      + discriminate.
      + discriminate.
  Qed.

  Lemma int_dtype_spec (es : list edge) e :
    int_dtype as_int es = true -> In e es -> is_some (as_int (esrc e)) = true /\ is_some (as_int (edst e)) = true.
  Proof.
    unfold int_dtype. rewrite forallb_forall. intros H He. apply andb_true_iff. apply H. exact He.
  Qed.

  Lemma raw_typed fl edge_array weights :
    combine edge_array (type_weights (weighted fl)
       (match weights with Some w => w | None => repeat 1%Z (length edge_array) end))
    = map (tw fl) (raw_edges edge_array weights).
  Proof. apply typed_edges. Qed.

  Lemma in_ravel (es : list edge) a : In a (ravel es) <-> exists e, In e es /\ (a = esrc e \/ a = edst e).
  Proof.
    unfold ravel. rewrite in_flat_map. split.
    - intros [e [He [H|[H|[]]]]]; exists e; auto.
    - intros [e [He [H|H]]]; exists e; subst; simpl; auto.
  Qed.

  (** ** The matrix the code builds *)

  (** Entry of the coded result in terms of the specification of the un-symmetrised matrix:
      the undirected branch always ADDS the two directions, also when [weighted] is off. *)
  Definition coded_entry (fl : flags) (rn cn : option (list id)) (raw : list edge) (i j : nat) : Z :=
    if bipartite fl || directed fl then spec_base ideqb as_int fl rn cn raw i j
    else if (if pass then weighted fl else true)
         then (spec_base ideqb as_int fl rn cn raw i j + spec_base ideqb as_int fl rn cn raw j i)%Z
         else nz (dadd (negb (weighted fl)) (spec_base ideqb as_int fl rn cn raw i j)
                                            (spec_base ideqb as_int fl rn cn raw j i)).

  Lemma tw_in_dedup fl raw (e : edge) : In e (dedup fl raw) -> In (tw fl e) (map (tw fl) (dedup fl raw)).
  Proof. apply in_map. Qed.

  Theorem from_edge_array_coded fl edge_array weights d :
    from_edge_array ideqb as_int unique pass fl edge_array weights = Some d ->
    forall i j, entry (d_matrix d) i j =
                coded_entry fl (row_names d) (col_names d) (raw_edges edge_array weights) i j.
  Proof.
    unfold from_edge_array. intros H i j.
    destruct (negb (length (match weights with Some w => w | None => repeat 1%Z (length edge_array) end) =? length edge_array));
      [discriminate|].
    destruct (length edge_array =? 0); [discriminate|].
    cbv zeta in H. rewrite raw_typed in H. rewrite dedup_typed in H.
    set (raw := raw_edges edge_array weights) in *.
    set (reindexed := negb (int_dtype as_int (map (tw fl) raw)) || reindex fl) in *.
    assert (Hint : reindexed = false -> forall e, In e (map (tw fl) (dedup fl raw)) ->
                   is_some (as_int (esrc e)) = true /\ is_some (as_int (edst e)) = true).
    { intros Hre e He. apply orb_false_iff in Hre as [Hre _]. apply negb_false_iff in Hre.
      apply (int_dtype_spec _ e Hre). apply in_map_iff in He as [e0 [<- He0]].
      apply in_map. eapply dedup_incl. exact He0. }
    unfold coded_entry. destruct (bipartite fl) eqn:Bip.
    - destruct (index_side as_int unique reindexed (map esrc (map (tw fl) (dedup fl raw))) (option_map fst (shape fl)))
        as [[names_row r] n_row] eqn:IR.
      destruct (index_side as_int unique reindexed (map edst (map (tw fl) (dedup fl raw))) (option_map snd (shape fl)))
        as [[names_col c] n_col] eqn:IC.
      inversion H; subst d; clear H. unfold row_names, col_names. simpl.
      destruct (index_side_spec _ _ _ _ _ _ IR) as [fr [Er [Hfr _]]].
      { intros Hre a Ha. apply in_map_iff in Ha as [e [<- He]]. apply (Hint Hre e He). }
      destruct (index_side_spec _ _ _ _ _ _ IC) as [fc [Ec [Hfc _]]].
      { intros Hre a Ha. apply in_map_iff in Ha as [e [<- He]]. apply (Hint Hre e He). }
      subst r c. rewrite (map_map esrc fr), (map_map edst fc), combine_map, combine_map.
      apply (base_entry_spec fl names_row names_col fr fc raw).
      + intros e He. apply Hfr. apply in_map_iff. exists (tw fl e). split; [reflexivity|apply in_map; exact He].
      + intros e He. apply Hfc. apply in_map_iff. exists (tw fl e). split; [reflexivity|apply in_map; exact He].
    - destruct (index_side as_int unique reindexed (ravel (map (tw fl) (dedup fl raw))) (option_map fst (shape fl)))
        as [[names nodes] n] eqn:IN.
      inversion H; subst d; clear H. unfold row_names, col_names. simpl.
      destruct (index_side_spec _ _ _ _ _ _ IN) as [f [En [Hf _]]].
      { intros Hre a Ha. apply in_ravel in Ha as [e [He [-> | ->]]]; apply (Hint Hre e He). }
      subst nodes. unfold ravel. rewrite flat_map_concat_map.
      assert (Eu : unravel (map f (concat (map (fun e : edge => [esrc e; edst e]) (map (tw fl) (dedup fl raw)))))
                   = map (fun e : edge => (f (esrc e), f (edst e))) (map (tw fl) (dedup fl raw))).
      { rewrite <- unravel_map2. f_equal. rewrite flat_map_concat_map, concat_map, map_map. reflexivity. }
      rewrite Eu, combine_map.
      assert (Hnode : forall k e, In e (dedup fl raw) ->
                (f (esrc e) =? k) = is_node names k (esrc e) /\ (f (edst e) =? k) = is_node names k (edst e)).
      { intros k e He. split; apply Hf; apply in_ravel; exists (tw fl e); (split; [apply in_map; exact He|auto]). }
      destruct (directed fl) eqn:Dir; simpl.
      + apply (base_entry_spec fl names names f f raw); intros e He; apply (Hnode _ e He).
      + rewrite entry_directed2undirected_arg. simpl m_bool.
        rewrite !(base_entry_spec fl names names f f raw); try (intros e He; apply (Hnode _ e He)).
        reflexivity.
  Qed.

  (** ** The specification, with the defective combination excluded *)

  Lemma spec_base_unweighted fl rn cn raw i j :
    weighted fl = false ->
    (spec_base ideqb as_int fl rn cn raw i j = 0%Z \/ spec_base ideqb as_int fl rn cn raw i j = 1%Z) /\
    (spec_base ideqb as_int fl rn cn raw i j = 1%Z ->
     exists e : edge, In e raw /\ is_node rn i (esrc e) = true /\ is_node cn j (edst e) = true /\ ew e <> 0%Z).
  Proof.
    intros W. unfold spec_base. rewrite W.
    set (ws := if sum_duplicates fl then listed ideqb as_int rn cn raw i j
               else firstn 1 (listed ideqb as_int rn cn raw i j)).
    destruct (existsb (fun w => negb (w =? 0)%Z) ws) eqn:E; split; auto; try discriminate.
    intros _. apply existsb_exists in E as [w [Hw Hnz]].
    assert (Hl : In w (listed ideqb as_int rn cn raw i j)).
    { unfold ws in Hw. destruct (sum_duplicates fl); [exact Hw|apply firstn1_In; exact Hw]. }
    unfold listed in Hl. apply in_map_iff in Hl as [e [<- He]]. apply filter_In in He as [He HP].
    apply andb_true_iff in HP as [H1 H2]. exists e. repeat split; try assumption.
    destruct (Z.eqb_spec (ew e) 0) as [Z0|Z0]; [discriminate|exact Z0].
  Qed.

  Lemma from_edge_array_biadj fl edge_array weights d :
    from_edge_array ideqb as_int unique pass fl edge_array weights = Some d -> d_biadj d = bipartite fl.
  Proof.
    unfold from_edge_array.
    destruct (negb _); [discriminate|]. destruct (length edge_array =? 0); [discriminate|]. cbv zeta.
    destruct (bipartite fl).
    - destruct (index_side _ _ _ _ _) as [[? ?] ?]. destruct (index_side _ _ _ _ _) as [[? ?] ?].
      intros H. inversion H. reflexivity.
    - destruct (index_side _ _ _ _ _) as [[? ?] ?]. intros H. inversion H. reflexivity.
  Qed.

  Theorem from_edge_array_entry fl edge_array weights d :
    from_edge_array ideqb as_int unique pass fl edge_array weights = Some d ->
    (pass = true \/ weighted fl = true \/ directed fl = true \/ bipartite fl = true \/
     has_reciprocal ideqb (raw_edges edge_array weights) = false) ->
    forall i j, entry (d_matrix d) i j =
                spec_entry ideqb as_int fl (row_names d) (col_names d) (raw_edges edge_array weights) i j.
  Proof.
    intros H Hex i j. rewrite (from_edge_array_coded _ _ _ _ H).
    unfold coded_entry, spec_entry.
    destruct (bipartite fl || directed fl) eqn:BD; [reflexivity|].
    destruct (weighted fl) eqn:W; [destruct pass; reflexivity|].
    apply orb_false_iff in BD as [Bip Dir].
    pose proof (from_edge_array_biadj _ _ _ _ H) as Hb. rewrite Bip in Hb.
    unfold row_names, col_names. rewrite Hb.
    set (raw := raw_edges edge_array weights) in *.
    destruct (spec_base_unweighted fl (d_names d) (d_names d) raw i j W) as [Ha Ha1].
    destruct (spec_base_unweighted fl (d_names d) (d_names d) raw j i W) as [Hb0 Hb1].
    destruct pass eqn:Ps.
    { simpl. destruct Ha as [Ha|Ha]; destruct Hb0 as [Hb0|Hb0]; rewrite ?Ha, ?Hb0; reflexivity. }
    destruct Hex as [Hex|[Hex|[Hex|[Hex|Hex]]]]; try congruence.
    destruct Ha as [Ha|Ha]; destruct Hb0 as [Hb0|Hb0]; rewrite ?Ha, ?Hb0; try reflexivity.
    exfalso. destruct (Ha1 Ha) as [e [He [E1 [E2 E3]]]]. destruct (Hb1 Hb0) as [e' [He' [F1 [F2 F3]]]].
    assert (R : has_reciprocal ideqb raw = true).
    { unfold has_reciprocal. apply existsb_exists. exists e. split; [exact He|].
      apply existsb_exists. exists e'. split; [exact He'|].
      rewrite (is_node_inj _ _ _ _ E1 F2), (is_node_inj _ _ _ _ E2 F1), !ideqb_refl. simpl.
      destruct (Z.eqb_spec (ew e) 0); [contradiction|]. destruct (Z.eqb_spec (ew e') 0); [contradiction|].
      reflexivity. }
    congruence.
  Qed.

  (** ** Names *)

  Lemma in_combine_w {A B} (l : list A) (ws : list B) x :
    length ws = length l -> In x l -> exists w, In (x, w) (combine l ws).
  Proof.
    revert ws. induction l as [|y t IH]; intros [|w ws] L; simpl in *; try tauto; try discriminate.
    intros [->|H]; [exists w; left; reflexivity|].
    destruct (IH ws (eq_add_S _ _ L) H) as [w' Hw']. exists w'. right. exact Hw'.
  Qed.

  Theorem from_edge_array_names fl edge_array weights d :
    from_edge_array ideqb as_int unique pass fl edge_array weights = Some d ->
    (forall a b, In (a, b) edge_array ->
       exists i j, i < fst (m_shape (d_matrix d)) /\ j < snd (m_shape (d_matrix d)) /\
                   is_node (row_names d) i a = true /\ is_node (col_names d) j b = true) /\
    (forall ns, row_names d = Some ns ->
       NoDup ns /\ length ns = fst (m_shape (d_matrix d)) /\
       forall x, In x ns -> exists e, In e edge_array /\ (x = fst e \/ x = snd e)) /\
    (forall ns, col_names d = Some ns ->
       NoDup ns /\ length ns = snd (m_shape (d_matrix d)) /\
       forall x, In x ns -> exists e, In e edge_array /\ (x = fst e \/ x = snd e)) /\
    d_names d = row_names d /\
    (reindex fl = true -> row_names d <> None /\ col_names d <> None).
  Proof.
    unfold from_edge_array. intros H.
    destruct (negb (length (match weights with Some w => w | None => repeat 1%Z (length edge_array) end) =? length edge_array)) eqn:L1;
      [discriminate|].
    apply negb_false_iff, Nat.eqb_eq in L1.
    destruct (length edge_array =? 0); [discriminate|].
    cbv zeta in H. rewrite raw_typed in H. rewrite dedup_typed in H.
    set (raw := raw_edges edge_array weights) in *.
    set (reindexed := negb (int_dtype as_int (map (tw fl) raw)) || reindex fl) in *.
    assert (Hre2 : reindex fl = true -> reindexed = true).
    { intros R. unfold reindexed. rewrite R. apply orb_true_r. }
    assert (Hint : reindexed = false -> forall e, In e (map (tw fl) (dedup fl raw)) ->
                   is_some (as_int (esrc e)) = true /\ is_some (as_int (edst e)) = true).
    { intros Hre e He. apply orb_false_iff in Hre as [Hre _]. apply negb_false_iff in Hre.
      apply (int_dtype_spec _ e Hre). apply in_map_iff in He as [e0 [<- He0]].
      apply in_map. eapply dedup_incl. exact He0. }
    assert (Hkey : forall a b, In (a, b) edge_array ->
                   exists e, In e (map (tw fl) (dedup fl raw)) /\ esrc e = a /\ edst e = b).
    { intros a b Hab. destruct (in_combine_w edge_array _ (a, b) L1 Hab) as [w Hw].
      destruct (dedup_keys fl raw _ Hw) as [e' [He' Ek]]. exists (tw fl e').
      split; [apply in_map; exact He'|]. unfold esrc, edst. simpl. simpl in Ek. rewrite Ek. auto. }
    assert (Hback : forall e, In e (map (tw fl) (dedup fl raw)) -> In (fst e) edge_array).
    { intros e He. apply in_map_iff in He as [e0 [<- He0]]. simpl. apply dedup_incl in He0.
      destruct e0 as [k w]. simpl. eapply in_combine_l. exact He0. }
    destruct (bipartite fl) eqn:Bip.
    - destruct (index_side as_int unique reindexed (map esrc (map (tw fl) (dedup fl raw))) (option_map fst (shape fl)))
        as [[names_row r] n_row] eqn:IR.
      destruct (index_side as_int unique reindexed (map edst (map (tw fl) (dedup fl raw))) (option_map snd (shape fl)))
        as [[names_col c] n_col] eqn:IC.
      inversion H; subst d; clear H. unfold row_names, col_names. simpl.
      destruct (index_side_spec _ _ _ _ _ _ IR) as [fr [Er [Hfr [Hlr [Hnr Hsr]]]]].
      { intros Hre a Ha. apply in_map_iff in Ha as [e [<- He]]. apply (Hint Hre e He). }
      destruct (index_side_spec _ _ _ _ _ _ IC) as [fc [Ec [Hfc [Hlc [Hnc Hsc]]]]].
      { intros Hre a Ha. apply in_map_iff in Ha as [e [<- He]]. apply (Hint Hre e He). }
      split; [|split; [|split; [|split]]].
      + intros a b Hab. destruct (Hkey a b Hab) as [e [He [<- <-]]].
        assert (Ia : In (esrc e) (map esrc (map (tw fl) (dedup fl raw)))) by (apply in_map; exact He).
        assert (Ib : In (edst e) (map edst (map (tw fl) (dedup fl raw)))) by (apply in_map; exact He).
        exists (fr (esrc e)), (fc (edst e)). split; [apply Hlr; exact Ia|]. split; [apply Hlc; exact Ib|].
        rewrite <- (Hfr _ _ Ia), <- (Hfc _ _ Ib), !Nat.eqb_refl. auto.
      + intros ns Hns. destruct (Hnr ns Hns) as [N1 [N2 N3]]. split; [exact N1|]. split; [exact N2|].
        intros x Hx. apply N3 in Hx. apply in_map_iff in Hx as [e [<- He]]. exists (fst e).
        split; [apply Hback; exact He|left; reflexivity].
      + intros ns Hns. destruct (Hnc ns Hns) as [N1 [N2 N3]]. split; [exact N1|]. split; [exact N2|].
        intros x Hx. apply N3 in Hx. apply in_map_iff in Hx as [e [<- He]]. exists (fst e).
        split; [apply Hback; exact He|right; reflexivity].
      + reflexivity.
      + intros R. split; [apply Hsr|apply Hsc]; apply Hre2; exact R.
    - destruct (index_side as_int unique reindexed (ravel (map (tw fl) (dedup fl raw))) (option_map fst (shape fl)))
        as [[names nodes] n] eqn:IN.
      inversion H; subst d; clear H. unfold row_names, col_names. simpl.
      destruct (index_side_spec _ _ _ _ _ _ IN) as [f [En [Hf [Hl [Hn Hs]]]]].
      { intros Hre a Ha. apply in_ravel in Ha as [e [He [-> | ->]]]; apply (Hint Hre e He). }
      assert (Hshape : m_shape (if directed fl
                then {| m_shape := (n, n); m_coo := combine (unravel nodes) (map ew (map (tw fl) (dedup fl raw))); m_bool := negb (weighted fl) |}
                else directed2undirected_arg (if pass then weighted fl else true)
                       {| m_shape := (n, n); m_coo := combine (unravel nodes) (map ew (map (tw fl) (dedup fl raw))); m_bool := negb (weighted fl) |}) = (n, n)).
      { destruct (directed fl); [reflexivity|]. destruct (if pass then weighted fl else true); reflexivity. }
      rewrite Hshape. simpl.
      assert (Hnames : forall ns, names = Some ns -> NoDup ns /\ length ns = n /\
                forall x, In x ns -> exists e, In e edge_array /\ (x = fst e \/ x = snd e)).
      { intros ns Hns. destruct (Hn ns Hns) as [N1 [N2 N3]]. split; [exact N1|]. split; [exact N2|].
        intros x Hx. apply N3 in Hx. apply in_ravel in Hx as [e [He Hx]]. exists (fst e).
        split; [apply Hback; exact He|exact Hx]. }
      split; [|split; [|split; [|split]]]; try exact Hnames.
      + intros a b Hab. destruct (Hkey a b Hab) as [e [He [<- <-]]].
        assert (Ia : In (esrc e) (ravel (map (tw fl) (dedup fl raw)))) by (apply in_ravel; exists e; auto).
        assert (Ib : In (edst e) (ravel (map (tw fl) (dedup fl raw)))) by (apply in_ravel; exists e; auto).
        exists (f (esrc e)), (f (edst e)). split; [apply Hl; exact Ia|]. split; [apply Hl; exact Ib|].
        rewrite <- (Hf _ _ Ia), <- (Hf _ _ Ib), !Nat.eqb_refl. auto.
      + reflexivity.
      + intros R. split; apply Hs; apply Hre2; exact R.
  Qed.
End IngestProofs.

(** * The reference [unique] meets the oracle contract *)

Section UniqueRef.
  Context {id : Type}.
  Context (ideqb : id -> id -> bool) (leb : id -> id -> bool).
  Context (ideqb_spec : forall a b, ideqb a b = true <-> a = b).

  Lemma memb_In a l : memb ideqb a l = true <-> In a l.
  Proof.
    unfold memb. rewrite existsb_exists. split.
    - intros [x [Hx E]]. apply ideqb_spec in E. subst. exact Hx.
    - intros H. exists a. split; [exact H|apply ideqb_spec; reflexivity].
  Qed.

  Lemma insert_s_In x l z : In z (insert_s leb x l) <-> z = x \/ In z l.
  Proof.
    induction l as [|y t IH]; simpl; [intuition|].
    destruct (leb x y); simpl; [intuition|]. rewrite IH. intuition.
  Qed.

  Lemma insert_s_NoDup x l : NoDup l -> ~ In x l -> NoDup (insert_s leb x l).
  Proof.
    induction l as [|y t IH]; intros Hnd Hx; simpl.
    - constructor; [tauto|constructor].
    - destruct (leb x y); [constructor; assumption|].
      inversion Hnd as [|? ? Hy Ht]; subst. constructor.
      + rewrite insert_s_In. intros [->|H]; [apply Hx; left; reflexivity|contradiction].
      + apply IH; [exact Ht|]. intros H. apply Hx. right. exact H.
  Qed.

  Lemma sort_unique_In l z : In z (sort_unique ideqb leb l) <-> In z l.
  Proof.
    induction l as [|x t IH]; simpl; [tauto|]. unfold add_u.
    destruct (memb ideqb x (sort_unique ideqb leb t)) eqn:M.
    - rewrite IH. split; [auto|]. intros [<-|H]; [|exact H]. apply IH. apply memb_In. exact M.
    - rewrite insert_s_In, IH. intuition.
  Qed.

  Lemma sort_unique_NoDup l : NoDup (sort_unique ideqb leb l).
  Proof.
    induction l as [|x t IH]; simpl; [constructor|]. unfold add_u.
    destruct (memb ideqb x (sort_unique ideqb leb t)) eqn:M; [exact IH|].
    apply insert_s_NoDup; [exact IH|]. intros H. apply memb_In in H. congruence.
  Qed.

  Theorem unique_ref_ok : unique_ok ideqb (unique_ref ideqb leb).
  Proof.
    intros l. unfold unique_ref. simpl. split; [apply sort_unique_NoDup|].
    split; [intros x; apply sort_unique_In|reflexivity].
  Qed.
End UniqueRef.

Lemma nat_unique_ok : unique_ok Nat.eqb nat_unique.
Proof. apply unique_ref_ok. apply Nat.eqb_eq. Qed.
Lemma str_unique_ok : unique_ok String.eqb str_unique.
Proof. apply unique_ref_ok. apply String.eqb_eq. Qed.

(** * Instances of the theorems *)

Definition as_int_nat (k : nat) : option nat := Some k.
Definition as_int_str (s : string) : option nat := None.

Theorem edge_array_entry_nat pass fl edge_array weights d :
  from_edge_list_nat pass fl edge_array weights = Some d ->
  (pass = true \/ weighted fl = true \/ directed fl = true \/ bipartite fl = true \/
   has_reciprocal Nat.eqb (raw_edges edge_array weights) = false) ->
  forall i j, entry (d_matrix d) i j =
              spec_entry Nat.eqb as_int_nat fl (row_names d) (col_names d) (raw_edges edge_array weights) i j.
Proof.
  apply (from_edge_array_entry Nat.eqb as_int_nat nat_unique pass Nat.eqb_eq).
  - intros a b k Ha Hb. unfold as_int_nat in *. congruence.
  - exact nat_unique_ok.
Qed.

Theorem edge_array_entry_str pass fl edge_array weights d :
  from_edge_list_str pass fl edge_array weights = Some d ->
  (pass = true \/ weighted fl = true \/ directed fl = true \/ bipartite fl = true \/
   has_reciprocal String.eqb (raw_edges edge_array weights) = false) ->
  forall i j, entry (d_matrix d) i j =
              spec_entry String.eqb as_int_str fl (row_names d) (col_names d) (raw_edges edge_array weights) i j.
Proof.
  apply (from_edge_array_entry String.eqb as_int_str str_unique pass String.eqb_eq).
  - intros a b k Ha. discriminate Ha.
  - exact str_unique_ok.
Qed.

(** The coded symmetrisation adds the two directions even for an unweighted graph: a reciprocal pair
    gets the entry 2 where the specification (binary entry) says 1. *)
Definition d16_flags : flags :=
  {| directed := false; bipartite := false; weighted := false; reindex := false;
     sum_duplicates := true; shape := None; matrix_only := None |}.

Theorem unweighted_undirected_binary_refuted :
  exists (edge_array : list (nat * nat)) d i j,
    from_edge_list_nat false d16_flags edge_array None = Some d /\
    entry (d_matrix d) i j = 2%Z /\
    spec_entry Nat.eqb as_int_nat d16_flags (row_names d) (col_names d) (raw_edges edge_array None) i j = 1%Z.
Proof.
  exists [(0, 1); (1, 0)]. eexists. exists 0, 1.
  split; [vm_compute; reflexivity|]. split; vm_compute; reflexivity.
Qed.

(** * CSV text: a file yields the rows it was written from *)

Local Open Scope string_scope.

Lemma contains_app c a b : contains c (a ++ b) = contains c a || contains c b.
Proof. induction a as [|x t IH]; simpl; [reflexivity|]. rewrite IH. apply orb_assoc. Qed.

Lemma contains_join c (d : ascii) l :
  Ascii.eqb d c = false -> Forall (fun x => contains c x = false) l -> contains c (join (String d "") l) = false.
Proof.
  intros Hd. induction l as [|x t IH]; intros H; [reflexivity|].
  inversion H as [|? ? Hx Ht]; subst. destruct t as [|y t']; [exact Hx|].
  change (join (String d "") (x :: y :: t')) with (x ++ String d (join (String d "") (y :: t'))).
  rewrite contains_app, Hx. simpl. rewrite Hd. simpl. apply IH. exact Ht.
Qed.

Lemma split_render ls :
  Forall (fun l => contains newline l = false) ls -> split newline (render_lines ls) = (ls ++ [""])%list.
Proof.
  induction ls as [|l t IH]; intros H; [reflexivity|].
  inversion H as [|? ? Hl Ht]; subst. simpl render_lines.
  rewrite (split_app newline l _ Hl). rewrite (IH Ht). reflexivity.
Qed.

Lemma lines_of_render ls :
  Forall (fun l => contains newline l = false) ls -> lines_of (render_lines ls) = ls.
Proof.
  intros H. unfold lines_of. rewrite (split_render ls H). rewrite rev_app_distr. simpl. apply rev_involutive.
Qed.

Lemma scan_data n comments D : forall hl cg rows,
  Forall (fun l => starts_with_any comments l = false) D ->
  fst (fst (scan n comments D hl cg rows)) = hl.
Proof.
  induction D as [|l t IH]; intros hl cg rows H; simpl; [reflexivity|].
  inversion H as [|? ? Hl Ht]; subst. rewrite Hl.
  match goal with |- context [if ?c then _ else _] => destruct c end; [reflexivity|]. apply IH. exact Ht.
Qed.

Lemma scan_header_lines n comments header D : forall hl cg,
  Forall (fun l => starts_with_any comments l = true) header ->
  Forall (fun l => starts_with_any comments l = false) D ->
  fst (fst (scan n comments (header ++ D)%list hl cg [])) = hl + length header.
Proof.
  induction header as [|h t IH]; intros hl cg Hh HD; simpl.
  - rewrite scan_data; [lia|exact HD].
  - inversion Hh as [|? ? H1 H2]; subst. rewrite H1. rewrite IH; [lia|exact H2|exact HD].
Qed.

Lemma skipn_app_length {A} (a b : list A) : skipn (length a) (a ++ b)%list = b.
Proof. induction a as [|x t IH]; simpl; [reflexivity|exact IH]. Qed.

(** One row: splitting the joined fields on the delimiter gives the fields back. *)
Theorem csv_row_join d fields :
  fields <> [] -> Forall (fun x => contains d x = false) fields -> join (String d "") fields <> "" ->
  csv_row d (join (String d "") fields) = fields.
Proof.
  intros Hne HF Hnb. unfold csv_row.
  destruct (String.eqb_spec (join (String d "") fields) ""); [contradiction|].
  apply split_join; assumption.
Qed.

Definition row_ok (d : ascii) (comments : list ascii) (r : list string) : Prop :=
  r <> [] /\ Forall (fun x => contains d x = false /\ contains newline x = false) r /\
  starts_with_any comments (join (String d "") r) = false /\ join (String d "") r <> "".

(** A whole file: header comment lines, then the rows. *)
Theorem csv_table_render n_scan d comments header rows :
  comments <> [] -> Ascii.eqb d newline = false ->
  Forall (fun h => starts_with_any comments h = true /\ contains newline h = false) header ->
  Forall (row_ok d comments) rows ->
  csv_table n_scan d comments (render_csv d header rows) = rows.
Proof.
  intros Hc Hd Hh Hr. unfold csv_table, render_csv. destruct comments as [|c0 cs]; [congruence|].
  set (D := map (join (String d "")) rows).
  assert (HL : Forall (fun l => contains newline l = false) (header ++ D)%list).
  { apply Forall_app. split.
    - eapply Forall_impl; [|exact Hh]. intros h [_ H]. exact H.
    - unfold D. apply Forall_forall. intros l Hl. apply in_map_iff in Hl as [r [<- Hr']].
      rewrite Forall_forall in Hr. destruct (Hr r Hr') as [_ [HF _]].
      apply contains_join; [exact Hd|]. eapply Forall_impl; [|exact HF]. intros x [_ H]. exact H. }
  rewrite (lines_of_render _ HL).
  destruct (scan n_scan (c0 :: cs) (header ++ D)%list 0 c0 []) as [[hl cg] rws] eqn:S.
  assert (Ehl : hl = length header).
  { change hl with (fst (fst (hl, cg, rws))). rewrite <- S. rewrite scan_header_lines; [reflexivity| |].
    - eapply Forall_impl; [|exact Hh]. intros h [H _]. exact H.
    - unfold D. apply Forall_forall. intros l Hl. apply in_map_iff in Hl as [r [<- Hr']].
      rewrite Forall_forall in Hr. destruct (Hr r Hr') as [_ [_ [H _]]]. exact H. }
  subst hl. rewrite skipn_app_length. unfold D. rewrite map_map.
  rewrite <- (map_id rows) at 2. apply map_ext_in. intros r Hr'.
  rewrite Forall_forall in Hr. destruct (Hr r Hr') as [H1 [H2 [_ H4]]].
  apply csv_row_join; [exact H1| |exact H4]. eapply Forall_impl; [|exact H2]. intros x [H _]. exact H.
Qed.

(** ** The delimiter guess *)

Lemma sumn_zero l : (forall x, In x l -> x = 0) -> sumn l = 0.
Proof.
  induction l as [|x t IH]; intros H; simpl; [reflexivity|].
  rewrite (H x (or_introl eq_refl)). apply IH. intros y Hy. apply H. right. exact Hy.
Qed.

Lemma sumn_pos l x : In x l -> 0 < x -> 0 < sumn l.
Proof. induction l as [|y t IH]; simpl; [tauto|]. intros [->|H] Hx; [lia|]. specialize (IH H Hx). lia. Qed.

Lemma argmax_first_only (f : ascii -> nat) (d : ascii) : 0 < f d -> forall l best,
  (forall x, In x l -> x <> d -> f x = 0) ->
  (best = d \/ (f best = 0 /\ In d l)) -> argmax_first f l best = d.
Proof.
  intros Hd. induction l as [|x t IH]; intros best Hz Hb; simpl.
  - destruct Hb as [Hb|[_ []]]. exact Hb.
  - assert (Hz' : forall y, In y t -> y <> d -> f y = 0) by (intros y Hy; apply Hz; right; exact Hy).
    destruct (f best <? f x)%nat eqn:L.
    + apply Nat.ltb_lt in L. apply IH; [exact Hz'|]. left.
      destruct (ascii_dec x d) as [E|N]; [exact E|]. rewrite (Hz x (or_introl eq_refl) N) in L. lia.
    + apply Nat.ltb_ge in L. apply IH; [exact Hz'|].
      destruct Hb as [Hb|[Hb0 [E|Hin]]]; [left; exact Hb| |right; split; assumption].
      subst x. lia.
Qed.

(** If, among the candidate delimiters, only [d] occurs in the rows (and it does occur), the guess is [d]. *)
Theorem guess_delimiter_only delims rows d :
  In d delims ->
  (forall d', In d' delims -> d' <> d -> forall r, In r rows -> count_char d' r = 0) ->
  (exists r, In r rows /\ 0 < count_char d r) ->
  guess_delimiter delims rows = Some d.
Proof.
  intros Hin Hother [r0 [Hr0 Hpos]].
  set (total := fun d0 => sumn (map (count_char d0) rows)).
  assert (Ht0 : forall d', In d' delims -> d' <> d -> total d' = 0).
  { intros d' H1 H2. unfold total. apply sumn_zero. intros x Hx. apply in_map_iff in Hx as [r [<- Hr]].
    apply (Hother d' H1 H2 r Hr). }
  assert (Htd : 0 < total d).
  { unfold total. apply (sumn_pos _ (count_char d r0)); [apply in_map; exact Hr0|exact Hpos]. }
  set (good := fun d0 => ((0 <? total d0)%nat && all_equal (map (count_char d0) rows))%bool).
  assert (Hgood : forall x, In x (filter good delims) -> x = d).
  { intros x Hx. apply filter_In in Hx as [Hx Hg]. unfold good in Hg. apply andb_true_iff in Hg as [Hg _].
    apply Nat.ltb_lt in Hg. destruct (ascii_dec x d) as [E|N]; [exact E|]. rewrite (Ht0 x Hx N) in Hg. lia. }
  assert (Harg : match delims with [] => None | d0 :: t => Some (argmax_first total t d0) end = Some d).
  { destruct delims as [|d0 t]; [contradiction|]. f_equal. apply argmax_first_only; [exact Htd| |].
    - intros x Hx. apply Ht0. right. exact Hx.
    - destruct (ascii_dec d0 d) as [E|N]; [left; exact E|]. right. split; [apply Ht0; [left; reflexivity|exact N]|].
      destruct Hin as [E|H]; [contradiction|exact H]. }
  assert (G : guess_delimiter delims rows =
              match filter good delims with
              | [x] => Some x
              | _ => match delims with [] => None | d0 :: t => Some (argmax_first total t d0) end
              end) by reflexivity.
  rewrite G.
  destruct (filter good delims) as [|x [|y t]] eqn:F; try exact Harg.
  f_equal. apply Hgood. left. reflexivity.
Qed.

(** Instances of the interleaving theorem for the loop shapes that occur in the kernels. *)
From SKN Require Import Base.Util Model.Prange Proofs.PrangeProofs.

(** Loop shape "a[i] op= f(read-only data, a[i])" (push.pyx initialisation): iteration i writes only cell i and
    reads only cell i or cells of a read-only region (index >= number of iterations). *)
Lemma own_cell_writes_independent (ps : list prog) :
  (forall a c, a < length ps -> In c (writes (nth a ps [])) -> c = a) ->
  (forall a c, a < length ps -> In c (reads (nth a ps [])) -> c = a \/ length ps <= c) ->
  independent ps.
Proof.
  intros Hw Hr a b Ha Hb Hab c Hc.
  apply Hw in Hc; [|exact Ha]. subst c. split.
  - intros Hin. apply Hr in Hin; [|exact Hb]. destruct Hin as [E|E]; [congruence|lia].
  - intros Hin. apply Hw in Hin; [|exact Hb]. congruence.
Qed.

(** Loop shape "reduction only" (triangles.pyx): iterations write no shared cell at all. *)
Lemma write_free_independent (ps : list prog) :
  (forall a, a < length ps -> writes (nth a ps []) = []) -> independent ps.
Proof.
  intros H a b Ha Hb Hab c Hc. rewrite (H a Ha) in Hc. contradiction.
Qed.

Theorem own_cell_loop_schedule_independent (ps : list prog) (m0 : mem) (sched : list nat) :
  (forall a c, a < length ps -> In c (writes (nth a ps [])) -> c = a) ->
  (forall a c, a < length ps -> In c (reads (nth a ps [])) -> c = a \/ length ps <= c) ->
  in_range ps (length m0) -> complete ps sched ->
  fst (run sched m0 (init_threads ps)) = fst (run (seq_sched ps) m0 (init_threads ps)).
Proof.
  intros Hw Hr Hin Hc. apply independent_iterations_commute; auto using own_cell_writes_independent.
Qed.

Theorem write_free_loop_schedule_independent (ps : list prog) (m0 : mem) (sched : list nat) :
  (forall a, a < length ps -> writes (nth a ps []) = []) ->
  in_range ps (length m0) -> complete ps sched ->
  fst (run sched m0 (init_threads ps)) = fst (run (seq_sched ps) m0 (init_threads ps)).
Proof.
  intros Hw Hin Hc. apply independent_iterations_commute; auto using write_free_independent.
Qed.

(** The legacy inner loop of push.pyx: two complete schedules, two work-lists (a lost update). *)
Theorem legacy_push_worklist_refuted_pf :
  exists s1 s2 m0,
    complete legacy_push_two_neighbours s1 /\ complete legacy_push_two_neighbours s2 /\
    fst (run s1 m0 (init_threads legacy_push_two_neighbours)) <>
    fst (run s2 m0 (init_threads legacy_push_two_neighbours)) /\
    independent_b legacy_push_two_neighbours = false.
Proof.
  exists [0;0;0;0;1;1;1;1], [0;0;0;1;1;1;0;1], [0;0;0]%Z.
  split; [|split; [|split]].
  - split.
    + intros a H. simpl in H. simpl. intuition lia.
    + intros a Ha. simpl in Ha. destruct a as [|[|a]]; [reflexivity | reflexivity | lia].
  - split.
    + intros a H. simpl in H. simpl. intuition lia.
    + intros a Ha. simpl in Ha. destruct a as [|[|a]]; [reflexivity | reflexivity | lia].
  - vm_compute. discriminate.
  - vm_compute. reflexivity.
Qed.

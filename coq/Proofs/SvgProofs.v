(** Proofs/SvgProofs.v — the sanitiser yields character data for every input; every templater of
    Model/Svg.v yields a well-formed element for all names and all safe fields; the assembled
    documents are well-formed with root svg; element counts; refutation for a label site whose
    replacement list lacks the less-than sign. *)
From SKN Require Import Model.Xml Proofs.XmlProofs Model.Svg.
From Coq Require Import String Ascii List Bool Arith Lia.
Import ListNotations.
Open Scope string_scope.

(** * The sanitiser *)

Lemma replace_char_app c r a b :
  replace_char c r (a ++ b) = replace_char c r a ++ replace_char c r b.
Proof.
  induction a as [|x a IH]; simpl; [reflexivity|].
  destruct (Ascii.eqb x c); rewrite IH; [now rewrite sapp_assoc | reflexivity].
Qed.

Lemma replace_char_id c r e : no_char c e = true -> replace_char c r e = e.
Proof.
  induction e as [|x e IH]; simpl; [reflexivity|]. intros H.
  apply andb_true_iff in H as [H1 H2]. apply negb_true_iff in H1. now rewrite H1, (IH H2).
Qed.

Lemma no_char_replace_other d c r s :
  no_char d r = true -> no_char d s = true -> no_char d (replace_char c r s) = true.
Proof.
  intros Hr. induction s as [|x s IH]; simpl; [reflexivity|]. intros H.
  apply andb_true_iff in H as [H1 H2].
  destruct (Ascii.eqb x c).
  - now rewrite no_char_app, Hr, (IH H2).
  - unfold no_char in *. simpl. now rewrite H1, (IH H2).
Qed.

Lemma no_char_replace_same c r s : no_char c r = true -> no_char c (replace_char c r s) = true.
Proof.
  intros Hr. induction s as [|x s IH]; simpl; [reflexivity|].
  destruct (Ascii.eqb x c) eqn:E.
  - now rewrite no_char_app, Hr, IH.
  - unfold no_char in *. simpl. now rewrite E, IH.
Qed.

Lemma amp_ok_replace_amp r s : amp_ok r = true -> amp_ok (replace_char "&" r s) = true.
Proof.
  intros Hr. induction s as [|x s IH]; simpl; [reflexivity|].
  destruct (Ascii.eqb x "&") eqn:E.
  - now apply amp_ok_app.
  - simpl. now rewrite E, IH.
Qed.

Lemma entity_prefix_replace c r t :
  is_entity_char c = false -> entity_prefix t = true -> entity_prefix (replace_char c r t) = true.
Proof.
  unfold is_entity_char, entity_prefix. intros Hc H.
  apply negb_false_iff in Hc. rewrite forallb_forall in Hc.
  apply existsb_exists in H as [e [He Hs]]. apply starts_spec in Hs as [t' ->].
  apply existsb_exists. exists e. split; [exact He|].
  rewrite replace_char_app, (replace_char_id _ _ _ (Hc _ He)). apply starts_refl_app.
Qed.

Lemma amp_ok_replace_other c r s :
  Ascii.eqb c "&" = false -> is_entity_char c = false -> amp_ok r = true -> amp_ok s = true ->
  amp_ok (replace_char c r s) = true.
Proof.
  intros Hc He Hr. induction s as [|x s IH]; simpl; [reflexivity|]. intros H.
  apply andb_true_iff in H as [H1 H2]. specialize (IH H2).
  destruct (Ascii.eqb x c) eqn:E.
  - now apply amp_ok_app.
  - simpl. rewrite IH, andb_true_r.
    destruct (Ascii.eqb x "&"); [now apply entity_prefix_replace | reflexivity].
Qed.

Definition san_inv (amp lt gt : bool) (s : string) : Prop :=
  (amp = true -> amp_ok s = true) /\ (lt = true -> no_char "<" s = true) /\ (gt = true -> no_char ">" s = true).

Lemma sanitise_from_ok l : forall amp lt gt s,
  sanitiser_ok_from amp lt gt l = true -> san_inv amp lt gt s -> text_ok (sanitise l s) = true.
Proof.
  induction l as [|[c r] l IH]; intros amp lt gt s H (Ia & Il & Ig).
  - simpl in H. apply andb_true_iff in H as [H Hg]. apply andb_true_iff in H as [Ha Hl].
    simpl. unfold text_ok. now rewrite (Il Hl), (Ia Ha), (no_gt_no_cdata_end _ (Ig Hg)).
  - cbn [sanitiser_ok_from] in H.
    apply andb_true_iff in H as [H Hrest]. apply andb_true_iff in H as [H Hra].
    apply andb_true_iff in H as [Hrl Hrg].
    unfold sanitise. cbn [fold_left fst snd]. fold (sanitise l (replace_char c r s)).
    destruct (Ascii.eqb c "&") eqn:Ec.
    + apply Ascii.eqb_eq in Ec. subst c.
      apply (IH true lt gt); [exact Hrest|]. repeat split.
      * intros _. now apply amp_ok_replace_amp.
      * intros E. apply no_char_replace_other; auto.
      * intros E. apply no_char_replace_other; auto.
    + apply andb_true_iff in Hrest as [Hent Hrest].
      apply (IH amp (lt || Ascii.eqb c "<") (gt || Ascii.eqb c ">")); [exact Hrest|]. repeat split.
      * intros E. subst amp. simpl in Hent. apply negb_true_iff in Hent.
        apply amp_ok_replace_other; auto.
      * intros E. apply orb_true_iff in E as [E|E].
        -- apply no_char_replace_other; auto.
        -- apply Ascii.eqb_eq in E. subst c. now apply no_char_replace_same.
      * intros E. apply orb_true_iff in E as [E|E].
        -- apply no_char_replace_other; auto.
        -- apply Ascii.eqb_eq in E. subst c. now apply no_char_replace_same.
Qed.

(** For EVERY string [s]: the sanitised text is character data. *)
Theorem sanitised_text_ok l s : sanitiser_ok l = true -> text_ok (sanitise l s) = true.
Proof.
  intros H. apply (sanitise_from_ok l false false false); [exact H|].
  repeat split; discriminate.
Qed.

Theorem sanitised_text_safe l s :
  sanitiser_ok l = true ->
  no_char "<" (sanitise l s) = true /\ amp_ok (sanitise l s) = true /\ no_cdata_end (sanitise l s) = true.
Proof.
  intros H. pose proof (sanitised_text_ok l s H) as T. unfold text_ok in T.
  apply andb_true_iff in T as [T T3]. apply andb_true_iff in T as [T1 T2]. now repeat split.
Qed.

(** The condition implies what the obligation asks for: the three characters are replaced. *)
Lemma sanitiser_ok_from_replaces l : forall amp lt gt,
  sanitiser_ok_from amp lt gt l = true ->
  (amp || replaces "&" l) && (lt || replaces "<" l) && (gt || replaces ">" l) = true.
Proof.
  induction l as [|[c r] l IH]; intros amp lt gt H.
  - simpl in *. now rewrite !orb_false_r.
  - cbn [sanitiser_ok_from] in H. apply andb_true_iff in H as [_ H].
    assert (H' : sanitiser_ok_from (amp || Ascii.eqb c "&") (lt || Ascii.eqb c "<") (gt || Ascii.eqb c ">") l = true).
    { destruct (Ascii.eqb c "&") eqn:Ec.
      - apply Ascii.eqb_eq in Ec. subst c.
        replace (Ascii.eqb "&" "<") with false by reflexivity.
        replace (Ascii.eqb "&" ">") with false by reflexivity.
        now rewrite !orb_false_r, orb_true_r.
      - apply andb_true_iff in H as [_ H]. now rewrite orb_false_r. }
    apply IH in H'. unfold replaces in *. cbn [existsb fst]. now rewrite !orb_assoc.
Qed.

Theorem sanitiser_ok_replaces l :
  sanitiser_ok l = true -> replaces "&" l = true /\ replaces "<" l = true /\ replaces ">" l = true.
Proof.
  intros H. apply sanitiser_ok_from_replaces in H. simpl in H.
  apply andb_true_iff in H as [H H3]. apply andb_true_iff in H as [H1 H2]. now repeat split.
Qed.

(** * Safe fields *)

Lemma safe_field_app a b : safe_field (a ++ b) = safe_field a && safe_field b.
Proof. apply all_chars_app. Qed.

Lemma safe_attr v : safe_field v = true -> attr_value_ok v = true.
Proof.
  intros H. unfold attr_value_ok, safe_field in *.
  assert (H1 : no_char "<" v = true).
  { revert H. apply all_chars_impl. unfold safe_char. intros c Hc.
    apply andb_true_iff in Hc as [Hc _]. now apply andb_true_iff in Hc as [Hc _]. }
  assert (H2 : no_char """" v = true).
  { revert H. apply all_chars_impl. unfold safe_char. intros c Hc.
    now apply andb_true_iff in Hc as [_ Hc]. }
  assert (H3 : no_char "&" v = true).
  { revert H. apply all_chars_impl. unfold safe_char. intros c Hc.
    apply andb_true_iff in Hc as [Hc _]. now apply andb_true_iff in Hc as [_ Hc]. }
  now rewrite H1, H2, (no_amp_amp_ok _ H3).
Qed.

Ltac safe :=
  repeat match goal with
         | |- safe_field (_ ++ _) = true => rewrite safe_field_app; apply andb_true_intro; split
         | |- safe_field _ = true => first [assumption | reflexivity]
         end.

(** Break a conjunction of booleans in hypothesis [H] into its atoms. *)
Ltac brk H :=
  repeat match type of H with
         | (_ && _) = true => let H' := fresh "S" in apply andb_true_iff in H as [H H']
         end.

Lemma attr_ok_intro w n v :
  negb (is_empty w) && ws_ok w && name_ok n = true -> safe_field v = true -> attr_ok (w, n, v) = true.
Proof. intros H Hv. unfold attr_ok. now rewrite H, (safe_attr _ Hv). Qed.

Ltac attrs :=
  unfold attrs_ok; apply andb_true_intro; split;
  [ repeat (cbn [forallb]; apply andb_true_intro; split; [apply attr_ok_intro; [reflexivity | safe] | ]);
    reflexivity
  | reflexivity ].

Ltac tpl := unfold elem_empty, elem_open, render_attrs, render_attr; seq.

Lemma text_anchor_safe p : safe_field (text_anchor p) = true.
Proof.
  unfold text_anchor.
  destruct (String.eqb p "left"); [reflexivity|].
  destruct (String.eqb p "above"); [reflexivity|].
  destruct (String.eqb p "below"); reflexivity.
Qed.

(** * Templaters *)

(** [elem_nl tag s]: [s] is one element with tag [tag] followed by a newline. *)
Definition elem_nl (tag s : string) : Prop := exists e, s = e ++ nl /\ wf_elem tag e.

(** [pre_content s]: [s] may be put in front of any content. *)
Definition pre_content (s : string) : Prop := forall c, wf_content c -> wf_content (s ++ c).

Lemma pre_content_nil : pre_content "".
Proof. intros c Hc. exact Hc. Qed.

Lemma pre_content_app a b : pre_content a -> pre_content b -> pre_content (a ++ b).
Proof. intros Ha Hb c Hc. rewrite sapp_assoc. apply Ha, Hb, Hc. Qed.

Lemma pre_content_sconcat l : Forall pre_content l -> pre_content (sconcat l).
Proof.
  induction 1 as [|s l Hs _ IH]; simpl; [apply pre_content_nil | now apply pre_content_app].
Qed.

Lemma pre_content_map {A} (f : A -> string) l :
  (forall x, In x l -> pre_content (f x)) -> pre_content (sconcat (map f l)).
Proof.
  intros H. apply pre_content_sconcat. apply Forall_forall. intros s Hs.
  apply in_map_iff in Hs as [x [<- Hx]]. now apply H.
Qed.

Lemma pre_content_elem n e : wf_elem n e -> pre_content e.
Proof. intros He c Hc. now apply wf_content_elem with (n := n). Qed.

Lemma pre_content_ws w : ws_ok w = true -> pre_content w.
Proof. intros Hw c Hc. now apply wf_content_ws. Qed.

Lemma pre_content_elem_nl tag s : elem_nl tag s -> pre_content s.
Proof.
  intros (e & -> & He). apply pre_content_app; [now apply pre_content_elem with (n := tag)|].
  now apply pre_content_ws.
Qed.

Lemma pre_content_wf s : pre_content s -> wf_content s.
Proof. intros H. rewrite <- (sapp_nil_r s). apply H, wf_content_nil. Qed.

Lemma svg_node_wf x y size color sw sc :
  safe_field x = true -> safe_field y = true -> safe_field size = true -> safe_field color = true ->
  safe_field sw = true -> safe_field sc = true ->
  elem_nl "circle" (svg_node x y size color sw sc).
Proof.
  intros Hx Hy Hs Hc Hw Hk.
  exists (elem_empty "circle" [(" ", "cx", x); (" ", "cy", y); (" ", "r", size);
                               (" ", "style", "fill:" ++ color ++ ";stroke:" ++ sc ++ ";stroke-width:" ++ sw)] "").
  split; [unfold svg_node; tpl|].
  apply elem_empty_wf; [reflexivity | attrs | reflexivity].
Qed.

Lemma svg_wedge_wf x y size sw sc w :
  safe_field x = true -> safe_field y = true -> safe_field size = true ->
  safe_field sw = true -> safe_field sc = true -> wedge_safe w = true ->
  elem_nl "path" (svg_wedge x y size sw sc w) /\ starts "<path d=" (svg_wedge x y size sw sc w) = true.
Proof.
  intros Hx Hy Hs Hw Hk Hwd. unfold wedge_safe in Hwd. brk Hwd.
  split; [|reflexivity].
  exists (elem_empty "path"
            [(" ", "d", "M " ++ w_x0 w ++ " " ++ w_y0 w ++ " A " ++ size ++ " " ++ size ++ " 0 " ++ w_large w ++
                        " 1 " ++ w_x1 w ++ " " ++ w_y1 w ++ " L " ++ x ++ " " ++ y);
             (" ", "style", "fill:" ++ w_color w ++ ";stroke:" ++ sc ++ ";stroke-width:" ++ sw)] " ").
  split; [unfold svg_wedge; tpl|].
  apply elem_empty_wf; [reflexivity | attrs | reflexivity].
Qed.

Lemma svg_edge_wf x1 y1 x2 y2 ew ec :
  safe_field x1 = true -> safe_field y1 = true -> safe_field x2 = true -> safe_field y2 = true ->
  safe_field ew = true -> safe_field ec = true ->
  elem_nl "path" (svg_edge x1 y1 x2 y2 ew ec) /\ starts "<path stroke-width=" (svg_edge x1 y1 x2 y2 ew ec) = true.
Proof.
  intros H1 H2 H3 H4 H5 H6. split; [|reflexivity].
  exists (elem_empty "path" [(" ", "stroke-width", ew); (" ", "stroke", ec);
                             (" ", "d", "M " ++ x1 ++ " " ++ y1 ++ " " ++ x2 ++ " " ++ y2)] "").
  split; [unfold svg_edge; tpl|].
  apply elem_empty_wf; [reflexivity | attrs | reflexivity].
Qed.

Lemma svg_edge_directed_wf x1 y1 x2 y2 ew ec :
  safe_field x1 = true -> safe_field y1 = true -> safe_field x2 = true -> safe_field y2 = true ->
  safe_field ew = true -> safe_field ec = true ->
  elem_nl "path" (svg_edge_directed true x1 y1 x2 y2 ew ec) /\
  starts "<path stroke-width=" (svg_edge_directed true x1 y1 x2 y2 ew ec) = true /\
  svg_edge_directed false x1 y1 x2 y2 ew ec = "".
Proof.
  intros H1 H2 H3 H4 H5 H6. split; [|split; reflexivity].
  exists (elem_empty "path" [(" ", "stroke-width", ew); (" ", "stroke", ec);
                             (" ", "d", "M " ++ x1 ++ " " ++ y1 ++ " " ++ x2 ++ " " ++ y2);
                             (" ", "marker-end", "url(#arrow-" ++ ec ++ ")")] "").
  split; [unfold svg_edge_directed; tpl|].
  apply elem_empty_wf; [reflexivity | attrs | reflexivity].
Qed.

(** svg_text: for ALL names, all positions, all safe fields. *)
Lemma svg_text_wf repl x y text fs pos :
  sanitiser_ok repl = true -> safe_field x = true -> safe_field y = true -> safe_field fs = true ->
  wf_elem "text" (svg_text_with repl x y text fs pos).
Proof.
  intros Hr Hx Hy Hf. pose proof (text_anchor_safe pos) as Ha.
  replace (svg_text_with repl x y text fs pos)
    with (elem_open "text" [(" ", "text-anchor", text_anchor pos); (" ", "x", x); (" ", "y", y);
                            (" ", "font-size", fs)] "" (sanitise repl text) "")
    by (unfold svg_text_with; tpl).
  apply elem_open_wf; [reflexivity | attrs | reflexivity | | reflexivity].
  apply wc_last. now apply sanitised_text_ok.
Qed.

Lemma svg_marker_wf color : safe_field color = true -> elem_nl "defs" (svg_marker color).
Proof.
  intros Hc.
  set (path := elem_empty "path" [(" ", "d", "M0,0 L0,6 L9,3 z"); (" ", "fill", color)] "").
  set (marker := elem_open "marker"
                   [(" ", "id", "arrow-" ++ color); (" ", "markerWidth", "10"); (" ", "markerHeight", "10");
                    (" ", "refX", "9"); (" ", "refY", "3"); (nl ++ "                ", "orient", "auto")]
                   " " (nl ++ path ++ "") "").
  exists (elem_open "defs" [] "" (marker ++ "") "").
  split; [unfold svg_marker, marker, path; tpl|].
  assert (Hp : wf_elem "path" path).
  { apply elem_empty_wf; [reflexivity | attrs | reflexivity]. }
  assert (Hm : wf_elem "marker" marker).
  { apply elem_open_wf; [reflexivity | attrs | reflexivity | | reflexivity].
    apply wf_content_ws; [reflexivity|]. apply wf_content_elem with (n := "path"); [exact Hp|].
    apply wf_content_nil. }
  apply elem_open_wf; [reflexivity | reflexivity | reflexivity | | reflexivity].
  apply wf_content_elem with (n := "marker"); [exact Hm | apply wf_content_nil].
Qed.

Lemma svg_line_wf lw color x1 y1 x2 y2 :
  safe_field lw = true -> safe_field color = true -> safe_field x1 = true -> safe_field y1 = true ->
  safe_field x2 = true -> safe_field y2 = true ->
  wf_elem "path" (svg_line lw color x1 y1 x2 y2) /\ starts "<path stroke-width=" (svg_line lw color x1 y1 x2 y2) = true.
Proof.
  intros H1 H2 H3 H4 H5 H6. split; [|reflexivity].
  replace (svg_line lw color x1 y1 x2 y2)
    with (elem_empty "path" [(" ", "stroke-width", lw); (" ", "stroke", color);
                             (" ", "d", "M " ++ x1 ++ " " ++ y1 ++ " " ++ x2 ++ " " ++ y2)] " ")
    by (unfold svg_line; tpl).
  apply elem_empty_wf; [reflexivity | attrs | reflexivity].
Qed.

Lemma dendrogram_text_top_wf repl rn fs t :
  sanitiser_ok repl = true -> safe_field fs = true -> label_safe t = true ->
  wf_elem "text" (dendrogram_text_top repl rn fs t).
Proof.
  intros Hr Hf Ht. unfold label_safe in Ht. brk Ht. unfold dendrogram_text_top. destruct rn.
  - replace ("<text x=""" ++ t_x t ++ """ y=""" ++ t_y t ++ """  transform=""rotate(60, " ++ t_x t ++ ", " ++ t_y t ++
             ")"" font-size=""" ++ fs ++ """>" ++ sanitise repl (t_name t) ++ "</text>")
      with (elem_open "text" [(" ", "x", t_x t); (" ", "y", t_y t);
                              ("  ", "transform", "rotate(60, " ++ t_x t ++ ", " ++ t_y t ++ ")");
                              (" ", "font-size", fs)] "" (sanitise repl (t_name t)) "") by tpl.
    apply elem_open_wf; [reflexivity | attrs | reflexivity | | reflexivity].
    apply wc_last. now apply sanitised_text_ok.
  - replace ("<text x=""" ++ t_x t ++ """ y=""" ++ t_y t ++ """  font-size=""" ++ fs ++ """>" ++
             sanitise repl (t_name t) ++ "</text>")
      with (elem_open "text" [(" ", "x", t_x t); (" ", "y", t_y t); ("  ", "font-size", fs)] ""
                      (sanitise repl (t_name t)) "") by tpl.
    apply elem_open_wf; [reflexivity | attrs | reflexivity | | reflexivity].
    apply wc_last. now apply sanitised_text_ok.
Qed.

Lemma dendrogram_text_left_wf repl fs t :
  sanitiser_ok repl = true -> safe_field fs = true -> label_safe t = true ->
  wf_elem "text" (dendrogram_text_left repl fs t).
Proof.
  intros Hr Hf Ht. unfold label_safe in Ht. brk Ht.
  replace (dendrogram_text_left repl fs t)
    with (elem_open "text" [(" ", "x", t_x t); (" ", "y", t_y t); (" ", "font-size", fs)] ""
                    (sanitise repl (t_name t)) "") by (unfold dendrogram_text_left; tpl).
  apply elem_open_wf; [reflexivity | attrs | reflexivity | | reflexivity].
  apply wc_last. now apply sanitised_text_ok.
Qed.

(** * Pieces of the graph documents *)

(** An edge path: starts with the edge template, one path element, newline. *)
Definition edge_path (s : string) : Prop := starts "<path stroke-width=" s = true /\ elem_nl "path" s.
(** A pie-chart wedge. *)
Definition wedge_path (s : string) : Prop := starts "<path d=" s = true /\ elem_nl "path" s.
(** A node shape: one circle, or a non-empty group of wedges. *)
Definition node_shape (s : string) : Prop :=
  elem_nl "circle" s \/ exists ws, ws <> [] /\ s = sconcat ws /\ Forall wedge_path ws.
(** A line of a dendrogram (no trailing newline). *)
Definition line_path (s : string) : Prop := starts "<path stroke-width=" s = true /\ wf_elem "path" s.

Lemma draw_edge_drawn directed e :
  edge_safe e = true -> drawn directed e = true -> edge_path (draw_edge directed e).
Proof.
  intros He Hd. unfold edge_safe in He. brk He. unfold draw_edge, drawn in *. destruct directed.
  - simpl in Hd. rewrite Hd.
    destruct (svg_edge_directed_wf (e_x1 e) (e_y1 e) (e_x2 e) (e_y2 e) (e_width e) (e_color e)) as (A & B & _); auto.
    now split.
  - destruct (svg_edge_wf (e_x1 e) (e_y1 e) (e_x2 e) (e_y2 e) (e_width e) (e_color e)) as (A & B); auto.
    now split.
Qed.

Lemma draw_edge_not_drawn directed e : drawn directed e = false -> draw_edge directed e = "".
Proof.
  unfold drawn, draw_edge. destruct directed; simpl; [|discriminate]. now intros ->.
Qed.

Lemma sconcat_draw_edges directed l :
  sconcat (map (draw_edge directed) l) = sconcat (map (draw_edge directed) (filter (drawn directed) l)).
Proof.
  induction l as [|e l IH]; simpl; [reflexivity|].
  destruct (drawn directed e) eqn:E; simpl; [now rewrite IH|].
  now rewrite (draw_edge_not_drawn _ _ E), IH.
Qed.

Lemma edge_paths directed l :
  forallb edge_safe l = true ->
  Forall edge_path (map (draw_edge directed) (filter (drawn directed) l)).
Proof.
  intros H. rewrite forallb_forall in H. apply Forall_forall. intros s Hs.
  apply in_map_iff in Hs as [e [<- He]]. apply filter_In in He as [He Hd].
  apply draw_edge_drawn; auto.
Qed.

Lemma edge_path_pre s : edge_path s -> pre_content s.
Proof. intros [_ H]. now apply pre_content_elem_nl with (tag := "path"). Qed.

Lemma wedges_wf x y size sw sc ws :
  safe_field x = true -> safe_field y = true -> safe_field size = true ->
  safe_field sw = true -> safe_field sc = true -> forallb wedge_safe ws = true ->
  Forall wedge_path (map (svg_wedge x y size sw sc) ws).
Proof.
  intros Hx Hy Hs Hw Hk H. rewrite forallb_forall in H. apply Forall_forall. intros s Hin.
  apply in_map_iff in Hin as [w [<- Hw']].
  destruct (svg_wedge_wf x y size sw sc w) as [A B]; auto. now split.
Qed.

Lemma draw_node_shape nd : node_safe nd = true -> node_shape (draw_node nd).
Proof.
  intros H. unfold node_safe in H. brk H. unfold draw_node.
  destruct (n_shape nd) as [color | zs ws]; simpl in *.
  - left. apply svg_node_wf; auto.
  - brk S. unfold svg_pie_chart_node. destruct zs.
    + left. apply svg_node_wf; auto.
    + right. exists (map (svg_wedge (n_x nd) (n_y nd) (n_size nd) (n_width nd) "black") ws).
      split; [|split; [reflexivity | apply wedges_wf; auto]].
      destruct ws; [discriminate | discriminate].
Qed.

Lemma node_shape_pre s : node_shape s -> pre_content s.
Proof.
  intros [H | (ws & _ & -> & H)].
  - now apply pre_content_elem_nl with (tag := "circle").
  - apply pre_content_sconcat. revert H. apply Forall_impl. intros s [_ H].
    now apply pre_content_elem_nl with (tag := "path").
Qed.

Lemma node_shapes l : forallb node_safe l = true -> Forall node_shape (map draw_node l).
Proof.
  intros H. rewrite forallb_forall in H. apply Forall_forall. intros s Hs.
  apply in_map_iff in Hs as [nd [<- Hn]]. apply draw_node_shape; auto.
Qed.

Lemma labels_wf repl fs pos l :
  sanitiser_ok repl = true -> safe_field fs = true -> forallb label_safe l = true ->
  Forall (wf_elem "text") (map (draw_label repl fs pos) l).
Proof.
  intros Hr Hf H. rewrite forallb_forall in H. apply Forall_forall. intros s Hs.
  apply in_map_iff in Hs as [t [<- Ht]]. specialize (H _ Ht). unfold label_safe in H. brk H.
  unfold draw_label. apply svg_text_wf; auto.
Qed.

Lemma Forall_pre (P : string -> Prop) l :
  (forall s, P s -> pre_content s) -> Forall P l -> pre_content (sconcat l).
Proof. intros HP H. apply pre_content_sconcat. revert H. now apply Forall_impl. Qed.

Lemma markers_pre markers :
  forallb safe_field markers = true -> pre_content (sconcat (map svg_marker markers)).
Proof.
  intros H. rewrite forallb_forall in H. apply pre_content_map. intros c Hc.
  apply pre_content_elem_nl with (tag := "defs"). apply svg_marker_wf; auto.
Qed.

(** Root element around a body. *)
Lemma svg_root_wf (sp : string) width height body :
  (sp = " " \/ sp = "  ") -> safe_field width = true -> safe_field height = true -> pre_content body ->
  wf_elem "svg" ("<svg width=""" ++ width ++ """ height=""" ++ height ++ """" ++ sp ++
                 "xmlns=""http://www.w3.org/2000/svg"">" ++ body ++ "</svg>").
Proof.
  intros Hsp Hw Hh Hb.
  replace ("<svg width=""" ++ width ++ """ height=""" ++ height ++ """" ++ sp ++
           "xmlns=""http://www.w3.org/2000/svg"">" ++ body ++ "</svg>")
    with (elem_open "svg" [(" ", "width", width); (" ", "height", height);
                           (sp, "xmlns", "http://www.w3.org/2000/svg")] "" body "") by tpl.
  apply elem_open_wf; [reflexivity | | reflexivity | now apply pre_content_wf | reflexivity].
  destruct Hsp as [-> | ->]; attrs.
Qed.

(** * visualize_graph *)

Section Graph.
  Context (repl : list (ascii * string)) (width height : string) (display_edges directed : bool)
            (markers : list string) (edges residual : list edge) (nodes : list node)
            (names : option (list label)) (font_size name_position : string).
  Context (Hrepl : sanitiser_ok repl = true).
  Context (Hwidth : safe_field width = true).
  Context (Hheight : safe_field height = true).
  Context (Hfont : safe_field font_size = true).
  Context (Hmarkers : forallb safe_field markers = true).
  Context (Hedges : forallb edge_safe edges = true).
  Context (Hresidual : forallb edge_safe residual = true).
  Context (Hnodes : forallb node_safe nodes = true).
  Context (Hnames : labels_safe names = true).

  Let doc := visualize_graph_with repl width height display_edges directed markers edges residual nodes
                                  names font_size name_position.
  Let defs := if display_edges && directed then sconcat (map svg_marker markers) else "".
  Let E := if display_edges then map (draw_edge directed) (filter (drawn directed) (edges ++ residual)) else [].
  Let N := map draw_node nodes.
  Let T := match names with None => [] | Some l => map (draw_label repl font_size name_position) l end.

  Lemma graph_decomposition :
    doc = svg_header width height ++ defs ++ sconcat E ++ sconcat N ++ sconcat T ++ "</svg>" ++ nl.
  Proof.
    unfold doc, visualize_graph_with, defs, E, N, T.
    destruct display_edges, directed, names; cbn [andb];
      rewrite ?filter_app, ?map_app, ?sconcat_app, <- ?sconcat_draw_edges; seq.
  Qed.

  Lemma graph_E : Forall edge_path E.
  Proof.
    unfold E. destruct display_edges; [|constructor]. apply edge_paths.
    rewrite forallb_app. now rewrite Hedges, Hresidual.
  Qed.

  Lemma graph_T : Forall (wf_elem "text") T.
  Proof.
    unfold T. destruct names as [l|]; [|constructor]. now apply labels_wf.
  Qed.

  Lemma graph_defs : pre_content defs.
  Proof.
    unfold defs. destruct (display_edges && directed); [now apply markers_pre | apply pre_content_nil].
  Qed.

  Theorem visualize_graph_wf : wf_document_root "svg" doc.
  Proof.
    rewrite graph_decomposition. unfold svg_header.
    replace (("<svg width=""" ++ width ++ """ height=""" ++ height ++ """ xmlns=""http://www.w3.org/2000/svg"">" ++ nl) ++
             defs ++ sconcat E ++ sconcat N ++ sconcat T ++ "</svg>" ++ nl)
      with (("<svg width=""" ++ width ++ """ height=""" ++ height ++ """" ++ " " ++
             "xmlns=""http://www.w3.org/2000/svg"">" ++ (nl ++ defs ++ sconcat E ++ sconcat N ++ sconcat T) ++ "</svg>") ++ nl)
      by seq.
    apply wf_document_root_intro; [|reflexivity].
    apply svg_root_wf; auto.
    apply pre_content_app; [now apply pre_content_ws|].
    apply pre_content_app; [apply graph_defs|].
    apply pre_content_app; [apply (Forall_pre edge_path); [apply edge_path_pre | apply graph_E]|].
    apply pre_content_app; [apply (Forall_pre node_shape); [apply node_shape_pre | now apply node_shapes]|].
    apply (Forall_pre (wf_elem "text")); [intros s; apply pre_content_elem | apply graph_T].
  Qed.

  (** One edge path per displayed edge (all stored and residual entries of an undirected drawing,
      those between distinct positions of a directed one), one node shape per node, one text
      element per name — and nothing else but the marker definitions. *)
  Theorem visualize_graph_counts :
    exists defs E N T,
      doc = svg_header width height ++ defs ++ sconcat E ++ sconcat N ++ sconcat T ++ "</svg>" ++ nl /\
      defs = (if display_edges && directed then sconcat (map svg_marker markers) else "") /\
      Forall edge_path E /\
      length E = (if display_edges then length (filter (drawn directed) (edges ++ residual)) else 0) /\
      Forall node_shape N /\ length N = length nodes /\
      Forall (wf_elem "text") T /\ length T = n_labels names.
  Proof.
    exists defs, E, N, T. split; [apply graph_decomposition|]. split; [reflexivity|].
    split; [apply graph_E|]. split.
    { unfold E. destruct display_edges; [apply map_length | reflexivity]. }
    split; [now apply node_shapes|]. split; [apply map_length|]. split; [apply graph_T|].
    unfold T, n_labels. destruct names; [apply map_length | reflexivity].
  Qed.
End Graph.

(** * visualize_bigraph *)

Section Bigraph.
  Context (repl : list (ascii * string)) (width height : string) (display_edges : bool)
            (edges residual : list edge) (nodes_row nodes_col : list node)
            (names_row names_col : option (list label)) (font_size : string).
  Context (Hrepl : sanitiser_ok repl = true).
  Context (Hwidth : safe_field width = true).
  Context (Hheight : safe_field height = true).
  Context (Hfont : safe_field font_size = true).
  Context (Hedges : forallb edge_safe edges = true).
  Context (Hresidual : forallb edge_safe residual = true).
  Context (Hrow : forallb node_safe nodes_row = true).
  Context (Hcol : forallb node_safe nodes_col = true).
  Context (Hnr : labels_safe names_row = true).
  Context (Hnc : labels_safe names_col = true).

  Let doc := visualize_bigraph_with repl width height display_edges edges residual nodes_row nodes_col
                                    names_row names_col font_size.
  Let E := if display_edges then map (draw_edge false) (edges ++ residual) else [].
  Let N := map draw_node (nodes_row ++ nodes_col).
  Let T := (match names_row with None => [] | Some l => map (draw_label repl font_size "left") l end ++
            match names_col with None => [] | Some l => map (draw_label repl font_size "right") l end)%list.

  Lemma bigraph_decomposition :
    doc = svg_header2 width height ++ nl ++ sconcat E ++ sconcat N ++ sconcat T ++ "</svg>" ++ nl.
  Proof.
    unfold doc, visualize_bigraph_with, E, N, T.
    destruct display_edges, names_row, names_col; rewrite ?map_app, ?sconcat_app; seq.
  Qed.

  Lemma bigraph_E : Forall edge_path E.
  Proof.
    unfold E. destruct display_edges; [|constructor].
    assert (H : forallb edge_safe (edges ++ residual) = true) by (rewrite forallb_app; now rewrite Hedges, Hresidual).
    rewrite forallb_forall in H. apply Forall_forall. intros s Hs.
    apply in_map_iff in Hs as [e [<- He]]. apply draw_edge_drawn; auto.
  Qed.

  Lemma bigraph_N : Forall node_shape N.
  Proof. unfold N. apply node_shapes. rewrite forallb_app. now rewrite Hrow, Hcol. Qed.

  Lemma bigraph_T : Forall (wf_elem "text") T.
  Proof.
    unfold T. apply Forall_app. split.
    - destruct names_row as [l|]; [|constructor]. now apply labels_wf.
    - destruct names_col as [l|]; [|constructor]. now apply labels_wf.
  Qed.

  Theorem visualize_bigraph_wf : wf_document_root "svg" doc.
  Proof.
    rewrite bigraph_decomposition. unfold svg_header2.
    replace (("<svg width=""" ++ width ++ """ height=""" ++ height ++ """  xmlns=""http://www.w3.org/2000/svg"">") ++
             nl ++ sconcat E ++ sconcat N ++ sconcat T ++ "</svg>" ++ nl)
      with (("<svg width=""" ++ width ++ """ height=""" ++ height ++ """" ++ "  " ++
             "xmlns=""http://www.w3.org/2000/svg"">" ++ (nl ++ sconcat E ++ sconcat N ++ sconcat T) ++ "</svg>") ++ nl)
      by seq.
    apply wf_document_root_intro; [|reflexivity].
    apply svg_root_wf; auto.
    apply pre_content_app; [now apply pre_content_ws|].
    apply pre_content_app; [apply (Forall_pre edge_path); [apply edge_path_pre | apply bigraph_E]|].
    apply pre_content_app; [apply (Forall_pre node_shape); [apply node_shape_pre | apply bigraph_N]|].
    apply (Forall_pre (wf_elem "text")); [intros s; apply pre_content_elem | apply bigraph_T].
  Qed.

  Theorem visualize_bigraph_counts :
    exists E N T,
      doc = svg_header2 width height ++ nl ++ sconcat E ++ sconcat N ++ sconcat T ++ "</svg>" ++ nl /\
      Forall edge_path E /\
      length E = (if display_edges then length edges + length residual else 0) /\
      Forall node_shape N /\ length N = length nodes_row + length nodes_col /\
      Forall (wf_elem "text") T /\ length T = n_labels names_row + n_labels names_col.
  Proof.
    exists E, N, T. split; [apply bigraph_decomposition|]. split; [apply bigraph_E|]. split.
    { unfold E. destruct display_edges; [now rewrite map_length, app_length | reflexivity]. }
    split; [apply bigraph_N|]. split; [unfold N; now rewrite map_length, app_length|].
    split; [apply bigraph_T|].
    unfold T, n_labels. rewrite app_length.
    destruct names_row, names_col; now rewrite ?map_length.
  Qed.
End Bigraph.

(** * Dendrograms *)

Definition merge_lines_top (lw : string) (m : merge) : list string :=
  [svg_line lw (m_color m) (m_x1 m) (m_y1 m) (m_x1 m) (m_y m);
   svg_line lw (m_color m) (m_x2 m) (m_y2 m) (m_x2 m) (m_y m);
   svg_line lw (m_color m) (m_x1 m) (m_y m) (m_x2 m) (m_y m)].

Definition merge_lines_left (lw : string) (m : merge) : list string :=
  [svg_line lw (m_color m) (m_x1 m) (m_y1 m) (m_x m) (m_y1 m);
   svg_line lw (m_color m) (m_x2 m) (m_y2 m) (m_x m) (m_y2 m);
   svg_line lw (m_color m) (m_x m) (m_y1 m) (m_x m) (m_y2 m)].

Lemma sconcat_flat_map {A} (f : A -> list string) l :
  sconcat (flat_map f l) = sconcat (map (fun x => sconcat (f x)) l).
Proof. induction l as [|x l IH]; simpl; [reflexivity | now rewrite sconcat_app, IH]. Qed.

Lemma length_flat_map3 {A} (f : A -> list string) l :
  (forall x, length (f x) = 3) -> length (flat_map f l) = 3 * length l.
Proof. intros H. induction l as [|x l IH]; simpl; [reflexivity|]. rewrite app_length, H, IH. lia. Qed.

Lemma merge_top_lines lw m : merge_top lw m = sconcat (merge_lines_top lw m).
Proof. unfold merge_top, merge_lines_top. seq. now rewrite sapp_nil_r. Qed.

Lemma merge_left_lines lw m : merge_left lw m = sconcat (merge_lines_left lw m).
Proof. unfold merge_left, merge_lines_left. seq. now rewrite sapp_nil_r. Qed.

Lemma merge_lines_top_wf lw m :
  safe_field lw = true -> merge_safe m = true -> Forall line_path (merge_lines_top lw m).
Proof.
  intros Hl Hm. unfold merge_safe in Hm. brk Hm.
  repeat constructor; apply svg_line_wf; auto.
Qed.

Lemma merge_lines_left_wf lw m :
  safe_field lw = true -> merge_safe m = true -> Forall line_path (merge_lines_left lw m).
Proof.
  intros Hl Hm. unfold merge_safe in Hm. brk Hm.
  repeat constructor; apply svg_line_wf; auto.
Qed.

Lemma Forall_flat_map {A} (P : string -> Prop) (f : A -> list string) l :
  (forall x, In x l -> Forall P (f x)) -> Forall P (flat_map f l).
Proof.
  intros H. induction l as [|x l IH]; simpl; [constructor|].
  apply Forall_app. split; [apply H; now left | apply IH; intros y Hy; apply H; now right].
Qed.

Section Dendrogram.
  Context (repl_top repl_left : list (ascii * string)) (rotate : bool) (width height : string)
            (names : option (list label)) (rotate_names : bool) (font_size line_width : string)
            (merges : list merge).
  (** The replacement list of the site that is used. *)
  Context (Hrepl : sanitiser_ok (if rotate then repl_left else repl_top) = true).
  Context (Hwidth : safe_field width = true).
  Context (Hheight : safe_field height = true).
  Context (Hfont : safe_field font_size = true).
  Context (Hline : safe_field line_width = true).
  Context (Hnames : labels_safe names = true).
  Context (Hmerges : forallb merge_safe merges = true).

  Let doc := visualize_dendrogram_with repl_top repl_left rotate width height names rotate_names
                                       font_size line_width merges.
  Let T := match names with
           | None => []
           | Some l => if rotate then map (dendrogram_text_left repl_left font_size) l
                       else map (dendrogram_text_top repl_top rotate_names font_size) l
           end.
  Let P := if rotate then flat_map (merge_lines_left line_width) merges
           else flat_map (merge_lines_top line_width) merges.

  Lemma dendrogram_decomposition :
    doc = svg_header2 width height ++ sconcat T ++ sconcat P ++ "</svg>".
  Proof.
    unfold doc, visualize_dendrogram_with, svg_dendrogram_left_with, svg_dendrogram_top_with, T, P.
    destruct rotate, names; rewrite sconcat_flat_map;
      first [rewrite (map_ext _ _ (merge_left_lines line_width)) | rewrite (map_ext _ _ (merge_top_lines line_width))];
      reflexivity.
  Qed.

  Lemma dendrogram_T : Forall (wf_elem "text") T.
  Proof.
    unfold T. destruct names as [l|]; [|constructor]. simpl in Hnames. rewrite forallb_forall in Hnames.
    destruct rotate; apply Forall_forall; intros s Hs; apply in_map_iff in Hs as [t [<- Ht]].
    - apply dendrogram_text_left_wf; auto.
    - apply dendrogram_text_top_wf; auto.
  Qed.

  Lemma dendrogram_P : Forall line_path P.
  Proof.
    rewrite forallb_forall in Hmerges. unfold P.
    destruct rotate; apply Forall_flat_map; intros m Hm.
    - apply merge_lines_left_wf; auto.
    - apply merge_lines_top_wf; auto.
  Qed.

  Theorem visualize_dendrogram_wf : wf_document_root "svg" doc.
  Proof.
    rewrite dendrogram_decomposition. unfold svg_header2.
    replace (("<svg width=""" ++ width ++ """ height=""" ++ height ++ """  xmlns=""http://www.w3.org/2000/svg"">") ++
             sconcat T ++ sconcat P ++ "</svg>")
      with (("<svg width=""" ++ width ++ """ height=""" ++ height ++ """" ++ "  " ++
             "xmlns=""http://www.w3.org/2000/svg"">" ++ (sconcat T ++ sconcat P) ++ "</svg>") ++ "")
      by (seq; now rewrite sapp_nil_r).
    apply wf_document_root_intro; [|reflexivity].
    apply svg_root_wf; auto.
    apply pre_content_app.
    - apply (Forall_pre (wf_elem "text")); [intros s; apply pre_content_elem | apply dendrogram_T].
    - apply (Forall_pre line_path); [intros s [_ H]; now apply pre_content_elem with (n := "path") | apply dendrogram_P].
  Qed.

  (** One text element per name, three paths per merge, nothing else. *)
  Theorem visualize_dendrogram_counts :
    exists T P,
      doc = svg_header2 width height ++ sconcat T ++ sconcat P ++ "</svg>" /\
      Forall (wf_elem "text") T /\ length T = n_labels names /\
      Forall line_path P /\ length P = 3 * length merges.
  Proof.
    exists T, P. split; [apply dendrogram_decomposition|]. split; [apply dendrogram_T|]. split.
    { unfold T, n_labels. destruct names; [|reflexivity]. destruct rotate; apply map_length. }
    split; [apply dendrogram_P|].
    unfold P. destruct rotate; apply length_flat_map3; reflexivity.
  Qed.
End Dendrogram.

(** * Refutation for a label site whose replacement list lacks the less-than sign *)

(** Necessary condition of well-formedness: every less-than sign is followed by a name-start character or a slash. *)
Fixpoint lt_ok (s : string) : bool :=
  match s with
  | EmptyString => true
  | String c r =>
      (if Ascii.eqb c "<" then
         match r with
         | String d _ => is_name_start d || Ascii.eqb d "/"
         | EmptyString => false
         end
       else true) && lt_ok r
  end.

Lemma lt_ok_app a b : lt_ok a = true -> lt_ok b = true -> lt_ok (a ++ b) = true.
Proof.
  intros Ha Hb. induction a as [|c a IH]; [exact Hb|].
  cbn [lt_ok] in Ha. apply andb_true_iff in Ha as [H1 H2].
  cbn [append lt_ok]. rewrite (IH H2), andb_true_r.
  destruct (Ascii.eqb c "<"); [|reflexivity].
  destruct a as [|d a]; [discriminate | exact H1].
Qed.

Lemma no_lt_lt_ok s : no_char "<" s = true -> lt_ok s = true.
Proof.
  induction s as [|c s IH]; [reflexivity|]. intros H.
  unfold no_char in H. cbn [all_chars] in H. apply andb_true_iff in H as [H1 H2].
  apply negb_true_iff in H1. cbn [lt_ok]. now rewrite H1, (IH H2).
Qed.

Lemma is_name_char_not_lt c : is_name_char c = true -> negb (Ascii.eqb c "<") = true.
Proof. destruct c as [[] [] [] [] [] [] [] []]; intros H; try reflexivity; discriminate H. Qed.

Lemma is_ws_not_lt c : is_ws c = true -> negb (Ascii.eqb c "<") = true.
Proof. intros H. destruct (is_ws_not_special _ H) as [E _]. now rewrite E. Qed.

Lemma name_no_lt n : name_ok n = true -> no_char "<" n = true.
Proof.
  destruct n as [|c r]; [discriminate|]. simpl. intros H. apply andb_true_iff in H as [H1 H2].
  unfold no_char. cbn [all_chars]. apply andb_true_intro. split.
  - apply is_name_char_not_lt. unfold is_name_char. now rewrite H1.
  - revert H2. apply all_chars_impl. apply is_name_char_not_lt.
Qed.

Lemma ws_no_lt w : ws_ok w = true -> no_char "<" w = true.
Proof. apply all_chars_impl. apply is_ws_not_lt. Qed.

Lemma attrs_no_lt a ns : wf_attrs a ns -> no_char "<" a = true.
Proof.
  induction 1 as [|w n v rest ns _ Hw Hn Hv _ IH]; [reflexivity|].
  unfold attr_value_ok in Hv. apply andb_true_iff in Hv as [Hv _]. apply andb_true_iff in Hv as [Hv _].
  rewrite !no_char_app, (ws_no_lt _ Hw), (name_no_lt _ Hn), Hv, IH. reflexivity.
Qed.

Scheme wf_elem_mut := Induction for wf_elem Sort Prop
  with wf_content_mut := Induction for wf_content Sort Prop.

Lemma lt_ok_tag_open n rest : name_ok n = true -> lt_ok rest = true -> lt_ok ("<" ++ n ++ rest) = true.
Proof.
  intros Hn Hr. destruct n as [|c r]; [discriminate|].
  pose proof (name_no_lt _ Hn) as Hl.
  simpl in Hn. apply andb_true_iff in Hn as [Hc _].
  cbn [append lt_ok]. rewrite Ascii.eqb_refl, Hc. cbn [orb andb].
  change (lt_ok (String c r ++ rest) = true). apply lt_ok_app; [now apply no_lt_lt_ok | exact Hr].
Qed.

Lemma wf_elem_lt_ok n e : wf_elem n e -> lt_ok e = true.
Proof.
  revert n e.
  apply (wf_elem_mut (fun n e _ => lt_ok e = true) (fun c _ => lt_ok c = true)).
  - intros n a ns w Hn Ha Hd Hw. apply lt_ok_tag_open; [exact Hn|].
    apply lt_ok_app; [apply no_lt_lt_ok; eapply attrs_no_lt; eauto|].
    apply lt_ok_app; [now apply no_lt_lt_ok, ws_no_lt | reflexivity].
  - intros n a ns w c w2 Hn Ha Hd Hw Hc IHc Hw2. apply lt_ok_tag_open; [exact Hn|].
    apply lt_ok_app; [apply no_lt_lt_ok; eapply attrs_no_lt; eauto|].
    apply lt_ok_app; [now apply no_lt_lt_ok, ws_no_lt|].
    apply (lt_ok_app ">"); [reflexivity|].
    apply lt_ok_app; [exact IHc|].
    change ("</" ++ n ++ w2 ++ ">") with (String "<" (String "/" (n ++ w2 ++ ">"))).
    cbn [lt_ok]. rewrite Ascii.eqb_refl. cbn.
    apply lt_ok_app; [now apply no_lt_lt_ok, name_no_lt|].
    apply lt_ok_app; [now apply no_lt_lt_ok, ws_no_lt | reflexivity].
  - intros t Ht. unfold text_ok in Ht. apply andb_true_iff in Ht as [Ht _]. apply andb_true_iff in Ht as [Ht _].
    now apply no_lt_lt_ok.
  - intros t n e c Ht He IHe Hc IHc.
    unfold text_ok in Ht. apply andb_true_iff in Ht as [Ht _]. apply andb_true_iff in Ht as [Ht _].
    apply lt_ok_app; [now apply no_lt_lt_ok|]. now apply lt_ok_app.
Qed.

Theorem wf_document_lt_ok s : wf_document s -> lt_ok s = true.
Proof.
  intros (root & w0 & e & w1 & -> & H0 & He & H1).
  apply lt_ok_app; [now apply no_lt_lt_ok, ws_no_lt|].
  apply lt_ok_app; [now apply wf_elem_lt_ok with (n := root) | now apply no_lt_lt_ok, ws_no_lt].
Qed.

(** The replacement list the dendrogram label sites had before they were aligned with svg_text. *)
Definition legacy_dendrogram_repl : list (ascii * string) := [("&"%char, " ")].

Definition refuting_dendrogram (rotate : bool) : string :=
  visualize_dendrogram_with legacy_dendrogram_repl legacy_dendrogram_repl rotate "420" "355.0"
    (Some [ {| t_x := "5.0"; t_y := "315"; t_name := "1<2" |}; {| t_x := "205.0"; t_y := "315"; t_name := "c" |} ])
    true "12" "2"
    [ {| m_color := "black"; m_x1 := "10.0"; m_y1 := "310"; m_x2 := "210.0"; m_y2 := "310"; m_x := "110.0"; m_y := "10.0" |} ].

(** With only the ampersand replaced, a name containing a less-than sign yields a document that is
    not well-formed, on both sites, although every field is safe. *)
Theorem svg_dendrogram_wf_refuted :
  sanitiser_ok legacy_dendrogram_repl = false /\
  forall rotate, ~ wf_document (refuting_dendrogram rotate).
Proof.
  split; [reflexivity|]. intros rotate H. apply wf_document_lt_ok in H.
  destruct rotate; vm_compute in H; discriminate.
Qed.

(** * Counting elements directly on the string *)

(** [decided p l]: whether [p] starts [l ++ r] does not depend on [r]. *)
Fixpoint decided (p l : string) : bool :=
  match p with
  | EmptyString => true
  | String a p' =>
      match l with
      | EmptyString => false
      | String b l' => if Ascii.eqb a b then decided p' l' else true
      end
  end.

Lemma decided_starts p : forall l r, decided p l = true -> starts p (l ++ r) = starts p l.
Proof.
  induction p as [|a p IH]; intros l r H; simpl in *; [reflexivity|].
  destruct l as [|b l]; [discriminate|]. simpl.
  destruct (Ascii.eqb a b); [now rewrite IH | reflexivity].
Qed.

Lemma decided_app p : forall l r, decided p l = true -> decided p (l ++ r) = true.
Proof.
  induction p as [|a p IH]; intros l r H; simpl in *; [reflexivity|].
  destruct l as [|b l]; [discriminate|]. simpl.
  destruct (Ascii.eqb a b); [now apply IH | reflexivity].
Qed.

(** All suffixes decided. *)
Fixpoint asd (p l : string) : bool :=
  match l with
  | EmptyString => true
  | String c l' => decided p l && asd p l'
  end.

Lemma asd_app p a b : asd p a = true -> asd p b = true -> asd p (a ++ b) = true.
Proof.
  intros Ha Hb. induction a as [|c a IH]; [exact Hb|].
  cbn [asd] in Ha. apply andb_true_iff in Ha as [H1 H2].
  cbn [append asd]. change (String c (a ++ b)) with (String c a ++ b).
  now rewrite (decided_app _ _ _ H1), (IH H2).
Qed.

Lemma count_app p a b :
  asd p a = true -> count_starts p (a ++ b) = count_starts p a + count_starts p b.
Proof.
  intros Ha. induction a as [|c a IH]; [reflexivity|].
  cbn [asd] in Ha. apply andb_true_iff in Ha as [H1 H2].
  cbn [append count_starts]. change (String c (a ++ b)) with (String c a ++ b).
  rewrite (decided_starts _ _ _ H1), (IH H2). lia.
Qed.

Lemma no_lt_asd q v :
  no_char "<" v = true -> asd (String "<" q) v = true /\ count_starts (String "<" q) v = 0.
Proof.
  induction v as [|c v IH]; [now split|]. intros H.
  unfold no_char in H. cbn [all_chars] in H. apply andb_true_iff in H as [H1 H2].
  apply negb_true_iff in H1. rewrite Ascii.eqb_sym in H1.
  destruct (IH H2) as [I1 I2]. cbn [asd decided count_starts starts].
  now rewrite H1, I1, I2.
Qed.

Definition vec4 : Type := (nat * nat * nat * nat)%type.

Definition cv (s : string) : vec4 :=
  (count_starts P_text s, count_starts P_circle s, count_starts P_edge s, count_starts P_wedge s).

Definition d4 (s : string) : bool := asd P_text s && asd P_circle s && asd P_edge s && asd P_wedge s.

Definition vadd (a b : vec4) : vec4 :=
  let '(a1, a2, a3, a4) := a in let '(b1, b2, b3, b4) := b in (a1 + b1, a2 + b2, a3 + b3, a4 + b4).

Definition vzero : vec4 := (0, 0, 0, 0).

(** [pc s v]: the four counts of [s] are [v], and they are unaffected by what follows [s]. *)
Definition pc (s : string) (v : vec4) : Prop := d4 s = true /\ cv s = v.

Lemma pc_app a b va vb : pc a va -> pc b vb -> pc (a ++ b) (vadd va vb).
Proof.
  intros [Da Ca] [Db Cb]. unfold d4 in *.
  apply andb_true_iff in Da as [Da A4]. apply andb_true_iff in Da as [Da A3]. apply andb_true_iff in Da as [A1 A2].
  apply andb_true_iff in Db as [Db B4]. apply andb_true_iff in Db as [Db B3]. apply andb_true_iff in Db as [B1 B2].
  split.
  - unfold d4. now rewrite !asd_app.
  - subst va vb. unfold cv. rewrite !count_app by assumption. reflexivity.
Qed.

Lemma pc_nil : pc "" vzero.
Proof. now split. Qed.

Lemma pc_lit l : d4 l = true -> pc l (cv l).
Proof. now split. Qed.

Lemma pc_nolt v : no_char "<" v = true -> pc v vzero.
Proof.
  intros H. unfold pc, d4, cv, P_text, P_circle, P_edge, P_wedge, vzero.
  destruct (no_lt_asd "text" v H) as [A1 C1]. destruct (no_lt_asd "circle" v H) as [A2 C2].
  destruct (no_lt_asd "path stroke-width=" v H) as [A3 C3]. destruct (no_lt_asd "path d=""M " v H) as [A4 C4].
  simpl append in *. now rewrite A1, A2, A3, A4, C1, C2, C3, C4.
Qed.

Lemma safe_no_lt v : safe_field v = true -> no_char "<" v = true.
Proof.
  apply all_chars_impl. unfold safe_char. intros c Hc.
  apply andb_true_iff in Hc as [Hc _]. now apply andb_true_iff in Hc as [Hc _].
Qed.

Lemma pc_safe v : safe_field v = true -> pc v vzero.
Proof. intros H. now apply pc_nolt, safe_no_lt. Qed.

Lemma pc_eq s v v' : pc s v -> v = v' -> pc s v'.
Proof. now intros H <-. Qed.

Fixpoint vsum (l : list vec4) : vec4 :=
  match l with [] => vzero | v :: t => vadd v (vsum t) end.

Lemma pc_sconcat_map {A} (f : A -> string) (g : A -> vec4) l :
  (forall x, In x l -> pc (f x) (g x)) -> pc (sconcat (map f l)) (vsum (map g l)).
Proof.
  induction l as [|x l IH]; intros H; [apply pc_nil|].
  cbn [map sconcat vsum]. apply pc_app; [apply H; now left | apply IH; intros y Hy; apply H; now right].
Qed.

(** Leaves and templates. *)
Ltac pc_leaf :=
  first [ apply pc_safe; first [assumption | apply text_anchor_safe]
        | apply pc_nolt; assumption
        | apply pc_lit; reflexivity ].
Ltac pc_tpl := eapply pc_eq; [ repeat (eapply pc_app; [pc_leaf|]); pc_leaf | reflexivity ].

Lemma svg_node_pc x y size color sw sc :
  safe_field x = true -> safe_field y = true -> safe_field size = true -> safe_field color = true ->
  safe_field sw = true -> safe_field sc = true -> pc (svg_node x y size color sw sc) (0, 1, 0, 0).
Proof. intros. unfold svg_node. pc_tpl. Qed.

Lemma svg_wedge_pc x y size sw sc w :
  safe_field x = true -> safe_field y = true -> safe_field size = true ->
  safe_field sw = true -> safe_field sc = true -> wedge_safe w = true ->
  pc (svg_wedge x y size sw sc w) (0, 0, 0, 1).
Proof. intros Hx Hy Hs Hw Hk Hwd. unfold wedge_safe in Hwd. brk Hwd. unfold svg_wedge. pc_tpl. Qed.

Lemma svg_edge_pc x1 y1 x2 y2 ew ec :
  safe_field x1 = true -> safe_field y1 = true -> safe_field x2 = true -> safe_field y2 = true ->
  safe_field ew = true -> safe_field ec = true -> pc (svg_edge x1 y1 x2 y2 ew ec) (0, 0, 1, 0).
Proof. intros. unfold svg_edge. pc_tpl. Qed.

Lemma svg_edge_directed_pc x1 y1 x2 y2 ew ec :
  safe_field x1 = true -> safe_field y1 = true -> safe_field x2 = true -> safe_field y2 = true ->
  safe_field ew = true -> safe_field ec = true -> pc (svg_edge_directed true x1 y1 x2 y2 ew ec) (0, 0, 1, 0).
Proof. intros. unfold svg_edge_directed. pc_tpl. Qed.

Lemma svg_marker_pc color : safe_field color = true -> pc (svg_marker color) vzero.
Proof. intros. unfold svg_marker. pc_tpl. Qed.

Lemma svg_text_pc repl x y text fs pos :
  sanitiser_ok repl = true -> safe_field x = true -> safe_field y = true -> safe_field fs = true ->
  pc (svg_text_with repl x y text fs pos) (1, 0, 0, 0).
Proof.
  intros Hr Hx Hy Hf. destruct (sanitised_text_safe repl text Hr) as [Hs _].
  unfold svg_text_with. pc_tpl.
Qed.

Lemma svg_line_pc lw color x1 y1 x2 y2 :
  safe_field lw = true -> safe_field color = true -> safe_field x1 = true -> safe_field y1 = true ->
  safe_field x2 = true -> safe_field y2 = true -> pc (svg_line lw color x1 y1 x2 y2) (0, 0, 1, 0).
Proof. intros. unfold svg_line. pc_tpl. Qed.

Lemma dendrogram_text_top_pc repl rn fs t :
  sanitiser_ok repl = true -> safe_field fs = true -> label_safe t = true ->
  pc (dendrogram_text_top repl rn fs t) (1, 0, 0, 0).
Proof.
  intros Hr Hf Ht. unfold label_safe in Ht. brk Ht.
  destruct (sanitised_text_safe repl (t_name t) Hr) as [Hs _].
  unfold dendrogram_text_top. destruct rn; pc_tpl.
Qed.

Lemma dendrogram_text_left_pc repl fs t :
  sanitiser_ok repl = true -> safe_field fs = true -> label_safe t = true ->
  pc (dendrogram_text_left repl fs t) (1, 0, 0, 0).
Proof.
  intros Hr Hf Ht. unfold label_safe in Ht. brk Ht.
  destruct (sanitised_text_safe repl (t_name t) Hr) as [Hs _].
  unfold dendrogram_text_left. pc_tpl.
Qed.

Definition edge_vec (directed : bool) (e : edge) : vec4 := (0, 0, if drawn directed e then 1 else 0, 0).
Definition node_vec (nd : node) : vec4 := (0, if is_circle_node nd then 1 else 0, 0, n_wedges nd).

Lemma draw_edge_pc directed e : edge_safe e = true -> pc (draw_edge directed e) (edge_vec directed e).
Proof.
  intros He. unfold edge_safe in He. brk He. unfold draw_edge, edge_vec, drawn. destruct directed; cbn [negb orb].
  - destruct (e_distinct e); [now apply svg_edge_directed_pc | apply pc_nil].
  - now apply svg_edge_pc.
Qed.

Lemma vsum_const_wedge {A} (l : list A) : vsum (map (fun _ => (0, 0, 0, 1)) l) = (0, 0, 0, length l).
Proof. induction l as [|x l IH]; [reflexivity|]. cbn [map vsum length]. now rewrite IH. Qed.

Lemma draw_node_pc nd : node_safe nd = true -> pc (draw_node nd) (node_vec nd).
Proof.
  intros H. unfold node_safe in H. brk H. unfold draw_node, node_vec, is_circle_node, n_wedges.
  destruct (n_shape nd) as [color | zs ws]; simpl in *.
  - apply svg_node_pc; auto.
  - brk S. unfold svg_pie_chart_node. destruct zs.
    + apply svg_node_pc; auto.
    + eapply pc_eq; [apply (pc_sconcat_map _ (fun _ => (0, 0, 0, 1)))|apply vsum_const_wedge].
      intros w Hw. rewrite forallb_forall in S. apply svg_wedge_pc; auto.
Qed.

Lemma vsum_edges directed l :
  vsum (map (edge_vec directed) l) = (0, 0, length (filter (drawn directed) l), 0).
Proof.
  induction l as [|e l IH]; [reflexivity|]. cbn [map vsum filter]. rewrite IH. unfold edge_vec.
  destruct (drawn directed e); reflexivity.
Qed.

Definition total_wedges (nodes : list node) : nat := fold_right (fun nd acc => n_wedges nd + acc) 0 nodes.

Lemma vsum_nodes l :
  vsum (map node_vec l) = (0, length (filter is_circle_node l), 0, total_wedges l).
Proof.
  induction l as [|nd l IH]; [reflexivity|]. cbn [map vsum filter total_wedges fold_right]. rewrite IH. unfold node_vec.
  destruct (is_circle_node nd); reflexivity.
Qed.

Lemma vsum_texts {A} (l : list A) : vsum (map (fun _ => (1, 0, 0, 0)) l) = (length l, 0, 0, 0).
Proof. induction l as [|x l IH]; [reflexivity|]. cbn [map vsum length]. now rewrite IH. Qed.

Lemma vsum_lines {A} (l : list A) : vsum (map (fun _ => (0, 0, 3, 0)) l) = (0, 0, 3 * length l, 0).
Proof.
  induction l as [|x l IH]; [reflexivity|]. cbn [map vsum length]. rewrite IH.
  replace (3 * S (length l)) with (3 + 3 * length l) by lia. reflexivity.
Qed.

Lemma labels_pc repl fs pos names :
  sanitiser_ok repl = true -> safe_field fs = true -> labels_safe names = true ->
  pc (match names with None => "" | Some l => sconcat (map (draw_label repl fs pos) l) end) (n_labels names, 0, 0, 0).
Proof.
  intros Hr Hf Hn. destruct names as [l|]; [|apply pc_nil]. simpl in Hn. rewrite forallb_forall in Hn.
  eapply pc_eq; [apply (pc_sconcat_map _ (fun _ => (1, 0, 0, 0))) | apply vsum_texts].
  intros t Ht. specialize (Hn _ Ht). unfold label_safe in Hn. brk Hn. unfold draw_label. now apply svg_text_pc.
Qed.

Lemma edges_pc directed l :
  forallb edge_safe l = true ->
  pc (sconcat (map (draw_edge directed) l)) (0, 0, length (filter (drawn directed) l), 0).
Proof.
  intros H. rewrite forallb_forall in H.
  eapply pc_eq; [apply (pc_sconcat_map _ (edge_vec directed)) | apply vsum_edges].
  intros e He. apply draw_edge_pc; auto.
Qed.

Lemma nodes_pc l :
  forallb node_safe l = true ->
  pc (sconcat (map draw_node l)) (0, length (filter is_circle_node l), 0, total_wedges l).
Proof.
  intros H. rewrite forallb_forall in H.
  eapply pc_eq; [apply (pc_sconcat_map _ node_vec) | apply vsum_nodes].
  intros nd Hn. apply draw_node_pc; auto.
Qed.

Lemma markers_pc markers : forallb safe_field markers = true -> pc (sconcat (map svg_marker markers)) vzero.
Proof.
  intros H. rewrite forallb_forall in H.
  eapply pc_eq; [apply (pc_sconcat_map _ (fun _ => vzero))|].
  - intros c Hc. apply svg_marker_pc; auto.
  - induction markers as [|c l IH]; [reflexivity|]. cbn [map vsum]. rewrite IH; [reflexivity|].
    intros x Hx. apply H. now right.
Qed.

Lemma vec4_eq (a b c d a' b' c' d' : nat) :
  a = a' -> b = b' -> c = c' -> d = d' -> (a, b, c, d) = (a', b', c', d').
Proof. now intros -> -> -> ->. Qed.

Lemma pc_counts s a b c d :
  pc s (a, b, c, d) ->
  count_starts P_text s = a /\ count_starts P_circle s = b /\ count_starts P_edge s = c /\ count_starts P_wedge s = d.
Proof. intros [_ H]. unfold cv in H. inversion H; subst. now repeat split. Qed.

(** Counts on the string of visualize_graph: occurrences of the text / circle / edge-path / wedge
    openings in the whole document, names included. *)
Theorem visualize_graph_string_counts repl width height display_edges directed markers edges residual nodes
        names font_size name_position :
  sanitiser_ok repl = true -> safe_field width = true -> safe_field height = true -> safe_field font_size = true ->
  forallb safe_field markers = true -> forallb edge_safe edges = true -> forallb edge_safe residual = true ->
  forallb node_safe nodes = true -> labels_safe names = true ->
  let doc := visualize_graph_with repl width height display_edges directed markers edges residual nodes
                                  names font_size name_position in
  count_starts P_text doc = n_labels names /\
  count_starts P_circle doc = length (filter is_circle_node nodes) /\
  count_starts P_edge doc = (if display_edges then length (filter (drawn directed) (edges ++ residual)) else 0) /\
  count_starts P_wedge doc = total_wedges nodes.
Proof.
  intros Hr Hw Hh Hf Hm He Hres Hn Hnm doc. apply pc_counts. unfold doc, visualize_graph_with, svg_header.
  eapply pc_eq.
  - eapply pc_app; [pc_tpl|].
    eapply pc_app.
    { instantiate (1 := (0, 0, if display_edges then length (filter (drawn directed) (edges ++ residual)) else 0, 0)).
      destruct display_edges; [|apply pc_nil].
      eapply pc_eq.
      - eapply pc_app; [destruct directed; [now apply markers_pc | apply pc_nil]|].
        eapply pc_app; [now apply edges_pc | now apply edges_pc].
      - rewrite filter_app, app_length. destruct directed; reflexivity. }
    eapply pc_app; [now apply nodes_pc|].
    eapply pc_app; [now apply labels_pc|].
    pc_tpl.
  - destruct display_edges; cbn; apply vec4_eq; lia.
Qed.

Theorem visualize_bigraph_string_counts repl width height display_edges edges residual nodes_row nodes_col
        names_row names_col font_size :
  sanitiser_ok repl = true -> safe_field width = true -> safe_field height = true -> safe_field font_size = true ->
  forallb edge_safe edges = true -> forallb edge_safe residual = true ->
  forallb node_safe nodes_row = true -> forallb node_safe nodes_col = true ->
  labels_safe names_row = true -> labels_safe names_col = true ->
  let doc := visualize_bigraph_with repl width height display_edges edges residual nodes_row nodes_col
                                    names_row names_col font_size in
  count_starts P_text doc = n_labels names_row + n_labels names_col /\
  count_starts P_circle doc = length (filter is_circle_node (nodes_row ++ nodes_col)) /\
  count_starts P_edge doc = (if display_edges then length edges + length residual else 0) /\
  count_starts P_wedge doc = total_wedges nodes_row + total_wedges nodes_col.
Proof.
  intros Hr Hw Hh Hf He Hres Hnr Hnc Hlr Hlc doc. apply pc_counts. unfold doc, visualize_bigraph_with, svg_header2.
  assert (Hall : forall l, filter (drawn false) l = l).
  { induction l as [|e l IH]; [reflexivity|]. simpl. now rewrite IH. }
  eapply pc_eq.
  - eapply pc_app; [pc_tpl|].
    eapply pc_app; [pc_leaf|].
    eapply pc_app.
    { instantiate (1 := (0, 0, if display_edges then length edges + length residual else 0, 0)).
      destruct display_edges; [|apply pc_nil].
      eapply pc_eq; [eapply pc_app; [now apply edges_pc | now apply edges_pc]|].
      rewrite !Hall. reflexivity. }
    eapply pc_app; [now apply nodes_pc|].
    eapply pc_app; [now apply nodes_pc|].
    eapply pc_app; [now apply labels_pc|].
    eapply pc_app; [now apply labels_pc|].
    pc_tpl.
  - rewrite filter_app, app_length. destruct display_edges; cbn; apply vec4_eq; lia.
Qed.

Lemma merge_top_pc lw m : safe_field lw = true -> merge_safe m = true -> pc (merge_top lw m) (0, 0, 3, 0).
Proof.
  intros Hl Hm. unfold merge_safe in Hm. brk Hm. unfold merge_top.
  eapply pc_eq; [eapply pc_app; [apply svg_line_pc; auto|]; eapply pc_app; apply svg_line_pc; auto | reflexivity].
Qed.

Lemma merge_left_pc lw m : safe_field lw = true -> merge_safe m = true -> pc (merge_left lw m) (0, 0, 3, 0).
Proof.
  intros Hl Hm. unfold merge_safe in Hm. brk Hm. unfold merge_left.
  eapply pc_eq; [eapply pc_app; [apply svg_line_pc; auto|]; eapply pc_app; apply svg_line_pc; auto | reflexivity].
Qed.

Theorem visualize_dendrogram_string_counts (repl_top repl_left : list (ascii * string)) (rotate : bool)
        width height names rotate_names font_size line_width merges :
  sanitiser_ok (if rotate then repl_left else repl_top) = true ->
  safe_field width = true -> safe_field height = true -> safe_field font_size = true ->
  safe_field line_width = true -> labels_safe names = true -> forallb merge_safe merges = true ->
  let doc := visualize_dendrogram_with repl_top repl_left rotate width height names rotate_names font_size
                                       line_width merges in
  count_starts P_text doc = n_labels names /\
  count_starts P_circle doc = 0 /\
  count_starts P_edge doc = 3 * length merges /\
  count_starts P_wedge doc = 0.
Proof.
  intros Hr Hw Hh Hf Hl Hn Hm doc. apply pc_counts.
  unfold doc, visualize_dendrogram_with, svg_dendrogram_left_with, svg_dendrogram_top_with, svg_header2.
  rewrite forallb_forall in Hm.
  assert (HT : forall (f : label -> string), (forall t, label_safe t = true -> pc (f t) (1, 0, 0, 0)) ->
               pc (match names with None => "" | Some l => sconcat (map f l) end) (n_labels names, 0, 0, 0)).
  { intros f Hf'. destruct names as [l|]; [|apply pc_nil]. simpl in Hn. rewrite forallb_forall in Hn.
    eapply pc_eq; [apply (pc_sconcat_map _ (fun _ => (1, 0, 0, 0))) | apply vsum_texts].
    intros t Ht. apply Hf'. now apply Hn. }
  destruct rotate.
  - eapply pc_eq.
    + eapply pc_app; [pc_tpl|].
      eapply pc_app; [apply HT; intros t Ht; now apply dendrogram_text_left_pc|].
      eapply pc_app; [|pc_leaf].
      eapply pc_eq; [apply (pc_sconcat_map _ (fun _ => (0, 0, 3, 0))) | apply vsum_lines].
      intros m Hm'. apply merge_left_pc; auto.
    + cbn. apply vec4_eq; lia.
  - eapply pc_eq.
    + eapply pc_app; [pc_tpl|].
      eapply pc_app; [apply HT; intros t Ht; now apply dendrogram_text_top_pc|].
      eapply pc_app; [|pc_leaf].
      eapply pc_eq; [apply (pc_sconcat_map _ (fun _ => (0, 0, 3, 0))) | apply vsum_lines].
      intros m Hm'. apply merge_top_pc; auto.
    + cbn. apply vec4_eq; lia.
Qed.

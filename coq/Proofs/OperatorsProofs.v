(** C15 — proofs: every operator, algebraic operation and utility of Model/Operators.v denotes its
    dense definition (Base/QMat.v), for the code after the fix commits; legacy_*_refuted name the repaired defects. *)
From SKN Require Import Base.Util Base.QMat Model.Operators.
From Coq Require Import QArith Qabs Lqa Psatz Setoid Morphisms Permutation Sorted.
Local Open Scope Q_scope.

(* ------------------------------------------------------------------------------------------- *)
(** * small tools *)
Global Hint Rewrite vadd_length vsub_length vmul_length vscale_length vneg_length vzero_length vones_length
  vconst_length mat_vec_length unit_length row_sums_length col_sums_length col_length
  map_length seq_length app_length repeat_length @map2_length : vlen.
Ltac vlen := autorewrite with vlen in *; unfold s_nrow in *; autorewrite with vlen in *; try lia.

Lemma Qlt_b_true a b : Qlt_b a b = true <-> a < b.
Proof.
  unfold Qlt_b. rewrite negb_true_iff. split; intros H.
  - apply Qnot_le_lt. intros L. apply Qle_bool_iff in L. congruence.
  - destruct (Qle_bool b a) eqn:E; [|reflexivity]. apply Qle_bool_iff in E. exfalso. apply (Qlt_not_le _ _ H E).
Qed.
Lemma Qlt_b_false a b : Qlt_b a b = false <-> b <= a.
Proof.
  unfold Qlt_b. rewrite negb_false_iff. apply Qle_bool_iff.
Qed.

Lemma qnat_nonzero n : (0 < n)%nat -> ~ qnat n == 0.
Proof.
  intros H E. unfold qnat, Qeq in E. simpl in E. lia.
Qed.
Lemma qnat_pos n : (0 < n)%nat -> 0 < qnat n.
Proof. intros H. unfold qnat, Qlt. simpl. lia. Qed.

Global Instance pinv_proper : Proper (Qeq ==> Qeq) pinv.
Proof.
  intros a b E. unfold pinv. destruct (Qeq_bool a 0) eqn:Ea, (Qeq_bool b 0) eqn:Eb; try reflexivity.
  - apply Qeq_bool_iff in Ea. apply Qeq_bool_neq in Eb. exfalso. apply Eb. rewrite <- E. exact Ea.
  - apply Qeq_bool_iff in Eb. apply Qeq_bool_neq in Ea. exfalso. apply Ea. rewrite E. exact Eb.
  - rewrite E. reflexivity.
Qed.
Lemma pinv_0 q : q == 0 -> pinv q == 0.
Proof. intros E. rewrite E. reflexivity. Qed.
Lemma pinv_inv q : ~ q == 0 -> pinv q * q == 1.
Proof.
  intros H. unfold pinv. destruct (Qeq_bool q 0) eqn:E.
  - apply Qeq_bool_iff in E. contradiction.
  - rewrite Qmult_comm. apply Qmult_inv_r. exact H.
Qed.
Lemma pinv_Qinv q : pinv q == / q.
Proof.
  unfold pinv. destruct (Qeq_bool q 0) eqn:E; [|reflexivity].
  apply Qeq_bool_iff in E. rewrite E. reflexivity.
Qed.

Lemma map_pinv_proper u v : u =v v -> map pinv u =v map pinv v.
Proof. intros H. apply map_veq; [|exact H]. intros a b E. rewrite E. reflexivity. Qed.

Lemma sumq_map_scale {A} (f : A -> Q) c l : sumq (map (fun a => c * f a) l) == c * sumq (map f l).
Proof. induction l as [|a l IH]; simpl; [ring|]. rewrite IH. ring. Qed.
Lemma sumq_map_opp {A} (f : A -> Q) l : sumq (map (fun a => - f a) l) == - sumq (map f l).
Proof. induction l as [|a l IH]; simpl; [ring|]. rewrite IH. ring. Qed.
Lemma sumq_map_ext {A} (f g : A -> Q) l : (forall a, In a l -> f a == g a) -> sumq (map f l) == sumq (map g l).
Proof. intros H. apply sumq_proper. apply map_ext_veq. exact H. Qed.
Lemma sumq_zero l : (forall q, In q l -> q == 0) -> sumq l == 0.
Proof.
  induction l as [|a l IH]; intros H; simpl; [reflexivity|]. rewrite (H a) by (left; reflexivity).
  rewrite IH; [ring|]. intros q Hq. apply H. right; exact Hq.
Qed.

(* ------------------------------------------------------------------------------------------- *)
(** * Sparse matrices and their denotation *)
Lemma entry_nil j : entry [] j = 0. Proof. reflexivity. Qed.
Lemma entry_cons e row j : entry (e :: row) j == (if Nat.eqb (fst e) j then snd e else 0) + entry row j.
Proof. unfold entry. simpl. destruct (Nat.eqb (fst e) j); simpl; ring. Qed.
Lemma entry_app r1 r2 j : entry (r1 ++ r2) j == entry r1 j + entry r2 j.
Proof. unfold entry. rewrite filter_app, map_app, sumq_app. reflexivity. Qed.
Lemma entry_scale c row j : entry (map (fun e => (fst e, c * snd e)) row) j == c * entry row j.
Proof.
  induction row as [|e row IH]; [unfold entry; simpl; ring|].
  change (map (fun e0 => (fst e0, c * snd e0)) (e :: row)) with ((fst e, c * snd e) :: map (fun e0 => (fst e0, c * snd e0)) row).
  rewrite !entry_cons, IH. simpl. destruct (Nat.eqb (fst e) j); ring.
Qed.
Lemma entry_opp row j : entry (map (fun e => (fst e, - snd e)) row) j == - entry row j.
Proof.
  induction row as [|e row IH]; [unfold entry; simpl; ring|].
  change (map (fun e0 => (fst e0, - snd e0)) (e :: row)) with ((fst e, - snd e) :: map (fun e0 => (fst e0, - snd e0)) row).
  rewrite !entry_cons, IH. simpl. destruct (Nat.eqb (fst e) j); ring.
Qed.
Lemma entry_out n row j : srow_wf n row -> (n <= j)%nat -> entry row j == 0.
Proof.
  intros W Hj. induction W as [|e row He W IH]; [reflexivity|].
  rewrite entry_cons, IH. destruct (Nat.eqb (fst e) j) eqn:E; [|ring]. apply Nat.eqb_eq in E. lia.
Qed.

Lemma dense_row_length n row : length (dense_row n row) = n.
Proof. unfold dense_row. vlen. Qed.
Global Hint Rewrite dense_row_length : vlen.
Lemma nthq_dense_row n row j : (j < n)%nat -> nthq (dense_row n row) j = entry row j.
Proof. intros H. unfold dense_row. apply nthq_seq_map; exact H. Qed.
Lemma dense_length s : length (dense s) = s_nrow s.
Proof. unfold dense. vlen. Qed.
Global Hint Rewrite dense_length : vlen.
Lemma dense_wf s : wf_mat (s_nrow s) (s_ncol s) (dense s).
Proof.
  split; [apply dense_length|]. unfold dense. rewrite Forall_forall. intros r Hr. apply in_map_iff in Hr.
  destruct Hr as [row [<- _]]. apply dense_row_length.
Qed.
Lemma nth_dense s i : (i < s_nrow s)%nat -> nth i (dense s) [] = dense_row (s_ncol s) (nth i (s_rows s) []).
Proof. intros H. unfold dense. apply (nth_map_gen (dense_row (s_ncol s)) (s_rows s) []). exact H. Qed.
Lemma mget_dense s i j : (i < s_nrow s)%nat -> (j < s_ncol s)%nat -> mget (dense s) i j = entry (nth i (s_rows s) []) j.
Proof. intros Hi Hj. unfold mget. rewrite nth_dense by exact Hi. apply nthq_dense_row; exact Hj. Qed.

Lemma swf_row s i : swf s -> srow_wf (s_ncol s) (nth i (s_rows s) []).
Proof.
  intros W. destruct (Nat.lt_ge_cases i (s_nrow s)) as [H|H].
  - unfold swf in W. rewrite Forall_forall in W. apply W. apply nth_In. exact H.
  - rewrite nth_overflow by exact H. constructor.
Qed.

Lemma dense_row_cons n e row :
  dense_row n (e :: row) =v vadd (vscale (snd e) (unit n (fst e))) (dense_row n row).
Proof.
  apply veq_nth; [vlen|]. intros j Hj. rewrite dense_row_length in Hj.
  rewrite nthq_vadd by vlen. rewrite nthq_vscale by vlen. rewrite nthq_unit by exact Hj.
  rewrite !nthq_dense_row by exact Hj. rewrite entry_cons. destruct (Nat.eqb (fst e) j); ring.
Qed.
Lemma dense_row_nil n : dense_row n [] =v vzero n.
Proof.
  apply veq_nth; [vlen|]. intros j Hj. rewrite dense_row_length in Hj.
  rewrite nthq_dense_row by exact Hj. rewrite nthq_vzero. reflexivity.
Qed.

Lemma srow_dot_dense n row x : srow_wf n row -> length x = n -> srow_dot row x == dot (dense_row n row) x.
Proof.
  intros W Hx. induction W as [|e row He W IH].
  - rewrite dense_row_nil, dot_vzero_l. reflexivity.
  - rewrite dense_row_cons. rewrite dot_vadd_l by vlen. rewrite dot_vscale_l, dot_unit_l by (auto; lia).
    rewrite <- IH. unfold srow_dot. simpl. ring.
Qed.
Lemma smv_length s x : length (smv s x) = s_nrow s.
Proof. unfold smv. vlen. Qed.
Global Hint Rewrite smv_length : vlen.
Theorem smv_dense s x : swf s -> length x = s_ncol s -> smv s x =v mat_vec (dense s) x.
Proof.
  intros W Hx. unfold smv, dense, mat_vec. rewrite map_map. unfold swf in W.
  induction W as [|row rows Hr W IH]; simpl; constructor; auto. apply srow_dot_dense; assumption.
Qed.

Lemma srow_mat_dense n k row X : srow_wf n row -> wf_mat n k X -> srow_mat k row X =v vec_mat k (dense_row n row) X.
Proof.
  intros W WX. pose proof (wf_mat_rows _ _ _ WX) as FX. induction W as [|e row He W IH].
  - rewrite dense_row_nil, vec_mat_vzero_l by exact FX. reflexivity.
  - rewrite dense_row_cons. rewrite vec_mat_vadd_l by (auto; vlen).
    rewrite vec_mat_vscale_l by exact FX. rewrite (vec_mat_unit n k) by assumption.
    unfold srow_mat in *. simpl. rewrite IH. reflexivity.
Qed.
Theorem smm_dense k s X : swf s -> wf_mat (s_ncol s) k X -> smm k s X =m mat_mul k (dense s) X.
Proof.
  intros W WX. unfold smm, dense, mat_mul. rewrite map_map. unfold swf in W.
  induction W as [|row rows Hr W IH]; simpl; constructor; auto. apply (srow_mat_dense (s_ncol s)); assumption.
Qed.
Lemma smm_wf k s X : swf s -> wf_mat (s_ncol s) k X -> wf_mat (s_nrow s) k (smm k s X).
Proof.
  intros W WX. eapply wf_mat_meq; [symmetry; apply smm_dense; assumption|].
  eapply mat_mul_wf; [apply dense_wf | exact WX].
Qed.

(** elementwise maps that keep the column indices *)
Lemma smap_ncol f s : s_ncol (smap f s) = s_ncol s. Proof. reflexivity. Qed.
Lemma smap_nrow f s : s_nrow (smap f s) = s_nrow s. Proof. unfold s_nrow, smap; simpl. apply map_length. Qed.
Lemma swf_smap f s : swf s -> swf (smap f s).
Proof.
  unfold swf, smap; simpl. intros W. induction W as [|row rows Hr W IH]; simpl; constructor; auto.
  clear IH W. induction Hr as [|e row He Hr IH]; simpl; constructor; auto.
Qed.
Lemma dense_sscale c s : dense (sscale c s) =m mscale c (dense s).
Proof.
  unfold dense, sscale, smap, mscale; simpl. rewrite !map_map. apply map_ext_meq. intros row _.
  apply veq_nth; [vlen|]. intros j Hj. rewrite dense_row_length in Hj.
  rewrite nthq_vscale by vlen. rewrite !nthq_dense_row by exact Hj. apply entry_scale.
Qed.
Lemma dense_sneg s : dense (sneg s) =m mneg (dense s).
Proof.
  unfold dense, sneg, smap, mneg; simpl. rewrite !map_map. apply map_ext_meq. intros row _.
  apply veq_nth; [vlen|]. intros j Hj. rewrite dense_row_length in Hj.
  rewrite nthq_vneg by vlen. rewrite !nthq_dense_row by exact Hj. apply entry_opp.
Qed.

(** sum *)
Lemma sadd_ncol a b : s_ncol (sadd a b) = s_ncol a. Proof. reflexivity. Qed.
Lemma sadd_nrow a b : s_nrow a = s_nrow b -> s_nrow (sadd a b) = s_nrow a.
Proof. unfold s_nrow, sadd; simpl. intros H. rewrite map2_length. lia. Qed.
Lemma swf_sadd a b : swf a -> swf b -> s_ncol a = s_ncol b -> swf (sadd a b).
Proof.
  unfold swf, sadd; simpl. intros Wa Wb E. rewrite <- E in Wb. revert Wb. generalize (s_rows b).
  induction Wa as [|row rows Hr Wa IH]; intros [|row' rows'] Wb; simpl; constructor; inversion Wb; subst.
  - apply Forall_app; split; assumption.
  - apply IH; assumption.
Qed.
Lemma dense_sadd a b : s_ncol a = s_ncol b -> dense (sadd a b) =m madd (dense a) (dense b).
Proof.
  intros E. unfold dense, sadd, madd; simpl. rewrite <- E. generalize (s_rows b).
  induction (s_rows a) as [|row rows IH]; intros [|row' rows']; simpl; constructor; [|apply IH].
  apply veq_nth; [vlen|]. intros j Hj. rewrite dense_row_length in Hj.
  rewrite nthq_vadd by vlen. rewrite !nthq_dense_row by exact Hj. apply entry_app.
Qed.

(** transposition *)
Lemma stranspose_ncol s : s_ncol (stranspose s) = s_nrow s. Proof. reflexivity. Qed.
Lemma stranspose_nrow s : s_nrow (stranspose s) = s_ncol s.
Proof. unfold s_nrow, stranspose; simpl. vlen. Qed.
Lemma tcol_wf j i0 rows : srow_wf (i0 + length rows) (tcol j i0 rows).
Proof.
  revert i0; induction rows as [|r rows IH]; intros i0; simpl; [constructor|].
  apply Forall_app; split.
  - rewrite Forall_forall. intros e He. apply in_map_iff in He. destruct He as [e' [<- _]]. simpl. lia.
  - replace (i0 + S (length rows))%nat with (S i0 + length rows)%nat by lia. apply IH.
Qed.
Lemma swf_stranspose s : swf (stranspose s).
Proof.
  unfold swf, stranspose; simpl. rewrite Forall_forall. intros r Hr. apply in_map_iff in Hr.
  destruct Hr as [j [<- _]]. apply (tcol_wf j 0).
Qed.
Lemma entry_tcol j i0 rows i :
  entry (tcol j i0 rows) i == if (Nat.leb i0 i && Nat.ltb i (i0 + length rows))%bool then entry (nth (i - i0) rows []) j else 0.
Proof.
  revert i0; induction rows as [|r rows IH]; intros i0; simpl.
  - rewrite entry_nil. destruct (Nat.leb i0 i && Nat.ltb i (i0 + 0))%bool; [destruct (i - i0)%nat|]; reflexivity.
  - rewrite entry_app, IH.
    assert (E1 : entry (map (fun e => (i0, snd e)) (filter (fun e => Nat.eqb (fst e) j) r)) i
                 == if Nat.eqb i0 i then entry r j else 0).
    { unfold entry at 1. destruct (Nat.eqb i0 i) eqn:E.
      - rewrite (proj2 (filter_ext_in_iff _ (fun _ => true) _)).
        + assert (forall (l : srow), filter (fun _ => true) l = l) as F by (induction l; simpl; congruence).
          rewrite F, map_map. reflexivity.
        + intros a Ha. apply in_map_iff in Ha. destruct Ha as [e' [<- _]]. simpl. exact E.
      - rewrite (proj2 (filter_ext_in_iff _ (fun _ => false) _)).
        + assert (forall (l : srow), filter (fun _ => false) l = []) as F by (induction l; simpl; congruence).
          rewrite F. reflexivity.
        + intros a Ha. apply in_map_iff in Ha. destruct Ha as [e' [<- _]]. simpl. exact E. }
    rewrite E1. clear E1 IH.
    destruct (Nat.eqb i0 i) eqn:E.
    + apply Nat.eqb_eq in E. subst i0.
      replace (Nat.leb (S i) i) with false by (symmetry; apply Nat.leb_gt; lia).
      replace (Nat.leb i i) with true by (symmetry; apply Nat.leb_le; lia).
      replace (Nat.ltb i (i + S (length rows))) with true by (symmetry; apply Nat.ltb_lt; lia).
      simpl. rewrite Nat.sub_diag. ring.
    + apply Nat.eqb_neq in E.
      destruct (Nat.leb (S i0) i) eqn:E2.
      * apply Nat.leb_le in E2.
        replace (Nat.leb i0 i) with true by (symmetry; apply Nat.leb_le; lia).
        replace (Nat.ltb i (i0 + S (length rows))) with (Nat.ltb i (S i0 + length rows)) by (f_equal; lia).
        simpl. destruct (Nat.ltb i (S (i0 + length rows))) eqn:E3; [|ring].
        replace (i - i0)%nat with (S (i - S i0)) by lia. ring.
      * apply Nat.leb_gt in E2.
        replace (Nat.leb i0 i) with false by (symmetry; apply Nat.leb_gt; lia). simpl. ring.
Qed.
Theorem dense_stranspose s : dense (stranspose s) =m transpose_n (s_ncol s) (dense s).
Proof.
  apply (meq_mget (s_ncol s) (s_nrow s)).
  - pose proof (dense_wf (stranspose s)) as W. rewrite stranspose_nrow, stranspose_ncol in W. exact W.
  - apply transpose_n_wf. apply dense_length.
  - intros j i Hj Hi. rewrite mget_transpose_n by (rewrite ?dense_length; assumption).
    rewrite mget_dense by (rewrite ?stranspose_nrow, ?stranspose_ncol; assumption).
    rewrite mget_dense by assumption.
    unfold stranspose; simpl. rewrite nth_seq_map by exact Hj.
    rewrite entry_tcol. replace (Nat.leb 0 i) with true by reflexivity.
    replace (Nat.ltb i (0 + length (s_rows s))) with true by (symmetry; apply Nat.ltb_lt; exact Hi).
    simpl. rewrite Nat.sub_0_r. reflexivity.
Qed.

(** sparse product *)
Lemma smul_ncol a b : s_ncol (smul a b) = s_ncol b. Proof. reflexivity. Qed.
Lemma smul_nrow a b : s_nrow (smul a b) = s_nrow a. Proof. unfold s_nrow, smul; simpl. vlen. Qed.
Lemma srow_mul_wf row b : swf b -> srow_wf (s_ncol b) (srow_mul row b).
Proof.
  intros W. unfold srow_mul, srow_wf. rewrite Forall_forall. intros e He. apply in_flat_map in He.
  destruct He as [e' [_ He]]. apply in_map_iff in He. destruct He as [f [<- Hf]]. simpl.
  pose proof (swf_row b (fst e') W) as Wr. unfold srow_wf in Wr. rewrite Forall_forall in Wr. apply Wr; exact Hf.
Qed.
Lemma swf_smul a b : swf b -> swf (smul a b).
Proof.
  intros W. unfold swf, smul; simpl. rewrite Forall_forall. intros r Hr. apply in_map_iff in Hr.
  destruct Hr as [row [<- _]]. apply srow_mul_wf; exact W.
Qed.
Lemma dense_row_app n r1 r2 : dense_row n (r1 ++ r2) =v vadd (dense_row n r1) (dense_row n r2).
Proof.
  apply veq_nth; [vlen|]. intros j Hj. rewrite dense_row_length in Hj.
  rewrite nthq_vadd by vlen. rewrite !nthq_dense_row by exact Hj. apply entry_app.
Qed.
Lemma dense_row_scale n c row : dense_row n (map (fun e => (fst e, c * snd e)) row) =v vscale c (dense_row n row).
Proof.
  apply veq_nth; [vlen|]. intros j Hj. rewrite dense_row_length in Hj.
  rewrite nthq_vscale by vlen. rewrite !nthq_dense_row by exact Hj. apply entry_scale.
Qed.
Lemma srow_mul_dense n row b : srow_wf n row -> s_nrow b = n ->
  dense_row (s_ncol b) (srow_mul row b) =v vec_mat (s_ncol b) (dense_row n row) (dense b).
Proof.
  intros W Hn. pose proof (dense_wf b) as WB. rewrite Hn in WB. pose proof (wf_mat_rows _ _ _ WB) as FB.
  induction W as [|e row He W IH].
  - rewrite dense_row_nil, vec_mat_vzero_l by exact FB. unfold srow_mul; simpl. apply dense_row_nil.
  - rewrite dense_row_cons. rewrite vec_mat_vadd_l by (auto; vlen). rewrite vec_mat_vscale_l by exact FB.
    rewrite (vec_mat_unit n (s_ncol b)) by assumption.
    unfold srow_mul in *; simpl. rewrite dense_row_app, IH, dense_row_scale.
    rewrite nth_dense by lia. reflexivity.
Qed.
Theorem dense_smul a b : swf a -> s_ncol a = s_nrow b -> dense (smul a b) =m mat_mul (s_ncol b) (dense a) (dense b).
Proof.
  intros W E. unfold dense at 1 2, smul, mat_mul; simpl. rewrite !map_map. unfold swf in W.
  induction W as [|row rows Hr W IH]; simpl; constructor; auto. apply srow_mul_dense; [exact Hr | symmetry; exact E].
Qed.

(** diagonal matrices *)
Lemma sdiag_ncol w : s_ncol (sdiag w) = length w. Proof. reflexivity. Qed.
Lemma sdiag_nrow w : s_nrow (sdiag w) = length w. Proof. unfold s_nrow, sdiag; simpl. vlen. Qed.
Lemma swf_sdiag w : swf (sdiag w).
Proof.
  unfold swf, sdiag; simpl. rewrite Forall_forall. intros r Hr. apply in_map_iff in Hr. destruct Hr as [i [<- Hi]].
  apply in_seq in Hi. destruct (Qeq_bool (nthq w i) 0); constructor; simpl; [lia | constructor].
Qed.
Lemma sdiag_pinv_ncol w : s_ncol (sdiag_pinv w) = length w. Proof. reflexivity. Qed.
Lemma sdiag_pinv_nrow w : s_nrow (sdiag_pinv w) = length w. Proof. unfold sdiag_pinv. rewrite smap_nrow. apply sdiag_nrow. Qed.
Lemma swf_sdiag_pinv w : swf (sdiag_pinv w). Proof. apply swf_smap, swf_sdiag. Qed.
Theorem dense_sdiag w : dense (sdiag w) =m diag w.
Proof.
  apply (meq_mget (length w) (length w)).
  - pose proof (dense_wf (sdiag w)) as W. rewrite sdiag_nrow, sdiag_ncol in W. exact W.
  - apply diag_wf.
  - intros i j Hi Hj. rewrite mget_dense by (rewrite ?sdiag_nrow, ?sdiag_ncol; assumption). rewrite mget_diag by assumption.
    unfold sdiag; simpl. rewrite nth_seq_map by exact Hi.
    destruct (Qeq_bool (nthq w i) 0) eqn:E.
    + rewrite entry_nil. apply Qeq_bool_iff in E. destruct (Nat.eqb i j); [symmetry; exact E | reflexivity].
    + rewrite entry_cons, entry_nil. simpl. destruct (Nat.eqb i j); ring.
Qed.
Theorem dense_sdiag_pinv w : dense (sdiag_pinv w) =m diag (map pinv w).
Proof.
  apply (meq_mget (length w) (length w)).
  - pose proof (dense_wf (sdiag_pinv w)) as W. rewrite sdiag_pinv_nrow, sdiag_pinv_ncol in W. exact W.
  - pose proof (diag_wf (map pinv w)) as W. rewrite map_length in W. exact W.
  - intros i j Hi Hj. rewrite mget_dense by (rewrite ?sdiag_pinv_nrow, ?sdiag_pinv_ncol; assumption).
    rewrite mget_diag by (rewrite map_length; assumption). rewrite nthq_map by exact Hi.
    unfold sdiag_pinv, smap, sdiag; simpl. rewrite map_map. rewrite nth_seq_map by exact Hi.
    unfold pinv. destruct (Qeq_bool (nthq w i) 0) eqn:E; simpl.
    + rewrite entry_nil. destruct (Nat.eqb i j); reflexivity.
    + rewrite entry_cons, entry_nil. simpl. destruct (Nat.eqb i j); ring.
Qed.
Lemma smv_sdiag_pinv w x : length x = length w -> smv (sdiag_pinv w) x =v vmul (map pinv w) x.
Proof.
  intros H. rewrite smv_dense by (auto using swf_sdiag_pinv). rewrite dense_sdiag_pinv.
  apply mat_vec_diag. rewrite map_length. exact H.
Qed.
Lemma dense_smul_sdiag_pinv w s : s_nrow s = length w ->
  dense (smul (sdiag_pinv w) s) =m row_scale (map pinv w) (dense s).
Proof.
  intros H. rewrite dense_smul by (auto using swf_sdiag_pinv; rewrite sdiag_pinv_ncol; symmetry; exact H).
  rewrite dense_sdiag_pinv. symmetry. apply (row_scale_diag (length w)); [apply map_length|].
  rewrite <- H. apply dense_wf.
Qed.
Lemma smm_sdiag_pinv k w X : wf_mat (length w) k X -> smm k (sdiag_pinv w) X =m row_scale (map pinv w) X.
Proof.
  intros WX. rewrite smm_dense by (auto using swf_sdiag_pinv). rewrite dense_sdiag_pinv.
  symmetry. apply (row_scale_diag (length w)); [apply map_length | exact WX].
Qed.
(* ------------------------------------------------------------------------------------------- *)
(** * SparseLR *)
Definition lrsum (r c : nat) (lr : list (vec * vec)) : mat :=
  fold_right (fun xy D => madd D (outer (fst xy) (snd xy))) (mzero r c) lr.
Definition slr_wfv (v : slr) : Prop := swf (sl_sp v) /\ lr_ok (s_nrow (sl_sp v)) (s_ncol (sl_sp v)) (sl_lr v).

Lemma outer_wf' r c x y : length x = r -> length y = c -> wf_mat r c (outer x y).
Proof. intros <- <-. apply outer_wf. Qed.
Lemma lrsum_wf r c lr : lr_ok r c lr -> wf_mat r c (lrsum r c lr).
Proof.
  induction 1 as [|xy lr [Hx Hy] _ IH]; simpl; [apply mzero_wf|]. apply madd_wf; [exact IH | apply outer_wf'; assumption].
Qed.
Lemma madd_mzero_r r c A : wf_mat r c A -> madd A (mzero r c) =m A.
Proof.
  intros WA. apply (meq_mget r c); auto; [apply madd_wf; auto; apply mzero_wf|].
  intros i j Hi Hj. rewrite (mget_madd r c) by (auto; apply mzero_wf). rewrite mget_mzero. ring.
Qed.
Lemma madd_mzero_l r c A : wf_mat r c A -> madd (mzero r c) A =m A.
Proof. intros WA. rewrite madd_comm. apply madd_mzero_r; exact WA. Qed.

Lemma fold_left_lr r c lr D0 : wf_mat r c D0 -> lr_ok r c lr ->
  fold_left (fun D xy => madd D (outer (fst xy) (snd xy))) lr D0 =m madd D0 (lrsum r c lr).
Proof.
  intros W0 H. revert D0 W0. induction H as [|xy lr [Hx Hy] Hlr IH]; intros D0 W0; simpl.
  - symmetry. apply madd_mzero_r; exact W0.
  - rewrite IH by (apply madd_wf; [exact W0 | apply outer_wf'; assumption]).
    rewrite madd_assoc. apply madd_proper; [reflexivity|]. apply madd_comm.
Qed.
Lemma fold_right_lr r c lr D0 : wf_mat r c D0 -> lr_ok r c lr ->
  fold_right (fun xy D => madd D (outer (fst xy) (snd xy))) D0 lr =m madd D0 (lrsum r c lr).
Proof.
  intros W0 H. induction H as [|xy lr [Hx Hy] Hlr IH]; simpl.
  - symmetry. apply madd_mzero_r; exact W0.
  - rewrite IH. apply madd_assoc.
Qed.
Lemma slr_dense_split v : slr_wfv v ->
  slr_dense v =m madd (dense (sl_sp v)) (lrsum (s_nrow (sl_sp v)) (s_ncol (sl_sp v)) (sl_lr v)).
Proof. intros [W H]. unfold slr_dense. apply fold_left_lr; [apply dense_wf | exact H]. Qed.
Lemma slr_dense_wf v : slr_wfv v -> wf_mat (s_nrow (sl_sp v)) (s_ncol (sl_sp v)) (slr_dense v).
Proof.
  intros Hv. eapply wf_mat_meq; [symmetry; apply slr_dense_split; exact Hv|].
  destruct Hv as [W H]. apply madd_wf; [apply dense_wf | apply lrsum_wf; exact H].
Qed.

(** _matvec, 1-D *)
Theorem slr_matvec_denotes v x : slr_wfv v -> length x = s_ncol (sl_sp v) ->
  slr_matvec v x =v mat_vec (slr_dense v) x.
Proof.
  intros [W H] Hx. unfold slr_matvec, slr_dense.
  assert (G : forall acc D, wf_mat (s_nrow (sl_sp v)) (s_ncol (sl_sp v)) D -> length acc = s_nrow (sl_sp v) ->
            acc =v mat_vec D x ->
            fold_left (fun prod xy => vadd prod (vscale (dot x (snd xy)) (fst xy))) (sl_lr v) acc
            =v mat_vec (fold_left (fun D xy => madd D (outer (fst xy) (snd xy))) (sl_lr v) D) x).
  { induction H as [|xy lr [Hxx Hy] Hlr IH]; intros acc D WD Hacc E; simpl; [exact E|].
    apply IH.
    - apply madd_wf; [exact WD | apply outer_wf'; assumption].
    - vlen.
    - rewrite (mat_vec_madd _ _ _ _ x WD (outer_wf' _ _ _ _ Hxx Hy)). rewrite mat_vec_outer, E.
      rewrite (dot_comm x). reflexivity. }
  apply G; [apply dense_wf | vlen | apply smv_dense; assumption].
Qed.
Lemma slr_matvec_length v x : slr_wfv v -> length (slr_matvec v x) = s_nrow (sl_sp v).
Proof.
  intros [W H]. unfold slr_matvec.
  assert (G : forall acc, length acc = s_nrow (sl_sp v) ->
            length (fold_left (fun prod xy => vadd prod (vscale (dot x (snd xy)) (fst xy))) (sl_lr v) acc) = s_nrow (sl_sp v)).
  { induction H as [|xy lr [Hxx Hy] Hlr IH]; intros acc Hacc; simpl; [exact Hacc|]. apply IH. vlen. }
  apply G. vlen.
Qed.

(** _matvec, 2-D *)
Theorem slr_matmat_denotes k v X : slr_wfv v -> wf_mat (s_ncol (sl_sp v)) k X ->
  slr_matmat k v X =m mat_mul k (slr_dense v) X.
Proof.
  intros [W H] WX. unfold slr_matmat, slr_dense.
  assert (G : forall acc D, wf_mat (s_nrow (sl_sp v)) (s_ncol (sl_sp v)) D -> wf_mat (s_nrow (sl_sp v)) k acc ->
            acc =m mat_mul k D X ->
            fold_left (fun prod xy => madd prod (outer (fst xy) (mat_vec (transpose_n k X) (snd xy)))) (sl_lr v) acc
            =m mat_mul k (fold_left (fun D xy => madd D (outer (fst xy) (snd xy))) (sl_lr v) D) X).
  { induction H as [|xy lr [Hxx Hy] Hlr IH]; intros acc D WD Wacc E; simpl; [exact E|].
    apply IH.
    - apply madd_wf; [exact WD | apply outer_wf'; assumption].
    - apply madd_wf; [exact Wacc|]. apply outer_wf'; [exact Hxx|]. rewrite mat_vec_length. unfold transpose_n. vlen.
    - rewrite (mat_mul_madd_l _ _ _ _ _ X WD (outer_wf' _ _ _ _ Hxx Hy) WX).
      rewrite (mat_mul_outer_l (s_ncol (sl_sp v)) k) by assumption.
      rewrite (vec_mat_transpose _ _ X (snd xy) WX). rewrite E. reflexivity. }
  apply G; [apply dense_wf | apply smm_wf; assumption | apply smm_dense; assumption].
Qed.

(** lrsum under the list operations the methods perform *)
Lemma lrsum_app r c l1 l2 : lr_ok r c l1 -> lr_ok r c l2 -> lrsum r c (l1 ++ l2) =m madd (lrsum r c l1) (lrsum r c l2).
Proof.
  intros H1 H2. induction H1 as [|xy l1 [Hx Hy] Hl1 IH]; simpl.
  - symmetry. apply madd_mzero_l. apply lrsum_wf; exact H2.
  - rewrite IH. rewrite !madd_assoc. apply madd_proper; [reflexivity|]. apply madd_comm.
Qed.
Lemma lr_ok_app r c l1 l2 : lr_ok r c l1 -> lr_ok r c l2 -> lr_ok r c (l1 ++ l2).
Proof. intros; apply Forall_app; split; assumption. Qed.
Lemma lr_ok_map r c r' c' (f : vec * vec -> vec * vec) lr :
  (forall xy, length (fst xy) = r -> length (snd xy) = c -> length (fst (f xy)) = r' /\ length (snd (f xy)) = c') ->
  lr_ok r c lr -> lr_ok r' c' (map f lr).
Proof. intros Hf H. induction H as [|xy lr [Hx Hy] Hlr IH]; simpl; constructor; auto. Qed.

Lemma mneg_mzero r c : mneg (mzero r c) =m mzero r c.
Proof.
  apply (meq_mget r c); [apply mneg_wf, mzero_wf | apply mzero_wf|].
  intros i j Hi Hj. rewrite (mget_mneg r c) by (auto; apply mzero_wf). rewrite mget_mzero. ring.
Qed.
Lemma mscale_mzero q r c : mscale q (mzero r c) =m mzero r c.
Proof.
  apply (meq_mget r c); [apply mscale_wf, mzero_wf | apply mzero_wf|].
  intros i j Hi Hj. rewrite (mget_mscale r c) by (auto; apply mzero_wf). rewrite mget_mzero. ring.
Qed.
Lemma mneg_madd A B : mneg (madd A B) =m madd (mneg A) (mneg B).
Proof. rewrite !mneg_mscale. apply mscale_madd. Qed.
Lemma transpose_mzero r c : transpose_n c (mzero r c) =m mzero c r.
Proof.
  pose proof (mzero_wf r c) as W. apply (meq_mget c r); [apply transpose_n_wf, (wf_mat_length _ _ _ W) | apply mzero_wf|].
  intros j i Hj Hi. rewrite mget_transpose_n by (rewrite ?(wf_mat_length _ _ _ W); auto). rewrite !mget_mzero. reflexivity.
Qed.
Lemma mat_mul_mzero_l q p r B : wf_mat q p B -> mat_mul p (mzero r q) B =m mzero r p.
Proof.
  intros WB. unfold mat_mul, mzero. induction r as [|r IH]; simpl; constructor; auto.
  apply vec_mat_vzero_l. apply (wf_mat_rows _ _ _ WB).
Qed.
Lemma mat_mul_mzero_r r q p A : wf_mat r q A -> mat_mul p A (mzero q p) =m mzero r p.
Proof.
  intros WA. pose proof (mzero_wf q p) as WZ.
  apply (meq_mget r p); [eapply mat_mul_wf; eauto | apply mzero_wf|].
  intros i j Hi Hj. rewrite (mget_mat_mul r q p) by auto. rewrite mget_mzero.
  assert (E : col j (mzero q p) =v vzero q).
  { apply veq_nth; [vlen; unfold mzero; vlen|]. intros k Hk. rewrite col_length in Hk. unfold mzero in Hk. rewrite repeat_length in Hk.
    rewrite nthq_col by (unfold mzero; vlen). rewrite mget_mzero, nthq_vzero. reflexivity. }
  rewrite E. apply dot_vzero_r.
Qed.
Lemma mat_mul_madd_r r q p A B B' : wf_mat r q A -> wf_mat q p B -> wf_mat q p B' ->
  mat_mul p A (madd B B') =m madd (mat_mul p A B) (mat_mul p A B').
Proof.
  intros WA WB WB'. pose proof (madd_wf _ _ _ _ WB WB') as WS.
  apply (meq_mget r p); [eapply mat_mul_wf; eauto | apply madd_wf; eapply mat_mul_wf; eauto|].
  intros i j Hi Hj. rewrite (mget_madd r p) by (auto; eapply mat_mul_wf; eauto).
  rewrite !(mget_mat_mul r q p) by auto.
  assert (E : col j (madd B B') =v vadd (col j B) (col j B')).
  { apply veq_nth; [vlen; rewrite (wf_mat_length _ _ _ WS), (wf_mat_length _ _ _ WB), (wf_mat_length _ _ _ WB'); lia|].
    intros k Hk. rewrite col_length, (wf_mat_length _ _ _ WS) in Hk.
    rewrite nthq_vadd by (rewrite col_length, ?(wf_mat_length _ _ _ WB), ?(wf_mat_length _ _ _ WB'); lia).
    rewrite !nthq_col by (rewrite ?(wf_mat_length _ _ _ WS), ?(wf_mat_length _ _ _ WB), ?(wf_mat_length _ _ _ WB'); lia).
    rewrite (mget_madd q p) by auto. reflexivity. }
  rewrite E. apply dot_vadd_r. rewrite !col_length, (wf_mat_length _ _ _ WB), (wf_mat_length _ _ _ WB'). reflexivity.
Qed.
Lemma mat_mul_outer_r r q p A x y : wf_mat r q A -> length x = q -> length y = p ->
  mat_mul p A (outer x y) =m outer (mat_vec A x) y.
Proof.
  intros WA Hx Hy. pose proof (outer_wf' q p x y Hx Hy) as WO.
  apply (meq_mget r p); [eapply mat_mul_wf; eauto | apply outer_wf'; [rewrite mat_vec_length; apply (wf_mat_length _ _ _ WA) | exact Hy]|].
  intros i j Hi Hj. rewrite (mget_mat_mul r q p) by auto.
  rewrite mget_outer by (rewrite ?mat_vec_length, ?(wf_mat_length _ _ _ WA); lia).
  rewrite nthq_mat_vec by (rewrite (wf_mat_length _ _ _ WA); exact Hi).
  assert (E : col j (outer x y) =v vscale (nthq y j) x).
  { apply veq_nth; [rewrite col_length, vscale_length; unfold outer; vlen|]. intros k Hk.
    rewrite col_length in Hk. unfold outer in Hk. rewrite map_length in Hk.
    rewrite nthq_col by (unfold outer; vlen). rewrite mget_outer by lia. rewrite nthq_vscale by lia. ring. }
  rewrite E, dot_vscale_r. ring.
Qed.

Lemma lrsum_map_neg r c lr : lr_ok r c lr -> lrsum r c (map (fun xy => (vneg (fst xy), snd xy)) lr) =m mneg (lrsum r c lr).
Proof.
  induction 1 as [|xy lr [Hx Hy] Hlr IH]; simpl; [symmetry; apply mneg_mzero|].
  rewrite IH, mneg_madd, mneg_outer. reflexivity.
Qed.
Lemma lrsum_map_scale q r c lr : lr_ok r c lr -> lrsum r c (map (fun xy => (vscale q (fst xy), snd xy)) lr) =m mscale q (lrsum r c lr).
Proof.
  induction 1 as [|xy lr [Hx Hy] Hlr IH]; simpl; [symmetry; apply mscale_mzero|].
  rewrite IH, mscale_madd, mscale_outer. reflexivity.
Qed.
Lemma lrsum_map_swap r c lr : lr_ok r c lr -> lrsum c r (map (fun xy => (snd xy, fst xy)) lr) =m transpose_n c (lrsum r c lr).
Proof.
  induction 1 as [|xy lr [Hx Hy] Hlr IH]; simpl; [symmetry; apply transpose_mzero|].
  rewrite (transpose_madd r c) by (auto using lrsum_wf, outer_wf').
  rewrite IH. apply madd_proper; [reflexivity|]. rewrite <- Hy. symmetry. apply transpose_outer.
Qed.
Lemma lrsum_map_left M c lr : swf M -> lr_ok (s_ncol M) c lr ->
  lrsum (s_nrow M) c (map (fun xy => (smv M (fst xy), snd xy)) lr) =m mat_mul c (dense M) (lrsum (s_ncol M) c lr).
Proof.
  intros WM. induction 1 as [|xy lr [Hx Hy] Hlr IH]; simpl.
  - symmetry. apply (mat_mul_mzero_r (s_nrow M)). apply dense_wf.
  - rewrite (mat_mul_madd_r (s_nrow M) (s_ncol M) c) by (auto using dense_wf, lrsum_wf, outer_wf').
    rewrite IH. apply madd_proper; [reflexivity|].
    rewrite (mat_mul_outer_r (s_nrow M) (s_ncol M) c) by (auto using dense_wf).
    rewrite smv_dense by assumption. reflexivity.
Qed.
Lemma lrsum_map_right M r lr : swf M -> lr_ok r (s_nrow M) lr ->
  lrsum r (s_ncol M) (map (fun xy => (fst xy, smv (stranspose M) (snd xy))) lr) =m mat_mul (s_ncol M) (lrsum r (s_nrow M) lr) (dense M).
Proof.
  intros WM. induction 1 as [|xy lr [Hx Hy] Hlr IH]; simpl.
  - symmetry. apply (mat_mul_mzero_l (s_nrow M)). apply dense_wf.
  - rewrite (mat_mul_madd_l r (s_nrow M) (s_ncol M)) by (auto using dense_wf, lrsum_wf, outer_wf').
    rewrite IH. apply madd_proper; [reflexivity|].
    rewrite (mat_mul_outer_l (s_nrow M) (s_ncol M)) by (auto using dense_wf).
    rewrite smv_dense by (auto using swf_stranspose; rewrite stranspose_ncol; exact Hy).
    rewrite dense_stranspose. rewrite <- (vec_mat_transpose (s_nrow M) (s_ncol M)) by apply dense_wf. reflexivity.
Qed.
(** ** the algebraic operations of SparseLR, one lemma each *)
Definition slr_is (v : slr) (r c : nat) (D : mat) : Prop :=
  slr_wfv v /\ s_nrow (sl_sp v) = r /\ s_ncol (sl_sp v) = c /\ slr_dense v =m D.

Lemma slr_is_wf v r c D : slr_is v r c D -> wf_mat r c D.
Proof. intros (Hv & <- & <- & E). eapply wf_mat_meq; [exact E | apply slr_dense_wf; exact Hv]. Qed.
Lemma slr_is_intro v r c D : swf (sl_sp v) -> s_nrow (sl_sp v) = r -> s_ncol (sl_sp v) = c -> lr_ok r c (sl_lr v) ->
  madd (dense (sl_sp v)) (lrsum r c (sl_lr v)) =m D -> slr_is v r c D.
Proof.
  intros W Hr Hc H E. subst r c. assert (Hv : slr_wfv v) by (split; assumption).
  repeat split; auto. rewrite slr_dense_split by exact Hv. exact E.
Qed.
Lemma slr_is_split v r c D : slr_is v r c D -> madd (dense (sl_sp v)) (lrsum r c (sl_lr v)) =m D.
Proof. intros (Hv & <- & <- & E). rewrite <- slr_dense_split by exact Hv. exact E. Qed.
Lemma slr_is_meq v r c D D' : D =m D' -> slr_is v r c D -> slr_is v r c D'.
Proof. intros E (Hv & Hr & Hc & E'). repeat split; auto; try apply Hv. rewrite E'. exact E. Qed.

Lemma madd_shuffle A B C : madd (madd A B) C =m madd (madd A C) B.
Proof. rewrite !madd_assoc. apply madd_proper; [reflexivity | apply madd_comm]. Qed.
Lemma madd_4 A B C D : madd (madd A B) (madd C D) =m madd (madd A C) (madd B D).
Proof. rewrite !madd_assoc. apply madd_proper; [reflexivity|]. rewrite <- !madd_assoc. apply madd_proper; [apply madd_comm | reflexivity]. Qed.

Theorem slr_neg_is v r c D : slr_is v r c D -> slr_is (slr_neg v) r c (mneg D).
Proof.
  intros H. pose proof (slr_is_split _ _ _ _ H) as E. destruct H as ([W Hlr] & Hr & Hc & _). subst r c.
  apply slr_is_intro; simpl.
  - apply swf_smap; exact W.
  - apply smap_nrow.
  - reflexivity.
  - eapply lr_ok_map; [|exact Hlr]. intros xy Hx Hy; simpl. rewrite vneg_length. auto.
  - rewrite dense_sneg, lrsum_map_neg by exact Hlr. rewrite <- mneg_madd, E. reflexivity.
Qed.
Theorem slr_mul_is q v r c D : slr_is v r c D -> slr_is (slr_mul q v) r c (mscale q D).
Proof.
  intros H. pose proof (slr_is_split _ _ _ _ H) as E. destruct H as ([W Hlr] & Hr & Hc & _). subst r c.
  apply slr_is_intro; simpl.
  - apply swf_smap; exact W.
  - apply smap_nrow.
  - reflexivity.
  - eapply lr_ok_map; [|exact Hlr]. intros xy Hx Hy; simpl. rewrite vscale_length. auto.
  - rewrite dense_sscale, lrsum_map_scale by exact Hlr. rewrite <- mscale_madd, E. reflexivity.
Qed.
Theorem slr_add_csr_is v s r c D : slr_is v r c D -> swf s -> s_nrow s = r -> s_ncol s = c ->
  slr_is (slr_add_csr v s) r c (madd D (dense s)).
Proof.
  intros H Ws Hsr Hsc. pose proof (slr_is_split _ _ _ _ H) as E. destruct H as ([W Hlr] & Hr & Hc & _).
  apply slr_is_intro; simpl.
  - apply swf_sadd; auto; lia.
  - rewrite sadd_nrow; lia.
  - exact Hc.
  - subst r c; exact Hlr.
  - rewrite dense_sadd by lia. rewrite madd_shuffle, E. reflexivity.
Qed.
Theorem slr_add_is v w r c D D' : slr_is v r c D -> slr_is w r c D' -> slr_is (slr_add v w) r c (madd D D').
Proof.
  intros H H'. pose proof (slr_is_split _ _ _ _ H) as E. pose proof (slr_is_split _ _ _ _ H') as E'.
  destruct H as ([W Hlr] & Hr & Hc & _). destruct H' as ([W' Hlr'] & Hr' & Hc' & _).
  apply slr_is_intro; simpl.
  - apply swf_sadd; auto; lia.
  - rewrite sadd_nrow; lia.
  - exact Hc.
  - apply lr_ok_app; [subst r c; exact Hlr | rewrite <- Hr', <- Hc'; exact Hlr'].
  - rewrite dense_sadd by lia.
    rewrite lrsum_app by (subst r c; auto; rewrite <- Hr', <- Hc'; auto).
    rewrite madd_4, E, E'. reflexivity.
Qed.
Theorem slr_sub_is v w r c D D' : slr_is v r c D -> slr_is w r c D' -> slr_is (slr_sub v w) r c (msub D D').
Proof.
  intros H H'. unfold slr_sub. eapply slr_is_meq; [symmetry; apply msub_madd_mneg|].
  apply slr_add_is; [exact H | apply slr_neg_is; exact H'].
Qed.
Theorem slr_sub_csr_is v s r c D : slr_is v r c D -> swf s -> s_nrow s = r -> s_ncol s = c ->
  slr_is (slr_sub_csr v s) r c (msub D (dense s)).
Proof.
  intros H Ws Hsr Hsc. unfold slr_sub_csr. eapply slr_is_meq; [symmetry; apply msub_madd_mneg|].
  eapply slr_is_meq; [apply madd_proper; [reflexivity | apply dense_sneg]|].
  apply slr_add_csr_is; auto; [apply swf_smap; exact Ws | unfold sneg; rewrite smap_nrow; exact Hsr].
Qed.
Theorem slr_left_is M v r c D : slr_is v r c D -> swf M -> s_ncol M = r ->
  slr_is (slr_left M v) (s_nrow M) c (mat_mul c (dense M) D).
Proof.
  intros H WM HM. pose proof (slr_is_split _ _ _ _ H) as E. destruct H as ([W Hlr] & Hr & Hc & _). subst r c.
  apply slr_is_intro; simpl.
  - apply swf_smul; exact W.
  - apply smul_nrow.
  - reflexivity.
  - eapply lr_ok_map; [|exact Hlr]. intros xy Hx Hy; simpl. rewrite smv_length. auto.
  - rewrite dense_smul by auto. rewrite <- HM in Hlr. rewrite lrsum_map_left by assumption.
    rewrite <- (mat_mul_madd_r (s_nrow M) (s_ncol M)) by (auto using dense_wf, lrsum_wf; rewrite HM; apply dense_wf).
    rewrite HM, E. reflexivity.
Qed.
Theorem slr_right_is v M r c D : slr_is v r c D -> swf M -> s_nrow M = c ->
  slr_is (slr_right v M) r (s_ncol M) (mat_mul (s_ncol M) D (dense M)).
Proof.
  intros H WM HM. pose proof (slr_is_split _ _ _ _ H) as E. destruct H as ([W Hlr] & Hr & Hc & _). subst r c.
  apply slr_is_intro; simpl.
  - apply swf_smul; exact WM.
  - apply smul_nrow.
  - reflexivity.
  - eapply lr_ok_map; [|exact Hlr]. intros xy Hx Hy; simpl. rewrite smv_length, stranspose_nrow. auto.
  - rewrite dense_smul by auto. rewrite <- HM in Hlr. rewrite lrsum_map_right by assumption.
    rewrite <- (mat_mul_madd_l (s_nrow (sl_sp v)) (s_nrow M) (s_ncol M)) by (auto using dense_wf, lrsum_wf; rewrite HM; apply dense_wf).
    rewrite HM, E. reflexivity.
Qed.
Theorem slr_transpose_is v r c D : slr_is v r c D -> slr_is (slr_transpose v) c r (transpose_n c D).
Proof.
  intros H. pose proof (slr_is_split _ _ _ _ H) as E. destruct H as ([W Hlr] & Hr & Hc & _). subst r c.
  apply slr_is_intro; simpl.
  - apply swf_stranspose.
  - apply stranspose_nrow.
  - reflexivity.
  - eapply lr_ok_map; [|exact Hlr]. intros xy Hx Hy; simpl. auto.
  - rewrite dense_stranspose, lrsum_map_swap by exact Hlr.
    rewrite <- (transpose_madd (s_nrow (sl_sp v)) (s_ncol (sl_sp v))) by (auto using dense_wf, lrsum_wf).
    rewrite E. reflexivity.
Qed.
Theorem slr_astype_is v r c D : slr_is v r c D -> slr_is (slr_astype v) r c D.
Proof. intros H; exact H. Qed.

(** sums *)
Theorem slr_sum1_denotes v r c D : slr_is v r c D -> slr_sum1 v =v row_sums D.
Proof.
  intros H. pose proof (slr_is_wf _ _ _ _ H) as WD. destruct H as (Hv & Hr & Hc & E). unfold slr_sum1, slr_shape; simpl.
  rewrite slr_matvec_denotes by (auto; vlen). rewrite E, Hc. apply (mat_vec_vones r c); exact WD.
Qed.
Theorem slr_sum0_denotes v r c D : slr_is v r c D -> slr_sum0 v =v col_sums c D.
Proof.
  intros H. pose proof (slr_transpose_is _ _ _ _ H) as Ht. pose proof (slr_is_wf _ _ _ _ H) as WD.
  destruct H as (Hv & Hr & Hc & E). destruct Ht as (Hvt & Hrt & Hct & Et). unfold slr_sum0, slr_shape; simpl fst.
  rewrite slr_matvec_denotes by (auto; rewrite Hct; vlen). rewrite Et, Hr.
  rewrite <- (wf_mat_length _ _ _ WD). apply mat_vec_transpose_vones.
Qed.
Theorem slr_sum_denotes v r c D : slr_is v r c D -> slr_sum v == total D.
Proof. intros H. unfold slr_sum, total. rewrite (slr_sum1_denotes _ _ _ _ H). reflexivity. Qed.

Theorem slr_normalize_is v r c D : slr_is v r c D -> slr_is (slr_normalize v) r c (row_scale (map pinv (row_sums D)) D).
Proof.
  intros H. pose proof (slr_is_wf _ _ _ _ H) as WD. pose proof (slr_sum1_denotes _ _ _ _ H) as ES.
  assert (HL : length (slr_sum1 v) = r).
  { rewrite (veq_length _ _ ES). rewrite row_sums_length. apply (wf_mat_length _ _ _ WD). }
  unfold slr_normalize.
  pose proof (slr_left_is (sdiag_pinv (slr_sum1 v)) v r c D H (swf_sdiag_pinv _)) as HLft.
  rewrite sdiag_pinv_ncol, sdiag_pinv_nrow, HL in HLft. specialize (HLft eq_refl).
  eapply slr_is_meq; [|exact HLft].
  rewrite dense_sdiag_pinv. rewrite <- (row_scale_diag r c) by (auto; rewrite map_length; exact HL).
  apply row_scale_proper; [|reflexivity]. apply map_pinv_proper. exact ES.
Qed.
Theorem slr_d2u_is v n D : slr_is v n n D -> slr_is (slr_d2u v) n n (madd D (transpose_n n D)).
Proof.
  intros H. pose proof (slr_is_split _ _ _ _ H) as E. pose proof (slr_is_split _ _ _ _ (slr_transpose_is _ _ _ _ H)) as Et.
  simpl in Et. destruct H as ([W Hlr] & Hr & Hc & _).
  apply slr_is_intro; simpl.
  - apply swf_sadd; auto using swf_stranspose. rewrite stranspose_ncol. lia.
  - rewrite sadd_nrow; [exact Hr | rewrite stranspose_nrow; lia].
  - exact Hc.
  - apply lr_ok_app; [rewrite <- Hr at 1; rewrite <- Hc; exact Hlr|].
    eapply lr_ok_map; [|exact Hlr]. intros xy Hx Hy; simpl. split; lia.
  - rewrite dense_sadd by (rewrite stranspose_ncol; lia).
    assert (Hlr' : lr_ok n n (sl_lr v)) by (rewrite <- Hr at 1; rewrite <- Hc; exact Hlr).
    rewrite lrsum_app; [| exact Hlr' | eapply lr_ok_map; [|exact Hlr']; intros xy Hx Hy; simpl; auto].
    rewrite madd_4, E, Et. reflexivity.
Qed.

Lemma mget_regularized a alpha i j : (i < s_nrow a)%nat -> (j < s_ncol a)%nat ->
  mget (regularized_dense a alpha) i j == mget (dense a) i j + alpha / qnat (s_ncol a).
Proof.
  intros Hi Hj. unfold regularized_dense. rewrite (mget_madd (s_nrow a) (s_ncol a)) by (auto using dense_wf, mconst_wf).
  rewrite mget_mconst by assumption. reflexivity.
Qed.
Lemma regularized_wf a alpha : wf_mat (s_nrow a) (s_ncol a) (regularized_dense a alpha).
Proof. apply madd_wf; [apply dense_wf | apply mconst_wf]. Qed.
Theorem regularizer_is s alpha : swf s -> slr_is (regularizer s alpha) (s_nrow s) (s_ncol s) (regularized_dense s alpha).
Proof.
  intros W. apply slr_is_intro; simpl; auto.
  - constructor; [|constructor]. simpl. split; vlen.
  - rewrite madd_mzero_l by (apply outer_wf'; vlen). unfold regularized_dense. apply madd_proper; [reflexivity|].
    apply (meq_mget (s_nrow s) (s_ncol s)); [apply outer_wf'; vlen | apply mconst_wf|].
    intros i j Hi Hj. rewrite mget_outer by vlen. rewrite nthq_vscale by vlen. rewrite nthq_vones by exact Hi.
    rewrite nthq_map by vlen. rewrite nthq_vones by exact Hj. rewrite mget_mconst by assumption. unfold Qdiv. ring.
Qed.

(** ** every SparseLR expression denotes its dense matrix *)
Theorem se_denotes e : se_wf e -> slr_is (slr_eval e) (fst (se_shape e)) (snd (se_shape e)) (se_dense e).
Proof.
  induction e as [s lr | s alpha | e IH | e1 IH1 e2 IH2 | e IH s | e1 IH1 e2 IH2 | e IH s | q e IH | M e IH | e IH M
                 | e IH | e IH | e IH | e IH]; simpl; intros H.
  - destruct H as [W Hlr]. apply slr_is_intro; simpl; auto. symmetry. apply (fold_right_lr (s_nrow s) (s_ncol s)); [apply dense_wf | exact Hlr].
  - destruct H as [W _]. apply regularizer_is; exact W.
  - apply slr_neg_is; auto.
  - destruct H as (H1 & H2 & E). apply slr_add_is; auto. rewrite E. auto.
  - destruct H as (H1 & W & E). rewrite E; simpl. apply slr_add_csr_is; auto. specialize (IH H1). rewrite E in IH. exact IH.
  - destruct H as (H1 & H2 & E). apply slr_sub_is; auto. rewrite E. auto.
  - destruct H as (H1 & W & E). rewrite E; simpl. apply slr_sub_csr_is; auto. specialize (IH H1). rewrite E in IH. exact IH.
  - apply slr_mul_is; auto.
  - destruct H as (H1 & W & E). apply (slr_left_is M _ (fst (se_shape e))); auto.
  - destruct H as (H1 & W & E). apply (slr_right_is _ M (fst (se_shape e)) (snd (se_shape e))); auto.
  - apply slr_transpose_is; auto.
  - apply slr_astype_is; auto.
  - apply slr_normalize_is; auto.
  - destruct H as (H1 & E). specialize (IH H1). rewrite E in *. apply slr_d2u_is; exact IH.
Qed.
(** operator.dot(x) on a SparseLR expression: the shape checks pass and the result is dense . x *)
Lemma lo_dot_ok shape f x : length x = snd shape -> length (f x) = fst shape -> lo_dot shape f x = Ok (f x).
Proof. intros H1 H2. unfold lo_dot. rewrite H1, Nat.eqb_refl; simpl. rewrite H2, Nat.eqb_refl. reflexivity. Qed.

Theorem sparselr_dot_denotes e x : se_wf e -> length x = snd (se_shape e) ->
  exists y, lo_dot (slr_shape (slr_eval e)) (slr_matvec (slr_eval e)) x = Ok y /\ y =v mat_vec (se_dense e) x.
Proof.
  intros H Hx. destruct (se_denotes e H) as (Hv & Hr & Hc & E).
  exists (slr_matvec (slr_eval e) x). split.
  - apply lo_dot_ok; unfold slr_shape; simpl; [lia | apply slr_matvec_length; exact Hv].
  - rewrite slr_matvec_denotes by (auto; lia). rewrite E. reflexivity.
Qed.
Theorem sparselr_matmat_denotes k e X : se_wf e -> wf_mat (snd (se_shape e)) k X ->
  slr_matmat k (slr_eval e) X =m mat_mul k (se_dense e) X.
Proof.
  intros H WX. destruct (se_denotes e H) as (Hv & Hr & Hc & E).
  rewrite slr_matmat_denotes by (auto; rewrite Hc; exact WX). rewrite E. reflexivity.
Qed.

(* ------------------------------------------------------------------------------------------- *)
(** * Normalizer *)
Lemma sumq_vones n : sumq (vones n) == qnat n.
Proof.
  induction n as [|n IH]; [reflexivity|]. change (vones (S n)) with (1 :: vones n). simpl sumq. rewrite IH.
  unfold qnat. rewrite Nat2Z.inj_succ. unfold Z.succ. rewrite inject_Z_plus. ring.
Qed.
Lemma vmean_def x c : length x = c -> vmean x == sumq x / qnat c.
Proof. intros <-. reflexivity. Qed.

Lemma mat_vec_regularized a reg x : length x = s_ncol a ->
  mat_vec (regularized_dense a reg) x =v vadd (mat_vec (dense a) x) (vconst (s_nrow a) (reg / qnat (s_ncol a) * sumq x)).
Proof.
  intros Hx. unfold regularized_dense.
  rewrite (mat_vec_madd (s_nrow a) (s_ncol a)) by (auto using dense_wf, mconst_wf).
  rewrite mat_vec_mconst by exact Hx. reflexivity.
Qed.
Lemma row_sums_regularized a reg : (0 < s_ncol a)%nat ->
  row_sums (regularized_dense a reg) =v map (fun d => d + reg) (row_sums (dense a)).
Proof.
  intros Hc. rewrite <- (mat_vec_vones _ _ _ (regularized_wf a reg)).
  rewrite mat_vec_regularized by vlen. rewrite (mat_vec_vones _ _ _ (dense_wf a)).
  apply veq_nth; [vlen|]. intros i Hi. autorewrite with vlen in Hi.
  rewrite nthq_vadd by vlen. rewrite nthq_vconst by lia. rewrite nthq_map by vlen.
  rewrite sumq_vones. field. apply qnat_nonzero; exact Hc.
Qed.
Lemma mk_normalizer_weights a reg : swf a -> (0 < s_ncol a)%nat ->
  map (fun d => d + reg) (smv a (vones (s_ncol a))) =v row_sums (regularized_dense a reg).
Proof.
  intros W Hc. rewrite row_sums_regularized by exact Hc.
  apply map_veq; [intros p q E; rewrite E; reflexivity|].
  rewrite smv_dense by (auto; vlen). apply (mat_vec_vones _ _ _ (dense_wf a)).
Qed.
Lemma Qle_antisym_0 reg : 0 <= reg -> reg <= 0 -> reg == 0.
Proof. intros; apply Qle_antisym; assumption. Qed.

Theorem normalizer_matvec_denotes a reg x : swf a -> (0 < s_ncol a)%nat -> 0 <= reg -> length x = s_ncol a ->
  nz_matvec (mk_normalizer a reg) x =v mat_vec (normalizer_dense a reg) x.
Proof.
  intros W Hc Hreg Hx. unfold nz_matvec, mk_normalizer, normalizer_dense; simpl.
  rewrite mat_vec_row_scale, mat_vec_regularized by exact Hx.
  set (w' := map (fun d => d + reg) (smv a (vones (s_ncol a)))).
  assert (Hw' : length w' = s_nrow a) by (unfold w'; vlen).
  set (prod := if Qlt_b 0 reg then _ else _).
  assert (Hprod : length prod = s_nrow a) by (unfold prod; destruct (Qlt_b 0 reg); vlen).
  rewrite smv_sdiag_pinv by lia.
  apply vmul_proper; [apply map_pinv_proper; apply mk_normalizer_weights; assumption|].
  apply veq_nth; [vlen|]. intros i Hi. rewrite Hprod in Hi.
  rewrite nthq_vadd by vlen. rewrite nthq_vconst by exact Hi.
  assert (EA : nthq (smv a x) i == nthq (mat_vec (dense a) x) i) by (rewrite smv_dense by assumption; reflexivity).
  unfold prod. destruct (Qlt_b 0 reg) eqn:Er.
  - rewrite nthq_vadd by vlen. rewrite nthq_vscale by vlen. rewrite nthq_vones by exact Hi.
    rewrite EA, (vmean_def x (s_ncol a) Hx). field. apply qnat_nonzero; exact Hc.
  - apply Qlt_b_false in Er. pose proof (Qle_antisym_0 reg Hreg Er) as E0. rewrite EA, E0. field. apply qnat_nonzero; exact Hc.
Qed.

Lemma mat_mul_mconst_l r c k q X : wf_mat c k X ->
  mat_mul k (mconst r c q) X =m outer (vones r) (vscale q (col_sums k X)).
Proof.
  intros WX. apply (meq_mget r k); [eapply mat_mul_wf; [apply mconst_wf | exact WX] | apply outer_wf'; vlen|].
  intros i j Hi Hj. rewrite (mget_mat_mul r c k) by (auto using mconst_wf).
  rewrite mget_outer by vlen. rewrite nthq_vones by exact Hi. rewrite nthq_vscale by vlen.
  unfold col_sums. rewrite nthq_seq_map by exact Hj.
  assert (E : nth i (mconst r c q) [] = vconst c q).
  { unfold mconst. clear -Hi. revert i Hi; induction r as [|r IH]; intros [|i] Hi; simpl; try lia; auto. apply IH; lia. }
  rewrite E. assert (HL : length (col j X) = c) by (rewrite col_length; apply (wf_mat_length _ _ _ WX)).
  pose proof (dot_vconst_l (col j X) q) as D. rewrite HL in D. rewrite D. ring.
Qed.
Lemma mat_mul_regularized a reg k X : wf_mat (s_ncol a) k X ->
  mat_mul k (regularized_dense a reg) X =m
  madd (mat_mul k (dense a) X) (outer (vones (s_nrow a)) (vscale (reg / qnat (s_ncol a)) (col_sums k X))).
Proof.
  intros WX. unfold regularized_dense.
  rewrite (mat_mul_madd_l (s_nrow a) (s_ncol a) k) by (auto using dense_wf, mconst_wf).
  rewrite mat_mul_mconst_l by exact WX. reflexivity.
Qed.
Lemma col_means_length k X : length (col_means k X) = k.
Proof. unfold col_means. vlen. Qed.
Global Hint Rewrite col_means_length : vlen.

Theorem normalizer_matmat_denotes k a reg X : swf a -> (0 < s_ncol a)%nat -> 0 <= reg -> wf_mat (s_ncol a) k X ->
  nz_matmat k (mk_normalizer a reg) X =m mat_mul k (normalizer_dense a reg) X.
Proof.
  intros W Hc Hreg WX. unfold nz_matmat, mk_normalizer, normalizer_dense; simpl.
  rewrite mat_mul_row_scale_l by (apply (wf_mat_rows _ _ _ WX)). rewrite mat_mul_regularized by exact WX.
  set (w' := map (fun d => d + reg) (smv a (vones (s_ncol a)))).
  assert (Hw' : length w' = s_nrow a) by (unfold w'; vlen).
  set (prod := if Qlt_b 0 reg then _ else _).
  assert (Wsmm : wf_mat (s_nrow a) k (smm k a X)) by (apply smm_wf; assumption).
  assert (WOm : wf_mat (s_nrow a) k (outer (vones (s_nrow a)) (col_means k X))) by (apply outer_wf'; vlen).
  assert (WOs : wf_mat (s_nrow a) k (outer (vones (s_nrow a)) (vscale (reg / qnat (s_ncol a)) (col_sums k X)))) by (apply outer_wf'; vlen).
  assert (WAX : wf_mat (s_nrow a) k (mat_mul k (dense a) X)) by (eapply mat_mul_wf; [apply dense_wf | exact WX]).
  assert (Wprod : wf_mat (s_nrow a) k prod).
  { unfold prod. destruct (Qlt_b 0 reg); [|exact Wsmm]. apply madd_wf; [exact Wsmm|]. apply mscale_wf. exact WOm. }
  rewrite smm_sdiag_pinv by (rewrite Hw'; exact Wprod).
  apply row_scale_proper; [apply map_pinv_proper; apply mk_normalizer_weights; assumption|].
  apply (meq_mget (s_nrow a) k); [exact Wprod | apply madd_wf; assumption |].
  intros i j Hi Hj.
  rewrite (mget_madd (s_nrow a) k) by assumption.
  rewrite mget_outer by vlen. rewrite nthq_vones by exact Hi. rewrite nthq_vscale by vlen.
  unfold col_sums. rewrite nthq_seq_map by exact Hj.
  assert (EA : mget (smm k a X) i j == mget (mat_mul k (dense a) X) i j) by (rewrite smm_dense by assumption; reflexivity).
  unfold prod. destruct (Qlt_b 0 reg) eqn:Er.
  - rewrite (mget_madd (s_nrow a) k) by (auto using mscale_wf). rewrite (mget_mscale (s_nrow a) k) by assumption.
    rewrite mget_outer by vlen. rewrite nthq_vones by exact Hi. unfold col_means. rewrite nthq_seq_map by exact Hj.
    rewrite (vmean_def (col j X) (s_ncol a)) by (rewrite col_length; apply (wf_mat_length _ _ _ WX)).
    rewrite EA. field. apply qnat_nonzero; exact Hc.
  - apply Qlt_b_false in Er. pose proof (Qle_antisym_0 reg Hreg Er) as E0. rewrite EA, E0. field. apply qnat_nonzero; exact Hc.
Qed.
Global Instance map_pinv_instance : Proper (veq ==> veq) (map pinv).
Proof. intros u v H. apply map_pinv_proper; exact H. Qed.
Lemma sneg_nrow s : s_nrow (sneg s) = s_nrow s. Proof. apply smap_nrow. Qed.
Lemma sscale_nrow c s : s_nrow (sscale c s) = s_nrow s. Proof. apply smap_nrow. Qed.
Lemma sneg_ncol s : s_ncol (sneg s) = s_ncol s. Proof. reflexivity. Qed.
Lemma sscale_ncol c s : s_ncol (sscale c s) = s_ncol s. Proof. reflexivity. Qed.
Global Hint Rewrite smap_nrow smap_ncol sneg_nrow sneg_ncol sscale_nrow sscale_ncol stranspose_nrow stranspose_ncol
  smul_nrow smul_ncol sdiag_nrow sdiag_ncol sdiag_pinv_nrow sdiag_pinv_ncol sadd_ncol : vlen.
Lemma nth_msub A B i : (i < length A)%nat -> (i < length B)%nat -> nth i (msub A B) [] = vsub (nth i A []) (nth i B []).
Proof. intros; unfold msub; apply nth_map2_mat; assumption. Qed.
Lemma mat_mul_msub_l r q p A A' B : wf_mat r q A -> wf_mat r q A' -> wf_mat q p B ->
  mat_mul p (msub A A') B =m msub (mat_mul p A B) (mat_mul p A' B).
Proof.
  intros WA WA' WB. pose proof (msub_wf _ _ _ _ WA WA') as WS.
  pose proof (mat_mul_wf _ _ _ _ _ WA WB) as W1. pose proof (mat_mul_wf _ _ _ _ _ WA' WB) as W2.
  apply (meq_mget r p); [eapply mat_mul_wf; eauto | apply msub_wf; assumption|].
  intros i j Hi Hj. rewrite (mget_msub r p) by assumption. rewrite !(mget_mat_mul r q p) by assumption.
  rewrite nth_msub by (rewrite ?(wf_mat_length _ _ _ WA), ?(wf_mat_length _ _ _ WA'); exact Hi).
  apply dot_vsub_l. rewrite (wf_mat_row _ _ _ _ WA Hi), (wf_mat_row _ _ _ _ WA' Hi). reflexivity.
Qed.
Lemma col_row_scale r c d X j : length d = r -> wf_mat r c X -> (j < c)%nat -> col j (row_scale d X) =v vmul d (col j X).
Proof.
  intros Hd WX Hj. pose proof (row_scale_wf _ _ _ _ Hd WX) as WS.
  apply veq_nth; [rewrite vmul_length, !col_length, (wf_mat_length _ _ _ WS), (wf_mat_length _ _ _ WX); lia|].
  intros i Hi. rewrite col_length, (wf_mat_length _ _ _ WS) in Hi.
  rewrite nthq_col by (rewrite (wf_mat_length _ _ _ WS); exact Hi).
  rewrite nthq_vmul by (rewrite ?col_length, ?(wf_mat_length _ _ _ WX); lia).
  rewrite nthq_col by (rewrite (wf_mat_length _ _ _ WX); exact Hi).
  rewrite (mget_row_scale r c) by assumption. reflexivity.
Qed.
Lemma mat_mul_col_scale r q p M d X : wf_mat r q M -> length d = q -> wf_mat q p X ->
  mat_mul p (col_scale M d) X =m mat_mul p M (row_scale d X).
Proof.
  intros WM Hd WX. pose proof (col_scale_wf _ _ _ _ Hd WM) as WC. pose proof (row_scale_wf _ _ _ _ Hd WX) as WR.
  apply (meq_mget r p); [eapply mat_mul_wf; eauto | eapply mat_mul_wf; eauto|].
  intros i j Hi Hj. rewrite !(mget_mat_mul r q p) by assumption.
  rewrite (col_row_scale q p) by assumption.
  unfold col_scale. rewrite (nth_map_gen (fun r0 => vmul r0 d) M [] []) by (rewrite (wf_mat_length _ _ _ WM); exact Hi).
  apply dot_vmul_l.
Qed.

Lemma nz_matvec_length a reg x : length (nz_matvec (mk_normalizer a reg) x) = s_nrow a.
Proof. unfold nz_matvec, mk_normalizer; simpl. rewrite smv_length, sdiag_pinv_nrow. vlen. Qed.

(** _rmatvec: the transposed dense matrix *)
Lemma transpose_regularized a reg :
  transpose_n (s_ncol a) (regularized_dense a reg)
  =m madd (transpose_n (s_ncol a) (dense a)) (mconst (s_ncol a) (s_nrow a) (reg / qnat (s_ncol a))).
Proof.
  unfold regularized_dense. rewrite (transpose_madd (s_nrow a) (s_ncol a)) by (auto using dense_wf, mconst_wf).
  rewrite transpose_mconst. reflexivity.
Qed.
Lemma mget_map_map (f : Q -> Q) r c M i j : wf_mat r c M -> (i < r)%nat -> (j < c)%nat ->
  mget (map (map f) M) i j = f (mget M i j).
Proof.
  intros WM Hi Hj. unfold mget. rewrite (nth_map_gen (map f) M [] []) by (rewrite (wf_mat_length _ _ _ WM); exact Hi).
  apply nthq_map. rewrite (wf_mat_row _ _ _ _ WM Hi). exact Hj.
Qed.
Lemma map_map_wf (f : Q -> Q) r c M : wf_mat r c M -> wf_mat r c (map (map f) M).
Proof. apply wf_map. intros row H. rewrite map_length. exact H. Qed.

Theorem normalizer_rmatvec_denotes a reg x : swf a -> (0 < s_ncol a)%nat -> 0 <= reg -> length x = s_nrow a ->
  nz_rmatvec (mk_normalizer a reg) x =v mat_vec (transpose_n (s_ncol a) (normalizer_dense a reg)) x.
Proof.
  intros W Hc Hreg Hx. unfold nz_rmatvec, mk_normalizer, normalizer_dense; simpl.
  set (R := regularized_dense a reg). set (d := map pinv (row_sums R)).
  pose proof (regularized_wf a reg) as WR. fold R in WR.
  assert (Hd : length d = s_nrow a) by (unfold d; rewrite map_length, row_sums_length; apply (wf_mat_length _ _ _ WR)).
  set (w' := map (fun q => q + reg) (smv a (vones (s_ncol a)))).
  assert (Hw' : length w' = s_nrow a) by (unfold w'; vlen).
  set (prod := smv (sdiag_pinv w') x).
  assert (EP : prod =v vmul d x).
  { unfold prod. rewrite smv_sdiag_pinv by lia. apply vmul_proper; [|reflexivity].
    apply map_pinv_proper. apply mk_normalizer_weights; assumption. }
  assert (HP : length prod = s_nrow a) by (unfold prod; rewrite smv_length, sdiag_pinv_nrow; exact Hw').
  assert (WAt : wf_mat (s_ncol a) (s_nrow a) (transpose_n (s_ncol a) (dense a))) by (apply transpose_n_wf, dense_length).
  assert (ER : mat_vec (transpose_n (s_ncol a) (row_scale d R)) x
               =v vadd (mat_vec (transpose_n (s_ncol a) (dense a)) (vmul d x))
                       (vconst (s_ncol a) (reg / qnat (s_ncol a) * sumq (vmul d x)))).
  { rewrite (transpose_row_scale (s_nrow a) (s_ncol a)) by assumption. rewrite mat_vec_col_scale.
    unfold R. rewrite transpose_regularized.
    rewrite (mat_vec_madd (s_ncol a) (s_nrow a)) by (auto using mconst_wf).
    rewrite mat_vec_mconst by vlen. reflexivity. }
  rewrite ER.
  assert (EO : smv (stranspose a) prod =v mat_vec (transpose_n (s_ncol a) (dense a)) (vmul d x)).
  { rewrite smv_dense by (auto using swf_stranspose; rewrite stranspose_ncol; exact HP).
    rewrite dense_stranspose, EP. reflexivity. }
  assert (HO : length (smv (stranspose a) prod) = s_ncol a) by (rewrite smv_length; apply stranspose_nrow).
  assert (HM : length (mat_vec (transpose_n (s_ncol a) (dense a)) (vmul d x)) = s_ncol a)
    by (rewrite mat_vec_length; apply (wf_mat_length _ _ _ WAt)).
  apply veq_nth.
  - destruct (Qlt_b 0 reg); rewrite ?vadd_length, ?map_length, ?vscale_length, ?vones_length, ?vconst_length, ?HO, ?HM; lia.
  - intros i Hi. assert (Hi' : (i < s_ncol a)%nat).
    { destruct (Qlt_b 0 reg); rewrite ?vadd_length, ?map_length, ?vscale_length, ?vones_length, ?HO in Hi; lia. }
    clear Hi. rewrite nthq_vadd by (rewrite ?HM, ?vconst_length; lia).
    rewrite nthq_vconst by exact Hi'.
    destruct (Qlt_b 0 reg) eqn:Er.
    + rewrite nthq_vadd by (rewrite ?map_length, ?vscale_length, ?vones_length, ?HO; lia).
      rewrite nthq_map by (rewrite vscale_length, vones_length; exact Hi').
      rewrite nthq_vscale by (rewrite vones_length; exact Hi'). rewrite nthq_vones by exact Hi'.
      rewrite (veq_nthq _ _ i EO), (sumq_proper _ _ EP). field. apply qnat_nonzero; exact Hc.
    + apply Qlt_b_false in Er. pose proof (Qle_antisym_0 reg Hreg Er) as E0. rewrite (veq_nthq _ _ i EO), E0. field. apply qnat_nonzero; exact Hc.
Qed.
Lemma nz_rmatvec_length a reg x : length (nz_rmatvec (mk_normalizer a reg) x) = s_ncol a.
Proof.
  unfold nz_rmatvec, mk_normalizer; simpl. destruct (Qlt_b 0 reg);
    rewrite ?vadd_length, ?map_length, ?vscale_length, ?vones_length, smv_length, stranspose_nrow; lia.
Qed.

Theorem normalizer_rmatmat_denotes k a reg X : swf a -> (0 < s_ncol a)%nat -> 0 <= reg -> wf_mat (s_nrow a) k X ->
  nz_rmatmat k (mk_normalizer a reg) X =m mat_mul k (transpose_n (s_ncol a) (normalizer_dense a reg)) X.
Proof.
  intros W Hc Hreg WX. unfold nz_rmatmat, mk_normalizer, normalizer_dense; simpl.
  set (R := regularized_dense a reg). set (d := map pinv (row_sums R)).
  pose proof (regularized_wf a reg) as WR. fold R in WR.
  assert (Hd : length d = s_nrow a) by (unfold d; rewrite map_length, row_sums_length; apply (wf_mat_length _ _ _ WR)).
  set (w' := map (fun q => q + reg) (smv a (vones (s_ncol a)))).
  assert (Hw' : length w' = s_nrow a) by (unfold w'; vlen).
  set (prod := smm k (sdiag_pinv w') X).
  assert (EP : prod =m row_scale d X).
  { unfold prod. rewrite smm_sdiag_pinv by (rewrite Hw'; exact WX). apply row_scale_proper; [|reflexivity].
    apply map_pinv_proper. apply mk_normalizer_weights; assumption. }
  assert (WP' : wf_mat (s_nrow a) k (row_scale d X)) by (apply row_scale_wf; assumption).
  assert (WP : wf_mat (s_nrow a) k prod) by (eapply wf_mat_meq; [symmetry; exact EP | exact WP']).
  assert (WAt : wf_mat (s_ncol a) (s_nrow a) (transpose_n (s_ncol a) (dense a))) by (apply transpose_n_wf, dense_length).
  assert (WRt : wf_mat (s_ncol a) (s_nrow a) (transpose_n (s_ncol a) R)) by (apply transpose_n_wf, (wf_mat_length _ _ _ WR)).
  assert (ER : mat_mul k (transpose_n (s_ncol a) (row_scale d R)) X
               =m madd (mat_mul k (transpose_n (s_ncol a) (dense a)) (row_scale d X))
                       (outer (vones (s_ncol a)) (vscale (reg / qnat (s_ncol a)) (col_sums k (row_scale d X))))).
  { rewrite (transpose_row_scale (s_nrow a) (s_ncol a)) by assumption.
    rewrite (mat_mul_col_scale (s_ncol a) (s_nrow a) k) by assumption.
    unfold R. rewrite transpose_regularized.
    rewrite (mat_mul_madd_l (s_ncol a) (s_nrow a) k) by (auto using mconst_wf).
    rewrite mat_mul_mconst_l by exact WP'. reflexivity. }
  rewrite ER.
  assert (EO : smm k (stranspose a) prod =m mat_mul k (transpose_n (s_ncol a) (dense a)) (row_scale d X)).
  { rewrite smm_dense by (auto using swf_stranspose; rewrite stranspose_ncol; exact WP).
    rewrite dense_stranspose, EP. reflexivity. }
  assert (WO : wf_mat (s_ncol a) k (smm k (stranspose a) prod)).
  { pose proof (smm_wf k (stranspose a) prod (swf_stranspose a)) as H. rewrite stranspose_ncol, stranspose_nrow in H. apply H; exact WP. }
  assert (WM : wf_mat (s_ncol a) k (mat_mul k (transpose_n (s_ncol a) (dense a)) (row_scale d X))) by (eapply mat_mul_wf; eauto).
  assert (WO1 : wf_mat (s_ncol a) k (outer (vones (s_ncol a)) (col_sums k prod))) by (apply outer_wf'; vlen).
  assert (WO2 : wf_mat (s_ncol a) k (outer (vones (s_ncol a)) (vscale (reg / qnat (s_ncol a)) (col_sums k (row_scale d X))))) by (apply outer_wf'; vlen).
  apply (meq_mget (s_ncol a) k).
  - destruct (Qlt_b 0 reg); [|exact WO]. apply madd_wf; [exact WO|]. apply map_map_wf, mscale_wf; exact WO1.
  - apply madd_wf; assumption.
  - intros i j Hi Hj. rewrite (mget_madd (s_ncol a) k) by assumption.
    rewrite mget_outer by vlen. rewrite nthq_vones by exact Hi. rewrite nthq_vscale by vlen.
    assert (EOij : mget (smm k (stranspose a) prod) i j == mget (mat_mul k (transpose_n (s_ncol a) (dense a)) (row_scale d X)) i j)
      by (rewrite EO; reflexivity).
    assert (ECS : nthq (col_sums k prod) j == nthq (col_sums k (row_scale d X)) j) by (rewrite EP; reflexivity).
    destruct (Qlt_b 0 reg) eqn:Er.
    + rewrite (mget_madd (s_ncol a) k) by (auto; apply map_map_wf, mscale_wf; exact WO1).
      rewrite (mget_map_map _ (s_ncol a) k) by (auto; apply mscale_wf; exact WO1).
      rewrite (mget_mscale (s_ncol a) k) by assumption. rewrite mget_outer by vlen. rewrite nthq_vones by exact Hi.
      rewrite EOij, ECS. field. apply qnat_nonzero; exact Hc.
    + apply Qlt_b_false in Er. pose proof (Qle_antisym_0 reg Hreg Er) as E0. rewrite EOij, E0. field. apply qnat_nonzero; exact Hc.
Qed.

(** expressions: NT^k (NBase a reg); operator.T of SciPy alternates _matvec and _rmatvec and swaps the shape *)
Lemma ne_base_spec e : exists a reg, ne_base e = mk_normalizer a reg /\
  (ne_wf e -> swf a /\ (0 < s_ncol a)%nat /\ 0 <= reg) /\
  ne_shape e = (if ne_flag e then (s_ncol a, s_nrow a) else (s_nrow a, s_ncol a)) /\
  (ne_wf e -> ne_dense e =m if ne_flag e then transpose_n (s_ncol a) (normalizer_dense a reg) else normalizer_dense a reg).
Proof.
  induction e as [a reg | e IH]; simpl.
  - exists a, reg. split; [reflexivity|]. split; [auto|]. split; [reflexivity|]. intros _; reflexivity.
  - destruct IH as (a & reg & E1 & E2 & E3 & E4). exists a, reg. split; [exact E1|]. split; [exact E2|].
    rewrite E3. destruct (ne_flag e); simpl; split; try reflexivity; intros HW.
    + rewrite (E4 HW). destruct (E2 HW) as (W & Hc & Hr).
      apply (transpose_transpose (s_nrow a) (s_ncol a)). unfold normalizer_dense.
      apply row_scale_wf; [|apply regularized_wf]. rewrite map_length, row_sums_length. apply (wf_mat_length _ _ _ (regularized_wf a reg)).
    + rewrite (E4 HW). reflexivity.
Qed.
Theorem normalizer_dot_denotes e x : ne_wf e -> length x = snd (ne_shape e) ->
  exists y, lo_dot (ne_shape e) (ne_matvec e) x = Ok y /\ y =v mat_vec (ne_dense e) x.
Proof.
  intros HW Hx. destruct (ne_base_spec e) as (a & reg & E1 & E2 & E3 & E4).
  destruct (E2 HW) as (W & Hc & Hreg). specialize (E4 HW). unfold ne_matvec. rewrite E1, E3 in *.
  destruct (ne_flag e); simpl in Hx.
  - exists (nz_rmatvec (mk_normalizer a reg) x). split.
    + apply lo_dot_ok; simpl; [exact Hx | apply nz_rmatvec_length].
    + rewrite E4. apply normalizer_rmatvec_denotes; assumption.
  - exists (nz_matvec (mk_normalizer a reg) x). split.
    + apply lo_dot_ok; simpl; [exact Hx | apply nz_matvec_length].
    + rewrite E4. apply normalizer_matvec_denotes; assumption.
Qed.
Theorem normalizer_expr_matmat_denotes k e X : ne_wf e -> wf_mat (snd (ne_shape e)) k X ->
  ne_matmat k e X =m mat_mul k (ne_dense e) X.
Proof.
  intros HW WX. destruct (ne_base_spec e) as (a & reg & E1 & E2 & E3 & E4).
  destruct (E2 HW) as (W & Hc & Hreg). specialize (E4 HW). unfold ne_matmat. rewrite E1, E3 in *.
  destruct (ne_flag e); simpl in WX; rewrite E4.
  - apply normalizer_rmatmat_denotes; assumption.
  - apply normalizer_matmat_denotes; assumption.
Qed.

(** legacy (before 042fc436): Normalizer._transpose returned self *)
Theorem legacy_normalizer_transpose_refuted :
  exists a x, swf a /\ (0 < s_ncol a)%nat /\ length x = s_nrow a /\
    ~ (nz_matvec (legacy_nz_transpose (mk_normalizer a 0)) x =v mat_vec (transpose_n (s_ncol a) (normalizer_dense a 0)) x).
Proof.
  exists {| s_ncol := 3; s_rows := [[(1%nat, 1); (2%nat, 1)]; [(0%nat, 1)]; [(0%nat, 1)]] |}, [1; 2; 3].
  split; [|split; [|split]].
  - repeat constructor.
  - simpl; lia.
  - reflexivity.
  - intros H. apply (veq_nthq _ _ 0) in H. vm_compute in H. discriminate.
Qed.
(** * Laplacian *)
Lemma laplacian_sparse_wf a : swf a -> s_nrow a = s_ncol a ->
  let w := smv a (vones (s_nrow a)) in
  swf (sadd (sdiag w) (sneg a)) /\ s_nrow (sadd (sdiag w) (sneg a)) = s_nrow a /\ s_ncol (sadd (sdiag w) (sneg a)) = s_nrow a /\
  dense (sadd (sdiag w) (sneg a)) =m msub (diag (row_sums (dense a))) (dense a).
Proof.
  intros W Hsq w. assert (Hw : length w = s_nrow a) by (unfold w; vlen).
  assert (Ew : w =v row_sums (dense a)).
  { unfold w. rewrite smv_dense by (auto; vlen). rewrite Hsq. apply (mat_vec_vones _ _ _ (dense_wf a)). }
  split; [|split; [|split]].
  - apply swf_sadd; [apply swf_sdiag | apply swf_smap; exact W | rewrite sdiag_ncol; unfold sneg; rewrite smap_ncol; lia].
  - rewrite sadd_nrow; rewrite sdiag_nrow; [exact Hw | unfold sneg; rewrite smap_nrow; exact Hw].
  - rewrite sadd_ncol, sdiag_ncol. exact Hw.
  - rewrite dense_sadd by (rewrite sdiag_ncol; unfold sneg; rewrite smap_ncol; lia).
    rewrite dense_sdiag, dense_sneg, msub_madd_mneg. apply madd_proper; [|reflexivity].
    apply (meq_mget (s_nrow a) (s_nrow a)).
    + rewrite <- Hw. apply diag_wf.
    + pose proof (diag_wf (row_sums (dense a))) as WD. rewrite row_sums_length, dense_length in WD. exact WD.
    + intros i j Hi Hj. rewrite !mget_diag by (rewrite ?row_sums_length, ?dense_length; lia).
      destruct (Nat.eqb i j); [apply veq_nthq; exact Ew | reflexivity].
Qed.

Lemma lp_norm_weights sqrtf a reg : Proper (Qeq ==> Qeq) sqrtf -> swf a -> s_nrow a = s_ncol a -> (0 < s_nrow a)%nat ->
  map pinv (map (fun d => sqrtf (d + reg)) (smv a (vones (s_nrow a))))
  =v map (fun d => pinv (sqrtf d)) (row_sums (regularized_dense a reg)).
Proof.
  intros Hs W Hsq Hn. rewrite map_map.
  assert (HW : row_sums (regularized_dense a reg) =v map (fun d => d + reg) (smv a (vones (s_nrow a)))).
  { rewrite Hsq. symmetry. apply mk_normalizer_weights; [exact W | lia]. }
  apply veq_nth; [rewrite !map_length, (veq_length _ _ HW), map_length; reflexivity|].
  intros i Hi. rewrite map_length in Hi.
  rewrite nthq_map by exact Hi. rewrite nthq_map by (rewrite (veq_length _ _ HW), map_length; exact Hi).
  rewrite (veq_nthq _ _ i HW). rewrite nthq_map by exact Hi. reflexivity.
Qed.

Lemma laplacian_L_wf a reg : s_nrow a = s_ncol a ->
  wf_mat (s_nrow a) (s_nrow a) (msub (diag (row_sums (regularized_dense a reg))) (regularized_dense a reg)).
Proof.
  intros Hsq. pose proof (regularized_wf a reg) as WR. rewrite <- Hsq in WR.
  apply msub_wf; [|exact WR]. pose proof (diag_wf (row_sums (regularized_dense a reg))) as WD.
  rewrite row_sums_length, (wf_mat_length _ _ _ WR) in WD. exact WD.
Qed.

Lemma laplacian_dense_wf sqrtf a reg norm : s_nrow a = s_ncol a ->
  wf_mat (s_nrow a) (s_nrow a) (laplacian_dense sqrtf a reg norm).
Proof.
  intros Hsq. pose proof (laplacian_L_wf a reg Hsq) as WL. unfold laplacian_dense. destruct norm; [|exact WL].
  pose proof (regularized_wf a reg) as WR.
  assert (Hl : length (map (fun d => pinv (sqrtf d)) (row_sums (regularized_dense a reg))) = s_nrow a).
  { rewrite map_length, row_sums_length. apply (wf_mat_length _ _ _ WR). }
  apply row_scale_wf; [exact Hl|]. apply col_scale_wf; [exact Hl | exact WL].
Qed.

(** the matrix applied by a Laplacian object whose sparse part denotes LA: LA + reg (I - 11^T/n), normalised by s *)
Definition lreg (n : nat) (reg : Q) (LA : mat) : mat :=
  madd LA (mscale reg (msub (identity n) (mconst n n (1 / qnat n)))).
Definition lfull (n : nat) (reg : Q) (norm : bool) (s : vec) (LA : mat) : mat :=
  if norm then row_scale s (col_scale (lreg n reg LA) s) else lreg n reg LA.
Global Instance lreg_proper : Proper (eq ==> Qeq ==> meq ==> meq) lreg.
Proof. intros n n' <- r r' Hr A A' HA. unfold lreg. rewrite HA, Hr. reflexivity. Qed.
Global Instance lfull_proper : Proper (eq ==> Qeq ==> eq ==> veq ==> meq ==> meq) lfull.
Proof.
  intros n n' <- r r' Hr b b' <- s s' Hs A A' HA. unfold lfull. destruct b; [|rewrite Hr, HA; reflexivity].
  rewrite Hs, Hr, HA. reflexivity.
Qed.
Lemma lcorr_wf n : wf_mat n n (msub (identity n) (mconst n n (1 / qnat n))).
Proof. apply msub_wf; [apply identity_wf | apply mconst_wf]. Qed.
Lemma lreg_wf n reg LA : wf_mat n n LA -> wf_mat n n (lreg n reg LA).
Proof. intros W. apply madd_wf; [exact W | apply mscale_wf, lcorr_wf]. Qed.
Lemma lfull_wf n reg norm s LA : wf_mat n n LA -> length s = n -> wf_mat n n (lfull n reg norm s LA).
Proof.
  intros W Hs. unfold lfull. destruct norm; [|apply lreg_wf; exact W].
  apply row_scale_wf; [exact Hs|]. apply col_scale_wf; [exact Hs | apply lreg_wf; exact W].
Qed.
Lemma mget_lreg n reg LA i j : wf_mat n n LA -> (i < n)%nat -> (j < n)%nat ->
  mget (lreg n reg LA) i j == mget LA i j + reg * ((if Nat.eqb i j then 1 else 0) - 1 / qnat n).
Proof.
  intros W Hi Hj. unfold lreg. rewrite (mget_madd n n) by (auto using mscale_wf, lcorr_wf).
  rewrite (mget_mscale n n) by (auto using lcorr_wf). rewrite (mget_msub n n) by (auto using identity_wf, mconst_wf).
  rewrite mget_identity, mget_mconst by assumption. reflexivity.
Qed.
Lemma mget_lfull n reg norm s LA i j : wf_mat n n LA -> length s = n -> (i < n)%nat -> (j < n)%nat ->
  mget (lfull n reg norm s LA) i j ==
  if norm then nthq s i * (mget (lreg n reg LA) i j * nthq s j) else mget (lreg n reg LA) i j.
Proof.
  intros W Hs Hi Hj. unfold lfull. destruct norm; [|reflexivity].
  rewrite (mget_row_scale n n) by (auto using col_scale_wf, lreg_wf).
  rewrite (mget_col_scale n n) by (auto using lreg_wf). reflexivity.
Qed.
Lemma lfull_transpose n reg norm s LA : wf_mat n n LA -> length s = n ->
  transpose_n n (lfull n reg norm s LA) =m lfull n reg norm s (transpose_n n LA).
Proof.
  intros W Hs. pose proof (transpose_n_wf n n LA (wf_mat_length _ _ _ W)) as Wt.
  pose proof (lfull_wf n reg norm s LA W Hs) as WF.
  apply (meq_mget n n); [apply transpose_n_wf, (wf_mat_length _ _ _ WF) | apply lfull_wf; assumption|].
  intros j i Hj Hi. rewrite mget_transpose_n by (rewrite ?(wf_mat_length _ _ _ WF); assumption).
  rewrite !mget_lfull by assumption. destruct norm; rewrite !mget_lreg by assumption;
    rewrite mget_transpose_n by (rewrite ?(wf_mat_length _ _ _ W); assumption);
    rewrite (Nat.eqb_sym j i); ring.
Qed.

(** a Laplacian object: size, flags, sparse part denoting LA, normalising weights s' *)
Definition lp_is (v : laplacian) (n : nat) (reg : Q) (norm : bool) (s' : vec) (LA : mat) : Prop :=
  lp_n v = n /\ lp_reg v = reg /\ lp_norm v = norm /\ swf (lp_lap v) /\ s_nrow (lp_lap v) = n /\ s_ncol (lp_lap v) = n /\
  dense (lp_lap v) =m LA /\ (norm = true -> lp_diag v = sdiag_pinv s') /\ length s' = n.

Lemma lp_core_gen lap reg x : swf lap -> s_nrow lap = s_ncol lap -> (0 < s_nrow lap)%nat -> 0 <= reg -> length x = s_nrow lap ->
  (if Qlt_b 0 reg then vadd (smv lap x) (vscale reg (map (fun q => q - vmean x) x)) else smv lap x)
  =v mat_vec (lreg (s_nrow lap) reg (dense lap)) x.
Proof.
  intros W Hsq Hn Hreg Hx. set (n := s_nrow lap) in *.
  assert (WA : wf_mat n n (dense lap)) by (pose proof (dense_wf lap) as H; rewrite <- Hsq in H; exact H).
  assert (ER : mat_vec (lreg n reg (dense lap)) x
               =v vadd (mat_vec (dense lap) x) (vscale reg (vsub x (vconst n (1 / qnat n * sumq x))))).
  { unfold lreg. rewrite (mat_vec_madd n n) by (auto using mscale_wf, lcorr_wf). rewrite mat_vec_mscale.
    rewrite (mat_vec_msub n n) by (auto using identity_wf, mconst_wf).
    rewrite mat_vec_identity, mat_vec_mconst by exact Hx. reflexivity. }
  rewrite ER. assert (ES : smv lap x =v mat_vec (dense lap) x) by (apply smv_dense; [exact W | lia]).
  assert (HS : length (smv lap x) = n) by apply smv_length.
  assert (HM : length (mat_vec (dense lap) x) = n) by (rewrite mat_vec_length; apply dense_length).
  apply veq_nth.
  - destruct (Qlt_b 0 reg); rewrite ?vadd_length, ?vscale_length, ?map_length, ?vsub_length, ?vconst_length, ?HS, ?HM; lia.
  - intros i Hi. assert (Hi' : (i < n)%nat).
    { destruct (Qlt_b 0 reg); rewrite ?vadd_length, ?vscale_length, ?map_length, ?HS in Hi; lia. }
    clear Hi. rewrite nthq_vadd by (rewrite ?HM, ?vscale_length, ?vsub_length, ?vconst_length; lia).
    rewrite nthq_vscale by (rewrite vsub_length, vconst_length; lia).
    rewrite nthq_vsub by (rewrite ?vconst_length; lia). rewrite nthq_vconst by exact Hi'.
    destruct (Qlt_b 0 reg) eqn:Er.
    + rewrite nthq_vadd by (rewrite ?HS, ?vscale_length, ?map_length; lia).
      rewrite nthq_vscale by (rewrite map_length; lia). rewrite nthq_map by lia.
      rewrite (veq_nthq _ _ i ES), (vmean_def x n Hx). field. apply qnat_nonzero; exact Hn.
    + apply Qlt_b_false in Er. pose proof (Qle_antisym_0 reg Hreg Er) as E0. rewrite (veq_nthq _ _ i ES), E0. field.
      apply qnat_nonzero; exact Hn.
Qed.

Theorem lp_matvec_is v n reg norm s' LA x : lp_is v n reg norm s' LA -> (0 < n)%nat -> 0 <= reg -> length x = n ->
  lp_matvec v x =v mat_vec (lfull n reg norm (map pinv s') LA) x.
Proof.
  intros (En & Er & Eno & W & Hr & Hc & ED & Edg & Hs) Hn Hreg Hx. unfold lp_matvec, lfull. rewrite Er, Eno.
  assert (Hsq : s_nrow (lp_lap v) = s_ncol (lp_lap v)) by lia.
  destruct norm.
  - rewrite (Edg eq_refl). set (x1 := smv (sdiag_pinv s') x).
    assert (Ex1 : x1 =v vmul (map pinv s') x) by (unfold x1; apply smv_sdiag_pinv; lia).
    assert (Hx1 : length x1 = s_nrow (lp_lap v)) by (unfold x1; rewrite smv_length, sdiag_pinv_nrow; lia).
    pose proof (lp_core_gen (lp_lap v) reg x1 W Hsq ltac:(lia) Hreg Hx1) as HC.
    set (core := if Qlt_b 0 reg then _ else _) in *.
    assert (Hcore : length core = n).
    { rewrite (veq_length _ _ HC), mat_vec_length. rewrite Hr.
      apply (wf_mat_length _ _ _ (lreg_wf n reg _ ltac:(rewrite <- Hr at 1; rewrite <- Hc; apply dense_wf))). }
    rewrite smv_sdiag_pinv by lia. rewrite mat_vec_row_scale, mat_vec_col_scale.
    rewrite HC, Hr, ED, Ex1. reflexivity.
  - rewrite (lp_core_gen (lp_lap v) reg x W Hsq ltac:(lia) Hreg ltac:(lia)). rewrite Hr, ED. reflexivity.
Qed.

Lemma lp_core_mat_gen k lap reg X : swf lap -> s_nrow lap = s_ncol lap -> (0 < s_nrow lap)%nat -> 0 <= reg ->
  wf_mat (s_nrow lap) k X ->
  (if Qlt_b 0 reg then madd (smm k lap X) (mscale reg (msub X (outer (vones (s_nrow lap)) (col_means k X)))) else smm k lap X)
  =m mat_mul k (lreg (s_nrow lap) reg (dense lap)) X.
Proof.
  intros W Hsq Hn Hreg WX. set (n := s_nrow lap) in *.
  assert (WA : wf_mat n n (dense lap)) by (pose proof (dense_wf lap) as H; rewrite <- Hsq in H; exact H).
  assert (WX' : wf_mat (s_ncol lap) k X) by (rewrite <- Hsq; exact WX).
  assert (WAX : wf_mat n k (mat_mul k (dense lap) X)) by (eapply mat_mul_wf; eauto).
  assert (WO : wf_mat n k (outer (vones n) (vscale (1 / qnat n) (col_sums k X)))) by (apply outer_wf'; vlen).
  assert (WOm : wf_mat n k (outer (vones n) (col_means k X))) by (apply outer_wf'; vlen).
  assert (ER : mat_mul k (lreg n reg (dense lap)) X
               =m madd (mat_mul k (dense lap) X) (mscale reg (msub X (outer (vones n) (vscale (1 / qnat n) (col_sums k X)))))).
  { unfold lreg. rewrite (mat_mul_madd_l n n k) by (auto using mscale_wf, lcorr_wf).
    rewrite mat_mul_mscale_l by apply (wf_mat_rows _ _ _ WX).
    rewrite (mat_mul_msub_l n n k) by (auto using identity_wf, mconst_wf).
    rewrite (mat_mul_identity_l n k) by exact WX. rewrite mat_mul_mconst_l by exact WX. reflexivity. }
  rewrite ER. assert (ES : smm k lap X =m mat_mul k (dense lap) X) by (apply smm_dense; assumption).
  assert (WS : wf_mat n k (smm k lap X)) by (apply smm_wf; assumption).
  apply (meq_mget n k).
  - destruct (Qlt_b 0 reg); [|exact WS]. apply madd_wf; [exact WS|]. apply mscale_wf, msub_wf; assumption.
  - apply madd_wf; [exact WAX|]. apply mscale_wf, msub_wf; assumption.
  - intros i j Hi Hj. rewrite (mget_madd n k) by (auto using mscale_wf, msub_wf).
    rewrite (mget_mscale n k) by (auto using msub_wf). rewrite (mget_msub n k) by assumption.
    rewrite mget_outer by vlen. rewrite nthq_vones by exact Hi. rewrite nthq_vscale by vlen.
    unfold col_sums. rewrite nthq_seq_map by exact Hj.
    assert (EA : mget (smm k lap X) i j == mget (mat_mul k (dense lap) X) i j) by (rewrite ES; reflexivity).
    destruct (Qlt_b 0 reg) eqn:Er.
    + rewrite (mget_madd n k) by (auto using mscale_wf, msub_wf). rewrite (mget_mscale n k) by (auto using msub_wf).
      rewrite (mget_msub n k) by assumption. rewrite mget_outer by vlen. rewrite nthq_vones by exact Hi.
      unfold col_means. rewrite nthq_seq_map by exact Hj.
      rewrite (vmean_def (col j X) n) by (rewrite col_length; apply (wf_mat_length _ _ _ WX)).
      rewrite EA. field. apply qnat_nonzero; exact Hn.
    + apply Qlt_b_false in Er. pose proof (Qle_antisym_0 reg Hreg Er) as E0. rewrite EA, E0. field. apply qnat_nonzero; exact Hn.
Qed.

Theorem lp_matmat_is k v n reg norm s' LA X : lp_is v n reg norm s' LA -> (0 < n)%nat -> 0 <= reg -> wf_mat n k X ->
  lp_matmat k v X =m mat_mul k (lfull n reg norm (map pinv s') LA) X.
Proof.
  intros (En & Er & Eno & W & Hr & Hc & ED & Edg & Hs) Hn Hreg WX. unfold lp_matmat, lfull. rewrite Er, Eno, En.
  assert (Hsq : s_nrow (lp_lap v) = s_ncol (lp_lap v)) by lia.
  assert (WA : wf_mat n n (dense (lp_lap v))) by (rewrite <- Hr at 1; rewrite <- Hc; apply dense_wf).
  assert (WLA : wf_mat n n LA) by (eapply wf_mat_meq; [exact ED | exact WA]).
  destruct norm.
  - rewrite (Edg eq_refl). set (X1 := smm k (sdiag_pinv s') X).
    assert (Ex1 : X1 =m row_scale (map pinv s') X) by (unfold X1; apply smm_sdiag_pinv; rewrite Hs; exact WX).
    assert (Hps : length (map pinv s') = n) by (rewrite map_length; exact Hs).
    assert (WX1 : wf_mat (s_nrow (lp_lap v)) k X1).
    { rewrite Hr. eapply wf_mat_meq; [symmetry; exact Ex1 | apply row_scale_wf; assumption]. }
    pose proof (lp_core_mat_gen k (lp_lap v) reg X1 W Hsq ltac:(lia) Hreg WX1) as HC. rewrite Hr in HC.
    set (core := if Qlt_b 0 reg then _ else _) in *.
    assert (Wcore : wf_mat n k core).
    { eapply wf_mat_meq; [symmetry; exact HC|]. eapply mat_mul_wf; [apply lreg_wf; exact WA | rewrite <- Hr; exact WX1]. }
    rewrite smm_sdiag_pinv by (rewrite Hs; exact Wcore).
    rewrite mat_mul_row_scale_l by apply (wf_mat_rows _ _ _ WX).
    rewrite (mat_mul_col_scale n n k) by (auto using lreg_wf).
    rewrite HC, ED, Ex1. reflexivity.
  - pose proof (lp_core_mat_gen k (lp_lap v) reg X W Hsq ltac:(lia) Hreg ltac:(rewrite Hr; exact WX)) as HC.
    rewrite Hr in HC. rewrite HC, ED. reflexivity.
Qed.

Theorem lp_transpose_is v n reg norm s' LA : lp_is v n reg norm s' LA -> lp_is (lp_transpose v) n reg norm s' (transpose_n n LA).
Proof.
  intros (En & Er & Eno & W & Hr & Hc & ED & Edg & Hs). unfold lp_is, lp_transpose; simpl.
  repeat split; auto using swf_stranspose.
  - rewrite stranspose_nrow. exact Hc.
  - rewrite dense_stranspose, Hc, ED. reflexivity.
Qed.
Theorem mk_laplacian_is sqrtf a reg norm : swf a -> s_nrow a = s_ncol a ->
  lp_is (mk_laplacian sqrtf a reg norm) (s_nrow a) reg norm (map (fun d => sqrtf (d + reg)) (smv a (vones (s_nrow a))))
        (msub (diag (row_sums (dense a))) (dense a)).
Proof.
  intros W Hsq. destruct (laplacian_sparse_wf a W Hsq) as (WL & HLr & HLc & EL).
  unfold lp_is, mk_laplacian; simpl. repeat split; auto.
  - intros ->. reflexivity.
  - vlen.
Qed.
(** on the base operator this is the textbook matrix *)
Lemma lfull_base sqrtf a reg norm : Proper (Qeq ==> Qeq) sqrtf -> swf a -> s_nrow a = s_ncol a -> (0 < s_nrow a)%nat ->
  lfull (s_nrow a) reg norm (map pinv (map (fun d => sqrtf (d + reg)) (smv a (vones (s_nrow a)))))
        (msub (diag (row_sums (dense a))) (dense a))
  =m laplacian_dense sqrtf a reg norm.
Proof.
  intros Hs W Hsq Hn. rewrite (lp_norm_weights sqrtf a reg Hs W Hsq Hn).
  pose proof (regularized_wf a reg) as WR. rewrite <- Hsq in WR.
  pose proof (laplacian_L_wf a reg Hsq) as WL. set (n := s_nrow a) in *.
  set (R := regularized_dense a reg) in *. set (rs := row_sums R) in *.
  assert (Hrs : length rs = n) by (unfold rs; rewrite row_sums_length; apply (wf_mat_length _ _ _ WR)).
  assert (WA : wf_mat n n (dense a)) by (pose proof (dense_wf a) as H; rewrite <- Hsq in H; exact H).
  assert (HrsA : length (row_sums (dense a)) = n) by (rewrite row_sums_length; apply dense_length).
  assert (WDa : wf_mat n n (diag (row_sums (dense a)))) by (rewrite <- HrsA at 1 2; apply diag_wf).
  assert (WDg : wf_mat n n (diag rs)) by (rewrite <- Hrs at 1 2; apply diag_wf).
  assert (WLA : wf_mat n n (msub (diag (row_sums (dense a))) (dense a))) by (apply msub_wf; assumption).
  assert (HW : rs =v map (fun d => d + reg) (row_sums (dense a))) by (apply row_sums_regularized; lia).
  assert (EL : lreg n reg (msub (diag (row_sums (dense a))) (dense a)) =m msub (diag rs) R).
  { apply (meq_mget n n); [apply lreg_wf; exact WLA | exact WL|].
    intros i j Hi Hj. rewrite mget_lreg by assumption. rewrite !(mget_msub n n) by assumption.
    rewrite !mget_diag by lia. unfold R. rewrite mget_regularized by (fold n; lia).
    rewrite <- Hsq. fold n. pose proof (veq_nthq _ _ i HW) as Ei. rewrite nthq_map in Ei by lia.
    destruct (Nat.eqb i j); [rewrite Ei|]; field; apply qnat_nonzero; exact Hn. }
  unfold lfull, laplacian_dense. fold R. fold rs. destruct norm; rewrite EL; reflexivity.
Qed.

(** expressions *)
Fixpoint le_base (e : lp_expr) : smat * Q * bool :=
  match e with LBase a reg norm => (a, reg, norm) | LT e | LAstype e => le_base e end.
Fixpoint le_LA (e : lp_expr) : mat :=
  match e with
  | LBase a _ _ => msub (diag (row_sums (dense a))) (dense a)
  | LT e => transpose_n (le_n e) (le_LA e)
  | LAstype e => le_LA e
  end.
Lemma le_n_base e : le_n e = s_nrow (fst (fst (le_base e))).
Proof. induction e; simpl; auto. Qed.
Lemma le_wf_base e : le_wf e ->
  let a := fst (fst (le_base e)) in swf a /\ s_nrow a = s_ncol a /\ (0 < s_nrow a)%nat /\ 0 <= snd (fst (le_base e)).
Proof. induction e; simpl; auto. Qed.
Lemma le_LA_wf e : le_wf e -> wf_mat (le_n e) (le_n e) (le_LA e).
Proof.
  induction e as [a reg norm | e IH | e IH]; simpl; intros H; auto.
  - destruct H as (W & Hsq & _). apply msub_wf.
    + pose proof (diag_wf (row_sums (dense a))) as WD. rewrite row_sums_length, dense_length in WD. exact WD.
    + pose proof (dense_wf a) as WA. rewrite <- Hsq in WA. exact WA.
  - apply transpose_n_wf. apply (wf_mat_length _ _ _ (IH H)).
Qed.
Definition le_s (sqrtf : Q -> Q) (e : lp_expr) : vec :=
  let a := fst (fst (le_base e)) in map (fun d => sqrtf (d + snd (fst (le_base e)))) (smv a (vones (s_nrow a))).
Lemma le_s_length sqrtf e : length (le_s sqrtf e) = le_n e.
Proof. unfold le_s. rewrite le_n_base. vlen. Qed.
Theorem le_denotes sqrtf e : Proper (Qeq ==> Qeq) sqrtf -> le_wf e ->
  lp_is (lp_eval sqrtf e) (le_n e) (snd (fst (le_base e))) (snd (le_base e)) (le_s sqrtf e) (le_LA e) /\
  le_dense sqrtf e =m lfull (le_n e) (snd (fst (le_base e))) (snd (le_base e)) (map pinv (le_s sqrtf e)) (le_LA e).
Proof.
  intros Hs. induction e as [a reg norm | e IH | e IH]; simpl; intros H.
  - destruct H as (W & Hsq & Hn & Hreg). split; [apply mk_laplacian_is; assumption|].
    symmetry. apply lfull_base; assumption.
  - change (le_s sqrtf (LT e)) with (le_s sqrtf e).
    destruct (IH H) as (I1 & I2). split; [apply lp_transpose_is; exact I1|].
    rewrite I2. apply lfull_transpose; [apply le_LA_wf; exact H | rewrite map_length; apply le_s_length].
  - change (le_s sqrtf (LAstype e)) with (le_s sqrtf e). apply IH; exact H.
Qed.

Theorem laplacian_dot_denotes sqrtf e x : Proper (Qeq ==> Qeq) sqrtf -> le_wf e -> length x = le_n e ->
  exists y, lo_dot (lp_n (lp_eval sqrtf e), lp_n (lp_eval sqrtf e)) (lp_matvec (lp_eval sqrtf e)) x = Ok y /\
            y =v mat_vec (le_dense sqrtf e) x.
Proof.
  intros Hs HW Hx. destruct (le_denotes sqrtf e Hs HW) as (I1 & I2).
  destruct (le_wf_base e HW) as (W & Hsq & Hn & Hreg). rewrite <- le_n_base in Hn.
  pose proof (lp_matvec_is _ _ _ _ _ _ x I1 Hn Hreg Hx) as E.
  exists (lp_matvec (lp_eval sqrtf e) x). split.
  - destruct I1 as (En & _). rewrite En. apply lo_dot_ok; simpl; [exact Hx|].
    rewrite (veq_length _ _ E), mat_vec_length.
    apply (wf_mat_length _ _ _ (lfull_wf _ _ _ _ _ (le_LA_wf e HW) ltac:(rewrite map_length; apply le_s_length))).
  - rewrite E, I2. reflexivity.
Qed.
Theorem laplacian_expr_matmat_denotes sqrtf k e X : Proper (Qeq ==> Qeq) sqrtf -> le_wf e -> wf_mat (le_n e) k X ->
  lp_matmat k (lp_eval sqrtf e) X =m mat_mul k (le_dense sqrtf e) X.
Proof.
  intros Hs HW WX. destruct (le_denotes sqrtf e Hs HW) as (I1 & I2).
  destruct (le_wf_base e HW) as (W & Hsq & Hn & Hreg). rewrite <- le_n_base in Hn.
  rewrite (lp_matmat_is k _ _ _ _ _ _ X I1 Hn Hreg WX). rewrite I2. reflexivity.
Qed.
(** base operator, stated directly *)
Theorem laplacian_matvec_denotes sqrtf a reg norm x :
  Proper (Qeq ==> Qeq) sqrtf -> swf a -> s_nrow a = s_ncol a -> (0 < s_nrow a)%nat -> 0 <= reg -> length x = s_nrow a ->
  lp_matvec (mk_laplacian sqrtf a reg norm) x =v mat_vec (laplacian_dense sqrtf a reg norm) x.
Proof.
  intros Hs W Hsq Hn Hreg Hx.
  rewrite (lp_matvec_is _ _ _ _ _ _ x (mk_laplacian_is sqrtf a reg norm W Hsq) Hn Hreg Hx).
  rewrite lfull_base by assumption. reflexivity.
Qed.
Theorem laplacian_matmat_denotes sqrtf k a reg norm X :
  Proper (Qeq ==> Qeq) sqrtf -> swf a -> s_nrow a = s_ncol a -> (0 < s_nrow a)%nat -> 0 <= reg -> wf_mat (s_nrow a) k X ->
  lp_matmat k (mk_laplacian sqrtf a reg norm) X =m mat_mul k (laplacian_dense sqrtf a reg norm) X.
Proof.
  intros Hs W Hsq Hn Hreg WX.
  rewrite (lp_matmat_is k _ _ _ _ _ _ X (mk_laplacian_is sqrtf a reg norm W Hsq) Hn Hreg WX).
  rewrite lfull_base by assumption. reflexivity.
Qed.
(** _transpose: the transposed dense matrix, for directed graphs too *)
Theorem laplacian_transpose_matvec_denotes sqrtf a reg norm x :
  Proper (Qeq ==> Qeq) sqrtf -> swf a -> s_nrow a = s_ncol a -> (0 < s_nrow a)%nat -> 0 <= reg -> length x = s_nrow a ->
  lp_matvec (lp_transpose (mk_laplacian sqrtf a reg norm)) x
  =v mat_vec (transpose_n (s_nrow a) (laplacian_dense sqrtf a reg norm)) x.
Proof.
  intros Hs W Hsq Hn Hreg Hx.
  destruct (laplacian_dot_denotes sqrtf (LT (LBase a reg norm)) x Hs) as (y & E1 & E2); simpl; auto.
  unfold lo_dot in E1. simpl in E1.
  destruct (negb (Nat.eqb (length x) (s_nrow a))); [discriminate|].
  destruct (Nat.eqb _ _) in E1; [|discriminate]. injection E1 as <-. exact E2.
Qed.

(** legacy (before ca03879a): Laplacian._transpose returned self *)
Theorem legacy_laplacian_transpose_refuted :
  exists a x, swf a /\ s_nrow a = s_ncol a /\ length x = s_nrow a /\
    ~ (lp_matvec (legacy_lp_transpose (mk_laplacian (fun q => q) a 0 false)) x
       =v mat_vec (transpose_n (s_nrow a) (laplacian_dense (fun q => q) a 0 false)) x).
Proof.
  exists {| s_ncol := 3; s_rows := [[(1%nat, 1)]; [(2%nat, 1)]; []] |}, [1; 2; 3].
  split; [|split; [|split]].
  - repeat constructor.
  - reflexivity.
  - reflexivity.
  - intros H. apply (veq_nthq _ _ 0) in H. vm_compute in H. discriminate.
Qed.
(* ------------------------------------------------------------------------------------------- *)
(** * CoNeighbor *)
Definition cn_wfv (v : coneighbor) : Prop := swf (cn_back v) /\ swf (cn_fwd v) /\ s_ncol (cn_back v) = s_nrow (cn_fwd v).
Definition cn_is (v : coneighbor) (r c : nat) (D : mat) : Prop :=
  cn_wfv v /\ s_nrow (cn_back v) = r /\ s_ncol (cn_fwd v) = c /\ cn_dense v =m D.

Lemma cn_dense_wf v : cn_wfv v -> wf_mat (s_nrow (cn_back v)) (s_ncol (cn_fwd v)) (cn_dense v).
Proof.
  intros (Wb & Wf & E). unfold cn_dense, cn_ncol. eapply mat_mul_wf; [apply dense_wf|]. rewrite E. apply dense_wf.
Qed.
Lemma cn_is_wf v r c D : cn_is v r c D -> wf_mat r c D.
Proof. intros (Hv & <- & <- & E). eapply wf_mat_meq; [exact E | apply cn_dense_wf; exact Hv]. Qed.
Lemma cn_is_meq v r c D D' : D =m D' -> cn_is v r c D -> cn_is v r c D'.
Proof. intros E (Hv & Hr & Hc & E'). repeat split; auto; try apply Hv. rewrite E'. exact E. Qed.

Theorem coneighbor_matvec_denotes v x : cn_wfv v -> length x = cn_ncol v -> cn_matvec v x =v mat_vec (cn_dense v) x.
Proof.
  intros (Wb & Wf & E) Hx. unfold cn_matvec, cn_dense, cn_ncol in *.
  rewrite (smv_dense (cn_back v)) by (auto; vlen). rewrite (smv_dense (cn_fwd v)) by assumption.
  symmetry. apply mat_vec_mat_mul. apply (wf_mat_rows _ _ _ (dense_wf (cn_fwd v))).
Qed.
Theorem coneighbor_matmat_denotes k v X : cn_wfv v -> wf_mat (cn_ncol v) k X -> cn_matmat k v X =m mat_mul k (cn_dense v) X.
Proof.
  intros (Wb & Wf & E) WX. unfold cn_matmat, cn_dense, cn_ncol in *.
  pose proof (smm_wf k _ _ Wf WX) as W1. rewrite <- E in W1.
  rewrite (smm_dense k (cn_back v)) by assumption. rewrite (smm_dense k (cn_fwd v)) by assumption.
  symmetry. apply (mat_mul_assoc (s_nrow (cn_back v)) (s_ncol (cn_back v)) (s_ncol (cn_fwd v)) k); auto using dense_wf.
  rewrite E. apply dense_wf.
Qed.

(** the base operator *)
Lemma srow_dot_abs row x : Forall (fun e => 0 <= snd e) row ->
  srow_dot (map (fun e => (fst e, Qabs (snd e))) row) x == srow_dot row x.
Proof.
  induction 1 as [|e row He H IH]; [reflexivity|]. unfold srow_dot in *. simpl. rewrite IH.
  rewrite (Qabs_pos _ He). reflexivity.
Qed.
Lemma snorms1_nonneg s : swf s -> snonneg s -> snorms1 s =v row_sums (dense s).
Proof.
  intros W HN. rewrite <- (mat_vec_vones _ _ _ (dense_wf s)). rewrite <- smv_dense by (auto; vlen).
  unfold snorms1, smv, smap; simpl. rewrite map_map. unfold snonneg in HN.
  induction HN as [|row rows Hr HN IH]; simpl; constructor; auto. apply srow_dot_abs; exact Hr.
Qed.
Lemma tcol_values P j i rows : Forall (Forall (fun e : nat * Q => P (snd e))) rows -> Forall (fun e => P (snd e)) (tcol j i rows).
Proof.
  intros H. revert i; induction H as [|r rows Hr H IH]; intros i; simpl; [constructor|].
  apply Forall_app; split; [|apply IH]. rewrite Forall_forall in *. intros e He. apply in_map_iff in He.
  destruct He as [e' [<- He']]. simpl. apply filter_In in He'. apply Hr. apply He'.
Qed.
Lemma snonneg_stranspose s : snonneg s -> snonneg (stranspose s).
Proof.
  intros H. unfold snonneg, stranspose; simpl. rewrite Forall_forall. intros r Hr. apply in_map_iff in Hr.
  destruct Hr as [j [<- _]]. apply (tcol_values (fun q => 0 <= q)). exact H.
Qed.
Lemma row_scale_vones r c M : wf_mat r c M -> row_scale (vones r) M =m M.
Proof.
  intros WM. apply (meq_mget r c); auto; [apply row_scale_wf; auto; vlen|].
  intros i j Hi Hj. rewrite (mget_row_scale r c) by (auto; vlen). rewrite nthq_vones by exact Hi. ring.
Qed.

Theorem coneighbor_base_is a nrm : swf a -> snonneg a -> cn_is (mk_coneighbor a nrm) (s_nrow a) (s_nrow a) (coneighbor_dense a nrm).
Proof.
  intros W HN. pose proof (swf_stranspose a) as Wt. pose proof (dense_stranspose a) as Et.
  assert (Hfw : swf (cn_fwd (mk_coneighbor a nrm)) /\ s_nrow (cn_fwd (mk_coneighbor a nrm)) = s_ncol a /\
                s_ncol (cn_fwd (mk_coneighbor a nrm)) = s_nrow a /\
                dense (cn_fwd (mk_coneighbor a nrm)) =m
                row_scale (if nrm then map pinv (row_sums (transpose_n (s_ncol a) (dense a))) else vones (s_ncol a))
                          (transpose_n (s_ncol a) (dense a))).
  { unfold mk_coneighbor; simpl. destruct nrm.
    - unfold snormalize. split; [apply swf_smul; exact Wt|]. split; [rewrite smul_nrow, sdiag_pinv_nrow; unfold snorms1; vlen|].
      split; [reflexivity|].
      rewrite dense_smul_sdiag_pinv by (unfold snorms1; vlen).
      rewrite snorms1_nonneg by (auto using snonneg_stranspose). rewrite Et. reflexivity.
    - split; [exact Wt|]. split; [apply stranspose_nrow|]. split; [reflexivity|].
      rewrite Et. symmetry. apply (row_scale_vones (s_ncol a) (s_nrow a)). apply transpose_n_wf. apply dense_length. }
  destruct Hfw as (Wf & Hfr & Hfc & Ef).
  repeat split; simpl; auto.
  unfold cn_dense, cn_ncol, coneighbor_dense. rewrite Hfc. simpl cn_back. rewrite Ef. reflexivity.
Qed.

(** the algebraic operations (each mutates the object; the value it then has is modelled here) *)
Theorem cn_mul_is q v r c D : cn_is v r c D -> cn_is (cn_mul q v) r c (mscale q D).
Proof.
  intros ((Wb & Wf & E) & Hr & Hc & ED). unfold cn_is, cn_wfv, cn_dense, cn_ncol, cn_mul in *; simpl.
  repeat split; auto.
  - apply swf_smap; exact Wb.
  - unfold sscale. rewrite smap_nrow. exact Hr.
  - rewrite dense_sscale. rewrite mat_mul_mscale_l by apply (wf_mat_rows _ _ _ (dense_wf (cn_fwd v))). rewrite ED. reflexivity.
Qed.
Theorem cn_neg_is v r c D : cn_is v r c D -> cn_is (cn_neg v) r c (mneg D).
Proof. intros H. eapply cn_is_meq; [symmetry; apply mneg_mscale|]. exact (cn_mul_is (-(1)) v r c D H). Qed.
Theorem cn_left_is M v r c D : cn_is v r c D -> swf M -> s_ncol M = r ->
  cn_is (cn_left M v) (s_nrow M) c (mat_mul c (dense M) D).
Proof.
  intros ((Wb & Wf & E) & Hr & Hc & ED) WM HM. unfold cn_is, cn_wfv, cn_dense, cn_ncol in *; simpl.
  repeat split; auto.
  - apply swf_smul; exact Wb.
  - apply smul_nrow.
  - rewrite dense_smul by (auto; lia).
    assert (WB : wf_mat (s_ncol M) (s_ncol (cn_back v)) (dense (cn_back v))) by (rewrite HM, <- Hr; apply dense_wf).
    assert (WF : wf_mat (s_ncol (cn_back v)) (s_ncol (cn_fwd v)) (dense (cn_fwd v))) by (rewrite E; apply dense_wf).
    rewrite (mat_mul_assoc _ _ _ _ _ _ _ (dense_wf M) WB WF). rewrite ED, Hc. reflexivity.
Qed.
Theorem cn_right_is v M r c D : cn_is v r c D -> swf M -> s_nrow M = c ->
  cn_is (cn_right v M) r (s_ncol M) (mat_mul (s_ncol M) D (dense M)).
Proof.
  intros ((Wb & Wf & E) & Hr & Hc & ED) WM HM. unfold cn_is, cn_wfv, cn_dense, cn_ncol in *; simpl.
  repeat split; auto.
  - apply swf_smul; exact WM.
  - rewrite smul_nrow. exact E.
  - rewrite dense_smul by (auto; lia).
    assert (WF : wf_mat (s_ncol (cn_back v)) (s_ncol (cn_fwd v)) (dense (cn_fwd v))) by (rewrite E; apply dense_wf).
    assert (WMm : wf_mat (s_ncol (cn_fwd v)) (s_ncol M) (dense M)) by (rewrite Hc, <- HM; apply dense_wf).
    rewrite <- (mat_mul_assoc _ _ _ _ _ _ _ (dense_wf (cn_back v)) WF WMm). rewrite ED. reflexivity.
Qed.
Theorem cn_transpose_is v r c D : cn_is v r c D -> cn_is (cn_transpose v) c r (transpose_n c D).
Proof.
  intros ((Wb & Wf & E) & Hr & Hc & ED). unfold cn_is, cn_wfv, cn_dense, cn_ncol in *; simpl.
  split; [split; [apply swf_stranspose | split; [apply swf_stranspose | rewrite ?stranspose_ncol, ?stranspose_nrow; symmetry; exact E]] |].
  split; [rewrite ?stranspose_nrow; exact Hc|]. split; [rewrite ?stranspose_ncol; exact Hr |].
  rewrite !dense_stranspose. rewrite <- ED, <- Hc. rewrite ?stranspose_ncol.
  rewrite (transpose_mat_mul (s_nrow (cn_back v)) (s_ncol (cn_back v)) (s_ncol (cn_fwd v)))
    by (auto using dense_wf; rewrite E; apply dense_wf).
  rewrite E. reflexivity.
Qed.

Theorem ce_denotes e : ce_wf e -> cn_is (cn_eval e) (fst (ce_shape e)) (snd (ce_shape e)) (ce_dense e).
Proof.
  induction e as [a nrm | e IH | q e IH | M e IH | e IH M | e IH | e IH]; simpl; intros H.
  - destruct H as [W HN]. apply coneighbor_base_is; assumption.
  - apply cn_neg_is; auto.
  - apply cn_mul_is; auto.
  - destruct H as (H1 & W & E). apply (cn_left_is M _ (fst (ce_shape e))); auto.
  - destruct H as (H1 & W & E). apply (cn_right_is _ M (fst (ce_shape e)) (snd (ce_shape e))); auto.
  - apply cn_transpose_is; auto.
  - apply IH; exact H.
Qed.

(** the recorded LinearOperator shape follows the two factors through every operation (commit 2a194d08) *)
Lemma cn_eval_shape e : cn_shape (cn_eval e) = (s_nrow (cn_back (cn_eval e)), s_ncol (cn_fwd (cn_eval e))).
Proof.
  induction e as [a nrm | e IH | q e IH | M e IH | e IH M | e IH | e IH]; simpl; auto.
  - destruct nrm; reflexivity.
  - rewrite IH, sscale_nrow. reflexivity.
  - rewrite IH, sscale_nrow. reflexivity.
  - rewrite IH. reflexivity.
  - rewrite IH. reflexivity.
Qed.

Theorem coneighbor_dot_denotes e x : ce_wf e -> length x = snd (ce_shape e) ->
  exists y, cn_dot (cn_eval e) x = Ok y /\ y =v mat_vec (ce_dense e) x.
Proof.
  intros H Hx. destruct (ce_denotes e H) as (Hv & Hr & Hc & ED).
  exists (cn_matvec (cn_eval e) x). split.
  - unfold cn_dot. rewrite Hc, Hx, Nat.eqb_refl. apply lo_dot_ok; rewrite cn_eval_shape; simpl; [lia|].
    unfold cn_matvec. rewrite smv_length. reflexivity.
  - rewrite coneighbor_matvec_denotes by (auto; unfold cn_ncol; lia). rewrite ED. reflexivity.
Qed.
Theorem coneighbor_expr_matmat_denotes k e X : ce_wf e -> wf_mat (snd (ce_shape e)) k X ->
  cn_matmat k (cn_eval e) X =m mat_mul k (ce_dense e) X.
Proof.
  intros H WX. destruct (ce_denotes e H) as (Hv & Hr & Hc & ED).
  rewrite coneighbor_matmat_denotes by (auto; unfold cn_ncol; rewrite Hc; exact WX). rewrite ED. reflexivity.
Qed.

(** legacy (before 1496c670): with normalized=False forward was a view on backward's buffer, so -op = op *)
Theorem legacy_coneighbor_shared_scaling_refuted :
  exists a x y, swf a /\ snonneg a /\ length x = s_nrow a /\
    legacy_cn_dot (legacy_cn_mul (-(1)) (legacy_mk_coneighbor a false)) x = Ok y /\
    ~ (y =v mat_vec (ce_dense (CNeg (CBase a false))) x).
Proof.
  exists {| s_ncol := 1; s_rows := [[(0%nat, 2)]] |}, [1], [4].
  split; [repeat constructor; unfold Qle; simpl; lia|]. split; [repeat constructor; unfold Qle; simpl; lia|].
  split; [reflexivity|]. split; [vm_compute; reflexivity|].
  intros H. apply (veq_nthq _ _ 0) in H. vm_compute in H. discriminate.
Qed.
(** legacy (before 2a194d08): left_sparse_dot with a 2 x 3 factor kept shape (3, 3) and the next dot raised *)
Theorem legacy_coneighbor_sparse_dot_shape_refuted :
  exists M a x, swf M /\ swf a /\ snonneg a /\ s_ncol M = s_nrow a /\ length x = s_nrow a /\
    legacy_cn_dot (legacy_cn_left M (legacy_mk_coneighbor a true)) x = Err.
Proof.
  exists {| s_ncol := 3; s_rows := [[(0%nat, 1)]; [(1%nat, 1); (2%nat, 1)]] |},
         {| s_ncol := 3; s_rows := [[(0%nat, 1); (2%nat, 1)]; [(1%nat, 1)]; [(0%nat, 1); (1%nat, 1)]] |}, [1; 1; 1].
  repeat split; try (repeat constructor; unfold Qle; simpl; lia).
Qed.
(** * Polynome *)
Lemma horner_single f c x : horner f [c] x = vscale c x.
Proof. reflexivity. Qed.
Lemma horner_cons f c cs x : cs <> [] -> horner f (c :: cs) x = vadd (f (horner f cs x)) (vscale c x).
Proof.
  intros H. unfold horner. simpl rev. destruct (rev cs) as [|cl rest] eqn:E.
  - exfalso. apply H. rewrite <- (rev_involutive cs), E. reflexivity.
  - simpl. rewrite fold_left_app. reflexivity.
Qed.
Lemma horner_mat_cons f c cs X : cs <> [] -> horner_mat f (c :: cs) X = madd (f (horner_mat f cs X)) (mscale c X).
Proof.
  intros H. unfold horner_mat. simpl rev. destruct (rev cs) as [|cl rest] eqn:E.
  - exfalso. apply H. rewrite <- (rev_involutive cs), E. reflexivity.
  - simpl. rewrite fold_left_app. reflexivity.
Qed.

Lemma mat_vec_vsum n A l : length A = n -> Forall (fun v => length v = n) l ->
  mat_vec A (vsum n l) =v vsum n (map (mat_vec A) l).
Proof.
  intros HA H. induction H as [|v l Hv H IH]; simpl.
  - rewrite mat_vec_vzero, HA. reflexivity.
  - rewrite mat_vec_vadd by (rewrite vsum_length; auto). rewrite IH. reflexivity.
Qed.

Lemma power_sum_cons n A c cs x : wf_mat n n A -> length x = n ->
  power_sum n A (c :: cs) x =v vadd (vscale c x) (mat_vec A (power_sum n A cs x)).
Proof.
  intros WA Hx. unfold power_sum. simpl length. rewrite <- cons_seq. simpl map. simpl vsum.
  unfold nthq at 1. simpl nth. rewrite mat_vec_identity by exact Hx.
  apply vadd_proper; [reflexivity|]. rewrite <- seq_shift, map_map.
  rewrite mat_vec_vsum; [| apply (wf_mat_length _ _ _ WA) |].
  - rewrite map_map. apply vsum_proper; [reflexivity|]. apply map_ext_meq. intros k _.
    unfold nthq; simpl nth. fold (nthq cs k). simpl mat_pow. rewrite mat_vec_vscale.
    rewrite mat_vec_mat_mul by apply (wf_mat_rows _ _ _ (mat_pow_wf n A k WA)). reflexivity.
  - rewrite Forall_forall. intros v Hv. apply in_map_iff in Hv. destruct Hv as [k [<- _]].
    rewrite vscale_length, mat_vec_length. apply (wf_mat_length _ _ _ (mat_pow_wf n A k WA)).
Qed.
Lemma power_sum_length n A cs x : wf_mat n n A -> length (power_sum n A cs x) = n.
Proof.
  intros WA. unfold power_sum. apply vsum_length. rewrite Forall_forall. intros v Hv. apply in_map_iff in Hv.
  destruct Hv as [k [<- _]]. rewrite vscale_length, mat_vec_length. apply (wf_mat_length _ _ _ (mat_pow_wf n A k WA)).
Qed.

(** Horner's scheme as coded computes sum_k c_k A^k x (for any map f that applies A) *)
Theorem horner_eq_power_sum n A f cs x : wf_mat n n A -> (forall y, length y = n -> f y =v mat_vec A y) ->
  cs <> [] -> length x = n -> horner f cs x =v power_sum n A cs x.
Proof.
  intros WA Hf Hcs Hx. induction cs as [|c cs IH]; [contradiction|]. destruct cs as [|c' cs].
  - rewrite horner_single. rewrite power_sum_cons by assumption. unfold power_sum at 1. simpl.
    rewrite mat_vec_vzero, (wf_mat_length _ _ _ WA). symmetry. apply vadd_vzero_r. rewrite vscale_length; exact Hx.
  - assert (Hne : c' :: cs <> []) by discriminate. specialize (IH Hne).
    rewrite horner_cons by exact Hne. rewrite power_sum_cons by assumption.
    rewrite Hf by (rewrite (veq_length _ _ IH); apply power_sum_length; exact WA).
    rewrite IH. apply vadd_comm.
Qed.

Lemma msum_wf r c l : Forall (wf_mat r c) l -> wf_mat r c (msum r c l).
Proof. induction 1 as [|M l HM H IH]; simpl; [apply mzero_wf | apply madd_wf; assumption]. Qed.
Lemma mat_vec_msum r c l x : Forall (wf_mat r c) l -> mat_vec (msum r c l) x =v vsum r (map (fun M => mat_vec M x) l).
Proof.
  induction 1 as [|M l HM H IH]; simpl; [apply mat_vec_mzero|].
  rewrite (mat_vec_madd r c) by (auto using msum_wf). rewrite IH. reflexivity.
Qed.
Lemma poly_terms_wf n A cs : wf_mat n n A ->
  Forall (wf_mat n n) (map (fun k => mscale (nthq cs k) (mat_pow n A k)) (seq 0 (length cs))).
Proof.
  intros WA. rewrite Forall_forall. intros M HM. apply in_map_iff in HM. destruct HM as [k [<- _]].
  apply mscale_wf, mat_pow_wf; exact WA.
Qed.
Lemma poly_dense_wf n A cs : wf_mat n n A -> wf_mat n n (poly_dense n A cs).
Proof. intros WA. apply msum_wf, poly_terms_wf; exact WA. Qed.
Theorem poly_dense_power_sum n A cs x : wf_mat n n A -> mat_vec (poly_dense n A cs) x =v power_sum n A cs x.
Proof.
  intros WA. unfold poly_dense, power_sum. rewrite mat_vec_msum by (apply poly_terms_wf; exact WA).
  rewrite map_map. apply vsum_proper; [reflexivity|]. apply map_ext_meq. intros k _. apply mat_vec_mscale.
Qed.
Theorem polynome_matvec_denotes a cs x : swf a -> s_nrow a = s_ncol a -> cs <> [] -> length x = s_nrow a ->
  pl_matvec {| pl_mat := a; pl_coeffs := cs |} x =v mat_vec (poly_dense (s_nrow a) (dense a) cs) x.
Proof.
  intros W Hsq Hcs Hx. assert (WA : wf_mat (s_nrow a) (s_nrow a) (dense a)) by (rewrite Hsq at 2; apply dense_wf).
  unfold pl_matvec; simpl. rewrite poly_dense_power_sum by exact WA.
  apply horner_eq_power_sum; auto. intros y Hy. apply smv_dense; [exact W | lia].
Qed.

(** 2-D *)
Lemma mat_mul_msum r q p l X : Forall (wf_mat r q) l -> wf_mat q p X ->
  mat_mul p (msum r q l) X =m msum r p (map (fun M => mat_mul p M X) l).
Proof.
  intros H WX. induction H as [|M l HM H IH]; simpl; [apply (mat_mul_mzero_l q); exact WX|].
  rewrite (mat_mul_madd_l r q p) by (auto using msum_wf). rewrite IH. reflexivity.
Qed.
Lemma mat_mul_msum_r r q p A l : wf_mat r q A -> Forall (wf_mat q p) l ->
  mat_mul p A (msum q p l) =m msum r p (map (mat_mul p A) l).
Proof.
  intros WA H. induction H as [|M l HM H IH]; simpl; [apply (mat_mul_mzero_r r q p); exact WA|].
  rewrite (mat_mul_madd_r r q p) by (auto using msum_wf). rewrite IH. reflexivity.
Qed.
Global Instance msum_proper : Proper (eq ==> eq ==> Forall2 meq ==> meq) msum.
Proof. intros r r' <- c c' <- l l' H. induction H; simpl; [reflexivity|]. apply madd_proper; assumption. Qed.
Lemma map_ext_mlist {A} (f g : A -> mat) l : (forall a, In a l -> f a =m g a) -> Forall2 meq (map f l) (map g l).
Proof.
  induction l as [|a l IH]; intros H; simpl; constructor; [apply H; left; reflexivity|].
  apply IH. intros b Hb. apply H; right; exact Hb.
Qed.
Lemma mat_mul_mscale_r r q p c A B : wf_mat r q A -> wf_mat q p B -> mat_mul p A (mscale c B) =m mscale c (mat_mul p A B).
Proof.
  intros WA WB. pose proof (mscale_wf _ _ c _ WB) as WS. pose proof (mat_mul_wf _ _ _ _ _ WA WB) as WAB.
  apply (meq_mget r p); [eapply mat_mul_wf; eauto | apply mscale_wf; exact WAB|].
  intros i j Hi Hj. rewrite (mget_mscale r p) by assumption. rewrite !(mget_mat_mul r q p) by assumption.
  assert (E : col j (mscale c B) =v vscale c (col j B)).
  { apply veq_nth; [rewrite vscale_length, !col_length, (wf_mat_length _ _ _ WS), (wf_mat_length _ _ _ WB); reflexivity|].
    intros k Hk. rewrite col_length, (wf_mat_length _ _ _ WS) in Hk.
    rewrite nthq_col by (rewrite (wf_mat_length _ _ _ WS); exact Hk).
    rewrite nthq_vscale by (rewrite col_length, (wf_mat_length _ _ _ WB); exact Hk).
    rewrite nthq_col by (rewrite (wf_mat_length _ _ _ WB); exact Hk). rewrite (mget_mscale q p) by assumption. reflexivity. }
  rewrite E. apply dot_vscale_r.
Qed.
Definition power_sum_mat (n k : nat) (A : mat) (cs : list Q) (X : mat) : mat :=
  msum n k (map (fun i => mscale (nthq cs i) (mat_mul k (mat_pow n A i) X)) (seq 0 (length cs))).
Lemma power_sum_mat_terms_wf n k A cs X : wf_mat n n A -> wf_mat n k X ->
  Forall (wf_mat n k) (map (fun i => mscale (nthq cs i) (mat_mul k (mat_pow n A i) X)) (seq 0 (length cs))).
Proof.
  intros WA WX. rewrite Forall_forall. intros M HM. apply in_map_iff in HM. destruct HM as [i [<- _]].
  apply mscale_wf. eapply mat_mul_wf; [apply mat_pow_wf; exact WA | exact WX].
Qed.
Lemma power_sum_mat_wf n k A cs X : wf_mat n n A -> wf_mat n k X -> wf_mat n k (power_sum_mat n k A cs X).
Proof. intros WA WX. apply msum_wf, power_sum_mat_terms_wf; assumption. Qed.
Lemma power_sum_mat_cons n k A c cs X : wf_mat n n A -> wf_mat n k X ->
  power_sum_mat n k A (c :: cs) X =m madd (mscale c X) (mat_mul k A (power_sum_mat n k A cs X)).
Proof.
  intros WA WX. unfold power_sum_mat. simpl length. rewrite <- cons_seq. simpl map. simpl msum.
  unfold nthq at 1. simpl nth. rewrite (mat_mul_identity_l n k) by exact WX.
  apply madd_proper; [reflexivity|]. rewrite <- seq_shift, map_map.
  rewrite (mat_mul_msum_r n n k) by (auto using power_sum_mat_terms_wf).
  rewrite map_map. apply msum_proper; auto. apply map_ext_mlist. intros i _.
  unfold nthq; simpl nth. fold (nthq cs i). simpl mat_pow.
  pose proof (mat_pow_wf n A i WA) as WP.
  rewrite (mat_mul_mscale_r n n k) by (auto; eapply mat_mul_wf; eauto).
  rewrite (mat_mul_assoc n n n k) by assumption. reflexivity.
Qed.
Theorem horner_mat_eq_power_sum n k A f cs X : wf_mat n n A -> (forall Y, wf_mat n k Y -> f Y =m mat_mul k A Y) ->
  cs <> [] -> wf_mat n k X -> horner_mat f cs X =m power_sum_mat n k A cs X.
Proof.
  intros WA Hf Hcs WX. induction cs as [|c cs IH]; [contradiction|]. destruct cs as [|c' cs].
  - unfold horner_mat; simpl. rewrite power_sum_mat_cons by assumption. unfold power_sum_mat at 1. simpl.
    rewrite (mat_mul_mzero_r n n k) by exact WA. symmetry. apply madd_mzero_r. apply mscale_wf; exact WX.
  - assert (Hne : c' :: cs <> []) by discriminate. specialize (IH Hne).
    rewrite horner_mat_cons by exact Hne. rewrite power_sum_mat_cons by assumption.
    rewrite Hf by (eapply wf_mat_meq; [symmetry; exact IH | apply power_sum_mat_wf; assumption]).
    rewrite IH. apply madd_comm.
Qed.
Theorem polynome_matmat_denotes k a cs X : swf a -> s_nrow a = s_ncol a -> cs <> [] -> wf_mat (s_nrow a) k X ->
  pl_matmat k {| pl_mat := a; pl_coeffs := cs |} X =m mat_mul k (poly_dense (s_nrow a) (dense a) cs) X.
Proof.
  intros W Hsq Hcs WX. assert (WA : wf_mat (s_nrow a) (s_nrow a) (dense a)) by (rewrite Hsq at 2; apply dense_wf).
  unfold pl_matmat; simpl. unfold poly_dense.
  rewrite (mat_mul_msum (s_nrow a) (s_nrow a) k) by (auto using poly_terms_wf). rewrite map_map.
  rewrite (horner_mat_eq_power_sum (s_nrow a) k (dense a)); auto.
  - unfold power_sum_mat. apply msum_proper; auto. apply map_ext_mlist. intros i _. symmetry.
    apply mat_mul_mscale_l. apply (wf_mat_rows _ _ _ WX).
  - intros Y WY. apply smm_dense; [exact W | rewrite <- Hsq; exact WY].
Qed.
(** algebraic operations of Polynome *)
Lemma mscale_mscale c d A : mscale c (mscale d A) =m mscale (c * d) A.
Proof. induction A as [|a A IH]; simpl; constructor; auto. apply vscale_vscale. Qed.
Lemma msum_mscale r c q l : mscale q (msum r c l) =m msum r c (map (mscale q) l).
Proof. induction l as [|M l IH]; simpl; [apply mscale_mzero|]. rewrite mscale_madd, IH. reflexivity. Qed.
Lemma poly_dense_map_lin n A h q cs : (forall x, h x == q * x) ->
  poly_dense n A (map h cs) =m mscale q (poly_dense n A cs).
Proof.
  intros Hh. unfold poly_dense. rewrite msum_mscale, map_map, map_length.
  apply msum_proper; auto. apply map_ext_mlist. intros k Hk. apply in_seq in Hk.
  rewrite nthq_map by lia. rewrite mscale_mscale. apply mscale_proper; [apply Hh | reflexivity].
Qed.

Lemma col_identity n j : (j < n)%nat -> col j (identity n) =v unit n j.
Proof.
  intros Hj. apply veq_nth; [rewrite col_length, unit_length; unfold identity; vlen|].
  intros i Hi. rewrite col_length in Hi. unfold identity in Hi. rewrite map_length, seq_length in Hi.
  rewrite nthq_col by (unfold identity; vlen). rewrite mget_identity by assumption. rewrite nthq_unit by exact Hi.
  rewrite Nat.eqb_sym. reflexivity.
Qed.
Lemma mat_mul_identity_r r n A : wf_mat r n A -> mat_mul n A (identity n) =m A.
Proof.
  intros WA. apply (meq_mget r n); auto; [eapply mat_mul_wf; [exact WA | apply identity_wf]|].
  intros i j Hi Hj. rewrite (mget_mat_mul r n n) by (auto using identity_wf).
  rewrite col_identity by exact Hj. rewrite dot_comm. rewrite dot_unit_l by (auto; apply (wf_mat_row _ _ _ _ WA Hi)).
  reflexivity.
Qed.
Lemma mat_pow_comm n B k : wf_mat n n B -> mat_mul n (mat_pow n B k) B =m mat_mul n B (mat_pow n B k).
Proof.
  intros WB. induction k as [|k IH]; simpl.
  - rewrite (mat_mul_identity_l n n) by exact WB. rewrite (mat_mul_identity_r n n) by exact WB. reflexivity.
  - pose proof (mat_pow_wf n B k WB) as WP. rewrite (mat_mul_assoc n n n n) by assumption. rewrite IH. reflexivity.
Qed.
Global Instance mat_pow_proper : Proper (eq ==> meq ==> eq ==> meq) mat_pow.
Proof.
  intros n n' <- A A' HA k k' <-. induction k as [|k IH]; simpl; [reflexivity|]. apply mat_mul_proper; auto.
Qed.
Lemma mat_pow_transpose n A k : wf_mat n n A -> transpose_n n (mat_pow n A k) =m mat_pow n (transpose_n n A) k.
Proof.
  intros WA. pose proof (transpose_n_wf n n A (wf_mat_length _ _ _ WA)) as WT. induction k as [|k IH]; simpl.
  - apply transpose_identity.
  - rewrite (transpose_mat_mul n n n) by (auto using mat_pow_wf). rewrite IH. apply mat_pow_comm; exact WT.
Qed.
Lemma transpose_msum r c l : Forall (wf_mat r c) l -> transpose_n c (msum r c l) =m msum c r (map (transpose_n c) l).
Proof.
  induction 1 as [|M l HM H IH]; simpl; [apply transpose_mzero|].
  rewrite (transpose_madd r c) by (auto using msum_wf). rewrite IH. reflexivity.
Qed.
Lemma poly_dense_transpose n A cs : wf_mat n n A -> poly_dense n (transpose_n n A) cs =m transpose_n n (poly_dense n A cs).
Proof.
  intros WA. unfold poly_dense. rewrite (transpose_msum n n) by (apply poly_terms_wf; exact WA). rewrite map_map.
  apply msum_proper; auto. apply map_ext_mlist. intros k _.
  rewrite (transpose_mscale n n) by (apply mat_pow_wf; exact WA). rewrite mat_pow_transpose by exact WA. reflexivity.
Qed.
Global Instance poly_dense_proper : Proper (eq ==> meq ==> eq ==> meq) poly_dense.
Proof.
  intros n n' <- A A' HA cs cs' <-. unfold poly_dense. apply msum_proper; auto. apply map_ext_mlist. intros k _.
  rewrite HA. reflexivity.
Qed.

Theorem pe_denotes e : pe_wf e ->
  let v := pl_eval e in
  swf (pl_mat v) /\ s_nrow (pl_mat v) = s_ncol (pl_mat v) /\ s_nrow (pl_mat v) = pe_n e /\ pl_coeffs v <> [] /\
  poly_dense (pe_n e) (dense (pl_mat v)) (pl_coeffs v) =m pe_dense e.
Proof.
  induction e as [a cs | e IH | q e IH | e IH]; simpl; intros H.
  - destruct H as (W & Hsq & Hcs). repeat split; auto. reflexivity.
  - destruct (IH H) as (W & Hsq & Hn & Hcs & E). repeat split; auto.
    + intros Hm. apply Hcs. destruct (pl_coeffs (pl_eval e)); [reflexivity | discriminate].
    + rewrite (poly_dense_map_lin _ _ Qopp (-(1))) by (intros; ring). rewrite E. symmetry. apply mneg_mscale.
  - destruct (IH H) as (W & Hsq & Hn & Hcs & E). repeat split; auto.
    + intros Hm. apply Hcs. destruct (pl_coeffs (pl_eval e)); [reflexivity | discriminate].
    + rewrite (poly_dense_map_lin _ _ (Qmult q) q) by (intros; reflexivity). rewrite E. reflexivity.
  - destruct (IH H) as (W & Hsq & Hn & Hcs & E). split; [apply swf_stranspose|].
    split; [rewrite ?stranspose_nrow, ?stranspose_ncol; symmetry; exact Hsq|].
    split; [rewrite ?stranspose_nrow; lia|]. split; [exact Hcs|].
    rewrite dense_stranspose. rewrite <- Hsq, Hn. rewrite poly_dense_transpose by (rewrite <- Hn; rewrite Hsq at 2; apply dense_wf).
    rewrite E. reflexivity.
Qed.

Theorem polynome_dot_denotes e x : pe_wf e -> length x = pe_n e ->
  exists y, lo_dot (s_nrow (pl_mat (pl_eval e)), s_ncol (pl_mat (pl_eval e))) (pl_matvec (pl_eval e)) x = Ok y /\
            y =v mat_vec (pe_dense e) x.
Proof.
  intros H Hx. destruct (pe_denotes e H) as (W & Hsq & Hn & Hcs & E). cbv zeta in *.
  destruct (pl_eval e) as [a cs] eqn:Ev. simpl in *.
  assert (Hx' : length x = s_nrow a) by lia.
  pose proof (polynome_matvec_denotes a cs x W Hsq Hcs Hx') as EM.
  assert (WA : wf_mat (s_nrow a) (s_nrow a) (dense a)) by (pose proof (dense_wf a) as WA0; rewrite <- Hsq in WA0; exact WA0).
  exists (pl_matvec {| pl_mat := a; pl_coeffs := cs |} x). split.
  - apply lo_dot_ok; simpl; [lia|]. rewrite (veq_length _ _ EM), mat_vec_length.
    apply (wf_mat_length _ _ _ (poly_dense_wf _ _ cs WA)).
  - rewrite EM, Hn, E. reflexivity.
Qed.
Theorem polynome_expr_matmat_denotes k e X : pe_wf e -> wf_mat (pe_n e) k X ->
  pl_matmat k (pl_eval e) X =m mat_mul k (pe_dense e) X.
Proof.
  intros H WX. destruct (pe_denotes e H) as (W & Hsq & Hn & Hcs & E). cbv zeta in *.
  destruct (pl_eval e) as [a cs] eqn:Ev. simpl in *.
  rewrite polynome_matmat_denotes by (auto; rewrite Hn; exact WX). rewrite Hn, E. reflexivity.
Qed.

(* ------------------------------------------------------------------------------------------- *)
(** * All operators *)
Theorem operator_denotes sqrtf o x : Proper (Qeq ==> Qeq) sqrtf -> op_wf o -> length x = snd (op_shape o) ->
  exists y, op_apply sqrtf o x = Ok y /\ y =v mat_vec (op_dense sqrtf o) x.
Proof.
  intros Hs. destruct o as [e | e | e | e | e]; simpl; intros HW Hx.
  - apply sparselr_dot_denotes; assumption.
  - apply normalizer_dot_denotes; assumption.
  - apply laplacian_dot_denotes; assumption.
  - apply coneighbor_dot_denotes; assumption.
  - apply polynome_dot_denotes; assumption.
Qed.
Theorem operator_matmat_denotes sqrtf k o X : Proper (Qeq ==> Qeq) sqrtf -> op_wf o ->
  wf_mat (snd (op_shape o)) k X -> op_apply_mat sqrtf k o X =m mat_mul k (op_dense sqrtf o) X.
Proof.
  intros Hs. destruct o as [e | e | e | e | e]; simpl; intros HW WX.
  - apply sparselr_matmat_denotes; assumption.
  - apply normalizer_expr_matmat_denotes; assumption.
  - apply laplacian_expr_matmat_denotes; assumption.
  - apply coneighbor_expr_matmat_denotes; assumption.
  - apply polynome_expr_matmat_denotes; assumption.
Qed.
(* ------------------------------------------------------------------------------------------- *)
(** * Utilities *)
(** diagonal_pseudo_inverse: null weights stay null, the others are inverted *)
Theorem pseudo_inverse_keeps_zero w :
  dense (sdiag_pinv w) =m diag (map pinv w) /\
  (forall i, nthq w i == 0 -> nthq (map pinv w) i == 0) /\
  (forall i, (i < length w)%nat -> ~ nthq w i == 0 -> nthq (map pinv w) i * nthq w i == 1).
Proof.
  split; [apply dense_sdiag_pinv|]. split.
  - intros i H. destruct (Nat.lt_ge_cases i (length w)) as [Hi|Hi].
    + rewrite nthq_map by exact Hi. apply pinv_0; exact H.
    + rewrite nthq_overflow by (rewrite map_length; exact Hi). reflexivity.
  - intros i Hi H. rewrite nthq_map by exact Hi. apply pinv_inv; exact H.
Qed.

(** get_norms / normalize on a CSR matrix *)
Lemma srow_dot_map_ones f n row : srow_wf n row ->
  srow_dot (map (fun e => (fst e, f (snd e))) row) (vones n) == sumq (map (fun e => f (snd e)) row).
Proof.
  induction 1 as [|e row He H IH]; [reflexivity|]. unfold srow_dot in *. simpl. rewrite IH.
  rewrite nthq_vones by exact He. ring.
Qed.
Theorem get_norms1_def s : swf s -> snorms1 s =v map srow_norm1 (s_rows s).
Proof.
  intros W. unfold snorms1, smv, smap; simpl. rewrite map_map. unfold swf in W.
  induction W as [|row rows Hr W IH]; simpl; constructor; auto. apply srow_dot_map_ones; exact Hr.
Qed.
Theorem get_norms2_def sqrtf s : Proper (Qeq ==> Qeq) sqrtf -> swf s ->
  snorms2 sqrtf s =v map (fun row => sqrtf (srow_norm2sq row)) (s_rows s).
Proof.
  intros Hs W. unfold snorms2, smv, smap; simpl. rewrite !map_map. unfold swf in W.
  induction W as [|row rows Hr W IH]; simpl; constructor; auto. apply Hs.
  apply (srow_dot_map_ones (fun q => q * q)); exact Hr.
Qed.

Lemma nth_sdiag_pinv_row w i : (i < length w)%nat ->
  nth i (s_rows (sdiag_pinv w)) [] = if Qeq_bool (nthq w i) 0 then [] else [(i, / nthq w i)].
Proof.
  intros Hi. unfold sdiag_pinv, smap, sdiag; simpl. rewrite map_map. rewrite nth_seq_map by exact Hi.
  destruct (Qeq_bool (nthq w i) 0); reflexivity.
Qed.
Lemma nth_scaled_row w s i : (i < length w)%nat ->
  nth i (s_rows (smul (sdiag_pinv w) s)) [] =
  if Qeq_bool (nthq w i) 0 then [] else map (fun f => (fst f, / nthq w i * snd f)) (nth i (s_rows s) []) ++ [].
Proof.
  intros Hi. unfold smul; simpl.
  rewrite (nth_map_gen (fun row => srow_mul row s) (s_rows (sdiag_pinv w)) [] []) by (fold (s_nrow (sdiag_pinv w)); rewrite sdiag_pinv_nrow; exact Hi).
  rewrite nth_sdiag_pinv_row by exact Hi. destruct (Qeq_bool (nthq w i) 0); reflexivity.
Qed.
Lemma srow_norm1_nonneg row : 0 <= srow_norm1 row.
Proof.
  unfold srow_norm1. induction row as [|e row IH]; simpl; [apply Qle_refl|].
  apply (Qplus_le_compat 0 _ 0); [apply Qabs_nonneg | exact IH].
Qed.
Lemma srow_norm1_scale c row : srow_norm1 (map (fun f => (fst f, c * snd f)) row ++ []) == Qabs c * srow_norm1 row.
Proof.
  rewrite app_nil_r. unfold srow_norm1. rewrite map_map. simpl.
  rewrite <- sumq_map_scale. apply sumq_map_ext. intros a _. apply Qabs_Qmult.
Qed.
Lemma srow_norm2sq_scale c row : srow_norm2sq (map (fun f => (fst f, c * snd f)) row ++ []) == c * c * srow_norm2sq row.
Proof.
  rewrite app_nil_r. unfold srow_norm2sq. rewrite map_map. simpl.
  rewrite <- sumq_map_scale. apply sumq_map_ext. intros a _. ring.
Qed.

(** normalize(p=1): D^+ A with D the row norms; every row of the result has norm 1, or was null and stays null *)
Theorem normalize_def s : swf s ->
  dense (snormalize s) =m row_scale (map pinv (map srow_norm1 (s_rows s))) (dense s).
Proof.
  intros W. unfold snormalize. rewrite dense_smul_sdiag_pinv by (unfold snorms1; vlen).
  apply row_scale_proper; [|reflexivity]. apply map_pinv_instance. apply get_norms1_def; exact W.
Qed.
Theorem normalize_rows_sum_1_or_0 s i : swf s -> (i < s_nrow s)%nat ->
  let row := nth i (s_rows s) [] in
  let row' := nth i (s_rows (snormalize s)) [] in
  (srow_norm1 row == 0 /\ row' = []) \/ srow_norm1 row' == 1.
Proof.
  intros W Hi row row'. pose proof (get_norms1_def s W) as EN.
  assert (HL : length (snorms1 s) = s_nrow s) by (unfold snorms1; vlen).
  assert (Ei : nthq (snorms1 s) i == srow_norm1 row).
  { rewrite (veq_nthq _ _ i EN). unfold row. rewrite (nthq_map_gen srow_norm1 (s_rows s) []) by exact Hi. reflexivity. }
  unfold row', snormalize. rewrite nth_scaled_row by lia.
  destruct (Qeq_bool (nthq (snorms1 s) i) 0) eqn:E.
  - left. apply Qeq_bool_iff in E. split; [rewrite <- Ei; exact E | reflexivity].
  - right. apply Qeq_bool_neq in E. fold row. rewrite srow_norm1_scale.
    assert (Hpos : 0 < nthq (snorms1 s) i).
    { destruct (Qlt_le_dec 0 (nthq (snorms1 s) i)) as [L|L]; [exact L|]. exfalso. apply E.
      apply Qle_antisym; [exact L|]. rewrite Ei. apply srow_norm1_nonneg. }
    rewrite Qabs_pos by (apply Qlt_le_weak, Qinv_lt_0_compat; exact Hpos).
    rewrite <- Ei. rewrite Qmult_comm. apply Qmult_inv_r. exact E.
Qed.
(** normalize(p=2), stated on squares; the oracle only has to satisfy sqrt(q)^2 = q on the row's sum of squares *)
Theorem normalize2_rows_sum_1_or_0 sqrtf s i : Proper (Qeq ==> Qeq) sqrtf -> swf s -> (i < s_nrow s)%nat ->
  let row := nth i (s_rows s) [] in
  let row' := nth i (s_rows (snormalize2 sqrtf s)) [] in
  sqrtf (srow_norm2sq row) * sqrtf (srow_norm2sq row) == srow_norm2sq row ->
  (sqrtf (srow_norm2sq row) == 0 /\ row' = []) \/ srow_norm2sq row' == 1.
Proof.
  intros Hs W Hi row row' Hsq. pose proof (get_norms2_def sqrtf s Hs W) as EN.
  assert (HL : length (snorms2 sqrtf s) = s_nrow s) by (unfold snorms2; vlen).
  assert (Ei : nthq (snorms2 sqrtf s) i == sqrtf (srow_norm2sq row)).
  { rewrite (veq_nthq _ _ i EN). unfold row.
    rewrite (nthq_map_gen (fun r => sqrtf (srow_norm2sq r)) (s_rows s) []) by exact Hi. reflexivity. }
  unfold row', snormalize2. rewrite nth_scaled_row by lia.
  destruct (Qeq_bool (nthq (snorms2 sqrtf s) i) 0) eqn:E.
  - left. apply Qeq_bool_iff in E. split; [rewrite <- Ei; exact E | reflexivity].
  - right. apply Qeq_bool_neq in E. fold row. rewrite srow_norm2sq_scale. rewrite <- Hsq, <- Ei. field. exact E.
Qed.

(** get_laplacian = D - A *)
Theorem laplacian_def a : swf a -> s_nrow a = s_ncol a ->
  dense (get_laplacian a) =m msub (diag (row_sums (dense a))) (dense a).
Proof. intros W Hsq. apply (laplacian_sparse_wf a W Hsq). Qed.

(** get_membership / from_membership *)
Lemma zmax_ge l labels : In l labels -> (l <= zmax labels)%Z.
Proof.
  induction labels as [|a labels IH]; simpl; [contradiction|]. intros [<-|H]; [lia|]. specialize (IH H). lia.
Qed.
Lemma zmax_lower labels : (-1 <= zmax labels)%Z.
Proof. induction labels as [|a labels IH]; simpl; lia. Qed.
Theorem membership_total labels : labels <> [] -> exists m, get_membership labels None = Ok m.
Proof.
  intros H. unfold get_membership. destruct labels as [|l0 labels]; [contradiction|].
  set (L := l0 :: labels) in *. cbv beta iota.
  assert (E : forallb (fun l => Z.ltb l (Z.of_nat (membership_ncol L None))) L = true).
  { apply forallb_forall. intros l Hl. apply Z.ltb_lt. unfold membership_ncol.
    pose proof (zmax_ge l L Hl). pose proof (zmax_lower L). rewrite Z2Nat.id by lia. lia. }
  rewrite E. eexists; reflexivity.
Qed.
Theorem membership_def labels n_labels m : get_membership labels n_labels = Ok m ->
  s_nrow m = length labels /\ swf m /\
  (forall i j, (i < length labels)%nat -> (j < s_ncol m)%nat ->
     mget (dense m) i j == if Z.eqb (nth i labels 0%Z) (Z.of_nat j) then 1 else 0) /\
  from_membership m = Ok (map (fun l => if Z.ltb l 0 then (-1)%Z else l) labels).
Proof.
  unfold get_membership. destruct (match labels, n_labels with [], None => true | _, _ => false end); [discriminate|].
  set (nc := membership_ncol labels n_labels). clearbody nc.
  destruct (forallb (fun l => Z.ltb l (Z.of_nat nc)) labels) eqn:E; [|discriminate].
  intros H; injection H as <-. rewrite forallb_forall in E.
  split; [unfold s_nrow; simpl; apply map_length|]. split; [|split].
  - unfold swf; simpl. rewrite Forall_forall. intros r Hr. apply in_map_iff in Hr. destruct Hr as [l [<- Hl]].
    destruct (Z.leb 0 l) eqn:El; constructor; [|constructor]. simpl. apply Z.leb_le in El.
    specialize (E l Hl). apply Z.ltb_lt in E. lia.
  - intros i j Hi Hj. rewrite mget_dense by (unfold s_nrow; simpl; rewrite ?map_length; assumption). simpl.
    rewrite (nth_map_gen (fun l => if Z.leb 0 l then [(Z.to_nat l, 1)] else []) labels 0%Z []) by exact Hi.
    destruct (Z.leb 0 (nth i labels 0%Z)) eqn:El.
    + apply Z.leb_le in El. rewrite entry_cons, entry_nil. simpl.
      destruct (Nat.eqb (Z.to_nat (nth i labels 0%Z)) j) eqn:Ej.
      * apply Nat.eqb_eq in Ej. replace (Z.eqb (nth i labels 0%Z) (Z.of_nat j)) with true by (symmetry; apply Z.eqb_eq; lia). ring.
      * apply Nat.eqb_neq in Ej. replace (Z.eqb (nth i labels 0%Z) (Z.of_nat j)) with false by (symmetry; apply Z.eqb_neq; lia). ring.
    + apply Z.leb_gt in El. rewrite entry_nil.
      replace (Z.eqb (nth i labels 0%Z) (Z.of_nat j)) with false by (symmetry; apply Z.eqb_neq; lia). reflexivity.
  - unfold from_membership; simpl.
    assert (F : forallb (fun r : list (nat * Q) => Nat.leb (length r) 1)
                  (map (fun l => if Z.leb 0 l then [(Z.to_nat l, 1)] else []) labels) = true).
    { apply forallb_forall. intros r Hr. apply in_map_iff in Hr. destruct Hr as [l [<- _]]. destruct (Z.leb 0 l); reflexivity. }
    rewrite F. f_equal. rewrite map_map. apply map_ext. intros l.
    destruct (Z.leb 0 l) eqn:El.
    + apply Z.leb_le in El. simpl. replace (Z.ltb l 0) with false by (symmetry; apply Z.ltb_ge; lia). lia.
    + apply Z.leb_gt in El. replace (Z.ltb l 0) with true by (symmetry; apply Z.ltb_lt; lia). reflexivity.
Qed.

(** get_neighbors / get_degrees / get_weights *)
Lemma In_tcol j i0 rows i v :
  In (i, v) (tcol j i0 rows) <-> (i0 <= i)%nat /\ (i < i0 + length rows)%nat /\ In (j, v) (nth (i - i0) rows []).
Proof.
  revert i0; induction rows as [|r rows IH]; intros i0; simpl.
  - split; [contradiction|]. intros (H1 & H2 & _). lia.
  - rewrite in_app_iff, IH, in_map_iff. split.
    + intros [[e [He Hf]] | (H1 & H2 & H3)].
      * injection He as <- <-. apply filter_In in Hf. destruct Hf as [Hf Hj]. apply Nat.eqb_eq in Hj.
        rewrite Nat.sub_diag. split; [lia|]. split; [lia|]. rewrite <- Hj. destruct e; exact Hf.
      * split; [lia|]. split; [lia|]. replace (i - i0)%nat with (S (i - S i0)) by lia. exact H3.
    + intros (H1 & H2 & H3). destruct (Nat.eq_dec i i0) as [->|Hne].
      * left. rewrite Nat.sub_diag in H3. exists (j, v). split; [reflexivity|]. apply filter_In. split; [exact H3|]. apply Nat.eqb_refl.
      * right. split; [lia|]. split; [lia|]. replace (i - i0)%nat with (S (i - S i0)) in H3 by lia. exact H3.
Qed.
Theorem neighbors_def s i : get_neighbors s i false = map fst (nth i (s_rows s) []).
Proof. reflexivity. Qed.
Theorem neighbors_transpose_def s i j : (j < s_ncol s)%nat ->
  (In i (get_neighbors s j true) <-> (i < s_nrow s)%nat /\ In j (get_neighbors s i false)).
Proof.
  intros Hj. unfold get_neighbors, stranspose; simpl. rewrite nth_seq_map by exact Hj. rewrite !in_map_iff. split.
  - intros [[i' v] [Hi H]]. simpl in Hi. subst i'. apply In_tcol in H. destruct H as (_ & H2 & H3).
    rewrite Nat.sub_0_r in H3. split; [exact H2|]. exists (j, v). split; [reflexivity | exact H3].
  - intros (Hi & [[j' v] [Hjv H]]). simpl in Hjv. subst j'. exists (i, v). split; [reflexivity|].
    apply In_tcol. rewrite Nat.sub_0_r. split; [lia|]. split; [exact Hi | exact H].
Qed.
Theorem degrees_def s : get_degrees s false = map (@length (nat * Q)) (s_rows s).
Proof. reflexivity. Qed.
Lemma tcol_length j i0 rows : length (tcol j i0 rows) = sumn (map (fun r => length (filter (fun e => Nat.eqb (fst e) j) r)) rows).
Proof. revert i0; induction rows as [|r rows IH]; intros i0; simpl; [reflexivity|]. rewrite app_length, map_length, IH. reflexivity. Qed.
Theorem degrees_transpose_def s j : (j < s_ncol s)%nat ->
  nth j (get_degrees s true) 0%nat = sumn (map (fun r => length (filter (fun e => Nat.eqb (fst e) j) r)) (s_rows s)).
Proof.
  intros Hj. unfold get_degrees, stranspose; simpl. rewrite map_map. rewrite nth_seq_map by exact Hj. apply tcol_length.
Qed.
Theorem weights_def s : swf s ->
  get_weights s false =v row_sums (dense s) /\ get_weights s true =v col_sums (s_ncol s) (dense s).
Proof.
  intros W. unfold get_weights. split.
  - rewrite smv_dense by (auto; vlen). apply (mat_vec_vones _ _ _ (dense_wf s)).
  - rewrite smv_dense by (auto using swf_stranspose; vlen). rewrite dense_stranspose, stranspose_ncol.
    rewrite <- (dense_length s). apply mat_vec_transpose_vones.
Qed.

(** directed2undirected *)
Lemma entry_flat_seq (b : nat -> bool) (v : nat -> Q) a n j0 :
  entry (flat_map (fun j => if b j then [(j, v j)] else []) (seq a n)) j0
  == if (Nat.leb a j0 && Nat.ltb j0 (a + n) && b j0)%bool then v j0 else 0.
Proof.
  revert a; induction n as [|n IH]; intros a; simpl.
  - rewrite entry_nil. replace (Nat.ltb j0 (a + 0)) with (Nat.ltb j0 a) by (f_equal; lia).
    destruct (Nat.leb a j0) eqn:E1, (Nat.ltb j0 a) eqn:E2; simpl; try reflexivity.
    apply Nat.leb_le in E1. apply Nat.ltb_lt in E2. lia.
  - rewrite entry_app, IH. destruct (Nat.eq_dec a j0) as [->|Hne].
    + replace (Nat.leb (S j0) j0) with false by (symmetry; apply Nat.leb_gt; lia).
      replace (Nat.leb j0 j0) with true by (symmetry; apply Nat.leb_le; lia).
      replace (Nat.ltb j0 (j0 + S n)) with true by (symmetry; apply Nat.ltb_lt; lia). simpl.
      destruct (b j0); [rewrite entry_cons, entry_nil; simpl; rewrite Nat.eqb_refl; ring | rewrite entry_nil; ring].
    + assert (E0 : entry (if b a then [(a, v a)] else []) j0 == 0).
      { destruct (b a); [|reflexivity]. rewrite entry_cons, entry_nil. simpl.
        replace (Nat.eqb a j0) with false by (symmetry; apply Nat.eqb_neq; exact Hne). ring. }
      rewrite E0. replace (Nat.ltb j0 (a + S n)) with (Nat.ltb j0 (S a + n)) by (f_equal; lia).
      destruct (Nat.leb (S a) j0) eqn:E1.
      * apply Nat.leb_le in E1. replace (Nat.leb a j0) with true by (symmetry; apply Nat.leb_le; lia). ring.
      * apply Nat.leb_gt in E1. replace (Nat.leb a j0) with false by (symmetry; apply Nat.leb_gt; lia). simpl. ring.
Qed.
Lemma sbool_wf s : swf (sbool s).
Proof.
  unfold swf, sbool; simpl. rewrite Forall_forall. intros r Hr. apply in_map_iff in Hr. destruct Hr as [row [<- _]].
  unfold srow_wf. rewrite Forall_forall. intros e He. apply in_flat_map in He. destruct He as [j [Hj He]].
  apply in_seq in Hj. destruct (Qeq_bool (entry row j) 0); [contradiction|]. destruct He as [<-|[]]. simpl. lia.
Qed.
Lemma mget_sbool s i j : (i < s_nrow s)%nat -> (j < s_ncol s)%nat ->
  mget (dense (sbool s)) i j == if Qeq_bool (mget (dense s) i j) 0 then 0 else 1.
Proof.
  intros Hi Hj. rewrite mget_dense by (unfold s_nrow, sbool in *; simpl; rewrite ?map_length; assumption).
  rewrite (mget_dense s) by assumption. unfold sbool; simpl.
  rewrite (nth_map_gen _ (s_rows s) [] []) by exact Hi.
  set (row := nth i (s_rows s) []).
  assert (E : forall l, flat_map (fun j0 => if Qeq_bool (entry row j0) 0 then [] else [(j0, 1)]) l
                      = flat_map (fun j0 => if negb (Qeq_bool (entry row j0) 0) then [(j0, (fun _ => 1) j0)] else []) l).
  { intros l. apply flat_map_ext. intros a. destruct (Qeq_bool (entry row a) 0); reflexivity. }
  rewrite E, entry_flat_seq. simpl.
  replace (Nat.ltb j (s_ncol s)) with true by (symmetry; apply Nat.ltb_lt; exact Hj). simpl.
  destruct (Qeq_bool (entry row j) 0); reflexivity.
Qed.
Theorem directed2undirected_def a : swf a -> s_nrow a = s_ncol a ->
  dense (directed2undirected a true) =m madd (dense a) (transpose_n (s_ncol a) (dense a)) /\
  (forall i j, (i < s_nrow a)%nat -> (j < s_nrow a)%nat ->
     mget (dense (directed2undirected a false)) i j
     == if Qeq_bool (mget (dense a) i j + mget (dense a) j i) 0 then 0 else 1).
Proof.
  intros W Hsq.
  assert (E : dense (sadd a (stranspose a)) =m madd (dense a) (transpose_n (s_ncol a) (dense a))).
  { rewrite dense_sadd by (rewrite stranspose_ncol; lia). rewrite dense_stranspose. reflexivity. }
  split; [exact E|]. intros i j Hi Hj. change (directed2undirected a false) with (sbool (sadd a (stranspose a))).
  assert (HB : mget (dense (sbool (sadd a (stranspose a)))) i j
               == if Qeq_bool (mget (dense (sadd a (stranspose a))) i j) 0 then 0 else 1).
  { apply mget_sbool; [rewrite sadd_nrow by (rewrite stranspose_nrow; lia); lia | rewrite sadd_ncol; lia]. }
  rewrite HB.
  assert (E2 : mget (dense (sadd a (stranspose a))) i j == mget (dense a) i j + mget (dense a) j i).
  { rewrite E. pose proof (dense_wf a) as WA. rewrite <- Hsq in WA.
    rewrite (mget_madd (s_nrow a) (s_nrow a)) by (auto; rewrite <- Hsq; apply transpose_n_wf; apply dense_length).
    rewrite mget_transpose_n by (rewrite ?dense_length; lia). reflexivity. }
  destruct (Qeq_bool (mget (dense (sadd a (stranspose a))) i j) 0) eqn:B1,
           (Qeq_bool (mget (dense a) i j + mget (dense a) j i) 0) eqn:B2; try reflexivity.
  - apply Qeq_bool_iff in B1. apply Qeq_bool_neq in B2. exfalso. apply B2. rewrite <- E2. exact B1.
  - apply Qeq_bool_iff in B2. apply Qeq_bool_neq in B1. exfalso. apply B1. rewrite E2. exact B2.
Qed.
(** bipartite2undirected / bipartite2directed: the block matrices of the documentation *)
Lemma entry_sshift k row j : entry (sshift k row) j == if Nat.leb k j then entry row (j - k) else 0.
Proof.
  induction row as [|e row IH]; simpl.
  - rewrite !entry_nil. destruct (Nat.leb k j); reflexivity.
  - change (sshift k (e :: row)) with (((fst e + k)%nat, snd e) :: sshift k row) in *.
    rewrite entry_cons, IH. simpl fst. simpl snd. destruct (Nat.leb k j) eqn:E.
    + apply Nat.leb_le in E. rewrite entry_cons.
      destruct (Nat.eqb (fst e + k) j) eqn:E1, (Nat.eqb (fst e) (j - k)) eqn:E2; try reflexivity;
        [apply Nat.eqb_eq in E1; apply Nat.eqb_neq in E2; lia | apply Nat.eqb_neq in E1; apply Nat.eqb_eq in E2; lia].
    + apply Nat.leb_gt in E. replace (Nat.eqb (fst e + k) j) with false by (symmetry; apply Nat.eqb_neq; lia). ring.
Qed.
Lemma nth_mzero r c i : (i < r)%nat -> nth i (mzero r c) [] = vzero c.
Proof. unfold mzero. revert i; induction r as [|r IH]; intros [|i] Hi; simpl; try lia; auto. apply IH; lia. Qed.

Lemma bip_dense b bottom D :
  swf b -> length bottom = s_ncol b -> Forall (srow_wf (s_nrow b)) bottom -> wf_mat (s_ncol b) (s_nrow b) D ->
  (forall i j, (i < s_ncol b)%nat -> (j < s_nrow b)%nat -> entry (nth i bottom []) j == mget D i j) ->
  dense {| s_ncol := (s_nrow b + s_ncol b)%nat; s_rows := map (sshift (s_nrow b)) (s_rows b) ++ bottom |}
  =m block (mzero (s_nrow b) (s_nrow b)) (dense b) D (mzero (s_ncol b) (s_ncol b)).
Proof.
  intros W Hb Wb WD HD. set (r := s_nrow b) in *. set (c := s_ncol b) in *.
  set (S := {| s_ncol := (r + c)%nat; s_rows := map (sshift r) (s_rows b) ++ bottom |}).
  assert (HSr : s_nrow S = (r + c)%nat) by (unfold s_nrow, S; simpl; rewrite app_length, map_length; fold (s_nrow b); lia).
  pose proof (dense_wf S) as WS. rewrite HSr in WS. simpl s_ncol in WS.
  pose proof (dense_wf b) as WB. fold r c in WB.
  pose proof (mzero_wf r r) as WZ1. pose proof (mzero_wf c c) as WZ2.
  apply (meq_mget (r + c) (r + c)); [exact WS | apply block_wf; assumption|].
  intros i j Hi Hj. rewrite mget_dense by (rewrite ?HSr; simpl; assumption). simpl s_rows.
  destruct (Nat.lt_ge_cases i r) as [Hir|Hir].
  - rewrite app_nth1 by (rewrite map_length; exact Hir).
    rewrite (nth_map_gen (sshift r) (s_rows b) [] []) by exact Hir. rewrite entry_sshift.
    destruct (Nat.leb r j) eqn:E.
    + apply Nat.leb_le in E. replace j with (r + (j - r))%nat at 2 by lia.
      rewrite (mget_block_12 _ _ _ _ i (j - r) r)
        by (rewrite ?(wf_mat_length _ _ _ WZ1), ?(wf_mat_length _ _ _ WB), ?(wf_mat_row _ _ _ _ WZ1 Hir); lia).
      rewrite mget_dense by (fold r c; lia). reflexivity.
    + apply Nat.leb_gt in E.
      rewrite mget_block_11 by (rewrite ?(wf_mat_length _ _ _ WZ1), ?(wf_mat_length _ _ _ WB), ?(wf_mat_row _ _ _ _ WZ1 Hir); lia).
      rewrite mget_mzero. reflexivity.
  - rewrite app_nth2 by (rewrite map_length; exact Hir). rewrite map_length. fold (s_nrow b). fold r.
    assert (Hi' : (i - r < c)%nat) by lia.
    replace i with (r + (i - r))%nat at 2 by lia.
    destruct (Nat.lt_ge_cases j r) as [Hjr|Hjr].
    + rewrite (mget_block_21 _ _ _ _ (i - r) j r)
        by (rewrite ?(wf_mat_length _ _ _ WZ1), ?(wf_mat_length _ _ _ WB), ?(wf_mat_length _ _ _ WD), ?(wf_mat_length _ _ _ WZ2),
                    ?(wf_mat_row _ _ _ _ WD Hi'); lia).
      apply HD; assumption.
    + replace j with (r + (j - r))%nat at 2 by lia.
      rewrite (mget_block_22 _ _ _ _ (i - r) (j - r) r r)
        by (rewrite ?(wf_mat_length _ _ _ WZ1), ?(wf_mat_length _ _ _ WB), ?(wf_mat_length _ _ _ WD), ?(wf_mat_length _ _ _ WZ2),
                    ?(wf_mat_row _ _ _ _ WD Hi'); lia).
      rewrite mget_mzero. apply (entry_out r); [|exact Hjr].
      destruct (Nat.lt_ge_cases (i - r) (length bottom)) as [L|L].
      * rewrite Forall_forall in Wb. apply Wb. apply nth_In; exact L.
      * rewrite nth_overflow by exact L. constructor.
Qed.

Theorem bipartite_block_def b : swf b ->
  dense (bipartite2undirected b)
  =m block (mzero (s_nrow b) (s_nrow b)) (dense b) (transpose_n (s_ncol b) (dense b)) (mzero (s_ncol b) (s_ncol b)) /\
  dense (bipartite2directed b)
  =m block (mzero (s_nrow b) (s_nrow b)) (dense b) (mzero (s_ncol b) (s_nrow b)) (mzero (s_ncol b) (s_ncol b)).
Proof.
  intros W. split.
  - unfold bipartite2undirected. apply bip_dense; auto.
    + fold (s_nrow (stranspose b)). apply stranspose_nrow.
    + pose proof (swf_stranspose b) as Wt. unfold swf in Wt. rewrite stranspose_ncol in Wt. exact Wt.
    + apply transpose_n_wf. apply dense_length.
    + intros i j Hi Hj. rewrite <- mget_dense by (rewrite ?stranspose_nrow, ?stranspose_ncol; assumption).
      rewrite dense_stranspose. reflexivity.
  - unfold bipartite2directed. apply bip_dense; auto.
    + apply repeat_length.
    + rewrite Forall_forall. intros r Hr. apply repeat_spec in Hr. subst r. constructor.
    + apply mzero_wf.
    + intros i j Hi Hj. rewrite mget_mzero.
      assert (E : nth i (repeat (@nil (nat * Q)) (s_ncol b)) [] = []).
      { clear. revert i; induction (s_ncol b) as [|n IH]; intros [|i]; simpl; auto. }
      rewrite E. reflexivity.
Qed.

(** get_tfidf = tf . diag(idf) *)
Lemma col_diag d j : (j < length d)%nat -> col j (diag d) =v vscale (nthq d j) (unit (length d) j).
Proof.
  intros Hj. pose proof (diag_wf d) as WD.
  apply veq_nth; [rewrite col_length, vscale_length, unit_length; apply (wf_mat_length _ _ _ WD)|].
  intros i Hi. rewrite col_length, (wf_mat_length _ _ _ WD) in Hi.
  rewrite nthq_col by (rewrite (wf_mat_length _ _ _ WD); exact Hi). rewrite mget_diag by assumption.
  rewrite nthq_vscale by (rewrite unit_length; exact Hi). rewrite nthq_unit by exact Hi. rewrite (Nat.eqb_sym j i).
  destruct (Nat.eqb i j) eqn:E; [apply Nat.eqb_eq in E; subst; ring | ring].
Qed.
Lemma mat_mul_diag_r r M d : wf_mat r (length d) M -> mat_mul (length d) M (diag d) =m col_scale M d.
Proof.
  intros WM. pose proof (diag_wf d) as WD.
  apply (meq_mget r (length d)); [eapply mat_mul_wf; eauto | apply col_scale_wf; auto|].
  intros i j Hi Hj. rewrite (mget_mat_mul r (length d) (length d)) by assumption.
  rewrite col_diag by exact Hj. rewrite dot_vscale_r, dot_comm, dot_unit_l by (auto; apply (wf_mat_row _ _ _ _ WM Hi)).
  rewrite (mget_col_scale r (length d)) by auto. unfold mget. ring.
Qed.
Lemma tfidf_idf_length lnf c : length (tfidf_idf lnf c) = s_ncol c.
Proof. unfold tfidf_idf, get_degrees. rewrite !map_length. fold (s_nrow (stranspose (spos c))). rewrite stranspose_nrow. reflexivity. Qed.
Theorem tfidf_def lnf c : swf c ->
  dense (get_tfidf lnf c) =m col_scale (dense (snormalize c)) (tfidf_idf lnf c) /\
  (forall j, (j < s_ncol c)%nat ->
     nthq (tfidf_idf lnf c) j =
     let f := nth j (get_degrees (spos c) true) 0%nat in if Nat.ltb 0 f then lnf (qnat (s_nrow c) / qnat f) else 0).
Proof.
  intros W. pose proof (tfidf_idf_length lnf c) as HL. split.
  - unfold get_tfidf. assert (Wn : swf (snormalize c)) by (apply swf_smul; exact W).
    rewrite dense_smul by (auto; rewrite sdiag_nrow, HL; reflexivity).
    rewrite dense_sdiag, sdiag_ncol. apply (mat_mul_diag_r (s_nrow (snormalize c))).
    pose proof (dense_wf (snormalize c)) as WD. rewrite HL. exact WD.
  - intros j Hj. unfold tfidf_idf.
    rewrite (nthq_map_gen _ (get_degrees (spos c) true) 0%nat); [reflexivity|].
    unfold get_degrees. rewrite map_length. fold (s_nrow (stranspose (spos c))). rewrite stranspose_nrow. simpl. exact Hj.
Qed.

(** top_k *)
Lemma map_nth_seq {A} (l : list A) d : map (fun i => nth i l d) (seq 0 (length l)) = l.
Proof.
  induction l as [|a l IH]; [reflexivity|]. simpl length. rewrite <- cons_seq. simpl. f_equal.
  rewrite <- seq_shift, map_map. exact IH.
Qed.
Lemma perm_map_nth {A} (l : list A) d q : Permutation q (seq 0 (length l)) -> Permutation (map (fun i => nth i l d) q) l.
Proof. intros H. eapply Permutation_trans; [apply Permutation_map; exact H | rewrite map_nth_seq; apply Permutation_refl]. Qed.

Lemma NoDup_app_l {A} (l l' : list A) : NoDup (l ++ l') -> NoDup l.
Proof.
  induction l as [|a l IH]; simpl; intros H; [constructor|]. inversion H as [|x xs Hx Hxs]; subst.
  constructor; [intros I; apply Hx; apply in_or_app; left; exact I | apply IH; exact Hxs].
Qed.

Lemma nthq_neg scores i : (i < length scores)%nat -> nthq (map Qopp scores) i = - nthq scores i.
Proof. apply nthq_map. Qed.

(** contracts of np.argsort and np.argpartition are premises (checked at run time on every captured answer) *)
Theorem top_k_def (argsort : list Q -> list nat) (argpartition : list Q -> nat -> list nat) scores k sort idx :
    (forall l, Permutation (argsort l) (seq 0 (length l))) ->
    (forall l a b, (a <= b)%nat -> (b < length l)%nat ->
       nthq l (nth a (argsort l) 0%nat) <= nthq l (nth b (argsort l) 0%nat)) ->
    (forall l k, (k < length l)%nat -> Permutation (argpartition l k) (seq 0 (length l))) ->
    (forall l k a b, (k < length l)%nat -> (a < k)%nat -> (k <= b)%nat -> (b < length l)%nat ->
       nthq l (nth a (argpartition l k) 0%nat) <= nthq l (nth b (argpartition l k) 0%nat)) ->
    top_k argsort argpartition scores k sort = Ok idx ->
    length idx = Nat.min k (length scores) /\ NoDup idx /\ (forall i, In i idx -> (i < length scores)%nat) /\
    (forall i j, In i idx -> (j < length scores)%nat -> ~ In j idx -> nthq scores j <= nthq scores i) /\
    (sort = true -> forall a b, (a <= b)%nat -> (b < length idx)%nat ->
                    nthq scores (nth b idx 0%nat) <= nthq scores (nth a idx 0%nat)).
  Proof.
    intros argsort_perm argsort_sorted argpartition_perm argpartition_split.
    unfold top_k. set (n := length scores). set (neg := map Qopp scores).
    assert (Hneg : length neg = n) by (unfold neg; apply map_length).
    destruct (Nat.leb n k) eqn:Ek.
    - apply Nat.leb_le in Ek. destruct sort.
      2:{ intros H; injection H as <-. split; [rewrite seq_length; lia|]. split; [apply seq_NoDup|].
          split; [intros i Hi; apply in_seq in Hi; lia|]. split; [|discriminate].
          intros i j _ Hj Hnj. exfalso. apply Hnj. apply in_seq. lia. }
      intros H; injection H as <-.
      pose proof (argsort_perm neg) as P. rewrite Hneg in P.
      assert (HL : length (argsort neg) = n) by (rewrite (Permutation_length P); apply seq_length).
      split; [rewrite HL; lia|]. split; [apply (Permutation_NoDup (Permutation_sym P)), seq_NoDup|].
      split; [intros i Hi; apply (Permutation_in _ P), in_seq in Hi; lia|].
      split.
      + intros i j _ Hj Hnj. exfalso. apply Hnj. apply (Permutation_in _ (Permutation_sym P)). apply in_seq. lia.
      + intros _ a b Hab Hb. rewrite HL in Hb. pose proof (argsort_sorted neg a b Hab ltac:(lia)) as S.
        assert (Ha' : (nth a (argsort neg) 0 < n)%nat).
        { assert (In (nth a (argsort neg) 0%nat) (argsort neg)) as I by (apply nth_In; lia).
          apply (Permutation_in _ P), in_seq in I. lia. }
        assert (Hb' : (nth b (argsort neg) 0 < n)%nat).
        { assert (In (nth b (argsort neg) 0%nat) (argsort neg)) as I by (apply nth_In; lia).
          apply (Permutation_in _ P), in_seq in I. lia. }
        unfold neg in S. rewrite !nthq_neg in S by assumption. apply Qopp_le_compat in S. rewrite !Qopp_involutive in S. exact S.
    - apply Nat.leb_gt in Ek. set (p := argpartition neg k). set (index := firstn k p).
      pose proof (argpartition_perm neg k ltac:(lia)) as P. fold p in P. rewrite Hneg in P.
      assert (HLp : length p = n) by (rewrite (Permutation_length P); apply seq_length).
      assert (HLi : length index = k) by (unfold index; rewrite firstn_length; lia).
      assert (NDp : NoDup p) by (apply (Permutation_NoDup (Permutation_sym P)), seq_NoDup).
      assert (NDi : NoDup index).
      { unfold index. rewrite <- (firstn_skipn k p) in NDp. apply NoDup_app_l in NDp. exact NDp. }
      assert (Hin : forall i, In i p -> (i < n)%nat) by (intros i Hi; apply (Permutation_in _ P), in_seq in Hi; lia).
      assert (Hidx : forall i, In i index -> (i < n)%nat).
      { intros i Hi. apply Hin. unfold index in Hi. rewrite <- (firstn_skipn k p). apply in_or_app. left; exact Hi. }
      assert (Hbest : forall i j, In i index -> (j < n)%nat -> ~ In j index -> nthq scores j <= nthq scores i).
      { intros i j Hi Hj Hnj.
        destruct (In_nth _ _ 0%nat Hi) as (a & Ha & Ea). rewrite HLi in Ha.
        assert (Ea' : nth a p 0%nat = i).
        { rewrite <- Ea. unfold index. rewrite <- (firstn_skipn k p) at 1. rewrite app_nth1 by (rewrite firstn_length; lia). reflexivity. }
        assert (Hjp : In j (skipn k p)).
        { assert (In j p) as I by (apply (Permutation_in _ (Permutation_sym P)), in_seq; lia).
          rewrite <- (firstn_skipn k p) in I. apply in_app_or in I. destruct I as [I|I]; [contradiction | exact I]. }
        destruct (In_nth _ _ 0%nat Hjp) as (b' & Hb' & Eb). rewrite skipn_length in Hb'.
        assert (Eb' : nth (k + b') p 0%nat = j).
        { rewrite <- Eb. rewrite <- (firstn_skipn k p) at 1. rewrite app_nth2 by (rewrite firstn_length; lia).
          rewrite firstn_length. f_equal. lia. }
        pose proof (argpartition_split neg k a (k + b')%nat ltac:(lia) Ha ltac:(lia) ltac:(lia)) as S. fold p in S.
        rewrite Ea', Eb' in S. unfold neg in S. rewrite !nthq_neg in S by (auto; apply Hidx; exact Hi).
        apply Qopp_le_compat in S. rewrite !Qopp_involutive in S. exact S. }
      destruct sort.
      + intros H; injection H as <-.
        set (sub := map (fun i => nthq neg i) index). assert (Hsub : length sub = k) by (unfold sub; rewrite map_length; exact HLi).
        pose proof (argsort_perm sub) as PS. rewrite Hsub, <- HLi in PS.
        pose proof (perm_map_nth index 0%nat _ PS) as PI.
        set (out := map (fun p0 => nth p0 index 0%nat) (argsort sub)) in *.
        assert (HLo : length out = k) by (rewrite (Permutation_length PI); exact HLi).
        split; [rewrite HLo; lia|]. split; [apply (Permutation_NoDup (Permutation_sym PI)); exact NDi|].
        split; [intros i Hi; apply Hidx; apply (Permutation_in _ PI); exact Hi|].
        split.
        * intros i j Hi Hj Hnj. apply Hbest; auto; [apply (Permutation_in _ PI); exact Hi|].
          intros Hj'. apply Hnj. apply (Permutation_in _ (Permutation_sym PI)); exact Hj'.
        * intros _ a b Hab Hb. rewrite HLo in Hb.
          assert (HLas : length (argsort sub) = k) by (rewrite (Permutation_length PS), seq_length; exact HLi).
          pose proof (argsort_sorted sub a b Hab ltac:(lia)) as S.
          assert (Hqa : (nth a (argsort sub) 0 < k)%nat).
          { assert (In (nth a (argsort sub) 0%nat) (argsort sub)) as I by (apply nth_In; lia).
            apply (Permutation_in _ PS), in_seq in I. lia. }
          assert (Hqb : (nth b (argsort sub) 0 < k)%nat).
          { assert (In (nth b (argsort sub) 0%nat) (argsort sub)) as I by (apply nth_In; lia).
            apply (Permutation_in _ PS), in_seq in I. lia. }
          unfold out. rewrite !(nth_map_gen (fun p0 => nth p0 index 0%nat) (argsort sub) 0%nat 0%nat) by lia.
          subst sub. unfold neg in *. rewrite !(nthq_map_gen (fun i => nthq (map Qopp scores) i) index 0%nat) in S by lia.
          rewrite !nthq_neg in S by (apply Hidx, nth_In; lia).
          apply Qopp_le_compat in S. rewrite !Qopp_involutive in S. exact S.
      + intros H; injection H as <-. split; [rewrite HLi; lia|]. split; [exact NDi|]. split; [exact Hidx|].
        split; [exact Hbest | discriminate].
  Qed.

(** it always returns (commit 5ac8181a) *)
Theorem top_k_returns argsort argpartition scores k sort : exists idx, top_k argsort argpartition scores k sort = Ok idx.
Proof. unfold top_k. destruct (Nat.leb (length scores) k), sort; eexists; reflexivity. Qed.

(** legacy (before 5ac8181a): sort=False with k >= len(scores) raised (np.arange(scores)) whatever the oracles answer *)
Theorem legacy_top_k_unsorted_refuted :
  exists scores k, (length scores <= k)%nat /\ forall argsort argpartition, legacy_top_k argsort argpartition scores k false = Err.
Proof. exists [1; 3; 2], 3%nat. split; [simpl; lia | reflexivity]. Qed.

(** C15 — proofs: every operator, algebraic operation and utility of Model/Operators.v denotes its
    dense definition (Base/QMat.v); refutations of the three defective sites. *)
From SKN Require Import Base.Util Base.QMat Model.Operators.
From Coq Require Import QArith Qabs Lqa Psatz Setoid Morphisms Permutation Sorted.
Local Open Scope Q_scope.

(* ------------------------------------------------------------------------------------------- *)
(** * small tools *)
Global Hint Rewrite vadd_length vsub_length vmul_length vscale_length vneg_length vzero_length vones_length
  vconst_length mat_vec_length unit_length row_sums_length col_sums_length col_length
  map_length seq_length app_length repeat_length @map2_length : vlen.
Ltac vlen := autorewrite with vlen in *; unfold s_nrow in *; autorewrite with vlen in *; try lia.

Lemma Qlt_b_true a b : Qlt_b a b = true <-> a < b.
Proof.
  unfold Qlt_b. rewrite negb_true_iff. split; intros H.
  - apply Qnot_le_lt. intros L. apply Qle_bool_iff in L. congruence.
  - destruct (Qle_bool b a) eqn:E; [|reflexivity]. apply Qle_bool_iff in E. exfalso. apply (Qlt_not_le _ _ H E).
Qed.
Lemma Qlt_b_false a b : Qlt_b a b = false <-> b <= a.
Proof.
  unfold Qlt_b. rewrite negb_false_iff. apply Qle_bool_iff.
Qed.

Lemma qnat_nonzero n : (0 < n)%nat -> ~ qnat n == 0.
Proof.
  intros H E. unfold qnat, Qeq in E. simpl in E. lia.
Qed.
Lemma qnat_pos n : (0 < n)%nat -> 0 < qnat n.
Proof. intros H. unfold qnat, Qlt. simpl. lia. Qed.

Global Instance pinv_proper : Proper (Qeq ==> Qeq) pinv.
Proof.
  intros a b E. unfold pinv. destruct (Qeq_bool a 0) eqn:Ea, (Qeq_bool b 0) eqn:Eb; try reflexivity.
  - apply Qeq_bool_iff in Ea. apply Qeq_bool_neq in Eb. exfalso. apply Eb. rewrite <- E. exact Ea.
  - apply Qeq_bool_iff in Eb. apply Qeq_bool_neq in Ea. exfalso. apply Ea. rewrite E. exact Eb.
  - rewrite E. reflexivity.
Qed.
Lemma pinv_0 q : q == 0 -> pinv q == 0.
Proof. intros E. rewrite E. reflexivity. Qed.
Lemma pinv_inv q : ~ q == 0 -> pinv q * q == 1.
Proof.
  intros H. unfold pinv. destruct (Qeq_bool q 0) eqn:E.
  - apply Qeq_bool_iff in E. contradiction.
  - rewrite Qmult_comm. apply Qmult_inv_r. exact H.
Qed.
Lemma pinv_Qinv q : pinv q == / q.
Proof.
  unfold pinv. destruct (Qeq_bool q 0) eqn:E; [|reflexivity].
  apply Qeq_bool_iff in E. rewrite E. reflexivity.
Qed.

Lemma map_pinv_proper u v : u =v v -> map pinv u =v map pinv v.
Proof. intros H. apply map_veq; [|exact H]. intros a b E. rewrite E. reflexivity. Qed.

Lemma sumq_map_scale {A} (f : A -> Q) c l : sumq (map (fun a => c * f a) l) == c * sumq (map f l).
Proof. induction l as [|a l IH]; simpl; [ring|]. rewrite IH. ring. Qed.
Lemma sumq_map_opp {A} (f : A -> Q) l : sumq (map (fun a => - f a) l) == - sumq (map f l).
Proof. induction l as [|a l IH]; simpl; [ring|]. rewrite IH. ring. Qed.
Lemma sumq_map_ext {A} (f g : A -> Q) l : (forall a, In a l -> f a == g a) -> sumq (map f l) == sumq (map g l).
Proof. intros H. apply sumq_proper. apply map_ext_veq. exact H. Qed.
Lemma sumq_zero l : (forall q, In q l -> q == 0) -> sumq l == 0.
Proof.
  induction l as [|a l IH]; intros H; simpl; [reflexivity|]. rewrite (H a) by (left; reflexivity).
  rewrite IH; [ring|]. intros q Hq. apply H. right; exact Hq.
Qed.

(* ------------------------------------------------------------------------------------------- *)
(** * Sparse matrices and their denotation *)
Lemma entry_nil j : entry [] j = 0. Proof. reflexivity. Qed.
Lemma entry_cons e row j : entry (e :: row) j == (if Nat.eqb (fst e) j then snd e else 0) + entry row j.
Proof. unfold entry. simpl. destruct (Nat.eqb (fst e) j); simpl; ring. Qed.
Lemma entry_app r1 r2 j : entry (r1 ++ r2) j == entry r1 j + entry r2 j.
Proof. unfold entry. rewrite filter_app, map_app, sumq_app. reflexivity. Qed.
Lemma entry_scale c row j : entry (map (fun e => (fst e, c * snd e)) row) j == c * entry row j.
Proof.
  induction row as [|e row IH]; [unfold entry; simpl; ring|].
  change (map (fun e0 => (fst e0, c * snd e0)) (e :: row)) with ((fst e, c * snd e) :: map (fun e0 => (fst e0, c * snd e0)) row).
  rewrite !entry_cons, IH. simpl. destruct (Nat.eqb (fst e) j); ring.
Qed.
Lemma entry_opp row j : entry (map (fun e => (fst e, - snd e)) row) j == - entry row j.
Proof.
  induction row as [|e row IH]; [unfold entry; simpl; ring|].
  change (map (fun e0 => (fst e0, - snd e0)) (e :: row)) with ((fst e, - snd e) :: map (fun e0 => (fst e0, - snd e0)) row).
  rewrite !entry_cons, IH. simpl. destruct (Nat.eqb (fst e) j); ring.
Qed.
Lemma entry_out n row j : srow_wf n row -> (n <= j)%nat -> entry row j == 0.
Proof.
  intros W Hj. induction W as [|e row He W IH]; [reflexivity|].
  rewrite entry_cons, IH. destruct (Nat.eqb (fst e) j) eqn:E; [|ring]. apply Nat.eqb_eq in E. lia.
Qed.

Lemma dense_row_length n row : length (dense_row n row) = n.
Proof. unfold dense_row. vlen. Qed.
Global Hint Rewrite dense_row_length : vlen.
Lemma nthq_dense_row n row j : (j < n)%nat -> nthq (dense_row n row) j = entry row j.
Proof. intros H. unfold dense_row. apply nthq_seq_map; exact H. Qed.
Lemma dense_length s : length (dense s) = s_nrow s.
Proof. unfold dense. vlen. Qed.
Global Hint Rewrite dense_length : vlen.
Lemma dense_wf s : wf_mat (s_nrow s) (s_ncol s) (dense s).
Proof.
  split; [apply dense_length|]. unfold dense. rewrite Forall_forall. intros r Hr. apply in_map_iff in Hr.
  destruct Hr as [row [<- _]]. apply dense_row_length.
Qed.
Lemma nth_dense s i : (i < s_nrow s)%nat -> nth i (dense s) [] = dense_row (s_ncol s) (nth i (s_rows s) []).
Proof. intros H. unfold dense. apply (nth_map_gen (dense_row (s_ncol s)) (s_rows s) []). exact H. Qed.
Lemma mget_dense s i j : (i < s_nrow s)%nat -> (j < s_ncol s)%nat -> mget (dense s) i j = entry (nth i (s_rows s) []) j.
Proof. intros Hi Hj. unfold mget. rewrite nth_dense by exact Hi. apply nthq_dense_row; exact Hj. Qed.

Lemma swf_row s i : swf s -> srow_wf (s_ncol s) (nth i (s_rows s) []).
Proof.
  intros W. destruct (Nat.lt_ge_cases i (s_nrow s)) as [H|H].
  - unfold swf in W. rewrite Forall_forall in W. apply W. apply nth_In. exact H.
  - rewrite nth_overflow by exact H. constructor.
Qed.

Lemma dense_row_cons n e row :
  dense_row n (e :: row) =v vadd (vscale (snd e) (unit n (fst e))) (dense_row n row).
Proof.
  apply veq_nth; [vlen|]. intros j Hj. rewrite dense_row_length in Hj.
  rewrite nthq_vadd by vlen. rewrite nthq_vscale by vlen. rewrite nthq_unit by exact Hj.
  rewrite !nthq_dense_row by exact Hj. rewrite entry_cons. destruct (Nat.eqb (fst e) j); ring.
Qed.
Lemma dense_row_nil n : dense_row n [] =v vzero n.
Proof.
  apply veq_nth; [vlen|]. intros j Hj. rewrite dense_row_length in Hj.
  rewrite nthq_dense_row by exact Hj. rewrite nthq_vzero. reflexivity.
Qed.

Lemma srow_dot_dense n row x : srow_wf n row -> length x = n -> srow_dot row x == dot (dense_row n row) x.
Proof.
  intros W Hx. induction W as [|e row He W IH].
  - rewrite dense_row_nil, dot_vzero_l. reflexivity.
  - rewrite dense_row_cons. rewrite dot_vadd_l by vlen. rewrite dot_vscale_l, dot_unit_l by (auto; lia).
    rewrite <- IH. unfold srow_dot. simpl. ring.
Qed.
Lemma smv_length s x : length (smv s x) = s_nrow s.
Proof. unfold smv. vlen. Qed.
Global Hint Rewrite smv_length : vlen.
Theorem smv_dense s x : swf s -> length x = s_ncol s -> smv s x =v mat_vec (dense s) x.
Proof.
  intros W Hx. unfold smv, dense, mat_vec. rewrite map_map. unfold swf in W.
  induction W as [|row rows Hr W IH]; simpl; constructor; auto. apply srow_dot_dense; assumption.
Qed.

Lemma srow_mat_length k row X : length (srow_mat k row X) = k \/ True.
Proof. right; exact I. Qed.
Lemma srow_mat_dense n k row X : srow_wf n row -> wf_mat n k X -> srow_mat k row X =v vec_mat k (dense_row n row) X.
Proof.
  intros W WX. pose proof (wf_mat_rows _ _ _ WX) as FX. induction W as [|e row He W IH].
  - rewrite dense_row_nil, vec_mat_vzero_l by exact FX. reflexivity.
  - rewrite dense_row_cons. rewrite vec_mat_vadd_l by (auto; vlen).
    rewrite vec_mat_vscale_l by exact FX. rewrite (vec_mat_unit n k) by assumption.
    unfold srow_mat in *. simpl. rewrite IH. reflexivity.
Qed.
Theorem smm_dense k s X : swf s -> wf_mat (s_ncol s) k X -> smm k s X =m mat_mul k (dense s) X.
Proof.
  intros W WX. unfold smm, dense, mat_mul. rewrite map_map. unfold swf in W.
  induction W as [|row rows Hr W IH]; simpl; constructor; auto. apply (srow_mat_dense (s_ncol s)); assumption.
Qed.
Lemma smm_wf k s X : swf s -> wf_mat (s_ncol s) k X -> wf_mat (s_nrow s) k (smm k s X).
Proof.
  intros W WX. eapply wf_mat_meq; [symmetry; apply smm_dense; assumption|].
  eapply mat_mul_wf; [apply dense_wf | exact WX].
Qed.

(** elementwise maps that keep the column indices *)
Lemma smap_ncol f s : s_ncol (smap f s) = s_ncol s. Proof. reflexivity. Qed.
Lemma smap_nrow f s : s_nrow (smap f s) = s_nrow s. Proof. unfold s_nrow, smap; simpl. apply map_length. Qed.
Lemma swf_smap f s : swf s -> swf (smap f s).
Proof.
  unfold swf, smap; simpl. intros W. induction W as [|row rows Hr W IH]; simpl; constructor; auto.
  clear IH W. induction Hr as [|e row He Hr IH]; simpl; constructor; auto.
Qed.
Lemma dense_sscale c s : dense (sscale c s) =m mscale c (dense s).
Proof.
  unfold dense, sscale, smap, mscale; simpl. rewrite !map_map. apply map_ext_meq. intros row _.
  apply veq_nth; [vlen|]. intros j Hj. rewrite dense_row_length in Hj.
  rewrite nthq_vscale by vlen. rewrite !nthq_dense_row by exact Hj. apply entry_scale.
Qed.
Lemma dense_sneg s : dense (sneg s) =m mneg (dense s).
Proof.
  unfold dense, sneg, smap, mneg; simpl. rewrite !map_map. apply map_ext_meq. intros row _.
  apply veq_nth; [vlen|]. intros j Hj. rewrite dense_row_length in Hj.
  rewrite nthq_vneg by vlen. rewrite !nthq_dense_row by exact Hj. apply entry_opp.
Qed.

(** sum *)
Lemma sadd_ncol a b : s_ncol (sadd a b) = s_ncol a. Proof. reflexivity. Qed.
Lemma sadd_nrow a b : s_nrow a = s_nrow b -> s_nrow (sadd a b) = s_nrow a.
Proof. unfold s_nrow, sadd; simpl. intros H. rewrite map2_length. lia. Qed.
Lemma swf_sadd a b : swf a -> swf b -> s_ncol a = s_ncol b -> swf (sadd a b).
Proof.
  unfold swf, sadd; simpl. intros Wa Wb E. rewrite <- E in Wb. revert Wb. generalize (s_rows b).
  induction Wa as [|row rows Hr Wa IH]; intros [|row' rows'] Wb; simpl; constructor; inversion Wb; subst.
  - apply Forall_app; split; assumption.
  - apply IH; assumption.
Qed.
Lemma dense_sadd a b : s_ncol a = s_ncol b -> dense (sadd a b) =m madd (dense a) (dense b).
Proof.
  intros E. unfold dense, sadd, madd; simpl. rewrite <- E. generalize (s_rows b).
  induction (s_rows a) as [|row rows IH]; intros [|row' rows']; simpl; constructor; [|apply IH].
  apply veq_nth; [vlen|]. intros j Hj. rewrite dense_row_length in Hj.
  rewrite nthq_vadd by vlen. rewrite !nthq_dense_row by exact Hj. apply entry_app.
Qed.

(** transposition *)
Lemma stranspose_ncol s : s_ncol (stranspose s) = s_nrow s. Proof. reflexivity. Qed.
Lemma stranspose_nrow s : s_nrow (stranspose s) = s_ncol s.
Proof. unfold s_nrow, stranspose; simpl. vlen. Qed.
Lemma tcol_wf j i0 rows : srow_wf (i0 + length rows) (tcol j i0 rows).
Proof.
  revert i0; induction rows as [|r rows IH]; intros i0; simpl; [constructor|].
  apply Forall_app; split.
  - rewrite Forall_forall. intros e He. apply in_map_iff in He. destruct He as [e' [<- _]]. simpl. lia.
  - replace (i0 + S (length rows))%nat with (S i0 + length rows)%nat by lia. apply IH.
Qed.
Lemma swf_stranspose s : swf (stranspose s).
Proof.
  unfold swf, stranspose; simpl. rewrite Forall_forall. intros r Hr. apply in_map_iff in Hr.
  destruct Hr as [j [<- _]]. apply (tcol_wf j 0).
Qed.
Lemma entry_tcol j i0 rows i :
  entry (tcol j i0 rows) i == if (Nat.leb i0 i && Nat.ltb i (i0 + length rows))%bool then entry (nth (i - i0) rows []) j else 0.
Proof.
  revert i0; induction rows as [|r rows IH]; intros i0; simpl.
  - rewrite entry_nil. destruct (Nat.leb i0 i && Nat.ltb i (i0 + 0))%bool; [destruct (i - i0)%nat|]; reflexivity.
  - rewrite entry_app, IH.
    assert (E1 : entry (map (fun e => (i0, snd e)) (filter (fun e => Nat.eqb (fst e) j) r)) i
                 == if Nat.eqb i0 i then entry r j else 0).
    { unfold entry at 1. destruct (Nat.eqb i0 i) eqn:E.
      - rewrite (proj2 (filter_ext_in_iff _ (fun _ => true) _)).
        + assert (forall (l : srow), filter (fun _ => true) l = l) as F by (induction l; simpl; congruence).
          rewrite F, map_map. reflexivity.
        + intros a Ha. apply in_map_iff in Ha. destruct Ha as [e' [<- _]]. simpl. exact E.
      - rewrite (proj2 (filter_ext_in_iff _ (fun _ => false) _)).
        + assert (forall (l : srow), filter (fun _ => false) l = []) as F by (induction l; simpl; congruence).
          rewrite F. reflexivity.
        + intros a Ha. apply in_map_iff in Ha. destruct Ha as [e' [<- _]]. simpl. exact E. }
    rewrite E1. clear E1 IH.
    destruct (Nat.eqb i0 i) eqn:E.
    + apply Nat.eqb_eq in E. subst i0.
      replace (Nat.leb (S i) i) with false by (symmetry; apply Nat.leb_gt; lia).
      replace (Nat.leb i i) with true by (symmetry; apply Nat.leb_le; lia).
      replace (Nat.ltb i (i + S (length rows))) with true by (symmetry; apply Nat.ltb_lt; lia).
      simpl. rewrite Nat.sub_diag. ring.
    + apply Nat.eqb_neq in E.
      destruct (Nat.leb (S i0) i) eqn:E2.
      * apply Nat.leb_le in E2.
        replace (Nat.leb i0 i) with true by (symmetry; apply Nat.leb_le; lia).
        replace (Nat.ltb i (i0 + S (length rows))) with (Nat.ltb i (S i0 + length rows)) by (f_equal; lia).
        simpl. destruct (Nat.ltb i (S (i0 + length rows))) eqn:E3; [|ring].
        replace (i - i0)%nat with (S (i - S i0)) by lia. ring.
      * apply Nat.leb_gt in E2.
        replace (Nat.leb i0 i) with false by (symmetry; apply Nat.leb_gt; lia). simpl. ring.
Qed.
Theorem dense_stranspose s : dense (stranspose s) =m transpose_n (s_ncol s) (dense s).
Proof.
  apply (meq_mget (s_ncol s) (s_nrow s)).
  - pose proof (dense_wf (stranspose s)) as W. rewrite stranspose_nrow, stranspose_ncol in W. exact W.
  - apply transpose_n_wf. apply dense_length.
  - intros j i Hj Hi. rewrite mget_transpose_n by (rewrite ?dense_length; assumption).
    rewrite mget_dense by (rewrite ?stranspose_nrow, ?stranspose_ncol; assumption).
    rewrite mget_dense by assumption.
    unfold stranspose; simpl. rewrite nth_seq_map by exact Hj.
    rewrite entry_tcol. replace (Nat.leb 0 i) with true by reflexivity.
    replace (Nat.ltb i (0 + length (s_rows s))) with true by (symmetry; apply Nat.ltb_lt; exact Hi).
    simpl. rewrite Nat.sub_0_r. reflexivity.
Qed.

(** sparse product *)
Lemma smul_ncol a b : s_ncol (smul a b) = s_ncol b. Proof. reflexivity. Qed.
Lemma smul_nrow a b : s_nrow (smul a b) = s_nrow a. Proof. unfold s_nrow, smul; simpl. vlen. Qed.
Lemma srow_mul_wf row b : swf b -> srow_wf (s_ncol b) (srow_mul row b).
Proof.
  intros W. unfold srow_mul, srow_wf. rewrite Forall_forall. intros e He. apply in_flat_map in He.
  destruct He as [e' [_ He]]. apply in_map_iff in He. destruct He as [f [<- Hf]]. simpl.
  pose proof (swf_row b (fst e') W) as Wr. unfold srow_wf in Wr. rewrite Forall_forall in Wr. apply Wr; exact Hf.
Qed.
Lemma swf_smul a b : swf b -> swf (smul a b).
Proof.
  intros W. unfold swf, smul; simpl. rewrite Forall_forall. intros r Hr. apply in_map_iff in Hr.
  destruct Hr as [row [<- _]]. apply srow_mul_wf; exact W.
Qed.
Lemma dense_row_app n r1 r2 : dense_row n (r1 ++ r2) =v vadd (dense_row n r1) (dense_row n r2).
Proof.
  apply veq_nth; [vlen|]. intros j Hj. rewrite dense_row_length in Hj.
  rewrite nthq_vadd by vlen. rewrite !nthq_dense_row by exact Hj. apply entry_app.
Qed.
Lemma dense_row_scale n c row : dense_row n (map (fun e => (fst e, c * snd e)) row) =v vscale c (dense_row n row).
Proof.
  apply veq_nth; [vlen|]. intros j Hj. rewrite dense_row_length in Hj.
  rewrite nthq_vscale by vlen. rewrite !nthq_dense_row by exact Hj. apply entry_scale.
Qed.
Lemma srow_mul_dense n row b : srow_wf n row -> s_nrow b = n ->
  dense_row (s_ncol b) (srow_mul row b) =v vec_mat (s_ncol b) (dense_row n row) (dense b).
Proof.
  intros W Hn. pose proof (dense_wf b) as WB. rewrite Hn in WB. pose proof (wf_mat_rows _ _ _ WB) as FB.
  induction W as [|e row He W IH].
  - rewrite dense_row_nil, vec_mat_vzero_l by exact FB. unfold srow_mul; simpl. apply dense_row_nil.
  - rewrite dense_row_cons. rewrite vec_mat_vadd_l by (auto; vlen). rewrite vec_mat_vscale_l by exact FB.
    rewrite (vec_mat_unit n (s_ncol b)) by assumption.
    unfold srow_mul in *; simpl. rewrite dense_row_app, IH, dense_row_scale.
    rewrite nth_dense by lia. reflexivity.
Qed.
Theorem dense_smul a b : swf a -> s_ncol a = s_nrow b -> dense (smul a b) =m mat_mul (s_ncol b) (dense a) (dense b).
Proof.
  intros W E. unfold dense at 1 2, smul, mat_mul; simpl. rewrite !map_map. unfold swf in W.
  induction W as [|row rows Hr W IH]; simpl; constructor; auto. apply srow_mul_dense; [exact Hr | symmetry; exact E].
Qed.

(** diagonal matrices *)
Lemma sdiag_ncol w : s_ncol (sdiag w) = length w. Proof. reflexivity. Qed.
Lemma sdiag_nrow w : s_nrow (sdiag w) = length w. Proof. unfold s_nrow, sdiag; simpl. vlen. Qed.
Lemma swf_sdiag w : swf (sdiag w).
Proof.
  unfold swf, sdiag; simpl. rewrite Forall_forall. intros r Hr. apply in_map_iff in Hr. destruct Hr as [i [<- Hi]].
  apply in_seq in Hi. destruct (Qeq_bool (nthq w i) 0); constructor; simpl; [lia | constructor].
Qed.
Lemma sdiag_pinv_ncol w : s_ncol (sdiag_pinv w) = length w. Proof. reflexivity. Qed.
Lemma sdiag_pinv_nrow w : s_nrow (sdiag_pinv w) = length w. Proof. unfold sdiag_pinv. rewrite smap_nrow. apply sdiag_nrow. Qed.
Lemma swf_sdiag_pinv w : swf (sdiag_pinv w). Proof. apply swf_smap, swf_sdiag. Qed.
Theorem dense_sdiag w : dense (sdiag w) =m diag w.
Proof.
  apply (meq_mget (length w) (length w)).
  - pose proof (dense_wf (sdiag w)) as W. rewrite sdiag_nrow, sdiag_ncol in W. exact W.
  - apply diag_wf.
  - intros i j Hi Hj. rewrite mget_dense by (rewrite ?sdiag_nrow, ?sdiag_ncol; assumption). rewrite mget_diag by assumption.
    unfold sdiag; simpl. rewrite nth_seq_map by exact Hi.
    destruct (Qeq_bool (nthq w i) 0) eqn:E.
    + rewrite entry_nil. apply Qeq_bool_iff in E. destruct (Nat.eqb i j); [symmetry; exact E | reflexivity].
    + rewrite entry_cons, entry_nil. simpl. destruct (Nat.eqb i j); ring.
Qed.
Theorem dense_sdiag_pinv w : dense (sdiag_pinv w) =m diag (map pinv w).
Proof.
  apply (meq_mget (length w) (length w)).
  - pose proof (dense_wf (sdiag_pinv w)) as W. rewrite sdiag_pinv_nrow, sdiag_pinv_ncol in W. exact W.
  - pose proof (diag_wf (map pinv w)) as W. rewrite map_length in W. exact W.
  - intros i j Hi Hj. rewrite mget_dense by (rewrite ?sdiag_pinv_nrow, ?sdiag_pinv_ncol; assumption).
    rewrite mget_diag by (rewrite map_length; assumption). rewrite nthq_map by exact Hi.
    unfold sdiag_pinv, smap, sdiag; simpl. rewrite map_map. rewrite nth_seq_map by exact Hi.
    unfold pinv. destruct (Qeq_bool (nthq w i) 0) eqn:E; simpl.
    + rewrite entry_nil. destruct (Nat.eqb i j); reflexivity.
    + rewrite entry_cons, entry_nil. simpl. destruct (Nat.eqb i j); ring.
Qed.
Lemma smv_sdiag_pinv w x : length x = length w -> smv (sdiag_pinv w) x =v vmul (map pinv w) x.
Proof.
  intros H. rewrite smv_dense by (auto using swf_sdiag_pinv). rewrite dense_sdiag_pinv.
  apply mat_vec_diag. rewrite map_length. exact H.
Qed.
Lemma dense_smul_sdiag_pinv w s : s_nrow s = length w ->
  dense (smul (sdiag_pinv w) s) =m row_scale (map pinv w) (dense s).
Proof.
  intros H. rewrite dense_smul by (auto using swf_sdiag_pinv; rewrite sdiag_pinv_ncol; symmetry; exact H).
  rewrite dense_sdiag_pinv. symmetry. apply (row_scale_diag (length w)); [apply map_length|].
  rewrite <- H. apply dense_wf.
Qed.
Lemma smm_sdiag_pinv k w X : wf_mat (length w) k X -> smm k (sdiag_pinv w) X =m row_scale (map pinv w) X.
Proof.
  intros WX. rewrite smm_dense by (auto using swf_sdiag_pinv). rewrite dense_sdiag_pinv.
  symmetry. apply (row_scale_diag (length w)); [apply map_length | exact WX].
Qed.

(** Property C07, tree builders: the trees built by LouvainHierarchy._get_hierarchy ([lh_tree]) and by
    LouvainIteration._recursive_louvain ([ri]) around a Louvain oracle are well-shaped (every list has at least
    two elements) and their leaves are exactly the nodes. *)
From Coq Require Import Permutation Lia Sorting.Sorted.
From SKN Require Import Base.Util Model.Dendrogram Model.Cuts Model.Hierarchy.
Set Warnings "-deprecated-hint-without-locality".

(** * [unique] (np.unique) *)

Lemma ins_nat_In x a l : In x (ins_nat a l) <-> x = a \/ In x l.
Proof.
  induction l as [|y t IH]; simpl.
  - intuition congruence.
  - destruct (Nat.eqb a y) eqn:E.
    + apply Nat.eqb_eq in E. subst. simpl. intuition congruence.
    + destruct (Nat.ltb a y); simpl; [intuition congruence|]. rewrite IH. intuition congruence.
Qed.

Lemma unique_In x l : In x (unique l) <-> In x l.
Proof.
  unfold unique. induction l as [|a t IH]; simpl; [tauto|].
  rewrite ins_nat_In, IH. intuition congruence.
Qed.

Lemma ins_nat_sorted a l : StronglySorted lt l -> StronglySorted lt (ins_nat a l).
Proof.
  induction l as [|y t IH]; simpl; intros HS.
  - constructor; constructor.
  - inversion HS as [|? ? HS' HF]; subst.
    destruct (Nat.eqb a y) eqn:E; [exact HS|].
    destruct (Nat.ltb a y) eqn:L.
    + apply Nat.ltb_lt in L. constructor; [exact HS|]. constructor; [exact L|].
      eapply Forall_impl; [|exact HF]. simpl. intros; lia.
    + apply Nat.eqb_neq in E. apply Nat.ltb_ge in L. constructor; [apply IH; exact HS'|].
      apply Forall_forall. intros z Hz. apply ins_nat_In in Hz. destruct Hz as [->|Hz]; [lia|].
      rewrite Forall_forall in HF. apply HF; exact Hz.
Qed.

Lemma unique_sorted l : StronglySorted lt (unique l).
Proof.
  unfold unique. induction l as [|a t IH]; simpl; [constructor|]. apply ins_nat_sorted; exact IH.
Qed.

Lemma sorted_NoDup l : StronglySorted lt l -> NoDup l.
Proof.
  induction 1 as [|a l HS IH HF]; constructor; [|exact IH].
  intros Hin. rewrite Forall_forall in HF. specialize (HF a Hin). lia.
Qed.

Lemma unique_NoDup l : NoDup (unique l).
Proof. apply sorted_NoDup, unique_sorted. Qed.

Lemma unique_nonempty l : l <> [] -> unique l <> [].
Proof.
  destruct l as [|a t]; [congruence|]. intros _ E.
  assert (H : In a (unique (a :: t))) by (apply unique_In; left; reflexivity).
  rewrite E in H. exact H.
Qed.

(** * Generic list facts *)

Lemma map_fst_combine {A B} (l1 : list A) : forall (l2 : list B), length l1 = length l2 ->
  map fst (combine l1 l2) = l1.
Proof.
  induction l1 as [|a t IH]; intros [|b t2] HL; simpl in *; try reflexivity; try discriminate.
  f_equal. apply IH. lia.
Qed.

Lemma map_snd_combine {A B} (l1 : list A) : forall (l2 : list B), length l1 = length l2 ->
  map snd (combine l1 l2) = l2.
Proof.
  induction l1 as [|a t IH]; intros [|b t2] HL; simpl in *; try reflexivity; try discriminate.
  f_equal. apply IH. lia.
Qed.

Lemma nodup_fst_functional {A B} (l : list (A * B)) : NoDup (map fst l) ->
  forall i c c', In (i, c) l -> In (i, c') l -> c = c'.
Proof.
  induction l as [|[j d] t IH]; simpl; intros HN i c c' H1 H2; [contradiction|].
  inversion HN as [|? ? Hnot HN']; subst.
  destruct H1 as [H1|H1], H2 as [H2|H2].
  - congruence.
  - inversion H1; subst. exfalso. apply Hnot. apply in_map_iff. exists (i, c'). split; [reflexivity|exact H2].
  - inversion H2; subst. exfalso. apply Hnot. apply in_map_iff. exists (i, c). split; [reflexivity|exact H1].
  - eapply IH; eauto.
Qed.

Lemma nodup_map_filter {A B} (g : A -> B) (p : A -> bool) (l : list A) :
  NoDup (map g l) -> NoDup (map g (filter p l)).
Proof.
  induction l as [|a t IH]; simpl; intros HN; [constructor|].
  inversion HN as [|? ? Hnot HN']; subst.
  destruct (p a); simpl; [|apply IH; exact HN'].
  constructor; [|apply IH; exact HN'].
  intros Hin. apply Hnot. apply in_map_iff in Hin. destruct Hin as [x [Hx Hin]].
  apply filter_In in Hin. apply in_map_iff. exists x. tauto.
Qed.

Lemma NoDup_app_disj {A} (l1 l2 : list A) :
  NoDup l1 -> NoDup l2 -> (forall x, In x l1 -> ~ In x l2) -> NoDup (l1 ++ l2).
Proof.
  induction l1 as [|a t IH]; simpl; intros H1 H2 HD; [exact H2|].
  inversion H1 as [|? ? Hnot H1']; subst. constructor.
  - intros Hin. apply in_app_or in Hin. destruct Hin as [Hin|Hin]; [exact (Hnot Hin)|].
    exact (HD a (or_introl eq_refl) Hin).
  - apply IH; [exact H1'|exact H2|]. intros x Hx. apply HD. right; exact Hx.
Qed.

Lemma NoDup_flat_map_disj {A B} (f : A -> list B) (l : list A) :
  NoDup l -> (forall x, In x l -> NoDup (f x)) ->
  (forall x y i, In x l -> In y l -> In i (f x) -> In i (f y) -> x = y) ->
  NoDup (flat_map f l).
Proof.
  induction l as [|a t IH]; simpl; intros HN HF HD; [constructor|].
  inversion HN as [|? ? Hnot HN']; subst.
  apply NoDup_app_disj.
  - apply HF. left; reflexivity.
  - apply IH; [exact HN'| |].
    + intros x Hx. apply HF. right; exact Hx.
    + intros x y i Hx Hy. apply HD; right; assumption.
  - intros i Hi Hin. apply in_flat_map in Hin. destruct Hin as [y [Hy Hiy]].
    assert (E : a = y).
    { apply (HD a y i); [left; reflexivity|right; exact Hy|exact Hi|exact Hiy]. }
    subst. exact (Hnot Hy).
Qed.

(** [sel d l idx] = [[l[i] for i in idx]] *)
Definition sel {A} (d : A) (l : list A) (idx : list nat) : list A := map (fun i => nth i l d) idx.

Lemma mapr_nth_sel {A} (d : A) (l : list A) (idx : list nat) :
  Forall (fun i => i < length l) idx -> mapr_nth l idx = Ok (sel d l idx).
Proof.
  induction idx as [|i rest IH]; simpl; intros HF; [reflexivity|].
  inversion HF as [|? ? Hi HF']; subst.
  destruct (nth_error l i) as [a|] eqn:E.
  - rewrite (IH HF'). f_equal. f_equal. symmetry. apply nth_error_nth. exact E.
  - apply nth_error_None in E. lia.
Qed.

Lemma sel_seq {A} (d : A) (l : list A) : sel d l (seq 0 (length l)) = l.
Proof.
  unfold sel. induction l as [|a t IH]; simpl; [reflexivity|].
  f_equal. rewrite <- seq_shift, map_map. simpl. exact IH.
Qed.

Lemma sel_In {A} (d : A) (l : list A) (idx : list nat) x :
  Forall (fun i => i < length l) idx -> In x (sel d l idx) -> In x l.
Proof.
  unfold sel. intros HF Hin. apply in_map_iff in Hin. destruct Hin as [i [E Hi]].
  rewrite Forall_forall in HF. subst. apply nth_In. apply HF. exact Hi.
Qed.

Lemma flat_map_leaf l : flat_map tleaves (map PLeaf l) = l.
Proof. induction l as [|a t IH]; simpl; [reflexivity|]. f_equal. exact IH. Qed.

Lemma shape_leaf l : forallb tree_shape (map PLeaf l) = true.
Proof. induction l as [|a t IH]; simpl; [reflexivity|exact IH]. Qed.

(** * [members] *)

Lemma members_In labels c i :
  In i (members labels c) <-> In (i, c) (combine (seq 0 (length labels)) labels).
Proof.
  unfold members. rewrite in_map_iff. split.
  - intros [[j d] [E Hin]]. simpl in E. subst. apply filter_In in Hin. destruct Hin as [Hin Hc].
    simpl in Hc. apply Nat.eqb_eq in Hc. subst. exact Hin.
  - intros Hin. exists (i, c). split; [reflexivity|]. apply filter_In. split; [exact Hin|].
    simpl. apply Nat.eqb_refl.
Qed.

Lemma members_lt labels c i : In i (members labels c) -> i < length labels.
Proof.
  intros H. apply members_In in H. apply in_combine_l in H. apply in_seq in H. lia.
Qed.

Lemma members_Forall labels c n : length labels = n -> Forall (fun i => i < n) (members labels c).
Proof. intros <-. apply Forall_forall. intros i. apply members_lt. Qed.

Lemma members_label labels c i : In i (members labels c) -> In c labels.
Proof. intros H. apply members_In in H. apply in_combine_r in H. exact H. Qed.

Lemma members_NoDup labels c : NoDup (members labels c).
Proof.
  unfold members. apply nodup_map_filter. rewrite map_fst_combine by apply seq_length. apply seq_NoDup.
Qed.

Lemma members_functional labels c c' i : In i (members labels c) -> In i (members labels c') -> c = c'.
Proof.
  intros H1 H2. apply members_In in H1. apply members_In in H2.
  eapply nodup_fst_functional; [|exact H1|exact H2].
  rewrite map_fst_combine by apply seq_length. apply seq_NoDup.
Qed.

Lemma members_total labels i : i < length labels -> exists c, In i (members labels c).
Proof.
  intros Hi.
  assert (H : In i (map fst (combine (seq 0 (length labels)) labels))).
  { rewrite map_fst_combine by apply seq_length. apply in_seq. lia. }
  apply in_map_iff in H. destruct H as [[j c] [E Hin]]. simpl in E. subst.
  exists c. apply members_In. exact Hin.
Qed.

Lemma members_exists labels c : In c labels -> exists i, In i (members labels c).
Proof.
  intros Hc.
  assert (H : In c (map snd (combine (seq 0 (length labels)) labels))).
  { rewrite map_snd_combine by apply seq_length. exact Hc. }
  apply in_map_iff in H. destruct H as [[i d] [E Hin]]. simpl in E. subst.
  exists i. apply members_In. exact Hin.
Qed.

Lemma members_nonempty labels c : In c labels -> members labels c <> [].
Proof. intros Hc E. destruct (members_exists labels c Hc) as [i Hi]. rewrite E in Hi. exact Hi. Qed.

Lemma members_length_lt labels c c' : In c' labels -> c' <> c -> length (members labels c) < length labels.
Proof.
  intros Hc' Hne. destruct (members_exists labels c' Hc') as [i Hi].
  assert (HN : NoDup (i :: members labels c)).
  { constructor; [|apply members_NoDup]. intros Hin. apply Hne. eapply members_functional; eauto. }
  assert (HI : incl (i :: members labels c) (seq 0 (length labels))).
  { intros j [<-|Hj]; apply in_seq; [apply members_lt in Hi|apply members_lt in Hj]; lia. }
  pose proof (NoDup_incl_length HN HI) as HL. simpl in HL. rewrite seq_length in HL. lia.
Qed.

(** The classes of [np.unique(labels)] partition the positions. *)
Lemma members_perm labels :
  Permutation (flat_map (members labels) (unique labels)) (seq 0 (length labels)).
Proof.
  apply NoDup_Permutation.
  - apply NoDup_flat_map_disj.
    + apply unique_NoDup.
    + intros c _. apply members_NoDup.
    + intros c c' i _ _. apply members_functional.
  - apply seq_NoDup.
  - intros i. rewrite in_flat_map. split.
    + intros [c [_ Hi]]. apply in_seq. apply members_lt in Hi. lia.
    + intros Hi. apply in_seq in Hi. destruct (members_total labels i) as [c Hc]; [lia|].
      exists c. split; [|exact Hc]. apply unique_In. eapply members_label; exact Hc.
Qed.

(** * One level of LouvainHierarchy._get_hierarchy *)

Lemma group_level_eq tree labels lu : length tree = length labels ->
  group_level tree labels lu = Ok (map (fun c => unwrap1 (sel (PLeaf 0) tree (members labels c))) lu).
Proof.
  intros HL. induction lu as [|c rest IH]; simpl; [reflexivity|].
  rewrite (mapr_nth_sel (PLeaf 0)) by (apply members_Forall; symmetry; exact HL).
  rewrite IH. reflexivity.
Qed.

Lemma tleaves_unwrap1 cl : tleaves (unwrap1 cl) = flat_map tleaves cl.
Proof. destruct cl as [|t [|t' r]]; simpl; rewrite ?app_nil_r; reflexivity. Qed.

Lemma shape_unwrap1 cl : cl <> [] -> forallb tree_shape cl = true -> tree_shape (unwrap1 cl) = true.
Proof.
  destruct cl as [|t [|t' r]]; intros HN HS; [congruence| |].
  - simpl in *. apply andb_true_iff in HS. tauto.
  - change (unwrap1 (t :: t' :: r)) with (PNode (t :: t' :: r)). simpl tree_shape.
    change (forallb tree_shape (t :: t' :: r) = true). exact HS.
Qed.

Lemma leaves_group tree labels lu :
  flat_map tleaves (map (fun c => unwrap1 (sel (PLeaf 0) tree (members labels c))) lu)
  = flat_map tleaves (sel (PLeaf 0) tree (flat_map (members labels) lu)).
Proof.
  induction lu as [|c rest IH]; simpl; [reflexivity|].
  rewrite tleaves_unwrap1, IH. unfold sel. rewrite map_app, flat_map_app. reflexivity.
Qed.

Lemma group_step tree labels : length tree = length labels -> forallb tree_shape tree = true ->
  forallb tree_shape (map (fun c => unwrap1 (sel (PLeaf 0) tree (members labels c))) (unique labels)) = true /\
  Permutation (flat_map tleaves (map (fun c => unwrap1 (sel (PLeaf 0) tree (members labels c))) (unique labels)))
              (flat_map tleaves tree).
Proof.
  intros HL HS. split.
  - apply forallb_forall. intros t Ht. apply in_map_iff in Ht. destruct Ht as [c [<- Hc]].
    apply (proj1 (unique_In c labels)) in Hc.
    assert (HF : Forall (fun i => i < length tree) (members labels c)) by (apply members_Forall; symmetry; exact HL).
    apply shape_unwrap1.
    + pose proof (members_nonempty labels c Hc) as HN. unfold sel.
      destruct (members labels c); [congruence|simpl; discriminate].
    + apply forallb_forall. intros x Hx. apply sel_In in Hx; [|exact HF].
      rewrite forallb_forall in HS. apply HS. exact Hx.
  - rewrite leaves_group.
    rewrite <- (sel_seq (PLeaf 0) tree) at 2.
    apply Permutation_flat_map. unfold sel. apply Permutation_map.
    rewrite HL. apply members_perm.
Qed.

(** * The [while 1] loop *)

(** contract of the Louvain oracle for LouvainHierarchy: the first label vector has one label per node, each later
    one has one label per cluster of the previous level *)
Fixpoint levels_ok (m : nat) (levels : list (list nat)) : Prop :=
  match levels with
  | [] => True
  | l :: rest => length l = m /\ levels_ok (length (unique l)) rest
  end.

Lemma lh_loop_ok : forall more tree labels out,
  length tree = length labels -> levels_ok (length (unique labels)) more ->
  forallb tree_shape tree = true -> lh_loop tree labels more = Ok out ->
  forallb tree_shape out = true /\ Permutation (flat_map tleaves out) (flat_map tleaves tree).
Proof.
  induction more as [|l' more' IH]; intros tree labels out HL HK HS HR; simpl in HR;
    rewrite (group_level_eq tree labels _ HL) in HR; [discriminate|].
  destruct (group_step tree labels HL HS) as [HS' HP'].
  destruct (Nat.eqb (length (unique labels)) (length (unique l'))).
  - inversion HR; subst. split; assumption.
  - destruct HK as [HK1 HK2].
    apply IH in HR; [|rewrite map_length; symmetry; exact HK1|exact HK2|exact HS'].
    destruct HR as [HS2 HP2]. split; [exact HS2|].
    eapply Permutation_trans; [exact HP2|exact HP'].
Qed.

Lemma lh_loop_err : forall more tree labels e,
  length tree = length labels -> levels_ok (length (unique labels)) more ->
  lh_loop tree labels more = Err e -> e = KeyError.
Proof.
  induction more as [|l' more' IH]; intros tree labels e HL HK HR; simpl in HR;
    rewrite (group_level_eq tree labels _ HL) in HR; [congruence|].
  destruct (Nat.eqb (length (unique labels)) (length (unique l'))); [discriminate|].
  destruct HK as [HK1 HK2].
  apply IH in HR; [exact HR|rewrite map_length; symmetry; exact HK1|exact HK2].
Qed.

Theorem lh_tree_ok : forall n levels t, 2 <= n -> levels_ok n levels -> lh_tree n levels = Ok t ->
  tree_shape t = true /\ Permutation (tleaves t) (seq 0 n) /\ (exists ts, t = PNode ts).
Proof.
  intros n levels t Hn HK H. unfold lh_tree, lh_tree_gen in H.
  destruct levels as [|labels more]; [discriminate|]. destruct HK as [HL HK].
  destruct (lh_loop (map PLeaf (seq 0 n)) labels more) as [out|e] eqn:HR; [|discriminate].
  apply lh_loop_ok in HR; [|rewrite map_length, seq_length; symmetry; exact HL|exact HK|apply shape_leaf].
  destruct HR as [HS HP]. rewrite flat_map_leaf in HP.
  pose proof (Permutation_length HP) as HLen. rewrite seq_length in HLen.
  destruct out as [|[i|ts] [|t2 r]]; simpl in HLen; try lia.
  - inversion H; subst. split; [|split; [exact HP|eexists; reflexivity]].
    simpl tree_shape. exact HS.
  - inversion H; subst. simpl in HS, HP. rewrite andb_true_r in HS. rewrite app_nil_r in HP.
    split; [exact HS|]. split; [exact HP|]. eexists; reflexivity.
  - inversion H; subst. split; [|split; [exact HP|eexists; reflexivity]].
    simpl tree_shape. exact HS.
Qed.

(** with a well-formed oracle the construction never fails except by running out of oracle answers *)
Theorem lh_tree_no_index_error : forall n levels e, levels_ok n levels -> lh_tree n levels = Err e -> e = KeyError.
Proof.
  intros n levels e HK H. unfold lh_tree, lh_tree_gen in H.
  destruct levels as [|labels more]; [congruence|]. destruct HK as [HL HK].
  destruct (lh_loop (map PLeaf (seq 0 n)) labels more) as [out|e'] eqn:HR.
  - destruct out as [|[i|ts] [|t2 r]]; discriminate.
  - injection H as <-. eapply lh_loop_err; [|exact HK|exact HR].
    rewrite map_length, seq_length. symmetry; exact HL.
Qed.

(** regression marker for defect D24 (before fix 35e73141): one top-level cluster gave an empty dendrogram ->
    IndexError *)
Theorem louvain_hierarchy_legacy_refuted :
  louvain_hierarchy_fit_legacy 3 [[0; 0; 0]; [0]] = Err IndexError.
Proof. vm_compute. reflexivity. Qed.

(** * LouvainIteration._recursive_louvain *)

(** The local [fix each] of [ri], abstracted over the recursive call. *)
Definition ri_each (rec : list nat -> result ptree) (nodes labels : list nat) : list nat -> result (list ptree) :=
  fix each (cs : list nat) : result (list ptree) :=
    match cs with
    | [] => Ok []
    | c :: rest =>
        match mapr_nth nodes (members labels c) with
        | Err e => Err e
        | Ok sub =>
            match rec sub, each rest with
            | Ok t, Ok ts => Ok (t :: ts)
            | Err e, _ => Err e
            | _, Err e => Err e
            end
        end
    end.

Definition ri_labels (oracle : list nat -> list nat) (has_edge : list nat -> bool) (depth : Z) (nodes : list nat)
  : list nat :=
  if has_edge nodes && negb (depth =? 0)%Z then oracle nodes else map (fun _ => 0) nodes.

Lemma ri_S f oracle has_edge depth nodes :
  ri (S f) oracle has_edge depth nodes =
  match unique (ri_labels oracle has_edge depth nodes) with
  | [] => Err IndexError
  | [_] => match nodes with
           | [] => Err IndexError
           | [v] => Ok (PLeaf v)
           | _ => Ok (PNode (map PLeaf nodes))
           end
  | _ => match ri_each (ri f oracle has_edge (depth - 1)%Z) nodes (ri_labels oracle has_edge depth nodes)
                 (unique (ri_labels oracle has_edge depth nodes)) with
         | Ok ts => Ok (PNode ts)
         | Err e => Err e
         end
  end.
Proof. reflexivity. Qed.

Lemma ri_each_cons rec nodes labels c rest :
  ri_each rec nodes labels (c :: rest) =
  match mapr_nth nodes (members labels c) with
  | Err e => Err e
  | Ok sub =>
      match rec sub, ri_each rec nodes labels rest with
      | Ok t, Ok ts => Ok (t :: ts)
      | Err e, _ => Err e
      | _, Err e => Err e
      end
  end.
Proof. reflexivity. Qed.

Lemma ri_labels_length oracle has_edge depth nodes :
  (forall l, length (oracle l) = length l) -> length (ri_labels oracle has_edge depth nodes) = length nodes.
Proof.
  intros HO. unfold ri_labels. destruct (has_edge nodes && negb (depth =? 0)%Z); [apply HO|apply map_length].
Qed.

Lemma ri_each_ok rec nodes labels :
  length labels = length nodes ->
  (forall sub t, rec sub = Ok t -> tree_shape t = true /\ Permutation (tleaves t) sub) ->
  forall cs ts, ri_each rec nodes labels cs = Ok ts ->
  forallb tree_shape ts = true /\ length ts = length cs /\
  Permutation (flat_map tleaves ts) (sel 0 nodes (flat_map (members labels) cs)).
Proof.
  intros HL HR. induction cs as [|c rest IH]; intros ts H.
  - simpl in H. inversion H; subst. simpl. auto.
  - rewrite ri_each_cons in H.
    rewrite (mapr_nth_sel 0) in H by (apply members_Forall; exact HL).
    destruct (rec (sel 0 nodes (members labels c))) as [t|e] eqn:E1; [|discriminate].
    destruct (ri_each rec nodes labels rest) as [ts'|e] eqn:E2; [|discriminate].
    inversion H; subst. apply HR in E1. destruct E1 as [S1 P1].
    destruct (IH ts' eq_refl) as [S2 [L2 P2]].
    split; [simpl; rewrite S1, S2; reflexivity|]. split; [simpl; rewrite L2; reflexivity|].
    simpl. unfold sel in *. rewrite map_app. apply Permutation_app; assumption.
Qed.

Lemma ri_ok_aux oracle has_edge : (forall l, length (oracle l) = length l) ->
  forall fuel depth nodes t, ri fuel oracle has_edge depth nodes = Ok t ->
  tree_shape t = true /\ Permutation (tleaves t) nodes /\ (2 <= length nodes -> exists ts, t = PNode ts).
Proof.
  intros HO. induction fuel as [|f IH]; intros depth nodes t H; [simpl in H; discriminate|].
  rewrite ri_S in H.
  pose proof (ri_labels_length oracle has_edge depth nodes HO) as HL.
  remember (ri_labels oracle has_edge depth nodes) as labels eqn:Elab.
  destruct (unique labels) as [|a [|b r]] eqn:EU; [discriminate| |].
  - destruct nodes as [|v [|w r']]; [discriminate| |].
    + inversion H; subst t. simpl. split; [reflexivity|]. split; [apply Permutation_refl|]. lia.
    + inversion H; subst t. split.
      * simpl tree_shape. apply (shape_leaf (v :: w :: r')).
      * split; [|intros _; eexists; reflexivity].
        change (Permutation (flat_map tleaves (map PLeaf (v :: w :: r'))) (v :: w :: r')).
        rewrite flat_map_leaf. apply Permutation_refl.
  - destruct (ri_each (ri f oracle has_edge (depth - 1)%Z) nodes labels (a :: b :: r)) as [ts|e] eqn:HE;
      [|discriminate].
    inversion H; subst t. rewrite <- EU in HE.
    apply ri_each_ok in HE; [|exact HL|].
    + destruct HE as [S1 [L1 P1]]. split; [|split; [|intros _; eexists; reflexivity]].
      * simpl. rewrite S1, L1, EU. reflexivity.
      * simpl. eapply Permutation_trans; [exact P1|].
        rewrite <- (sel_seq 0 nodes) at 2. unfold sel. apply Permutation_map.
        rewrite <- HL. apply members_perm.
    + intros sub t Hs. apply IH in Hs. tauto.
Qed.

(** LouvainIteration: any oracle returning one label per node *)
Theorem ri_tree_ok : forall fuel oracle has_edge depth nodes t,
  (forall l, length (oracle l) = length l) -> NoDup nodes ->
  ri fuel oracle has_edge depth nodes = Ok t ->
  tree_shape t = true /\ Permutation (tleaves t) nodes /\ (2 <= length nodes -> exists ts, t = PNode ts).
Proof.
  intros fuel oracle has_edge depth nodes t HO _ H. eapply ri_ok_aux; eauto.
Qed.

Lemma ri_each_total rec nodes labels :
  length labels = length nodes ->
  forall cs, (forall c, In c cs -> exists t, rec (sel 0 nodes (members labels c)) = Ok t) ->
  exists ts, ri_each rec nodes labels cs = Ok ts.
Proof.
  intros HL. induction cs as [|c rest IH]; intros HR.
  - exists []. reflexivity.
  - rewrite ri_each_cons.
    rewrite (mapr_nth_sel 0) by (apply members_Forall; exact HL).
    destruct (HR c (or_introl eq_refl)) as [t Ht]. rewrite Ht.
    destruct IH as [ts Hts]; [intros c' Hc'; apply HR; right; exact Hc'|].
    rewrite Hts. eexists; reflexivity.
Qed.

Lemma ri_total_aux oracle has_edge : (forall l, length (oracle l) = length l) ->
  forall fuel depth nodes, nodes <> [] -> length nodes < fuel ->
  exists t, ri fuel oracle has_edge depth nodes = Ok t.
Proof.
  intros HO. induction fuel as [|f IH]; intros depth nodes HN HF; [lia|].
  rewrite ri_S.
  pose proof (ri_labels_length oracle has_edge depth nodes HO) as HL.
  remember (ri_labels oracle has_edge depth nodes) as labels eqn:Elab.
  assert (HU : unique labels <> []).
  { apply unique_nonempty. intros E. rewrite E in HL. destruct nodes; [congruence|discriminate]. }
  pose proof (unique_NoDup labels) as HND.
  destruct (unique labels) as [|a [|b r]] eqn:EU; [congruence| |].
  - destruct nodes as [|v [|w r']]; [congruence| |]; eexists; reflexivity.
  - destruct (ri_each_total (ri f oracle has_edge (depth - 1)%Z) nodes labels HL (a :: b :: r)) as [ts Hts].
    + intros c Hc.
      assert (Hcl : In c labels) by (apply unique_In; rewrite EU; exact Hc).
      assert (Hother : exists c', In c' labels /\ c' <> c).
      { inversion HND as [|? ? Hnot _]; subst.
        destruct (Nat.eq_dec a c) as [->|Hac].
        - exists b. split; [apply unique_In; rewrite EU; right; left; reflexivity|].
          intros ->. apply Hnot. left; reflexivity.
        - exists a. split; [apply unique_In; rewrite EU; left; reflexivity|exact Hac]. }
      destruct Hother as [c' [Hc' Hne]].
      apply IH.
      * pose proof (members_nonempty labels c Hcl) as HM. unfold sel.
        destruct (members labels c); [congruence|simpl; discriminate].
      * unfold sel. rewrite map_length.
        pose proof (members_length_lt labels c c' Hc' Hne). lia.
    + rewrite Hts. eexists; reflexivity.
Qed.

(** the fuel S (length nodes) is enough: never KeyError (out of fuel); with nodes <> [] never an error at all *)
Theorem ri_total : forall oracle has_edge depth nodes,
  (forall l, length (oracle l) = length l) -> nodes <> [] ->
  exists t, ri (S (length nodes)) oracle has_edge depth nodes = Ok t.
Proof.
  intros oracle has_edge depth nodes HO HN. apply ri_total_aux; [exact HO|exact HN|lia].
Qed.

(** * Non-vacuity *)

Example lh_tree_example :
  lh_tree 5 [[0; 0; 1; 1; 1]; [0; 0]; [0]]
  = Ok (PNode [PNode [PLeaf 0; PLeaf 1]; PNode [PLeaf 2; PLeaf 3; PLeaf 4]])
  /\ levels_ok 5 [[0; 0; 1; 1; 1]; [0; 0]; [0]].
Proof. split; [vm_compute; reflexivity|simpl; tauto]. Qed.

Example ri_example :
  ri 5 (map (fun v => Nat.div v 2)) (fun _ => true) 1%Z [0; 1; 2; 3]
  = Ok (PNode [PNode [PLeaf 0; PLeaf 1]; PNode [PLeaf 2; PLeaf 3]]).
Proof. vm_compute. reflexivity. Qed.

Print Assumptions lh_tree_ok.
Print Assumptions lh_tree_no_index_error.
Print Assumptions louvain_hierarchy_legacy_refuted.
Print Assumptions ri_tree_ok.
Print Assumptions ri_total.
